/-
`DSD_Complex.__init__` as translated from the source is the model's `construct` (continued: the theorem itself).
-/
import DsdVerif.Lemmas.PyLegacyInitName

set_option linter.unusedSimpArgs false
set_option linter.unusedVariables false
set_option maxRecDepth 4000

namespace Dsd.PyLegacyInit
open Dsd Dsd.Gen Dsd.Lg Dsd.LgL Dsd.PyLegacy Dsd.PyLegacyReg Dsd.PyObj.Basic

/-- what a construction leaves: the new object (the whole state) or the exception, with the class variables -/
def InitOk (b : LObj) (r : Except Err Unit × DSD_ComplexR.Self) (m : LReg × Except LErr LObj) : Prop :=
  match m with
  | (R', .ok o) => r = (.ok (), ofLR R' o)
  | (R', .error e) => r.1 = .error (errOfR e) ∧ r.2.cls_ID = R'.ID ∧ r.2.cls_NAMES = R'.NAMES ∧
      r.2.cls_MEMORY = (ofLR R' b).cls_MEMORY

/-- closes the goal of a refused construction after `simp only [InitOk]` -/
macro "close_refused" : tactic => `(tactic| first
  | exact ⟨rfl, rfl, rfl, rfl⟩
  | (refine ⟨?_, ?_, ?_, ?_⟩ <;> first | rfl | trivial)
  | (refine ⟨?_, ?_, ?_⟩ <;> first | rfl | trivial)
  | (refine ⟨?_, ?_⟩ <;> first | rfl | trivial)
  | rfl
  | trivial)

theorem lastChar_eq (pfx : String) (hp : pfx ≠ "") :
    ∃ c, Py.LegI_lastChar pfx = .ok c ∧ Py.LegI_isdigit c = endsWithDigit pfx := by
  unfold Py.LegI_lastChar endsWithDigit Py.LegI_isdigit
  cases h : pfx.toList.getLast? with
  | some c => exact ⟨c, rfl, rfl⟩
  | none =>
    exfalso; apply hp
    have : pfx.toList = [] := List.getLast?_eq_none_iff.mp h
    rw [← String.ofList_toList (s := pfx), this]

theorem exec_init (R : LReg) (b : LObj) (seq : List String) (sst : List Char) (name pfx : String) (mc : Bool)
    (hU0 : (R.MEMORY.map (·.1)).Nodup) :
    InitOk b ((py_DSD_ComplexR_init seq sst name pfx mc).exec (ofLR R b)) (construct R b.id seq sst (some name) pfx mc) := by
  unfold py_DSD_ComplexR_init
  by_cases hn : name = ""
  case neg =>
    have hn' : (name != "") = true := by simpa using hn
    rw [construct_named R b.id seq sst name pfx mc hn]
    unfold core
    have hU : (R.MEMORY.map (·.1)).Nodup := hU0
    simp only [exec_ite, exec_bind, exec_get, exec_pure, exec_lift, exec_monadLift, exec_modify, exec_throw, hn', if_true]

    -- the length check
    by_cases hl : seq.length ≠ sst.length
    case pos =>
      have hl' : (seq.length != sst.length) = true := by simpa using hl
      simp only [hl', if_true, exec_throw, if_pos hl, InitOk]
      close_refused
    have hl' : (seq.length != sst.length) = false := by simpa using hl
    simp only [hl', Bool.false_eq_true, if_false, if_neg hl]
    cases mc with
    | false =>
      simp only [Bool.false_eq_true, if_false, exec_pure, InitOk]
      rfl
    | true =>
      simp only [if_true]
      conv in Py.MS.exec py_DSD_ComplexR_canonical_form _ => arg 2; change ofLR R (mk0 b.id name seq sst true)
      rw [exec_canonical_form]
      rcases hcf : (mk0 b.id name seq sst true).canonicalForm R with ⟨o1, r⟩
      cases r with
      | error e => simp only [canonAns, InitOk]; close_refused
      | ok c =>
        have hc1 := canonicalForm_ok _ _ _ _ hcf
        simp only [canonAns]
        have en : (ofLR R o1).cls_NAMES = R.NAMES := rfl
        have enm : (ofLR R o1)._name = o1.name := rfl
        have hnm : o1.name = name := by
          have := canonicalForm_name R (mk0 b.id name seq sst true)
          rw [hcf] at this; exact this
        simp only [en, enm, hnm, Py.dictHas]
        cases hlk : R.NAMES.lookup name with
        | some x => simp only [Option.isSome_some, Bool.not_true, Bool.false_eq_true, if_false, if_true, InitOk]; close_refused
        | none =>
          have hab : Py.dictHas R.NAMES name = false := by unfold Py.dictHas; rw [hlk]; rfl
          simp only [Option.isSome_none, Bool.not_false, if_true, if_false, Bool.false_eq_true, Py.unwrap, pure, Except.pure,
            en, enm, hnm, dictSet_absent _ _ _ hab, dictPut_absent _ _ _ hlk]
          have ho1 : ({ o1 with name := name } : LObj) = o1 := by rw [← hnm]
          conv in Py.MS.exec py_DSD_ComplexR_canonical_form _ => arg 2; change ofLR { R with NAMES := R.NAMES ++ [(name, c)] } ({ o1 with name := name } : LObj)
          rw [ho1]
          rw [exec_canonical_form, canonicalForm_cached _ o1 c hc1]
          simp only [canonAns, Py.unwrap, pure, Except.pure, InitOk]
          have hm : (ofLR { R with NAMES := R.NAMES ++ [(name, c)] } o1).cls_MEMORY = R.MEMORY.map (fun p => (p.1, refOf p.2)) := rfl
          have ho : ((ofLR R o1).oid, (ofLR R o1)._rotations) = refOf o1 := rfl
          simp only [hm, ho]
          cases hmk : R.MEMORY.lookup c with
          | none =>
            have hab2 : Py.dictHas (R.MEMORY.map (fun p => (p.1, refOf p.2))) c = false := by
              unfold Py.dictHas; rw [lookup_map, hmk]; rfl
            rw [dictSet_absent _ _ _ hab2, dictPut_absent _ _ _ hmk]
            simp only [ofLR, List.map_append, List.map_cons, List.map_nil]
          | some ob =>
            rw [dictSet_present refOf R.MEMORY c o1 hU (by rw [hmk]; rfl)]
            rfl

  case pos =>
    subst hn
    have hn' : (("" : String) != "") = false := by decide
    by_cases hp : pfx = ""
    · subst hp
      rw [(construct_bad_prefix R b.id seq sst (some "") "" mc (Or.inr rfl)).1 rfl]
      simp only [exec_ite, exec_bind, exec_get, exec_pure, exec_lift, exec_monadLift, exec_modify, exec_throw, hn', Bool.false_eq_true, if_false,
        beq_self_eq_true, if_true, InitOk]
      close_refused
    · have hp' : (pfx == "") = false := by simpa using hp
      obtain ⟨lc, hlc, hdg⟩ := lastChar_eq pfx hp
      cases hd : endsWithDigit pfx with
      | true =>
        rw [(construct_bad_prefix R b.id seq sst (some "") pfx mc (Or.inr rfl)).2 hp hd]
        rw [hd] at hdg
        simp only [exec_ite, exec_bind, exec_get, exec_pure, exec_lift, exec_monadLift, exec_modify, exec_throw, hn', Bool.false_eq_true, if_false,
          hp', hlc, hdg, if_true, InitOk]
        close_refused
      | false =>
        rw [construct_auto R b.id seq sst (some "") pfx mc (Or.inr rfl) hp hd]
        rw [hd] at hdg
        unfold core
        have hU : (({ R with ID := R.ID + 1 } : LReg).MEMORY.map (·.1)).Nodup := hU0
        simp only [exec_ite, exec_bind, exec_get, exec_pure, exec_lift, exec_monadLift, exec_modify, exec_throw, hn', Bool.false_eq_true, if_false,
          hp', hlc, hdg, Py.LegI_strNat]

        -- the length check
        by_cases hl : seq.length ≠ sst.length
        case pos =>
          have hl' : (seq.length != sst.length) = true := by simpa using hl
          simp only [hl', if_true, exec_throw, if_pos hl, InitOk]
          close_refused
        have hl' : (seq.length != sst.length) = false := by simpa using hl
        simp only [hl', Bool.false_eq_true, if_false, if_neg hl]
        cases mc with
        | false =>
          simp only [Bool.false_eq_true, if_false, exec_pure, InitOk]
          rfl
        | true =>
          simp only [if_true]
          conv in Py.MS.exec py_DSD_ComplexR_canonical_form _ => arg 2; change ofLR ({ R with ID := R.ID + 1 } : LReg) (mk0 b.id (pfx ++ toString R.ID) seq sst true)
          rw [exec_canonical_form]
          rcases hcf : (mk0 b.id (pfx ++ toString R.ID) seq sst true).canonicalForm ({ R with ID := R.ID + 1 } : LReg) with ⟨o1, r⟩
          cases r with
          | error e => simp only [canonAns, InitOk]; close_refused
          | ok c =>
            have hc1 := canonicalForm_ok _ _ _ _ hcf
            simp only [canonAns]
            have en : (ofLR ({ R with ID := R.ID + 1 } : LReg) o1).cls_NAMES = ({ R with ID := R.ID + 1 } : LReg).NAMES := rfl
            have enm : (ofLR ({ R with ID := R.ID + 1 } : LReg) o1)._name = o1.name := rfl
            have hnm : o1.name = (pfx ++ toString R.ID) := by
              have := canonicalForm_name ({ R with ID := R.ID + 1 } : LReg) (mk0 b.id (pfx ++ toString R.ID) seq sst true)
              rw [hcf] at this; exact this
            simp only [en, enm, hnm, Py.dictHas]
            cases hlk : ({ R with ID := R.ID + 1 } : LReg).NAMES.lookup (pfx ++ toString R.ID) with
            | some x => simp only [Option.isSome_some, Bool.not_true, Bool.false_eq_true, if_false, if_true, InitOk]; close_refused
            | none =>
              have hab : Py.dictHas ({ R with ID := R.ID + 1 } : LReg).NAMES (pfx ++ toString R.ID) = false := by unfold Py.dictHas; rw [hlk]; rfl
              simp only [Option.isSome_none, Bool.not_false, if_true, if_false, Bool.false_eq_true, Py.unwrap, pure, Except.pure,
                en, enm, hnm, dictSet_absent _ _ _ hab, dictPut_absent _ _ _ hlk]
              have ho1 : ({ o1 with name := (pfx ++ toString R.ID) } : LObj) = o1 := by rw [← hnm]
              conv in Py.MS.exec py_DSD_ComplexR_canonical_form _ => arg 2; change ofLR { ({ R with ID := R.ID + 1 } : LReg) with NAMES := ({ R with ID := R.ID + 1 } : LReg).NAMES ++ [((pfx ++ toString R.ID), c)] } ({ o1 with name := (pfx ++ toString R.ID) } : LObj)
              rw [ho1]
              rw [exec_canonical_form, canonicalForm_cached _ o1 c hc1]
              simp only [canonAns, Py.unwrap, pure, Except.pure, InitOk]
              have hm : (ofLR { ({ R with ID := R.ID + 1 } : LReg) with NAMES := ({ R with ID := R.ID + 1 } : LReg).NAMES ++ [((pfx ++ toString R.ID), c)] } o1).cls_MEMORY = ({ R with ID := R.ID + 1 } : LReg).MEMORY.map (fun p => (p.1, refOf p.2)) := rfl
              have ho : ((ofLR ({ R with ID := R.ID + 1 } : LReg) o1).oid, (ofLR ({ R with ID := R.ID + 1 } : LReg) o1)._rotations) = refOf o1 := rfl
              simp only [hm, ho]
              cases hmk : ({ R with ID := R.ID + 1 } : LReg).MEMORY.lookup c with
              | none =>
                have hab2 : Py.dictHas (({ R with ID := R.ID + 1 } : LReg).MEMORY.map (fun p => (p.1, refOf p.2))) c = false := by
                  unfold Py.dictHas; rw [lookup_map, hmk]; rfl
                rw [dictSet_absent _ _ _ hab2, dictPut_absent _ _ _ hmk]
                simp only [ofLR, List.map_append, List.map_cons, List.map_nil]
              | some ob =>
                rw [dictSet_present refOf ({ R with ID := R.ID + 1 } : LReg).MEMORY c o1 hU (by rw [hmk]; rfl)]
                rfl

end Dsd.PyLegacyInit
