/-
The line-level layout of seesaw documents (C19): statements terminated by "\n" or "\r\n", followed on the same line
by whitespace and a comment, separated by empty / whitespace-only / comment-only lines, with such lines before the
first and after the last statement, and an unterminated last line.  (The PIL counterpart is Lemmas/PilLayout.lean;
the two stacks cannot be imported together, hence the definitions are repeated here.)

A seesaw statement does not own its line ends (`ssw_stmt = Group(alt …) + OneOrMore(LineEnd)`) and every statement
body ends with the literal `]`, so `Ssw.StmtText` holds in front of ANY continuation and no restriction on the
whitespace after a statement is needed.
-/
import DsdVerif.Lemmas.PPSswDoc

namespace Dsd.PP.Ssw
open Dsd.PP Dsd.Gen

/-! ### lines without a statement -/

/-- whitespace inside a line: blanks and carriage returns (tabs are expanded by `parseString` and are excluded) -/
def WsOK (ws : List Char) : Prop := ∀ c ∈ ws, c = ' ' ∨ c = '\r'

/-- the text of a comment after `#`: it runs to the end of the line (a CR before the line feed is part of it) -/
def CmOK (cm : List Char) : Prop := '\n' ∉ cm ∧ '\t' ∉ cm

/-- a line (or the rest of a line) without a statement: whitespace, optionally a comment -/
structure BLine where
  ws : List Char
  cm : Option (List Char)

def BLine.body (b : BLine) : List Char :=
  b.ws ++ (match b.cm with | none => [] | some c => '#' :: c)

def BLine.text (b : BLine) : List Char := b.body ++ ['\n']

structure BLine.OK (b : BLine) : Prop where
  ws : WsOK b.ws
  cm : ∀ c, b.cm = some c → CmOK c

theorem skipWs_ws (ws r : List Char) (h : WsOK ws) : skipWs (ws ++ r) = skipWs r := by
  induction ws with
  | nil => rfl
  | cons c ws ih =>
    have hc : isWs c = true := by
      rcases h c (by simp) with rfl | rfl <;> decide
    have := ih (fun x hx => h x (List.mem_cons_of_mem _ hx))
    simp only [skipWs, List.cons_append, List.dropWhile_cons, hc, if_true] at this ⊢
    exact this

theorem dropWhile_to_nl (cm r : List Char) (h : '\n' ∉ cm) :
    (cm ++ '\n' :: r).dropWhile (· != '\n') = '\n' :: r := by
  induction cm with
  | nil => simp
  | cons c cm ih =>
    simp only [List.mem_cons, not_or] at h
    have : (c != '\n') = true := by simp; exact fun e => h.1 e.symm
    rw [List.cons_append, List.dropWhile_cons, this]
    exact ih h.2

theorem dropWhile_nonl (cm : List Char) (h : '\n' ∉ cm) : cm.dropWhile (· != '\n') = [] := by
  induction cm with
  | nil => rfl
  | cons c cm ih =>
    simp only [List.mem_cons, not_or] at h
    have : (c != '\n') = true := by simp; exact fun e => h.1 e.symm
    rw [List.dropWhile_cons, this]
    exact ih h.2

theorem skipIgn_bline (b : BLine) (hb : b.OK) (r : List Char) : skipIgn (b.body ++ '\n' :: r) = '\n' :: r := by
  obtain ⟨ws, cm⟩ := b
  cases cm with
  | none =>
    have e : skipWs (ws ++ [] ++ '\n' :: r) = '\n' :: r := by
      rw [List.append_nil, skipWs_ws ws _ hb.ws]; exact skipWs_cons_of '\n' r (by decide)
    unfold skipIgn
    simp only [BLine.body, e]
    split
    · rename_i heq; simp at heq
    · rfl
  | some c =>
    have hc := hb.cm c rfl
    have e : skipWs (ws ++ '#' :: c ++ '\n' :: r) = '#' :: (c ++ '\n' :: r) := by
      rw [List.append_assoc, skipWs_ws ws _ hb.ws]; exact skipWs_cons_of '#' _ (by decide)
    unfold skipIgn
    simp only [BLine.body, e]
    have : ('#' :: (c ++ '\n' :: r)).dropWhile (· != '\n') = '\n' :: r := by
      rw [List.dropWhile_cons]; simp only [show ('#' != '\n') = true by decide, if_true]
      exact dropWhile_to_nl c r hc.1
    rw [this]; exact skipWs_cons_of '\n' r (by decide)

theorem skipIgn_body (b : BLine) (hb : b.OK) : skipIgn b.body = [] := by
  obtain ⟨ws, cm⟩ := b
  cases cm with
  | none =>
    have e : skipWs (ws ++ []) = [] := by rw [skipWs_ws ws _ hb.ws]; rfl
    unfold skipIgn
    simp only [BLine.body, e]
  | some c =>
    have hc := hb.cm c rfl
    have e : skipWs (ws ++ '#' :: c) = '#' :: c := by
      rw [skipWs_ws ws _ hb.ws]; exact skipWs_cons_of '#' _ (by decide)
    unfold skipIgn
    simp only [BLine.body, e]
    have : ('#' :: c).dropWhile (· != '\n') = [] :=
      dropWhile_nonl _ (by simp only [List.mem_cons, not_or]; exact ⟨by decide, hc.1⟩)
    rw [this]; rfl

theorem notab_bline (b : BLine) (hb : b.OK) : '\t' ∉ b.body := by
  obtain ⟨ws, cm⟩ := b
  have h1 : '\t' ∉ ws := fun h => by rcases hb.ws _ h with e | e <;> revert e <;> decide
  cases cm with
  | none => simpa [BLine.body] using h1
  | some c =>
    have hc := (hb.cm c rfl).2
    simp only [BLine.body, List.mem_append, List.mem_cons, not_or]
    exact ⟨h1, by decide, hc⟩

def blines (bs : List BLine) : List Char := bs.flatMap BLine.text

theorem blines_cons (b : BLine) (bs : List BLine) (R : List Char) :
    blines (b :: bs) ++ R = b.body ++ '\n' :: (blines bs ++ R) := by
  simp [blines, BLine.text, List.append_assoc]

theorem blines_length (bs : List BLine) : bs.length ≤ (blines bs).length := by
  induction bs with
  | nil => simp [blines]
  | cons b bs ih =>
    have : blines (b :: bs) = b.text ++ blines bs := by simp [blines]
    rw [this]
    simp only [BLine.text, List.length_append, List.length_cons, List.length_nil]
    omega

theorem notab_blines (bs : List BLine) (h : ∀ b ∈ bs, b.OK) : '\t' ∉ blines bs := by
  intro hm
  simp only [blines, List.mem_flatMap] at hm
  obtain ⟨b, hb, hm⟩ := hm
  simp only [BLine.text, List.mem_append, List.mem_cons, List.not_mem_nil, or_false] at hm
  rcases hm with hm | hm
  · exact notab_bline b (h b hb) hm
  · revert hm; decide

/-! ### line ends in any layout -/

variable {env : Env}

theorem ev_lineEnd_bline (b : BLine) (hb : b.OK) (r : List Char) :
    Ev env sk .lineEnd (P (b.body ++ '\n' :: r)) (some (P r, [.tok "\n"])) 1 := by
  intro fuel hf
  obtain ⟨f, rfl⟩ : ∃ f, fuel = f + 1 := ⟨fuel - 1, by omega⟩
  have hp : pre sk (P (b.body ++ '\n' :: r)) = P ('\n' :: r) := by
    simp only [pre, if_true]; rw [skipIgn_bline b hb r]
  simp only [run, hp]

theorem ev_lineEnd_eofL (R : List Char) (h : skipIgn R = []) : Ev env sk .lineEnd (P R) (some (Pend, [])) 1 := by
  intro fuel hf
  obtain ⟨f, rfl⟩ : ∃ f, fuel = f + 1 := ⟨fuel - 1, by omega⟩
  have hp : pre sk (P R) = P [] := by simp only [pre, if_true]; rw [h]
  simp only [run, hp]
  simp

/-- the continuation after the statement-free lines: the end of the text (possibly an unterminated line of
    whitespace / a comment), or the next statement -/
inductive ContL : List Char → Pos → Prop
  | eof (R : List Char) : skipIgn R = [] → ContL R Pend
  | next (c : Char) (r : List Char) : StartCh c → ContL (c :: r) (P (c :: r))

theorem evm_blines (bs : List BLine) (hbs : ∀ b ∈ bs, b.OK) (R : List Char) (p : Pos) (hc : ContL R p) :
    EvMany env sk (.suppress .lineEnd) (P (blines bs ++ R)) (some (p, [])) (bs.length + 4) := by
  induction bs with
  | nil =>
    cases hc with
    | eof R hR =>
      have h2 : Ev env sk (.suppress .lineEnd) (P R) (some (Pend, [])) 2 := ev_suppress (ev_lineEnd_eofL R hR)
      have h3 : Ev env sk (.suppress .lineEnd) Pend none 1 := ev_suppress_fail ev_lineEnd_past
      exact (evm_step h2 (by simp) (evm_stop h3)).cast rfl (by simp)
    | next c r hc' =>
      have hpre : (pre sk (P (c :: r))).rest = c :: r := by
        simp only [pre, if_true]; exact skipIgn_cons_of c r hc'.1 hc'.2.1
      exact (evm_stop (ev_suppress_fail (ev_lineEnd_fail c r hpre hc'.2.2))).cast rfl (by simp)
  | cons b bs ih =>
    have ih' := ih (fun x hx => hbs x (List.mem_cons_of_mem _ hx))
    have h1 : Ev env sk (.suppress .lineEnd) (P (b.body ++ '\n' :: (blines bs ++ R)))
        (some (P (blines bs ++ R), [])) 2 := ev_suppress (ev_lineEnd_bline b (hbs b (by simp)) _)
    have hne : P (blines bs ++ R) ≠ P (b.body ++ '\n' :: (blines bs ++ R)) := by
      intro h
      have := congrArg (fun p : Pos => p.rest.length) h
      simp at this
      omega
    rw [blines_cons]
    exact (evm_step h1 hne ih').cast rfl (by simp only [List.length_cons]; omega)

/-- what separates a statement from the next one: the rest of its line (whitespace, optionally a comment, the line
    feed), then any number of statement-free lines -/
structure LineSep where
  first : BLine
  more : List BLine

def LineSep.text (sp : LineSep) : List Char := sp.first.text ++ blines sp.more

structure LineSep.OK (sp : LineSep) : Prop where
  first : sp.first.OK
  more : ∀ b ∈ sp.more, b.OK

theorem LineSep.text_append (sp : LineSep) (R : List Char) :
    sp.text ++ R = sp.first.body ++ '\n' :: (blines sp.more ++ R) := by
  simp [LineSep.text, BLine.text, List.append_assoc]

theorem LineSep.length_le (sp : LineSep) : sp.more.length + 1 ≤ sp.text.length := by
  have := blines_length sp.more
  simp only [LineSep.text, BLine.text, List.length_append, List.length_cons, List.length_nil]
  omega

theorem ev_lineEnds_sep (sp : LineSep) (h : sp.OK) (R : List Char) (p : Pos) (hc : ContL R p) :
    Ev env sk (.many1 (.suppress .lineEnd)) (P (sp.text ++ R)) (some (p, [])) (sp.more.length + 6) := by
  rw [sp.text_append]
  have h1 : Ev env sk (.suppress .lineEnd) (P (sp.first.body ++ '\n' :: (blines sp.more ++ R)))
      (some (P (blines sp.more ++ R), [])) 2 := ev_suppress (ev_lineEnd_bline sp.first h.first _)
  exact (ev_many1 h1 (evm_blines sp.more h.more R p hc)).cast rfl (by omega)

theorem notab_sep (sp : LineSep) (h : sp.OK) : '\t' ∉ sp.text := by
  have h1 := notab_bline sp.first h.first
  have h2 := notab_blines sp.more h.more
  simp only [LineSep.text, BLine.text, List.mem_append, List.mem_cons, List.not_mem_nil, or_false, not_or]
  exact ⟨⟨h1, by decide⟩, h2⟩

/-! ### one statement inside a document -/

theorem stmt_termL (s : List Char) (t : Tree) (h : StmtText s t) (sp : LineSep) (hsp : sp.OK) (R : List Char)
    (p : Pos) (hc : ContL R p) :
    Ev ssw_env sk ssw_stmt (P (s ++ (sp.text ++ R))) (some (p, [t])) (3 * s.length + sp.more.length + 40) := by
  obtain ⟨ts, b, rfl, hb, hev⟩ := h.parses
  exact (stmt_ok _ _ _ ts b _ (hev _) (ev_lineEnds_sep sp hsp R p hc)).cast rfl (by omega)

/-- the last statement of a document when its line is not terminated: whitespace / a comment follow -/
theorem stmt_openL (s : List Char) (t : Tree) (h : StmtText s t) (fin : List Char) (hfin : skipIgn fin = []) :
    Ev ssw_env sk ssw_stmt (P (s ++ fin)) (some (Pend, [t])) (3 * s.length + 38) := by
  obtain ⟨ts, b, rfl, hb, hev⟩ := h.parses
  have h2 : Ev ssw_env sk (.suppress .lineEnd) (P fin) (some (Pend, [])) 2 := ev_suppress (ev_lineEnd_eofL fin hfin)
  have h3 : Ev ssw_env sk (.suppress .lineEnd) Pend none 1 := ev_suppress_fail ev_lineEnd_past
  have hle : Ev ssw_env sk (.many1 (.suppress .lineEnd)) (P fin) (some (Pend, [])) 4 :=
    (ev_many1 h2 (evm_stop h3)).cast rfl (by decide)
  exact (stmt_ok _ _ _ ts b 4 (hev _) hle).cast rfl (by omega)

/-! ### any number of statements -/

abbrev LItem := List Char × Tree × LineSep

def litemText (x : LItem) : List Char := x.1 ++ x.2.2.text
def litemsText (l : List LItem) : List Char := l.flatMap litemText

def LItemOK (x : LItem) : Prop := StmtText x.1 x.2.1 ∧ x.2.2.OK

theorem litemsText_cons (x : LItem) (xs : List LItem) (T : List Char) :
    litemsText (x :: xs) ++ T = x.1 ++ (x.2.2.text ++ (litemsText xs ++ T)) := by
  simp [litemsText, litemText, List.append_assoc]

theorem litemsText_length_cons (x : LItem) (xs : List LItem) :
    (litemsText (x :: xs)).length = x.1.length + x.2.2.text.length + (litemsText xs).length := by
  simp [litemsText, litemText]; omega

def posOfL (l : List LItem) (T : List Char) (p : Pos) : Pos :=
  match l with
  | [] => p
  | _ :: _ => P (litemsText l ++ T)

theorem cont_itemsL (l : List LItem) (hl : ∀ x ∈ l, LItemOK x) (T : List Char) (p : Pos) (hc : ContL T p) :
    ContL (litemsText l ++ T) (posOfL l T p) := by
  cases l with
  | nil => simpa [litemsText, posOfL] using hc
  | cons x xs =>
    obtain ⟨c, r, hx, hs⟩ := (hl x List.mem_cons_self).1.cons
    simp only [posOfL]
    rw [litemsText_cons, hx]
    exact ContL.next c _ hs

theorem posOfL_ne (x : LItem) (xs : List LItem) (hl : ∀ y ∈ xs, LItemOK y) (T : List Char) (p : Pos)
    (hc : ContL T p) : posOfL xs T p ≠ P (litemsText (x :: xs) ++ T) := by
  have hcont := cont_itemsL xs hl T p hc
  generalize posOfL xs T p = q at hcont
  generalize hR : litemsText xs ++ T = R at hcont
  intro h
  cases hcont with
  | eof _ _ => simp at h
  | next c r hc' =>
    have := congrArg (fun p : Pos => p.rest.length) h
    have hl1 := x.2.2.length_le
    simp only [litemsText_cons, hR, List.length_append, List.length_cons] at this
    omega

theorem chainL (l : List LItem) (hl : ∀ x ∈ l, LItemOK x) (T : List Char) (p : Pos) (hc : ContL T p)
    (tt : List Tree) (bt : Nat) (htail : EvMany ssw_env sk ssw_stmt p (some (Pend, tt)) bt) :
    EvMany ssw_env sk ssw_stmt (posOfL l T p) (some (Pend, l.map (·.2.1) ++ tt))
      (3 * (litemsText l).length + bt + 41) := by
  induction l with
  | nil => exact htail.cast rfl (by omega)
  | cons x xs ih =>
    have hxs : ∀ y ∈ xs, LItemOK y := fun y hy => hl y (List.mem_cons_of_mem _ hy)
    obtain ⟨hx1, hx2⟩ := hl x List.mem_cons_self
    have h1 := stmt_termL x.1 x.2.1 hx1 x.2.2 hx2 (litemsText xs ++ T) (posOfL xs T p)
      (cont_itemsL xs hxs T p hc)
    rw [← litemsText_cons] at h1
    have hne := posOfL_ne x xs hxs T p hc
    have hlen := litemsText_length_cons x xs
    have hl1 := x.2.2.length_le
    simp only [posOfL]
    exact (evm_step h1 hne (ih hxs)).cast (by simp) (by omega)

/-! ### documents -/

theorem doc_frameL (pre : List BLine) (hpre : ∀ b ∈ pre, b.OK) (c : Char) (r : List Char) (hc : StartCh c)
    (tt : List Tree) (b : Nat)
    (hm : Ev ssw_env sk (.many1 ssw_stmt) (P (c :: r)) (some (Pend, tt)) b) :
    Ev ssw_env sk ssw_document (P (blines pre ++ c :: r)) (some (Pend, tt)) (b + pre.length + 12) := by
  unfold ssw_document
  apply Ev.cast
  · apply ev_seq
    apply evs_cons ev_stringStart
    apply evs_cons (ev_many (evm_blines pre hpre (c :: r) _ (ContL.next c r hc)))
    apply evs_cons hm
    apply evs_cons ev_stringEnd_end
    exact evs_nil
  · simp
  · omega

theorem notab_litems (l : List LItem) (hl : ∀ x ∈ l, LItemOK x) : '\t' ∉ litemsText l := by
  induction l with
  | nil => simp [litemsText]
  | cons x xs ih =>
    have h1 := (hl x List.mem_cons_self).1.notab
    have h1' := notab_sep x.2.2 (hl x List.mem_cons_self).2
    have h2 := ih (fun y hy => hl y (List.mem_cons_of_mem _ hy))
    simp only [litemsText, List.flatMap_cons] at h2 ⊢
    simp [litemText, h1, h1', h2]

theorem document_evL (pre : List BLine) (hpre : ∀ b ∈ pre, b.OK) (x : LItem) (xs : List LItem)
    (hl : ∀ y ∈ x :: xs, LItemOK y) (fin : List Char) (hfin : skipIgn fin = []) :
    Ev ssw_env sk ssw_document (P (blines pre ++ (litemsText (x :: xs) ++ fin)))
      (some (Pend, (x :: xs).map (·.2.1))) (3 * (litemsText (x :: xs)).length + pre.length + 120) := by
  have hxs : ∀ y ∈ xs, LItemOK y := fun y hy => hl y (List.mem_cons_of_mem _ hy)
  obtain ⟨hx1, hx2⟩ := hl x List.mem_cons_self
  obtain ⟨c, r, hcr, hc⟩ := hx1.cons
  have hce := ContL.eof fin hfin
  have h1 := stmt_termL x.1 x.2.1 hx1 x.2.2 hx2 (litemsText xs ++ fin) (posOfL xs fin Pend)
    (cont_itemsL xs hxs fin Pend hce)
  rw [← litemsText_cons] at h1
  have h2 := chainL xs hxs fin Pend hce [] 19 (evm_stop stmt_stop)
  have hm := ev_many1 h1 h2
  have htext : litemsText (x :: xs) ++ fin = c :: (r ++ (x.2.2.text ++ (litemsText xs ++ fin))) := by
    rw [litemsText_cons, hcr]; rfl
  have hlen := litemsText_length_cons x xs
  have hl1 := x.2.2.length_le
  rw [htext] at hm ⊢
  refine (doc_frameL pre hpre c _ hc _ _ hm).cast (by simp) ?_
  rw [hlen]
  omega

theorem document_open_evL (pre : List BLine) (hpre : ∀ b ∈ pre, b.OK) (l : List LItem) (hl : ∀ y ∈ l, LItemOK y)
    (s : List Char) (t : Tree) (hs : StmtText s t) (fin : List Char) (hfin : skipIgn fin = []) :
    Ev ssw_env sk ssw_document (P (blines pre ++ (litemsText l ++ (s ++ fin))))
      (some (Pend, l.map (·.2.1) ++ [t])) (3 * (litemsText l ++ s).length + pre.length + 140) := by
  obtain ⟨cs, rs, hcs, hsc⟩ := hs.cons
  have hopen := stmt_openL s t hs fin hfin
  have hlast : EvMany ssw_env sk ssw_stmt (P (s ++ fin)) (some (Pend, [t])) (3 * s.length + 40) :=
    (evm_step hopen (by simp) (evm_stop stmt_stop)).cast (by simp) (by omega)
  cases l with
  | nil =>
    have hm := ev_many1 hopen (evm_stop (stmt_stop (env := ssw_env)))
    simp only [litemsText, List.flatMap_nil, List.nil_append, List.map_nil]
    rw [hcs] at hm ⊢
    refine (doc_frameL pre hpre cs _ hsc _ _ hm).cast (by simp) ?_
    simp only [List.length_cons]
    omega
  | cons x xs =>
    have hxs : ∀ y ∈ xs, LItemOK y := fun y hy => hl y (List.mem_cons_of_mem _ hy)
    obtain ⟨hx1, hx2⟩ := hl x List.mem_cons_self
    obtain ⟨c, r, hcr, hc⟩ := hx1.cons
    have hcont : ContL (s ++ fin) (P (s ++ fin)) := by rw [hcs]; exact ContL.next cs _ hsc
    have h1 := stmt_termL x.1 x.2.1 hx1 x.2.2 hx2 (litemsText xs ++ (s ++ fin)) (posOfL xs (s ++ fin) _)
      (cont_itemsL xs hxs (s ++ fin) _ hcont)
    rw [← litemsText_cons] at h1
    have h2 := chainL xs hxs (s ++ fin) _ hcont [t] _ hlast
    have hm := ev_many1 h1 h2
    have htext : litemsText (x :: xs) ++ (s ++ fin) =
        c :: (r ++ (x.2.2.text ++ (litemsText xs ++ (s ++ fin)))) := by
      rw [litemsText_cons, hcr]; rfl
    have hlen := litemsText_length_cons x xs
    have hl1 := x.2.2.length_le
    rw [htext] at hm ⊢
    refine (doc_frameL pre hpre c _ hc _ _ hm).cast (by simp) ?_
    simp only [List.length_append, hlen]
    omega

/-- **seesaw documents in any line-level layout parse as the concatenation of their statements** -/
theorem document_layout_parse (pre : List BLine) (hpre : ∀ b ∈ pre, b.OK) (stmts : List LItem) (hne : stmts ≠ [])
    (h : ∀ x ∈ stmts, LItemOK x) (fin : List Char) (hfin : skipIgn fin = []) (hft : '\t' ∉ fin) :
    parseDoc ssw_env ssw_grammar (String.ofList (blines pre ++ (litemsText stmts ++ fin))) =
      some (stmts.map (·.2.1)) := by
  cases stmts with
  | nil => exact absurd rfl hne
  | cons x xs =>
    have hev := document_evL pre hpre x xs h fin hfin
    have hnt : '\t' ∉ blines pre ++ (litemsText (x :: xs) ++ fin) := by
      have h1 := notab_litems (x :: xs) h
      have h2 := notab_blines pre hpre
      simp [h1, h2, hft]
    have hl := blines_length pre
    rw [parseDoc_of_ev ssw_grammar _ _ _ hnt hev (by simp only [List.length_append]; omega)]
    rfl

theorem document_layout_parse_open (pre : List BLine) (hpre : ∀ b ∈ pre, b.OK) (stmts : List LItem)
    (h : ∀ x ∈ stmts, LItemOK x) (s : List Char) (t : Tree) (hs : StmtText s t) (fin : List Char)
    (hfin : skipIgn fin = []) (hft : '\t' ∉ fin) :
    parseDoc ssw_env ssw_grammar (String.ofList (blines pre ++ (litemsText stmts ++ (s ++ fin)))) =
      some (stmts.map (·.2.1) ++ [t]) := by
  have hev := document_open_evL pre hpre stmts h s t hs fin hfin
  have hnt : '\t' ∉ blines pre ++ (litemsText stmts ++ (s ++ fin)) := by
    have h1 := notab_litems stmts h
    have h2 := notab_blines pre hpre
    have h3 := hs.notab
    simp [h1, h2, h3, hft]
  have hl := blines_length pre
  rw [parseDoc_of_ev ssw_grammar _ _ _ hnt hev (by
    obtain ⟨c, r, hcr, _⟩ := hs.cons
    simp only [List.length_append, hcr, List.length_cons]; omega)]
  rfl

end Dsd.PP.Ssw
