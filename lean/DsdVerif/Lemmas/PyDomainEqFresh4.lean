/-
(d) the base of the induction on the nesting depth: with no fuel the translated request and the model's `callF` are related.
-/
import DsdVerif.Lemmas.PyDomainEqFresh3

namespace Dsd.PyDomainEq
open Dsd Dsd.Gen Dsd.PySingletonL

theorem relatedF_zero (cfg : DomCfg) (tmp : Nat) :
    RelatedF (PyDomainRequest.requestPy cfg.cutoff cfg.shortLen cfg.longLen cfg.prefix_ 0 tmp tmp)
      (fun r q => DomFull.callF 0 cfg r tmp tmp q) tmp := by
  intro s r n l h hf
  refine ⟨⟨s, h, rfl, ?_, ?_⟩, ?_, ?_⟩
  · intro id c hc; cases hc
  · intro e he _ _ x hx
    have : e = Out.fault "RecursionError" := he.symm
    subst this
    cases hx
  · intro id c hc; cases hc
  · intro _; exact hf

end Dsd.PyDomainEq
