/-
`read_pil` on a well-formed world (C16): reading lines that are individually fault-free never ends in a fault;
the per-line garbage collection keeps the world well-formed.
-/
import DsdVerif.Lemmas.ReaderBranches

namespace Dsd.RdL
open Dsd Dsd.PP

/-- a line that can be read without fault in every well-formed state -/
def LineOK (line : List Tree) : Prop := ∀ (s : RState) (sl : Slots), WOK s.w → SlotsOK sl → LSpec (s.readLine sl line)

theorem wok_keepOnly (s : RState) (before : List Nat) (d : RDict) (h : WOK s.w) : WOK (s.keepOnly before d).w := by
  unfold RState.keepOnly
  simp only
  exact wok_collect _ (wok_held s.w h _)

theorem readDoc_nofault (sl : Slots) (hsl : SlotsOK sl) (ign : List String) (before : List Nat) (lines : List Tree) :
    ∀ (s : RState) (d : RDict), WOK s.w → (∀ t ∈ lines, ∀ l, t = .grp l → LineOK l) →
      ∀ s' e, s.readDoc sl ign before lines d = (s', .error e) → NoFault e := by
  induction lines with
  | nil => intro s d _ _ s' e h; simp [RState.readDoc] at h
  | cons t rest ih =>
    intro s d hw hl s' e h
    have hrest : ∀ t ∈ rest, ∀ l, t = .grp l → LineOK l := fun t ht => hl t (List.mem_cons_of_mem _ ht)
    cases t with
    | tok x => simp [RState.readDoc] at h
    | grp line =>
      simp only [RState.readDoc] at h
      split at h
      · exact ih s d hw hrest s' e h
      · obtain ⟨a1, a2, a3⟩ := hl (.grp line) List.mem_cons_self line rfl s sl hw hsl
        generalize s.readLine sl line = r1 at a1 a2 a3 h
        obtain ⟨s1, res1⟩ := r1
        cases res1 with
        | error e1 =>
          simp only [Prod.mk.injEq, Except.error.injEq] at h
          rw [← h.2]; exact a2 e1 rfl
        | ok obj =>
          simp only at a1 a2 a3 h
          cases obj with
          | dom id =>
            simp only at h
            obtain ⟨c, g, _⟩ := invert_grow s1.w a1 id (a3 id rfl)
            have hw' := g.wok a1 (by simp) (by intro h; cases h)
            generalize s1.w.invert id = res at g hw' h
            obtain ⟨w', out⟩ := res
            simp only at g hw' h
            cases out with
            | ret cid b =>
              simp only at h
              split at h
              · rename_i _ s2 e2 heq
                have he2 : e2 = .pilFormat := by
                  split at heq
                  · split at heq
                    · simp only [Prod.mk.injEq, Except.error.injEq] at heq; exact heq.2.symm
                    · simp at heq
                  · simp at heq
                simp only [Prod.mk.injEq, Except.error.injEq] at h
                rw [← h.2, he2]; exact nf_pil
              · rename_i _ s2 d2 heq
                have hs2 : s2.w = w' := by
                  split at heq
                  · split at heq
                    · simp at heq
                    · simp only [Prod.mk.injEq] at heq; rw [← heq.1]
                  · simp only [Prod.mk.injEq] at heq; rw [← heq.1]
                exact ih _ _ (wok_keepOnly _ _ _ (hs2 ▸ hw')) hrest s' e h
            | fault kk => exact absurd rfl (g.noFault kk)
            | _ =>
              simp only [Prod.mk.injEq, Except.error.injEq] at h
              rw [← h.2]; intro k; simp [RErr.ofOut]
          | strand id => exact ih _ _ (wok_keepOnly _ _ _ a1) hrest s' e h
          | cplx id => exact ih _ _ (wok_keepOnly _ _ _ a1) hrest s' e h
          | «macro» id => exact ih _ _ (wok_keepOnly _ _ _ a1) hrest s' e h
          | rxn id b =>
            cases b
            · exact ih _ _ (wok_keepOnly _ _ _ a1) hrest s' e h
            · exact ih _ _ (wok_keepOnly _ _ _ a1) hrest s' e h
          | other => exact ih _ _ (wok_keepOnly _ _ _ a1) hrest s' e h

end Dsd.RdL
