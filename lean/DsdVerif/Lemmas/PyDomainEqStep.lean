/-
(d) the step of the induction, part 1: `requestPy (fuel+1)` is `identifiers` followed by `tailPy` (the translated `Singleton.__call__`
on the dictionaries and, for a created object, the attribute part of `__init__`); `tailPy` when no object is created.
-/
import DsdVerif.Lemmas.PyDomainEqFresh4

namespace Dsd.PyDomainEq
open Dsd Dsd.Gen Dsd.PySingletonL

/-- what `requestPy` does after `identifiers` returned `(canon, name, kwadd)` -/
def tailPy (sh lo : Nat) (pfx : String) (fresh : Nat) (q : Py.Dom.Req) (canon : Option DKey) (name : String) (kwadd : Option Nat) :
    Py.Dom.M Nat := do
  let q' := match kwadd with
    | some l => { q with length := some l }
    | none => q
  match (← PyDomainRequest.zoom (Gen.py_Singleton_call canon name fresh [])) with
  | some id =>
    if id == fresh then PyDomainRequest.initObj sh lo pfx id q'
    pure id
  | none => throw (.fault "translator:None")

theorem requestPy_succ (c sh lo : Nat) (pfx : String) (fuel fresh tmp : Nat) (q : Py.Dom.Req) :
    PyDomainRequest.requestPy c sh lo pfx (fuel + 1) fresh tmp q =
      (Gen.py_DomainS_identifiers (PyDomainRequest.requestPy c sh lo pfx fuel tmp tmp) tmp c sh lo pfx q.name q.length q.prefix_ q.dtype
        >>= fun x => tailPy sh lo pfx fresh q x.1 x.2.1 x.2.2) := by
  rfl

/-- sub-case "no object is created" (the object exists, or the request is refused): the result is the model's, the class is unchanged -/
theorem tailPy_not_created (s : Py.Dom.Cls) (r : Reg DKey) (h : RepX s r) (hf : ∀ o ∈ r.objs, o.id ≠ fresh) (sh lo : Nat) (pfx : String)
    (q : Py.Dom.Req) (canon : Option DKey) (name : String) (kw : Option Nat) (auto : Bool) (hne : name ≠ "")
    (hnc : ∀ id, (r.call canon (some name) fresh canon.toList auto).2 ≠ .ret id true) :
    (tailPy sh lo pfx fresh q canon name kw).exec s = (toRes (r.call canon (some name) fresh canon.toList auto).2, s) ∧
    (r.call canon (some name) fresh canon.toList auto).1 = r := by
  have hz := zoom_call s r h canon name fresh auto hne
  have hN : ∀ o, r.findName name = some o → o.id ≠ fresh := fun o ho => hf o (Reg.findName_some r name o ho).1
  have hC : ∀ k o, r.findCanon k = some o → o.id ≠ fresh := fun k o ho => hf o (Reg.findCanon_some r k o ho).1
  unfold tailPy
  simp only [exec_bind, hz]
  cases canon with
  | none =>
    cases hn : r.findName name with
    | none => simp [Reg.call, Reg.decide, hn, toPy, toRes, toErr, regAfter, exec_throw]
    | some o =>
      have := hN o hn
      simp [Reg.call, Reg.decide, hn, toPy, toRes, regAfter, exec_ite, exec_bind, exec_pure, this]
  | some k =>
    cases hn : r.findName name <;> cases hc : r.findCanon k
    · exact absurd (by simp [Reg.call, Reg.decide, hn, hc]) (hnc fresh)
    · simp [Reg.call, Reg.decide, hn, hc, toPy, toRes, toErr, regAfter, exec_throw]
    · simp [Reg.call, Reg.decide, hn, hc, toPy, toRes, toErr, regAfter, exec_throw]
    · rename_i on oc
      by_cases hid : on.id = oc.id
      · have := hN on hn
        have h3 : oc.id ≠ fresh := by rw [← hid]; exact this
        simp [Reg.call, Reg.decide, hn, hc, hid, toPy, toRes, regAfter, exec_ite, exec_bind, exec_pure, h3]
      · simp [Reg.call, Reg.decide, hn, hc, hid, toPy, toRes, toErr, regAfter, exec_throw]

end Dsd.PyDomainEq
