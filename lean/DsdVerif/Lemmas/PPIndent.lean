/-
Documents as lists of LINES, for any grammar of the shape
`StringStart + ZeroOrMore(LineEnd) + OneOrMore(stmt) + StringEnd` (both the PIL and the seesaw grammar), where `stmt`
consumes the line ends after it.  A line is statement-free (whitespace, optionally a comment) or carries a statement:
INDENTATION, the statement, optionally a comment; lines end with LF or CR LF; the last line may be unterminated.
Everything may contain tabs: `parseString` expands them, and the column at which a statement starts is no longer 0
once it is indented — the statement texts are therefore characterised at EVERY start column (`BodyT`).

The file depends on the model and the two model-level toolkits only; Lemmas/PilIndent.lean and Props/C19Indent.lean
instantiate it.

Indentation: every statement starts with an element that skips whitespace first, so the result of the statement
parser depends on the position after skipping only (`SkipInv`).
-/
import DsdVerif.Lemmas.PPRun
import DsdVerif.Lemmas.PPTabs

namespace Dsd.PP.Lines
open Dsd.PP Dsd.PP.Tabs

/-! ### elements whose result depends on the skipped position only -/

/-- the result of `g` (in a skipping context) depends on the position after skipping only -/
def SkipInv (env : Env) (g : G) : Prop :=
  ∀ fuel p q, pre {} p = pre {} q → run env fuel {} g p = run env fuel {} g q

variable {env : Env}

theorem SkipInv.lit (s : List Char) : SkipInv env (.lit s) := by
  intro fuel p q h
  cases fuel with
  | zero => simp [run]
  | succ f => simp only [run, h]

theorem SkipInv.kw (s ident : List Char) : SkipInv env (.kw s ident) := by
  intro fuel p q h
  cases fuel with
  | zero => simp [run]
  | succ f => simp only [run, h]

theorem SkipInv.word (a b : List Char) : SkipInv env (.word a b) := by
  intro fuel p q h
  cases fuel with
  | zero => simp [run]
  | succ f => simp only [run, h]

theorem SkipInv.lineEnd : SkipInv env .lineEnd := by
  intro fuel p q h
  cases fuel with
  | zero => simp [run]
  | succ f => simp only [run, h]

theorem SkipInv.combine (g : G) : SkipInv env (.combine g) := by
  intro fuel p q h
  cases fuel with
  | zero => simp [run]
  | succ f => simp only [run, h]

theorem SkipInv.group {g : G} (hg : SkipInv env g) : SkipInv env (.group g) := by
  intro fuel p q h
  cases fuel with
  | zero => simp [run]
  | succ f => simp only [run, hg f p q h]

theorem SkipInv.suppress {g : G} (hg : SkipInv env g) : SkipInv env (.suppress g) := by
  intro fuel p q h
  cases fuel with
  | zero => simp [run]
  | succ f => simp only [run, hg f p q h]

theorem SkipInv.tag (t : String) {g : G} (hg : SkipInv env g) : SkipInv env (.tag t g) := by
  intro fuel p q h
  cases fuel with
  | zero => simp [run]
  | succ f => simp only [run, hg f p q h]

theorem SkipInv.many1 {g : G} (hg : SkipInv env g) : SkipInv env (.many1 g) := by
  intro fuel p q h
  cases fuel with
  | zero => simp [run]
  | succ f => simp only [run, hg f p q h]

/-- a sequence: its first element decides -/
theorem SkipInv.seq {g : G} (gs : List G) (hg : SkipInv env g) : SkipInv env (.seq (g :: gs)) := by
  intro fuel p q h
  cases fuel with
  | zero => simp [run]
  | succ f =>
    cases f with
    | zero => simp [run, runSeq]
    | succ f => simp only [run, runSeq, hg f p q h]

theorem runAlt_skip (gs : List G) (hgs : ∀ g ∈ gs, SkipInv env g) (p q : Pos) (h : pre {} p = pre {} q) :
    ∀ fuel, runAlt env fuel {} gs p = runAlt env fuel {} gs q := by
  induction gs with
  | nil => intro fuel; cases fuel <;> simp [runAlt]
  | cons g gs ih =>
    intro fuel
    cases fuel with
    | zero => simp [runAlt]
    | succ f =>
      simp only [runAlt, hgs g (by simp) f p q h, ih (fun x hx => hgs x (List.mem_cons_of_mem _ hx)) f]

theorem SkipInv.alt (gs : List G) (hgs : ∀ g ∈ gs, SkipInv env g) : SkipInv env (.alt gs) := by
  intro fuel p q h
  cases fuel with
  | zero => simp [run]
  | succ f => simp only [run, runAlt_skip gs hgs p q h f]

theorem SkipInv.ok {g : G} (hg : SkipInv env g) {N : Nat} {p q : Pos} {r : Pos × List Tree}
    (h : Ok env N {} g q r) (hpq : pre {} p = pre {} q) : Ok env N {} g p r := by
  intro fuel hf
  rw [hg fuel p q hpq]
  exact h fuel hf

theorem skipIgn_blanks_append (n : Nat) (a : List Char) : skipIgn (List.replicate n ' ' ++ a) = skipIgn a := by
  unfold skipIgn
  simp only [skipWs_replicate]

/-- blanks in front do not change the skipped position -/
theorem pre_blanks (n : Nat) (a : List Char) :
    pre {} ({ rest := List.replicate n ' ' ++ a, past := false } : Pos) = pre {} { rest := a, past := false } := by
  show ({ rest := skipIgn _, past := false } : Pos) = { rest := skipIgn _, past := false }
  rw [skipIgn_blanks_append]

/-! ### tab-free lines -/

/-- the position after the virtual final line end -/
abbrev PEnd : Pos := { rest := [], past := true }

/-- the line ends that close a statement -/
def eols : G := .many1 (.suppress .lineEnd)

/-- the document grammar over a statement grammar -/
def docG (stmt : G) : G := .seq [.stringStart, .many (.suppress .lineEnd), .many1 stmt, .stringEnd]

/-- a (tab-free) piece of a line without a statement: skipping passes it — up to the line feed, or to the end of
    the text -/
structure IsBlank (b : List Char) : Prop where
  eof : skipIgn b = []
  nl : ∀ R, skipIgn (b ++ '\n' :: R) = '\n' :: R

theorem skipWs_ws (ws r : List Char) (h : ∀ c ∈ ws, isWs c = true) : skipWs (ws ++ r) = skipWs r := by
  induction ws with
  | nil => rfl
  | cons c ws ih =>
    have hc := h c (by simp)
    have := ih (fun x hx => h x (List.mem_cons_of_mem _ hx))
    simp only [skipWs, List.cons_append, List.dropWhile_cons, hc, if_true] at this ⊢
    exact this

theorem dropWhile_to_nl (cm r : List Char) (h : '\n' ∉ cm) :
    (cm ++ '\n' :: r).dropWhile (· != '\n') = '\n' :: r := by
  induction cm with
  | nil => simp
  | cons c cm ih =>
    simp only [List.mem_cons, not_or] at h
    have : (c != '\n') = true := by simp; exact fun e => h.1 e.symm
    rw [List.cons_append, List.dropWhile_cons, this]
    exact ih h.2

/-- whitespace is statement-free -/
theorem isBlank_ws (ws : List Char) (h : ∀ c ∈ ws, isWs c = true) : IsBlank ws := by
  constructor
  · have e : skipWs ws = [] := by
      have := skipWs_ws ws [] h
      rwa [List.append_nil] at this
    unfold skipIgn
    simp only [e]
  · intro R
    exact skipIgn_of_skipWs _ '\n' R (by rw [skipWs_ws ws _ h]; exact skipWs_cons '\n' R (by decide)) (by decide)

/-- whitespace and a comment are statement-free -/
theorem isBlank_comment (ws cm : List Char) (h : ∀ c ∈ ws, isWs c = true) (hc : '\n' ∉ cm) :
    IsBlank (ws ++ '#' :: cm) := by
  constructor
  · have e : skipWs (ws ++ '#' :: cm) = '#' :: cm := by
      rw [skipWs_ws ws _ h]; exact skipWs_cons '#' _ (by decide)
    unfold skipIgn
    simp only [e]
    have : ('#' :: cm).dropWhile (· != '\n') = [] :=
      dropWhile_no_nl _ (by simp only [List.mem_cons, not_or]; exact ⟨by decide, hc⟩)
    rw [this]; rfl
  · intro R
    have e : skipWs ((ws ++ '#' :: cm) ++ '\n' :: R) = '#' :: (cm ++ '\n' :: R) := by
      rw [List.append_assoc, skipWs_ws ws _ h]; exact skipWs_cons '#' _ (by decide)
    unfold skipIgn
    simp only [e]
    have : ('#' :: (cm ++ '\n' :: R)).dropWhile (· != '\n') = '\n' :: R := by
      rw [List.dropWhile_cons]; simp only [show ('#' != '\n') = true by decide, if_true]
      exact dropWhile_to_nl cm R hc
    rw [this]; exact skipWs_cons '\n' R (by decide)

/-- `u` (indentation and statement) followed by the statement-free `r` is a line with the statement `t`: the
    statement grammar parses `u` in front of `r` and a line feed (or the end of the text) and consumes the line ends
    that follow (`NE`: the depth they need) -/
structure IsStmtLine (env : Env) (stmt : G) (u : List Char) (t : Tree) (r : List Char) : Prop where
  rest : IsBlank r
  head : ∀ R, ∃ c r', skipIgn (u ++ R) = c :: r' ∧ c ≠ '\n'
  parses : ∀ (R : List Char) (NE : Nat) (p : Pos), (R = [] ∨ ∃ R', R = '\n' :: R') →
    Ok env NE {} eols { rest := r ++ R, past := false } (p, []) →
    Ok env (4 * u.length + NE + 100) {} stmt { rest := u ++ (r ++ R), past := false } (p, [t])

theorem IsBlank.blanks {r : List Char} (h : IsBlank r) (k : Nat) : IsBlank (List.replicate k ' ' ++ r) :=
  ⟨by rw [skipIgn_blanks_append]; exact h.eof,
    fun R => by rw [List.append_assoc, skipIgn_blanks_append]; exact h.nl R⟩

/-- blanks between the statement and the rest of its line may be counted to either: if the statement tolerates
    them in what follows it, they may be appended to its text -/
theorem IsStmtLine.shift {env : Env} {stmt : G} {u : List Char} {t : Tree} {r : List Char} (k : Nat)
    (hr : IsBlank r) (h : IsStmtLine env stmt u t (List.replicate k ' ' ++ r)) :
    IsStmtLine env stmt (u ++ List.replicate k ' ') t r := by
  refine ⟨hr, fun R => ?_, ?_⟩
  · obtain ⟨c, r', h1, h2⟩ := h.head (List.replicate k ' ' ++ R)
    exact ⟨c, r', by rw [List.append_assoc]; exact h1, h2⟩
  · intro R NE p hR heol
    have he : Ok env NE {} eols { rest := (List.replicate k ' ' ++ r) ++ R, past := false } (p, []) :=
      SkipInv.ok (SkipInv.many1 (SkipInv.suppress SkipInv.lineEnd)) heol
        (by rw [List.append_assoc]; exact pre_blanks k _)
    have := h.parses R NE p hR he
    rw [List.append_assoc]
    rw [List.append_assoc] at this
    exact this.mono (by simp only [List.length_append]; omega)

/-- a tab-free line (without its line feed) -/
inductive GLine
  | blank (b : List Char)
  | stmt (u : List Char) (t : Tree) (r : List Char)

def GLine.body : GLine → List Char
  | .blank b => b
  | .stmt u _ r => u ++ r

def GLine.trees : GLine → List Tree
  | .blank _ => []
  | .stmt _ t _ => [t]

def GLine.OK (env : Env) (stmt : G) : GLine → Prop
  | .blank b => IsBlank b
  | .stmt u t r => IsStmtLine env stmt u t r

/-- the text of a document: the lines `L`, each with a line feed, and the unterminated last line -/
def gtext : List GLine → GLine → List Char
  | [], last => last.body
  | l :: L, last => l.body ++ '\n' :: gtext L last

def gtrees : List GLine → GLine → List Tree
  | [], last => last.trees
  | l :: L, last => l.trees ++ gtrees L last

theorem length_le_gtext (L : List GLine) (last : GLine) : L.length ≤ (gtext L last).length := by
  induction L with
  | nil => simp
  | cons l L ih => simp only [gtext, List.length_cons, List.length_append]; omega

/-- the position of the first statement line -/
def first : List GLine → GLine → Pos
  | [], .blank _ => PEnd
  | [], .stmt u _ r => { rest := u ++ r, past := false }
  | .blank _ :: L, last => first L last
  | .stmt u t r :: L, last => { rest := gtext (.stmt u t r :: L) last, past := false }

theorem first_cases (L : List GLine) (last : GLine) :
    first L last = PEnd ∨ ∃ R, first L last = { rest := R, past := false } ∧ R.length ≤ (gtext L last).length := by
  induction L with
  | nil =>
    cases last with
    | blank b => exact Or.inl rfl
    | stmt u t r => exact Or.inr ⟨_, rfl, Nat.le_refl _⟩
  | cons l L ih =>
    cases l with
    | blank b =>
      rcases ih with h | ⟨R, h, hl⟩
      · exact Or.inl h
      · exact Or.inr ⟨R, h, by simp only [gtext, List.length_append, List.length_cons]; omega⟩
    | stmt u t r => exact Or.inr ⟨_, rfl, Nat.le_refl _⟩

theorem first_ne (L : List GLine) (last : GLine) (a : List Char) :
    first L last ≠ { rest := a ++ '\n' :: gtext L last, past := false } := by
  intro h
  rcases first_cases L last with e | ⟨R, e, hl⟩
  · rw [e] at h; simp at h
  · rw [e] at h
    have := congrArg (fun p : Pos => p.rest.length) h
    simp only [List.length_append, List.length_cons] at this
    omega

theorem pos_ne (r1 r2 : List Char) (b1 b2 : Bool) (h : r1.length ≠ r2.length) :
    ({ rest := r1, past := b1 } : Pos) ≠ { rest := r2, past := b2 } := by
  intro e
  exact h (congrArg (fun p : Pos => p.rest.length) e)

/-! ### the line ends -/

theorem OkMany_mono {N N' : Nat} {ctx : Ctx} {g : G} {p : Pos} {r : Pos × List Tree}
    (h : OkMany env N ctx g p r) (hN : N ≤ N') : OkMany env N' ctx g p r :=
  fun reps fuel hr hf => h reps fuel (by omega) (by omega)

theorem No_lineEnd_PEnd : No env 2 {} (.suppress .lineEnd) PEnd :=
  No_suppress (No_lineEnd_past env {} _ rfl rfl)

/-- the line ends in front of the lines `L`: the statement-free lines are consumed, up to the first statement -/
theorem OkMany_lines (stmt : G) (L : List GLine) (last : GLine) (hL : ∀ l ∈ L, l.OK env stmt)
    (hlast : last.OK env stmt) :
    OkMany env (L.length + 4) {} (.suppress .lineEnd) { rest := gtext L last, past := false } (first L last, []) := by
  induction L with
  | nil =>
    cases last with
    | blank b =>
      have hb : IsBlank b := hlast
      have h2 : Ok env 2 {} (.suppress .lineEnd) { rest := b, past := false } (PEnd, []) :=
        Ok_suppress (Ok_lineEnd_eof env {} _ (by rw [pre_skip]; exact hb.eof) rfl)
      exact OkMany_mono (OkMany_step h2 (by simp) (OkMany_stop No_lineEnd_PEnd)) (by simp)
    | stmt u t r =>
      have hs : IsStmtLine env stmt u t r := hlast
      obtain ⟨c, r', hsk, hc⟩ := hs.head r
      have := OkMany_stop (No_suppress (No_lineEnd_cons env {} { rest := u ++ r, past := false } c r'
        (by rw [pre_skip]; exact hsk) hc))
      exact OkMany_mono this (by simp)
  | cons l L ih =>
    have ih' := ih (fun x hx => hL x (List.mem_cons_of_mem _ hx))
    cases l with
    | blank b =>
      have hb : IsBlank b := hL _ List.mem_cons_self
      have h1 : Ok env 2 {} (.suppress .lineEnd) { rest := b ++ '\n' :: gtext L last, past := false }
          ({ rest := gtext L last, past := false }, []) :=
        Ok_suppress (Ok_lineEnd_nl env {} _ _ (by rw [pre_skip]; exact hb.nl _))
      have hne : ({ rest := gtext L last, past := false } : Pos) ≠
          { rest := b ++ '\n' :: gtext L last, past := false } := pos_ne _ _ _ _ (by simp; omega)
      have := OkMany_step h1 hne ih'
      simp only [List.nil_append] at this
      exact OkMany_mono this (by simp only [List.length_cons]; omega)
    | stmt u t r =>
      have hs : IsStmtLine env stmt u t r := hL _ List.mem_cons_self
      obtain ⟨c, r', hsk, hc⟩ := hs.head (r ++ '\n' :: gtext L last)
      have := OkMany_stop (No_suppress (No_lineEnd_cons env {}
        { rest := gtext (.stmt u t r :: L) last, past := false } c r'
        (by rw [pre_skip]; simp only [gtext, GLine.body, List.append_assoc]; exact hsk) hc))
      exact OkMany_mono this (by simp)

/-- the line ends after a statement -/
theorem Ok_eols_lines (stmt : G) (r : List Char) (hr : IsBlank r) (L : List GLine) (last : GLine)
    (hL : ∀ l ∈ L, l.OK env stmt) (hlast : last.OK env stmt) :
    Ok env (L.length + 6) {} eols { rest := r ++ '\n' :: gtext L last, past := false } (first L last, []) := by
  have h1 : Ok env 2 {} (.suppress .lineEnd) { rest := r ++ '\n' :: gtext L last, past := false }
      ({ rest := gtext L last, past := false }, []) :=
    Ok_suppress (Ok_lineEnd_nl env {} _ _ (by rw [pre_skip]; exact hr.nl _))
  have := Ok_many1 h1 (OkMany_lines stmt L last hL hlast)
  simp only [List.nil_append] at this
  exact this.mono (by omega)

/-- … and at the end of the text -/
theorem Ok_eols_end (r : List Char) (hr : IsBlank r) :
    Ok env 5 {} eols { rest := r, past := false } (PEnd, []) := by
  have h2 : Ok env 2 {} (.suppress .lineEnd) { rest := r, past := false } (PEnd, []) :=
    Ok_suppress (Ok_lineEnd_eof env {} _ (by rw [pre_skip]; exact hr.eof) rfl)
  have := Ok_many1 h2 (OkMany_stop No_lineEnd_PEnd)
  simp only [List.nil_append] at this
  exact this.mono (by decide)

/-! ### the statements -/

/-- a statement line inside a document -/
theorem Ok_stmt_line (stmt : G) (u : List Char) (t : Tree) (r : List Char) (h : IsStmtLine env stmt u t r)
    (L : List GLine) (last : GLine) (hL : ∀ l ∈ L, l.OK env stmt) (hlast : last.OK env stmt) :
    Ok env (4 * u.length + L.length + 106) {} stmt { rest := gtext (.stmt u t r :: L) last, past := false }
      (first L last, [t]) := by
  have := h.parses ('\n' :: gtext L last) _ _ (Or.inr ⟨_, rfl⟩) (Ok_eols_lines stmt r h.rest L last hL hlast)
  simp only [gtext, GLine.body, List.append_assoc]
  exact this.mono (by omega)

/-- an unterminated last statement line -/
theorem Ok_stmt_last (stmt : G) (u : List Char) (t : Tree) (r : List Char) (h : IsStmtLine env stmt u t r) :
    Ok env (4 * u.length + 105) {} stmt { rest := u ++ r, past := false } (PEnd, [t]) := by
  have := h.parses [] _ _ (Or.inl rfl) (by rw [List.append_nil]; exact Ok_eols_end r h.rest)
  rw [List.append_nil] at this
  exact this

/-- **the statements of a document are parsed one after the other**, from the first statement line on -/
theorem OkMany_stmts (stmt : G) (hend : No env 100 {} stmt PEnd) (L : List GLine) (last : GLine)
    (hL : ∀ l ∈ L, l.OK env stmt) (hlast : last.OK env stmt) :
    OkMany env (4 * (gtext L last).length + 110) {} stmt (first L last) (PEnd, gtrees L last) := by
  induction L with
  | nil =>
    cases last with
    | blank b => exact OkMany_mono (OkMany_stop hend) (by omega)
    | stmt u t r =>
      have := OkMany_step (Ok_stmt_last stmt u t r hlast) (by simp) (OkMany_stop hend)
      simp only [List.append_nil] at this
      exact OkMany_mono this (by simp only [gtext, GLine.body, List.length_append]; omega)
  | cons l L ih =>
    have hL' : ∀ x ∈ L, x.OK env stmt := fun x hx => hL x (List.mem_cons_of_mem _ hx)
    have ih' := ih hL'
    cases l with
    | blank b =>
      exact OkMany_mono ih' (by simp only [gtext, List.length_append, List.length_cons]; omega)
    | stmt u t r =>
      have h1 := Ok_stmt_line stmt u t r (hL _ List.mem_cons_self) L last hL' hlast
      have hne : first L last ≠ { rest := gtext (.stmt u t r :: L) last, past := false } := first_ne L last _
      have hl := length_le_gtext L last
      have := OkMany_step h1 hne ih'
      exact OkMany_mono this (by
        simp only [gtext, GLine.body, List.length_append, List.length_cons]; omega)

theorem Ok_many1_stmts (stmt : G) (hend : No env 100 {} stmt PEnd) (L : List GLine) (last : GLine)
    (hL : ∀ l ∈ L, l.OK env stmt) (hlast : last.OK env stmt) (hne : gtrees L last ≠ []) :
    Ok env (4 * (gtext L last).length + 112) {} (.many1 stmt) (first L last) (PEnd, gtrees L last) := by
  induction L with
  | nil =>
    cases last with
    | blank b => exact absurd rfl hne
    | stmt u t r =>
      have := Ok_many1 (Ok_stmt_last stmt u t r hlast) (OkMany_stop hend)
      simp only [List.append_nil] at this
      exact this.mono (by simp only [gtext, GLine.body, List.length_append]; omega)
  | cons l L ih =>
    have hL' : ∀ x ∈ L, x.OK env stmt := fun x hx => hL x (List.mem_cons_of_mem _ hx)
    cases l with
    | blank b =>
      exact (ih hL' hne).mono (by simp only [gtext, List.length_append, List.length_cons]; omega)
    | stmt u t r =>
      have h1 := Ok_stmt_line stmt u t r (hL _ List.mem_cons_self) L last hL' hlast
      have hl := length_le_gtext L last
      have := Ok_many1 h1 (OkMany_stmts stmt hend L last hL' hlast)
      exact this.mono (by
        simp only [gtext, GLine.body, List.length_append, List.length_cons]; omega)

/-! ### documents -/

theorem doc_ok (stmt : G) (hend : No env 100 {} stmt PEnd) (L : List GLine) (last : GLine)
    (hL : ∀ l ∈ L, l.OK env stmt) (hlast : last.OK env stmt) (hne : gtrees L last ≠ []) :
    Ok env (4 * (gtext L last).length + 120) {} (docG stmt) { rest := gtext L last, past := false }
      (PEnd, gtrees L last) := by
  unfold docG
  have h0 := Ok_stringStart env {} { rest := gtext L last, past := false }
  have h1 := Ok_many (OkMany_lines stmt L last hL hlast)
  have h2 := Ok_many1_stmts stmt hend L last hL hlast hne
  have h3 : Ok env 1 {} .stringEnd PEnd (PEnd, []) := Ok_stringEnd env {} _ rfl
  have := Ok_seq (OkSeq_cons h0 (OkSeq_cons h1 (OkSeq_cons h2 (OkSeq_cons h3 (OkSeq_nil env _ _)))))
  simp only [List.nil_append, List.append_nil] at this
  have hl := length_le_gtext L last
  exact this.mono (by omega)

/-- **a text that expands to the lines `L` parses as the statements of `L`** -/
theorem doc_parse (stmt : G) (hend : No env 100 {} stmt PEnd) (L : List GLine) (last : GLine)
    (hL : ∀ l ∈ L, l.OK env stmt) (hlast : last.OK env stmt) (hne : gtrees L last ≠ []) (T : List Char)
    (hT : expandTabs T 0 = gtext L last) :
    parseDoc env (docG stmt) (String.ofList T) = some (gtrees L last) := by
  unfold parseDoc
  simp only [String.toList_ofList, hT]
  rw [doc_ok stmt hend L last hL hlast hne _ (by omega)]

/-! ### tab expansion, in general -/

/-- the column after a text that may contain tabs -/
def colT : List Char → Nat → Nat
  | [], col => col
  | '\t' :: cs, _ => colT cs 0
  | c :: cs, col => colT cs (if c == '\n' || c == '\r' then 0 else (col + 1) % 8)

theorem expandTabs_cons (c : Char) (cs : List Char) (col : Nat) (hc : c ≠ '\t') :
    expandTabs (c :: cs) col = c :: expandTabs cs (if c == '\n' || c == '\r' then 0 else (col + 1) % 8) := by
  rw [expandTabs]
  intro e; exact hc e

theorem expandTabs_tab (cs : List Char) (col : Nat) :
    expandTabs ('\t' :: cs) col = List.replicate (8 - col % 8) ' ' ++ expandTabs cs 0 := by
  rw [expandTabs]

theorem colT_cons (c : Char) (cs : List Char) (col : Nat) (hc : c ≠ '\t') :
    colT (c :: cs) col = colT cs (if c == '\n' || c == '\r' then 0 else (col + 1) % 8) := by
  rw [colT]
  intro e; exact hc e

theorem colT_tab (cs : List Char) (col : Nat) : colT ('\t' :: cs) col = colT cs 0 := by
  rw [colT]

/-- **tab expansion distributes over concatenation** -/
theorem expandTabs_append (a b : List Char) (col : Nat) :
    expandTabs (a ++ b) col = expandTabs a col ++ expandTabs b (colT a col) := by
  induction a generalizing col with
  | nil => rfl
  | cons c cs ih =>
    by_cases hc : c = '\t'
    · subst hc
      rw [List.cons_append, expandTabs_tab, expandTabs_tab, colT_tab, ih, List.append_assoc]
    · rw [List.cons_append, expandTabs_cons _ _ _ hc, expandTabs_cons _ _ _ hc, colT_cons _ _ _ hc, ih]
      rfl

/-- the characters of an expansion: blanks, and the characters of the text other than tabs -/
theorem mem_expandTabs (a : List Char) (col : Nat) (x : Char) (h : x ∈ expandTabs a col) :
    x = ' ' ∨ (x ∈ a ∧ x ≠ '\t') := by
  induction a generalizing col with
  | nil => simp [expandTabs] at h
  | cons c cs ih =>
    by_cases hc : c = '\t'
    · subst hc
      rw [expandTabs_tab] at h
      rcases List.mem_append.mp h with h | h
      · exact Or.inl (List.mem_replicate.mp h).2
      · rcases ih _ h with e | ⟨e1, e2⟩
        · exact Or.inl e
        · exact Or.inr ⟨List.mem_cons_of_mem _ e1, e2⟩
    · rw [expandTabs_cons _ _ _ hc] at h
      rcases List.mem_cons.mp h with h | h
      · subst h; exact Or.inr ⟨List.mem_cons_self, hc⟩
      · rcases ih _ h with e | ⟨e1, e2⟩
        · exact Or.inl e
        · exact Or.inr ⟨List.mem_cons_of_mem _ e1, e2⟩

theorem expandTabs_nl (rest : List Char) (col : Nat) : expandTabs ('\n' :: rest) col = '\n' :: expandTabs rest 0 := by
  rw [expandTabs_cons _ _ _ (by decide)]
  rfl

/-! ### lines with tabs -/

/-- whitespace inside a line: blanks, tabs and carriage returns -/
def IsWs (w : List Char) : Prop := ∀ c ∈ w, c = ' ' ∨ c = '\t' ∨ c = '\r'

/-- an optional comment: `#` and its text -/
def cmText : Option (List Char) → List Char
  | none => []
  | some c => '#' :: c

/-- the text of a comment runs to the end of the line (it may contain tabs and carriage returns) -/
def CmOK (cm : Option (List Char)) : Prop := ∀ c, cm = some c → '\n' ∉ c

/-- the end of a line: LF or CR LF -/
inductive Eol
  | lf
  | crlf

def Eol.cr : Eol → List Char
  | .lf => []
  | .crlf => ['\r']

def Eol.text (e : Eol) : List Char := e.cr ++ ['\n']

theorem Eol.cr_cases (e : Eol) : e.cr = [] ∨ e.cr = ['\r'] := by cases e <;> simp [Eol.cr]

/-- whitespace, an optional comment and an optional carriage return expand to a statement-free piece -/
theorem isBlank_expand (w : List Char) (cm : Option (List Char)) (cr : List Char) (hw : IsWs w) (hcm : CmOK cm)
    (hcr : cr = [] ∨ cr = ['\r']) (col : Nat) : IsBlank (expandTabs (w ++ cmText cm ++ cr) col) := by
  have hws : ∀ a : List Char, IsWs a → ∀ col, ∀ x ∈ expandTabs a col, isWs x = true := by
    intro a ha col x hx
    rcases mem_expandTabs a col x hx with rfl | ⟨h1, h2⟩
    · decide
    · rcases ha x h1 with rfl | rfl | rfl
      · decide
      · exact absurd rfl h2
      · decide
  have hcrw : IsWs cr := by
    rcases hcr with rfl | rfl
    · intro c hc; cases hc
    · intro c hc; simp at hc; exact Or.inr (Or.inr hc)
  cases cm with
  | none =>
    apply isBlank_ws
    apply hws
    intro c hc
    simp only [cmText, List.append_nil, List.mem_append] at hc
    rcases hc with hc | hc
    · exact hw c hc
    · exact hcrw c hc
  | some c =>
    have hc := hcm c rfl
    have e : w ++ cmText (some c) ++ cr = w ++ '#' :: (c ++ cr) := by simp [cmText]
    rw [e, expandTabs_append, expandTabs_cons _ _ _ (by decide)]
    apply isBlank_comment _ _ (hws w hw col)
    intro hm
    rcases mem_expandTabs _ _ _ hm with h | ⟨h1, _⟩
    · exact absurd h (by decide)
    · rcases List.mem_append.mp h1 with h | h
      · exact hc h
      · rcases hcr with rfl | rfl
        · cases h
        · simp at h

/-- what may follow a statement on its line, after tab expansion: nothing, a carriage return, or a comment -/
inductive IsTrail : List Char → Prop
  | nil : IsTrail []
  | cr : IsTrail ['\r']
  | cm (c : List Char) : '\n' ∉ c → IsTrail ('#' :: c)

theorem IsTrail.blank {r : List Char} (h : IsTrail r) : IsBlank r := by
  cases h with
  | nil => exact isBlank_ws [] (by simp)
  | cr => exact isBlank_ws ['\r'] (by intro c hc; simp at hc; subst hc; decide)
  | cm c hc => exact isBlank_comment [] c (by simp) hc

theorem isTrail_expand (cm : Option (List Char)) (cr : List Char) (hcm : CmOK cm) (hcr : cr = [] ∨ cr = ['\r'])
    (col : Nat) : IsTrail (expandTabs (cmText cm ++ cr) col) := by
  cases cm with
  | none =>
    rcases hcr with rfl | rfl
    · exact IsTrail.nil
    · have : expandTabs (cmText none ++ ['\r']) col = ['\r'] := by
        simp only [cmText, List.nil_append]
        rw [expandTabs_cons _ _ _ (by decide)]
        rfl
      rw [this]; exact IsTrail.cr
  | some c =>
    have hc := hcm c rfl
    have e : cmText (some c) ++ cr = '#' :: (c ++ cr) := by simp [cmText]
    rw [e, expandTabs_cons _ _ _ (by decide)]
    apply IsTrail.cm
    intro hm
    rcases mem_expandTabs _ _ _ hm with h | ⟨h1, _⟩
    · exact absurd h (by decide)
    · rcases List.mem_append.mp h1 with h | h
      · exact hc h
      · rcases hcr with rfl | rfl
        · cases h
        · simp at h

/-- `body` — which may contain tabs — is the text of a statement with the tree `t`, at ANY start column and after
    ANY indentation: at column `col` it expands to `s'`, whatever follows, and `s'` after any number of blanks is a
    statement line in front of every trail -/
def BodyT (env : Env) (stmt : G) (body : List Char) (t : Tree) : Prop :=
  ∀ col, ∃ s' col', (∀ rest, expandTabs (body ++ rest) col = s' ++ expandTabs rest col') ∧
    ∀ n r, IsTrail r → IsStmtLine env stmt (List.replicate n ' ' ++ s') t r

/-- a line (without its line end): statement-free — whitespace and an optional comment — or indentation, a
    statement and an optional comment -/
inductive TLine
  | blank (w : List Char) (cm : Option (List Char))
  | stmt (indent body : List Char) (t : Tree) (cm : Option (List Char))

def TLine.body : TLine → List Char
  | .blank w cm => w ++ cmText cm
  | .stmt i b _ cm => i ++ b ++ cmText cm

def TLine.trees : TLine → List Tree
  | .blank _ _ => []
  | .stmt _ _ t _ => [t]

def TLine.OK (env : Env) (stmt : G) : TLine → Prop
  | .blank w cm => IsWs w ∧ CmOK cm
  | .stmt i b t cm => IsSep i ∧ BodyT env stmt b t ∧ CmOK cm

/-- the expansion of a line that starts at column 0 -/
theorem expand_body (stmt : G) (l : TLine) (hl : l.OK env stmt) (cr : List Char) (hcr : cr = [] ∨ cr = ['\r']) :
    ∃ g : GLine, g.OK env stmt ∧ g.trees = l.trees ∧
      ∃ col', ∀ rest, expandTabs (l.body ++ (cr ++ rest)) 0 = g.body ++ expandTabs rest col' := by
  cases l with
  | blank w cm =>
    obtain ⟨hw, hcm⟩ := hl
    refine ⟨.blank (expandTabs (w ++ cmText cm ++ cr) 0), isBlank_expand w cm cr hw hcm hcr 0, rfl,
      colT (w ++ cmText cm ++ cr) 0, fun rest => ?_⟩
    simp only [TLine.body, GLine.body]
    rw [← List.append_assoc, expandTabs_append]
  | stmt i b t cm =>
    obtain ⟨hi, hb, hcm⟩ := hl
    obtain ⟨n, col1, _, hex1⟩ := expandTabs_sep i hi 0
    obtain ⟨s', col2, hex2, hline⟩ := hb col1
    refine ⟨.stmt (List.replicate n ' ' ++ s') t (expandTabs (cmText cm ++ cr) col2),
      hline n _ (isTrail_expand cm cr hcm hcr col2), rfl, colT (cmText cm ++ cr) col2, fun rest => ?_⟩
    simp only [TLine.body, GLine.body]
    have e : i ++ b ++ cmText cm ++ (cr ++ rest) = i ++ (b ++ ((cmText cm ++ cr) ++ rest)) := by
      simp [List.append_assoc]
    rw [e, hex1, hex2, expandTabs_append]
    simp [List.append_assoc]

/-- the text of a document: the lines `L` with their line ends, and the unterminated last line -/
def ttext : List (TLine × Eol) → TLine → List Char
  | [], last => last.body
  | x :: L, last => x.1.body ++ (x.2.text ++ ttext L last)

/-- the trees of the statement lines, in order -/
def ttrees : List (TLine × Eol) → TLine → List Tree
  | [], last => last.trees
  | x :: L, last => x.1.trees ++ ttrees L last

theorem expand_doc (stmt : G) (L : List (TLine × Eol)) (last : TLine) (hL : ∀ x ∈ L, x.1.OK env stmt)
    (hlast : last.OK env stmt) :
    ∃ (L' : List GLine) (last' : GLine), (∀ l ∈ L', l.OK env stmt) ∧ last'.OK env stmt ∧
      gtrees L' last' = ttrees L last ∧ expandTabs (ttext L last) 0 = gtext L' last' := by
  induction L with
  | nil =>
    obtain ⟨g, h1, h2, col', h3⟩ := expand_body stmt last hlast [] (Or.inl rfl)
    refine ⟨[], g, by simp, h1, h2, ?_⟩
    have := h3 []
    simpa [expandTabs, ttext, gtext] using this
  | cons x L ih =>
    obtain ⟨L', last', a1, a2, a3, a4⟩ := ih (fun y hy => hL y (List.mem_cons_of_mem _ hy))
    obtain ⟨g, h1, h2, col', h3⟩ := expand_body stmt x.1 (hL x List.mem_cons_self) x.2.cr x.2.cr_cases
    refine ⟨g :: L', last', ?_, a2, by simp only [gtrees, ttrees, h2, a3], ?_⟩
    · intro l hl
      rcases List.mem_cons.mp hl with rfl | hl
      · exact h1
      · exact a1 l hl
    · have := h3 ('\n' :: ttext L last)
      simp only [ttext, gtext, Eol.text, List.append_assoc, List.cons_append, List.nil_append]
      rw [this, expandTabs_nl, a4]

/-- **documents given line by line**: statement-free lines, indented statement lines with trailing comments, LF and
    CR LF line ends, tabs everywhere, an unterminated last line — the document parses as its statements, in order -/
theorem doc_layout (stmt : G) (hend : No env 100 {} stmt PEnd) (L : List (TLine × Eol)) (last : TLine)
    (hL : ∀ x ∈ L, x.1.OK env stmt) (hlast : last.OK env stmt) (hne : ttrees L last ≠ []) :
    parseDoc env (docG stmt) (String.ofList (ttext L last)) = some (ttrees L last) := by
  obtain ⟨L', last', a1, a2, a3, a4⟩ := expand_doc stmt L last hL hlast
  rw [← a3] at hne ⊢
  exact doc_parse stmt hend L' last' a1 a2 hne _ a4

/-! ### documents over a family of layout templates

The final packaging: the statements are given by a type `σ` of statement descriptions, each with its layout template
(`tmpl`: the tokens and the separator positions, Lemmas/PPTabs.lean), its tree and its side conditions; a line is
statement-free or `indentation ++ renderW (tmpl s) gaps ++ comment`. -/

/-- a family of statement kinds with layout templates -/
structure Lang (σ : Type) where
  tmpl : σ → List Piece
  tree : σ → Tree
  OK : σ → Prop

/-- a line of a document (without its line end) -/
inductive Line (σ : Type)
  | blank (w : List Char) (cm : Option (List Char))
  | stmt (indent : List Char) (s : σ) (gaps : List (List Char)) (cm : Option (List Char))

variable {σ : Type}

/-- the text of a line: whitespace and an optional comment, or the indentation, the template of the statement
    rendered with the given separators, and an optional comment -/
def Line.text (K : Lang σ) : Line σ → List Char
  | .blank w cm => w ++ cmText cm
  | .stmt i s gaps cm => i ++ renderW (K.tmpl s) gaps ++ cmText cm

def Line.trees (K : Lang σ) : Line σ → List Tree
  | .blank _ _ => []
  | .stmt _ s _ _ => [K.tree s]

/-- the side conditions of a line: whitespace is blanks / tabs / carriage returns, a comment has no line feed, the
    indentation is blanks / tabs, the statement is well formed and the separators fit its template -/
def Line.OK (K : Lang σ) : Line σ → Prop
  | .blank w cm => IsWs w ∧ CmOK cm
  | .stmt i s gaps cm => IsSep i ∧ K.OK s ∧ SepsOK (K.tmpl s) gaps ∧ CmOK cm

/-- **the one rendering function**: the lines `L`, each with its line end (LF or CR LF), then the last line without
    a line end (`Line.blank [] none` when the text ends with a line end) -/
def renderDoc (K : Lang σ) : List (Line σ × Eol) → Line σ → List Char
  | [], last => last.text K
  | x :: L, last => x.1.text K ++ (x.2.text ++ renderDoc K L last)

/-- the trees of the statement lines, in order -/
def docTrees (K : Lang σ) : List (Line σ × Eol) → Line σ → List Tree
  | [], last => last.trees K
  | x :: L, last => x.1.trees K ++ docTrees K L last

def Line.toT (K : Lang σ) : Line σ → TLine
  | .blank w cm => .blank w cm
  | .stmt i s gaps cm => .stmt i (renderW (K.tmpl s) gaps) (K.tree s) cm

theorem renderDoc_eq (K : Lang σ) (L : List (Line σ × Eol)) (last : Line σ) :
    renderDoc K L last = ttext (L.map (fun x => (x.1.toT K, x.2))) (last.toT K) ∧
      docTrees K L last = ttrees (L.map (fun x => (x.1.toT K, x.2))) (last.toT K) := by
  have h1 : ∀ l : Line σ, l.text K = (l.toT K).body ∧ l.trees K = (l.toT K).trees := by
    intro l; cases l <;> exact ⟨rfl, rfl⟩
  induction L with
  | nil => exact h1 last
  | cons x L ih =>
    simp only [renderDoc, docTrees, List.map_cons, ttext, ttrees, ih.1, ih.2, (h1 x.1).1, (h1 x.1).2]
    trivial

/-- **every layout**: for a statement grammar `stmt` all of whose templates are statement texts at every start
    column, the document rendered from ANY list of well-formed lines parses as its statements, in order -/
theorem every_layout (K : Lang σ) (stmt : G) (hend : No env 100 {} stmt PEnd)
    (hK : ∀ s, K.OK s → ∀ ws, SepsOK (K.tmpl s) ws → BodyT env stmt (renderW (K.tmpl s) ws) (K.tree s))
    (L : List (Line σ × Eol)) (last : Line σ) (hL : ∀ x ∈ L, x.1.OK K) (hlast : last.OK K)
    (hne : docTrees K L last ≠ []) :
    parseDoc env (docG stmt) (String.ofList (renderDoc K L last)) = some (docTrees K L last) := by
  obtain ⟨e1, e2⟩ := renderDoc_eq K L last
  have hT : ∀ l : Line σ, l.OK K → (l.toT K).OK env stmt := by
    intro l hl
    cases l with
    | blank w cm => exact hl
    | stmt i s gaps cm => exact ⟨hl.1, hK s hl.2.1 gaps hl.2.2.1, hl.2.2.2⟩
  rw [e2] at hne
  rw [e1, e2]
  apply doc_layout stmt hend _ _ _ (hT last hlast) hne
  intro y hy
  obtain ⟨x, hx, rfl⟩ := List.mem_map.mp hy
  exact hT x.1 (hL x hx)

/-- a template with a trailing optional separator: the last separator of the list is the trailing one -/
theorem sepsOK_snoc (tm : List Piece) (gaps : List (List Char)) (h : SepsOK (tm ++ [.sep false]) gaps) :
    ∃ ws w, gaps = ws ++ [w] ∧ SepsOK tm ws ∧ IsSep w ∧ renderW (tm ++ [.sep false]) gaps = renderW tm ws ++ w := by
  induction tm generalizing gaps with
  | nil =>
    cases gaps with
    | nil => exact absurd h (by simp [SepsOK])
    | cons w gs =>
      obtain ⟨h1, _, h3⟩ := h
      have : gs = [] := h3
      subst this
      exact ⟨[], w, rfl, rfl, h1, by simp [renderW]⟩
  | cons p ps ih =>
    cases p with
    | tok s =>
      obtain ⟨ws, w, e1, e2, e3, e4⟩ := ih gaps h
      refine ⟨ws, w, e1, e2, e3, ?_⟩
      simp only [List.cons_append, renderW, e4, List.append_assoc]
    | sep req =>
      cases gaps with
      | nil => exact absurd h (by simp [SepsOK])
      | cons g gs =>
        obtain ⟨h1, h2, h3⟩ := h
        obtain ⟨ws, w, e1, e2, e3, e4⟩ := ih gs h3
        refine ⟨g :: ws, w, by rw [e1]; rfl, ⟨h1, h2, e2⟩, e3, ?_⟩
        simp only [List.cons_append, renderW, e4, List.append_assoc]

theorem sepsOK_snoc_intro (tm : List Piece) (ws : List (List Char)) (w : List Char) (h1 : SepsOK tm ws)
    (h2 : IsSep w) : SepsOK (tm ++ [.sep false]) (ws ++ [w]) := by
  induction tm generalizing ws with
  | nil =>
    have : ws = [] := h1
    subst this
    exact ⟨h2, by simp, rfl⟩
  | cons p ps ih =>
    cases p with
    | tok t => exact ih ws h1
    | sep req =>
      cases ws with
      | nil => exact absurd h1 (by simp [SepsOK])
      | cons g gs => exact ⟨h1.1, h1.2.1, ih gs h1.2.2⟩

/-! ### closed instances: the side conditions are decidable -/

instance decIsSep (w : List Char) : Decidable (IsSep w) := by unfold IsSep; infer_instance

instance decIsWs (w : List Char) : Decidable (IsWs w) := by unfold IsWs; infer_instance

instance decSepsOK : (tm : List Piece) → (ws : List (List Char)) → Decidable (SepsOK tm ws)
  | [], ws => inferInstanceAs (Decidable (ws = []))
  | .tok _ :: ps, ws => decSepsOK ps ws
  | .sep req :: ps, w :: ws =>
    have := decSepsOK ps ws
    inferInstanceAs (Decidable (IsSep w ∧ (req = true → w ≠ []) ∧ SepsOK ps ws))
  | .sep _ :: _, [] => isFalse (fun h => h)

theorem cmOK_none : CmOK none := by intro c hc; cases hc

theorem cmOK_some (c : List Char) (h : '\n' ∉ c) : CmOK (some c) := by
  intro c' hc; cases hc; exact h

theorem all_nil {α : Type} {p : α → Prop} : ∀ x ∈ ([] : List α), p x := by intro x hx; cases hx

theorem all_cons {α : Type} {p : α → Prop} {a : α} {l : List α} (ha : p a) (hl : ∀ x ∈ l, p x) :
    ∀ x ∈ a :: l, p x := by
  intro x hx
  rcases List.mem_cons.mp hx with rfl | hx
  · exact ha
  · exact hl x hx

/-! ### comparing parse results by evaluation

`Tree` has no decidable equality in the model; a Boolean comparison with its soundness lets `decide +kernel` check a
closed parse result directly (elaborator-level `rfl` runs out of recursion depth on documents of several lines). -/

mutual
def beqT : Tree → Tree → Bool
  | .tok a, .tok b => a == b
  | .grp as, .grp bs => beqL as bs
  | _, _ => false
def beqL : List Tree → List Tree → Bool
  | [], [] => true
  | a :: as, b :: bs => beqT a b && beqL as bs
  | _, _ => false
end

mutual
theorem beqT_eq : ∀ a b, beqT a b = true → a = b
  | .tok a, .tok b, h => by simp only [beqT, beq_iff_eq] at h; rw [h]
  | .grp as, .grp bs, h => by simp only [beqT] at h; rw [beqL_eq as bs h]
  | .tok _, .grp _, h => by simp [beqT] at h
  | .grp _, .tok _, h => by simp [beqT] at h
theorem beqL_eq : ∀ as bs, beqL as bs = true → as = bs
  | [], [], _ => rfl
  | a :: as, b :: bs, h => by
    simp only [beqL, Bool.and_eq_true] at h
    rw [beqT_eq a b h.1, beqL_eq as bs h.2]
  | [], _ :: _, h => by simp [beqL] at h
  | _ :: _, [], h => by simp [beqL] at h
end

def beqO : Option (List Tree) → Option (List Tree) → Bool
  | some a, some b => beqL a b
  | none, none => true
  | _, _ => false

/-- a parse result is the expected one if the Boolean comparison says so -/
theorem eq_of_beqO (a b : Option (List Tree)) (h : beqO a b = true) : a = b := by
  cases a <;> cases b <;> simp [beqO] at h ⊢
  exact beqL_eq _ _ h

/-- a theorem about the text `T` applies to the string `s` if `s` consists of the characters `T` (checked by
    evaluation: the two strings are really compared) -/
theorem parse_of_string (env : Env) (g : G) (T : List Char) (s : String) (r : Option (List Tree))
    (h : parseDoc env g (String.ofList T) = r) (e : String.ofList T = s) : parseDoc env g s = r := e ▸ h

/-! ### documents given as a list of line strings

Converting a long string literal to its characters is slow in the kernel (`String.toList` on some hundred characters
takes many seconds), so closed examples of several lines give the document as `String.join [line₁, line₂, …]`: the
characters of the short line literals are computed separately (`String.toList_join`). -/

/-- `parseDoc` on a list of characters -/
def parseChars (env : Env) (g : G) (cs : List Char) : Option (List Tree) :=
  match run env (4 * (expandTabs cs 0).length + 200) {} g { rest := expandTabs cs 0 } with
  | some (_, ts) => some ts
  | none => none

theorem parseDoc_ofList (g : G) (T : List Char) : parseDoc env g (String.ofList T) = parseChars env g T := by
  unfold parseDoc parseChars
  simp only [String.toList_ofList]
  rfl

theorem parseDoc_join (g : G) (ls : List String) :
    parseDoc env g (String.join ls) = parseChars env g (ls.flatMap String.toList) := by
  unfold parseDoc parseChars
  simp only [String.toList_join]
  rfl

/-- a theorem about the text `T` applies to the document with the lines `ls` if their characters are `T` (checked
    by evaluation: the texts are really compared) -/
theorem parse_of_lines (g : G) (T : List Char) (ls : List String) (r : Option (List Tree))
    (h : parseDoc env g (String.ofList T) = r) (e : T = ls.flatMap String.toList) :
    parseDoc env g (String.join ls) = r := by
  rw [parseDoc_join, ← e, ← parseDoc_ofList]; exact h

/-- the document with the lines `ls`, checked directly against the interpreter -/
theorem parse_lines_direct (g : G) (ls : List String) (r : Option (List Tree))
    (h : beqO (parseChars env g (ls.flatMap String.toList)) r = true) : parseDoc env g (String.join ls) = r := by
  rw [parseDoc_join]; exact eq_of_beqO _ _ h

end Dsd.PP.Lines
