/-
Comment-aware bracket accounting for the PIL grammar (C13 soundness without the `#`-freeness hypothesis).

The model accepts comments inside kernel statements — `X = a( # ( \n )` is a well-formed complex: the comment runs to
the line end and `White` then matches the line feed inside the empty loop — so the parentheses of a consumed text are
balanced only up to comments.  `scan b d cs`: scan `cs` from nesting depth `d`, inside a comment iff `b`; comments
(`#` to the line feed) are skipped.  `NeutC c rest`: the consumed text `c` (in front of `rest`) returns to every depth
it starts from, and a comment that is still open at its end is closed by the first character of `rest`.
`Yield.neutC`: terms without parentheses consume such text; `pattern_neutC`, `cplx_neutC`: so do kernel patterns and
kernel statements — WITHOUT any hypothesis on comments.
-/
import DsdVerif.Lemmas.PilYield

namespace Dsd.PP
open Dsd Dsd.Gen

/-- scan the parentheses of a text, skipping comments: `b` — inside a comment; `d` — the nesting depth -/
def scan : Bool → Nat → List Char → Option (Bool × Nat)
  | b, d, [] => some (b, d)
  | true, d, c :: cs => if c = '\n' then scan false d cs else scan true d cs
  | false, d, c :: cs =>
    if c = '#' then scan true d cs
    else if c = '(' then scan false (d + 1) cs
    else if c = ')' then (match d with | 0 => none | d' + 1 => scan false d' cs)
    else scan false d cs

theorem scan_append (a b : List Char) (st : Bool) (d : Nat) :
    scan st d (a ++ b) = (scan st d a).bind (fun r => scan r.1 r.2 b) := by
  induction a generalizing st d with
  | nil => cases st <;> simp [scan]
  | cons c cs ih =>
    cases st with
    | true =>
      simp only [List.cons_append, scan]
      split <;> exact ih _ _
    | false =>
      simp only [List.cons_append, scan]
      split
      · exact ih _ _
      · split
        · exact ih _ _
        · split
          · cases d with
            | zero => rfl
            | succ d' => exact ih _ _
          · exact ih _ _

/-- if a comment is open, the text continues with its end -/
def StartOK (b : Bool) (X : List Char) : Prop := b = false ∨ X = [] ∨ ∃ r, X = '\n' :: r

/-- the consumed text `c` in front of `rest` is well nested up to comments -/
def NeutC (c rest : List Char) : Prop :=
  ∀ b d, StartOK b (c ++ rest) → ∃ b', scan b d c = some (b', d) ∧ StartOK b' rest

theorem neutC_nil (rest : List Char) : NeutC [] rest := fun b d h => ⟨b, by cases b <;> rfl, h⟩

theorem NeutC.append {a b rest : List Char} (ha : NeutC a (b ++ rest)) (hb : NeutC b rest) : NeutC (a ++ b) rest := by
  intro st d hst
  rw [List.append_assoc] at hst
  obtain ⟨b1, h1, hs1⟩ := ha st d hst
  obtain ⟨b2, h2, hs2⟩ := hb b1 d hs1
  exact ⟨b2, by rw [scan_append, h1]; exact h2, hs2⟩

/-- no parenthesis, no comment sign -/
def Plain (c : List Char) : Prop := ∀ x ∈ c, x ≠ '(' ∧ x ≠ ')' ∧ x ≠ '#'

theorem scan_plain (c : List Char) (h : Plain c) (d : Nat) : scan false d c = some (false, d) := by
  induction c with
  | nil => rfl
  | cons x xs ih =>
    obtain ⟨h1, h2, h3⟩ := h x List.mem_cons_self
    simp only [scan, h1, h2, h3, if_false]
    exact ih (fun y hy => h y (List.mem_cons_of_mem _ hy))

theorem Plain.neutC {c : List Char} (h : Plain c) (rest : List Char) : NeutC c rest := by
  intro b d hst
  cases b with
  | false => exact ⟨false, scan_plain c h d, Or.inl rfl⟩
  | true =>
    cases c with
    | nil => exact ⟨true, rfl, hst⟩
    | cons x xs =>
      rcases hst with h0 | h0 | ⟨r, h0⟩
      · cases h0
      · simp at h0
      · simp only [List.cons_append, List.cons.injEq] at h0
        obtain ⟨rfl, _⟩ := h0
        refine ⟨false, ?_, Or.inl rfl⟩
        simp only [scan, if_true]
        exact scan_plain xs (fun y hy => h y (List.mem_cons_of_mem _ hy)) d

theorem Plain.append {a b : List Char} (ha : Plain a) (hb : Plain b) : Plain (a ++ b) := by
  intro x hx
  rcases List.mem_append.mp hx with hx | hx
  · exact ha x hx
  · exact hb x hx

theorem plain_ws {w : List Char} (h : ∀ c ∈ w, isWs c = true) : Plain w := by
  intro x hx
  have := h x hx
  refine ⟨?_, ?_, ?_⟩ <;> (intro e; subst e; simp [isWs] at this)

/-! ### what is skipped in front of an element -/

/-- the skipped text: blanks, or blanks and a comment that ends where the element starts -/
def IgnC (ign X : List Char) : Prop :=
  (∀ c ∈ ign, isWs c = true) ∨
  (∃ w cm, ign = w ++ '#' :: cm ∧ (∀ c ∈ w, isWs c = true) ∧ '\n' ∉ cm ∧ (X = [] ∨ ∃ r, X = '\n' :: r))

theorem dropWhile_nl_head (cs : List Char) :
    cs.dropWhile (· != '\n') = [] ∨ ∃ r, cs.dropWhile (· != '\n') = '\n' :: r := by
  induction cs with
  | nil => exact Or.inl rfl
  | cons c cs ih =>
    rw [List.dropWhile_cons]
    split
    · exact ih
    · rename_i h
      have : c = '\n' := by simpa using h
      exact Or.inr ⟨cs, by rw [this]⟩

theorem notmem_takeWhile_nl (cs : List Char) : '\n' ∉ cs.takeWhile (· != '\n') := by
  intro h
  have := mem_takeWhile_true _ _ _ h
  simp at this

theorem skipWs_nl_head (D : List Char) (h : D = [] ∨ ∃ r, D = '\n' :: r) : skipWs D = D := by
  rcases h with rfl | ⟨r, rfl⟩
  · rfl
  · simp [skipWs, isWs]

theorem skipIgn_splitC (cs : List Char) : ∃ ign, cs = ign ++ skipIgn cs ∧ IgnC ign (skipIgn cs) := by
  obtain ⟨w1, h1, hw1⟩ := skipWs_split cs
  unfold skipIgn
  simp only
  split
  · rename_i t ht
    have hD := dropWhile_nl_head (skipWs cs)
    rw [skipWs_nl_head _ hD]
    refine ⟨w1 ++ (skipWs cs).takeWhile (· != '\n'), ?_, Or.inr ⟨w1, t.takeWhile (· != '\n'), ?_, hw1, ?_, hD⟩⟩
    · rw [List.append_assoc, List.takeWhile_append_dropWhile]; exact h1
    · rw [ht]; simp
    · exact notmem_takeWhile_nl t
  · exact ⟨w1, h1, Or.inl hw1⟩

theorem preL_splitC (skip : Bool) (cs : List Char) :
    ∃ ign, cs = ign ++ preL skip cs ∧ IgnC ign (preL skip cs) := by
  unfold preL
  cases skip with
  | false => exact ⟨[], rfl, Or.inl (by simp)⟩
  | true =>
    obtain ⟨ign, h1, h2⟩ := skipIgn_splitC cs
    exact ⟨ign, by simpa using h1, by simpa using h2⟩

theorem scan_comment (cm : List Char) (h : '\n' ∉ cm) (d : Nat) : scan true d cm = some (true, d) := by
  induction cm with
  | nil => rfl
  | cons x xs ih =>
    simp only [List.mem_cons, not_or] at h
    have : x ≠ '\n' := fun e => h.1 e.symm
    simp only [scan, this, if_false]
    exact ih h.2

theorem IgnC.neutC {ign X : List Char} (h : IgnC ign X) : NeutC ign X := by
  rcases h with h | ⟨w, cm, rfl, hw, hcm, hX⟩
  · exact (plain_ws h).neutC X
  · intro b d hst
    have hb : b = false := by
      rcases hst with h0 | h0 | ⟨r, h0⟩
      · exact h0
      · simp at h0
      · cases w with
        | nil => simp at h0
        | cons x xs =>
          simp only [List.cons_append, List.cons.injEq] at h0
          have := hw x List.mem_cons_self
          rw [h0.1] at this
          simp [isWs] at this
    subst hb
    refine ⟨true, ?_, Or.inr hX⟩
    rw [scan_append, scan_plain w (plain_ws hw) d]
    simp only [Option.bind_some, scan, if_true]
    exact scan_comment cm hcm d

/-! ### terms that cannot consume a parenthesis or a comment sign -/

inductive BrFreeC : G → Prop
  | lit (s) : Plain s → BrFreeC (.lit s)
  | kw (s i) : Plain s → BrFreeC (.kw s i)
  | word (i b) : Plain i → Plain b → BrFreeC (.word i b)
  | white : BrFreeC .white
  | lineEnd : BrFreeC .lineEnd
  | stringStart : BrFreeC .stringStart
  | stringEnd : BrFreeC .stringEnd
  | seq (gs) : (∀ g ∈ gs, BrFreeC g) → BrFreeC (.seq gs)
  | alt (gs) : (∀ g ∈ gs, BrFreeC g) → BrFreeC (.alt gs)
  | opt (g) : BrFreeC g → BrFreeC (.opt g)
  | many (g) : BrFreeC g → BrFreeC (.many g)
  | many1 (g) : BrFreeC g → BrFreeC (.many1 g)
  | combine (g) : BrFreeC g → BrFreeC (.combine g)
  | group (g) : BrFreeC g → BrFreeC (.group g)
  | suppress (g) : BrFreeC g → BrFreeC (.suppress g)
  | tag (t g) : BrFreeC g → BrFreeC (.tag t g)

theorem plain_of_contains (cls : List Char) (h : Plain cls) (c : Char) (hc : cls.contains c = true) :
    c ≠ '(' ∧ c ≠ ')' ∧ c ≠ '#' := h c (by simpa using hc)

variable {env : Env}

mutual
/-- **a term without parentheses consumes text that is well nested up to comments** -/
theorem Yield.neutC : ∀ {skip : Bool} {g : G} {inp rest : List Char} {ts : List Tree},
    Yield env skip g inp rest ts → BrFreeC g → ∃ c, inp = c ++ rest ∧ NeutC c rest
  | _, _, _, _, _, .lit skip s inp rest hs, hb => by
    obtain ⟨ign, h1, h2⟩ := preL_splitC skip inp
    have e := stripPrefix_some s _ rest hs
    rw [e] at h1 h2
    cases hb with
    | lit _ hs' =>
      exact ⟨ign ++ s, by rw [List.append_assoc]; exact h1, h2.neutC.append (hs'.neutC rest)⟩
  | _, _, _, _, _, .kw skip s ident inp rest hs _, hb => by
    obtain ⟨ign, h1, h2⟩ := preL_splitC skip inp
    have e := stripPrefix_some s _ rest hs
    rw [e] at h1 h2
    cases hb with
    | kw _ _ hs' =>
      exact ⟨ign ++ s, by rw [List.append_assoc]; exact h1, h2.neutC.append (hs'.neutC rest)⟩
  | _, _, _, _, _, .word skip init body inp c cs hp hc, hb => by
    obtain ⟨ign, h1, h2⟩ := preL_splitC skip inp
    have e : c :: cs = (c :: cs.takeWhile (fun x => body.contains x)) ++
        cs.drop (cs.takeWhile (fun x => body.contains x)).length := by
      simp only [List.cons_append]; congr 1; exact (takeWhile_append_drop' _ cs).symm
    rw [hp, e] at h1 h2
    cases hb with
    | word _ _ hi hbd =>
      have hpl : Plain (c :: cs.takeWhile (fun x => body.contains x)) := by
        intro x hx
        rcases List.mem_cons.mp hx with rfl | hx
        · exact plain_of_contains init hi _ hc
        · exact plain_of_contains body hbd x (mem_takeWhile_true _ _ x hx)
      exact ⟨ign ++ (c :: cs.takeWhile (fun x => body.contains x)), by rw [List.append_assoc]; exact h1,
        h2.neutC.append (hpl.neutC _)⟩
  | _, _, _, _, _, .white skip inp r0 hr0 _, _ => by
    have hr : ∃ w, inp = w ++ r0 ∧ IgnC w r0 := by
      cases skip with
      | false => exact ⟨[], by simpa using hr0.symm, Or.inl (by simp)⟩
      | true =>
        simp only [if_true] at hr0
        split at hr0
        · rename_i t ht
          obtain ⟨w, hw, hww⟩ := skipWs_split inp
          have hD := dropWhile_nl_head ('#' :: t)
          refine ⟨w ++ ('#' :: t).takeWhile (· != '\n'), ?_, Or.inr ⟨w, t.takeWhile (· != '\n'), ?_, hww, ?_, ?_⟩⟩
          · rw [hr0, List.append_assoc, List.takeWhile_append_dropWhile, ← ht]; exact hw
          · simp
          · exact notmem_takeWhile_nl t
          · rw [hr0]; exact hD
        · exact ⟨[], by simpa using hr0.symm, Or.inl (by simp)⟩
    obtain ⟨w, hw, hwn⟩ := hr
    have hpl : Plain (r0.takeWhile (fun c => isWs c || c == '\n')) := by
      intro x hx
      have := mem_takeWhile_true _ _ x hx
      simp only [Bool.or_eq_true, beq_iff_eq] at this
      rcases this with h | h
      · exact plain_ws (w := [x]) (by intro c hc; simp at hc; subst hc; exact h) x (by simp)
      · subst h; exact ⟨by decide, by decide, by decide⟩
    have e := (takeWhile_append_drop' (fun c => isWs c || c == '\n') r0).symm
    refine ⟨w ++ r0.takeWhile (fun c => isWs c || c == '\n'), by
      rw [List.append_assoc, takeWhile_append_drop']; exact hw, ?_⟩
    have hwn' : IgnC w (r0.takeWhile (fun c => isWs c || c == '\n') ++
        r0.drop (r0.takeWhile (fun c => isWs c || c == '\n')).length) := by rw [← e]; exact hwn
    exact hwn'.neutC.append (hpl.neutC _)
  | _, _, _, _, _, .lineEndNl skip inp cs hp, _ => by
    obtain ⟨ign, h1, h2⟩ := preL_splitC skip inp
    rw [hp] at h1 h2
    have hpl : Plain ['\n'] := by intro x hx; simp at hx; subst hx; exact ⟨by decide, by decide, by decide⟩
    exact ⟨ign ++ ['\n'], by rw [h1]; simp, h2.neutC.append (hpl.neutC cs)⟩
  | _, _, _, _, _, .lineEndEof skip inp hp, _ => by
    obtain ⟨ign, h1, h2⟩ := preL_splitC skip inp
    rw [hp] at h1 h2
    exact ⟨inp, by simp, by rw [h1]; simpa using h2.neutC⟩
  | _, _, _, _, _, .stringStart skip inp, _ => ⟨[], rfl, neutC_nil _⟩
  | _, _, _, _, _, .stringEnd skip inp hp, _ => by
    obtain ⟨ign, h1, h2⟩ := preL_splitC skip inp
    rw [hp] at h1 h2
    exact ⟨inp, by simp, by rw [h1]; simpa using h2.neutC⟩
  | _, _, _, _, _, .seq skip gs inp rest ts h, hb => by
    cases hb with
    | seq _ hgs => exact YieldSeq.neutC h hgs
  | _, _, _, _, _, .alt skip gs g inp rest ts hg h, hb => by
    cases hb with
    | alt _ hgs => exact Yield.neutC h (hgs g hg)
  | _, _, _, _, _, .optNone skip g inp, _ => ⟨[], rfl, neutC_nil _⟩
  | _, _, _, _, _, .optSome skip g inp rest ts h, hb => by
    cases hb with
    | opt _ hg => exact Yield.neutC h hg
  | _, _, _, _, _, .many skip g inp rest ts h, hb => by
    cases hb with
    | many _ hg => exact YieldMany.neutC h hg
  | _, _, _, _, _, .many1 skip g inp mid rest t1 t2 h1 h2, hb => by
    cases hb with
    | many1 _ hg =>
      obtain ⟨c1, e1, n1⟩ := Yield.neutC h1 hg
      obtain ⟨c2, e2, n2⟩ := YieldMany.neutC h2 hg
      subst e2
      exact ⟨c1 ++ c2, by rw [e1, List.append_assoc], n1.append n2⟩
  | _, _, _, _, _, .combine skip g inp rest ts f h, hb => by
    cases hb with
    | combine _ hg =>
      obtain ⟨ign, h1, h2⟩ := preL_splitC skip inp
      obtain ⟨c, e, n⟩ := Yield.neutC h hg
      rw [e] at h1 h2
      exact ⟨ign ++ c, by rw [List.append_assoc]; exact h1, h2.neutC.append n⟩
  | _, _, _, _, _, .group skip g inp rest ts h, hb => by
    cases hb with
    | group _ hg => exact Yield.neutC h hg
  | _, _, _, _, _, .suppress skip g inp rest ts h, hb => by
    cases hb with
    | suppress _ hg => exact Yield.neutC h hg
  | _, _, _, _, _, .tag skip t g inp rest ts h, hb => by
    cases hb with
    | tag _ _ hg => exact Yield.neutC h hg
  | _, _, _, _, _, .ref skip n g inp rest ts _ h, hb => by cases hb
theorem YieldSeq.neutC : ∀ {skip : Bool} {gs : List G} {inp rest : List Char} {ts : List Tree},
    YieldSeq env skip gs inp rest ts → (∀ g ∈ gs, BrFreeC g) → ∃ c, inp = c ++ rest ∧ NeutC c rest
  | _, _, _, _, _, .nil skip inp, _ => ⟨[], rfl, neutC_nil _⟩
  | _, _, _, _, _, .cons skip g gs inp mid rest t1 t2 h1 h2, hb => by
    obtain ⟨c1, e1, n1⟩ := Yield.neutC h1 (hb g List.mem_cons_self)
    obtain ⟨c2, e2, n2⟩ := YieldSeq.neutC h2 (fun g' hg' => hb g' (List.mem_cons_of_mem _ hg'))
    subst e2
    exact ⟨c1 ++ c2, by rw [e1, List.append_assoc], n1.append n2⟩
theorem YieldMany.neutC : ∀ {skip : Bool} {g : G} {inp rest : List Char} {ts : List Tree},
    YieldMany env skip g inp rest ts → BrFreeC g → ∃ c, inp = c ++ rest ∧ NeutC c rest
  | _, _, _, _, _, .nil skip g inp, _ => ⟨[], rfl, neutC_nil _⟩
  | _, _, _, _, _, .cons skip g inp mid rest t1 t2 h1 h2, hb => by
    obtain ⟨c1, e1, n1⟩ := Yield.neutC h1 hb
    obtain ⟨c2, e2, n2⟩ := YieldMany.neutC h2 hb
    subst e2
    exact ⟨c1 ++ c2, by rw [e1, List.append_assoc], n1.append n2⟩
end

/-! ### deciding `BrFreeC` -/

inductive AllBrFreeC : List G → Prop
  | nil : AllBrFreeC []
  | cons {g : G} {gs : List G} : BrFreeC g → AllBrFreeC gs → AllBrFreeC (g :: gs)

theorem AllBrFreeC.all {gs : List G} (h : AllBrFreeC gs) : ∀ x ∈ gs, BrFreeC x := by
  induction h with
  | nil => intro x hx; simp at hx
  | cons h1 _ ih =>
    intro x hx
    rcases List.mem_cons.mp hx with rfl | hx
    · exact h1
    · exact ih x hx

theorem allBrFreeC_nil : AllBrFreeC [] := AllBrFreeC.nil
theorem allBrFreeC_cons {g : G} {gs : List G} (h : BrFreeC g) (hs : AllBrFreeC gs) : AllBrFreeC (g :: gs) :=
  AllBrFreeC.cons h hs
theorem BrFreeC.seq' {gs : List G} (h : AllBrFreeC gs) : BrFreeC (.seq gs) := BrFreeC.seq gs h.all
theorem BrFreeC.alt' {gs : List G} (h : AllBrFreeC gs) : BrFreeC (.alt gs) := BrFreeC.alt gs h.all

macro "brfreeC" : tactic => `(tactic| repeat (first
  | exact allBrFreeC_nil | apply allBrFreeC_cons | apply BrFreeC.seq' | apply BrFreeC.alt' | apply BrFreeC.opt
  | apply BrFreeC.many | apply BrFreeC.many1 | apply BrFreeC.combine | apply BrFreeC.group | apply BrFreeC.suppress
  | apply BrFreeC.tag | exact BrFreeC.lineEnd | exact BrFreeC.white | exact BrFreeC.stringStart
  | exact BrFreeC.stringEnd
  | (apply BrFreeC.lit; unfold Plain; decide) | (apply BrFreeC.kw; unfold Plain; decide)
  | (apply BrFreeC.word <;> (unfold Plain; decide))))

theorem brFreeC_identifier : BrFreeC pil_identifier := by unfold pil_identifier; brfreeC
theorem brFreeC_sense : BrFreeC pil_sense := by unfold pil_sense pil_identifier; brfreeC
theorem brFreeC_plus : BrFreeC (.lit ['+']) := by brfreeC
theorem brFreeC_eq : BrFreeC (.suppress (.lit ['='])) := by brfreeC
theorem brFreeC_white : BrFreeC (.suppress .white) := by brfreeC
theorem brFreeC_conc : BrFreeC (.opt pil_conc) := by
  unfold pil_conc pil_gorf pil_num_sci pil_num_flt pil_number pil_cunit
  brfreeC
theorem brFreeC_lineEnds : BrFreeC (.many1 (.suppress .lineEnd)) := by brfreeC

/-! ### kernel patterns -/

/-- `a ( mid b )` around a well-nested `mid` -/
theorem neutC_wrap {a mid b rest : List Char} (ha : NeutC a ('(' :: (mid ++ (b ++ ')' :: rest))))
    (hm : NeutC mid (b ++ ')' :: rest)) (hb : NeutC b (')' :: rest)) :
    NeutC (a ++ '(' :: (mid ++ (b ++ [')']))) rest := by
  intro st d hst
  have hst' : StartOK st (a ++ '(' :: (mid ++ (b ++ ')' :: rest))) := by simpa [List.append_assoc] using hst
  obtain ⟨b1, h1, hs1⟩ := ha st d hst'
  have hb1 : b1 = false := by
    rcases hs1 with h | h | ⟨r, h⟩
    · exact h
    · simp at h
    · simp at h
  subst hb1
  obtain ⟨b2, h2, hs2⟩ := hm false (d + 1) (Or.inl rfl)
  obtain ⟨b3, h3, hs3⟩ := hb b2 (d + 1) hs2
  have hb3 : b3 = false := by
    rcases hs3 with h | h | ⟨r, h⟩
    · exact h
    · simp at h
    · simp at h
  subst hb3
  refine ⟨false, ?_, Or.inl rfl⟩
  rw [scan_append, h1]
  simp only [Option.bind_some, scan]
  simp only [show ('(' : Char) ≠ '#' by decide, if_false, if_true]
  rw [scan_append, h2]
  simp only [Option.bind_some]
  rw [scan_append, h3]
  simp [scan]

/-- one element of a pattern; `ih` is the statement for the (shorter) inner patterns -/
theorem item_neutC (n : Nat)
    (ih : ∀ (inp : List Char), inp.length ≤ n → ∀ (skip : Bool) (rest : List Char) (ts : List Tree),
      Yield pil_env skip patternG inp rest ts → ∃ c, inp = c ++ rest ∧ NeutC c rest)
    (skip : Bool) (inp rest : List Char) (ts : List Tree) (hlen : inp.length ≤ n + 1)
    (h : Yield pil_env skip (.alt [pil_loop, .lit ['+'], pil_sense]) inp rest ts) :
    ∃ c, inp = c ++ rest ∧ NeutC c rest := by
  obtain ⟨g, hg, hs⟩ := h.alt_inv
  simp only [List.mem_cons, List.not_mem_nil, or_false] at hg
  rcases hg with rfl | rfl | rfl
  · unfold pil_loop at hs
    obtain ⟨m1, t1, r1, rfl, h1, hr1⟩ := hs.seq_inv.cons_inv
    obtain ⟨m2, t2, r2, rfl, h2, hr2⟩ := hr1.cons_inv
    obtain ⟨m3, t3, r3, rfl, h3, hr3⟩ := hr2.cons_inv
    obtain ⟨hm3, _⟩ := hr3.nil_inv
    subst hm3
    -- the head `name(`
    obtain ⟨ts', f, _, hc1⟩ := h1.combine_inv
    obtain ⟨ign1, e1, hi1⟩ := preL_splitC skip inp
    obtain ⟨ma, ta, ra, _, ha, hra⟩ := hc1.seq_inv.cons_inv
    obtain ⟨mb, tb, rb, _, hb, hrb⟩ := hra.cons_inv
    obtain ⟨hmb, _⟩ := hrb.nil_inv
    subst hmb
    obtain ⟨cs, es, ns⟩ := ha.neutC brFreeC_sense
    obtain ⟨_, tpar, hpar⟩ := hb.suppress_inv
    obtain ⟨ignp, ep, _, hip, _⟩ := hpar.lit_split
    rw [hip rfl] at ep
    simp only [List.nil_append, List.cons_append] at ep
    subst ep
    rw [es] at e1 hi1
    -- inp = ign1 ++ (cs ++ '(' :: m1)
    have hlen1 : m1.length ≤ n := by
      have : inp.length = ign1.length + (cs.length + (1 + m1.length)) := by rw [e1]; simp; omega
      omega
    obtain ⟨inner, _, hin⟩ := h2.group_inv
    have hmid : ∃ c2, m1 = c2 ++ m2 ∧ NeutC c2 m2 := by
      rcases hin.opt_inv with ⟨hm, _⟩ | hin
      · exact ⟨[], by rw [hm]; rfl, by rw [hm]; exact neutC_nil _⟩
      · unfold pil_innerloop at hin
        obtain ⟨g, hg, hs'⟩ := hin.alt_inv
        simp only [List.mem_cons, List.not_mem_nil, or_false] at hg
        rcases hg with rfl | rfl
        · obtain ⟨g', hg', hs''⟩ := hs'.ref_inv
          rw [pil_env_pattern] at hg'
          cases hg'
          exact ih m1 hlen1 skip m2 inner hs''
        · exact hs'.neutC brFreeC_white
    obtain ⟨c2, e2, n2⟩ := hmid
    -- the closing parenthesis
    obtain ⟨_, tcl, hcl⟩ := h3.suppress_inv
    cases hcl with
    | lit _ _ _ _ hs3 =>
      obtain ⟨ign3, e3, hi3⟩ := preL_splitC skip m2
      have e3' := stripPrefix_some [')'] _ rest hs3
      rw [e3'] at e3 hi3
      simp only [List.cons_append, List.nil_append] at e3 hi3
      subst e3
      subst e2
      refine ⟨(ign1 ++ cs) ++ '(' :: (c2 ++ (ign3 ++ [')'])), by rw [e1]; simp, ?_⟩
      refine neutC_wrap ?_ n2 hi3.neutC
      exact hi1.neutC.append ns
  · exact hs.neutC brFreeC_plus
  · exact hs.neutC brFreeC_sense

/-- a repetition of elements that consume well-nested text consumes well-nested text -/
theorem yieldMany_neutC {env : Env} (bound : Nat) : ∀ {skip : Bool} {g : G} {inp rest : List Char} {ts : List Tree},
    YieldMany env skip g inp rest ts →
    (∀ (inp rest : List Char) (ts : List Tree), inp.length ≤ bound → Yield env skip g inp rest ts →
      ∃ c, inp = c ++ rest ∧ NeutC c rest) →
    inp.length ≤ bound → ∃ c, inp = c ++ rest ∧ NeutC c rest
  | _, _, _, _, _, .nil _ _ inp, _, _ => ⟨[], rfl, neutC_nil _⟩
  | _, _, _, _, _, .cons _ _ inp mid rest t1 t2 h1 h2, hitem, hlen => by
    obtain ⟨c1, e1, n1⟩ := hitem inp mid t1 hlen h1
    have hmid : mid.length ≤ bound := by
      have : inp.length = c1.length + mid.length := by rw [e1]; simp
      omega
    obtain ⟨c2, e2, n2⟩ := yieldMany_neutC bound h2 hitem hmid
    subst e2
    exact ⟨c1 ++ c2, by rw [e1, List.append_assoc], n1.append n2⟩

theorem pattern_neutC_aux : ∀ (n : Nat) (inp : List Char), inp.length ≤ n → ∀ (skip : Bool) (rest : List Char)
    (ts : List Tree), Yield pil_env skip patternG inp rest ts → ∃ c, inp = c ++ rest ∧ NeutC c rest := by
  intro n
  induction n with
  | zero =>
    intro inp hlen skip rest ts h
    -- the pattern consumed nothing: its text is empty
    have hnil : inp = [] := List.eq_nil_of_length_eq_zero (by omega)
    subst hnil
    obtain ⟨c, e⟩ := h.suffix
    have hc : c = [] ∧ rest = [] := by
      cases c with
      | nil => exact ⟨rfl, by simpa using e.symm⟩
      | cons x xs => simp at e
    obtain ⟨rfl, rfl⟩ := hc
    exact ⟨[], rfl, neutC_nil _⟩
  | succ n ih =>
    intro inp hlen skip rest ts h
    unfold patternG at h
    obtain ⟨mid, t1, t2, _, h1, h2⟩ := h.many1_inv
    obtain ⟨c1, e1, n1⟩ := item_neutC n ih skip inp mid t1 hlen h1
    have hmid : mid.length ≤ n + 1 := by
      have : inp.length = c1.length + mid.length := by rw [e1]; simp
      omega
    obtain ⟨c2, e2, n2⟩ := yieldMany_neutC (n + 1) h2
      (fun i r t hl hy => item_neutC n ih skip i r t hl hy) hmid
    subst e2
    exact ⟨c1 ++ c2, by rw [e1, List.append_assoc], n1.append n2⟩

/-- **the text a kernel pattern consumes is well nested up to comments** -/
theorem pattern_neutC {skip : Bool} {inp rest : List Char} {ts : List Tree}
    (h : Yield pil_env skip patternG inp rest ts) : ∃ c, inp = c ++ rest ∧ NeutC c rest :=
  pattern_neutC_aux inp.length inp (Nat.le_refl _) skip rest ts h

/-- **the text of a kernel statement is well nested up to comments** — no hypothesis on comments -/
theorem cplx_neutC {skip : Bool} {inp rest : List Char} {ts : List Tree}
    (h : Yield pil_env skip pil_cplx inp rest ts) : ∃ c, inp = c ++ rest ∧ NeutC c rest := by
  unfold pil_cplx at h
  obtain ⟨t, _, h1⟩ := h.group_inv
  cases h1 with
  | tag _ _ _ _ _ t' h2 =>
    obtain ⟨m1, t1, r1, _, h1, hr1⟩ := h2.seq_inv.cons_inv
    obtain ⟨m2, t2, r2, _, h2', hr2⟩ := hr1.cons_inv
    obtain ⟨m3, t3, r3, _, h3, hr3⟩ := hr2.cons_inv
    obtain ⟨m4, t4, r4, _, h4, hr4⟩ := hr3.cons_inv
    obtain ⟨m5, t5, r5, _, h5, hr5⟩ := hr4.cons_inv
    obtain ⟨hm5, _⟩ := hr5.nil_inv
    subst hm5
    obtain ⟨c1, e1, n1⟩ := h1.neutC brFreeC_identifier
    obtain ⟨c2, e2, n2⟩ := h2'.neutC brFreeC_eq
    have hpat : ∀ (inp rest : List Char) (ts : List Tree), inp.length ≤ m2.length →
        Yield pil_env skip (.group (.ref "pattern")) inp rest ts → ∃ c, inp = c ++ rest ∧ NeutC c rest := by
      intro inp rest ts _ hy
      obtain ⟨t, _, hy'⟩ := hy.group_inv
      obtain ⟨g, hg, hs⟩ := hy'.ref_inv
      rw [pil_env_pattern] at hg
      cases hg
      exact pattern_neutC hs
    obtain ⟨ma, ta, tb, _, ha, hb⟩ := h3.many1_inv
    obtain ⟨c3a, e3a, n3a⟩ := hpat m2 ma ta (Nat.le_refl _) ha
    have hlen : ma.length ≤ m2.length := by
      have := congrArg List.length e3a
      simp at this; omega
    obtain ⟨c3b, e3b, n3b⟩ := yieldMany_neutC m2.length hb hpat hlen
    obtain ⟨c4, e4, n4⟩ := h4.neutC brFreeC_conc
    obtain ⟨c5, e5, n5⟩ := h5.neutC brFreeC_lineEnds
    subst e5; subst e4; subst e3b; subst e3a; subst e2
    refine ⟨c1 ++ (c2 ++ (c3a ++ (c3b ++ (c4 ++ c5)))), by rw [e1]; simp, ?_⟩
    have k5 := n4.append n5
    have k4 := NeutC.append (by simpa [List.append_assoc] using n3b) k5
    have k3 := NeutC.append (by simpa [List.append_assoc] using n3a) k4
    have k2 := NeutC.append (by simpa [List.append_assoc] using n2) k3
    exact NeutC.append (by simpa [List.append_assoc] using n1) k2

end Dsd.PP
