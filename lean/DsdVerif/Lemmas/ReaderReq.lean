/-
Outcomes of the constructor requests the reader makes (C16): each request either creates one object with the
fresh identity and the requested name, returns an existing object with the requested name, or is refused with a
declared error — never with a fault.
-/
import DsdVerif.Lemmas.ReaderName
import DsdVerif.Lemmas.Registry
import DsdVerif.Props.C06

namespace Dsd.RdL
open Dsd Dsd.PP

/-- outcome of a request for name `nm` against registry `r` -/
inductive ROut {κ} (r : Reg κ) (fresh : Nat) (nm : String) : Reg κ → Out → Option (Obj κ) → Prop
  | created (o : Obj κ) (auto : Bool) : o.id = fresh → o.name = nm →
      ROut r fresh nm (r.register o auto) (.ret fresh true) (some o)
  | existing (o : Obj κ) : o ∈ r.objs → o.name = nm → ROut r fresh nm r (.ret o.id false) none
  | refused (e : Out) : (∀ k, e ≠ .fault k) → (∀ i b, e ≠ .ret i b) → ROut r fresh nm r e none

variable {κ : Type} [DecidableEq κ]

theorem call_rout (r : Reg κ) (canon : Option κ) (n : String) (fresh : Nat) (keys : List κ) (auto : Bool) :
    ∃ new, ROut r fresh n (r.call canon (some n) fresh keys auto).1 (r.call canon (some n) fresh keys auto).2 new := by
  cases canon with
  | none =>
    cases hn : r.findName n with
    | none =>
      refine ⟨none, ?_⟩
      have : r.call none (some n) fresh keys auto = (r, .singletonErr none) := by simp [Reg.call, Reg.decide, hn]
      rw [this]
      exact ROut.refused _ (by simp) (by simp)
    | some o =>
      refine ⟨none, ?_⟩
      have : r.call none (some n) fresh keys auto = (r, .ret o.id false) := by simp [Reg.call, Reg.decide, hn]
      rw [this]
      obtain ⟨h1, h2⟩ := Reg.findName_some r n o hn
      exact ROut.existing o h1 h2
  | some k =>
    cases hn : r.findName n with
    | none =>
      cases hc : r.findCanon k with
      | none =>
        refine ⟨some { id := fresh, name := n, canon := k, keys := keys }, ?_⟩
        have : r.call (some k) (some n) fresh keys auto =
            (r.register { id := fresh, name := n, canon := k, keys := keys } auto, .ret fresh true) := by
          simp [Reg.call, Reg.decide, hn, hc]
        rw [this]
        exact ROut.created _ auto rfl rfl
      | some oc =>
        refine ⟨none, ?_⟩
        have : r.call (some k) (some n) fresh keys auto = (r, .singletonErr (some oc.id)) := by
          simp [Reg.call, Reg.decide, hn, hc]
        rw [this]
        exact ROut.refused _ (by simp) (by simp)
    | some on =>
      obtain ⟨h1, h2⟩ := Reg.findName_some r n on hn
      cases hc : r.findCanon k with
      | none =>
        refine ⟨none, ?_⟩
        have : r.call (some k) (some n) fresh keys auto = (r, .singletonErr none) := by
          simp [Reg.call, Reg.decide, hn, hc]
        rw [this]
        exact ROut.refused _ (by simp) (by simp)
      | some oc =>
        refine ⟨none, ?_⟩
        by_cases hid : on.id = oc.id
        · have : r.call (some k) (some n) fresh keys auto = (r, .ret on.id false) := by
            simp [Reg.call, Reg.decide, hn, hc, hid]
          rw [this]
          exact ROut.existing on h1 h2
        · have : r.call (some k) (some n) fresh keys auto = (r, .singletonErr none) := by
            simp [Reg.call, Reg.decide, hn, hc, hid]
          rw [this]
          exact ROut.refused _ (by simp) (by simp)

theorem rout_refuse {κ} (r : Reg κ) (fresh : Nat) (nm : String) (e : Out) (h1 : ∀ k, e ≠ .fault k)
    (h2 : ∀ i b, e ≠ .ret i b) : ∃ new, ROut r fresh nm r e new := ⟨none, ROut.refused e h1 h2⟩

/-- `DomainS(name, length)` for a non-empty name -/
theorem domainRequest_rout (cfg : DomCfg) (r : Reg DKey) (fresh : Nat) (n : String) (hn : n ≠ "")
    (len : Option Nat) :
    ∃ new, ROut r fresh n (domainRequest cfg r fresh { name := some n, length := len }).1
      (domainRequest cfg r fresh { name := some n, length := len }).2 new := by
  unfold domainRequest
  simp only [isEmpty_false_of_ne n hn, Bool.false_eq_true, if_false]
  cases len with
  | none =>
    simp only
    split
    · split
      · exact call_rout r _ n fresh _ _
      · exact call_rout r _ n fresh _ _
    · exact call_rout r _ n fresh _ _
  | some l =>
    simp only
    split
    · split
      · exact rout_refuse r fresh n _ (by simp) (by simp)
      · exact call_rout r _ n fresh _ _
    · exact call_rout r _ n fresh _ _

/-- `StrandS(sequence, name)` -/
theorem strandRequest_rout (pfx : String) (r : Reg CKey) (fresh : Nat) (seq : Option (List String)) (n : String) :
    ∃ new, ROut r fresh n (strandRequest pfx r fresh seq (some n)).1 (strandRequest pfx r fresh seq (some n)).2 new := by
  unfold strandRequest
  cases seq with
  | none => exact call_rout r _ n fresh _ _
  | some seq =>
    simp only
    split
    · exact rout_refuse r fresh n _ (by simp) (by simp)
    · exact call_rout r _ n fresh _ _

/-- `MacrostateS(complexes, name)` with a name -/
theorem macroRequest_rout (r : Reg MKey) (fresh : Nat) (ms : Option (List (String × CKey))) (n : String) :
    ∃ new, ROut r fresh n (macroRequest r fresh ms (some n)).1 (macroRequest r fresh ms (some n)).2 new := by
  unfold macroRequest
  cases ms with
  | none => exact call_rout r _ n fresh _ _
  | some ms =>
    simp only
    split
    · exact call_rout r _ n fresh _ _
    · exact rout_refuse r fresh n _ (by simp) (by simp)

/-- the canonical-form computation of a complex never faults -/
theorem complexIdentifiers_loop_nofault (r : Reg CKey) (n : Nat) :
    ∀ (k e : Nat) (s : List String) (t : List Char) (seen : List CKey) (kk : String),
      complexIdentifiers.loop r n k e s t seen ≠ .error (.fault kk) := by
  intro k
  induction k with
  | zero =>
    intro e s t seen kk
    rw [complexIdentifiers.loop]
    split <;> simp
  | succ k ih =>
    intro e s t seen kk
    rw [complexIdentifiers.loop]
    split
    · simp
    · split
      · simp
      · rename_i e' hne he
        exact absurd (C06.rotateOnce_error_kind s t _ he) hne
      · exact ih _ _ _ _ kk

theorem complexIdentifiers_nofault (r : Reg CKey) (seq : List String) (sst : List Char) (kk : String) :
    complexIdentifiers r seq sst ≠ .error (.fault kk) := by
  unfold complexIdentifiers
  split
  · simp
  · exact complexIdentifiers_loop_nofault r _ _ _ _ _ _ kk

/-- `ComplexS(sequence, structure, name)` with a name -/
theorem complexRequest_rout (pfx : String) (r : Reg CKey) (fresh : Nat) (seq : Option (List String)) (sst : List Char)
    (n : String) :
    ∃ new, ROut r fresh n (complexRequest pfx r fresh { seq := seq, sst := sst, name := some n }).1
      (complexRequest pfx r fresh { seq := seq, sst := sst, name := some n }).2.1 new := by
  unfold complexRequest
  cases seq with
  | none => exact call_rout r _ n fresh _ _
  | some seq =>
    simp only
    cases hci : complexIdentifiers r seq sst with
    | error e =>
      simp only
      refine rout_refuse r fresh n e ?_ ?_
      · intro kk hk; subst hk; exact complexIdentifiers_nofault r seq sst kk hci
      · intro i b hk; subst hk
        -- `complexIdentifiers` never answers with a `ret`
        unfold complexIdentifiers at hci
        split at hci
        · simp at hci
        · have : ∀ (k e : Nat) (s : List String) (t : List Char) (seen : List CKey),
              complexIdentifiers.loop r (makeStrandTableList "+" seq).length k e s t seen ≠ .error (.ret i b) := by
            intro k
            induction k with
            | zero => intro e s t seen; rw [complexIdentifiers.loop]; split <;> simp
            | succ k ih =>
              intro e s t seen
              rw [complexIdentifiers.loop]
              split
              · simp
              · split
                · simp
                · simp
                · exact ih _ _ _ _
          exact this _ _ _ _ _ hci
    | ok ids =>
      simp only [Option.getD_some]
      exact call_rout r _ n fresh _ _

/-- `ReactionS(reactants, products, rtype, name)` with both member lists -/
theorem reactionRequest_rout (r : Reg RKey) (fresh : Nat) (rs ps : List (String × MemKey)) (rtype name : Option String) :
    ∃ nm new, ROut r fresh nm (reactionRequest r fresh (some rs) (some ps) rtype name).1
      (reactionRequest r fresh (some rs) (some ps) rtype name).2.1 new := by
  unfold reactionRequest
  simp only
  exact ⟨_, call_rout r _ _ fresh _ _⟩

end Dsd.RdL
