/-
String facts about `isStarred` / `cnameOf` (domain names and their complements), for C04.
-/
import DsdVerif.Model.Objects

namespace Dsd.DomL
open Dsd

theorem isStarred_iff (n : String) : isStarred n = true ↔ ∃ l, n.toList = l ++ ['*'] := by
  unfold isStarred
  constructor
  · intro h
    have h' : n.toList.getLast? = some '*' := by simpa using h
    have hne : n.toList ≠ [] := by intro e; rw [e] at h'; simp at h'
    refine ⟨n.toList.dropLast, ?_⟩
    have := List.dropLast_concat_getLast hne
    rw [List.getLast?_eq_some_getLast hne] at h'
    rw [Option.some.inj h'] at this
    exact this.symm
  · rintro ⟨l, hl⟩
    rw [hl]; simp

theorem toList_star : ("*" : String).toList = ['*'] := rfl

theorem isStarred_append_star (n : String) : isStarred (n ++ "*") = true := by
  rw [isStarred_iff]; exact ⟨n.toList, by rw [String.toList_append, toList_star]⟩

theorem cnameOf_not (n : String) (h : isStarred n = false) : cnameOf n = n ++ "*" := by
  unfold cnameOf; simp [h]

theorem cnameOf_starred (n : String) (h : isStarred n = true) :
    cnameOf n = String.ofList n.toList.dropLast := by
  unfold cnameOf; simp [h]

theorem isStarred_cname_of_not (n : String) (h : isStarred n = false) :
    isStarred (cnameOf n) = true := by
  rw [cnameOf_not n h]; exact isStarred_append_star n

theorem cname_cname_of_not (n : String) (h : isStarred n = false) : cnameOf (cnameOf n) = n := by
  rw [cnameOf_starred _ (isStarred_cname_of_not n h), cnameOf_not n h, String.toList_append,
    toList_star, List.dropLast_concat, String.ofList_toList]

theorem cname_cname_of_starred (n : String) (h : isStarred n = true)
    (h2 : isStarred (cnameOf n) = false) : cnameOf (cnameOf n) = n := by
  rw [cnameOf_not _ h2, cnameOf_starred n h]
  obtain ⟨l, hl⟩ := (isStarred_iff n).mp h
  apply String.ext
  rw [String.toList_append, String.toList_ofList, toList_star, hl, List.dropLast_concat]

/-- `cnameOf` is an involution on names with at most one trailing star -/
theorem cname_cname (n : String) (h : isStarred n = true → isStarred (cnameOf n) = false) :
    cnameOf (cnameOf n) = n := by
  cases hs : isStarred n with
  | false => exact cname_cname_of_not n hs
  | true => exact cname_cname_of_starred n hs (h hs)

theorem cname_ne_empty (n : String) (h : n ≠ "*") : cnameOf n ≠ "" := by
  cases hs : isStarred n with
  | false =>
    rw [cnameOf_not n hs]
    intro e
    have := congrArg String.toList e
    rw [String.toList_append, toList_star] at this
    simp at this
  | true =>
    rw [cnameOf_starred n hs]
    obtain ⟨l, hl⟩ := (isStarred_iff n).mp hs
    rw [hl, List.dropLast_concat]
    intro e
    have := congrArg String.toList e
    rw [String.toList_ofList] at this
    have hl' : l = [] := this
    subst hl'
    apply h
    apply String.ext
    rw [hl]; rfl

theorem isEmpty_iff (n : String) : n.isEmpty = true ↔ n = "" := by
  simp

theorem cname_ne_self (n : String) : cnameOf n ≠ n := by
  intro e
  have hl : (cnameOf n).toList.length = n.toList.length := by rw [e]
  cases hs : isStarred n with
  | false =>
    rw [cnameOf_not n hs, String.toList_append, toList_star] at hl
    simp at hl
  | true =>
    obtain ⟨l, hl'⟩ := (isStarred_iff n).mp hs
    rw [cnameOf_starred n hs, String.toList_ofList, hl', List.dropLast_concat] at hl
    simp at hl

end Dsd.DomL
