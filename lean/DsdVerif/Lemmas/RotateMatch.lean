/-
Helper lemmas for the strand rotation `rotateOnce` (C07).
Part 3: the rotated structure is balanced and its matching is the cyclically shifted matching.
-/
import DsdVerif.Lemmas.RotateScan

namespace Dsd.Rot
open Dsd.Bracket

/-! ### positions of the rotated list -/

theorem rot_get_sh {α} (l : List α) (a : α) (p i : Nat) (hp : p < l.length) (hi : i < l.length)
    (hip : i ≠ p) :
    (l.drop (p + 1) ++ [a] ++ l.take p)[sh (l.length + 1) (p + 1) i]? = l[i]? := by
  unfold sh
  split
  · have e : i + (l.length + 1 - (p + 1)) = (l.drop (p + 1) ++ [a]).length + i := by
      simp; omega
    rw [e, List.getElem?_append_right (by omega)]
    simp only [Nat.add_sub_cancel_left]
    rw [List.getElem?_take, if_pos (by omega)]
  · rw [List.append_assoc, List.getElem?_append_left (by simp; omega), List.getElem?_drop]
    congr 1; omega

theorem rot_get_mid {α} (l : List α) (a : α) (p : Nat) (hp : p < l.length) :
    (l.drop (p + 1) ++ [a] ++ l.take p)[l.length - p - 1]? = some a := by
  rw [List.append_assoc, List.getElem?_append_right (by simp; omega)]
  simp
  have : l.length - p - 1 - (l.length - (p + 1)) = 0 := by omega
  rw [this]; rfl

theorem rot_length {α} (l : List α) (a : α) (p : Nat) (hp : p < l.length) :
    (l.drop (p + 1) ++ [a] ++ l.take p).length = l.length := by
  simp; omega

/-- every position of the rotated list is the image of the break or of a shifted old position -/
theorem rot_pos_cases (N p x : Nat) (hp : p < N) (hx : x < N) :
    x = N - p - 1 ∨ ∃ i, i < N ∧ i ≠ p ∧ sh (N + 1) (p + 1) i = x := by
  by_cases h : x = N - p - 1
  · left; exact h
  · right
    refine ⟨shInv (N + 1) (p + 1) x, ?_, ?_, sh_shInv _ _ _ (by omega) (by omega)⟩
    · unfold shInv; split <;> omega
    · unfold shInv; split <;> omega

/-! ### NCI helpers -/

theorem nci_mono (N N' : Nat) (M) (h : N ≤ N') (hM : NCI N M) : NCI N' M := by
  obtain ⟨hr, hi, hn⟩ := hM
  exact ⟨fun i j hij => by have := hr i j hij; omega, hi, hn⟩

theorem nci_restrict (N : Nat) (M) (hM : NCI (N + 1) M) (hN : M N = none) : NCI N M := by
  obtain ⟨hr, hi, hn⟩ := hM
  refine ⟨?_, hi, hn⟩
  intro i j hij
  have := hr i j hij
  have h1 : i ≠ N := by intro e; subst e; rw [hN] at hij; simp at hij
  have h2 : j ≠ N := by intro e; subst e; have := hi _ _ hij; rw [hN] at this; simp at this
  omega

theorem conj_sh (N p : Nat) (M) (i : Nat) (hp : p ≤ N) (hi : i < N) :
    conj N p M (sh N p i) = (M i).map (sh N p) := by
  unfold conj
  have : sh N p i < N := by unfold sh; split <;> omega
  rw [if_pos this, shInv_sh N p i hp hi]

/-! ### the re-oriented brackets render the shifted matching -/

theorem sym_none (M' : Nat → Option Nat) (x : Nat) (h : M' x = none) : sym M' x = .dot := by
  unfold sym; rw [h]
theorem sym_some (M' : Nat → Option Nat) (x j : Nat) (h : M' x = some j) :
    sym M' x = if x < j then .op else .cl := by
  unfold sym; rw [h]

theorem n2_sym (sst n2 : List Char) (t : List (Option Nat)) (p : Nat) (hpl : p < sst.length)
    (hM : Matching (cword sst) (P t)) (hpd : (cword sst)[p]? = some .dot)
    (h1 : ∀ i, Out1 (cword sst) (P t) p i → n2[i]? = some ')')
    (h2 : ∀ i, Out2 (cword sst) (P t) p i → n2[i]? = some '(')
    (h3 : ∀ i, ¬ Out1 (cword sst) (P t) p i → ¬ Out2 (cword sst) (P t) p i → n2[i]? = sst[i]?)
    (i : Nat) (hi : i < sst.length) (hip : i ≠ p) :
    (n2[i]?).map tsym =
      some (sym (conj (sst.length + 1) (p + 1) (P t)) (sh (sst.length + 1) (p + 1) i)) := by
  have hc := conj_sh (sst.length + 1) (p + 1) (P t) i (by omega) (by omega)
  have hwi : (cword sst)[i]? = (sst[i]?).map tsym := cword_get sst i
  have hpart : ∀ j, P t i = some j → j < sst.length ∧ j ≠ p := by
    intro j hj
    have hji := matching_inv _ _ hM _ _ hj
    have := (matching_nci _ _ hM).rng _ _ hj
    rw [cword_length] at this
    refine ⟨this.2.1, ?_⟩
    intro e; subst e
    rw [hM.dot _ hpd] at hji; simp at hji
  rcases sym_cases (cword sst) i (by rw [cword_length]; exact hi) with h | h | h
  · -- opening bracket
    obtain ⟨j, hj1, hj2, hj3, hj4⟩ := hM.op i h
    obtain ⟨hjN, hjp⟩ := hpart j hj2
    rw [hj2] at hc
    rw [sym_some _ _ _ hc]
    have no2 : ¬ Out2 (cword sst) (P t) p i := by
      rintro ⟨_, b, _⟩; rw [h] at b; simp at b
    by_cases hcut : i < p ∧ p < j
    · have o1 : Out1 (cword sst) (P t) p i := ⟨hcut.1, h, j, by omega, hj2⟩
      rw [h1 i o1]
      have : ¬ sh (sst.length + 1) (p + 1) i < sh (sst.length + 1) (p + 1) j := by
        unfold sh; split <;> split <;> omega
      simp [this, tsym_cl]
    · have no1 : ¬ Out1 (cword sst) (P t) p i := by
        rintro ⟨a, _, k, hk, e⟩
        rw [hj2] at e; have := Option.some.inj e; omega
      rw [h3 i no1 no2, ← hwi, h]
      have : sh (sst.length + 1) (p + 1) i < sh (sst.length + 1) (p + 1) j := by
        unfold sh; split <;> split <;> omega
      simp [this]
  · -- closing bracket
    obtain ⟨j, hj1, hj2, hj3, hj4⟩ := hM.cl i h
    obtain ⟨hjN, hjp⟩ := hpart j hj2
    rw [hj2] at hc
    rw [sym_some _ _ _ hc]
    have no1 : ¬ Out1 (cword sst) (P t) p i := by
      rintro ⟨_, b, _⟩; rw [h] at b; simp at b
    by_cases hcut : j < p ∧ p < i
    · have o2 : Out2 (cword sst) (P t) p i := ⟨by omega, h, j, by omega, hj2⟩
      rw [h2 i o2]
      have : sh (sst.length + 1) (p + 1) i < sh (sst.length + 1) (p + 1) j := by
        unfold sh; split <;> split <;> omega
      simp [this, tsym_op]
    · have no2 : ¬ Out2 (cword sst) (P t) p i := by
        rintro ⟨a, _, k, hk, e⟩
        rw [hj2] at e; have := Option.some.inj e; omega
      rw [h3 i no1 no2, ← hwi, h]
      have : ¬ sh (sst.length + 1) (p + 1) i < sh (sst.length + 1) (p + 1) j := by
        unfold sh; split <;> split <;> omega
      simp [this]
  · -- unpaired
    have hn := hM.dot i h
    rw [hn] at hc
    rw [sym_none _ _ hc]
    have no1 : ¬ Out1 (cword sst) (P t) p i := by
      rintro ⟨_, b, _⟩; rw [h] at b; simp at b
    have no2 : ¬ Out2 (cword sst) (P t) p i := by
      rintro ⟨_, b, _⟩; rw [h] at b; simp at b
    rw [h3 i no1 no2, ← hwi, h]

/-- the structure returned by one rotation, built from the re-oriented list `n2` -/
def rotL {α} (l : List α) (a : α) (p : Nat) : List α := l.drop (p + 1) ++ [a] ++ l.take p

/-- **main lemma**: `rotateOnce` succeeds on a balanced structure whose position `p` is the break;
    the result is balanced and its pairing is the pairing conjugated by the cyclic shift by `p+1`
    of the positions `0 … N` (`N` standing for the implicit trailing break). -/
theorem rotateOnce_main (seq : List String) (sst : List Char) (p : Nat) (t : List (Option Nat))
    (hp : seq.idxOf? "+" = some p) (hpl : p < sst.length) (hpb : sst[p]? = some '+')
    (hm : matchW (cword sst) = some t) :
    ∃ (n2 : List Char) (t' : List (Option Nat)), n2.length = sst.length ∧
      rotateOnce seq sst = .ok (rotL seq "+" p, rotL n2 '+' p) ∧
      (∀ i : Nat, P t i = none → n2[i]? = sst[i]?) ∧
      (∀ (i : Nat) (c : Char), n2[i]? = some c → sst[i]? = some c ∨ (c = '(' ∨ c = ')') ∧ (sst[i]? = some '(' ∨ sst[i]? = some ')')) ∧
      matchW (cword (rotL n2 '+' p)) = some t' ∧
      P t' = conj (sst.length + 1) (p + 1) (P t) := by
  obtain ⟨n2, hlen, hrot, h1, h2, h3⟩ := rotateOnce_spec seq sst p t hp hpl hm
  have hM := matchW_sound _ _ hm
  have hpd : (cword sst)[p]? = some .dot := by rw [cword_get, hpb]; rfl
  -- the shifted matching
  have nci0 : NCI (sst.length + 1) (P t) := by
    have := matching_nci _ _ hM
    rw [cword_length] at this
    exact nci_mono _ _ _ (by omega) this
  have nci1 := conj_nci (sst.length + 1) (p + 1) (by omega) _ nci0
  have hlast : conj (sst.length + 1) (p + 1) (P t) sst.length = none := by
    have : shInv (sst.length + 1) (p + 1) sst.length = p := by unfold shInv; split <;> omega
    unfold conj
    rw [if_pos (by omega), this, hM.dot _ hpd]; rfl
  have hmid : conj (sst.length + 1) (p + 1) (P t) (sst.length - p - 1) = none := by
    have : shInv (sst.length + 1) (p + 1) (sst.length - p - 1) = sst.length := by
      unfold shInv; split <;> omega
    unfold conj
    rw [if_pos (by omega), this, hM.out _ (by rw [cword_length]; omega)]; rfl
  have nci2 := nci_restrict _ _ nci1 hlast
  have hR := nci_render_matching _ _ nci2
  -- the rotated word is the rendering of the shifted matching
  have hword : cword (rotL n2 '+' p) = render sst.length (conj (sst.length + 1) (p + 1) (P t)) := by
    apply List.ext_getElem?
    intro x
    by_cases hx : x < sst.length
    · have hr : (render sst.length (conj (sst.length + 1) (p + 1) (P t)))[x]? =
          some (sym (conj (sst.length + 1) (p + 1) (P t)) x) := by
        rw [render_get_some]; exact ⟨hx, rfl⟩
      rw [hr, cword_get]
      rcases rot_pos_cases sst.length p x hpl hx with h | ⟨i, hi, hip, hsh⟩
      · subst h
        have := rot_get_mid n2 '+' p (by omega)
        rw [hlen] at this
        unfold rotL
        rw [this, sym_none _ _ hmid]; rfl
      · subst hsh
        have := rot_get_sh n2 '+' p i (by omega) (by omega) hip
        rw [hlen] at this
        unfold rotL
        rw [this]
        exact n2_sym sst n2 t p hpl hM hpd h1 h2 h3 i hi hip
    · have e1 : (cword (rotL n2 '+' p))[x]? = none := by
        apply List.getElem?_eq_none
        rw [cword_length]; unfold rotL; rw [rot_length _ _ _ (by omega)]; omega
      have e2 : (render sst.length (conj (sst.length + 1) (p + 1) (P t)))[x]? = none := by
        apply List.getElem?_eq_none; simp [render]; omega
      rw [e1, e2]
  obtain ⟨t', ht'⟩ := matching_accepted _ _ hR
  have hS := matchW_sound _ _ ht'
  have huniq := matching_unique _ _ _ hS hR
  refine ⟨n2, t', hlen, hrot, ?_, ?_, ?_, huniq⟩
  · intro i hi
    apply h3
    · rintro ⟨_, _, j, _, e⟩; rw [hi] at e; simp at e
    · rintro ⟨_, _, j, _, e⟩; rw [hi] at e; simp at e
  · intro i c hc
    by_cases o1 : Out1 (cword sst) (P t) p i
    · right
      rw [h1 i o1] at hc
      have hop := o1.2.1
      rw [cword_get] at hop
      cases hs : sst[i]? with
      | none => rw [hs] at hop; simp at hop
      | some d =>
        rw [hs] at hop; simp at hop
        rw [(tsym_eq_op d).mp hop]
        exact ⟨Or.inr (Option.some.inj hc).symm, Or.inl rfl⟩
    · by_cases o2 : Out2 (cword sst) (P t) p i
      · right
        rw [h2 i o2] at hc
        have hcl := o2.2.1
        rw [cword_get] at hcl
        cases hs : sst[i]? with
        | none => rw [hs] at hcl; simp at hcl
        | some d =>
          rw [hs] at hcl; simp at hcl
          rw [(tsym_eq_cl d).mp hcl]
          exact ⟨Or.inl (Option.some.inj hc).symm, Or.inr rfl⟩
      · left; rw [← h3 i o1 o2]; exact hc
  · rw [hword]; exact ht'

end Dsd.Rot
