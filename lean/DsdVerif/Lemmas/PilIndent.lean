/-
INDENTED PIL statements (C13, the last clause of the layout theorem): blanks and tabs before the first token of a
statement line.  Every alternative of `pil_stmt` starts with an element that skips whitespace first (a keyword, or
the name of a kernel complex), so the statement parser does not see the indentation (`skipInv_stmt`); what changes is
the COLUMN at which the statement starts, hence the tab expansion of its separators: `StmtTextC` is `StmtTextT` at
every start column.  The PIL instance of the line-by-line document theorem of Lemmas/PPIndent.lean.
-/
import DsdVerif.Lemmas.PPIndent
import DsdVerif.Lemmas.PilTabs
import DsdVerif.Lemmas.PilGaps

namespace Dsd.Pil
open Dsd.PP Dsd.Gen Dsd.PP.Tabs

/-! ### the statement parser skips the indentation -/

theorem skipInv_kwStmt (env : Env) (tag : String) (kw ident : List Char) (gs : List G) :
    Lines.SkipInv env (.group (.tag tag (.seq (.suppress (.kw kw ident) :: gs)))) :=
  .group (.tag _ (.seq _ (.suppress (.kw _ _))))

theorem skipInv_stmt (env : Env) : Lines.SkipInv env pil_stmt := by
  unfold pil_stmt pil_sl_domain pil_dl_domain pil_comp_domain pil_strand pil_strandcomplex pil_reaction
    pil_cplx pil_restingset
  apply Lines.SkipInv.alt
  intro g hg
  simp only [List.mem_cons, List.not_mem_nil, or_false] at hg
  rcases hg with rfl | rfl | rfl | rfl | rfl | rfl | rfl | rfl
  · exact skipInv_kwStmt env _ _ _ _
  · apply Lines.SkipInv.alt
    intro g hg
    simp only [List.mem_cons, List.not_mem_nil, or_false] at hg
    rcases hg with rfl | rfl | rfl <;> exact skipInv_kwStmt env _ _ _ _
  · exact skipInv_kwStmt env _ _ _ _
  · exact skipInv_kwStmt env _ _ _ _
  · apply Lines.SkipInv.alt
    intro g hg
    simp only [List.mem_cons, List.not_mem_nil, or_false] at hg
    rcases hg with rfl | rfl <;> exact skipInv_kwStmt env _ _ _ _
  · apply Lines.SkipInv.alt
    intro g hg
    simp only [List.mem_cons, List.not_mem_nil, or_false] at hg
    rcases hg with rfl | rfl <;> exact skipInv_kwStmt env _ _ _ _
  · exact .group (.tag _ (.seq _ (.word _ _)))
  · apply Lines.SkipInv.alt
    intro g hg
    simp only [List.mem_cons, List.not_mem_nil, or_false] at hg
    rcases hg with rfl | rfl <;> exact skipInv_kwStmt env _ _ _ _

/-! ### statement texts at any start column -/

/-- `s` — which may contain tabs — is the text of a statement AT ANY START COLUMN: at column `col` it expands to
    `s'`, whatever follows, and `s'` is a statement text in any line-level layout.  (`StmtTextT` is the case
    `col = 0`: a statement that follows a line feed directly.) -/
def StmtTextC (s : List Char) (t : Tree) : Prop :=
  ∀ col, ∃ s' col', (∀ rest, expandTabs (s ++ rest) col = s' ++ expandTabs rest col') ∧ StmtTextL s' t

theorem StmtTextC.toT {s : List Char} {t : Tree} (h : StmtTextC s t) : StmtTextT s t := by
  obtain ⟨s', col', h1, h2⟩ := h 0
  exact ⟨s', fun rest => ⟨col', h1 rest⟩, h2⟩

theorem StmtTextL.toC {s : List Char} {t : Tree} (h : StmtTextL s t) : StmtTextC s t :=
  fun col => ⟨s, colAfter s col, fun rest => expandTabs_tok s h.notab rest col, h⟩

/-- a layout template whose blank renderings are statement texts is a statement text at any start column, with
    any blank/tab separators -/
theorem stmtTextC_of_template (tm : List Piece) (htok : ToksOK tm) (t : Tree)
    (hfam : ∀ ks, CountsOK tm ks → StmtTextL (render tm ks) t) (ws : List (List Char)) (hws : SepsOK tm ws) :
    StmtTextC (renderW tm ws) t := by
  intro col
  obtain ⟨ks, col', hk, hex⟩ := expand_template tm htok ws hws col
  exact ⟨render tm ks, col', hex, hfam ks hk⟩

/-- blank separators of the given counts -/
def blankSeps : List Piece → List Nat → List (List Char)
  | [], _ => []
  | .tok _ :: ps, ks => blankSeps ps ks
  | .sep _ :: ps, k :: ks => List.replicate k ' ' :: blankSeps ps ks
  | .sep _ :: _, [] => []

theorem renderW_blankSeps (tm : List Piece) (ks : List Nat) (h : CountsOK tm ks) :
    renderW tm (blankSeps tm ks) = render tm ks ∧ SepsOK tm (blankSeps tm ks) := by
  induction tm generalizing ks with
  | nil => exact ⟨rfl, rfl⟩
  | cons p ps ih =>
    cases p with
    | tok s =>
      obtain ⟨h1, h2⟩ := ih ks h
      exact ⟨by simp only [renderW, render, blankSeps, h1], h2⟩
    | sep req =>
      cases ks with
      | nil => exact absurd h (by simp [CountsOK])
      | cons k ks =>
        obtain ⟨h1, h2⟩ := ih ks h.2
        refine ⟨by simp only [renderW, render, blankSeps, h1], ?_, ?_, h2⟩
        · intro c hc; exact Or.inl (List.mem_replicate.mp hc).2
        · intro hr e
          have := h.1 hr
          have hl := congrArg List.length e
          simp only [List.length_replicate, List.length_nil] at hl
          omega

/-- the column-0 theorem for ALL blank/tab separators yields the family of blank renderings (the separators may be
    blanks only), hence the theorem at every start column -/
theorem fam_of_layout (tm : List Piece) (htok : ToksOK tm) (t : Tree)
    (h : ∀ ws, SepsOK tm ws → StmtTextT (renderW tm ws) t) :
    ∀ ks, CountsOK tm ks → StmtTextL (render tm ks) t := by
  intro ks hk
  obtain ⟨e1, e2⟩ := renderW_blankSeps tm ks hk
  obtain ⟨s', hex, hs'⟩ := h _ e2
  obtain ⟨col', hc⟩ := hex []
  have hnt := notab_render tm ks htok
  rw [e1, List.append_nil, expandTabs_id _ 0 hnt] at hc
  simp only [expandTabs, List.append_nil] at hc
  rw [hc]; exact hs'

/-! ### an indented statement as a line of a document -/

theorem nbTail_trail (r R : List Char) (hr : Lines.IsTrail r) (hR : R = [] ∨ ∃ R', R = '\n' :: R') :
    NbTail (r ++ R) := by
  have hsk : skipIgn (r ++ R) = [] ∨ ∃ r', skipIgn (r ++ R) = '\n' :: r' := by
    rcases hR with rfl | ⟨R', rfl⟩
    · rw [List.append_nil]; exact Or.inl hr.blank.eof
    · exact Or.inr ⟨R', hr.blank.nl R'⟩
  cases hr with
  | nil =>
    rcases hR with rfl | ⟨R', rfl⟩
    · exact ⟨⟨OutHd_nil _, hsk⟩, OutHd_nil _⟩
    · exact ⟨⟨OutHd_cons _ _ _ (Or.inr (Or.inl rfl)), hsk⟩, OutHd_cons _ _ _ (by decide)⟩
  | cr => exact ⟨⟨OutHd_cons _ _ _ (Or.inr (Or.inr (Or.inl rfl))), hsk⟩, OutHd_cons _ _ _ (by decide)⟩
  | cm c hc => exact ⟨⟨OutHd_cons _ _ _ (Or.inr (Or.inr (Or.inr rfl))), hsk⟩, OutHd_cons _ _ _ (by decide)⟩

/-- a statement text after any number of blanks, in front of any trail, is a statement line -/
theorem StmtTextL.line {s : List Char} {t : Tree} (h : StmtTextL s t) (n : Nat) (r : List Char)
    (hr : Lines.IsTrail r) : Lines.IsStmtLine pil_env pil_stmt (List.replicate n ' ' ++ s) t r := by
  obtain ⟨c, rs, rfl, hc⟩ := h.cons
  obtain ⟨N, hN, hok⟩ := h.parses
  refine ⟨hr.blank, fun R => ⟨c, rs ++ R, ?_, hc.2.2⟩, ?_⟩
  · rw [List.append_assoc, List.cons_append]; exact skipIgn_blanks_cons n c _ hc.1 hc.2.1
  · intro R NE p hR heol
    have := hok (r ++ R) NE p (nbTail_trail r R hr hR) heol
    refine Lines.SkipInv.ok (skipInv_stmt pil_env) (this.mono ?_) ?_
    · simp only [List.length_append, List.length_replicate]; omega
    · rw [List.append_assoc]; exact Lines.pre_blanks n _

theorem StmtTextC.body {s : List Char} {t : Tree} (h : StmtTextC s t) : Lines.BodyT pil_env pil_stmt s t := by
  intro col
  obtain ⟨s', col', h1, h2⟩ := h col
  exact ⟨s', col', h1, fun n r hr => h2.line n r hr⟩

/-- **PIL documents given line by line**, with indented statements, tabs, comments, LF / CR LF and an unterminated
    last line -/
theorem document_lines_parse (L : List (Lines.TLine × Lines.Eol)) (last : Lines.TLine)
    (hL : ∀ x ∈ L, x.1.OK pil_env pil_stmt) (hlast : last.OK pil_env pil_stmt)
    (hne : Lines.ttrees L last ≠ []) :
    parseDoc pil_env pil_grammar (String.ofList (Lines.ttext L last)) = some (Lines.ttrees L last) :=
  Lines.doc_layout pil_stmt ((No_stmt_end pil_env).mono (by decide)) L last hL hlast hne

end Dsd.Pil
