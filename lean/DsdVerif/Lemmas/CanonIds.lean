/-
Analysis of `complexIdentifiers` on well-formed descriptions (C02).
-/
import DsdVerif.Lemmas.CanonOrbit
import DsdVerif.Lemmas.CanonOrder
import DsdVerif.Lemmas.RegistryCplx

namespace Dsd.Rot
open Dsd.Bracket

/-- the result of the exhausted loop: it only depends on the collected rotations -/
def finish (n : Nat) (seen : List CKey) : Except Out CplxIds :=
  match minKey seen with
  | none => .error .objectInitErr
  | some c => .ok { canon := c, turns := wrap (-(lastIdxOf seen c : Int)) n, keys := seen.eraseDups }

theorem loop_zero (r : Reg CKey) (n e : Nat) (s : List String) (t : List Char) (seen : List CKey) :
    complexIdentifiers.loop r n 0 e s t seen = finish n seen := by
  unfold complexIdentifiers.loop finish
  rfl

theorem loop_succ_reg (r : Reg CKey) (n k e : Nat) (s : List String) (t : List Char) (seen : List CKey)
    (h : (r.findCanon (s, t)).isSome = true) :
    complexIdentifiers.loop r n (k + 1) e s t seen =
      .ok { canon := (s, t), turns := wrap (-(e : Int)) n, keys := seen.eraseDups } := by
  conv => lhs; unfold complexIdentifiers.loop
  simp only [h, if_true]

theorem loop_succ_free (r : Reg CKey) (n k e : Nat) (s : List String) (t : List Char) (seen : List CKey)
    (nx : List String × List Char) (h : r.findCanon (s, t) = none) (hrot : rotateOnce s t = .ok nx) :
    complexIdentifiers.loop r n (k + 1) e s t seen =
      complexIdentifiers.loop r n k (e + 1) nx.1 nx.2 (seen ++ [(s, t)]) := by
  conv => lhs; unfold complexIdentifiers.loop
  simp only [h, hrot, Option.isSome_none, Bool.false_eq_true, if_false]

/-- the loop on a well-formed description: early exit at a registered rotation, or all `k` rotations are
    unregistered and collected -/
theorem loop_cases (r : Reg CKey) (n : Nat) :
    ∀ (k e : Nat) (s : List String) (t : List Char) (seen : List CKey), Descr' s t →
      (∃ ids, complexIdentifiers.loop r n k e s t seen = .ok ids ∧ ids.canon ∈ orb k s t ∧
          (r.findCanon ids.canon).isSome = true ∧ ids.keys = (seen ++ (orb k s t).takeWhile (· ≠ ids.canon)).eraseDups) ∨
      ((∀ x ∈ orb k s t, r.findCanon x = none) ∧
        complexIdentifiers.loop r n k e s t seen = finish n (seen ++ orb k s t)) := by
  intro k
  induction k with
  | zero =>
    intro e s t seen _
    right
    refine ⟨by simp [orb], ?_⟩
    rw [loop_zero]; simp [orb]
  | succ k ih =>
    intro e s t seen hd
    obtain ⟨nx, hrot, hdn, _⟩ := descr_rotateOnce s t hd
    rw [orb_succ k s t nx hrot]
    by_cases hreg : (r.findCanon (s, t)).isSome = true
    · left
      refine ⟨_, loop_succ_reg r n k e s t seen hreg, by simp, hreg, ?_⟩
      simp
    · have hfree : r.findCanon (s, t) = none := by simpa using hreg
      rw [loop_succ_free r n k e s t seen nx hfree hrot]
      rcases ih (e + 1) nx.1 nx.2 (seen ++ [(s, t)]) hdn with ⟨ids, h1, h2, h3, h4⟩ | ⟨h1, h2⟩
      · left
        refine ⟨ids, h1, List.mem_cons_of_mem _ h2, h3, ?_⟩
        have hne : (s, t) ≠ ids.canon := by
          intro e; rw [← e, hfree] at h3; simp at h3
        rw [h4, List.takeWhile_cons]
        simp [hne]
      · right
        refine ⟨?_, ?_⟩
        · intro x hx
          simp only [List.mem_cons] at hx
          rcases hx with rfl | hx
          · exact hfree
          · exact h1 x hx
        · rw [h2]; simp

theorem complexIdentifiers_eq (r : Reg CKey) (seq : List String) (sst : List Char)
    (h : seq.length = sst.length) :
    complexIdentifiers r seq sst = complexIdentifiers.loop r (nStr seq) (nStr seq) 0 seq sst [] := by
  unfold complexIdentifiers nStr
  simp [h]

theorem self_mem_orb (seq : List String) (sst : List Char) (hd : Descr' seq sst) :
    (seq, sst) ∈ orb (nStr seq) seq sst := by
  rw [mem_orb]; exact ⟨0, nStr_pos seq hd.nonempty, rfl⟩

/-- `complexIdentifiers` on a well-formed description -/
theorem ids_cases (r : Reg CKey) (seq : List String) (sst : List Char) (hd : Descr' seq sst) :
    (∃ ids, complexIdentifiers r seq sst = .ok ids ∧ ids.canon ∈ orb (nStr seq) seq sst ∧
        (r.findCanon ids.canon).isSome = true) ∨
    ((∀ x ∈ orb (nStr seq) seq sst, r.findCanon x = none) ∧
      ∃ c, minKey (orb (nStr seq) seq sst) = some c ∧
        complexIdentifiers r seq sst = .ok
          { canon := c, turns := wrap (-(lastIdxOf (orb (nStr seq) seq sst) c : Int)) (nStr seq),
            keys := (orb (nStr seq) seq sst).eraseDups }) := by
  rw [complexIdentifiers_eq r seq sst hd.al.1]
  rcases loop_cases r (nStr seq) (nStr seq) 0 seq sst [] hd with ⟨ids, h1, h2, h3, _⟩ | ⟨h1, h2⟩
  · left; exact ⟨ids, h1, h2, h3⟩
  · right
    refine ⟨h1, ?_⟩
    simp only [List.nil_append] at h2
    have hne : orb (nStr seq) seq sst ≠ [] := List.ne_nil_of_mem (self_mem_orb seq sst hd)
    obtain ⟨c, hc⟩ := Ord.minKey_isSome _ hne
    refine ⟨c, hc, ?_⟩
    rw [h2]; unfold finish; rw [hc]

/-! ### `lastIdxOf`, `wrap`, positions in the orbit -/

theorem lastIdx_aux (k : CKey) (l : List CKey) :
    ∀ (off : Nat) (acc : Option Nat),
      (k ∈ l → ∃ j, (l.zipIdx off).foldl (fun acc (p : CKey × Nat) => if p.1 = k then some p.2 else acc) acc
          = some (off + j) ∧ l[j]? = some k) ∧
      (k ∉ l → (l.zipIdx off).foldl (fun acc (p : CKey × Nat) => if p.1 = k then some p.2 else acc) acc = acc) := by
  induction l with
  | nil => intro off acc; simp
  | cons x xs ih =>
    intro off acc
    simp only [List.zipIdx_cons, List.foldl_cons]
    obtain ⟨ih1, ih2⟩ := ih (off + 1) (if x = k then some off else acc)
    constructor
    · intro hk
      by_cases hxs : k ∈ xs
      · obtain ⟨j, h1, h2⟩ := ih1 hxs
        refine ⟨j + 1, ?_, by simpa using h2⟩
        rw [h1]; congr 1; omega
      · rw [ih2 hxs]
        have hx : x = k := by
          simp only [List.mem_cons] at hk
          rcases hk with h | h
          · exact h.symm
          · exact absurd h hxs
        exact ⟨0, by simp [hx], by simp [hx]⟩
    · intro hk
      simp only [List.mem_cons, not_or] at hk
      rw [ih2 hk.2]
      have : ¬ x = k := fun e => hk.1 e.symm
      simp [this]

theorem lastIdxOf_spec (ks : List CKey) (k : CKey) (h : k ∈ ks) : ks[lastIdxOf ks k]? = some k := by
  obtain ⟨j, h1, h2⟩ := (lastIdx_aux k ks 0 none).1 h
  unfold lastIdxOf
  rw [h1]; simpa using h2

theorem wrap_neg (i n : Nat) (h : i < n) : wrap (-(i : Int)) n = (n - i) % n := by
  unfold wrap
  by_cases hi : i = 0
  · subst hi; simp
  · have e1 : (-(i : Int)) % (n : Int) = (n : Int) - i := by
      have : (-(i : Int)) % (n : Int) = (-(i : Int) + n) % n := by simp
      rw [this]
      have e : -(i : Int) + n = (n : Int) - i := by omega
      rw [e]
      apply Int.emod_eq_of_lt <;> omega
    rw [e1]
    have e2 : ((n : Int) - i + n) % n = (n : Int) - i := by
      rw [Int.add_emod_right]
      apply Int.emod_eq_of_lt <;> omega
    rw [e2]
    rw [Nat.mod_eq_of_lt (by omega)]
    omega

theorem orb_get (m : Nat) :
    ∀ (s : List String) (t : List Char), Descr' s t → ∀ (i : Nat) (c : CKey),
      (orb m s t)[i]? = some c → rotateN i s t = .ok c := by
  induction m with
  | zero => intro s t _ i c h; simp [orb] at h
  | succ m ih =>
    intro s t hd i c h
    obtain ⟨nx, hrot, hdn, _⟩ := descr_rotateOnce s t hd
    rw [orb_succ m s t nx hrot] at h
    cases i with
    | zero => simp at h; rw [← h]; rfl
    | succ i =>
      simp only [List.getElem?_cons_succ] at h
      rw [rotateN_succ, hrot]
      exact ih nx.1 nx.2 hdn i c h

/-- rotating the canonical form by `turns` yields the supplied description -/
theorem turns_spec (seq : List String) (sst : List Char) (hd : Descr' seq sst) (c : CKey)
    (hc : c ∈ orb (nStr seq) seq sst) :
    wrap (-(lastIdxOf (orb (nStr seq) seq sst) c : Int)) (nStr seq) < nStr seq ∧
    rotateN (wrap (-(lastIdxOf (orb (nStr seq) seq sst) c : Int)) (nStr seq)) c.1 c.2 = .ok (seq, sst) := by
  have hget := lastIdxOf_spec _ c hc
  have hpos := nStr_pos seq hd.nonempty
  have hi : lastIdxOf (orb (nStr seq) seq sst) c < nStr seq := by
    have := (List.getElem?_eq_some_iff.mp hget).1
    have hl : (orb (nStr seq) seq sst).length ≤ nStr seq := by
      unfold orb
      exact Nat.le_trans (List.length_filterMap_le _ _) (by simp)
    omega
  have hrot := orb_get _ seq sst hd _ c hget
  rw [wrap_neg _ _ hi]
  refine ⟨Nat.mod_lt _ hpos, ?_⟩
  obtain ⟨y, hy, hdy, hny⟩ := descr_rotateN (lastIdxOf (orb (nStr seq) seq sst) c) seq sst hd
  rw [hrot] at hy; cases hy
  rw [← hny, ← rotateN_mod _ c.1 c.2 hdy, hny]
  have := rotateN_add (lastIdxOf (orb (nStr seq) seq sst) c) (nStr seq - lastIdxOf (orb (nStr seq) seq sst) c) seq sst
  rw [hrot] at this
  have e : lastIdxOf (orb (nStr seq) seq sst) c + (nStr seq - lastIdxOf (orb (nStr seq) seq sst) c) = nStr seq := by
    omega
  rw [e, descr_period seq sst hd] at this
  exact this.symm

end Dsd.Rot
