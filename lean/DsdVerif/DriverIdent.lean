/-
Stateless driver ops for the `identifiers` class methods as TRANSLATED from the source text (Gen/PyIdentifiers.lean).
`stepIdent line = none` means "not one of my ops".  TAB separated requests:

  pyident.cplx    <registered keys>  <cls.PREFIX>  <cls.ID>  <sequence>  <structure>  <name>  <prefix>
  pyident.strand  <cls.PREFIX>  <cls.ID>  <sequence>  <name>  <prefix>

a key is `<names separated by blanks>|<structure characters>`, keys are separated by `;`; a `None`-able argument is `none` or
`s:<value>` (sequence: the names separated by blanks).  Answers: `ok <canon> ; <name> ; <turns> ; <rcplxs separated by ,>`,
`ok <canon> ; <name> ; {}` for the empty `newargs`, `err <exception class>`.
-/
import DsdVerif.Gen.PyIdentifiers

namespace Dsd.DriverIdent
open Dsd

abbrev Key := List String × List Char

def words (s : String) : List String := (s.splitOn " ").filter (· ≠ "")

def showErr : Err → String
  | .secondaryStructure => "err SecondaryStructureError"
  | .objectInit => "err ObjectInitError"
  | .singleton _ => "err SingletonError"
  | .notImplemented => "err NotImplementedError"
  | .assertion => "err AssertionError"
  | .pilFormat => "err PilFormatError"
  | .parse => "err ParseException"
  | .fault k => "err " ++ k

/-- `none` or `s:<value>` -/
def parseOpt (s : String) : Option (Option String) :=
  if s == "none" then some none
  else match s.toList with
    | 's' :: ':' :: rest => some (some (String.ofList rest))
    | _ => none

def parseKey (s : String) : Option Key :=
  match s.splitOn "|" with
  | [a, b] => some (words a, b.toList)
  | _ => none

def parseReg (s : String) : Option (List Key) :=
  if s == "" then some [] else (s.splitOn ";").mapM parseKey

def showKey (k : Key) : String := " ".intercalate k.1 ++ "|" ++ String.ofList k.2

def showOptKey : Option Key → String
  | none => "None"
  | some k => showKey k

def showOptStr : Option String → String
  | none => "None"
  | some s => s

def stepIdent (line : String) : Option String :=
  match line.splitOn "\t" with
  | ["pyident.cplx", reg, pfx, id, seq, sst, name, prefix_] =>
    some (match parseReg reg, id.toNat?, parseOpt seq, parseOpt name, parseOpt prefix_ with
    | some reg, some id, some seq, some name, some prefix_ =>
      match Gen.py_ComplexS_identifiers reg pfx id (seq.map words) sst.toList name prefix_ with
      | .error e => showErr e
      | .ok (canon, nm, none) => "ok " ++ showOptKey canon ++ " ; " ++ showOptStr nm ++ " ; {}"
      | .ok (canon, nm, some (c, turns, keys)) =>
        "ok " ++ showOptKey canon ++ " ; " ++ showOptStr nm ++ " ; " ++ showOptKey c ++ " ; " ++ toString turns ++ " ; " ++
          ",".intercalate (keys.map showKey)
    | _, _, _, _, _ => "bad-op")
  | ["pyident.strand", pfx, id, seq, name, prefix_] =>
    some (match id.toNat?, parseOpt seq, parseOpt name, parseOpt prefix_ with
    | some id, some seq, some name, some prefix_ =>
      match Gen.py_StrandS_identifiers pfx id (seq.map words) name prefix_ with
      | .error e => showErr e
      | .ok (canon, nm, none) => "ok " ++ showOptKey canon ++ " ; " ++ showOptStr nm ++ " ; {}"
      | .ok (canon, nm, some (c, turns)) =>
        "ok " ++ showOptKey canon ++ " ; " ++ showOptStr nm ++ " ; " ++ showOptKey c ++ " ; " ++ toString turns
    | _, _, _, _ => "bad-op")
  | _ => none

end Dsd.DriverIdent
