/-
Driver op for the statement-level translation of `read_pil_line` (Gen/PyReadLine.lean).  Stateless; `stepReadLine` answers `none` for other lines.

  pyreadline.run <TAB> slots <TAB> rtypes <TAB> statement <TAB> table

slots: the five module globals (class numbers, `-` = None); rtypes: `Reaction.RTYPES` as a forest of strs; statement: the parsed statement, a
forest (its items; encoding of DriverKernel); table: the RECORDED requests of the real run in call order, `;` separated `signature=>outcome`
with outcome `ok <handle>` or `err <Kind>`.  The object world of the translated function is this table: every request parameter builds its
signature, the next recorded request must have the same one (else `err oracle:…`), and answers with the recorded outcome.  Signatures:
`D <name> <length|->`, `S <handles|-> <name>`, `C <handles|-> <name>`, `M <handles|-> <name>`, `R <handles> <handles> <rtype>`, `q <handle> <value>`
(`.sequence = value`), `k <handle> <units|->` (`.rate_constant = (rate, units)`; the float is validated by the `read_reaction` stream), `s <handle>` (`list(x.sequence)` of a strand: outcome `okl a,b,…`),
`X <items> <chars> <name>` (`Complex(sequence, list(structure), name = n)`: items handles or `p` for '+', chars a list of one-character strs) - names and
values as token trees, handle lists `,` separated (`e` = the empty list).
Answer: `ok obj <handle>` | `ok raw` (the statement handed back) | `err <Kind>`, followed by ` unused` when recorded requests were not consumed.
-/
import DsdVerif.Gen.PyReadLine
import DsdVerif.DriverReaderFns

namespace Dsd.DriverReadLine
open Dsd DriverReaderFns

structure W where
  rest : List (String × Except Err (List Nat))      -- an outcome is a handle (`ok n`), a list of handles (`okl a,b,…`) or an exception

def askL (sig : String) : Py.MS W (List Nat) := do
  let w ← get
  match w.rest with
  | [] => throw (.fault ("oracle:exhausted at " ++ sig))
  | (s, out) :: rest =>
    if s != sig then throw (.fault ("oracle:recorded [" ++ s ++ "] requested [" ++ sig ++ "]")) else
    set ({ w with rest := rest } : W)
    match out with
    | .ok n => pure n
    | .error e => throw e

def ask (sig : String) : Py.MS W Nat := do
  let l ← askL sig
  pure (l.headD 0)

def hs (l : List Nat) : String := if l.isEmpty then "e" else ",".intercalate (l.map toString)
def ohs : Option (List Nat) → String
  | none => "-"
  | some l => hs l

def envOf (g : Gen.objectio.Globals) (rtypes : List String) : RL.Env W where
  g := g
  Domain := fun n len => ask ("D " ++ encTree n ++ " " ++ (match len with | none => "-" | some k => toString k))
  Strand := fun seq n => ask ("S " ++ ohs seq ++ " " ++ encTree n)
  Complex := fun seq n => ask ("C " ++ ohs seq ++ " " ++ encTree n)
  Macrostate := fun cs n => ask ("M " ++ ohs cs ++ " " ++ encTree n)
  Reaction := fun rs ps t => ask ("R " ++ hs rs ++ " " ++ hs ps ++ " " ++ encTree t)
  set_sequence := fun h v => do let _ ← ask ("q " ++ toString h ++ " " ++ encTree v); pure ()
  set_rate_constant := fun h _ u => do
    let _ ← ask ("k " ++ toString h ++ " " ++ (match u with | none => "-" | some t => encTree t)); pure ()
  strand_sequence := fun h => askL ("s " ++ toString h)
  ComplexNew := fun seq st n =>
    ask ("X " ++ (if seq.isEmpty then "e" else ",".intercalate (seq.map (fun o => match o with | none => "p" | some h => toString h))) ++
      " [" ++ encForest st ++ " ] " ++ encTree n)
  RTYPES := rtypes
  g12 := g12Marker
  strL := strLMarker

def parseOutcome (s : String) : Option (Except Err (List Nat)) :=
  if s.startsWith "ok " then (s.drop 3).toString.toNat?.map (fun n => .ok [n])
  else if s.startsWith "okl" then (((s.drop 3).toString.trimAscii.toString.splitOn ",").filter (· ≠ "")).mapM String.toNat? |>.map .ok
  else if s.startsWith "err " then some (.error (.fault (s.drop 4).toString))
  else none

def parseEntry (s : String) : Option (String × Except Err (List Nat)) :=
  match s.splitOn "=>" with
  | [sig, out] => (parseOutcome out).map (fun o => (sig, o))
  | _ => none

def showRes (r : Except Err RL.Val × W) : String :=
  (match r.1 with
   | .ok (.obj h) => "ok obj " ++ toString h
   | .ok (.raw _) => "ok raw"
   | .error (.fault k) => "err " ++ k
   | .error .pilFormat => "err PilFormatError"
   | .error .assertion => "err AssertionError"
   | .error _ => "err other") ++ (if r.2.rest.isEmpty then "" else " unused")

def stepReadLine (line : String) : Option String :=
  match line.splitOn "\t" with
  | ["pyreadline.run", slots, rt, stmt, table] =>
    match parse5 slots, parseStrs rt, DriverKernel.parseForest stmt, ((table.splitOn ";").filter (· ≠ "")).mapM parseEntry with
    | some [g0, g1, g2, g3, g4], some rtypes, some ts, some entries =>
      some (showRes (Py.MS.exec (Gen.py_read_pil_line (envOf ⟨g0, g1, g2, g3, g4⟩ rtypes) ts) { rest := entries }))
    | _, _, _, _ => some "bad-op"
  | _ => none

end Dsd.DriverReadLine
