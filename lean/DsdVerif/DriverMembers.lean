/-
Driver op for the statement-level translations of the small `DomainS` members (Gen/PyMembers.lean).  Stateless.

  pym.dom <TAB> name <TAB> length <TAB> cutoff     every member on the object (name, length) of a class with `DTYPE_CUTOFF = cutoff`:
        `name=… length=… dtype=… iscomp=… cname=… inv=<name>,<length> len=… bool=…`; `inv` shows what `~d` REQUESTS from the class (the
        PARAMETER `request` is instantiated with a recorder); a member that raises shows `err <exception>`.
-/
import DsdVerif.Gen.PyMembers

namespace Dsd.DriverMembers
open Dsd Gen

def showE {α} (f : α → String) (r : Except Err α) : String :=
  match r with
  | .ok a => f a
  | .error (.fault k) => "err " ++ k
  | .error _ => "err other"

def showB (b : Bool) : String := if b then "True" else "False"

def stepMembers (line : String) : Option String :=
  match line.splitOn "\t" with
  | ["pym.dom", name, len, cutoff] =>
    match len.toNat?, cutoff.toNat? with
    | some l, some c =>
      let s : DomainSM.Self := { _name := name, _length := l }
      let recorder : String → Nat → Py.M Nat := fun n k => throw (.fault ("requested " ++ n ++ "," ++ toString k))
      let inv := match ((py_DomainSM_invert recorder).exec s).1 with
        | .error (.fault k) => if k.startsWith "requested " then String.ofList (k.toList.drop 10) else "err " ++ k
        | .error _ => "err other"
        | .ok _ => "err no-request"
      some ("name=" ++ showE id (py_DomainSM_name.exec s).1 ++ " length=" ++ showE toString (py_DomainSM_length.exec s).1 ++
        " dtype=" ++ showE id ((py_DomainSM_dtype c).exec s).1 ++ " iscomp=" ++ showE showB (py_DomainSM_is_complement.exec s).1 ++
        " cname=" ++ showE id (py_DomainSM_cname.exec s).1 ++ " inv=" ++ inv ++ " len=" ++ showE toString (py_DomainSM_len.exec s).1 ++
        " bool=" ++ showE showB (py_DomainSM_truth.exec s).1)
    | _, _ => some "bad-op"
  | _ => none

end Dsd.DriverMembers
