/-
Stateless driver ops for `MacrostateS.identifiers` / `ReactionS.identifiers` as TRANSLATED from the source text
(Gen/PyIdentifiers2.lean).  `stepIdent2 line = none` means "not one of my ops".  TAB separated requests:

  pyident2.macro  <members>  <name>
  pyident2.rxn    <reactants>  <products>  <rtype>  <name>

a `None`-able argument is `none` or `s:<value>`; a member list is its members separated by `;`; a member is `<name>@<form>`; the
form of a complex is `C:<names separated by blanks>|<structure>`, of a macrostate `M:<key>/<key>/…` (keys without the `C:`); in
`pyident2.macro` the members are complexes, written `<name>@<key>`.
Answers: `ok <canon> ; <name> ; {canon=… name=…}` (absent keys omitted), `err <exception class>`.
-/
import DsdVerif.Gen.PyIdentifiers2
import DsdVerif.DriverIdent

namespace Dsd.DriverIdent2
open Dsd Dsd.DriverIdent

def parseMember (s : String) : Option (String × Key) :=
  match s.splitOn "@" with
  | [n, k] => (parseKey k).map (fun k => (n, k))
  | _ => none

def parseForm (s : String) : Option MemKey :=
  match s.toList with
  | 'C' :: ':' :: rest => (parseKey (String.ofList rest)).map MemKey.c
  | 'M' :: ':' :: rest =>
    let t := String.ofList rest
    if t == "" then some (.m []) else ((t.splitOn "/").mapM parseKey).map MemKey.m
  | _ => none

def parseRMember (s : String) : Option (String × MemKey) :=
  match s.splitOn "@" with
  | [n, k] => (parseForm k).map (fun k => (n, k))
  | _ => none

def parseList {α} (f : String → Option α) (s : String) : Option (Option (List α)) :=
  match parseOpt s with
  | none => none
  | some none => some none
  | some (some t) => if t == "" then some (some []) else ((t.splitOn ";").mapM f).map some

def showForm : MemKey → String
  | .c k => "C:" ++ showKey k
  | .m ks => "M:" ++ "/".intercalate (ks.map showKey)

def showMembers (l : List (String × Key)) : String := "[" ++ ",".intercalate (l.map (fun m => m.1 ++ "@" ++ showKey m.2)) ++ "]"

def showRKey (k : List MemKey × List MemKey × Option String) : String :=
  "R[" ++ ",".intercalate (k.1.map showForm) ++ "] P[" ++ ",".intercalate (k.2.1.map showForm) ++ "] T=" ++ showOptStr k.2.2

def showRec {α} (f : α → String) (r : Option α × Option (Option String)) : String :=
  "{" ++ (match r.1 with | some c => "canon=" ++ f c | none => "") ++
    (match r.2 with | some n => " name=" ++ showOptStr n | none => "") ++ "}"

def showOptMembers : Option (List (String × Key)) → String
  | none => "None"
  | some l => showMembers l

def stepIdent2 (line : String) : Option String :=
  match line.splitOn "\t" with
  | ["pyident2.macro", members, name] =>
    some (match parseList parseMember members, parseOpt name with
    | some ms, some name =>
      match Gen.py_MacrostateS_identifiers ms name with
      | .error e => showErr e
      | .ok (canon, nm, nargs) => "ok " ++ showOptMembers canon ++ " ; " ++ showOptStr nm ++ " ; " ++ showRec showOptMembers nargs
    | _, _ => "bad-op")
  | ["pyident2.rxn", rs, ps, rtype, name] =>
    some (match parseList parseRMember rs, parseList parseRMember ps, parseOpt rtype, parseOpt name with
    | some rs, some ps, some rtype, some name =>
      match Gen.py_ReactionS_identifiers rs ps rtype name with
      | .error e => showErr e
      | .ok (canon, nm, nargs) =>
        "ok " ++ (match canon with | none => "None" | some k => showRKey k) ++ " ; " ++ showOptStr nm ++ " ; " ++ showRec showRKey nargs
    | _, _, _, _ => "bad-op")
  | _ => none

end Dsd.DriverIdent2
