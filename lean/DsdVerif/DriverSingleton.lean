/-
Driver op for the statement-level translation of `Singleton.__call__` / `clear_singletons` (Gen/PySingleton.lean), with `κ := Nat`.
Stateless: one request line carries a whole HISTORY, the answer has one item per step.

  pysingleton.run <TAB> step step …        steps separated by single blanks:
      c:<name as hex>:<canon>:<fresh>:<k,k,…>   a request whose identifiers are (canon, name); canon `-` = falsy, else a number;
                                                 the object a construction would make is `fresh`, its __init__ registers the keys k
      d:<id>                                     the last reference to object <id> is dropped: both dictionaries lose its entries
      x                                          clear_singletons(cls)
  answer: items joined by ` | `, each `<outcome> N[name>id,…] C[key>id,…]` with the outcome `ok <id>` / `ok None` /
  `err SingletonError existing=<id or None>` / `err <fault>` and both dictionaries afterwards in insertion order (names as hex).
-/
import DsdVerif.Gen.PySingleton

namespace Dsd.DriverSingleton
open Dsd

abbrev Cls := Py.SingletonCls Nat

def hexVal (c : Char) : Nat :=
  if '0' ≤ c ∧ c ≤ '9' then c.toNat - '0'.toNat
  else if 'a' ≤ c ∧ c ≤ 'f' then c.toNat - 'a'.toNat + 10 else 0

def unhex : List Char → List Char
  | a :: b :: c :: d :: rest => Char.ofNat (((hexVal a * 16 + hexVal b) * 16 + hexVal c) * 16 + hexVal d) :: unhex rest
  | _ => []

def hexDigit (n : Nat) : Char := if n < 10 then Char.ofNat (48 + n) else Char.ofNat (87 + n)

def hex (s : String) : String :=
  String.ofList (s.toList.flatMap (fun c =>
    let n := c.toNat
    [hexDigit (n / 4096 % 16), hexDigit (n / 256 % 16), hexDigit (n / 16 % 16), hexDigit (n % 16)]))

def showCls (s : Cls) : String :=
  "N[" ++ ",".intercalate (s._instanceNames.map (fun p => hex p.1 ++ ">" ++ toString p.2)) ++ "] C[" ++
    ",".intercalate (s._instanceCanon.map (fun p => toString p.1 ++ ">" ++ toString p.2)) ++ "]"

def showOut (r : Except Err (Option Nat)) : String :=
  match r with
  | .ok (some id) => s!"ok {id}"
  | .ok none => "ok None"
  | .error (.singleton (some id)) => s!"err SingletonError existing={id}"
  | .error (.singleton none) => "err SingletonError existing=None"
  | .error (.fault k) => "err " ++ k
  | .error _ => "err other"

/-- the object `id` dies: a `WeakValueDictionary` loses the entries whose value it is -/
def dropObj (s : Cls) (id : Nat) : Cls :=
  { _instanceNames := s._instanceNames.filter (fun p => p.2 != id), _instanceCanon := s._instanceCanon.filter (fun p => p.2 != id) }

def parseKeys (s : String) : Option (List Nat) :=
  if s == "" then some [] else (s.splitOn ",").mapM String.toNat?

def runStep (s : Cls) (w : String) : Option (Cls × String) :=
  match w.splitOn ":" with
  | ["c", name, canon, fresh, keys] => do
    let canon ← if canon == "-" then some none else canon.toNat?.map some
    let fresh ← fresh.toNat?
    let keys ← parseKeys keys
    let (r, s') := Py.MS.exec (Gen.py_Singleton_call canon (String.ofList (unhex name.toList)) fresh keys) s
    some (s', showOut r ++ " " ++ showCls s')
  | ["d", id] => do
    let id ← id.toNat?
    let s' := dropObj s id
    some (s', "dropped " ++ showCls s')
  | ["x"] =>
    let (r, s') := Py.MS.exec (Gen.py_clear_singletons (κ := Nat)) s
    some (s', (match r with | .ok () => "ok None" | .error _ => "err other") ++ " " ++ showCls s')
  | _ => none

def runHistory : Cls → List String → Option (List String)
  | _, [] => some []
  | s, w :: ws => do
    let (s', o) ← runStep s w
    let rest ← runHistory s' ws
    some (o :: rest)

def stepSingleton (line : String) : Option String :=
  match line.splitOn "\t" with
  | ["pysingleton.run", hist] =>
    match runHistory {} ((hist.splitOn " ").filter (· ≠ "")) with
    | some outs => some (" | ".intercalate outs)
    | none => some "bad-op"
  | _ => none

end Dsd.DriverSingleton
