/-
Driver op for the statement-level translation of `ComplexS.__init__` (Gen/PyComplexS3.lean).  Stateless; `stepComplexS3` answers `none` for
other lines.

  pyc3.init <TAB> self <TAB> seq <TAB> sst <TAB> name <TAB> prefix <TAB> canon <TAB> turns <TAB> keys <TAB> PREFIX <TAB> ID <TAB> table
     seq: names separated by blanks; name / prefix / canon / turns: `-` is None (a given name / prefix is written `=<text>`); canon and each key:
     `names,structure`; keys and table entries separated by `;`; table entry: `names,structure=<object id>` (the class's `_instanceCanon`).
     Answer: `ok name=<n> ID=<id> turns=<t> canon=<c> reg=<table afterwards>` or `err <exception>`.
-/
import DsdVerif.Gen.PyComplexS3

namespace Dsd.DriverComplexS3
open Dsd

def words (s : String) : List String := (s.splitOn " ").filter (· ≠ "")

def optStr (s : String) : Option String := if s == "-" then none else some (String.ofList (s.toList.drop 1))

def parseKey (s : String) : Option (List String × List Char) :=
  match s.splitOn "," with
  | [a, b] => some (words a, b.toList)
  | _ => none

def showKey (k : List String × List Char) : String := " ".intercalate k.1 ++ "," ++ String.ofList k.2

def parseTable (s : String) : List ((List String × List Char) × Nat) :=
  (s.splitOn ";").filterMap (fun e => match e.splitOn "=" with
    | [k, v] => match parseKey k, v.toNat? with
      | some k, some n => some (k, n)
      | _, _ => none
    | _ => none)

def showErr : Err → String
  | .assertion => "err AssertionError"
  | .fault k => "err " ++ k
  | _ => "err other"

def stepComplexS3 (line : String) : Option String :=
  match line.splitOn "\t" with
  | ["pyc3.init", self_, seq, sst, name, pre, canon, turns, keys, pfx, id, table] =>
    match self_.toNat?, id.toNat? with
    | some me, some i =>
      let st0 : Gen.ComplexS3.St :=
        { cls_PREFIX := pfx, cls_ID := i, cls_instanceCanon := parseTable table, _sequence := [], _structure := [], _name := "", _canon := none,
          _turns := 0, _strand_table := none, _pair_table := none, _loop_index := none, _domains := none, _exterior_domains := none,
          _enclosed_domains := none, _exterior_loops := none, _concentration := none }
      let c := if canon == "-" then none else parseKey canon
      let t := if turns == "-" then none else turns.toInt?
      let ks := ((keys.splitOn ";").filter (· ≠ "")).filterMap parseKey
      let (r, st) := (Gen.py_ComplexS_init_full me (words seq) sst.toList (optStr name) (optStr pre) c t ks).exec st0
      match r with
      | .error e => some (showErr e)
      | .ok _ => some (s!"ok name={st._name} ID={st.cls_ID} turns={st._turns} canon=" ++ (match st._canon with | some k => showKey k | none => "-") ++
          " reg=" ++ ";".intercalate (st.cls_instanceCanon.map (fun p => showKey p.1 ++ s!"={p.2}")))
    | _, _ => some "bad-op"
  | _ => none

end Dsd.DriverComplexS3
