/-
Line-protocol ops that EXECUTE the methods of the legacy `DSD_Complex` as translated from the source (Gen/PyLegacy.lean) on
their own object states (handle ↦ `DSD_Complex.Self`).  TAB separated requests, one response line each:

    lg.new   <h> <names, blank separated> <structure>      the attributes as `__init__` leaves them            -> ok
    lg.rot   <h>                                           `o.rotate_once()`                                   -> ok | err …
    lg.q     <h> <view> <arg>                              a property / method with its argument ("-" if none) -> the answer | err …
    lg.reset                                               forget all objects                                  -> ok

`stepLegacy` answers `none` for every other line (not one of these ops).  No Props, no Mathlib.
-/
import DsdVerif.Gen.PyLegacy

namespace Dsd.DriverLegacy
open Dsd Gen

structure LegacyDState where
  objs : List (Nat × DSD_Complex.Self) := []

def showErr : Err → String
  | .secondaryStructure => "err SecondaryStructureError"
  | .objectInit => "err ObjectInitError"
  | .singleton _ => "err SingletonError"
  | .notImplemented => "err NotImplementedError"
  | .assertion => "err AssertionError"
  | .pilFormat => "err PilFormatError"
  | .parse => "err ParseException"
  | .fault k => "err Fault " ++ k

def showLoc (l : Nat × Nat) : String := s!"{l.1}.{l.2}"

def showOLoc : Option (Nat × Nat) → String
  | none => "-"
  | some l => showLoc l

def showNats (l : List Nat) : String := ",".intercalate (l.map toString)

def showOLocs : Option (List (Nat × Nat)) → String
  | none => "None"
  | some l => "[" ++ " ".intercalate (l.map showLoc) ++ "]"

def parseNat2 (s : String) : Option (Nat × Nat) :=
  match s.splitOn "." with
  | [a, b] => do let a ← a.toNat?; let b ← b.toNat?; some (a, b)
  | _ => none

/-- a view by name: the translated method, its answer as text -/
def view (name arg : String) : Option (DSD_Complex.M String) :=
  match name with
  | "sequence" => some (do let r ← py_DSD_Complex_sequence; pure (" ".intercalate r))
  | "structure" => some (do let r ← py_DSD_Complex_structure; pure (String.ofList r))
  | "size" => some (do let r ← py_DSD_Complex_size; pure (toString r))
  | "strand_length" => arg.toNat?.map (fun n => do let r ← py_DSD_Complex_strand_length n; pure (toString r))
  | "pair_table" => some (do
      let r ← py_DSD_Complex_pair_table
      pure ("|".intercalate (r.map (fun st => ",".intercalate (st.map showOLoc)))))
  | "get_paired_loc" => (parseNat2 arg).map (fun l => do let r ← py_DSD_Complex_get_paired_loc l; pure (showOLoc r))
  | "loop_index" => some (do
      let r ← py_DSD_Complex_loop_index
      -- the second component is a Python set: shown sorted
      pure ("|".intercalate (r.1.map showNats) ++ " ; " ++ showNats (r.2.mergeSort (· ≤ ·))))
  | "get_loop_index" => (parseNat2 arg).map (fun l => do let r ← py_DSD_Complex_get_loop_index l; pure (toString r))
  | "exterior_domains" => some (do let r ← py_DSD_Complex_exterior_domains; pure (showOLocs r))
  | "enclosed_domains" => some (do let r ← py_DSD_Complex_enclosed_domains; pure (showOLocs r))
  | "is_connected" => some (do let r ← py_DSD_Complex_is_connected; pure (if r then "True" else "False"))
  | "kernel_string" => some (do let r ← py_DSD_Complex_kernel_string; pure ("'" ++ String.ofList r ++ "'"))
  | "lol_sequence" => some (do let r ← py_DSD_Complex_lol_sequence; pure ("|".intercalate (r.map (" ".intercalate ·))))
  | "get_domain" => (parseNat2 arg).map (fun l => do let r ← py_DSD_Complex_get_domain l; pure r)
  | "rotate_pairtable_loc" =>
    -- argument `<strand>.<domain>;<n>` with ints of either sign for <strand> and <n>, `None` for the default
    match arg.splitOn ";" with
    | [l, n] =>
      match l.splitOn ".", (if n == "None" then some none else n.toInt?.map some) with
      | [a, b], some n' => do
        let a ← a.toInt?; let b ← b.toNat?
        some (do let r ← py_DSD_Complex_rotate_pairtable_loc (a, b) n'; pure s!"{r.1}.{r.2}")
      | _, _ => none
    | _ => none
  | _ => none

def put (d : LegacyDState) (id : Nat) (s : DSD_Complex.Self) : LegacyDState :=
  { d with objs := (id, s) :: d.objs.filter (fun p => p.1 != id) }

def stepLegacy (d : LegacyDState) (line : String) : Option (LegacyDState × String) :=
  match line.splitOn "\t" with
  | ["lg.reset"] => some ({}, "ok")
  | ["lg.new", h, names, sst] =>
    match h.toNat? with
    | some id => some (put d id (py_DSD_Complex_init ((names.splitOn " ").filter (· ≠ "")) sst.toList), "ok")
    | none => some (d, "bad-op")
  | ["lg.rot", h] =>
    match h.toNat?.bind (fun id => (d.objs.lookup id).map (fun s => (id, s))) with
    | some (id, s) =>
      let (r, s') := (py_DSD_Complex_rotate_once).exec s
      some (put d id s', match r with | .ok _ => "ok" | .error e => showErr e)
    | none => some (d, "err Fault dead-handle")
  | ["lg.q", h, v, arg] =>
    match h.toNat?.bind (fun id => (d.objs.lookup id).map (fun s => (id, s))), view v arg with
    | some (id, s), some m =>
      let (r, s') := m.exec s
      some (put d id s', match r with | .ok a => a | .error e => showErr e)
    | none, _ => some (d, "err Fault dead-handle")
    | _, none => some (d, "bad-op")
  | _ => none

end Dsd.DriverLegacy
