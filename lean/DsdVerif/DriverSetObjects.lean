/-
Stateless driver ops for the object parts of `MacrostateS` / `ReactionS` as TRANSLATED from the source text: the translated
`identifiers` (Gen/PyIdentifiers2.lean) supplies `name` / `canon` as `Singleton.__call__` does (`kwargs.update(kwadd)`), then the
translated `__init__` (Gen/PySetObjects.lean) builds the object and the translated views are read off it.

  pysetobj.macro  <members>  <name>                          (formats as in DriverIdent2.lean; `<members>` not `none`)
  pysetobj.rxn    <reactants>  <products>  <rtype>  <name>

Answers: `ok complexes=[…] rep=… canon=… name=… len=…`, `ok reactants=[…] products=[…] rtype=… name=… canon=…`, `err <exception class>`.
-/
import DsdVerif.Gen.PyIdentifiers2
import DsdVerif.Gen.PySetObjects
import DsdVerif.DriverIdent2

namespace Dsd.DriverSetObjects
open Dsd Dsd.DriverIdent Dsd.DriverIdent2

def showMember (m : String × Key) : String := m.1 ++ "@" ++ showKey m.2

def showRMembers (l : List (String × MemKey)) : String := "[" ++ ",".intercalate (l.map (fun m => m.1 ++ "@" ++ showForm m.2)) ++ "]"

def view {σ α} (m : Py.MS σ α) (s : σ) (f : α → String) : String :=
  match (m.exec s).1 with
  | .ok a => f a
  | .error e => "<" ++ showErr e ++ ">"

def stepSetObjects (line : String) : Option String :=
  match line.splitOn "\t" with
  | ["pysetobj.macro", members, name] =>
    some (match parseList parseMember members, parseOpt name with
    | some (some ms), some name =>
      match Gen.py_MacrostateS_identifiers (some ms) name with
      | .error e => showErr e
      | .ok (canon, nm, _) =>
        match nm with
        | none => "err no-name"
        | some n =>
          match Gen.py_MacrostateSObj_new ms n canon with
          | .error e => showErr e
          | .ok s =>
            "ok complexes=" ++ view Gen.py_MacrostateS_complexes s showMembers ++ " rep=" ++ view Gen.py_MacrostateS_representative s showMember ++
              " canon=" ++ view Gen.py_MacrostateS_canonical_form s showOptMembers ++ " name=" ++ view Gen.py_MacrostateS_name s id ++
              " len=" ++ view Gen.py_MacrostateS___len__ s toString
    | _, _ => "bad-op")
  | ["pysetobj.rxn", rs, ps, rtype, name] =>
    some (match parseList parseRMember rs, parseList parseRMember ps, parseOpt rtype, parseOpt name with
    | some (some rs), some (some ps), some rtype, some name =>
      match Gen.py_ReactionS_identifiers (some rs) (some ps) rtype name with
      | .error e => showErr e
      | .ok (canon, nm, _) =>
        match Gen.py_ReactionSObj_new rs ps rtype nm canon with
        | .error e => showErr e
        | .ok s =>
          "ok reactants=" ++ view Gen.py_ReactionS_reactants s showRMembers ++ " products=" ++ view Gen.py_ReactionS_products s showRMembers ++
            " rtype=" ++ view Gen.py_ReactionS_rtype s showOptStr ++ " name=" ++ view Gen.py_ReactionS_name s showOptStr ++
            " canon=" ++ view Gen.py_ReactionS_canonical_form s (fun c => match c with | none => "None" | some k => showRKey k)
    | _, _, _, _ => "bad-op")
  | _ => none

end Dsd.DriverSetObjects
