/-
Driver ops for the statement-level translations of `read_reaction`, `set_io_objects`, `clear_io_objects` (Gen/PyReaderFns.lean).
Stateless; `stepReaderFns` answers `none` for a line that is not one of its ops.  TAB separated requests:

  pyrx.read  <TAB> rtypes <TAB> forest     the TRANSLATED `Gen.py_read_reaction` on the parsed line `forest`; `rtypes`: the elements of
                                           `Reaction.RTYPES` as blank separated `h<hex>` words
  rx.model   <TAB> forest                  the hand-written model `ReaderFull.readReaction` on the same line (RTYPES = `Gen.rtypes`)
  pyio.run   <TAB> base <TAB> start <TAB> ops
                                           `base`: five numbers (the classes DomainS … ReactionS), `start`: the five module globals
                                           (`-` = None), `ops`: `;` separated calls `clear` / `set a b c d e` (`-` = None), run in order
                                           with the TRANSLATED functions; answer: the five globals after each call, `;` separated

forest: as in DriverKernel (words separated by single blanks; `[` `]` nested list, `h<hex>` a str, 4 hex digits per character).
Answer of `pyrx.read`: `ok c1|c2|c3|c4|c5|c6`, a component is `None`, a tree in the forest encoding, `f<hex>` (the LITERAL of the float) or
`s<hex>` (a str); the two opaque renderings are left as markers inside the str: U+0001 `g` literal U+0002 for `{:12g}`, U+0001 `l` forest U+0002
for the `str()` of a list - the harness replaces them by what CPython prints.  Exceptions: `err <kind>`.
-/
import DsdVerif.Gen.PyReaderFns
import DsdVerif.Model.ReaderFull
import DsdVerif.DriverKernel

namespace Dsd.DriverReaderFns
open Dsd

def hexDigit (n : Nat) : Char := if n < 10 then Char.ofNat (48 + n) else Char.ofNat (87 + n)

def hex4 (c : Char) : List Char :=
  let n := c.toNat
  [hexDigit (n / 4096 % 16), hexDigit (n / 256 % 16), hexDigit (n / 16 % 16), hexDigit (n % 16)]

def hexStr (s : String) : String := String.ofList (s.toList.flatMap hex4)

mutual
  def encTree : PP.Tree → String
    | .tok s => "h" ++ hexStr s
    | .grp ts => "[" ++ encForest ts ++ " ]"
  def encForest : List PP.Tree → String
    | [] => ""
    | t :: ts => " " ++ encTree t ++ encForest ts
end

def g12Marker (x : Py.FloatLit) : String := "\x01g" ++ x ++ "\x02"
def strLMarker (ts : List PP.Tree) : String := "\x01l" ++ encForest ts ++ "\x02"

def showErr : Err → String
  | .fault k => "err " ++ k
  | _ => "err other"

def showOT : Option PP.Tree → String
  | none => "None"
  | some t => encTree t

def showRx (r : Except Err (Option PP.Tree × Option PP.Tree × Option PP.Tree × Option Py.FloatLit × Option PP.Tree × Option String)) : String :=
  match r with
  | .error e => showErr e
  | .ok (a, b, c, d, e, f) =>
    "ok " ++ "|".intercalate [showOT a, showOT b, showOT c, (match d with | none => "None" | some x => "f" ++ hexStr x), showOT e,
      (match f with | none => "None" | some x => "s" ++ hexStr x)]

def showOS : Option String → String
  | none => "None"
  | some s => "h" ++ hexStr s

def showModel (r : Except RErr (Option String × Option String × Option String)) : String :=
  match r with
  | .error (.fault k) => "err " ++ k
  | .error _ => "err other"
  | .ok (a, b, c) => "ok " ++ "|".intercalate [showOS a, (match b with | none => "None" | some x => "f" ++ hexStr x), showOS c]

def parseStrs (s : String) : Option (List String) :=
  match DriverKernel.parseForest s with
  | none => none
  | some ts => ts.mapM (fun t => match t with | .tok x => some x | .grp _ => none)

def parseOpt (w : String) : Option (Option Nat) := if w == "-" then some none else w.toNat?.map some

def parse5 (s : String) : Option (List (Option Nat)) :=
  match ((s.splitOn " ").filter (· ≠ "")).mapM parseOpt with
  | some l => if l.length = 5 then some l else none
  | none => none

def showGlobals (g : Gen.objectio.Globals) : String :=
  ",".intercalate ([g.Domain, g.Strand, g.Complex, g.Macrostate, g.Reaction].map
    (fun o => match o with | none => "-" | some k => toString k))

/-- one call: the outcome and the globals afterwards -/
def runOp (base : Gen.objectio.Imports) (g : Gen.objectio.Globals) (op : String) : Option (Except Err Unit × Gen.objectio.Globals) :=
  match (op.splitOn " ").filter (· ≠ "") with
  | ["clear"] => some (Py.MS.exec (Gen.py_clear_io_objects base) g)
  | "set" :: rest =>
    match rest.mapM parseOpt with
    | some [a, b, c, d, e] => some (Py.MS.exec (Gen.py_set_io_objects base a b c d e) g)
    | _ => none
  | _ => none

def runOps (base : Gen.objectio.Imports) : Gen.objectio.Globals → List String → Option (List String)
  | _, [] => some []
  | g, op :: ops =>
    match runOp base g op with
    | none => none
    | some (r, g') =>
      match runOps base g' ops with
      | none => none
      | some rest => some (((match r with | .ok _ => "" | .error e => showErr e ++ " ") ++ showGlobals g') :: rest)

def stepReaderFns (line : String) : Option String :=
  match line.splitOn "\t" with
  | ["pyrx.read", rt, enc] =>
    match parseStrs rt, DriverKernel.parseForest enc with
    | some rtypes, some ts => some (showRx (Gen.py_read_reaction rtypes g12Marker strLMarker ts))
    | _, _ => some "bad-op"
  | ["rx.model", enc] =>
    match DriverKernel.parseForest enc with
    | some ts => some (showModel (ReaderFull.readReaction ts))
    | none => some "bad-op"
  | ["pyio.run", base, start, ops] =>
    match parse5 base, parse5 start with
    | some [some b0, some b1, some b2, some b3, some b4], some [g0, g1, g2, g3, g4] =>
      match runOps ⟨b0, b1, b2, b3, b4⟩ ⟨g0, g1, g2, g3, g4⟩ (ops.splitOn ";") with
      | some l => some ("ok " ++ ";".intercalate l)
      | none => some "bad-op"
    | _, _ => some "bad-op"
  | _ => none

end Dsd.DriverReaderFns
