/-
Line-protocol ops that EXECUTE the registry methods of the legacy `DSD_Complex` as translated from the source
(Gen/PyLegacyReg.lean).  The state wraps `DriverLegacy.LegacyDState` (untouched) and adds the class variables and the
registry-side attributes of the objects.  TAB separated:

    lr.reset                                          forget everything                                       -> ok
    lr.mem   <names> <structure> <id> <rot|None>      `DSD_Complex.MEMORY[(names, structure)] = <object id>`  -> ok
             (mirrors an entry the REAL constructor made; the harness reads the public class attribute)
    lr.new   <h> <names> <structure> <name> <0|1>     the attributes as `__init__` assigns them BEFORE it asks for
             `canonical_form` (attribute initialisation read off `__init__` by pylegacy.py; name and memorycheck as given)  -> ok
    lr.canon <h>                                      `o.canonical_form`            -> `names / structure` | err …
    lr.dm    <h> <names> <structure> <e>              `o.do_memorycheck(key, e)`    -> ok | err …
    lr.rep   <h>                                      the object's current `_sequence` / `_structure` / `_rotations`

`stepLegacyReg` answers `none` for every line it does not own, after offering it to `DriverLegacy.stepLegacy`.
-/
import DsdVerif.Gen.PyLegacyReg
import DsdVerif.DriverLegacy

namespace Dsd.DriverLegacyReg
open Dsd Gen

structure LegacyRegDState where
  lg : DriverLegacy.LegacyDState := {}
  ID : Nat := 0
  NAMES : List (String × CKey) := []
  MEMORY : List (CKey × Py.LegR_Ref) := []
  objs : List (Nat × DSD_ComplexR.Self) := []

def names (s : String) : List String := (s.splitOn " ").filter (· ≠ "")

def showKey (k : CKey) : String := " ".intercalate k.1 ++ " / " ++ String.ofList k.2

/-- the object of a handle under the CURRENT class variables -/
def world (d : LegacyRegDState) (s : DSD_ComplexR.Self) : DSD_ComplexR.Self :=
  { s with cls_ID := d.ID, cls_NAMES := d.NAMES, cls_MEMORY := d.MEMORY }

def put (d : LegacyRegDState) (id : Nat) (s : DSD_ComplexR.Self) : LegacyRegDState :=
  { d with ID := s.cls_ID, NAMES := s.cls_NAMES, MEMORY := s.cls_MEMORY, objs := (id, s) :: d.objs.filter (fun p => p.1 != id) }

def stepLegacyReg (d : LegacyRegDState) (line : String) : Option (LegacyRegDState × String) :=
  match line.splitOn "\t" with
  | ["lr.reset"] => some ({}, "ok")
  | ["lr.mem", ns, sst, id, rot] =>
    match id.toNat?, (if rot == "None" then some none else rot.toNat?.map some) with
    | some id, some r => some ({ d with MEMORY := Py.dictSet d.MEMORY (names ns, sst.toList) (id, r) }, "ok")
    | _, _ => some (d, "bad-op")
  | ["lr.new", h, ns, sst, nm, mc] =>
    match h.toNat? with
    | some id =>
      let c := py_DSD_Complex_init (names ns) sst.toList
      let s : DSD_ComplexR.Self :=
        { _sequence := c._sequence, _structure := c._structure, _strand_lengths := c._strand_lengths, _pair_table := c._pair_table,
          _loop_index := c._loop_index, _exterior_loops := c._exterior_loops, _lol_sequence := c._lol_sequence,
          _exterior_domains := c._exterior_domains, _enclosed_domains := c._enclosed_domains,
          _name := nm, _canonical_form := none, _rotations := none, _memorycheck := mc == "1", oid := id,
          cls_ID := d.ID, cls_NAMES := d.NAMES, cls_MEMORY := d.MEMORY }
      some (put d id s, "ok")
    | none => some (d, "bad-op")
  | ["lr.canon", h] =>
    match h.toNat?.bind (fun id => (d.objs.lookup id).map (fun s => (id, s))) with
    | some (id, s) =>
      let (r, s') := (py_DSD_ComplexR_canonical_form).exec (world d s)
      some (put d id s', match r with
        | .ok (some k) => showKey k
        | .ok none => "None"
        | .error e => DriverLegacy.showErr e)
    | none => some (d, "err Fault dead-handle")
  | ["lr.dm", h, ns, sst, e] =>
    match h.toNat?.bind (fun id => (d.objs.lookup id).map (fun s => (id, s))), e.toNat? with
    | some (id, s), some e =>
      let (r, s') := (py_DSD_ComplexR_do_memorycheck (names ns, sst.toList) (some (Int.ofNat e))).exec (world d s)
      some (put d id s', match r with | .ok _ => "ok" | .error e => DriverLegacy.showErr e)
    | _, _ => some (d, "err Fault dead-handle")
  | ["lr.rep", h] =>
    match h.toNat?.bind (fun id => d.objs.lookup id) with
    | some s => some (d, showKey (s._sequence, s._structure) ++ " rot=" ++ (match s._rotations with | some r => toString r | none => "None"))
    | none => some (d, "err Fault dead-handle")
  | _ =>
    match DriverLegacy.stepLegacy d.lg line with
    | some (lg', out) => some ({ d with lg := lg' }, out)
    | none => none

end Dsd.DriverLegacyReg
