/-
Driver op for the statement-level translation of `DomainS.__init__` (Gen/PyMembers2.lean).  Stateless.

  pym2.init <TAB> PREFIX <TAB> SHORT_DOM_LEN <TAB> LONG_DOM_LEN <TAB> ID <TAB> name <TAB> length <TAB> prefix <TAB> dtype
       name / prefix / dtype: `-` is None, a given str is written `=<text>`; length: `-` or a number.
       Answer: `ok name=<n> ID=<id> length=<l|None> sequence=None` or `err <exception>`.
-/
import DsdVerif.Gen.PyMembers2

namespace Dsd.DriverMembers2
open Dsd Gen

def optStr (s : String) : Option String := if s == "-" then none else some (String.ofList (s.toList.drop 1))

def stepMembers2 (line : String) : Option String :=
  match line.splitOn "\t" with
  | ["pym2.init", pfx, sh, lo, id, name, len, pre, dtype] =>
    match sh.toNat?, lo.toNat?, id.toNat? with
    | some sh, some lo, some i =>
      let st0 : DomainS2.St := { cls_ID := i, _name := "", _length := none, sequence := some () }
      let l := if len == "-" then none else len.toNat?
      let (r, st) := (py_DomainS_init_full pfx sh lo (optStr name) l (optStr pre) (optStr dtype)).exec st0
      match r with
      | .error (.fault k) => some ("err " ++ k)
      | .error _ => some "err other"
      | .ok _ => some (s!"ok name={st._name} ID={st.cls_ID} length=" ++ (match st._length with | some k => toString k | none => "None") ++
          " sequence=" ++ (match st.sequence with | some _ => "object" | none => "None"))
    | _, _, _ => some "bad-op"
  | _ => none

end Dsd.DriverMembers2
