/-
Driver ops for the statement-level translation of `resolve_kernel_loops` (Gen/PyKernel.lean).  Stateless; `stepKernel` answers
`none` for a line that is not one of its ops.

  pykernel.resolve <TAB> forest     the TRANSLATED function (`Gen.py_resolve_kernel_loops`) on a token forest
  kernel.forest    <TAB> forest     the hand-written model (`resolveKernel`) on the same forest

forest: words separated by single blanks; `[` opens a nested list, `]` closes it, `h<hex>` is a str (4 hex digits per character,
`h` alone is the empty str).  Answer: `ok "name" "name" … / <structure>` or `err <exception>`.
The recursion budget is the number of words + 1 (more than the nesting depth of the forest).
-/
import DsdVerif.Gen.PyKernel
import DsdVerif.Model.Kernel

namespace Dsd.DriverKernel
open Dsd

def hexVal (c : Char) : Nat :=
  if '0' ≤ c ∧ c ≤ '9' then c.toNat - '0'.toNat
  else if 'a' ≤ c ∧ c ≤ 'f' then c.toNat - 'a'.toNat + 10 else 0

def unhex : List Char → List Char
  | a :: b :: c :: d :: rest => Char.ofNat (((hexVal a * 16 + hexVal b) * 16 + hexVal c) * 16 + hexVal d) :: unhex rest
  | _ => []

/-- one word of the forest encoding: the list under construction and the lists of the enclosing groups, innermost first -/
def forestStep (st : Option (List PP.Tree × List (List PP.Tree))) (w : String) : Option (List PP.Tree × List (List PP.Tree)) :=
  match st with
  | none => none
  | some (cur, stack) =>
    if w == "[" then some ([], cur :: stack)
    else if w == "]" then
      match stack with
      | [] => none
      | outer :: rest => some (outer ++ [.grp cur], rest)
    else
      match w.toList with
      | 'h' :: hex => if hex.length % 4 == 0 then some (cur ++ [.tok (String.ofList (unhex hex))], stack) else none
      | _ => none

def parseForest (s : String) : Option (List PP.Tree) :=
  match ((s.splitOn " ").filter (· ≠ "")).foldl forestStep (some ([], [])) with
  | some (cur, []) => some cur
  | _ => none

def showName (s : String) : String :=
  "\"" ++ String.join (s.toList.map (fun c =>
    if c == '\\' then "\\\\" else if c == '"' then "\\\"" else String.singleton c)) ++ "\""

def showRes (r : Except Err (List String × List Char)) : String :=
  match r with
  | .ok (se, ss) => "ok " ++ " ".intercalate (se.map showName) ++ " / " ++ String.ofList ss
  | .error (.fault k) => "err " ++ k
  | .error _ => "err other"

def stepKernel (line : String) : Option String :=
  match line.splitOn "\t" with
  | ["pykernel.resolve", enc] =>
    match parseForest enc with
    | none => some "bad-op"
    | some ts => some (showRes (Gen.py_resolve_kernel_loops ((enc.splitOn " ").length + 1) ts))
  | ["kernel.forest", enc] =>
    match parseForest enc with
    | none => some "bad-op"
    | some ts => some (showRes (resolveKernel ((enc.splitOn " ").length + 1) ts))
  | _ => none

end Dsd.DriverKernel
