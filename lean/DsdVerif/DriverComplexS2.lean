/-
Driver ops for the statement-level translations of `ComplexS.is_domainlevel_complement` and `ComplexS.split` (Gen/PyComplexS2.lean).
Stateless: every op builds its object with the translated `__init__` (`py_ComplexS_init`); `stepComplexS2` answers `none` for a line
that is not one of its ops.

  pyc2.dlc   <TAB> names <TAB> structure <TAB> turns <TAB> lens <TAB> k
        names: the elements of `_sequence` separated by blanks (domain names and '+'); lens: `name=length` separated by blanks (the
        PARAMETER `lenOf`; 0 for other names); `invert` is the name toggle of `DomainS.cname` keeping the length.
        k = `-`: the property once: `ok True|False` / `err …`.   k an int: the property, then `turns = k`, then the property again
        (cached tables of the previous rotation): `<first> | set ok|err … | <second>`.
  pyc2.split <TAB> names <TAB> structure <TAB> turns <TAB> table
        table: entries `names,structure,answer` separated by `;` - the PARAMETER `request` (first entry with these arguments; answer
        `h<n>`: the object n; `E`: SingletonError without `existing`; `Eh<n>`: SingletonError with the existing object n; no entry:
        fault `no-entry`).  Answer: `ok h.. h..` / `err …`.
-/
import DsdVerif.Gen.PyComplexS2

namespace Dsd.DriverComplexS2
open Dsd

def words (s : String) : List String := (s.splitOn " ").filter (· ≠ "")

def showErr : Err → String
  | .secondaryStructure => "err SecondaryStructureError"
  | .objectInit => "err ObjectInitError"
  | .singleton none => "err SingletonError existing=none"
  | .singleton (some h) => s!"err SingletonError existing=h{h}"
  | .notImplemented => "err NotImplementedError"
  | .assertion => "err AssertionError"
  | .fault k => "err " ++ k
  | _ => "err other"

def toggle (n : String) : String :=
  if n.toList.getLast? == some '*' then String.ofList n.toList.dropLast else n ++ "*"

def parseLens (s : String) : List (String × Nat) :=
  (words s).filterMap (fun w => match w.splitOn "=" with
    | [n, l] => l.toNat?.map (fun k => (n, k))
    | _ => none)

def lenOf (tbl : List (String × Nat)) (n : String) : Nat := (tbl.lookup n).getD 0

def invert (d : String × Nat) : Py.M (String × Nat) := pure (toggle d.1, d.2)

def showB (r : Except Err Bool) : String :=
  match r with
  | .ok true => "ok True"
  | .ok false => "ok False"
  | .error e => showErr e

def parseAns (a : String) : Option (Except Err Nat) :=
  match a.toList with
  | 'h' :: ds => (String.ofList ds).toNat?.map .ok
  | ['E'] => some (.error (.singleton none))
  | 'E' :: 'h' :: ds => (String.ofList ds).toNat?.map (fun n => .error (.singleton (some n)))
  | _ => none

def parseTable (s : String) : List ((List String × List Char) × Except Err Nat) :=
  (s.splitOn ";").filterMap (fun e => match e.splitOn "," with
    | [ns, sst, a] => (parseAns a).map (fun r => ((words ns, sst.toList), r))
    | _ => none)

def request (tbl : List ((List String × List Char) × Except Err Nat)) (seq : List String) (sst : List Char) : Py.M Nat :=
  match tbl.lookup (seq, sst) with
  | some r => r
  | none => throw (.fault "no-entry")

def stepComplexS2 (line : String) : Option String :=
  match line.splitOn "\t" with
  | ["pyc2.dlc", names, sst, turns, lens, k] =>
    match turns.toInt? with
    | none => some "bad-op"
    | some t =>
      let s0 := Gen.py_ComplexS_init (words names) sst.toList "X" t
      let m := Gen.py_ComplexS_is_domainlevel_complement (lenOf (parseLens lens)) invert
      let (r1, s1) := m.exec s0
      if k == "-" then some (showB r1)
      else match k.toInt? with
        | none => some "bad-op"
        | some kk =>
          let (r2, s2) := (Gen.py_ComplexS_set_turns kk).exec s1
          let (r3, _) := m.exec s2
          some (showB r1 ++ " | set " ++ (match r2 with | .ok _ => "ok" | .error e => showErr e) ++ " | " ++ showB r3)
  | ["pyc2.split", names, sst, turns, table] =>
    match turns.toInt? with
    | none => some "bad-op"
    | some t =>
      let s0 := Gen.py_ComplexS_init (words names) sst.toList "X" t
      let (r, _) := (Gen.py_ComplexS_split ((words names).length + 2) (request (parseTable table))).exec s0
      match r with
      | .ok hs => some ("ok" ++ String.join (hs.map (fun h => s!" h{h}")))
      | .error e => some (showErr e)
  | _ => none

end Dsd.DriverComplexS2
