/-
Stateful driver for the statement-level translation of `DomainS.identifiers` (Gen/PyDomain.lean) inside the whole request
`DomainS(name, length, prefix, dtype)`.

GENERATED parts used: `Gen.py_DomainS_identifiers` (translator/pydomain.py) and `Gen.py_Singleton_call` (translator/pysingleton.py).
HAND-WRITTEN here (the knot that the metaclass protocol ties; not generated): `requestPy` = `Singleton.__call__(cls, *args)` for this
class - call `identifiers` (whose nested `cls(…)` is `requestPy` with one level less fuel and both identities `tmp`), then the translated
`Singleton.__call__` body on the two dictionaries, then the attribute part of `DomainS.__init__` (`initObj`, transcribed by hand:
automatic name and `ID += 1`, default length from dtype, `_name`, `_length`) when the object was created; `~d` as the request
`cls(d.cname, d.length)`.

Ops (one per line, TAB separated; the protocol of harness/world.py for domains, class index 0 only):
  reset | cfg.dom 0 cutoff short long | mk.dom 0 name length prefix dtype | inv hN | drop hN | names
-/
import DsdVerif.Gen.PyDomain
import DsdVerif.Gen.PySingleton
import DsdVerif.Model.Objects

namespace Dsd.DriverDomain
open Dsd

structure DomainDState where
  cls : Py.Dom.Cls := {}
  cutoff : Nat := 8
  shortLen : Nat := 5
  longLen : Nat := 15
  pfx : String := "d"
  held : List (Nat × Nat) := []      -- handle ↦ object identity
  nextH : Nat := 0
  nextId : Nat := 0
deriving Repr

/-- run a method of the metaclass on the two dictionaries of the class -/
def zoom {α} (m : Py.SM (String × Nat) α) : Py.Dom.M α := do
  let s ← get
  let (r, reg') := Py.MS.exec m s.reg
  set { s with reg := reg' }
  match r with
  | .ok a => pure a
  | .error e => throw e

/-- the attribute part of `DomainS.__init__(self, name, length, prefix, dtype)` for the new object `id` (by hand) -/
def initObj (shortLen longLen : Nat) (pfx : String) (id : Nat) (q : Py.Dom.Req) : Py.Dom.M Unit := do
  let s ← get
  let name := match q.name with
    | some n => n
    | none => (q.prefix_.getD pfx) ++ toString s.ID
  let length := match q.length with
    | some l => some l
    | none => if q.dtype == some "short" then some shortLen else if q.dtype == some "long" then some longLen else none
  set { s with ID := if q.name.isNone then s.ID + 1 else s.ID, heap := s.heap ++ [(id, ({ _name := name, _length := length } : Py.Dom.Obj))] }

/-- `Singleton.__call__(cls, name, length, prefix, dtype)` for `cls = DomainS`; `fuel` bounds the nesting of requests -/
def requestPy (cutoff shortLen longLen : Nat) (pfx : String) : Nat → Nat → Nat → Py.Dom.Req → Py.Dom.M Nat
  | 0, _, _, _ => throw (.fault "RecursionError")
  | fuel + 1, fresh, tmp, q => do
    let (canon, name, kwadd) ← Gen.py_DomainS_identifiers (requestPy cutoff shortLen longLen pfx fuel tmp tmp) tmp
      cutoff shortLen longLen pfx q.name q.length q.prefix_ q.dtype
    -- kwargs.update(kwadd)
    let q' := match kwadd with
      | some l => { q with length := some l }
      | none => q
    match (← zoom (Gen.py_Singleton_call canon name fresh [])) with
    | some id =>
      if id == fresh then initObj shortLen longLen pfx id q'      -- created: `__init__` runs (before the registration in CPython;
      pure id                                                      -- the two do not interfere)
    | none => throw (.fault "translator:None")

def handleOf (d : DomainDState) (id : Nat) : Option Nat := (d.held.find? (fun p => p.2 == id)).map (·.1)

def showErr (d : DomainDState) : Err → String
  | .singleton none => "err SingletonError existing=none"
  | .singleton (some id) => "err SingletonError existing=" ++ (match handleOf d id with | some h => s!"h{h}" | none => "unknown")
  | .objectInit => "err ObjectInitError"
  | .fault k => "err Fault " ++ k
  | _ => "err other"

/-- a request made by the user: the object returned gets a handle (a new one iff it had none) -/
def userRequest (d : DomainDState) (q : Py.Dom.Req) : DomainDState × String :=
  let fresh := d.nextId
  let (r, cls') := Py.MS.exec (requestPy d.cutoff d.shortLen d.longLen d.pfx ((q.name.getD "").length + 8) fresh (fresh + 1) q) d.cls
  let d := { d with cls := cls', nextId := d.nextId + 2 }
  match r with
  | .error e => (d, showErr d e)
  | .ok id =>
    match handleOf d id with
    | some h => (d, s!"ret h{h} old")
    | none => ({ d with held := d.held ++ [(d.nextH, id)], nextH := d.nextH + 1 }, s!"ret h{d.nextH} new")

def opt (s : String) : Option String := if s == "-" || s == "N" then none else some s

def strLe (a b : String) : Bool := !(decide (b < a))

def stepDomain (d : DomainDState) (line : String) : Option (DomainDState × String) :=
  match line.splitOn "\t" with
  | ["reset"] => some ({}, "ok")
  | ["cfg.dom", "0", c, s, l] =>
    match c.toNat?, s.toNat?, l.toNat? with
    | some c, some s, some l => some ({ d with cutoff := c, shortLen := s, longLen := l }, "ok")
    | _, _, _ => some (d, "bad-op")
  | ["mk.dom", "0", name, len, pfx, dt] =>
    match (if len == "-" || len == "N" then some none else len.toNat?.map some) with
    | none => some (d, "bad-op")
    | some len => some (userRequest d { name := opt name, length := len, prefix_ := opt pfx, dtype := opt dt })
  | ["inv", h] =>
    match (h.drop 1).toNat?.bind (fun h => d.held.lookup h) with
    | none => some (d, "err Fault KeyError")
    | some id =>
      match d.cls.heap.lookup id with
      | none => some (d, "err Fault KeyError")
      | some o => some (userRequest d { name := some (cnameOf o._name), length := o._length })
  | ["drop", h] =>
    match (h.drop 1).toNat? with
    | none => some (d, "bad-op")
    | some h =>
      match d.held.lookup h with
      | none => some (d, "ok")
      | some id =>
        let (_, cls') := Py.MS.exec (Py.Dom.drop id) d.cls
        some ({ d with cls := cls', held := d.held.filter (fun p => p.1 != h) }, "ok")
  | ["names"] =>
    some (d, "names " ++ ",".intercalate ((d.cls.reg._instanceNames.map (·.1)).mergeSort strLe) ++ " canon " ++
      ",".intercalate (d.cls.reg._instanceCanon.map (fun p => p.1.1 ++ ":" ++ toString p.1.2)) ++ s!" ID {d.cls.ID}")
  | _ => none

end Dsd.DriverDomain
