/-
Stateless driver op for `ReactionS.reaction_string` / `__str__` as TRANSLATED from the source text (Gen/PyStrings.lean):

  pystr  <reactant names separated by blanks>  <product names>  <rtype: none | s:…>  <name: none | s:…>  <const: none | integer>  <units: none | s:…>

The opaque renderings are instantiated for the driver: `{:12s}` / `{:5s}` pad on the right, `{:10g}` of an INTEGER constant is its numeral padded
on the left to 10 (the stream sends integer constants only).  Answer: `ok <reaction_string>|<str>` or `err <exception class>`.
-/
import DsdVerif.Gen.PyStrings

namespace Dsd.DriverStrings
open Dsd

def words (s : String) : List String := (s.splitOn " ").filter (· ≠ "")
def parseOpt (s : String) : Option (Option String) :=
  if s == "none" then some none else match s.toList with | 's' :: ':' :: r => some (some (String.ofList r)) | _ => none
def ljust (n : Nat) (s : String) : String := s ++ String.ofList (List.replicate (n - s.length) ' ')
def rjust (n : Nat) (s : String) : String := String.ofList (List.replicate (n - s.length) ' ') ++ s
def fmt10 (q : Rat) : String := rjust 10 (toString q.num)

def stepStrings (line : String) : Option String :=
  match line.splitOn "\t" with
  | ["pystr", rs, ps, rtype, name, const, units] =>
    some (match parseOpt rtype, parseOpt name, parseOpt units with
    | some rtype, some name, some units =>
      let c : Option Rat := if const == "none" then none else (const.toInt?).map (fun (i : Int) => (i : Rat))
      let mem := fun (l : List String) => l.map (fun n => (n, MemKey.c ([], [])))
      let s : Gen.ReactionSStr.Self := { _reactants := mem (words rs), _products := mem (words ps), _rtype := rtype, _name := name, _const := c, _units := units }
      match ((Gen.py_ReactionSStr_reaction_string (ljust 12) (ljust 5) fmt10).exec s).1, (Gen.py_ReactionSStr___str__.exec s).1 with
      | .ok a, .ok b => "ok " ++ a ++ "|" ++ b
      | .error (.fault k), _ => "err " ++ k
      | _, _ => "err other"
    | _, _, _ => "bad-op")
  | _ => none

end Dsd.DriverStrings
