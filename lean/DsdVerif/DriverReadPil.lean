/-
Driver op for the statement-level translation of `read_pil` (Gen/PyReadPil.lean).  Stateless; `stepReadPil` answers `none` for other lines.

  pyreadpil.run <TAB> slots <TAB> sub <TAB> ignore <TAB> statements <TAB> table

slots: the five module globals (class numbers, `-` = None); sub: blank separated `a:b` = class a is class b or a subclass of it; ignore: `-`
(None) or a forest of strs; statements: what `parse_pil_string` returned, a forest whose items are the statements (encoding of DriverKernel);
table: the RECORDED outcomes of `read_pil_line`, in call order, `;` separated: `i|raw`, `i|err:Kind`, or
`i|obj:id,key,cls,name,rtype,seq` optionally `|comp:id,key,cls,name,rtype,seq|rwc:<hex>` / `|rwc:!` (KeyError) - `i` the index of the statement,
names / sequences as hex (`-` = None).  The object world `ω` of the translated loop is this table: `read_pil_line` pops the next outcome (the
statement must be the recorded one), `~obj` and `reverse_wc_complement` answer from the entry just popped.
Answer: `ok domains=…;strands=…;complexes=…;macrostates=…;det=…;con=…;other=…` (dict items `name:id:seq`, set elements ids, other: the raw lines) or `err Kind`.
-/
import DsdVerif.Gen.PyReadPil
import DsdVerif.DriverReaderFns

namespace Dsd.DriverReadPil
open Dsd DriverReaderFns

structure Entry where
  stmt : Nat
  out : Except Err Py.Val
  isRaw : Bool := false
  comp : Option Py.Obj := none
  rwc : Option (Except Err String) := none

structure World where
  stmts : List (List PP.Tree)
  rest : List Entry
  cur : Option Entry := none

def unhexS (h : String) : String := String.ofList (DriverKernel.unhex h.toList)
def optHex (w : String) : Option String := if w == "-" then none else some (unhexS w)

def parseObj (s : String) : Option Py.Obj :=
  match s.splitOn "," with
  | [i, k, c, n, r, q] =>
    match i.toNat?, k.toNat?, c.toNat? with
    | some i, some k, some c => some { id := i, key := k, cls := c, name := unhexS n, rtype := unhexS r, sequence := optHex q }
    | _, _, _ => none
  | _ => none

def parseEntry (s : String) : Option Entry :=
  match s.splitOn "|" with
  | i :: kind :: more =>
    match i.toNat? with
    | none => none
    | some i =>
      if kind == "raw" then some { stmt := i, out := .ok (.raw []), isRaw := true }
      else if kind.startsWith "err:" then some { stmt := i, out := .error (.fault (kind.drop 4).toString) }
      else if kind.startsWith "obj:" then
        match parseObj (kind.drop 4).toString with
        | none => none
        | some o =>
          let comp := more.findSome? (fun m => if m.startsWith "comp:" then parseObj (m.drop 5).toString else none)
          let rwc := more.findSome? (fun m => if m.startsWith "rwc:" then
            some (if (m.drop 4).toString == "!" then .error (.fault "KeyError") else .ok (unhexS (m.drop 4).toString)) else none)
          some { stmt := i, out := .ok (.obj o), comp := comp, rwc := rwc }
      else none
  | _ => none

def fault {α} (k : String) : ReadPil.M World α := throw (.fault k)

def envOf (g : Gen.objectio.Globals) (sub : List (Nat × Nat)) : ReadPil.Env World where
  g := g
  sub := fun a b => sub.contains (a, b)
  parse_pil_file := fun _ => do return (← get).stmts
  parse_pil_string := fun _ => do return (← get).stmts
  read_pil_line := fun line => do
    let w ← get
    match w.rest with
    | [] => fault "oracle:exhausted"
    | e :: rest =>
      if (w.stmts[e.stmt]?.map encForest) != some (encForest line) then fault "oracle:other-statement" else
      set { w with rest := rest, cur := some e }
      match e.out with
      | .error err => throw err
      | .ok v => return (if e.isRaw then .raw line else v)
  invert := fun o => do
    match (← get).cur with
    | some { out := .ok (.obj o'), comp := some c, .. } => if o'.id == o.id then return c else fault "oracle:invert"
    | _ => fault "oracle:invert"
  reverse_wc_complement := fun _ => do
    match (← get).cur with
    | some { rwc := some (.ok s), .. } => return s
    | some { rwc := some (.error e), .. } => throw e
    | _ => fault "oracle:rwc"

def showVal : Py.Val → String
  | .obj o => toString o.id ++ ":" ++ (match o.sequence with | none => "-" | some s => hexStr s)
  | .raw l => "r" ++ encForest l

def showDict (d : List (String × Py.Val)) : String := ",".intercalate (d.map (fun p => hexStr p.1 ++ ":" ++ showVal p.2))
def showSet (d : List Py.Val) : String :=
  ",".intercalate (d.map (fun v => match v with | .obj o => toString o.id | .raw l => "r" ++ encForest l))

def showOut (o : Gen.read_pil.Out) : String :=
  "ok domains=" ++ showDict o.domains ++ ";strands=" ++ showDict o.strands ++ ";complexes=" ++ showDict o.complexes ++
  ";macrostates=" ++ showDict o.macrostates ++ ";det=" ++ showSet o.det_reactions ++ ";con=" ++ showSet o.con_reactions ++
  ";other=" ++ showSet o.other

def parsePair (s : String) : Option (Nat × Nat) :=
  match s.splitOn ":" with
  | [a, b] => match a.toNat?, b.toNat? with | some a, some b => some (a, b) | _, _ => none
  | _ => none

def stepReadPil (line : String) : Option String :=
  match line.splitOn "\t" with
  | ["pyreadpil.run", slots, sub, ign, stmts, table] =>
    match parse5 slots, ((sub.splitOn " ").filter (· ≠ "")).mapM parsePair, DriverKernel.parseForest stmts,
          ((table.splitOn ";").filter (· ≠ "")).mapM parseEntry, (if ign == "-" then some none else (parseStrs ign).map some) with
    | some [g0, g1, g2, g3, g4], some sub, some forest, some entries, some ignore =>
      let stmts := forest.map (fun t => match t with | .grp l => l | .tok s => [.tok s])
      match (Gen.py_read_pil (envOf ⟨g0, g1, g2, g3, g4⟩ sub) "" false ignore).run { stmts := stmts, rest := entries } with
      | .ok (o, w) => some (showOut o ++ (if w.rest.isEmpty then "" else " unused-outcomes"))
      | .error (.fault k) => some ("err " ++ k)
      | .error .pilFormat => some "err PilFormatError"
      | .error .assertion => some "err AssertionError"
      | .error _ => some "err other"
    | _, _, _, _, _ => some "bad-op"
  | _ => none

end Dsd.DriverReadPil
