/- C05 — theorems are being added. -/
import DsdVerif.Model.World
