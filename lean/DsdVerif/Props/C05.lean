/- C05 — object lifetime on the reference-graph model: theorems are in Props/C05World.lean (requests, drops, views)
   and Props/C05Reader.lean (everything a read document built is released with its dictionary). -/
import DsdVerif.Props.C05World
import DsdVerif.Props.C05Reader
