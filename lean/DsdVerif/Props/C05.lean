/- C05 — object lifetime on the reference-graph model: theorems are in Props/C05World.lean. -/
import DsdVerif.Props.C05World
