import DsdVerif.Model.World
import DsdVerif.Props.C01Reg
import DsdVerif.Lemmas.Domain

namespace Dsd.C04
open Dsd

/-- names as the library uses them: non-empty, at most one trailing `*` -/
def WellNamed (n : String) : Prop := n ≠ "" ∧ (isStarred n = true → isStarred (cnameOf n) = false)

/-- domain registry invariant: the generic registry invariant, every object is registered under exactly
    `(name, length)`, names are well-formed, and **a domain and its complement always have equal length** -/
structure DomWF (r : Reg DKey) : Prop where
  wf : C01.WF r
  shape : ∀ o ∈ r.objs, o.canon.1 = o.name ∧ o.keys = [o.canon] ∧ WellNamed o.name
  compl : ∀ a ∈ r.objs, ∀ b ∈ r.objs, b.name = cnameOf a.name → a.canon.2 = b.canon.2

theorem domwf_init : DomWF ({} : Reg DKey) := by
  refine ⟨C01.wf_init, ?_, ?_⟩
  · intro o ho; simp at ho
  · intro a ha; simp at ha

/-- registering a fresh object under free name and keys preserves the generic invariant -/
theorem wf_register {κ : Type} [DecidableEq κ] (r : Reg κ) (h : C01.WF r) (n : String) (k : κ) (fresh : Nat)
    (keys : List κ) (auto : Bool) (hfresh : ∀ o ∈ r.objs, o.id ≠ fresh) (hk : k ∈ keys)
    (hn : r.findName n = none) (hks : ∀ k' ∈ keys, r.findCanon k' = none) :
    C01.WF (r.register { id := fresh, name := n, canon := k, keys := keys } auto) := by
  have hc : r.call (some k) (some n) fresh keys auto =
      (r.register { id := fresh, name := n, canon := k, keys := keys } auto, .ret fresh true) := by
    simp [Reg.call, Reg.decide, hn, hks k hk]
  have := C01.wf_call r h (some k) (some n) fresh keys auto hfresh
    (by intro k' e; cases e; exact hk) (fun _ => hks)
  rw [hc] at this; exact this

theorem wellNamed_cname (n : String) (h : WellNamed n) (hne : cnameOf n ≠ "") : WellNamed (cnameOf n) := by
  refine ⟨hne, ?_⟩
  intro hs
  rw [DomL.cname_cname n h.2]
  cases hn : isStarred n with
  | false => rfl
  | true => rw [h.2 hn] at hs; cases hs

/-- `domwf_request` with the weakest naming hypothesis: the name only matters when it is non-empty -/
theorem domwf_request_aux (cfg : DomCfg) (r : Reg DKey) (fresh : Nat) (q : DomReq) (h : DomWF r)
    (hfresh : ∀ o ∈ r.objs, o.id ≠ fresh)
    (hWN : DomL.effName cfg r q ≠ "" → WellNamed (DomL.effName cfg r q)) :
    DomWF (domainRequest cfg r fresh q).1 := by
  rcases DomL.domainRequest_spec cfg r fresh q with ⟨h1, _⟩ | ⟨L, hreq, hne, hfn, hfc, hpart, _, _⟩
  · rw [h1]; exact h
  · rw [hreq]
    have hW := hWN hne
    generalize DomL.effName cfg r q = nm at *
    refine ⟨?_, ?_, ?_⟩
    · apply wf_register r h.wf nm (nm, L) fresh _ _ hfresh (by simp) hfn
      intro k' hk'; simp only [List.mem_singleton] at hk'; subst hk'; exact hfc
    · intro o ho
      simp only [Reg.register, List.mem_append, List.mem_singleton] at ho
      rcases ho with ho | rfl
      · exact h.shape o ho
      · exact ⟨rfl, rfl, hW⟩
    · intro a ha b hb hab
      simp only [Reg.register, List.mem_append, List.mem_singleton] at ha hb
      rcases ha with ha | rfl <;> rcases hb with hb | rfl
      · exact h.compl a ha b hb hab
      · simp only at hab ⊢
        have hcc : cnameOf nm = a.name := by
          rw [hab]; exact DomL.cname_cname a.name (h.shape a ha).2.2.2
        have hfa := (C01.wf_lookup r h.wf a ha).1
        rw [← hcc] at hfa
        exact hpart a hfa
      · simp only at hab ⊢
        have hfb := (C01.wf_lookup r h.wf b hb).1
        rw [hab] at hfb
        exact (hpart b hfb).symm
      · rfl

/-- a request (any name / length / prefix / dtype) preserves the invariant -/
theorem domwf_request (cfg : DomCfg) (r : Reg DKey) (fresh : Nat) (q : DomReq) (h : DomWF r)
    (hfresh : ∀ o ∈ r.objs, o.id ≠ fresh)
    (hname : ∀ n, q.name = some n → WellNamed n)
    (hpfx : q.name = none → WellNamed ((q.prefix_.getD cfg.prefix_) ++ toString r.autoId)) :
    DomWF (domainRequest cfg r fresh q).1 := by
  apply domwf_request_aux cfg r fresh q h hfresh
  intro _
  unfold DomL.effName
  cases hq : q.name with
  | none => exact hpfx hq
  | some n => exact hname n hq

theorem domwf_drop (r : Reg DKey) (h : DomWF r) (id : Nat) : DomWF (r.drop id) := by
  refine ⟨C01.wf_drop r h.wf id, ?_, ?_⟩
  · intro o ho
    exact h.shape o (List.mem_filter.mp ho).1
  · intro a ha b hb
    exact h.compl a (List.mem_filter.mp ha).1 b (List.mem_filter.mp hb).1

inductive DOp
  | request (fresh : Nat) (q : DomReq)
  | invert (fresh : Nat) (id : Nat)
  | drop (id : Nat)

def dstep (cfg : DomCfg) (r : Reg DKey) : DOp → Reg DKey
  | .request f q => (domainRequest cfg r f q).1
  | .invert f id => (domainInvert cfg r f id).1
  | .drop id => r.drop id

def DAdm (cfg : DomCfg) (r : Reg DKey) : DOp → Prop
  | .request f q => (∀ o ∈ r.objs, o.id ≠ f) ∧ (∀ n, q.name = some n → WellNamed n) ∧
      (q.name = none → WellNamed ((q.prefix_.getD cfg.prefix_) ++ toString r.autoId))
  | .invert f _ => ∀ o ∈ r.objs, o.id ≠ f
  | .drop _ => True

def DAdmFrom (cfg : DomCfg) (r : Reg DKey) : List DOp → Prop
  | [] => True
  | op :: rest => DAdm cfg r op ∧ DAdmFrom cfg (dstep cfg r op) rest

theorem domwf_invert (cfg : DomCfg) (r : Reg DKey) (h : DomWF r) (fresh : Nat) (id : Nat)
    (hfresh : ∀ o ∈ r.objs, o.id ≠ fresh) : DomWF (domainInvert cfg r fresh id).1 := by
  unfold domainInvert
  cases hf : r.findId id with
  | none => exact h
  | some o =>
    simp only
    have ho : o ∈ r.objs := by
      unfold Reg.findId at hf; exact List.mem_of_find?_eq_some hf
    apply domwf_request_aux cfg r fresh _ h hfresh
    intro hne
    exact wellNamed_cname o.name (h.shape o ho).2.2 hne

theorem domwf_steps (cfg : DomCfg) (ops : List DOp) :
    ∀ r : Reg DKey, DomWF r → DAdmFrom cfg r ops → DomWF (ops.foldl (dstep cfg) r) := by
  induction ops with
  | nil => intro r h _; exact h
  | cons op rest ih =>
    intro r h hadm
    obtain ⟨h1, h2⟩ := hadm
    simp only [List.foldl_cons]
    apply ih _ _ h2
    cases op with
    | request f q => exact domwf_request cfg r f q h h1.1 h1.2.1 h1.2.2
    | invert f id => exact domwf_invert cfg r h f id h1
    | drop id => exact domwf_drop r h id

/-- **No sequence of requests can make a domain and its complement coexist with different lengths.** -/
theorem complement_lengths_agree (cfg : DomCfg) (ops : List DOp) (hadm : DAdmFrom cfg {} ops) :
    DomWF (ops.foldl (dstep cfg) {}) := by
  exact domwf_steps cfg ops {} domwf_init hadm

/- ORIGINAL STATEMENT (false for a live domain named "*": `WellNamed "*"` holds, `cnameOf "*" = ""`, and a
   request with an empty name faults with IndexError instead of raising SingletonError; see the
   counterexample below):

theorem conflict_raises (cfg : DomCfg) (r : Reg DKey) (h : DomWF r) (fresh : Nat) (a : Obj DKey) (ha : a ∈ r.objs)
    (l : Nat) (hl : l ≠ a.canon.2) (dt : Option DType)
    (hdt : ∀ d, dt = some d → ((d == .short) == decide (l ≤ cfg.cutoff)) = true) :
    ∃ e, domainRequest cfg r fresh { name := some (cnameOf a.name), length := some l, dtype := dt } = (r, .singletonErr e)
-/

/-- the registry used in the counterexamples: a single live domain named `*` -/
def starReg : Reg DKey := { objs := [{ id := 0, name := "*", canon := ("*", 5), keys := [("*", 5)] }] }

theorem starReg_domwf : DomWF starReg := by
  refine ⟨by constructor <;> simp [starReg], ?_, ?_⟩
  · intro o ho
    simp only [starReg, List.mem_singleton] at ho; subst ho
    exact ⟨rfl, rfl, by decide, by decide⟩
  · intro a ha b hb
    simp only [starReg, List.mem_singleton] at ha hb; subst ha; subst hb
    decide

/-- counterexample to the original `conflict_raises` and `invert_involutive` -/
example : (domainRequest {} starReg 1 { name := some (cnameOf "*"), length := some 7 }).2 = .fault "IndexError" ∧
    (domainInvert {} starReg 1 0).2 = .fault "IndexError" := by decide

/-- whichever of the two exists first, the conflicting request raises SingletonError and changes nothing.
    CORRECTED: added `hstar : a.name ≠ "*"` (the complement name must be non-empty). -/
theorem conflict_raises (cfg : DomCfg) (r : Reg DKey) (h : DomWF r) (fresh : Nat) (a : Obj DKey) (ha : a ∈ r.objs)
    (hstar : a.name ≠ "*")
    (l : Nat) (hl : l ≠ a.canon.2) (dt : Option DType)
    (hdt : ∀ d, dt = some d → ((d == .short) == decide (l ≤ cfg.cutoff)) = true) :
    ∃ e, domainRequest cfg r fresh { name := some (cnameOf a.name), length := some l, dtype := dt } = (r, .singletonErr e) := by
  refine ⟨none, ?_⟩
  rw [DomL.domainRequest_eq]
  have hne : cnameOf a.name ≠ "" := DomL.cname_ne_empty a.name hstar
  have he : DomL.effName cfg r { name := some (cnameOf a.name), length := some l, dtype := dt } = cnameOf a.name := rfl
  have hlen : DomL.lengthOf cfg { name := some (cnameOf a.name), length := some l, dtype := dt } = .ok (some l) := by
    cases dt with
    | none => rfl
    | some d => simp [DomL.lengthOf, hdt d rfl]
  rw [he, hlen]
  have hemp : (cnameOf a.name).isEmpty = false := by simpa using hne
  simp only [hemp, Bool.false_eq_true, if_false]
  unfold DomL.domTail
  simp only
  rw [DomL.cname_cname a.name (h.shape a ha).2.2.2, (C01.wf_lookup r h.wf a ha).1]
  simp only [ne_eq, ite_not]
  rw [if_neg (fun e => hl e.symm)]

/-- requesting a live domain by its own name and length returns it -/
theorem request_live (cfg : DomCfg) (r : Reg DKey) (h : DomWF r) (fresh : Nat) (o : Obj DKey) (ho : o ∈ r.objs) :
    domainRequest cfg r fresh { name := some o.name, length := some o.canon.2 } = (r, .ret o.id false) := by
  rw [DomL.domainRequest_eq]
  have he : DomL.effName cfg r { name := some o.name, length := some o.canon.2 } = o.name := rfl
  have hlen : DomL.lengthOf cfg { name := some o.name, length := some o.canon.2 } = .ok (some o.canon.2) := rfl
  obtain ⟨hs1, hs2, hs3⟩ := h.shape o ho
  have hemp : o.name.isEmpty = false := by simpa using hs3.1
  have hcanon : (o.name, o.canon.2) = o.canon := by rw [← hs1]
  have hcall : r.call (some (o.name, o.canon.2)) (some o.name) fresh [(o.name, o.canon.2)] false =
      (r, .ret o.id false) :=
    C01.consistent_returns_same r h.wf o ho _ (by rw [hs2, hcanon]; simp) fresh _ false
  rw [he, hlen]
  simp only [hemp, Bool.false_eq_true, if_false]
  unfold DomL.domTail
  simp only
  cases hb : r.findName (cnameOf o.name) with
  | none => exact hcall
  | some b =>
    obtain ⟨hb1, hb2⟩ := Reg.findName_some r _ b hb
    have := h.compl o ho b hb1 hb2
    simp only [ne_eq, ite_not]
    rw [if_pos this.symm]
    exact hcall

theorem invert_aux (cfg : DomCfg) (r : Reg DKey) (h : DomWF r) (fresh : Nat) (o : Obj DKey) (ho : o ∈ r.objs)
    (hstar : o.name ≠ "*") (hfresh : ∀ x ∈ r.objs, x.id ≠ fresh) :
    ∃ r1 id1 c o1, domainInvert cfg r fresh o.id = (r1, .ret id1 c) ∧
      o1 ∈ r1.objs ∧ o1.id = id1 ∧ o1.name = cnameOf o.name ∧ o1.canon.2 = o.canon.2 ∧
      (c = true ↔ r.findName (cnameOf o.name) = none) ∧
      ∀ fresh', domainInvert cfg r1 fresh' id1 = (r1, .ret o.id false) := by
  have hfid : r.findId o.id = some o := (C01.wf_lookup r h.wf o ho).2.2.2
  have hinv : domainInvert cfg r fresh o.id =
      domainRequest cfg r fresh { name := some (cnameOf o.name), length := some o.canon.2 } := by
    simp [domainInvert, hfid]
  obtain ⟨hs1, hs2, hs3⟩ := h.shape o ho
  have hcc : cnameOf (cnameOf o.name) = o.name := DomL.cname_cname o.name hs3.2
  have hne : cnameOf o.name ≠ "" := DomL.cname_ne_empty o.name hstar
  -- the second inversion, in any well-formed registry containing both
  have back : ∀ (r1 : Reg DKey) (o1 : Obj DKey), DomWF r1 → o ∈ r1.objs → o1 ∈ r1.objs →
      o1.name = cnameOf o.name → o1.canon.2 = o.canon.2 →
      ∀ fresh', domainInvert cfg r1 fresh' o1.id = (r1, .ret o.id false) := by
    intro r1 o1 h1 ho' ho1 hn1 hl1 fresh'
    have hfid1 : r1.findId o1.id = some o1 := (C01.wf_lookup r1 h1.wf o1 ho1).2.2.2
    simp only [domainInvert, hfid1]
    rw [hn1, hcc, hl1]
    exact request_live cfg r1 h1 fresh' o ho'
  cases hb : r.findName (cnameOf o.name) with
  | some b =>
    obtain ⟨hb1, hb2⟩ := Reg.findName_some r _ b hb
    have hlen := h.compl o ho b hb1 hb2
    refine ⟨r, b.id, false, b, ?_, hb1, rfl, hb2, hlen.symm, by simp, ?_⟩
    · rw [hinv, ← hb2, hlen]
      exact request_live cfg r h fresh b hb1
    · exact back r b h ho hb1 hb2 hlen.symm
  | none =>
    have hfc : r.findCanon (cnameOf o.name, o.canon.2) = none := by
      cases hc : r.findCanon (cnameOf o.name, o.canon.2) with
      | none => rfl
      | some oc =>
        exfalso
        obtain ⟨hc1, hc2⟩ := Reg.findCanon_some r _ oc hc
        obtain ⟨t1, t2, _⟩ := h.shape oc hc1
        rw [t2, List.mem_singleton] at hc2
        have : oc.name = cnameOf o.name := by rw [← t1, ← hc2]
        exact Reg.findName_none r _ hb oc hc1 this
    have hreq : domainRequest cfg r fresh { name := some (cnameOf o.name), length := some o.canon.2 } =
        (r.register { id := fresh, name := cnameOf o.name, canon := (cnameOf o.name, o.canon.2),
                      keys := [(cnameOf o.name, o.canon.2)] } false, .ret fresh true) := by
      rw [DomL.domainRequest_eq]
      have he : DomL.effName cfg r { name := some (cnameOf o.name), length := some o.canon.2 } = cnameOf o.name := rfl
      have hlen : DomL.lengthOf cfg { name := some (cnameOf o.name), length := some o.canon.2 } =
          .ok (some o.canon.2) := rfl
      have hemp : (cnameOf o.name).isEmpty = false := by simpa using hne
      rw [he, hlen]
      simp only [hemp, Bool.false_eq_true, if_false]
      unfold DomL.domTail
      simp only
      rw [hcc, (C01.wf_lookup r h.wf o ho).1]
      simp [Reg.call, Reg.decide, hb, hfc]
    have hwf1 : DomWF (r.register
        { id := fresh, name := cnameOf o.name, canon := (cnameOf o.name, o.canon.2), keys := [(cnameOf o.name, o.canon.2)] }
        false) := by
      have := domwf_invert cfg r h fresh o.id hfresh
      rw [hinv, hreq] at this; exact this
    refine ⟨r.register
        { id := fresh, name := cnameOf o.name, canon := (cnameOf o.name, o.canon.2), keys := [(cnameOf o.name, o.canon.2)] }
        false, fresh, true,
      { id := fresh, name := cnameOf o.name, canon := (cnameOf o.name, o.canon.2), keys := [(cnameOf o.name, o.canon.2)] },
      ?_, ?_, rfl, rfl, rfl, by simp, ?_⟩
    · rw [hinv, hreq]
    · simp [Reg.register]
    · exact back _ _ hwf1 (List.mem_append_left _ ho) (List.mem_append_right _ (List.mem_singleton.mpr rfl)) rfl rfl

/- ORIGINAL STATEMENT (false for `o.name = "*"`, same counterexample `starReg` as above: `~d` faults with
   IndexError because the complement's name would be empty):

theorem invert_involutive (cfg : DomCfg) (r : Reg DKey) (h : DomWF r) (fresh : Nat) (o : Obj DKey) (ho : o ∈ r.objs)
    (hfresh : ∀ x ∈ r.objs, x.id ≠ fresh) :
    ∃ id1 c o1, domainInvert cfg r fresh o.id = ((domainInvert cfg r fresh o.id).1, .ret id1 c) ∧ …
-/

/-- `~d` returns the live domain whose name toggles the trailing `*` and whose length is that of `d`,
    creating it if necessary, and `~~d is d`.
    CORRECTED: added `hstar : o.name ≠ "*"`. -/
theorem invert_involutive (cfg : DomCfg) (r : Reg DKey) (h : DomWF r) (fresh : Nat) (o : Obj DKey) (ho : o ∈ r.objs)
    (hstar : o.name ≠ "*")
    (hfresh : ∀ x ∈ r.objs, x.id ≠ fresh) :
    ∃ id1 c o1, domainInvert cfg r fresh o.id = ((domainInvert cfg r fresh o.id).1, .ret id1 c) ∧
      o1 ∈ (domainInvert cfg r fresh o.id).1.objs ∧ o1.id = id1 ∧ o1.name = cnameOf o.name ∧ o1.canon.2 = o.canon.2 ∧
      (c = true ↔ r.findName (cnameOf o.name) = none) ∧
      ∀ fresh', domainInvert cfg (domainInvert cfg r fresh o.id).1 fresh' id1 = ((domainInvert cfg r fresh o.id).1, .ret o.id false) := by
  obtain ⟨r1, id1, c, o1, hEq, h1, h2, h3, h4, h5, h6⟩ := invert_aux cfg r h fresh o ho hstar hfresh
  rw [hEq]
  exact ⟨id1, c, o1, rfl, h1, h2, h3, h4, h5, h6⟩

/-- dtype is `short` exactly when the length is at most the class cutoff -/
theorem dtype_rule (cfg : DomCfg) (len : Nat) : cfg.dtypeOf len = .short ↔ len ≤ cfg.cutoff := by
  unfold DomCfg.dtypeOf
  split <;> simp_all

/- ORIGINAL STATEMENT (false when `fresh` is already the identity of a live object: `findId` then finds the old
   object; counterexample below):

theorem dtype_default_lengths (cfg : DomCfg) (r : Reg DKey) (fresh : Nat) (n : String) (d : DType) (id : Nat)
    (h : (domainRequest cfg r fresh { name := some n, dtype := some d }).2 = .ret id true) :
    ((domainRequest cfg r fresh { name := some n, dtype := some d }).1.findId id).map (·.canon) =
      some (n, match d with | .short => cfg.shortLen | .long => cfg.longLen)
-/

/-- counterexample to the original `dtype_default_lengths`: identity 1 is in use -/
example :
    let r : Reg DKey := { objs := [{ id := 1, name := "x", canon := ("x", 3), keys := [("x", 3)] }] }
    (domainRequest {} r 1 { name := some "a", dtype := some .short }).2 = .ret 1 true ∧
    ((domainRequest {} r 1 { name := some "a", dtype := some .short }).1.findId 1).map (·.canon) = some ("x", 3) := by
  decide

/-- dtype-only requests receive the class default lengths.
    CORRECTED: added `hfresh` (the new object's identity is unused). -/
theorem dtype_default_lengths (cfg : DomCfg) (r : Reg DKey) (fresh : Nat) (n : String) (d : DType) (id : Nat)
    (hfresh : ∀ o ∈ r.objs, o.id ≠ fresh)
    (h : (domainRequest cfg r fresh { name := some n, dtype := some d }).2 = .ret id true) :
    ((domainRequest cfg r fresh { name := some n, dtype := some d }).1.findId id).map (·.canon) =
      some (n, match d with | .short => cfg.shortLen | .long => cfg.longLen) := by
  rcases DomL.domainRequest_spec cfg r fresh { name := some n, dtype := some d } with
    ⟨_, h2⟩ | ⟨L, hreq, _, _, _, _, _, hL⟩
  · exact absurd h (h2 id)
  · rw [hreq] at h ⊢
    have hid : id = fresh := by simpa using h.symm
    subst hid
    have hL' : L = DomL.defLen cfg d := hL rfl d rfl
    have hnone : List.find? (fun o => o.id == id) r.objs = none := by
      rw [List.find?_eq_none]
      intro o ho; simpa using hfresh o ho
    simp only [Reg.register, Reg.findId]
    rw [RegL.find?_append_none _ _ _ hnone]
    simp only [beq_self_eq_true, if_true, Option.map_some, hL']
    cases d <;> rfl

/-- a request with contradictory dtype and length is rejected with ObjectInitError, nothing changes -/
theorem dtype_length_contradiction (cfg : DomCfg) (r : Reg DKey) (fresh : Nat) (q : DomReq) (l : Nat) (d : DType)
    (hl : q.length = some l) (hd : q.dtype = some d) (hc : ((d == .short) == decide (l ≤ cfg.cutoff)) = false)
    (hn : ∀ n, q.name = some n → n ≠ "") (hp : q.name = none → (q.prefix_.getD cfg.prefix_) ++ toString r.autoId ≠ "") :
    domainRequest cfg r fresh q = (r, .objectInitErr) := by
  rw [DomL.domainRequest_eq]
  have hne : DomL.effName cfg r q ≠ "" := by
    unfold DomL.effName
    cases hq : q.name with
    | none => exact hp hq
    | some n => exact hn n hq
  have hemp : (DomL.effName cfg r q).isEmpty = false := by simpa using hne
  have hlen : DomL.lengthOf cfg q = .error () := by
    simp [DomL.lengthOf, hl, hd, hc]
  rw [hlen]
  simp [hemp]

/-- non-vacuity: `a` (7) is live; `a*` with length 10 is refused, `a*` without length is created with length 7 -/
example :
    let r : Reg DKey := (domainRequest {} {} 0 { name := some "a", length := some 7 }).1
    (domainRequest {} r 1 { name := some "a*", length := some 10 }).2 = .singletonErr none ∧
    (domainRequest {} r 1 { name := some "a*" }).2 = .ret 1 true := by decide

end Dsd.C04
