import DsdVerif.Gen.PyFuncs
import DsdVerif.Lemmas.PyMakePairTable
import DsdVerif.Lemmas.PyPtToDb
import DsdVerif.Lemmas.PyRotateOnce
import DsdVerif.Lemmas.PyMakeLoopIndex
import DsdVerif.Lemmas.PySplit
import DsdVerif.Lemmas.PyRotatePt
import DsdVerif.Lemmas.PyStrandTable
import DsdVerif.Lemmas.PyDb
import DsdVerif.Props.C08Loop
import DsdVerif.Props.C09Split
import DsdVerif.Props.C06
import DsdVerif.Props.C07Rot

/-!
The loop algorithms of `dsdobjects/complex_utils.py` as they are written in the working tree — `Gen/PyFuncs.lean` is
regenerated from the source text, statement by statement, on every run (translator/pyfunc.py) — compute exactly what the
hand-written model computes, for EVERY input.  A change of one statement of `make_pair_table`, `pair_table_to_dot_bracket`,
`make_loop_index` or `rotate_complex_once` changes the generated definition and re-opens these obligations; the property theorems of C06 / C07
are then transferred to the source-derived functions below, so they are statements about the code as written and not only
about a model that was compared with it on samples.
-/
namespace Dsd.PyFuncs
open Dsd Dsd.Gen Dsd.Bracket

/-- `make_pair_table` as written in the source (default `ignore`) is the model's `makePairTable`:
    every text, every break character, results and error kinds -/
theorem py_make_pair_table_eq (ss : List Char) (brk : Char) :
    py_make_pair_table ss brk ['.'] = makePairTable ss brk := PyEq.make_pair_table_eq ss brk

/-- `pair_table_to_dot_bracket` as written in the source never raises and is the model's `ptToDb`, for every table -/
theorem py_pair_table_to_dot_bracket_eq (pt : PairTable) (brk : Char) (join : Bool) :
    py_pair_table_to_dot_bracket pt brk join = .ok (ptToDb pt brk) := PyEq.pair_table_to_dot_bracket_eq pt brk join

/-- `rotate_complex_once` as written in the source is the model's `rotateOnce` whenever sequence and structure are
    equally long (what `ComplexS.identifiers` checks before it rotates) -/
theorem py_rotate_complex_once_eq (seq : List String) (sst : List Char) (h : seq.length = sst.length) :
    py_rotate_complex_once seq sst = rotateOnce seq sst := PyEq.rotate_complex_once_eq seq sst h

/-! ### C06 on the source-derived functions -/

/-- the source's `make_pair_table` rejects a text with SecondaryStructureError exactly when it is not well-formed
    (unknown character or unbalanced brackets; `WellFormed` is the independent height-counting definition) -/
theorem py_mpt_rejects_iff (ss : List Char) (brk : Char) :
    py_make_pair_table ss brk ['.'] = .error .secondaryStructure ↔ ¬ C06.WellFormed ss brk := by
  rw [py_make_pair_table_eq]; exact C06.mpt_rejects_iff ss brk

/-- … and it raises nothing else -/
theorem py_mpt_error_kind (ss : List Char) (brk : Char) (e : Err)
    (h : py_make_pair_table ss brk ['.'] = .error e) : e = .secondaryStructure := by
  rw [py_make_pair_table_eq] at h; exact C06.mpt_error_kind ss brk e h

/-- it returns a table exactly for the well-formed texts -/
theorem py_mpt_accepts_iff (ss : List Char) (brk : Char) :
    (∃ pt, py_make_pair_table ss brk ['.'] = .ok pt) ↔ C06.WellFormed ss brk := by
  rw [py_make_pair_table_eq]; exact C06.mpt_accepts_iff ss brk

/-- the table it returns has the shape of the text -/
theorem py_mpt_shape (ss : List Char) (brk : Char) (pt : PairTable) (h : py_make_pair_table ss brk ['.'] = .ok pt) :
    pt.map List.length = (splitOn brk ss).map List.length := by
  rw [py_make_pair_table_eq] at h; exact C06.mpt_shape ss brk pt h

/-- **exact round trip of the two source-derived functions**: for a text without empty strands,
    `pair_table_to_dot_bracket(make_pair_table(ss))` is `ss` -/
theorem py_db_of_mpt (ss : List Char) (brk : Char) (pt : PairTable) (join : Bool)
    (h : py_make_pair_table ss brk ['.'] = .ok pt) (hne : ∀ s ∈ splitOn brk ss, s ≠ []) :
    py_pair_table_to_dot_bracket pt brk join = .ok ss := by
  rw [py_make_pair_table_eq] at h
  rw [py_pair_table_to_dot_bracket_eq, C06.db_of_mpt ss brk pt h hne]

/-! ### C08 on the source-derived loop index -/

/-- `make_loop_index` as written in the source is the model's `makeLoopIndex` (both result modes, error kinds) on every
    pair table that `make_pair_table` returns -/
theorem py_make_loop_index_eq (ss : List Char) (brk : Char) (pt : PairTable) (h : makePairTable ss brk = .ok pt)
    (components : Bool) :
    py_make_loop_index pt components = (makeLoopIndex pt components).map PyEq.loopOutPy :=
  PyEq.make_loop_index_eq ss brk pt h components

/-- … hence on every table the SOURCE's `make_pair_table` returns: the two source-derived functions composed -/
theorem py_loop_index_of_py_pair_table (ss : List Char) (brk : Char) (pt : PairTable)
    (h : py_make_pair_table ss brk ['.'] = .ok pt) (components : Bool) :
    py_make_loop_index pt components = (makeLoopIndex pt components).map PyEq.loopOutPy := by
  rw [py_make_pair_table_eq] at h
  exact py_make_loop_index_eq ss brk pt h components

/-- in components mode the source's `make_loop_index` never raises on a table of `make_pair_table` -/
theorem py_loop_index_components_total (ss : List Char) (brk : Char) (pt : PairTable)
    (h : py_make_pair_table ss brk ['.'] = .ok pt) :
    ∃ r, py_make_loop_index pt true = .ok r := by
  rw [py_loop_index_of_py_pair_table ss brk pt h true]
  rw [py_make_pair_table_eq] at h
  obtain ⟨W, t, hm, hl, he⟩ := C08.makeLoopIndex_linear ss brk pt true h
  obtain ⟨ext, my, s, hs, _⟩ := C08.loop_index_spec W t (pt.map List.length) hm hl
  rw [he, hs]
  exact ⟨_, rfl⟩

/-- **connectivity, decided by the source-derived function**: on the table of a well-formed text without empty strands
    the source's `make_loop_index` (plain mode) raises SecondaryStructureError exactly when the strands do not form a single
    connected component under base pairing (`C08.Connected`: every pairing-closed set of strands that contains one strand contains all) -/
theorem py_loop_index_raises_iff_disconnected (ss : List Char) (brk : Char) (pt : PairTable)
    (h : py_make_pair_table ss brk ['.'] = .ok pt) (hpos : ∀ n ∈ pt.map List.length, 0 < n) :
    ∃ t, (∃ W, matchW W = some t ∧ (pt.map List.length).sum = W.length) ∧
      (py_make_loop_index pt false = .error .secondaryStructure ↔ ¬ C08.Connected (pt.map List.length) (P t)) := by
  rw [py_loop_index_of_py_pair_table ss brk pt h false]
  rw [py_make_pair_table_eq] at h
  obtain ⟨W, t, hm, hl, he⟩ := C08.makeLoopIndex_linear ss brk pt false h
  refine ⟨t, ⟨W, hm, hl⟩, ?_⟩
  rw [he]
  constructor
  · intro hr
    apply C08.not_connected_of_error W t _ hm hl hpos
    cases hs : loopScan false (C08.linStrands (pt.map List.length) t) 0 {} [] [] with
    | error e =>
      rw [hs] at hr
      simp only [Except.map] at hr
      injection hr with hr
      rw [hr]
    | ok r =>
      rw [hs] at hr
      obtain ⟨a, b, c⟩ := r
      simp [Except.map] at hr
  · intro hn
    rw [C08.error_of_not_connected W t _ hm hl hpos hn]
    rfl

/-! ### C07 on the source-derived rotation -/

/-- a single strand is returned unchanged by the source's `rotate_complex_once` -/
theorem py_rotate_single (seq : List String) (sst : List Char) (hl : seq.length = sst.length) (h : "+" ∉ seq) :
    py_rotate_complex_once seq sst = .ok (seq, sst) := by
  rw [py_rotate_complex_once_eq seq sst hl]; exact C07.rotateOnce_single seq sst h

/-- **the source's fast rotation is a structure-preserving relabelling** (`C07.rotateOnce_pairs` transferred) -/
theorem py_rotate_pairs (seq : List String) (sst : List Char) (p : Nat) (t : List (Option Nat))
    (hal : C07.Aligned seq sst) (hp : seq.idxOf? "+" = some p) (hm : matchW (C07.word sst) = some t) :
    ∃ seq' sst' t', py_rotate_complex_once seq sst = .ok (seq', sst') ∧
      seq' = seq.drop (p + 1) ++ ["+"] ++ seq.take p ∧
      sst'.length = sst.length ∧ C07.Aligned seq' sst' ∧
      matchW (C07.word sst') = some t' ∧
      (∀ i, i < sst.length → seq'[C07.sigma sst.length p i]? = seq[i]?) ∧
      (∀ i, i < sst.length → (P t i).isNone → sst'[C07.sigma sst.length p i]? = sst[i]?) ∧
      (∀ i, i < sst.length → P t' (C07.sigma sst.length p i) = (P t i).map (C07.sigma sst.length p)) := by
  rw [py_rotate_complex_once_eq seq sst hal.1]
  exact C07.rotateOnce_pairs seq sst p t hal hp hm

/-- the only declared error of the source's rotation is SecondaryStructureError -/
theorem py_rotate_error_kind (seq : List String) (sst : List Char) (hl : seq.length = sst.length) (e : Err)
    (h : py_rotate_complex_once seq sst = .error e) : e = .secondaryStructure := by
  rw [py_rotate_complex_once_eq seq sst hl] at h; exact C06.rotateOnce_error_kind seq sst e h

/-- the length hypothesis is needed: on a structure shorter than the first strand the source raises IndexError
    (an interpreter-level fault the net-effect model `rotateOnce` does not have) -/
theorem py_rotate_short_structure_faults :
    py_rotate_complex_once ["a", "b", "+", "c"] ['.'] = .error (.fault "IndexError") ∧
    rotateOnce ["a", "b", "+", "c"] ['.'] = .ok (["c", "+", "a", "b"], ['+', '.']) := by
  constructor <;> decide

/-! ### C09 / C07 on the source-derived generators `split_complex_pt` and `rotate_complex_pt` -/

/-- `list(split_complex_pt(stab, ptab))` as written in the source (recursion depth bounded by `fuel`, the nested `splice`,
    the `seen` dict, `break`) is the model's `splitPt` on every pair table `make_pair_table` returns: the same parts in the
    same order, the same error kinds (`RecursionError` for too little fuel included), for every strand table -/
theorem py_split_complex_pt_eq (fuel : Nat) (stab : List (List String)) (ss : List Char) (brk : Char) (pt : PairTable)
    (h : makePairTable ss brk = .ok pt) (hs : stab.map List.length = pt.map List.length) :
    py_split_complex_pt fuel stab pt = splitPt fuel stab pt := PyEq.split_complex_pt_eq fuel stab ss brk pt h hs

/-- … under the invariant that the halves of a splice inherit (`Split.LM`: the table is a non-crossing perfect matching of
    the brackets of some list of strands), without any hypothesis on the strand table -/
theorem py_split_complex_pt_eq_lm (fuel : Nat) (stab : List (List String)) (pt : PairTable) (syms : List (List Sym))
    (h : Split.LM syms pt) : py_split_complex_pt fuel stab pt = splitPt fuel stab pt :=
  PyEq.split_complex_pt_eq_lm fuel stab pt syms h

/-- … hence on every table the SOURCE's `make_pair_table` returns -/
theorem py_split_of_py_pair_table (fuel : Nat) (stab : List (List String)) (ss : List Char) (brk : Char) (pt : PairTable)
    (h : py_make_pair_table ss brk ['.'] = .ok pt) (hs : stab.map List.length = pt.map List.length) :
    py_split_complex_pt fuel stab pt = splitPt fuel stab pt := by
  rw [py_make_pair_table_eq] at h
  exact py_split_complex_pt_eq fuel stab ss brk pt h hs

/-- **splitting yields exactly the connected components, for the source-derived generator** (`C09.split_spec` transferred):
    with fuel `len(ptab) + 1` the source's `split_complex_pt` returns parts that are sub-complexes of the input on disjoint
    index sets (content, order, pairs preserved - `C09.PartOf`), the index sets partition the strands, and every part is connected -/
theorem py_split_spec (ss : List Char) (brk : Char) (ptab : PairTable) (stab : List (List String))
    (h : py_make_pair_table ss brk ['.'] = .ok ptab) (hs : stab.map List.length = ptab.map List.length) :
    ∃ (parts : List (List (List String) × PairTable)) (idxs : List (List Nat)),
      py_split_complex_pt (ptab.length + 1) stab ptab = .ok parts ∧
      idxs.length = parts.length ∧
      (∀ (k : Nat) part idx, parts[k]? = some part → idxs[k]? = some idx → C09.PartOf stab ptab part idx ∧ idx ≠ []) ∧
      (idxs.flatten.Perm (List.range ptab.length)) ∧
      (∀ part ∈ parts, ∃ lo, makeLoopIndex part.2 false = .ok lo) := by
  rw [py_split_of_py_pair_table (ptab.length + 1) stab ss brk ptab h hs]
  rw [py_make_pair_table_eq] at h
  have hl : stab.length = ptab.length := by
    have := congrArg List.length hs; simpa using this
  exact C09.split_spec ss brk ptab stab h hl

set_option synthInstance.maxSize 2048 in
/-- the invariant is needed: on a table whose entries point outside the table the source raises IndexError (inside
    `make_loop_index`), which the net-effect model does not have -/
theorem py_split_malformed_faults :
    py_split_complex_pt 5 [["a"], ["b"]] [[none], [some (0, 0)]] = .error (.fault "IndexError") ∧
    splitPt 5 [["a"], ["b"]] [[none], [some (0, 0)]] = .ok [([["a"]], [[none]]), ([["b"]], [[some (0, 0)]])] := by
  constructor <;> decide

/-- `list(rotate_complex_pt(stab, ptab))` (`turns = None`) as written in the source is the model's `rotationsPt` for every
    non-empty strand table, given more fuel than strands -/
theorem py_rotate_complex_pt_eq (fuel : Nat) (stab : List (List String)) (ptab : PairTable)
    (hs : stab ≠ []) (hf : ptab.length < fuel) :
    py_rotate_complex_pt fuel stab ptab none = .ok (rotationsPt stab ptab) := PyEq.rotate_complex_pt_eq fuel stab ptab hs hf

set_option synthInstance.maxSize 2048 in
/-- the hypothesis on the strand table is needed: `stab[-1]` of an empty strand table is an IndexError -/
theorem py_rotate_empty_stab_faults :
    py_rotate_complex_pt 5 [] [[none], [none]] (some 1) = .error (.fault "IndexError") := by decide

/-! ### the rest of complex_utils.py: strand tables and the `_db` generators

`make_strand_table` and `strand_table_to_sequence` are translated once per typing (translator/pyfunc.py, "typed instances"):
a list of names (`isinstance(seq, list)`, `join=False`) and a `str` / one-character names (`.split`, `join=True`). -/

/-- `make_strand_table` on a Python list of names as written in the source (`groupby` on `x != strand_break`) is the model's
    `makeStrandTableList` for every list and every one-character break name; any other break name fails the source's
    `assert len(strand_break) == 1` -/
theorem py_make_strand_table_list_eq (seq : List String) (brk : String) :
    py_make_strand_table_list seq brk =
      if brk.length = 1 then .ok (makeStrandTableList brk seq) else .error .assertion :=
  PyEq.make_strand_table_list_eq seq brk

/-- … in particular with the default break name "+" it never raises -/
theorem py_make_strand_table_list_default (seq : List String) :
    py_make_strand_table_list seq "+" = .ok (makeStrandTableList "+" seq) := by
  rw [py_make_strand_table_list_eq, if_pos PyEq.plus_len]

/-- `make_strand_table` on a `str` as written in the source (`seq.split(strand_break)`) never raises and is the model's
    `makeStrandTableStr`, for every text and break character -/
theorem py_make_strand_table_str_eq (seq : List Char) (brk : Char) :
    py_make_strand_table_str seq brk = .ok (makeStrandTableStr brk seq) := PyEq.make_strand_table_str_eq seq brk

/-- `strand_table_to_sequence(st, brk, join=False)` as written in the source (`reduce`) is the model's
    `strandTableToSequence`: the strands joined by the break name, TypeError for the empty table -/
theorem py_strand_table_to_sequence_list_eq (st : List (List String)) (brk : String) :
    py_strand_table_to_sequence_list st brk = strandTableToSequence brk st := PyEq.strand_table_to_sequence_list_eq st brk

/-- `strand_table_to_sequence(st, brk, join=True)` on one-character names as written in the source (`str.join`) never
    raises and is the model's `strandTableToSequenceStr` -/
theorem py_strand_table_to_sequence_str_eq (st : List (List Char)) (brk : Char) :
    py_strand_table_to_sequence_str st brk = .ok (strandTableToSequenceStr brk st) :=
  PyEq.strand_table_to_sequence_str_eq st brk

/-- `list(split_complex_db(seq, sst))` (`join=False`) as written in the source is, for EVERY list of names, structure and
    fuel, the composition of the model functions: `makePairTable sst`, `splitPt` of the strand table of `seq` and that pair
    table, then (`strandTableToSequence`, `ptToDb`) on every part; errors are those of the first step that fails -/
theorem py_split_complex_db_eq (fuel : Nat) (seq : List String) (sst : List Char) :
    py_split_complex_db fuel seq sst =
      (makePairTable sst '+' >>= fun pt => splitPt fuel (makeStrandTableList "+" seq) pt >>= fun parts =>
        parts.mapM (fun p => (strandTableToSequence "+" p.1).map (fun s => (s, ptToDb p.2 '+')))) :=
  PyEq.split_complex_db_eq fuel seq sst

/-- on a well-formed input (the structure has a pair table `pt`, the names have as many strands as it) the source's
    `split_complex_db` with fuel `len(pt) + 1` raises nothing: it yields, for every part `splitPt` returns - the connected
    components, `py_split_spec` -, the names joined by "+" and the dot-bracket text of the part -/
theorem py_split_complex_db_wellformed (seq : List String) (sst : List Char) (pt : PairTable)
    (h : makePairTable sst '+' = .ok pt) (hl : (makeStrandTableList "+" seq).length = pt.length) :
    ∃ parts, splitPt (pt.length + 1) (makeStrandTableList "+" seq) pt = .ok parts ∧
      py_split_complex_db (pt.length + 1) seq sst = .ok (parts.map (fun p => (joinWith "+" p.1, ptToDb p.2 '+'))) := by
  obtain ⟨parts, idxs, hsp, hlen, hq, _, _⟩ := C09.split_spec sst '+' pt (makeStrandTableList "+" seq) h hl
  refine ⟨parts, hsp, ?_⟩
  rw [py_split_complex_db_eq, h]
  simp only [bind, Except.bind, hsp]
  apply PyEq.mapM_ok
  intro p hp
  obtain ⟨k, hk⟩ := List.mem_iff_getElem?.mp hp
  have hkl : k < idxs.length := by rw [hlen]; exact (List.getElem?_eq_some_iff.mp hk).1
  obtain ⟨po, hidx⟩ := hq k p _ hk (List.getElem?_eq_getElem hkl)
  have hp1 : p.1 ≠ [] := by
    generalize idxs[k] = idx at po hidx
    cases idx with
    | nil => exact absurd rfl hidx
    | cons i0 is =>
      have hb := po.bound i0 (by simp)
      rw [po.strands, List.filterMap_cons, List.getElem?_eq_getElem (by omega)]
      simp
  exact PyEq.dbPart_ok p hp1

/-- `list(rotate_complex_db(seq, sst, turns))` (`join=False`) as written in the source, for EVERY input: the pair table (or
    its error), the source's assertion that strands and rows are equally long, the source's `rotate_complex_pt`, then
    (`strandTableToSequence`, `ptToDb`) on every rotation -/
theorem py_rotate_complex_db_eq_pt (fuel : Nat) (seq : List String) (sst : List Char) (turns : Option Nat) :
    py_rotate_complex_db fuel seq sst turns =
      (makePairTable sst '+' >>= fun pt =>
        if PyEq.sameLengths (makeStrandTableList "+" seq) pt then
          py_rotate_complex_pt fuel (makeStrandTableList "+" seq) pt turns >>= fun parts =>
            parts.mapM (fun p => (strandTableToSequence "+" p.1).map (fun s => (s, ptToDb p.2 '+')))
        else .error .assertion) :=
  PyEq.rotate_complex_db_eq_pt fuel seq sst turns

/-- `list(rotate_complex_db(seq, sst))` (`turns=None`, `join=False`) as written in the source is the composition of the
    model functions whenever `seq` has a strand and the fuel exceeds the number of strands: the error of `makePairTable`,
    AssertionError if a strand and its row differ in length, else every rotation of `rotationsPt` as
    (names joined by "+", dot-bracket text) -/
theorem py_rotate_complex_db_eq (fuel : Nat) (seq : List String) (sst : List Char)
    (hs : makeStrandTableList "+" seq ≠ []) (hf : ∀ pt, makePairTable sst '+' = .ok pt → pt.length < fuel) :
    py_rotate_complex_db fuel seq sst none =
      (makePairTable sst '+' >>= fun pt =>
        if PyEq.sameLengths (makeStrandTableList "+" seq) pt then
          .ok ((rotationsPt (makeStrandTableList "+" seq) pt).map (fun p => (joinWith "+" p.1, ptToDb p.2 '+')))
        else .error .assertion) :=
  PyEq.rotate_complex_db_eq fuel seq sst hs hf

/-- on a well-formed input (the strand table of the names has the shape of the pair table of the structure) the source's
    `rotate_complex_db` raises nothing and yields all rotations, the unrotated complex first -/
theorem py_rotate_complex_db_wellformed (seq : List String) (sst : List Char) (pt : PairTable)
    (h : makePairTable sst '+' = .ok pt)
    (hshape : (makeStrandTableList "+" seq).map List.length = pt.map List.length) :
    py_rotate_complex_db (pt.length + 1) seq sst none =
      .ok ((rotationsPt (makeStrandTableList "+" seq) pt).map (fun p => (joinWith "+" p.1, ptToDb p.2 '+'))) := by
  have hne : makeStrandTableList "+" seq ≠ [] := by
    intro e
    rw [e] at hshape
    have hp : pt = [] := by simpa using hshape.symm
    have := C06.mpt_shape sst '+' pt h
    rw [hp] at this
    exact PyEq.splitOn_ne_nil '+' sst (by simpa using this.symm)
  have hsl := PyEq.sameLengths_of_shape _ pt hshape
  rw [py_rotate_complex_db_eq (pt.length + 1) seq sst hne (by intro pt' h'; rw [h] at h'; cases h'; omega), h]
  simp only [bind, Except.bind, hsl, if_true]

set_option synthInstance.maxSize 2048 in
/-- without a strand in `seq` the source fails differently from what a net-effect reading would say: for one row TypeError
    (`reduce` of the empty strand table), for several rows IndexError (`stab[-1]`; CPython reports the TypeError of the first
    value the generator had already yielded - the one place where "generators as lists" changes the KIND of the exception) -/
theorem py_rotate_complex_db_no_strand :
    py_rotate_complex_db 5 [] ['.'] none = .error (.fault "TypeError") ∧
    py_rotate_complex_db 5 ["+"] ['.', '+', '.'] none = .error (.fault "IndexError") := by
  constructor <;> decide

/-- non-vacuity: a concrete two-strand complex meets the hypotheses of `py_rotate_pairs` -/
example : C07.Aligned ["a", "+", "b"] ['(', '+', ')'] ∧ ["a", "+", "b"].idxOf? "+" = some 1 ∧
    matchW (C07.word ['(', '+', ')']) = some [some 2, none, some 0] := by
  refine ⟨⟨rfl, ?_⟩, by decide, by decide⟩
  intro i
  match i with
  | 0 => decide
  | 1 => decide
  | 2 => decide
  | (n + 3) => simp

end Dsd.PyFuncs

#print axioms Dsd.PyFuncs.py_make_strand_table_list_eq
#print axioms Dsd.PyFuncs.py_make_strand_table_str_eq
#print axioms Dsd.PyFuncs.py_strand_table_to_sequence_list_eq
#print axioms Dsd.PyFuncs.py_strand_table_to_sequence_str_eq
#print axioms Dsd.PyFuncs.py_split_complex_db_eq
#print axioms Dsd.PyFuncs.py_split_complex_db_wellformed
#print axioms Dsd.PyFuncs.py_rotate_complex_db_eq_pt
#print axioms Dsd.PyFuncs.py_rotate_complex_db_eq
#print axioms Dsd.PyFuncs.py_rotate_complex_db_wellformed
