/-
The small members of `DomainS` AS WRITTEN in the working tree (Gen/PyMembers.lean, transcribed statement by statement by
translator/pymembers.py): what they return on every object, and the C04 / C12 theorems about the model transferred to the code.
None of them changes the object (every statement gives the state back).

  `py_name_eq`, `py_length_eq`, `py_len_eq`     the stored name / length; `len(d)` is the length
  `py_domain_truth_value`   `bool(d)` is `length ≠ 0`: a ZERO-LENGTH DOMAIN IS FALSY (`py_zero_length_domain_falsy`) - the fact two seeded
                            regressions (`if partner and …`) tripped over
  `py_dtype_eq_expr`        `dtype` as written = the expression-level reduction `Gen.py_dtype` (Gen/PyExprs.lean)
  `py_dtype_eq_model`, `py_dtype_rule`   = `DomCfg.dtypeOf`; "short" exactly when length ≤ the class's cut-off (`C04.dtype_rule` transferred)
  `py_is_complement_iff`    true exactly when the name ends in a star (IndexError for the empty name: `py_empty_name_raises`)
  `py_cname_eq`             `cname` as written = the model's `cnameOf` / `compName`
  `py_cname_involutive`     `C12.compName_involutive` transferred: on names other than "" and "*" with at most one trailing star, `cname` of the
                            domain named `cname` is the name again; `py_cname_star_not_involutive`: the counterexample "*" kept, kernel-checked
  `py_complement_requests`, `py_invert_requests`   `d.complement` / `~d` request EXACTLY `(cname, length)` from the class: whatever object comes
                            back was asked for with the SAME length (the name part of `C04.invert_involutive`); the request itself - registry,
                            `identifiers`, `__init__` - is the PARAMETER `request`, outside this translation
-/
import DsdVerif.Lemmas.PyMembers
import DsdVerif.Gen.PyExprs
import DsdVerif.Props.C04Dom
import DsdVerif.Props.C12Kernel

namespace Dsd.PyMembers
open Dsd Gen PyMembersL

theorem py_name_eq (s : DomainSM.Self) : py_DomainSM_name.exec s = (.ok s._name, s) := exec_name s
theorem py_length_eq (s : DomainSM.Self) : py_DomainSM_length.exec s = (.ok s._length, s) := exec_length s
theorem py_len_eq (s : DomainSM.Self) : py_DomainSM_len.exec s = (.ok s._length, s) := exec_len s

/-- `bool(d)` (through `__len__`: the class defines no `__bool__`) is `length ≠ 0` -/
theorem py_domain_truth_value (s : DomainSM.Self) : py_DomainSM_truth.exec s = (.ok (decide (s._length ≠ 0)), s) := exec_truth s

/-- a zero-length domain is a falsy object, whatever its name -/
theorem py_zero_length_domain_falsy (n : String) : py_DomainSM_truth.exec { _name := n, _length := 0 } = (.ok false, { _name := n, _length := 0 }) :=
  rfl

/-- `dtype` as written is the expression-level reduction of Gen/PyExprs.lean -/
theorem py_dtype_eq_expr (cutoff : Nat) (s : DomainSM.Self) :
    (py_DomainSM_dtype cutoff).exec s = (.ok (py_dtype (s._length : Int) (cutoff : Int)), s) := by
  rw [exec_dtype]; unfold py_dtype
  by_cases h : s._length ≤ cutoff
  · have : (s._length : Int) ≤ (cutoff : Int) := by exact_mod_cast h
    simp [h, this]
  · have : ¬ (s._length : Int) ≤ (cutoff : Int) := by exact_mod_cast h
    simp [h, this]

/-- the str the code returns for a dtype of the model -/
def showDType : DType → String
  | .short => "short"
  | .long => "long"

/-- `dtype` as written = `DomCfg.dtypeOf` with the class's `DTYPE_CUTOFF` -/
theorem py_dtype_eq_model (cfg : DomCfg) (s : DomainSM.Self) :
    (py_DomainSM_dtype cfg.cutoff).exec s = (.ok (showDType (cfg.dtypeOf s._length)), s) := by
  rw [exec_dtype]; unfold DomCfg.dtypeOf
  by_cases h : s._length ≤ cfg.cutoff <;> simp [h, showDType]

/-- `C04.dtype_rule` for the code: "short" exactly when the length is at most the cut-off of the class (any subclass value) -/
theorem py_dtype_rule (cfg : DomCfg) (s : DomainSM.Self) :
    ((py_DomainSM_dtype cfg.cutoff).exec s).1 = .ok "short" ↔ s._length ≤ cfg.cutoff := by
  rw [py_dtype_eq_model, ← C04.dtype_rule cfg s._length]
  cases cfg.dtypeOf s._length <;> simp [showDType]

/-- `is_complement` is true exactly when the name ends in a star -/
theorem py_is_complement_iff (s : DomainSM.Self) (hne : s._name ≠ "") :
    py_DomainSM_is_complement.exec s = (.ok (isStarred s._name), s) := by
  rw [exec_is_complement]
  cases h : s._name.toList.getLast? with
  | none =>
    exfalso; apply hne
    have : s._name.toList = [] := by simpa using h
    exact String.ext (by simpa using this)
  | some c => rw [isStarred_of_last _ c h]

/-- the empty name: `name[-1]` raises IndexError in `is_complement`, `cname`, `complement`, `~d` -/
theorem py_empty_name_raises (l : Nat) (request : String → Nat → Py.M Nat) :
    py_DomainSM_is_complement.exec { _name := "", _length := l } = (.error (.fault "IndexError"), { _name := "", _length := l }) ∧
    py_DomainSM_cname.exec { _name := "", _length := l } = (.error (.fault "IndexError"), { _name := "", _length := l }) ∧
    (py_DomainSM_invert request).exec { _name := "", _length := l } = (.error (.fault "IndexError"), { _name := "", _length := l }) := by
  refine ⟨?_, ?_, ?_⟩
  · rw [exec_is_complement]; rfl
  · rw [exec_cname]; rfl
  · rw [exec_invert, exec_complement]; rfl

theorem getLast_some_of_ne (n : String) (hne : n ≠ "") : ∃ c, n.toList.getLast? = some c := by
  cases h : n.toList.getLast? with
  | none =>
    exfalso; apply hne
    have : n.toList = [] := by simpa using h
    exact String.ext (by simpa using this)
  | some c => exact ⟨c, rfl⟩

/-- `cname` as written = the model's `cnameOf` (= `compName`) -/
theorem py_cname_eq (s : DomainSM.Self) (hne : s._name ≠ "") : py_DomainSM_cname.exec s = (.ok (compName s._name), s) := by
  obtain ⟨c, hc⟩ := getLast_some_of_ne _ hne
  rw [exec_cname, hc]; rfl

/-- `C12.compName_involutive` for the code: the `cname` of the domain that carries the `cname` is the name again -/
theorem py_cname_involutive (s : DomainSM.Self)
    (h : s._name ≠ "" ∧ s._name ≠ "*" ∧ (isStarred s._name = true → isStarred (cnameOf s._name) = false)) :
    ∃ n', py_DomainSM_cname.exec s = (.ok n', s) ∧
      py_DomainSM_cname.exec { s with _name := n' } = (.ok s._name, { s with _name := n' }) := by
  refine ⟨compName s._name, py_cname_eq s h.1, ?_⟩
  have hne' : compName s._name ≠ "" := by
    intro he
    have := C12.compName_involutive s._name h
    rw [he] at this
    have h2 : compName "" = "*" := by decide
    rw [h2] at this; exact h.2.1 this.symm
  rw [py_cname_eq { s with _name := compName s._name } hne', C12.compName_involutive s._name h]

/-- the excluded name "*": its `cname` is the empty name, whose `cname` raises - kept as the counterexample -/
theorem py_cname_star_not_involutive (l : Nat) :
    py_DomainSM_cname.exec { _name := "*", _length := l } = (.ok "", { _name := "*", _length := l }) ∧
    py_DomainSM_cname.exec { _name := "", _length := l } = (.error (.fault "IndexError"), { _name := "", _length := l }) := by
  constructor
  · rw [exec_cname]
    have h1 : ("*" : String).toList.getLast? = some '*' := by decide
    have h2 : cnameOf "*" = "" := by decide
    simp only [h1, h2]
  · rw [exec_cname]; rfl

/-- `d.complement` requests exactly `(cname, length)`: the complement is asked for with the SAME length -/
theorem py_complement_requests (request : String → Nat → Py.M Nat) (s : DomainSM.Self) (hne : s._name ≠ "") :
    (py_DomainSM_complement request).exec s = (request (compName s._name) s._length, s) := by
  obtain ⟨c, hc⟩ := getLast_some_of_ne _ hne
  rw [exec_complement, hc]; rfl

/-- `~d` is `d.complement` -/
theorem py_invert_requests (request : String → Nat → Py.M Nat) (s : DomainSM.Self) (hne : s._name ≠ "") :
    (py_DomainSM_invert request).exec s = (request (compName s._name) s._length, s) := by
  rw [exec_invert, py_complement_requests request s hne]

end Dsd.PyMembers

#print axioms Dsd.PyMembers.py_name_eq
#print axioms Dsd.PyMembers.py_length_eq
#print axioms Dsd.PyMembers.py_len_eq
#print axioms Dsd.PyMembers.py_domain_truth_value
#print axioms Dsd.PyMembers.py_zero_length_domain_falsy
#print axioms Dsd.PyMembers.py_dtype_eq_expr
#print axioms Dsd.PyMembers.py_dtype_eq_model
#print axioms Dsd.PyMembers.py_dtype_rule
#print axioms Dsd.PyMembers.py_is_complement_iff
#print axioms Dsd.PyMembers.py_empty_name_raises
#print axioms Dsd.PyMembers.py_cname_eq
#print axioms Dsd.PyMembers.py_cname_involutive
#print axioms Dsd.PyMembers.py_cname_star_not_involutive
#print axioms Dsd.PyMembers.py_complement_requests
#print axioms Dsd.PyMembers.py_invert_requests
