/-
C14, end to end on the reader model: reading a consistent document of domain declarations into the fresh state
succeeds, and the returned dictionary holds every declared domain and its complement — and nothing else — under
its name, bound to the live singleton with exactly the declared attributes.

Documents are token trees as the PIL parser produces them.  A numeric length token cannot be evaluated inside the
logic (`String.toNat?` is not kernel-reducible), so a `length` statement is described by `Sig.LenTok tk l`:
`short` is 5, `long` is 15, and any other token `tk` denotes `l` when `tk.toNat? = some l`.
-/
import DsdVerif.Lemmas.ReaderSigmaAttr
import DsdVerif.Lemmas.ReaderSigmaStrand

namespace Dsd.C14
open Dsd Dsd.PP Dsd.RState

/-- a complete description of what the final state and dictionary say about the declaration at position `k`:
    dictionary entries `name ↦ id`, `name* ↦ cid`, both live domains of the slot class, held by the user, with the
    declared length; a line read on its own returns the same object -/
def DeclRead (sl : Slots) (s' : RState) (d' : RDict) (d : Sig.Decl) : Prop :=
  ∃ id cid o oc, id ≠ cid ∧
    d'.domains.lookup d.name = some id ∧ d'.domains.lookup (d.name ++ "*") = some cid ∧
    s'.w.domObj id = some (sl.dom, o) ∧ o.id = id ∧ o.name = d.name ∧ o.canon = (d.name, d.len) ∧
    s'.w.domObj cid = some (sl.dom, oc) ∧ oc.id = cid ∧ oc.name = d.name ++ "*" ∧ oc.canon = (d.name ++ "*", d.len) ∧
    s'.w.isLive id = true ∧ s'.w.isLive cid = true ∧ id ∈ s'.w.held ∧ cid ∈ s'.w.held ∧
    (∃ s'', s'.readLine sl d.line = (s'', .ok (.dom id))) ∧
    (match d with
     | .dl _ _ _ => s'.dseq.lookup id = none ∧ s'.dseq.lookup cid = none
     | .sl _ seq => s'.dseq.lookup id = some seq ∧
         ∃ rc, Iupac.reverseWcComplement .dna seq.toList = some rc ∧ rc.length = seq.length ∧
           s'.dseq.lookup cid = some (String.ofList rc))

/-- **Stage 2 (lengths and sequences).**  For every system of domain declarations — `length n = …` and
    `sequence n = …` in any order — with distinct base names, reading the document into the fresh state succeeds;
    the dictionary's domain keys are exactly the declared names and their complements (in document order, without
    repetition), every other section is empty, and every declaration is read as `DeclRead` says. -/
theorem read_sequences_sigma (sl : Slots) (hdom : sl.dom < 4) (ds : List Sig.Decl) (hsys : Sig.Sys ds) :
    ∃ s' d', ({} : RState).readDoc sl [] [] (Sig.doc ds) {} = (s', .ok d') ∧
      d'.domains.map (·.1) = ds.flatMap (fun d => [d.name, d.name ++ "*"]) ∧ (d'.domains.map (·.1)).Nodup ∧
      d'.strands = [] ∧ d'.complexes = [] ∧ d'.macrostates = [] ∧ d'.det = [] ∧ d'.con = [] ∧ d'.other = 0 ∧
      ∀ d ∈ ds, DeclRead sl s' d' d := by
  refine ⟨_, _, Sig.readDoc_fresh sl hdom ds hsys, Sig.dDict_keys ds, ?_, rfl, rfl, rfl, rfl, rfl, rfl, ?_⟩
  · show ((Sig.dDict ds).map (·.1)).Nodup
    rw [Sig.dDict_keys]; exact Sig.keys_nodup ds hsys.base hsys.distinct
  · intro d hd
    obtain ⟨k, hk⟩ := List.getElem?_of_mem hd
    have hlt := Sig.getElem?_lt' _ _ _ hk
    obtain ⟨l1, l2⟩ := Sig.dDict_lookup ds hsys k d hk
    obtain ⟨o1, o2⟩ := Sig.S_domObj sl.dom 0 hdom ds k d hk
    obtain ⟨v1, v2⟩ := Sig.S_live sl.dom 0 ds (2 * k) (by omega)
    obtain ⟨v3, v4⟩ := Sig.S_live sl.dom 0 ds (2 * k + 1) (by omega)
    refine ⟨2 * k, 2 * k + 1, _, _, by omega, l1, l2, o1, rfl, rfl, rfl, o2, rfl, rfl, rfl, v1, v3, v2, v4,
      Sig.reread sl hdom 0 ds hsys k d hk, ?_⟩
    cases d with
    | dl n tk l => exact Sig.dSeq_lookup_dl ds k n tk l hk
    | sl n seq =>
      obtain ⟨q1, q2⟩ := Sig.dSeq_lookup ds k n seq hk
      obtain ⟨rc, hrc, hlen, _⟩ := Iupac.wc_sequence_exact .dna seq.toList.reverse
        (fun c hc => hsys.ok _ hd c (List.mem_reverse.mp hc))
      have hrc' : Iupac.reverseWcComplement .dna seq.toList = some rc := hrc
      refine ⟨q1, rc, hrc', by rw [hlen, List.length_reverse]; exact String.length_toList, ?_⟩
      show (Sig.dSeq ds).lookup (2 * k + 1) = _
      rw [q2, Sig.rcOf, hrc']; rfl

/-- the document of a system of `length` statements: `(name, length token, length)` -/
def dlDoc (decls : List (String × String × Nat)) : List Tree :=
  decls.map (fun p => Tree.grp [.tok "dl-domain", .tok p.1, .tok p.2.1])

/-- **Stage 1 (lengths).**  For every list of `length` statements with distinct base names whose length tokens
    denote the declared lengths, the read succeeds, the dictionary holds exactly the declared names and their
    complements, and for every declaration: `name ↦ id` and `name* ↦ cid` with `id ≠ cid`, both live domains of the
    reader's domain class with the declared length, and the line read on its own yields the same `id`.
    (No positivity of lengths is needed: the model's `DomainS` accepts any length.) -/
theorem read_domains_sigma (sl : Slots) (hdom : sl.dom < 4) (decls : List (String × String × Nat))
    (hbase : ∀ p ∈ decls, Sig.BaseName p.1) (hlen : ∀ p ∈ decls, Sig.LenTok p.2.1 p.2.2)
    (hdist : (decls.map (·.1)).Nodup) :
    ∃ s' d', ({} : RState).readDoc sl [] [] (dlDoc decls) {} = (s', .ok d') ∧
      d'.domains.map (·.1) = decls.flatMap (fun p => [p.1, p.1 ++ "*"]) ∧ (d'.domains.map (·.1)).Nodup ∧
      d'.strands = [] ∧ d'.complexes = [] ∧ d'.macrostates = [] ∧ d'.det = [] ∧ d'.con = [] ∧ d'.other = 0 ∧
      ∀ p ∈ decls, ∃ id cid o oc, id ≠ cid ∧
        d'.domains.lookup p.1 = some id ∧ d'.domains.lookup (p.1 ++ "*") = some cid ∧
        s'.w.domObj id = some (sl.dom, o) ∧ o.id = id ∧ o.name = p.1 ∧ o.canon = (p.1, p.2.2) ∧
        s'.w.domObj cid = some (sl.dom, oc) ∧ oc.id = cid ∧ oc.name = p.1 ++ "*" ∧ oc.canon = (p.1 ++ "*", p.2.2) ∧
        s'.w.isLive id = true ∧ s'.w.isLive cid = true ∧ id ∈ s'.w.held ∧ cid ∈ s'.w.held ∧
        ∃ s'', s'.readLine sl [.tok "dl-domain", .tok p.1, .tok p.2.1] = (s'', .ok (.dom id)) := by
  have hsys : Sig.Sys (decls.map (fun p => Sig.Decl.dl p.1 p.2.1 p.2.2)) := by
    refine ⟨?_, ?_, ?_⟩
    · intro d hd
      obtain ⟨p, hp, rfl⟩ := List.mem_map.mp hd
      exact hbase p hp
    · intro d hd
      obtain ⟨p, hp, rfl⟩ := List.mem_map.mp hd
      exact hlen p hp
    · rw [List.map_map]; exact hdist
  have hdoc : Sig.doc (decls.map (fun p => Sig.Decl.dl p.1 p.2.1 p.2.2)) = dlDoc decls := by
    simp [Sig.doc, dlDoc, Sig.Decl.line]
  obtain ⟨s', d', h1, h2, h3, h4, h5, h6, h7, h8, h9, h10⟩ :=
    read_sequences_sigma sl hdom _ hsys
  rw [hdoc] at h1
  refine ⟨s', d', h1, ?_, h3, h4, h5, h6, h7, h8, h9, ?_⟩
  · rw [h2, List.flatMap_map]; rfl
  · intro p hp
    obtain ⟨id, cid, o, oc, a1, a2, a3, a4, a5, a6, a7, a8, a9, a10, a11, a12, a13, a14, a15, a16, _⟩ :=
      h10 (Sig.Decl.dl p.1 p.2.1 p.2.2) (List.mem_map_of_mem hp)
    exact ⟨id, cid, o, oc, a1, a2, a3, a4, a5, a6, a7, a8, a9, a10, a11, a12, a13, a14, a15, a16⟩

/-! ### non-vacuity -/

theorem baseName_a : Sig.BaseName "a" := ⟨by decide, by decide⟩
theorem baseName_b : Sig.BaseName "b" := ⟨by decide, by decide⟩
theorem baseName_t : Sig.BaseName "t1" := ⟨by decide, by decide⟩

/-- Stage 1: the two-statement document `length a = short`, `length b = long` satisfies the hypotheses … -/
example : (∀ p ∈ [("a", "short", 5), ("b", "long", 15)], Sig.BaseName p.1) ∧
    (∀ p ∈ [("a", "short", 5), ("b", "long", 15)], Sig.LenTok p.2.1 p.2.2) ∧
    (([("a", "short", 5), ("b", "long", 15)] : List (String × String × Nat)).map (·.1)).Nodup := by
  refine ⟨?_, ?_, by decide⟩
  · intro p hp
    simp only [List.mem_cons, List.not_mem_nil, or_false] at hp
    rcases hp with rfl | rfl
    · exact baseName_a
    · exact baseName_b
  · intro p hp
    simp only [List.mem_cons, List.not_mem_nil, or_false] at hp
    rcases hp with rfl | rfl
    · exact Or.inl ⟨rfl, rfl⟩
    · exact Or.inr (Or.inl ⟨rfl, rfl⟩)

/-- … and the model returns the dictionary and objects the theorem describes (checked by evaluation) -/
example :
    (match ({} : RState).readDoc {} [] [] (dlDoc [("a", "short", 5), ("b", "long", 15)]) {} with
     | (s', .ok d') => (d'.domains, s'.w.held, (s'.w.domObj 0).map (fun p => (p.2.name, p.2.canon)),
         (s'.w.domObj 3).map (fun p => (p.2.name, p.2.canon)))
     | (_, .error _) => ([], [], none, none)) =
    ([("a", 0), ("a*", 1), ("b", 2), ("b*", 3)], [0, 1, 2, 3], some ("a", ("a", 5)), some ("b*", ("b*", 15))) := by
  rfl

/-- Stage 2: a mixed document `length a = short`, `sequence t1 = AAC` satisfies the hypotheses … -/
example : Sig.Sys [.dl "a" "short" 5, .sl "t1" "AAC"] := by
  refine ⟨?_, ?_, by decide⟩
  · intro d hd
    simp only [List.mem_cons, List.not_mem_nil, or_false] at hd
    rcases hd with rfl | rfl
    · exact baseName_a
    · exact baseName_t
  · intro d hd
    simp only [List.mem_cons, List.not_mem_nil, or_false] at hd
    rcases hd with rfl | rfl
    · exact Or.inl ⟨rfl, rfl⟩
    · intro c hc
      have : c = 'A' ∨ c = 'C' := by
        have : c ∈ ['A', 'A', 'C'] := hc
        simp only [List.mem_cons, List.not_mem_nil, or_false] at this
        rcases this with h | h | h
        · exact Or.inl h
        · exact Or.inl h
        · exact Or.inr h
      rcases this with rfl | rfl <;> decide

/-- … and the model gives the complement `t1*` the reverse Watson–Crick complement `GTT` (checked by evaluation) -/
example :
    (match ({} : RState).readDoc {} [] [] (Sig.doc [.dl "a" "short" 5, .sl "t1" "AAC"]) {} with
     | (s', .ok d') => (d'.domains, s'.dseq, (s'.w.domObj 2).map (fun p => (p.2.name, p.2.canon)))
     | (_, .error _) => ([], [], none)) =
    ([("a", 0), ("a*", 1), ("t1", 2), ("t1*", 3)], [(2, "AAC"), (3, "GTT")], some ("t1", ("t1", 3))) := by
  rfl

/-! ### Stage 3: composite domains -/

/-- what the final state and dictionary say about a composite domain `(name, domain names)`: the dictionary entry
    `name ↦ sid`, the strand object of the slot class with that name and exactly the declared domain list, and a
    node whose children are **the identical domain singletons** the dictionary lists under these names -/
def StrandRead (sl : Slots) (s' : RState) (d' : RDict) (p : Sig.SDecl) : Prop :=
  ∃ sid o nd, d'.strands.lookup p.1 = some sid ∧
    s'.w.cplxObj sid = some (sl.strand, o) ∧ o.id = sid ∧ o.name = p.1 ∧ o.canon.1 = p.2 ∧
    s'.w.node sid = some nd ∧ nd.kind = .strand ∧ nd.cls = sl.strand ∧
    nd.children.map some = p.2.map (fun n => d'.domains.lookup n) ∧
    s'.w.isLive sid = true ∧ sid ∈ s'.w.held

/-- **Stage 3 (composite domains).**  A document of domain declarations followed by `composite-domain` lines whose
    domain names are declared names or their complements (`Sig.SSys`: strand names pairwise distinct, domain lists
    pairwise distinct, no break token) is read successfully; the dictionary holds exactly the declared domains (with
    complements) and exactly the declared strands, each as described by `DeclRead` / `StrandRead`.
    (Strand names need not differ from domain names: the classes have separate registries.) -/
theorem read_strands_sigma (sl : Slots) (hdom : sl.dom < 4) (hstr : sl.strand < 4) (ds : List Sig.Decl)
    (hsys : Sig.Sys ds) (ss : List Sig.SDecl) (hss : Sig.SSys ds ss) :
    ∃ s' d', ({} : RState).readDoc sl [] [] (Sig.doc ds ++ Sig.sdoc ss) {} = (s', .ok d') ∧
      d'.domains.map (·.1) = ds.flatMap (fun d => [d.name, d.name ++ "*"]) ∧ (d'.domains.map (·.1)).Nodup ∧
      d'.strands.map (·.1) = ss.map (·.1) ∧ (d'.strands.map (·.1)).Nodup ∧
      d'.complexes = [] ∧ d'.macrostates = [] ∧ d'.det = [] ∧ d'.con = [] ∧ d'.other = 0 ∧
      (∀ d ∈ ds, DeclRead sl s' d' d) ∧ (∀ p ∈ ss, StrandRead sl s' d' p) := by
  refine ⟨_, _, Sig.readDoc_fresh3 sl hdom hstr ds hsys ss hss, Sig.dDict_keys ds, ?_, Sig.sDict_keys ds ss, ?_,
    rfl, rfl, rfl, rfl, rfl, ?_, ?_⟩
  · show ((Sig.dDict ds).map (·.1)).Nodup
    rw [Sig.dDict_keys]; exact Sig.keys_nodup ds hsys.base hsys.distinct
  · show ((Sig.sDict ds ss).map (·.1)).Nodup
    rw [Sig.sDict_keys]; exact hss.names
  · intro d hd
    obtain ⟨k, hk⟩ := List.getElem?_of_mem hd
    have hlt := Sig.getElem?_lt' _ _ _ hk
    obtain ⟨l1, l2⟩ := Sig.dDict_lookup ds hsys k d hk
    obtain ⟨o1, o2⟩ := Sig.S3_domObj sl.dom sl.strand hdom ds ss k d hk
    obtain ⟨v1, v2⟩ := Sig.S3_live sl.dom sl.strand ds ss (2 * k) (by omega)
    obtain ⟨v3, v4⟩ := Sig.S3_live sl.dom sl.strand ds ss (2 * k + 1) (by omega)
    refine ⟨2 * k, 2 * k + 1, _, _, by omega, l1, l2, o1, rfl, rfl, rfl, o2, rfl, rfl, rfl, v1, v3, v2, v4,
      Sig.reread_gen sl hdom ds hsys _ rfl k d hk, ?_⟩
    cases d with
    | dl n tk l => exact Sig.dSeq_lookup_dl ds k n tk l hk
    | sl n seq =>
      obtain ⟨q1, q2⟩ := Sig.dSeq_lookup ds k n seq hk
      obtain ⟨rc, hrc, hlen, _⟩ := Iupac.wc_sequence_exact .dna seq.toList.reverse
        (fun c hc => hsys.ok _ hd c (List.mem_reverse.mp hc))
      have hrc' : Iupac.reverseWcComplement .dna seq.toList = some rc := hrc
      refine ⟨q1, rc, hrc', by rw [hlen, List.length_reverse]; exact String.length_toList, ?_⟩
      show (Sig.dSeq ds).lookup (2 * k + 1) = _
      rw [q2, Sig.rcOf, hrc']; rfl
  · intro p hp
    obtain ⟨j, hj⟩ := List.getElem?_of_mem hp
    have hlt := Sig.getElem?_lt' _ _ _ hj
    obtain ⟨n1, n2⟩ := Sig.S3_strand sl.dom sl.strand hstr ds ss j p hj
    obtain ⟨v1, v2⟩ := Sig.S3_live sl.dom sl.strand ds ss (2 * ds.length + j) (by omega)
    refine ⟨2 * ds.length + j, _, _, Sig.sDict_lookup ds ss hss.names j p hj, n2, rfl, rfl, rfl, n1, rfl, rfl, ?_,
      v1, v2⟩
    exact (Sig.idsOf_lookup ds hsys p.2 (hss.content p hp)).symm

/-- Stage 3 non-vacuity: two domains and two strands over them (one using a complement) satisfy the hypotheses … -/
example : Sig.Sys [.dl "a" "short" 5, .dl "b" "long" 15] ∧
    Sig.SSys [.dl "a" "short" 5, .dl "b" "long" 15] [("s", ["a", "b*"]), ("t", ["b", "a"])] := by
  constructor
  · refine ⟨?_, ?_, by decide⟩
    · intro d hd
      simp only [List.mem_cons, List.not_mem_nil, or_false] at hd
      rcases hd with rfl | rfl
      · exact baseName_a
      · exact baseName_b
    · intro d hd
      simp only [List.mem_cons, List.not_mem_nil, or_false] at hd
      rcases hd with rfl | rfl
      · exact Or.inl ⟨rfl, rfl⟩
      · exact Or.inr (Or.inl ⟨rfl, rfl⟩)
  · refine ⟨?_, by decide, by decide⟩
    intro p hp n hn
    simp only [List.mem_cons, List.not_mem_nil, or_false] at hp
    rcases hp with rfl | rfl
    · simp only [List.mem_cons, List.not_mem_nil, or_false] at hn
      rcases hn with rfl | rfl
      · exact ⟨by decide, 0, _, rfl, Or.inl rfl⟩
      · exact ⟨by decide, 1, _, rfl, Or.inr rfl⟩
    · simp only [List.mem_cons, List.not_mem_nil, or_false] at hn
      rcases hn with rfl | rfl
      · exact ⟨by decide, 1, _, rfl, Or.inl rfl⟩
      · exact ⟨by decide, 0, _, rfl, Or.inl rfl⟩

/-- … and the model files the strands with the domain singletons as children (checked by evaluation) -/
example :
    (match ({} : RState).readDoc {} [] []
        (Sig.doc [.dl "a" "short" 5, .dl "b" "long" 15] ++ Sig.sdoc [("s", ["a", "b*"]), ("t", ["b", "a"])]) {} with
     | (s', .ok d') => (d'.domains, d'.strands, (s'.w.node 4).map (·.children), (s'.w.node 5).map (·.children),
         (s'.w.cplxObj 4).map (fun q => (q.2.name, q.2.canon.1)))
     | (_, .error _) => ([], [], none, none, none)) =
    ([("a", 0), ("a*", 1), ("b", 2), ("b*", 3)], [("s", 4), ("t", 5)], some [0, 3], some [2, 0],
      some ("s", ["a", "b*"])) := by
  rfl

end Dsd.C14
