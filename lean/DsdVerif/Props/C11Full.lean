/-
C11 (and C01 for macrostates / reactions), closing the model gap of `macroRequest` / `reactionRequest`: the full
models (Model/SetsFull.lean) follow `MacrostateS.identifiers/__init__`, `ReactionS.identifiers/__init__` and
`Singleton.__call__` (with its truthiness tests) statement by statement.
-/
import DsdVerif.Model.SetsFull
import DsdVerif.Lemmas.SingletonFull
import DsdVerif.Lemmas.Sort

namespace Dsd.C11
open Dsd Dsd.SetsFull

/-! ### macrostates -/

/-- **`MacrostateS(complexes, name)`**: the full model refines to `macroRequest` for every registry, provided no
    name involved is the empty string (a complex can never be named `""`: see C02Full, FINDING 1). -/
theorem macroRequestFull_eq (r : Reg MKey) (fresh : Nat) (members : Option (List (String × CKey)))
    (name : Option String) (hname : name ≠ some "") (hmem : ∀ ms, members = some ms → ∀ m ∈ ms, m.1 ≠ "") :
    macroRequestFull r fresh members name = macroRequest r fresh members name := by
  unfold macroRequestFull macroRequest
  cases members with
  | none =>
    cases name with
    | none => rfl
    | some n =>
      exact Reg.callFull_eq r none n fresh [] [] _ (fun e => hname (by rw [e])) (fun k e => by cases e)
  | some ms =>
    simp only
    have hkeys : ∀ (canon : MKey) (k : MKey), (if canon.isEmpty then none else some canon) = some k →
        (if ([] : List MKey).contains k then [] else [] ++ [k]) = [canon] := by
      intro canon k hk
      split at hk
      · cases hk
      · cases hk; simp
    cases name with
    | none =>
      simp only
      cases hs : sortBy (fun a b => ckeyLt a.2 b.2) ms with
      | nil => rfl
      | cons m rest =>
        have hm : m ∈ ms := (SortL.sortBy_perm _ ms).subset (by rw [hs]; simp)
        exact Reg.callFull_eq r _ m.1 fresh [] _ _ (hmem ms rfl m hm) (fun k hk _ => hkeys _ k hk)
    | some n =>
      simp only
      split
      · exact Reg.callFull_eq r _ n fresh [] _ _ (fun e => hname (by rw [e])) (fun k hk _ => hkeys _ k hk)
      · rfl

/-! ### reactions -/

theorem autoName_ne (a b : String) : "[" ++ a ++ b ≠ "" := by
  intro e
  have h1 := congrArg String.toList e
  simp only [String.toList_append] at h1
  have : ("[" : String).toList = ['['] := rfl
  rw [this] at h1
  simp at h1

/-- **`ReactionS(reactants, products, rtype, name)`**: the full model refines to `reactionRequest` for every
    registry, provided the name is not the empty string and neither side mixes complexes with macrostates. -/
theorem reactionRequestFull_eq (r : Reg RKey) (fresh : Nat) (reactants products : Option (List (String × MemKey)))
    (rtype name : Option String) (hname : name ≠ some "")
    (hr : ∀ rs, reactants = some rs → mixed rs = false) (hp : ∀ ps, products = some ps → mixed ps = false) :
    reactionRequestFull r fresh reactants products rtype name = reactionRequest r fresh reactants products rtype name := by
  unfold reactionRequestFull reactionRequest
  cases reactants with
  | none =>
    cases products with
    | none =>
      cases name with
      | none => cases rtype <;> rfl
      | some n =>
        cases rtype with
        | none =>
          simp only
          rw [Reg.callFull_eq r none n fresh [] [] _ (fun e => hname (by rw [e])) (fun k e => by cases e)]
        | some t => rfl
    | some ps => cases name <;> cases rtype <;> rfl
  | some rs =>
    have hrs : pySorted rs = some (sortBy (fun a b => memLt a.2 b.2) rs) := by
      unfold pySorted; rw [hr rs rfl]; rfl
    cases products with
    | none => cases name <;> cases rtype <;> simp only [hrs]
    | some ps =>
      have hps : pySorted ps = some (sortBy (fun a b => memLt a.2 b.2) ps) := by
        unfold pySorted; rw [hp ps rfl]; rfl
      have key : ∀ nm : String, nm ≠ "" → ∀ canon : RKey,
          r.callFull (some canon) nm fresh [] false = r.call (some canon) (some nm) fresh [canon] false :=
        fun nm hne canon => Reg.callFull_eq r _ nm fresh [] _ _ hne (fun k hk _ => by cases hk; simp)
      cases name with
      | some n =>
        have hne : n ≠ "" := fun e => hname (by rw [e])
        cases rtype <;> simp only [hrs, hps, Option.getD_some, key n hne]
      | none =>
        cases rtype <;> simp only [hrs, hps, Option.getD_none] <;>
          rw [key _ (by simp only [String.append_assoc]; exact autoName_ne _ _)]

/-! ### closed examples -/

namespace Ex

def kA : CKey := (["a"], ['.'])
def kB : CKey := (["b"], ['.'])
def kM : MKey := [kA, kB]

/-- `MacrostateS([B, A])`: sorted by canonical form, named after the first member; naming, assertion, IndexError -/
example :
    (macroRequestFull {} 0 (some [("B", kB), ("A", kA)]) none).2 = .ret 0 true ∧
    (macroRequestFull {} 0 (some [("B", kB), ("A", kA)]) none).1.objs.map (fun o => (o.name, o.canon, o.keys)) =
      [("A", kM, [kM])] ∧
    (macroRequestFull {} 0 (some [("B", kB), ("A", kA)]) (some "B")).1.objs.map (fun o => (o.name, o.canon)) =
      [("B", kM)] ∧
    (macroRequestFull {} 0 (some [("B", kB), ("A", kA)]) (some "C")).2 = .assertion ∧
    (macroRequestFull {} 0 (some []) none).2 = .fault "IndexError" ∧
    (macroRequestFull {} 0 (some []) (some "A")).2 = .assertion ∧
    (macroRequestFull {} 0 none none).2 = .assertion ∧
    (macroRequestFull {} 0 none (some "A")).2 = .singletonErr none :=
  ⟨by decide, rfl, rfl, by decide, by decide, by decide, by decide, by decide⟩

/-- a complex listed twice stays twice in the canonical form (both models) -/
example : (macroRequestFull {} 0 (some [("A", kA), ("A", kA)]) none).1.objs.map (·.canon) = [[kA, kA]] ∧
    (macroRequest {} 0 (some [("A", kA), ("A", kA)]) none).1.objs.map (·.canon) = [[kA, kA]] := by decide

/-- `ReactionS([B, A], [M], 'bind21')`: sorted members, automatic name; `rtype = None`; look-up by name -/
example :
    (reactionRequestFull {} 0 (some [("B", .c kB), ("A", .c kA)]) (some [("A", .m kM)]) (some "bind21") none).2.1 = .ret 0 true ∧
    (reactionRequestFull {} 0 (some [("B", .c kB), ("A", .c kA)]) (some [("A", .m kM)]) (some "bind21") none).1.objs.map
      (fun o => (o.name, o.canon)) = [("[bind21] A + B -> A", ([.c kA, .c kB], [.m kM], some "bind21"))] ∧
    (reactionRequestFull {} 0 (some [("A", .c kA)]) (some [("B", .c kB)]) none none).1.objs.map (·.name) =
      ["[None] A -> B"] ∧
    (reactionRequestFull {} 0 none none none (some "r")).2.1 = .singletonErr none ∧
    (reactionRequestFull {} 0 none none (some "x") (some "r")).2.1 = .fault "TypeError" ∧
    (reactionRequestFull {} 0 (some []) none none none).2.1 = .fault "TypeError" := by decide

/-! ### FINDINGS -/

/-- FINDING 2 (a reaction side mixing complexes and macrostates).  `sorted([x.canonical_form …])` compares the
    canonical form of a complex (a tuple of tuples) with that of a macrostate (a tuple of `ComplexS` objects); the
    reflected `ComplexS.__gt__` asserts `isinstance(other, ComplexS)`: AssertionError.  `reactionRequest` sorts complexes
    before macrostates (`memLt`) and creates the reaction.  (Reproduced on the code: `ReactionS([A, M], [B], 'x')`
    raises AssertionError.) -/
theorem finding_mixed_members :
    (reactionRequestFull {} 0 (some [("A", .c kA), ("M", .m kM)]) (some [("B", .c kB)]) (some "x") none).2.1 = .assertion ∧
    (reactionRequest {} 0 (some [("A", .c kA), ("M", .m kM)]) (some [("B", .c kB)]) (some "x") none).2.1 = .ret 0 true ∧
    -- also on the product side, and before a missing `products` is noticed
    (reactionRequestFull {} 0 (some [("B", .c kB)]) (some [("M", .m kM), ("A", .c kA)]) (some "x") none).2.1 = .assertion ∧
    (reactionRequestFull {} 0 (some [("A", .c kA), ("M", .m kM)]) none (some "x") none).2.1 = .assertion ∧
    (reactionRequest {} 0 (some [("A", .c kA), ("M", .m kM)]) none (some "x") none).2.1 = .fault "TypeError" := by decide

/-- FINDING 1 again (an explicitly given empty name is falsy in `Singleton.__call__`): `ReactionS(…, name = '')` is a
    look-up by canonical form and raises SingletonError for a new reaction; `reactionRequest` creates a reaction
    named `""`. -/
theorem finding_empty_name_reaction :
    (reactionRequestFull {} 0 (some [("A", .c kA)]) (some [("B", .c kB)]) none (some "")).2.1 = .singletonErr none ∧
    (reactionRequest {} 0 (some [("A", .c kA)]) (some [("B", .c kB)]) none (some "")).2.1 = .ret 0 true := by decide

/- FINDING 3 (not representable in the request types, which do not distinguish positional from keyword arguments;
   read off the code and reproduced on it).  When `identifiers` supplies the name (`kwadd['name']`, i.e. the caller's
   name is `None`) and the caller passed that `None` POSITIONALLY — `MacrostateS([A, B], None)`,
   `ReactionS(r, p, 'bind21', None)` — `Singleton.__call__` forwards `*args` unchanged together with `name = …` in
   `kwargs`, and `__init__` raises `TypeError: got multiple values for argument 'name'` (only when the object has to be
   created; a look-up of an existing one succeeds). -/

end Ex

end Dsd.C11
