import DsdVerif.Props.C19Complete

namespace Dsd.C19
open Dsd.PP Dsd.Gen Dsd.PP.Ssw Dsd.PP.Tabs

/-! C19: the statement forms that had no round-trip theorem, in the text format of Props/C19More.lean / C19Doc.lean
(blanks after the commas), as `Ssw.StmtText` instances (for `document_rt`) and as `*_rt` theorems; then the summary
statements of the layout clause — one per statement kind: ANY blank/tab separators at EVERY token boundary —, the
gaps the grammar does restrict (kernel-checked), and closed examples. -/

/-! ### the separator lists of a template -/

theorem sepsOK_tmTail (toks : List (List Char)) (ws : List (List Char)) :
    SepsOK (tmTail toks) ws ↔ ws.length = toks.length ∧ ∀ w ∈ ws, IsSep w := by
  induction toks generalizing ws with
  | nil =>
    constructor
    · intro h; have : ws = [] := h; subst this; simp
    · intro h; exact List.length_eq_zero_iff.mp h.1
  | cons t toks ih =>
    rw [tmTail_cons]
    cases ws with
    | nil => simp [SepsOK]
    | cons w ws =>
      simp only [SepsOK, List.length_cons, List.mem_cons, forall_eq_or_imp, ih ws]
      constructor
      · rintro ⟨h1, _, h2, h3⟩; exact ⟨by omega, h1, h3⟩
      · rintro ⟨h1, h2, h3⟩; exact ⟨h2, by simp, by omega, h3⟩

/-- `SepsOK (tmOf t0 toks) ws`: exactly one blank/tab separator (possibly empty) per token boundary -/
theorem sepsOK_tmOf (t0 : List Char) (toks : List (List Char)) (ws : List (List Char)) :
    SepsOK (tmOf t0 toks) ws ↔ ws.length = toks.length ∧ ∀ w ∈ ws, IsSep w := sepsOK_tmTail toks ws

/-! ### the layout clause, one statement per kind: any blank/tab separators at every token boundary

`renderW (tmOf t0 [t1, …, tn]) [w1, …, wn] = t0 ++ w1 ++ t1 ++ … ++ wn ++ tn`; every `wi` is any string of blanks
and tabs, the empty one included. -/

/-- `INPUT ( n ) = w [ a , b ]` — 10 boundaries -/
theorem input_layout (n a b : List Char) (hn : NameTok n) (ha : Digits a) (hb : NumOrF b) (ws : List (List Char))
    (hlen : ws.length = (inputToks n a b).length) (hsep : ∀ w ∈ ws, IsSep w) :
    StmtTextT (renderW (tmOf ['I', 'N', 'P', 'U', 'T'] (inputToks n a b)) ws)
      (.grp [.tok "INPUT", .grp [tokOf n], .grp [.tok "w", .grp [tokOf a, tokOf b]]]) :=
  (kind_input n a b hn ha hb).textT ws ((sepsOK_tmOf _ _ ws).mpr ⟨hlen, hsep⟩)

/-- `OUTPUT ( n ) = w [ a , b ]` / `OUTPUT ( n ) = Fluor [ f ]` -/
theorem output_layout (n : List Char) (hn : NameTok n) {TV : List (List Char)} {tv : Tree} (hV : OutVal TV tv)
    (ws : List (List Char)) (hlen : ws.length = (outputToks n TV).length) (hsep : ∀ w ∈ ws, IsSep w) :
    StmtTextT (renderW (tmOf ['O', 'U', 'T', 'P', 'U', 'T'] (outputToks n TV)) ws)
      (.grp [.tok "OUTPUT", .grp [tokOf n], tv]) :=
  (kind_output n hn hV).textT ws ((sepsOK_tmOf _ _ ws).mpr ⟨hlen, hsep⟩)

/-- `seesaw [ n , { i0 , … } , { o0 , … } ]` — lists of any length, a separator around every element and comma -/
theorem seesaw_layout (n i0 o0 : List Char) (is os : List (List Char)) (hn : Digits n) (hi0 : Digits i0)
    (ho0 : NumOrF o0) (his : ∀ y ∈ is, Digits y) (hos : ∀ y ∈ os, NumOrF y) (ws : List (List Char))
    (hlen : ws.length = (seesawToks n i0 is o0 os).length) (hsep : ∀ w ∈ ws, IsSep w) :
    StmtTextT (renderW (tmOf ['s', 'e', 'e', 's', 'a', 'w'] (seesawToks n i0 is o0 os)) ws)
      (.grp [.tok "seesaw", .grp [tokOf n, .grp ((i0 :: is).map tokOf), .grp ((o0 :: os).map tokOf)]]) :=
  (kind_seesaw n i0 o0 is os hn hi0 ho0 his hos).textT ws ((sepsOK_tmOf _ _ ws).mpr ⟨hlen, hsep⟩)

/-- `conc [ X , v * c ]`, `X` a wire / gate / threshold in either argument order, `v` any number form -/
theorem conc_layout {TX : List (List Char)} {tx : Tree} (hX : ConcArg TX tx) (v : List Char) (hv : GorfTok v)
    (ws : List (List Char)) (hlen : ws.length = (concTail TX v).length) (hsep : ∀ w ∈ ws, IsSep w) :
    StmtTextT (renderW (tmOf ['c', 'o', 'n', 'c'] (concTail TX v)) ws) (.grp [.tok "conc", tx, tokOf v]) :=
  (kind_conc hX v hv).textT ws ((sepsOK_tmOf _ _ ws).mpr ⟨hlen, hsep⟩)

/-- `reporter [ a , b ]` -/
theorem reporter_layout (a b : List Char) (ha : Digits a) (hb : Digits b) (ws : List (List Char))
    (hlen : ws.length = (reporterToks a b).length) (hsep : ∀ w ∈ ws, IsSep w) :
    StmtTextT (renderW (tmOf ['r', 'e', 'p', 'o', 'r', 't', 'e', 'r'] (reporterToks a b)) ws)
      (.grp [.tok "reporter", .grp [tokOf a, tokOf b]]) :=
  (kind_reporter a b ha hb).textT ws ((sepsOK_tmOf _ _ ws).mpr ⟨hlen, hsep⟩)

/-- `inputfanout [ a , b , { x0 , … } ]` -/
theorem inputfanout_layout (a b x0 : List Char) (xs : List (List Char)) (ha : Digits a) (hb : Digits b)
    (h0 : Digits x0) (hxs : ∀ y ∈ xs, Digits y) (ws : List (List Char))
    (hlen : ws.length = (fanoutToks a b x0 xs).length) (hsep : ∀ w ∈ ws, IsSep w) :
    StmtTextT (renderW (tmOf ['i', 'n', 'p', 'u', 't', 'f', 'a', 'n', 'o', 'u', 't'] (fanoutToks a b x0 xs)) ws)
      (.grp [.tok "inputfanout", .grp [tokOf a, tokOf b, .grp ((x0 :: xs).map tokOf)]]) :=
  (kind_inputfanout a b x0 xs ha hb h0 hxs).textT ws ((sepsOK_tmOf _ _ ws).mpr ⟨hlen, hsep⟩)

/-- `seesawOR [ a , b , { x0 , … } , { y0 , … } ]` -/
theorem seesawOR_layout (a b x0 y0 : List Char) (xs ys : List (List Char)) (ha : Digits a) (hb : Digits b)
    (hx0 : Digits x0) (hy0 : Digits y0) (hxs : ∀ y ∈ xs, Digits y) (hys : ∀ y ∈ ys, Digits y)
    (ws : List (List Char)) (hlen : ws.length = (twoListToks a b x0 xs y0 ys).length) (hsep : ∀ w ∈ ws, IsSep w) :
    StmtTextT (renderW (tmOf ['s', 'e', 'e', 's', 'a', 'w', 'O', 'R'] (twoListToks a b x0 xs y0 ys)) ws)
      (.grp [.tok "seesawOR", .grp [tokOf a, tokOf b, .grp ((x0 :: xs).map tokOf), .grp ((y0 :: ys).map tokOf)]]) :=
  (kind_seesawOR a b x0 y0 xs ys ha hb hx0 hy0 hxs hys).textT ws ((sepsOK_tmOf _ _ ws).mpr ⟨hlen, hsep⟩)

/-- `seesawAND [ a , b , { x0 , … } , { y0 , … } ]` -/
theorem seesawAND_layout (a b x0 y0 : List Char) (xs ys : List (List Char)) (ha : Digits a) (hb : Digits b)
    (hx0 : Digits x0) (hy0 : Digits y0) (hxs : ∀ y ∈ xs, Digits y) (hys : ∀ y ∈ ys, Digits y)
    (ws : List (List Char)) (hlen : ws.length = (twoListToks a b x0 xs y0 ys).length) (hsep : ∀ w ∈ ws, IsSep w) :
    StmtTextT (renderW (tmOf ['s', 'e', 'e', 's', 'a', 'w', 'A', 'N', 'D'] (twoListToks a b x0 xs y0 ys)) ws)
      (.grp [.tok "seesawAND", .grp [tokOf a, tokOf b, .grp ((x0 :: xs).map tokOf), .grp ((y0 :: ys).map tokOf)]]) :=
  (kind_seesawAND a b x0 y0 xs ys ha hb hx0 hy0 hxs hys).textT ws ((sepsOK_tmOf _ _ ws).mpr ⟨hlen, hsep⟩)

/-- the INPUT template, spelled out -/
theorem input_layout_explicit (n a b : List Char) (hn : NameTok n) (ha : Digits a) (hb : NumOrF b)
    (w1 w2 w3 w4 w5 w6 w7 w8 w9 w10 : List Char)
    (h : ∀ w ∈ [w1, w2, w3, w4, w5, w6, w7, w8, w9, w10], IsSep w) :
    StmtTextT ("INPUT".toList ++ w1 ++ ['('] ++ w2 ++ n ++ w3 ++ [')'] ++ w4 ++ ['='] ++ w5 ++ ['w'] ++ w6 ++ ['['] ++
        w7 ++ a ++ w8 ++ [','] ++ w9 ++ b ++ w10 ++ [']'])
      (.grp [.tok "INPUT", .grp [tokOf n], .grp [.tok "w", .grp [tokOf a, tokOf b]]]) := by
  have := input_layout n a b hn ha hb [w1, w2, w3, w4, w5, w6, w7, w8, w9, w10] rfl h
  simpa [tmOf, tmTail, inputToks, wireToks, renderW, List.append_assoc] using this

/-! ### the forms without a round-trip theorem so far, in the text format of Props/C19More.lean

`NameTok n`: a number or an identifier; `NumOrF b`: a number or `f`; `GorfTok v`: an integer, a decimal `v.w`, or
a scientific number `m e [+|-] x` with `m` an integer or a decimal. -/

/-- `INPUT(n) = w[a, b]`: identifier names, `f` targets -/
theorem stmtText_input_gen (n a b : List Char) (hn : NameTok n) (ha : Digits a) (hb : NumOrF b) (k1 k2 k3 : Nat) :
    StmtText ("INPUT(".toList ++ n ++ [')'] ++ blanks k1 ++ ['='] ++ blanks k2 ++ renderWire a b k3)
      (.grp [.tok "INPUT", .grp [tokOf n], wireTree a b]) := by
  have := (kind_input n a b hn ha hb).text
    [(0, ['(']), (0, n), (0, [')']), (k1, ['=']), (k2, ['w']), (0, ['[']), (0, a), (0, [',']), (k3, b), (0, [']'])] rfl
  simpa [txt, renderWire, blanks, wireTree, tokOf] using this

/-- `OUTPUT(n) = w[a, b]`: identifier names, `f` targets -/
theorem stmtText_output_wire_gen (n a b : List Char) (hn : NameTok n) (ha : Digits a) (hb : NumOrF b)
    (k1 k2 k3 : Nat) :
    StmtText ("OUTPUT(".toList ++ n ++ [')'] ++ blanks k1 ++ ['='] ++ blanks k2 ++ renderWire a b k3)
      (.grp [.tok "OUTPUT", .grp [tokOf n], wireTree a b]) := by
  have := (kind_output n hn (OutVal.wire a b ha hb)).text
    [(0, ['(']), (0, n), (0, [')']), (k1, ['=']), (k2, ['w']), (0, ['[']), (0, a), (0, [',']), (k3, b), (0, [']'])] rfl
  simpa [txt, renderWire, blanks, wireTree, tokOf, wireT] using this

/-- `OUTPUT(n) = Fluor[f]`: identifier names -/
theorem stmtText_output_fluor_gen (n f : List Char) (hn : NameTok n) (hf : Digits f) (k1 k2 : Nat) :
    StmtText ("OUTPUT(".toList ++ n ++ [')'] ++ blanks k1 ++ ['='] ++ blanks k2 ++ "Fluor[".toList ++ f ++ [']'])
      (.grp [.tok "OUTPUT", .grp [tokOf n], .grp [.tok "Fluor", tokOf f]]) := by
  have := (kind_output n hn (OutVal.fluor f hf)).text
    [(0, ['(']), (0, n), (0, [')']), (k1, ['=']), (k2, ['F', 'l', 'u', 'o', 'r']), (0, ['[']), (0, f), (0, [']'])] rfl
  simpa [txt, blanks, tokOf] using this

/-- `conc[w[a, b], v*c]`, every number form -/
theorem stmtText_conc_wire (a b v : List Char) (ha : Digits a) (hb : NumOrF b) (hv : GorfTok v) (k3 k : Nat) :
    StmtText ("conc[".toList ++ renderWire a b k3 ++ [','] ++ blanks k ++ v ++ "*c]".toList)
      (.grp [.tok "conc", wireTree a b, tokOf v]) := by
  have := (kind_conc (ConcArg.wire a b ha hb) v hv).text
    [(0, ['[']), (0, ['w']), (0, ['[']), (0, a), (0, [',']), (k3, b), (0, [']']), (0, [',']), (k, v), (0, ['*']),
      (0, ['c']), (0, [']'])] rfl
  simpa [txt, renderWire, blanks, wireTree, tokOf, wireT] using this

/-- `conc[g[w[a, b], n], v*c]`, every number form -/
theorem stmtText_conc_gateO (a b n v : List Char) (ha : Digits a) (hb : NumOrF b) (hn : Digits n) (hv : GorfTok v)
    (k3 k4 k5 : Nat) :
    StmtText ("conc[g[".toList ++ renderWire a b k3 ++ [','] ++ blanks k4 ++ n ++ "],".toList ++ blanks k5 ++ v ++
        "*c]".toList)
      (.grp [.tok "conc", .grp [.tok "g", .grp [wireTree a b, tokOf n]], tokOf v]) := by
  have := (kind_conc (ConcArg.gateO a b n ha hb hn) v hv).text
    [(0, ['[']), (0, ['g']), (0, ['[']), (0, ['w']), (0, ['[']), (0, a), (0, [',']), (k3, b), (0, [']']), (0, [',']),
      (k4, n), (0, [']']), (0, [',']), (k5, v), (0, ['*']), (0, ['c']), (0, [']'])] rfl
  simpa [txt, renderWire, blanks, wireTree, tokOf, wireT] using this

/-- `conc[g[n, w[a, b]], v*c]`, every number form -/
theorem stmtText_conc_gateI (a b n v : List Char) (ha : Digits a) (hb : NumOrF b) (hn : Digits n) (hv : GorfTok v)
    (k3 k4 k5 : Nat) :
    StmtText ("conc[g[".toList ++ n ++ [','] ++ blanks k4 ++ renderWire a b k3 ++ "],".toList ++ blanks k5 ++ v ++
        "*c]".toList)
      (.grp [.tok "conc", .grp [.tok "g", .grp [tokOf n, wireTree a b]], tokOf v]) := by
  have := (kind_conc (ConcArg.gateI a b n ha hb hn) v hv).text
    [(0, ['[']), (0, ['g']), (0, ['[']), (0, n), (0, [',']), (k4, ['w']), (0, ['[']), (0, a), (0, [',']), (k3, b),
      (0, [']']), (0, [']']), (0, [',']), (k5, v), (0, ['*']), (0, ['c']), (0, [']'])] rfl
  simpa [txt, renderWire, blanks, wireTree, tokOf, wireT] using this

/-- `conc[th[w[a, b], n], v*c]`, every number form -/
theorem stmtText_conc_thO (a b n v : List Char) (ha : Digits a) (hb : NumOrF b) (hn : Digits n) (hv : GorfTok v)
    (k3 k4 k5 : Nat) :
    StmtText ("conc[th[".toList ++ renderWire a b k3 ++ [','] ++ blanks k4 ++ n ++ "],".toList ++ blanks k5 ++ v ++
        "*c]".toList)
      (.grp [.tok "conc", .grp [.tok "th", .grp [wireTree a b, tokOf n]], tokOf v]) := by
  have := (kind_conc (ConcArg.thO a b n ha hb hn) v hv).text
    [(0, ['[']), (0, ['t', 'h']), (0, ['[']), (0, ['w']), (0, ['[']), (0, a), (0, [',']), (k3, b), (0, [']']),
      (0, [',']), (k4, n), (0, [']']), (0, [',']), (k5, v), (0, ['*']), (0, ['c']), (0, [']'])] rfl
  simpa [txt, renderWire, blanks, wireTree, tokOf, wireT] using this

/-- `conc[th[n, w[a, b]], v*c]` — the threshold with the number first —, every number form -/
theorem stmtText_conc_thI (a b n v : List Char) (ha : Digits a) (hb : NumOrF b) (hn : Digits n) (hv : GorfTok v)
    (k3 k4 k5 : Nat) :
    StmtText ("conc[th[".toList ++ n ++ [','] ++ blanks k4 ++ renderWire a b k3 ++ "],".toList ++ blanks k5 ++ v ++
        "*c]".toList)
      (.grp [.tok "conc", .grp [.tok "th", .grp [tokOf n, wireTree a b]], tokOf v]) := by
  have := (kind_conc (ConcArg.thI a b n ha hb hn) v hv).text
    [(0, ['[']), (0, ['t', 'h']), (0, ['[']), (0, n), (0, [',']), (k4, ['w']), (0, ['[']), (0, a), (0, [',']),
      (k3, b), (0, [']']), (0, [']']), (0, [',']), (k5, v), (0, ['*']), (0, ['c']), (0, [']'])] rfl
  simpa [txt, renderWire, blanks, wireTree, tokOf, wireT] using this

/-! #### `f` in the output list of `seesaw` -/

/-- `, y1, y2 …` as a stream -/
def tailS (ys : List (List Char)) : Stream := ys.flatMap (fun y => [(0, [',']), (1, y)])

theorem tailS_toks (ys : List (List Char)) : (tailS ys).map Prod.snd = tailToks ys := by
  induction ys with
  | nil => rfl
  | cons y ys ih => rw [tailToks_cons]; simp [tailS] at ih ⊢; exact ih

theorem txt_tailS (ys : List (List Char)) (R : List Char) : txt (tailS ys) R = tailR ys ++ R := by
  induction ys with
  | nil => rfl
  | cons y ys ih =>
    have : tailS (y :: ys) = (0, [',']) :: (1, y) :: tailS ys := by simp [tailS]
    rw [this]
    simp [txt, tailR, ih]

theorem split_list {Q : List Char → Prop} {xs : List (List Char)} (h : xs ≠ [] ∧ ∀ x ∈ xs, Q x) :
    ∃ x0 xs', xs = x0 :: xs' ∧ Q x0 ∧ ∀ y ∈ xs', Q y := by
  obtain ⟨hne, hall⟩ := h
  cases xs with
  | nil => exact absurd rfl hne
  | cons x0 xs' => exact ⟨x0, xs', rfl, hall x0 List.mem_cons_self, fun y hy => hall y (List.mem_cons_of_mem _ hy)⟩

/-- `seesaw[n, {i…}, {o…}]` with output lists of numbers and `f` -/
theorem stmtText_seesaw_f (n : List Char) (ins outs : List (List Char)) (hn : Digits n)
    (hi : ins ≠ [] ∧ ∀ x ∈ ins, Digits x) (ho : outs ≠ [] ∧ ∀ x ∈ outs, NumOrF x) :
    StmtText ("seesaw[".toList ++ n ++ ", ".toList ++ braces ins ++ ", ".toList ++ braces outs ++ [']'])
      (.grp [.tok "seesaw", .grp [tokOf n, .grp (ins.map tokOf), .grp (outs.map tokOf)]]) := by
  obtain ⟨i0, is, rfl, hi0, his⟩ := split_list hi
  obtain ⟨o0, os, rfl, ho0, hos⟩ := split_list ho
  have := (kind_seesaw n i0 o0 is os hn hi0 ho0 his hos).text
    ((0, ['[']) :: (((0, n) :: (0, [',']) :: (((1, ['{']) :: (0, i0) :: (tailS is ++ [(0, ['}'])])) ++
      ((0, [',']) :: ((1, ['{']) :: (0, o0) :: (tailS os ++ [(0, ['}'])]))))) ++ [(0, [']'])]))
    (by simp [seesawToks, braceToks, tailS_toks])
  simpa [txt, txt_append, txt_tailS, braces, renderList_cons, tokOf] using this

/-! #### the one-line documents -/

theorem input_gen_rt (n a b : List Char) (hn : NameTok n) (ha : Digits a) (hb : NumOrF b) (k1 k2 k3 : Nat) :
    parseDoc ssw_env ssw_grammar (String.ofList
      ("INPUT(".toList ++ n ++ [')'] ++ blanks k1 ++ ['='] ++ blanks k2 ++ renderWire a b k3 ++ ['\n'])) =
    some [.grp [.tok "INPUT", .grp [tokOf n], wireTree a b]] :=
  stmt_rt _ _ (stmtText_input_gen n a b hn ha hb k1 k2 k3)

theorem output_wire_gen_rt (n a b : List Char) (hn : NameTok n) (ha : Digits a) (hb : NumOrF b) (k1 k2 k3 : Nat) :
    parseDoc ssw_env ssw_grammar (String.ofList
      ("OUTPUT(".toList ++ n ++ [')'] ++ blanks k1 ++ ['='] ++ blanks k2 ++ renderWire a b k3 ++ ['\n'])) =
    some [.grp [.tok "OUTPUT", .grp [tokOf n], wireTree a b]] :=
  stmt_rt _ _ (stmtText_output_wire_gen n a b hn ha hb k1 k2 k3)

theorem output_fluor_gen_rt (n f : List Char) (hn : NameTok n) (hf : Digits f) (k1 k2 : Nat) :
    parseDoc ssw_env ssw_grammar (String.ofList
      ("OUTPUT(".toList ++ n ++ [')'] ++ blanks k1 ++ ['='] ++ blanks k2 ++ "Fluor[".toList ++ f ++ [']'] ++ ['\n'])) =
    some [.grp [.tok "OUTPUT", .grp [tokOf n], .grp [.tok "Fluor", tokOf f]]] :=
  stmt_rt _ _ (stmtText_output_fluor_gen n f hn hf k1 k2)

theorem conc_wire_gen_rt (a b v : List Char) (ha : Digits a) (hb : NumOrF b) (hv : GorfTok v) (k3 k : Nat) :
    parseDoc ssw_env ssw_grammar (String.ofList
      ("conc[".toList ++ renderWire a b k3 ++ [','] ++ blanks k ++ v ++ "*c]".toList ++ ['\n'])) =
    some [.grp [.tok "conc", wireTree a b, tokOf v]] :=
  stmt_rt _ _ (stmtText_conc_wire a b v ha hb hv k3 k)

theorem conc_gateO_gen_rt (a b n v : List Char) (ha : Digits a) (hb : NumOrF b) (hn : Digits n) (hv : GorfTok v)
    (k3 k4 k5 : Nat) :
    parseDoc ssw_env ssw_grammar (String.ofList
      ("conc[g[".toList ++ renderWire a b k3 ++ [','] ++ blanks k4 ++ n ++ "],".toList ++ blanks k5 ++ v ++
        "*c]".toList ++ ['\n'])) =
    some [.grp [.tok "conc", .grp [.tok "g", .grp [wireTree a b, tokOf n]], tokOf v]] :=
  stmt_rt _ _ (stmtText_conc_gateO a b n v ha hb hn hv k3 k4 k5)

theorem conc_gateI_gen_rt (a b n v : List Char) (ha : Digits a) (hb : NumOrF b) (hn : Digits n) (hv : GorfTok v)
    (k3 k4 k5 : Nat) :
    parseDoc ssw_env ssw_grammar (String.ofList
      ("conc[g[".toList ++ n ++ [','] ++ blanks k4 ++ renderWire a b k3 ++ "],".toList ++ blanks k5 ++ v ++
        "*c]".toList ++ ['\n'])) =
    some [.grp [.tok "conc", .grp [.tok "g", .grp [tokOf n, wireTree a b]], tokOf v]] :=
  stmt_rt _ _ (stmtText_conc_gateI a b n v ha hb hn hv k3 k4 k5)

theorem conc_thO_gen_rt (a b n v : List Char) (ha : Digits a) (hb : NumOrF b) (hn : Digits n) (hv : GorfTok v)
    (k3 k4 k5 : Nat) :
    parseDoc ssw_env ssw_grammar (String.ofList
      ("conc[th[".toList ++ renderWire a b k3 ++ [','] ++ blanks k4 ++ n ++ "],".toList ++ blanks k5 ++ v ++
        "*c]".toList ++ ['\n'])) =
    some [.grp [.tok "conc", .grp [.tok "th", .grp [wireTree a b, tokOf n]], tokOf v]] :=
  stmt_rt _ _ (stmtText_conc_thO a b n v ha hb hn hv k3 k4 k5)

theorem conc_thI_gen_rt (a b n v : List Char) (ha : Digits a) (hb : NumOrF b) (hn : Digits n) (hv : GorfTok v)
    (k3 k4 k5 : Nat) :
    parseDoc ssw_env ssw_grammar (String.ofList
      ("conc[th[".toList ++ n ++ [','] ++ blanks k4 ++ renderWire a b k3 ++ "],".toList ++ blanks k5 ++ v ++
        "*c]".toList ++ ['\n'])) =
    some [.grp [.tok "conc", .grp [.tok "th", .grp [tokOf n, wireTree a b]], tokOf v]] :=
  stmt_rt _ _ (stmtText_conc_thI a b n v ha hb hn hv k3 k4 k5)

theorem seesaw_f_rt (n : List Char) (ins outs : List (List Char)) (hn : Digits n)
    (hi : ins ≠ [] ∧ ∀ x ∈ ins, Digits x) (ho : outs ≠ [] ∧ ∀ x ∈ outs, NumOrF x) :
    parseDoc ssw_env ssw_grammar (String.ofList
      ("seesaw[".toList ++ n ++ ", ".toList ++ braces ins ++ ", ".toList ++ braces outs ++ [']'] ++ ['\n'])) =
    some [.grp [.tok "seesaw", .grp [tokOf n, .grp (ins.map tokOf), .grp (outs.map tokOf)]]] :=
  stmt_rt _ _ (stmtText_seesaw_f n ins outs hn hi ho)

/-- the number forms -/
theorem gorf_int (v : List Char) (hv : Digits v) : GorfTok v := .flt (.int v hv)
theorem gorf_dec (v w : List Char) (hv : Digits v) (hw : Digits w) : GorfTok (v ++ ['.'] ++ w) := by
  simpa using GorfTok.flt (Mant.dec v w hv hw)
theorem gorf_sci (v x : List Char) (hv : Digits v) (hx : Digits x) : GorfTok (v ++ ['e'] ++ x) := by
  simpa using GorfTok.sci (Mant.int v hv) Sign.none x hx
theorem gorf_sci_minus (v x : List Char) (hv : Digits v) (hx : Digits x) : GorfTok (v ++ "e-".toList ++ x) := by
  simpa using GorfTok.sci (Mant.int v hv) Sign.minus x hx
theorem gorf_sci_plus (v x : List Char) (hv : Digits v) (hx : Digits x) : GorfTok (v ++ "e+".toList ++ x) := by
  simpa using GorfTok.sci (Mant.int v hv) Sign.plus x hx
theorem gorf_dec_sci (v w x : List Char) (hv : Digits v) (hw : Digits w) (hx : Digits x) :
    GorfTok (v ++ ['.'] ++ w ++ ['e'] ++ x) := by
  simpa using GorfTok.sci (Mant.dec v w hv hw) Sign.none x hx
theorem gorf_dec_sci_minus (v w x : List Char) (hv : Digits v) (hw : Digits w) (hx : Digits x) :
    GorfTok (v ++ ['.'] ++ w ++ "e-".toList ++ x) := by
  simpa using GorfTok.sci (Mant.dec v w hv hw) Sign.minus x hx
theorem gorf_dec_sci_plus (v w x : List Char) (hv : Digits v) (hw : Digits w) (hx : Digits x) :
    GorfTok (v ++ ['.'] ++ w ++ "e+".toList ++ x) := by
  simpa using GorfTok.sci (Mant.dec v w hv hw) Sign.plus x hx

end Dsd.C19
