/-
`ComplexS.is_domainlevel_complement` AS WRITTEN in the working tree (Gen/PyComplexS2.lean, transcribed statement by statement by
translator/pycomplex2.py) is the model `isDomainLevelComplement` of Model/Dlc.lean on every coherent object, and the C08 theorems about
the model (Props/C08Dlc.lean) are therefore statements about the code.

Reading (translator/pycomplex2.py): a domain object is the pair (name, `lenOf` name) that `DomainS.__eq__` compares (checked against
the source); `~d` is the PARAMETER `invert`, instantiated here with the model's name toggle `nameToggle` (`Dom.compl`: complementary
name, same length) - the registry request behind `DomainS.complement` is outside this translation.

  equality      `py_dlc_eq` (any cached tables, also those of a previous rotation: `PCoh` says a non-empty cache IS the table of the
                current sequence / structure; zero-length domains are ordinary domains: no truth value of a domain is taken)
  transferred   `py_dlc_true_iff`, `py_dlc_false_iff`, `py_dlc_total`, `py_dlc_error`, `py_dlc_of_make_pair_table`
  no structure  `py_dlc_no_pair_table`: the exception of `make_pair_table`, object unchanged
-/
import DsdVerif.Lemmas.PyObj2Dlc
import DsdVerif.Props.C08Dlc

namespace Dsd.PyComplexS2
open Dsd Gen PyObj PyObj2

/-- the answer of the property as written -/
def pyDlc (lenOf : String → Nat) (s : ComplexS.Self) : Except Err Bool :=
  ((py_ComplexS_is_domainlevel_complement lenOf nameToggle).exec s).1

/-- the strand table of domains `(name, lenOf name)` of the object's current sequence -/
def doms (lenOf : String → Nat) (s : ComplexS.Self) : List (List Dom) := domTable lenOf (makeStrandTableList "+" s._sequence)

/-- **the property as written = the model**, for every coherent object; it stays coherent and keeps its representation -/
theorem py_dlc_eq (lenOf : String → Nat) (s : ComplexS.Self) (h : PCoh s) :
    ∃ s', (py_ComplexS_is_domainlevel_complement lenOf nameToggle).exec s =
        (match makePairTable s._structure with
         | .error e => .error e
         | .ok t => isDomainLevelComplement (doms lenOf s) t, s') ∧
      PCoh s' ∧ SameRepS s s' := PyObj2.py_dlc_eq lenOf s h

theorem pyDlc_eq (lenOf : String → Nat) (s : ComplexS.Self) (h : PCoh s) (t : PairTable) (hm : makePairTable s._structure = .ok t) :
    pyDlc lenOf s = isDomainLevelComplement (doms lenOf s) t := by
  obtain ⟨s', hex, _⟩ := py_dlc_eq lenOf s h
  unfold pyDlc; rw [hex, hm]

/-- a structure without a pair table: the exception of `make_pair_table` -/
theorem py_dlc_no_pair_table (lenOf : String → Nat) (s : ComplexS.Self) (h : PCoh s) (e : Err) (hm : makePairTable s._structure = .error e) :
    pyDlc lenOf s = .error e := by
  obtain ⟨s', hex, _⟩ := py_dlc_eq lenOf s h
  unfold pyDlc; rw [hex, hm]

/-! ### the C08 theorems, transferred to the code as written -/

/-- `True` exactly when every pair joins a domain with its complement (name and length) -/
theorem py_dlc_true_iff (lenOf : String → Nat) (s : ComplexS.Self) (h : PCoh s) (t : PairTable) (hm : makePairTable s._structure = .ok t) :
    pyDlc lenOf s = .ok true ↔
      ∀ l l', C06.ptGet t l = some l' →
        ∃ d d', getL (doms lenOf s) l = some d ∧ getL (doms lenOf s) l' = some d' ∧ d.name = compName d'.name ∧ d.len = d'.len := by
  rw [pyDlc_eq lenOf s h t hm]; exact C08.dlc_true_iff_unconditional _ t

/-- the only exception is IndexError, and it means that some pair has an end outside the strand table -/
theorem py_dlc_error (lenOf : String → Nat) (s : ComplexS.Self) (h : PCoh s) (t : PairTable) (hm : makePairTable s._structure = .ok t)
    (e : Err) (he : pyDlc lenOf s = .error e) :
    e = .fault "IndexError" ∧ ∃ l l', C06.ptGet t l = some l' ∧ (getL (doms lenOf s) l = none ∨ getL (doms lenOf s) l' = none) := by
  rw [pyDlc_eq lenOf s h t hm] at he; exact C08.dlc_error _ t e he

/-- no exception when sequence and structure have their strand breaks at the same places -/
theorem py_dlc_total (lenOf : String → Nat) (s : ComplexS.Self) (h : PCoh s) (t : PairTable) (hm : makePairTable s._structure = .ok t)
    (hshape : (doms lenOf s).map List.length = t.map List.length) : ∃ b, pyDlc lenOf s = .ok b := by
  rw [pyDlc_eq lenOf s h t hm]; exact (C08.dlc_of_make_pair_table s._structure '+' t _ hm hshape).2.2.1

/-- `False` exactly when some pair joins two domains that are not complements -/
theorem py_dlc_false_iff (lenOf : String → Nat) (s : ComplexS.Self) (h : PCoh s) (t : PairTable) (hm : makePairTable s._structure = .ok t)
    (hshape : (doms lenOf s).map List.length = t.map List.length) :
    pyDlc lenOf s = .ok false ↔
      ¬ ∀ l l', C06.ptGet t l = some l' →
        ∃ d d', getL (doms lenOf s) l = some d ∧ getL (doms lenOf s) l' = some d' ∧ d.name = compName d'.name ∧ d.len = d'.len := by
  rw [pyDlc_eq lenOf s h t hm]; exact (C08.dlc_of_make_pair_table s._structure '+' t _ hm hshape).2.2.2

/-- all of it for the table `make_pair_table` builds of the object's structure -/
theorem py_dlc_of_make_pair_table (lenOf : String → Nat) (s : ComplexS.Self) (h : PCoh s) (t : PairTable)
    (hm : makePairTable s._structure = .ok t) (hshape : (doms lenOf s).map List.length = t.map List.length) :
    (∀ l l', C06.ptGet t l = some l' → ValidL (t.map List.length) l') ∧
    (pyDlc lenOf s = .ok true ↔
      ∀ l l', C06.ptGet t l = some l' →
        ∃ d d', getL (doms lenOf s) l = some d ∧ getL (doms lenOf s) l' = some d' ∧ d.name = compName d'.name ∧ d.len = d'.len) ∧
    (∃ b, pyDlc lenOf s = .ok b) ∧
    (pyDlc lenOf s = .ok false ↔
      ¬ ∀ l l', C06.ptGet t l = some l' →
        ∃ d d', getL (doms lenOf s) l = some d ∧ getL (doms lenOf s) l' = some d' ∧ d.name = compName d'.name ∧ d.len = d'.len) := by
  rw [pyDlc_eq lenOf s h t hm]; exact C08.dlc_of_make_pair_table s._structure '+' t _ hm hshape

end Dsd.PyComplexS2

#print axioms Dsd.PyComplexS2.py_dlc_eq
#print axioms Dsd.PyComplexS2.py_dlc_no_pair_table
#print axioms Dsd.PyComplexS2.py_dlc_true_iff
#print axioms Dsd.PyComplexS2.py_dlc_false_iff
#print axioms Dsd.PyComplexS2.py_dlc_total
#print axioms Dsd.PyComplexS2.py_dlc_error
#print axioms Dsd.PyComplexS2.py_dlc_of_make_pair_table
