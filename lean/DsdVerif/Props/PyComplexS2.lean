/-
`ComplexS.is_domainlevel_complement` AS WRITTEN in the working tree (Gen/PyComplexS2.lean, transcribed statement by statement by
translator/pycomplex2.py) is the model `isDomainLevelComplement` of Model/Dlc.lean on every coherent object, and the C08 theorems about
the model (Props/C08Dlc.lean) are therefore statements about the code.

Reading (translator/pycomplex2.py): a domain object is the pair (name, `lenOf` name) that `DomainS.__eq__` compares (checked against
the source); `~d` is the PARAMETER `invert`, instantiated here with the model's name toggle `nameToggle` (`Dom.compl`: complementary
name, same length) - the registry request behind `DomainS.complement` is outside this translation.

  equality      `py_dlc_eq` (any cached tables, also those of a previous rotation: `PCoh` says a non-empty cache IS the table of the
                current sequence / structure; zero-length domains are ordinary domains: no truth value of a domain is taken)
  transferred   `py_dlc_true_iff`, `py_dlc_false_iff`, `py_dlc_total`, `py_dlc_error`, `py_dlc_of_make_pair_table`
  no structure  `py_dlc_no_pair_table`: the exception of `make_pair_table`, object unchanged

`ComplexS.split` AS WRITTEN (`list(self.split())`), with `self.__class__(nseq, nsst)` read as the PARAMETER `request`:
  `py_split_spec`        for EVERY `request`: the list yielded is `splitRun request` of the parts of `split_complex_pt` (as written) -
                         `request` applied to the components in order, a refusal with `existing` yields that object, the first refusal
                         without `existing` aborts (`splitRun_nil`, `splitRun_cons_*`)
  `py_split_components`  composed with `PyFuncs.py_split_spec`: with fuel `len(ptab) + 1` the parts ARE the connected components
  left: the composition with `World.splitC` (Model/World.lean), which needs the registry model as the instance of `request`
-/
import DsdVerif.Lemmas.PyObj2Dlc
import DsdVerif.Lemmas.PyObj2Split
import DsdVerif.Props.C08Dlc

namespace Dsd.PyComplexS2
open Dsd Gen PyObj PyObj2

/-- the answer of the property as written -/
def pyDlc (lenOf : String → Nat) (s : ComplexS.Self) : Except Err Bool :=
  ((py_ComplexS_is_domainlevel_complement lenOf nameToggle).exec s).1

/-- the strand table of domains `(name, lenOf name)` of the object's current sequence -/
def doms (lenOf : String → Nat) (s : ComplexS.Self) : List (List Dom) := domTable lenOf (makeStrandTableList "+" s._sequence)

/-- **the property as written = the model**, for every coherent object; it stays coherent and keeps its representation -/
theorem py_dlc_eq (lenOf : String → Nat) (s : ComplexS.Self) (h : PCoh s) :
    ∃ s', (py_ComplexS_is_domainlevel_complement lenOf nameToggle).exec s =
        (match makePairTable s._structure with
         | .error e => .error e
         | .ok t => isDomainLevelComplement (doms lenOf s) t, s') ∧
      PCoh s' ∧ SameRepS s s' := PyObj2.py_dlc_eq lenOf s h

theorem pyDlc_eq (lenOf : String → Nat) (s : ComplexS.Self) (h : PCoh s) (t : PairTable) (hm : makePairTable s._structure = .ok t) :
    pyDlc lenOf s = isDomainLevelComplement (doms lenOf s) t := by
  obtain ⟨s', hex, _⟩ := py_dlc_eq lenOf s h
  unfold pyDlc; rw [hex, hm]

/-- a structure without a pair table: the exception of `make_pair_table` -/
theorem py_dlc_no_pair_table (lenOf : String → Nat) (s : ComplexS.Self) (h : PCoh s) (e : Err) (hm : makePairTable s._structure = .error e) :
    pyDlc lenOf s = .error e := by
  obtain ⟨s', hex, _⟩ := py_dlc_eq lenOf s h
  unfold pyDlc; rw [hex, hm]

/-! ### the C08 theorems, transferred to the code as written -/

/-- `True` exactly when every pair joins a domain with its complement (name and length) -/
theorem py_dlc_true_iff (lenOf : String → Nat) (s : ComplexS.Self) (h : PCoh s) (t : PairTable) (hm : makePairTable s._structure = .ok t) :
    pyDlc lenOf s = .ok true ↔
      ∀ l l', C06.ptGet t l = some l' →
        ∃ d d', getL (doms lenOf s) l = some d ∧ getL (doms lenOf s) l' = some d' ∧ d.name = compName d'.name ∧ d.len = d'.len := by
  rw [pyDlc_eq lenOf s h t hm]; exact C08.dlc_true_iff_unconditional _ t

/-- the only exception is IndexError, and it means that some pair has an end outside the strand table -/
theorem py_dlc_error (lenOf : String → Nat) (s : ComplexS.Self) (h : PCoh s) (t : PairTable) (hm : makePairTable s._structure = .ok t)
    (e : Err) (he : pyDlc lenOf s = .error e) :
    e = .fault "IndexError" ∧ ∃ l l', C06.ptGet t l = some l' ∧ (getL (doms lenOf s) l = none ∨ getL (doms lenOf s) l' = none) := by
  rw [pyDlc_eq lenOf s h t hm] at he; exact C08.dlc_error _ t e he

/-- no exception when sequence and structure have their strand breaks at the same places -/
theorem py_dlc_total (lenOf : String → Nat) (s : ComplexS.Self) (h : PCoh s) (t : PairTable) (hm : makePairTable s._structure = .ok t)
    (hshape : (doms lenOf s).map List.length = t.map List.length) : ∃ b, pyDlc lenOf s = .ok b := by
  rw [pyDlc_eq lenOf s h t hm]; exact (C08.dlc_of_make_pair_table s._structure '+' t _ hm hshape).2.2.1

/-- `False` exactly when some pair joins two domains that are not complements -/
theorem py_dlc_false_iff (lenOf : String → Nat) (s : ComplexS.Self) (h : PCoh s) (t : PairTable) (hm : makePairTable s._structure = .ok t)
    (hshape : (doms lenOf s).map List.length = t.map List.length) :
    pyDlc lenOf s = .ok false ↔
      ¬ ∀ l l', C06.ptGet t l = some l' →
        ∃ d d', getL (doms lenOf s) l = some d ∧ getL (doms lenOf s) l' = some d' ∧ d.name = compName d'.name ∧ d.len = d'.len := by
  rw [pyDlc_eq lenOf s h t hm]; exact (C08.dlc_of_make_pair_table s._structure '+' t _ hm hshape).2.2.2

/-- all of it for the table `make_pair_table` builds of the object's structure -/
theorem py_dlc_of_make_pair_table (lenOf : String → Nat) (s : ComplexS.Self) (h : PCoh s) (t : PairTable)
    (hm : makePairTable s._structure = .ok t) (hshape : (doms lenOf s).map List.length = t.map List.length) :
    (∀ l l', C06.ptGet t l = some l' → ValidL (t.map List.length) l') ∧
    (pyDlc lenOf s = .ok true ↔
      ∀ l l', C06.ptGet t l = some l' →
        ∃ d d', getL (doms lenOf s) l = some d ∧ getL (doms lenOf s) l' = some d' ∧ d.name = compName d'.name ∧ d.len = d'.len) ∧
    (∃ b, pyDlc lenOf s = .ok b) ∧
    (pyDlc lenOf s = .ok false ↔
      ¬ ∀ l l', C06.ptGet t l = some l' →
        ∃ d d', getL (doms lenOf s) l = some d ∧ getL (doms lenOf s) l' = some d' ∧ d.name = compName d'.name ∧ d.len = d'.len) := by
  rw [pyDlc_eq lenOf s h t hm]; exact C08.dlc_of_make_pair_table s._structure '+' t _ hm hshape

/-! ### split -/

/-- **`list(self.split())` as written, for every `request`** (Lemmas/PyObj2Split.lean) -/
theorem py_split_spec (fuel : Nat) (request : List String → List Char → Py.M Nat) (s : ComplexS.Self) (h : PCoh s) :
    ∃ s', (py_ComplexS_split fuel request).exec s =
        (match makePairTable s._structure with
         | .error e => .error e
         | .ok t =>
           match py_split_complex_pt fuel (makeStrandTableList "+" s._sequence) t with
           | .error e => .error e
           | .ok parts => splitRun request parts, s') ∧
      PCoh s' ∧ SameRepS s s' := PyObj2.py_split_spec fuel request s h

theorem splitRun_nil (request : List String → List Char → Py.M Nat) : splitRun request [] = .ok [] := rfl

/-- a component whose request is granted, or refused WITH `existing`: that object is yielded and the loop goes on -/
theorem splitRun_cons_ok (request : List String → List Char → Py.M Nat) (p) (rest) (q : List String) (r : List Char) (o : Nat)
    (hq : py_strand_table_to_sequence_list p.1 "+" = .ok q) (hr : py_pair_table_to_dot_bracket p.2 '+' false = .ok r)
    (ho : request q r = .ok o ∨ request q r = .error (.singleton (some o))) :
    splitRun request (p :: rest) = (match splitRun request rest with | .ok hs => .ok (o :: hs) | .error e => .error e) := by
  rcases ho with ho | ho <;> simp only [splitRun, hq, hr, ho, answer] <;> cases splitRun request rest <;> rfl

/-- the first refusal WITHOUT `existing` aborts with that SingletonError -/
theorem splitRun_cons_refused (request : List String → List Char → Py.M Nat) (p) (rest) (q : List String) (r : List Char)
    (hq : py_strand_table_to_sequence_list p.1 "+" = .ok q) (hr : py_pair_table_to_dot_bracket p.2 '+' false = .ok r)
    (ho : request q r = .error (.singleton none)) :
    splitRun request (p :: rest) = .error (.singleton none) := by
  simp only [splitRun, hq, hr, ho, answer]

/-- with fuel `len(ptab) + 1`, on an object whose sequence and structure have their strand breaks at the same places, the parts that
    `request` is applied to are exactly the connected components (`PyFuncs.py_split_spec`: sub-complexes on disjoint index sets that
    partition the strands, each connected) -/
theorem py_split_components (request : List String → List Char → Py.M Nat) (s : ComplexS.Self) (h : PCoh s) (t : PairTable)
    (hm : makePairTable s._structure = .ok t)
    (hshape : (makeStrandTableList "+" s._sequence).map List.length = t.map List.length) :
    ∃ (s' : ComplexS.Self) (parts : List (List (List String) × PairTable)) (idxs : List (List Nat)),
      (py_ComplexS_split (t.length + 1) request).exec s = (splitRun request parts, s') ∧ PCoh s' ∧ SameRepS s s' ∧
      idxs.length = parts.length ∧
      (∀ (k : Nat) part idx, parts[k]? = some part → idxs[k]? = some idx →
        C09.PartOf (makeStrandTableList "+" s._sequence) t part idx ∧ idx ≠ []) ∧
      (idxs.flatten.Perm (List.range t.length)) ∧
      (∀ part ∈ parts, ∃ lo, makeLoopIndex part.2 false = .ok lo) := by
  obtain ⟨s', hex, hc, hr⟩ := py_split_spec (t.length + 1) request s h
  obtain ⟨parts, idxs, hp, h1, h2, h3, h4⟩ := PyFuncs.py_split_spec s._structure '+' t (makeStrandTableList "+" s._sequence)
    (by rw [PyFuncs.py_make_pair_table_eq]; exact hm) hshape
  refine ⟨s', parts, idxs, ?_, hc, hr, h1, h2, h3, h4⟩
  rw [hex, hm]
  simp only [hp]

end Dsd.PyComplexS2

#print axioms Dsd.PyComplexS2.py_dlc_eq
#print axioms Dsd.PyComplexS2.py_dlc_no_pair_table
#print axioms Dsd.PyComplexS2.py_dlc_true_iff
#print axioms Dsd.PyComplexS2.py_dlc_false_iff
#print axioms Dsd.PyComplexS2.py_dlc_total
#print axioms Dsd.PyComplexS2.py_dlc_error
#print axioms Dsd.PyComplexS2.py_dlc_of_make_pair_table
#print axioms Dsd.PyComplexS2.py_split_spec
#print axioms Dsd.PyComplexS2.splitRun_cons_ok
#print axioms Dsd.PyComplexS2.splitRun_cons_refused
#print axioms Dsd.PyComplexS2.py_split_components
