/-
More branches of `read_pil_line` AS WRITTEN (Gen/PyReadLine.lean) against the SAME branches of `ReaderFull.readLineFull`, with the request parameters
instantiated by the operations of the model's world (`PyReadLineL.modelEnv`): same object or same exception, same world afterwards.

* `py_sl_domain_eq_model`: the `sl-domain` branch (`lineSl`), for a str name and a str sequence constraint, any tail (the optional length is checked
  with `int(line[3]) != len(line[2])`: PilFormatError, before the domain is requested; `.sequence` is assigned after it).
* `py_composite_domain_eq_model`: the `composite-domain` branch (`lineComposite`), for a str name and a list of strs.
* `py_comprehension_is_listComp`: a list comprehension of requests over strs is the model's `listComp` (requests in order, the first exception abandons
  the list and keeps the world as it is then) - the lemma the `resting-macrostate` and `reaction` branches need too (their equalities are NOT proved yet).
Outside these typings the model reports TypeError before any request where the code makes the requests first.
-/
import DsdVerif.Lemmas.PyReadLine2

namespace Dsd.PyReadLine2
open Dsd Dsd.PP Dsd.Gen Dsd.ReaderFull Dsd.PyReadLineL

theorem py_sl_domain_eq_model (sl : Slots) (RT : Py.StrSet) (g12 : Py.FloatLit → String) (strL : List Tree → String) (name con : String)
    (rest : List Tree) (s : RState) :
    Py.MS.exec (py_read_pil_line (modelEnv sl RT g12 strL) (.tok "sl-domain" :: .tok name :: .tok con :: rest)) s =
      outOf (.tok "sl-domain" :: .tok name :: .tok con :: rest) (s.readLineFull sl (.tok "sl-domain" :: .tok name :: .tok con :: rest)) :=
  sl_eq sl RT g12 strL name con rest s

theorem py_composite_domain_eq_model (sl : Slots) (RT : Py.StrSet) (g12 : Py.FloatLit → String) (strL : List Tree → String) (name : String)
    (ds : List String) (rest : List Tree) (s : RState) :
    Py.MS.exec (py_read_pil_line (modelEnv sl RT g12 strL) (.tok "composite-domain" :: .tok name :: .grp (ds.map .tok) :: rest)) s =
      outOf (.tok "composite-domain" :: .tok name :: .grp (ds.map .tok) :: rest)
        (s.readLineFull sl (.tok "composite-domain" :: .tok name :: .grp (ds.map .tok) :: rest)) :=
  composite_eq sl RT g12 strL name ds rest s

theorem py_comprehension_is_listComp {β} (F : RState → String → RState × Except RErr β) (ds : List String) (s : RState) :
    Py.MS.exec (List.mapM (fun (d : Tree) => named d (fun n s => F s n)) (ds.map Tree.tok)) s =
      (match listComp F s ds with
       | (s', .ok l) => (.ok l, s')
       | (s', .error e) => (.error (ofRErr e), s')) :=
  mapM_named F ds s

end Dsd.PyReadLine2

#print axioms Dsd.PyReadLine2.py_sl_domain_eq_model
#print axioms Dsd.PyReadLine2.py_composite_domain_eq_model
#print axioms Dsd.PyReadLine2.py_comprehension_is_listComp
