import DsdVerif.Props.C13Gaps
import DsdVerif.Lemmas.PilGapsRx

namespace Dsd.C13
open Dsd Dsd.PP Dsd.Gen Dsd.PP.Tabs
open Dsd.Pil (StmtText StmtTextL StmtTextT Tail eolG Num ErrVal)

/-! C13, "arbitrary spaces and tabs at every token boundary", continued: reactions — with and without an
information box; the rate in integer, decimal or scientific form (`Pil.Num`), the optional error term, any number of
concentration units. -/

/-! ### generic -/

theorem tok_length_le (tm : List Piece) (ks : List Nat) (s : List Char) (h : Piece.tok s ∈ tm) :
    s.length ≤ (render tm ks).length := by
  induction tm generalizing ks with
  | nil => simp at h
  | cons p ps ih =>
    cases p with
    | tok s' =>
      simp only [render, List.length_append]
      rcases List.mem_cons.mp h with e | h'
      · cases e; omega
      · have := ih ks h'; omega
    | sep req =>
      have h' : Piece.tok s ∈ ps := by
        rcases List.mem_cons.mp h with e | h'
        · cases e
        · exact h'
      cases ks with
      | nil => simpa [render] using ih [] h'
      | cons k ks =>
        have := ih ks h'
        simp only [render, List.length_append]; omega

/-- a statement text that is the rendering of a template (bound in terms of the length of the text) -/
theorem stmtTextB_of_render' (tm : List Piece) (ks : List Nat) (t : Tree) (c : Char) (s0 : List Char)
    (ps : List Piece) (htm : tm = .tok (c :: s0) :: ps) (hc : Pil.StartCh c) (htok : ToksOK tm)
    (N : Nat) (hN : N ≤ 4 * (render tm ks).length + 100)
    (hok : ∀ (X : List Char) (NE : Nat) (p : Pos), Tail X →
      Ok pil_env NE {} eolG { rest := X, past := false } (p, []) →
      Ok pil_env (max N (NE + 30)) {} pil_stmt { rest := render tm ks ++ X, past := false } (p, [t])) :
    StmtTextB (render tm ks) t := by
  refine ⟨⟨c, ?_, hc⟩, notab_render tm ks htok, N, hN, hok⟩
  rw [htm, render_cons_tok]; rfl

/-- the further species of a list: `+` with optional separators on both sides -/
def speciesPieces (xs : List (List Char)) : List Piece :=
  xs.flatMap (fun d => [Piece.sep false, Piece.tok ['+'], Piece.sep false, Piece.tok d])

theorem toksOK_species (ms : List (List Char)) (tl : List Piece) (h : ∀ d ∈ ms, '\t' ∉ d) (htl : ToksOK tl) :
    ToksOK (speciesPieces ms ++ tl) := by
  unfold speciesPieces
  induction ms with
  | nil => exact htl
  | cons d ds ih => exact ⟨by decide, h d (by simp), ih (fun x hx => h x (List.mem_cons_of_mem _ hx))⟩

theorem toksNonempty_species (ms : List (List Char)) (tl : List Piece) (h : ∀ d ∈ ms, d ≠ [])
    (htl : ToksNonempty tl) : ToksNonempty (speciesPieces ms ++ tl) := by
  unfold speciesPieces
  induction ms with
  | nil => exact htl
  | cons d ds ih => exact ⟨by simp, h d (by simp), ih (fun x hx => h x (List.mem_cons_of_mem _ hx))⟩

theorem tokCount_species (ms : List (List Char)) (tl : List Piece) :
    tokCount (speciesPieces ms ++ tl) = 2 * ms.length + tokCount tl := by
  unfold speciesPieces
  induction ms with
  | nil => simp
  | cons d ds ih =>
    simp only [List.flatMap_cons, List.cons_append, List.nil_append, tokCount, ih, List.length_cons]
    omega

/-- from the first reactant to the end of the line -/
def rxTail (r1 : List Char) (rs : List (List Char)) (p1 : List Char) (ps : List (List Char)) : List Piece :=
  .tok r1 :: (speciesPieces rs ++ ([.sep true, .tok ['-', '>'], .sep false, .tok p1] ++ (speciesPieces ps ++ [.sep false])))

theorem rxTail_counts (rc : Char) (rm : List Char) (rs : List (List Char)) (pc : Char) (pm : List Char)
    (ps : List (List Char)) (ks : List Nat) (h : CountsOK (rxTail (rc :: rm) rs (pc :: pm) ps) ks) :
    ∃ (RL PL : List (List Char × Nat × Nat)) (c d e : Nat), RL.map (·.1) = rs ∧ PL.map (·.1) = ps ∧
      RL.length = rs.length ∧ PL.length = ps.length ∧
      ∀ n X, List.replicate n ' ' ++ (render (rxTail (rc :: rm) rs (pc :: pm) ps) ks ++ X) =
        Pil.rxTextW n rc rm RL c d pc pm PL (List.replicate e ' ' ++ X) := by
  unfold rxTail speciesPieces at h ⊢
  simp only [CountsOK] at h
  obtain ⟨cs1, ks1, hl1, ht1, hr1⟩ := Pil.render_plusToks rs _ ks h
  rcases ks1 with _ | ⟨c, _ | ⟨d, ks2⟩⟩ <;> simp [CountsOK] at ht1
  obtain ⟨hc1, ht2⟩ := ht1
  obtain ⟨c', rfl⟩ : ∃ c', c = c' + 1 := ⟨c - 1, by omega⟩
  obtain ⟨cs2, ks3, hl2, ht3, hr2⟩ := Pil.render_plusToks ps [.sep false] ks2 ht2
  rcases ks3 with _ | ⟨e, _ | ⟨e2, ks4⟩⟩ <;> simp [CountsOK] at ht3
  refine ⟨rs.zip cs1, ps.zip cs2, c', d, e, List.map_fst_zip (by rw [hl1]; exact Nat.le_refl _),
    List.map_fst_zip (by rw [hl2]; exact Nat.le_refl _), by rw [List.length_zip, hl1]; simp,
    by rw [List.length_zip, hl2]; simp, ?_⟩
  intro n X
  rw [render_cons_tok, hr1]
  simp only [List.cons_append, List.nil_append, render, hr2]
  simp [Pil.rxTextW, List.append_assoc]

theorem ident_isId' (d : List Char) (h : Ident d) : Pil.IsId d := ident_isId d h

/-! ### reactions without an information box -/

/-- every token boundary of `reaction r1 + r2 -> p1 + p2`: a separator is mandatory after the keyword and before
    the arrow (an identifier may contain `-`, so `a->b` would read the name `a-`); around `+` and after the arrow it
    is optional -/
def rxPlainTmpl (kw r1 : List Char) (rs : List (List Char)) (p1 : List Char) (ps : List (List Char)) : List Piece :=
  .tok kw :: .sep true :: rxTail r1 rs p1 ps

theorem rx_plain_blanks (kw : List Char) (hkw : kw = "reaction".toList ∨ kw = "kinetic".toList)
    (r1 : List Char) (rs : List (List Char)) (p1 : List Char) (ps : List (List Char))
    (hr : ∀ x ∈ r1 :: rs, Ident x) (hp : ∀ x ∈ p1 :: ps, Ident x) (ks : List Nat)
    (hk : CountsOK (rxPlainTmpl kw r1 rs p1 ps) ks) :
    StmtTextB (render (rxPlainTmpl kw r1 rs p1 ps) ks)
      (.grp [.tok "reaction", .grp [], .grp ((r1 :: rs).map tokOf), .grp ((p1 :: ps).map tokOf)]) := by
  obtain ⟨rc, rm, rfl, hrc, hrm⟩ := Pil.cons_of_class r1 _ (hr r1 (by simp))
  obtain ⟨pc, pm, rfl, hpc, hpm⟩ := Pil.cons_of_class p1 _ (hp p1 (by simp))
  have k1 : "reaction".toList = ['r', 'e', 'a', 'c', 't', 'i', 'o', 'n'] := rfl
  have k2 : "kinetic".toList = ['k', 'i', 'n', 'e', 't', 'i', 'c'] := rfl
  rw [k1, k2] at hkw
  have hkt : '\t' ∉ kw := by rcases hkw with e | e <;> rw [e] <;> decide
  obtain ⟨kc, kt, hkc, hkst⟩ : ∃ kc kt, kw = kc :: kt ∧ Pil.StartCh kc := by
    rcases hkw with e | e
    · exact ⟨'r', _, e, by decide, by decide, by decide⟩
    · exact ⟨'k', _, e, by decide, by decide, by decide⟩
  have hrst : ∀ x ∈ rs, '\t' ∉ x := fun x hx => Pil.notab_ident x (hr x (List.mem_cons_of_mem _ hx)).2
  have hpst : ∀ x ∈ ps, '\t' ∉ x := fun x hx => Pil.notab_ident x (hp x (List.mem_cons_of_mem _ hx)).2
  have htok : ToksOK (rxPlainTmpl kw (rc :: rm) rs (pc :: pm) ps) :=
    ⟨hkt, notab_cons rc rm hrc hrm, toksOK_species rs _ hrst
      ⟨by decide, notab_cons pc pm hpc hpm, toksOK_species ps _ hpst trivial⟩⟩
  have hne : ToksNonempty (rxPlainTmpl kw (rc :: rm) rs (pc :: pm) ps) :=
    ⟨by rw [hkc]; simp, by simp, toksNonempty_species rs _ (fun x hx => (hr x (List.mem_cons_of_mem _ hx)).1)
      ⟨by simp, by simp, toksNonempty_species ps _ (fun x hx => (hp x (List.mem_cons_of_mem _ hx)).1) trivial⟩⟩
  have hcount : 2 * rs.length + 2 * ps.length ≤ tokCount (rxPlainTmpl kw (rc :: rm) rs (pc :: pm) ps) := by
    simp only [rxPlainTmpl, rxTail, tokCount, tokCount_species, List.cons_append, List.nil_append]
    omega
  have hlen := tokCount_le _ ks hne
  unfold rxPlainTmpl at hk
  rcases ks with _ | ⟨c1, ks⟩ <;> simp only [CountsOK] at hk
  obtain ⟨h1, hrest⟩ := hk
  have h1' := h1 trivial
  obtain ⟨a, rfl⟩ : ∃ a, c1 = a + 1 := ⟨c1 - 1, by omega⟩
  obtain ⟨RL, PL, c, d, e, hR, hP, hRl, hPl, htext⟩ := rxTail_counts rc rm rs pc pm ps ks hrest
  refine stmtTextB_of_render' _ _ _ kc kt _ (by rw [hkc]; rfl) hkst htok (max 6 (rs.length + ps.length) + 40)
    (by omega) ?_
  intro X NE p hX heol
  have hrs : ∀ x ∈ RL, Pil.IsId x.1 := by
    intro x hx
    exact ident_isId _ (hr x.1 (List.mem_cons_of_mem _ (by rw [← hR]; exact List.mem_map_of_mem hx)))
  have hps : ∀ x ∈ PL, Pil.IsId x.1 := by
    intro x hx
    exact ident_isId _ (hp x.1 (List.mem_cons_of_mem _ (by rw [← hP]; exact List.mem_map_of_mem hx)))
  have := Pil.rx_stmt_tailW kw hkw _
    (by unfold Pil.rxTextW; exact Pil.OutHd_kw_blanks (a + 1) (Nat.succ_pos a) _) 6 []
    (a + 1) rc rm RL c d pc pm PL (List.replicate e ' ' ++ X) NE p hrc hrm hrs hpc hpm hps
    (Pil.Ok_noinfoW (a + 1) rc rm RL c d pc pm PL _ hrc) (hX.blanks e) (Pil.Ok_eol_blanks e heol)
  rw [hR, hP, hRl, hPl] at this
  have ht : render (rxPlainTmpl kw (rc :: rm) rs (pc :: pm) ps) ((a + 1) :: ks) ++ X =
      kw ++ Pil.rxTextW (a + 1) rc rm RL c d pc pm PL (List.replicate e ' ' ++ X) := by
    rw [← htext (a + 1) X]
    simp [rxPlainTmpl, render, List.append_assoc]
  rw [ht]
  exact this

/-- **reactions without an information box: arbitrary blanks and tabs at every token boundary** -/
theorem rx_plain_layout (kw : List Char) (hkw : kw = "reaction".toList ∨ kw = "kinetic".toList)
    (r1 : List Char) (rs : List (List Char)) (p1 : List Char) (ps : List (List Char))
    (hr : ∀ x ∈ r1 :: rs, Ident x) (hp : ∀ x ∈ p1 :: ps, Ident x) (gaps : List (List Char))
    (hg : SepsOK (rxPlainTmpl kw r1 rs p1 ps) gaps) :
    StmtTextT (renderW (rxPlainTmpl kw r1 rs p1 ps) gaps)
      (.grp [.tok "reaction", .grp [], .grp ((r1 :: rs).map tokOf), .grp ((p1 :: ps).map tokOf)]) := by
  have hkt : '\t' ∉ kw := by rcases hkw with e | e <;> rw [e] <;> decide
  refine stmtTextT_of_template _ ?_ _ (fun ks hk => (rx_plain_blanks kw hkw r1 rs p1 ps hr hp ks hk).toL) gaps hg
  exact ⟨hkt, Pil.notab_ident r1 (hr r1 (by simp)).2,
    toksOK_species rs _ (fun x hx => Pil.notab_ident x (hr x (List.mem_cons_of_mem _ hx)).2)
      ⟨by decide, Pil.notab_ident p1 (hp p1 (by simp)).2,
        toksOK_species ps _ (fun x hx => Pil.notab_ident x (hp x (List.mem_cons_of_mem _ hx)).2) trivial⟩⟩

/-- the restrictions are real: without a blank before the arrow the reactant would be `a-` -/
example : parseDoc pil_env pil_grammar "reaction a->c\n" = none := by rfl

/-- non-vacuity: `kinetic a+b -> c + d` with tabs -/
example : parseDoc pil_env pil_grammar "kinetic\ta+b\t->c \t+\td\n" =
    some [.grp [.tok "reaction", .grp [], .grp [.tok "a", .tok "b"], .grp [.tok "c", .tok "d"]]] := by
  have sep : ∀ w : List Char, (∀ c ∈ w, c = ' ' ∨ c = '\t') → IsSep w := fun w h => h
  have h := stmt_tabs_rt _ _ (rx_plain_layout "kinetic".toList (Or.inr rfl) ['a'] [['b']] ['c'] [['d']]
    (by
      intro x hx
      simp only [List.mem_cons, List.not_mem_nil, or_false] at hx
      rcases hx with rfl | rfl
      · exact ident_single 'a' (by decide)
      · exact ident_single 'b' (by decide))
    (by
      intro x hx
      simp only [List.mem_cons, List.not_mem_nil, or_false] at hx
      rcases hx with rfl | rfl
      · exact ident_single 'c' (by decide)
      · exact ident_single 'd' (by decide))
    [['\t'], [], [], ['\t'], [], [' ', '\t'], ['\t'], []]
    ⟨sep _ (by decide), by simp, sep _ (by decide), by simp, sep _ (by decide), by simp, sep _ (by decide), by simp,
      sep _ (by decide), by simp, sep _ (by decide), by simp, sep _ (by decide), by simp, sep _ (by decide), by simp,
      rfl⟩)
  exact parse_of_text _ _ _ _ _ h (by decide +kernel)

/-! ### reactions with an information box -/

def errPieces : Option ErrVal → List Piece
  | none => []
  | some e => [.sep false, .tok ['+', '/', '-'], .sep false, .tok e.text]

def errTree : Option ErrVal → List Tree
  | none => []
  | some e => [tokOf e.text]

def errValOK : Option ErrVal → Prop
  | none => True
  | some e => e.OK

/-- every token boundary of `reaction [type = rate ± err /units] r1 + … -> p1 + …`: all separators are optional
    except the one before the arrow.  The number `rate` (integer, decimal or scientific: `Pil.Num`), the value of the
    error term and the rate unit `/M/…/s` are single combined tokens: no boundary inside. -/
def rxInfoTmpl (kw ty : List Char) (sign : Char) (rate : Num) (err : Option ErrVal) (cus : List (List Char))
    (tu : List Char) (r1 : List Char) (rs : List (List Char)) (p1 : List Char) (ps : List (List Char)) : List Piece :=
  [.tok kw, .sep false, .tok ['['], .sep false, .tok ty, .sep false, .tok [sign], .sep false, .tok rate.text] ++
    (errPieces err ++ ([.sep false, .tok (Pil.cuText cus ++ '/' :: tu), .sep false, .tok [']'], .sep false] ++
      rxTail r1 rs p1 ps))

theorem notab_dig (d : List Char) (h : Pil.Dig d) : '\t' ∉ d := Pil.notab_of_nums d h.2

theorem notab_num (n : Num) (h : n.OK) : '\t' ∉ n.text := by
  obtain ⟨ip, fp, ex⟩ := n
  have h1 := notab_dig ip h.ip
  have h2 : '\t' ∉ (Pil.fracWords fp).flatten := by
    cases fp with
    | none => simp [Pil.fracWords]
    | some f => have := notab_dig f (h.fp f rfl); simp [Pil.fracWords, this]
  have h3 : '\t' ∉ (Pil.expWords ex).flatten := by
    cases ex with
    | none => simp [Pil.expWords]
    | some q =>
      obtain ⟨sg, d⟩ := q
      obtain ⟨hd, hsg⟩ := h.ex sg d rfl
      have := notab_dig d hd
      cases sg with
      | none => simp [Pil.expWords, Pil.signWords, this]
      | some c =>
        have hc : '\t' ≠ c := by rcases hsg c rfl with rfl | rfl <;> decide
        simp [Pil.expWords, Pil.signWords, this, hc]
  simp only [Num.text, Num.words, List.flatten_append, List.mem_append, not_or]
  exact ⟨⟨by simpa using h1, h2⟩, h3⟩

theorem notab_errVal (e : ErrVal) (h : e.OK) : '\t' ∉ e.text := by
  cases e with
  | num n => exact notab_num n h
  | inf => decide

theorem cuText_length2 (cus : List (List Char)) (h : ∀ u ∈ cus, Pil.IsCunit u) :
    2 * cus.length ≤ (Pil.cuText cus).length := by
  induction cus with
  | nil => simp [Pil.cuText]
  | cons u cus ih =>
    have := ih (fun x hx => h x (List.mem_cons_of_mem _ hx))
    have hu : 1 ≤ u.length := by rcases h u (by simp) with rfl | rfl | rfl | rfl | rfl <;> decide
    rw [Pil.cuText_cons]
    simp only [List.length_cons, List.length_append]
    omega

theorem rx_info_blanks (ty : List Char) (sign : Char) (hs : sign = '=' ∨ sign = ':') (rate : Num)
    (err : Option ErrVal) (cus : List (List Char)) (tu : List Char)
    (r1 : List Char) (rs : List (List Char)) (p1 : List Char) (ps : List (List Char))
    (hty : Ident ty) (hrate : rate.OK) (herr : errValOK err) (hcu : ∀ u ∈ cus, Pil.IsCunit u) (htu : Pil.IsTunit tu)
    (hr : ∀ x ∈ r1 :: rs, Ident x) (hp : ∀ x ∈ p1 :: ps, Ident x) (ks : List Nat)
    (hk : CountsOK (rxInfoTmpl "reaction".toList ty sign rate err cus tu r1 rs p1 ps) ks) :
    StmtTextB (render (rxInfoTmpl "reaction".toList ty sign rate err cus tu r1 rs p1 ps) ks)
      (.grp [.tok "reaction",
        .grp [.grp [tokOf ty], .grp (tokOf rate.text :: errTree err), .grp [tokOf (Pil.cuText cus ++ '/' :: tu)]],
        .grp ((r1 :: rs).map tokOf), .grp ((p1 :: ps).map tokOf)]) := by
  obtain ⟨tc, tm, rfl, htc, htm⟩ := Pil.cons_of_class ty _ hty
  obtain ⟨rc, rm, rfl, hrc, hrm⟩ := Pil.cons_of_class r1 _ (hr r1 (by simp))
  obtain ⟨pc, pm, rfl, hpc, hpm⟩ := Pil.cons_of_class p1 _ (hp p1 (by simp))
  have k1 : "reaction".toList = ['r', 'e', 'a', 'c', 't', 'i', 'o', 'n'] := rfl
  rw [k1] at hk ⊢
  have hsg : '\t' ∉ [sign] := by rcases hs with rfl | rfl <;> decide
  have hrst : ∀ x ∈ rs, '\t' ∉ x := fun x hx => Pil.notab_ident x (hr x (List.mem_cons_of_mem _ hx)).2
  have hpst : ∀ x ∈ ps, '\t' ∉ x := fun x hx => Pil.notab_ident x (hp x (List.mem_cons_of_mem _ hx)).2
  have hunit : '\t' ∉ Pil.cuText cus ++ '/' :: tu := by
    have a1 := Pil.notab_cuText cus hcu
    have a2 : '\t' ∉ tu := by rcases htu with rfl | rfl | rfl <;> decide
    simp [a1, a2]
  have htail : ToksOK (rxTail (rc :: rm) rs (pc :: pm) ps) :=
    ⟨notab_cons rc rm hrc hrm, toksOK_species rs _ hrst
      ⟨by decide, notab_cons pc pm hpc hpm, toksOK_species ps _ hpst trivial⟩⟩
  have htok : ToksOK (rxInfoTmpl ['r', 'e', 'a', 'c', 't', 'i', 'o', 'n'] (tc :: tm) sign rate err cus tu (rc :: rm)
      rs (pc :: pm) ps) := by
    refine ⟨by decide, by decide, notab_cons tc tm htc htm, hsg, notab_num rate hrate, ?_⟩
    cases err with
    | none => exact ⟨hunit, by decide, htail⟩
    | some e => exact ⟨by decide, notab_errVal e herr, hunit, by decide, htail⟩
  -- the counts
  have hmemU : Piece.tok (Pil.cuText cus ++ '/' :: tu) ∈ rxInfoTmpl ['r', 'e', 'a', 'c', 't', 'i', 'o', 'n'] (tc :: tm)
      sign rate err cus tu (rc :: rm) rs (pc :: pm) ps := by
    unfold rxInfoTmpl; cases err <;> simp [errPieces]
  have hUlen := tok_length_le _ ks _ hmemU
  have hcu2 := cuText_length2 cus hcu
  have hneT : ToksNonempty (rxTail (rc :: rm) rs (pc :: pm) ps) :=
    ⟨by simp, toksNonempty_species rs _ (fun x hx => (hr x (List.mem_cons_of_mem _ hx)).1)
      ⟨by simp, by simp, toksNonempty_species ps _ (fun x hx => (hp x (List.mem_cons_of_mem _ hx)).1) trivial⟩⟩
  have hcntT : 2 * rs.length + 2 * ps.length ≤ tokCount (rxTail (rc :: rm) rs (pc :: pm) ps) := by
    simp only [rxTail, tokCount, tokCount_species, List.cons_append, List.nil_append]
    omega
  unfold rxInfoTmpl at hk
  rcases ks with _ | ⟨n, _ | ⟨g0, _ | ⟨g1, _ | ⟨g2, ks⟩⟩⟩⟩ <;> simp [CountsOK] at hk
  -- the error term
  have key : ∃ (errW : Option (Nat × Nat × ErrVal)) (g3 g4 b5 : Nat) (kt : List Nat),
      Pil.errOK errW ∧ Pil.errToks errW = errTree err ∧ CountsOK (rxTail (rc :: rm) rs (pc :: pm) ps) kt ∧
      ∀ Y, render (errPieces err ++ ([Piece.sep false, Piece.tok (Pil.cuText cus ++ '/' :: tu), Piece.sep false,
          Piece.tok [']'], Piece.sep false] ++ rxTail (rc :: rm) rs (pc :: pm) ps)) ks ++ Y =
        Pil.errTextW errW ++ (List.replicate g3 ' ' ++ (Pil.cuText cus ++ ('/' :: (tu ++ (List.replicate g4 ' ' ++
          (']' :: (List.replicate b5 ' ' ++ (render (rxTail (rc :: rm) rs (pc :: pm) ps) kt ++ Y)))))))) := by
    cases err with
    | none =>
      simp only [errPieces, List.nil_append] at hk ⊢
      rcases ks with _ | ⟨g3, _ | ⟨g4, _ | ⟨b5, kt⟩⟩⟩ <;> simp [CountsOK] at hk
      refine ⟨none, g3, g4, b5, kt, trivial, rfl, hk, fun Y => ?_⟩
      simp [render, Pil.errTextW, List.append_assoc]
    | some e =>
      simp only [errPieces, List.cons_append, List.nil_append] at hk ⊢
      rcases ks with _ | ⟨a, _ | ⟨b, _ | ⟨g3, _ | ⟨g4, _ | ⟨b5, kt⟩⟩⟩⟩⟩ <;> simp [CountsOK] at hk
      refine ⟨some (a, b, e), g3, g4, b5, kt, herr, rfl, hk, fun Y => ?_⟩
      simp [render, Pil.errTextW, List.append_assoc]
  obtain ⟨errW, g3, g4, b5, kt, herrW, htoks, hkt, hmid⟩ := key
  obtain ⟨RL, PL, c, d, e, hR, hP, hRl, hPl, htext⟩ := rxTail_counts rc rm rs pc pm ps kt hkt
  have hlenT := tokCount_le _ kt hneT
  refine stmtTextB_of_render' _ _ _ 'r' ['e', 'a', 'c', 't', 'i', 'o', 'n'] _ rfl ⟨by decide, by decide, by decide⟩
    htok (max (2 * cus.length + 50) (rs.length + ps.length) + 40) ?_ ?_
  · -- the length of the text dominates the bound
    have hmemT : ∀ Y, (render (rxTail (rc :: rm) rs (pc :: pm) ps) kt).length ≤
        (render (rxInfoTmpl ['r', 'e', 'a', 'c', 't', 'i', 'o', 'n'] (tc :: tm) sign rate err cus tu (rc :: rm) rs
          (pc :: pm) ps) (n :: g0 :: g1 :: g2 :: ks) ++ Y).length := by
      intro Y
      have := hmid Y
      unfold rxInfoTmpl
      simp only [List.cons_append, List.nil_append, render, List.append_assoc] at this ⊢
      rw [this]
      simp only [List.length_append, List.length_cons]
      omega
    have := hmemT []
    rw [List.append_nil] at this
    simp only [List.length_append, List.length_cons] at hUlen
    omega
  · intro X NE p hX heol
    have hrs : ∀ x ∈ RL, Pil.IsId x.1 := by
      intro x hx
      exact ident_isId _ (hr x.1 (List.mem_cons_of_mem _ (by rw [← hR]; exact List.mem_map_of_mem hx)))
    have hps : ∀ x ∈ PL, Pil.IsId x.1 := by
      intro x hx
      exact ident_isId _ (hp x.1 (List.mem_cons_of_mem _ (by rw [← hP]; exact List.mem_map_of_mem hx)))
    have hinfo := Pil.Ok_infoboxW pil_env n g0 tc tm g1 sign hs g2 rate errW g3 cus tu g4
      (Pil.rxTextW b5 rc rm RL c d pc pm PL (List.replicate e ' ' ++ X)) htc htm hrate herrW hcu htu
    have := Pil.rx_stmt_tailW ['r', 'e', 'a', 'c', 't', 'i', 'o', 'n'] (Or.inl rfl) _
      (by
        unfold Pil.infoTextW
        exact Pil.OutHd_blanks _ n _ (Pil.outside_facts ' ' (by decide))
          (Pil.OutHd_cons _ _ _ (Pil.punct_facts '[' (by decide)).1))
      _ _ b5 rc rm RL c d pc pm PL (List.replicate e ' ' ++ X) NE p hrc hrm hrs hpc hpm hps hinfo (hX.blanks e)
      (Pil.Ok_eol_blanks e heol)
    rw [hR, hP, hRl, hPl, htoks] at this
    have ht : render (rxInfoTmpl ['r', 'e', 'a', 'c', 't', 'i', 'o', 'n'] (tc :: tm) sign rate err cus tu (rc :: rm) rs
        (pc :: pm) ps) (n :: g0 :: g1 :: g2 :: ks) ++ X =
        ['r', 'e', 'a', 'c', 't', 'i', 'o', 'n'] ++ (List.replicate n ' ' ++ Pil.infoTextW g0 tc tm g1 sign g2 rate errW
          g3 cus tu g4 (Pil.rxTextW b5 rc rm RL c d pc pm PL (List.replicate e ' ' ++ X))) := by
      rw [← htext b5 X]
      have := hmid X
      unfold rxInfoTmpl
      simp only [List.cons_append, List.nil_append, render, List.append_assoc] at this ⊢
      rw [this]
      simp [Pil.infoTextW]
    rw [ht]
    exact this.mono (by omega)

/-- **reactions with an information box: arbitrary blanks and tabs at every token boundary**; the rate in integer,
    decimal or scientific form, an optional error term (a number or `inf`), any number of concentration units -/
theorem rx_info_layout (ty : List Char) (sign : Char) (hs : sign = '=' ∨ sign = ':') (rate : Num)
    (err : Option ErrVal) (cus : List (List Char)) (tu : List Char)
    (r1 : List Char) (rs : List (List Char)) (p1 : List Char) (ps : List (List Char))
    (hty : Ident ty) (hrate : rate.OK) (herr : errValOK err) (hcu : ∀ u ∈ cus, Pil.IsCunit u) (htu : Pil.IsTunit tu)
    (hr : ∀ x ∈ r1 :: rs, Ident x) (hp : ∀ x ∈ p1 :: ps, Ident x) (gaps : List (List Char))
    (hg : SepsOK (rxInfoTmpl "reaction".toList ty sign rate err cus tu r1 rs p1 ps) gaps) :
    StmtTextT (renderW (rxInfoTmpl "reaction".toList ty sign rate err cus tu r1 rs p1 ps) gaps)
      (.grp [.tok "reaction",
        .grp [.grp [tokOf ty], .grp (tokOf rate.text :: errTree err), .grp [tokOf (Pil.cuText cus ++ '/' :: tu)]],
        .grp ((r1 :: rs).map tokOf), .grp ((p1 :: ps).map tokOf)]) := by
  have hsg : '\t' ∉ [sign] := by rcases hs with rfl | rfl <;> decide
  have hunit : '\t' ∉ Pil.cuText cus ++ '/' :: tu := by
    have a1 := Pil.notab_cuText cus hcu
    have a2 : '\t' ∉ tu := by rcases htu with rfl | rfl | rfl <;> decide
    simp [a1, a2]
  have htail : ToksOK (rxTail r1 rs p1 ps) :=
    ⟨Pil.notab_ident r1 (hr r1 (by simp)).2,
      toksOK_species rs _ (fun x hx => Pil.notab_ident x (hr x (List.mem_cons_of_mem _ hx)).2)
        ⟨by decide, Pil.notab_ident p1 (hp p1 (by simp)).2,
          toksOK_species ps _ (fun x hx => Pil.notab_ident x (hp x (List.mem_cons_of_mem _ hx)).2) trivial⟩⟩
  refine stmtTextT_of_template _ ?_ _
    (fun ks hk => (rx_info_blanks ty sign hs rate err cus tu r1 rs p1 ps hty hrate herr hcu htu hr hp ks hk).toL) gaps hg
  refine ⟨by decide, by decide, Pil.notab_ident ty hty.2, hsg, notab_num rate hrate, ?_⟩
  cases err with
  | none => exact ⟨hunit, by decide, htail⟩
  | some e => exact ⟨by decide, notab_errVal e herr, hunit, by decide, htail⟩

/-- the restrictions are real: the rate unit, the numbers and the plus-slash-minus literal are single tokens — a
    blank inside is rejected; so is a missing blank before the arrow -/
example : parseDoc pil_env pil_grammar "reaction [condensed = 5 /M /s] a -> c\n" = none := by rfl
example : parseDoc pil_env pil_grammar "reaction [condensed = 5 / s] a -> c\n" = none := by rfl
example : parseDoc pil_env pil_grammar "reaction [condensed = 1 2 /s] a -> c\n" = none := by rfl
example : parseDoc pil_env pil_grammar "reaction [condensed = 1.2 + /- 3 /s] a -> c\n" = none := by rfl
example : parseDoc pil_env pil_grammar "reaction [condensed = 5 /s] a->c\n" = none := by rfl

theorem dig_of (s : List Char) (h1 : s ≠ []) (h2 : ∀ c ∈ s, c ∈ pp_nums) : Pil.Dig s := ⟨h1, h2⟩

/-- `12.5` and `3.5e-2` -/
def n12_5 : Num := ⟨['1', '2'], some ['5'], none⟩
def n3_5em2 : Num := ⟨['3'], some ['5'], some (some '-', ['2'])⟩
def n1ep6 : Num := ⟨['1'], none, some (some '+', ['6'])⟩

theorem n12_5_ok : n12_5.OK := by
  refine ⟨dig_of _ (by decide) (by decide), ?_, ?_⟩
  · intro f hf
    simp only [n12_5, Option.some.injEq] at hf
    subst hf
    exact dig_of _ (by decide) (by decide)
  · intro sg d h; simp [n12_5] at h

theorem n3_5em2_ok : n3_5em2.OK := by
  refine ⟨dig_of _ (by decide) (by decide), ?_, ?_⟩
  · intro f hf
    simp only [n3_5em2, Option.some.injEq] at hf
    subst hf
    exact dig_of _ (by decide) (by decide)
  · intro sg d h
    simp only [n3_5em2, Option.some.injEq, Prod.mk.injEq] at h
    obtain ⟨rfl, rfl⟩ := h
    exact ⟨dig_of _ (by decide) (by decide), by intro c hc; cases hc; exact Or.inl rfl⟩

theorem n1ep6_ok : n1ep6.OK := by
  refine ⟨dig_of _ (by decide) (by decide), ?_, ?_⟩
  · intro f hf; simp [n1ep6] at hf
  · intro sg d h
    simp only [n1ep6, Option.some.injEq, Prod.mk.injEq] at h
    obtain ⟨rfl, rfl⟩ := h
    exact ⟨dig_of _ (by decide) (by decide), by intro c hc; cases hc; exact Or.inr rfl⟩

/-- non-vacuity: a decimal rate, a scientific error value, two units, tabs and blanks at the boundaries -/
example : parseDoc pil_env pil_grammar
      "reaction\t[condensed\t=12.5\t+/-\t3.5e-2 /M/nM/s\t]\ta\t+ b -> c\n" =
    some [.grp [.tok "reaction", .grp [.grp [.tok "condensed"], .grp [.tok "12.5", .tok "3.5e-2"], .grp [.tok "/M/nM/s"]],
      .grp [.tok "a", .tok "b"], .grp [.tok "c"]]] := by
  have sep : ∀ w : List Char, (∀ c ∈ w, c = ' ' ∨ c = '\t') → IsSep w := fun w h => h
  have h := stmt_tabs_rt _ _ (rx_info_layout "condensed".toList '=' (Or.inl rfl) n12_5 (some (.num n3_5em2))
    [['M'], ['n', 'M']] ['s'] ['a'] [['b']] ['c'] []
    ⟨by decide, by decide⟩ n12_5_ok n3_5em2_ok
    (by
      intro u hu
      simp only [List.mem_cons, List.not_mem_nil, or_false] at hu
      rcases hu with rfl | rfl
      · exact Or.inl rfl
      · exact Or.inr (Or.inr (Or.inr (Or.inl rfl))))
    (Or.inl rfl)
    (by
      intro x hx
      simp only [List.mem_cons, List.not_mem_nil, or_false] at hx
      rcases hx with rfl | rfl
      · exact ident_single 'a' (by decide)
      · exact ident_single 'b' (by decide))
    (by
      intro x hx
      simp only [List.mem_cons, List.not_mem_nil, or_false] at hx
      subst hx
      exact ident_single 'c' (by decide))
    [['\t'], [], ['\t'], [], ['\t'], ['\t'], [' '], ['\t'], ['\t'], ['\t'], [' '], [' '], [' '], []]
    ⟨sep _ (by decide), by simp, sep _ (by decide), by simp, sep _ (by decide), by simp, sep _ (by decide), by simp,
      sep _ (by decide), by simp, sep _ (by decide), by simp, sep _ (by decide), by simp, sep _ (by decide), by simp,
      sep _ (by decide), by simp, sep _ (by decide), by simp, sep _ (by decide), by simp, sep _ (by decide), by simp,
      sep _ (by decide), by simp, sep _ (by decide), by simp, rfl⟩)
  exact parse_of_text _ _ _ _ _ h (by decide +kernel)

/-- non-vacuity: scientific rate with `+`, error `inf`, and NO blank anywhere except before the arrow -/
example : parseDoc pil_env pil_grammar "reaction[condensed=1e+6+/-inf/nM/s]a+b ->c\n" =
    some [.grp [.tok "reaction", .grp [.grp [.tok "condensed"], .grp [.tok "1e+6", .tok "inf"], .grp [.tok "/nM/s"]],
      .grp [.tok "a", .tok "b"], .grp [.tok "c"]]] := by
  have sep : ∀ w : List Char, (∀ c ∈ w, c = ' ' ∨ c = '\t') → IsSep w := fun w h => h
  have h := stmt_tabs_rt _ _ (rx_info_layout "condensed".toList '=' (Or.inl rfl) n1ep6 (some .inf)
    [['n', 'M']] ['s'] ['a'] [['b']] ['c'] []
    ⟨by decide, by decide⟩ n1ep6_ok trivial
    (by
      intro u hu
      simp only [List.mem_cons, List.not_mem_nil, or_false] at hu
      subst hu
      exact Or.inr (Or.inr (Or.inr (Or.inl rfl))))
    (Or.inl rfl)
    (by
      intro x hx
      simp only [List.mem_cons, List.not_mem_nil, or_false] at hx
      rcases hx with rfl | rfl
      · exact ident_single 'a' (by decide)
      · exact ident_single 'b' (by decide))
    (by
      intro x hx
      simp only [List.mem_cons, List.not_mem_nil, or_false] at hx
      subst hx
      exact ident_single 'c' (by decide))
    [[], [], [], [], [], [], [], [], [], [], [], [' '], [], []]
    ⟨sep _ (by decide), by simp, sep _ (by decide), by simp, sep _ (by decide), by simp, sep _ (by decide), by simp,
      sep _ (by decide), by simp, sep _ (by decide), by simp, sep _ (by decide), by simp, sep _ (by decide), by simp,
      sep _ (by decide), by simp, sep _ (by decide), by simp, sep _ (by decide), by simp, sep _ (by decide), by simp,
      sep _ (by decide), by simp, sep _ (by decide), by simp, rfl⟩)
  exact parse_of_text _ _ _ _ _ h (by decide +kernel)

end Dsd.C13
