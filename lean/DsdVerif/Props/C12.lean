/- C12 — kernel notation round trips (token level): theorems are in Props/C12Kernel.lean. -/
import DsdVerif.Props.C12Kernel
