/- C12 — theorems are being added. -/
import DsdVerif.Model.Kernel
