/- C12 — kernel notation round trips: token level in Props/C12Kernel.lean; character level (kernel string → parser →
   resolve_kernel_loops = identity) in Props/C12Text.lean. -/
import DsdVerif.Props.C12Kernel
import DsdVerif.Props.C12Text
