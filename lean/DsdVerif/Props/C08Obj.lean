/-
C08, object level: the views `.isConnected`, `.exterior`, `.enclosed` of a complex object.

The object `o` is coherent (`C03.Coherent`: every filled cache is the function of the current representation) and
its structure is well formed (`C07.WFStruct o.sst pt`: `make_pair_table` succeeds with table `pt`, no empty strand).
`runQ o vs` is `o` after the views `vs` have been queried (caches filled in any order), so every statement below
holds for the first and for every later query.  Connectivity is `Brk.ConnL pt pt.length`: every set of strands that
is closed under the pairing of `pt` and non-empty is the set of all strands.
-/
import DsdVerif.Lemmas.LoopObj
import DsdVerif.Lemmas.LoopRot

namespace Dsd.C08
open Dsd Dsd.Bracket Dsd.C06 Dsd.LoopObj

/-! ### 1. `is_connected` -/

/-- **`is_connected`** answers `True` exactly for a connected complex and `False` exactly for a disconnected one;
    it never raises on a well-formed structure. -/
theorem isConnected_iff (o : CplxObj) (hc : C03.Coherent o) (pt : PairTable) (hw : C07.WFStruct o.sst pt)
    (vs : List View) :
    (((runQ o vs).query .isConnected).2 = .bool true ↔ Brk.ConnL pt pt.length) ∧
    (((runQ o vs).query .isConnected).2 = .bool false ↔ ¬ Brk.ConnL pt pt.length) := by
  rw [query_runQ o vs _ hc]
  by_cases h : Brk.ConnL pt pt.length
  · obtain ⟨lo, hlo⟩ := plain_ok o.sst pt hw h
    simp only [C03.qSpec, liSpec_ok o.sst pt hw lo hlo]
    simp [h]
  · simp only [C03.qSpec, liSpec_error o.sst pt hw h]
    simp [h]

/-- the same for the cache-free specification object -/
theorem isConnected_spec (o : CplxObj) (pt : PairTable) (hw : C07.WFStruct o.sst pt) :
    (o.spec.answer .isConnected = .bool true ↔ Brk.ConnL pt pt.length) ∧
    (o.spec.answer .isConnected = .bool false ↔ ¬ Brk.ConnL pt pt.length) := by
  have := isConnected_iff o.fresh (C03.coherent_fresh _ _ _ _ _) pt hw []
  exact this

/-! ### 3. a disconnected complex -/

/-- **disconnected complexes**: `exterior_domains` and `enclosed_domains` raise `SecondaryStructureError` — at the
    first and at every later query, whatever was queried in between — and `is_connected` is `False`. -/
theorem disconnected_views_raise (o : CplxObj) (hc : C03.Coherent o) (pt : PairTable) (hw : C07.WFStruct o.sst pt)
    (hd : ¬ Brk.ConnL pt pt.length) (vs : List View) :
    ((runQ o vs).query .exterior).2 = .err .secondaryStructure ∧
    ((runQ o vs).query .enclosed).2 = .err .secondaryStructure ∧
    ((runQ o vs).query .isConnected).2 = .bool false := by
  refine ⟨?_, ?_, ((isConnected_iff o hc pt hw vs).2).mpr hd⟩
  · rw [query_runQ o vs _ hc]
    simp only [C03.qSpec, edSpec_error o.sst pt hw hd]
  · rw [query_runQ o vs _ hc]
    simp only [C03.qSpec, edSpec_error o.sst pt hw hd]

/-- the failure is not cached: the object after the failed query still has no exterior domains -/
theorem disconnected_no_cache (o : CplxObj) (hc : C03.Coherent o) (pt : PairTable) (hw : C07.WFStruct o.sst pt)
    (hd : ¬ Brk.ConnL pt pt.length) (vs : List View) : (runQ o vs).extDomains = none := by
  obtain ⟨g1, g2⟩ := runQ_coh o vs hc
  cases he : (runQ o vs).extDomains with
  | none => rfl
  | some d =>
    exfalso
    obtain ⟨l, hl, _⟩ := g1.ed d he
    obtain ⟨pt', lo, _, h2, h3, _⟩ := g1.li l hl
    rw [g2.2.1, hw.ok] at h2
    cases h2
    rw [plain_error o.sst pt hw hd] at h3
    cases h3

/-! ### 2. exterior and enclosed domains of a connected complex -/

/-- **`exterior_domains` / `enclosed_domains`** of a connected complex are loci lists `ex`, `en` with
    (a), (b): together they list every unpaired position (valid locus with empty pair-table entry) exactly once;
    (c): `l ∈ ex` iff the loop index of `l` (`make_loop_index`, characterised by `loop_index_spec` as the number of the
    innermost enclosing pair) is one of the exterior loops (`exterior_spec`: the loops at the strand ends) — on loci:
    iff `l` is enclosed by exactly the pairs that enclose some nick or the outer end (`ExteriorPos`);
    order: both lists are sorted strand-major, position-minor (`Locus.lt`). -/
theorem exterior_enclosed_partition (o : CplxObj) (hc : C03.Coherent o) (pt : PairTable) (hw : C07.WFStruct o.sst pt)
    (hconn : Brk.ConnL pt pt.length) (vs : List View) :
    ∃ (ex en : List Locus) (lo : LoopOut), makeLoopIndex pt false = .ok lo ∧
      ((runQ o vs).query .exterior).2 = .locs ex ∧ ((runQ o vs).query .enclosed).2 = .locs en ∧
      (∀ l, l ∈ ex ++ en ↔ ValidL (pt.map List.length) l ∧ ptGet pt l = none) ∧ (ex ++ en).Nodup ∧
      (∀ l, l ∈ ex ↔ ValidL (pt.map List.length) l ∧ ptGet pt l = none ∧ ExteriorPos pt l) ∧
      (∀ l, l ∈ en ↔ ValidL (pt.map List.length) l ∧ ptGet pt l = none ∧ ¬ ExteriorPos pt l) ∧
      (∀ l, l ∈ ex ↔ ValidL (pt.map List.length) l ∧ ptGet pt l = none ∧
        ∃ x, getL lo.loopIndex l = some x ∧ x ∈ lo.exterior) ∧
      ex.Pairwise (fun a b => Locus.lt a b = true) ∧ en.Pairwise (fun a b => Locus.lt a b = true) := by
  obtain ⟨lo, hlo⟩ := plain_ok o.sst pt hw hconn
  obtain ⟨s1, s2, s3, s4, s5⟩ := extOf_spec o.sst pt hw lo hlo
  refine ⟨(CplxObj.extOf pt (lo.loopIndex, lo.exterior)).1, (CplxObj.extOf pt (lo.loopIndex, lo.exterior)).2, lo, hlo,
    ?_, ?_, ?_, ?_, s1, s2, s3, s4, s5⟩
  · rw [query_runQ o vs _ hc]
    simp only [C03.qSpec, edSpec_ok o.sst pt hw lo hlo]
  · rw [query_runQ o vs _ hc]
    simp only [C03.qSpec, edSpec_ok o.sst pt hw lo hlo]
  · intro l
    rw [List.mem_append, s1, s2]
    constructor
    · rintro (⟨a, b, _⟩ | ⟨a, b, _⟩) <;> exact ⟨a, b⟩
    · rintro ⟨a, b⟩
      by_cases he : ExteriorPos pt l
      · exact Or.inl ⟨a, b, he⟩
      · exact Or.inr ⟨a, b, he⟩
  · have nd : ∀ (xs : List Locus), xs.Pairwise (fun a b => Locus.lt a b = true) → xs.Nodup := by
      intro xs hx
      exact hx.imp (fun {a b} hab e => by rw [e, Locus.lt_irrefl] at hab; cases hab)
    rw [List.nodup_append]
    refine ⟨nd _ s4, nd _ s5, ?_⟩
    intro a ha b hb e
    subst e
    exact ((s2 a).mp hb).2.2 ((s1 a).mp ha).2.2

/-- the same for the cache-free specification object -/
theorem exterior_enclosed_spec (o : CplxObj) (pt : PairTable) (hw : C07.WFStruct o.sst pt) (lo : LoopOut)
    (hlo : makeLoopIndex pt false = .ok lo) :
    o.spec.answer .exterior = .locs (CplxObj.extOf pt (lo.loopIndex, lo.exterior)).1 ∧
    o.spec.answer .enclosed = .locs (CplxObj.extOf pt (lo.loopIndex, lo.exterior)).2 := by
  have h1 := query_runQ o.fresh [] .exterior (C03.coherent_fresh _ _ _ _ _)
  have h2 := query_runQ o.fresh [] .enclosed (C03.coherent_fresh _ _ _ _ _)
  simp only [C03.qSpec, CplxObj.fresh, edSpec_ok o.sst pt hw lo hlo] at h1 h2
  exact ⟨h1, h2⟩

/-! ### 4. the views after assigning `turns` -/

/-- **after `turns = v`** (which succeeds) the complex is connected iff it was, and for a connected complex the
    exterior / enclosed domains are exactly the original ones re-indexed by
    `rotate_pairtable_loc(·, k)`, `k = wrap(v - turns, n)` (`C07.rotLoc`): the strand index drops by `k` modulo the
    number of strands, the position inside the strand is kept.  (As lists both are sorted again strand-major.) -/
theorem views_after_rotation (o : CplxObj) (hc : C03.Coherent o) (hd : C02.Descr o.seq o.sst) (pt : PairTable)
    (hpt : makePairTable o.sst = .ok pt) (hconn : Brk.ConnL pt pt.length) (v : Int) (vs : List View) :
    ∃ (ex en ex' en' : List Locus),
      (o.setTurns v).2 = none ∧
      (o.query .exterior).2 = .locs ex ∧ (o.query .enclosed).2 = .locs en ∧
      ((runQ (o.setTurns v).1 vs).query .exterior).2 = .locs ex' ∧
      ((runQ (o.setTurns v).1 vs).query .enclosed).2 = .locs en' ∧
      ((runQ (o.setTurns v).1 vs).query .isConnected).2 = .bool true ∧
      (∀ l', l' ∈ ex' ↔ ∃ l, l ∈ ex ∧ l' = C07.rotLoc pt.length ((wrap (-(o.turns : Int) + v) pt.length : Nat) : Int) l) ∧
      (∀ l', l' ∈ en' ↔ ∃ l, l ∈ en ∧ l' = C07.rotLoc pt.length ((wrap (-(o.turns : Int) + v) pt.length : Nat) : Int) l) := by
  obtain ⟨r, hr, e1, e2, e3, hc'⟩ := setTurns_rot o hc hd pt hpt v
  obtain ⟨seq', sst', pt', g1, g2, g3, g4, g5, g6⟩ :=
    rotateN_extRot (wrap (-(o.turns : Int) + v) pt.length) o.seq o.sst pt hd hpt
  rw [hr] at g1
  cases g1
  have hw := (descr_wf o.seq o.sst hd pt hpt).1
  have hw' : C07.WFStruct (o.setTurns v).1.sst pt' := by
    rw [e2]; exact (descr_wf _ _ g2 pt' g3).1
  have hconn' : Brk.ConnL pt' pt'.length := g6.mp hconn
  obtain ⟨ex, en, lo, _, a1, a2, _, _, a5, a6, _⟩ := exterior_enclosed_partition o hc pt hw hconn []
  obtain ⟨ex', en', lo', _, b1, b2, _, _, b5, b6, _⟩ :=
    exterior_enclosed_partition (o.setTurns v).1 hc' pt' hw' hconn' vs
  refine ⟨ex, en, ex', en', e3, a1, a2, b1, b2, ((isConnected_iff _ hc' pt' hw' vs).1).mpr hconn', ?_, ?_⟩
  · exact g5.image (· ∈ ex) (· ∈ ex') a5 b5
  · exact g5.image_not (· ∈ en) (· ∈ en') a6 b6

/-! ### examples -/

/-- connectivity is what plain-mode `make_loop_index` decides -/
theorem connL_iff_ok (sst : List Char) (pt : PairTable) (hw : C07.WFStruct sst pt) :
    Brk.ConnL pt pt.length ↔ ∃ lo, makeLoopIndex pt false = .ok lo := by
  obtain ⟨syms, t, L, _⟩ := Split.mpt_linF sst '+' pt hw.ok
  exact (Brk.plain_iff_connL L (wf_pos hw L)).symm

theorem wf_of_check (sst : List Char) (pt : PairTable) (h1 : makePairTable sst = .ok pt)
    (h2 : (splitOn '+' sst).all (fun s => !s.isEmpty) = true) : C07.WFStruct sst pt := by
  refine ⟨h1, ?_⟩
  intro s hs e
  have := List.all_eq_true.mp h2 s hs
  rw [e] at this
  simp at this

namespace Ex

def sC : List Char := "((.+.)+(+)).".toList
def qC : List String := ["a", "b", "x", "+", "y", "c", "+", "d", "+", "e", "f", "g"]
/-- a connected nicked multiloop of four strands -/
def oC : CplxObj := { seq := qC, sst := sC, turns := 0, canon := (qC, sC), name := "X" }
def ptC : PairTable :=
  [[some (3, 1), some (1, 1), none], [none, some (0, 1)], [some (3, 0)], [some (2, 0), some (0, 0), none]]

theorem wf_C : C07.WFStruct oC.sst ptC := wf_of_check _ _ (by decide) (by decide)
theorem conn_C : Brk.ConnL ptC ptC.length := (connL_iff_ok _ _ wf_C).mpr ⟨_, (by decide : makeLoopIndex ptC false = .ok
  { loopIndex := [[1, 2, 2], [2, 2], [3], [3, 1, 0]], exterior := [2, 1, 3, 0], myext := [(0, 2), (2, 1), (1, 3), (3, 0)] })⟩

/-- the hypotheses of 1, 2, 4 hold for `oC`; its views, and the views after `turns = 1` (every strand index
    drops by one, the first strand becomes the last) -/
theorem connected_example :
    C03.Coherent oC ∧ C07.WFStruct oC.sst ptC ∧ Brk.ConnL ptC ptC.length ∧
    (oC.query .isConnected).2 = .bool true ∧
    (oC.query .exterior).2 = .locs [(0, 2), (1, 0), (3, 2)] ∧ (oC.query .enclosed).2 = .locs [] ∧
    ((oC.setTurns 1).1.query .exterior).2 = .locs [(0, 0), (2, 2), (3, 2)] :=
  ⟨C03.coherent_fresh _ _ _ _ _, wf_C, conn_C, by decide, by decide, by decide, by decide⟩

/-- a hairpin with a tail: the hairpin loop is enclosed, the tail exterior -/
theorem hairpin_example :
    let o : CplxObj := { seq := ["a", "b", "c", "d", "e"], sst := "(.)..".toList, turns := 0,
                          canon := (["a", "b", "c", "d", "e"], "(.)..".toList), name := "H" }
    (o.query .exterior).2 = .locs [(0, 3), (0, 4)] ∧ (o.query .enclosed).2 = .locs [(0, 1)] := by decide

def oD : CplxObj := { seq := ["a", "+", "b"], sst := ".+.".toList, turns := 0, canon := (["a", "+", "b"], ".+.".toList), name := "D" }

/-- a disconnected complex: the hypotheses of 3 hold, the views raise at the first and at later queries -/
theorem disconnected_example :
    C03.Coherent oD ∧ C07.WFStruct oD.sst [[none], [none]] ∧ ¬ Brk.ConnL [[none], [none]] 2 ∧
    (oD.query .exterior).2 = .err .secondaryStructure ∧
    ((runQ oD [.exterior, .enclosed, .isConnected]).query .exterior).2 = .err .secondaryStructure ∧
    ((runQ oD [.exterior, .enclosed]).query .isConnected).2 = .bool false := by
  have hw : C07.WFStruct oD.sst [[none], [none]] := wf_of_check _ _ (by decide) (by decide)
  refine ⟨C03.coherent_fresh _ _ _ _ _, hw, ?_, by decide, by decide, by decide⟩
  intro h
  obtain ⟨lo, hlo⟩ := (connL_iff_ok _ _ hw).mp h
  have he : makeLoopIndex [[none], [none]] false = .error .secondaryStructure := by decide
  rw [he] at hlo
  cases hlo

/-- a defective variant of the exterior view (the seeded regression): a failure fills the cache with empty lists -/
def exteriorCachingFailure (o : CplxObj) : CplxObj × Ans :=
  let r := o.query .exterior
  match r.2 with
  | .err _ => ({ r.1 with extDomains := some ([], []) }, r.2)
  | _ => r

/-- negative witness: with that variant the second query of a disconnected complex answers `[]` instead of raising
    (the object it leaves behind is not coherent, so `disconnected_views_raise` rules the variant out) -/
theorem cached_failure_counterexample :
    ((exteriorCachingFailure oD).1.query .exterior).2 = .locs [] ∧
    ((oD.query .exterior).1.query .exterior).2 = .err .secondaryStructure := by decide

end Ex

end Dsd.C08
