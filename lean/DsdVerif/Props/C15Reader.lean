import DsdVerif.Lemmas.ReaderFrameDoc
import DsdVerif.Lemmas.Reader

namespace Dsd.C15
open Dsd Dsd.PP Dsd.RdL

/-! C15 on the reader model: after `set_io_objects(D, S, C, M, R)` (the `Slots`) the PIL reader works in the
configured class of every kind only.

The hypothesis on the world is `ReaderWorld sl w` (`RdL.Inv`): `w` is well-formed (`RdL.WF`: four classes per kind,
node identities unique and below the counter, every registered object has a node of its kind and class, children
of nodes are nodes — every world built by the model's operations from `{}` is, and `RdL.WOK` implies it) and the
strands of the slot class are built from domains of the slot class (`RdL.SlotStrands`).  The second part is needed
and cannot be dropped: `~d` creates the complement in the class of `d` (`World.invert` reads the class off the
node), and the reader inverts the domains of composite domains it finds BY NAME in the strand class of the slot —
see `slotStrands_needed` below.  Both parts hold in the fresh world and are kept by every line, whatever its tokens.

Counters: the frame is stated for the registered objects (`reg.objs`).  The `ID` counter of a class without its
own `ID` attribute is the one of its nearest ancestor (`World.effId`), which `withClass` copies into the registry
it works on (`autoId := effId …`) and marks as own (`ownId`) once it moved; these two fields are the only ones of
the slot class's record that change besides `objs`, and no record of another class is written at all
(`List.set c`), but the EFFECTIVE counter a subclass inherits from the slot class moves with it.  The reader never
uses automatic names, so the counters stay put anyway. -/

/-- the world of a reader configured with `sl` -/
abbrev ReaderWorld (sl : Slots) (w : World) : Prop := RdL.Inv sl w

theorem readerWorld_fresh (sl : Slots) : ReaderWorld sl ({} : World) := inv_empty sl

/-- a well-formed world (in the sense of C16's `WOK`) whose slot-class strands are made of slot-class domains -/
theorem readerWorld_of_wok (sl : Slots) (w : World) (h : WOK w) (hs : SlotStrands sl w) : ReaderWorld sl w := ⟨h.wf, hs⟩

/-- **1. a line touches the slot classes only**: for ANY token list, in every kind the registered objects of every
    class other than the configured one are exactly the same afterwards (success or failure); the reader world
    is kept -/
theorem readLine_frame (s : RState) (sl : Slots) (hsl : RdL.SlotsOK sl) (hw : ReaderWorld sl s.w) (line : List Tree) :
    (∀ c, c ≠ sl.dom → ((s.readLine sl line).1.w.doms[c]?).map (·.reg.objs) = (s.w.doms[c]?).map (·.reg.objs)) ∧
    (∀ c, c ≠ sl.strand → ((s.readLine sl line).1.w.strands[c]?).map (·.reg.objs) = (s.w.strands[c]?).map (·.reg.objs)) ∧
    (∀ c, c ≠ sl.cplx → ((s.readLine sl line).1.w.cplxs[c]?).map (·.reg.objs) = (s.w.cplxs[c]?).map (·.reg.objs)) ∧
    (∀ c, c ≠ sl.macr → ((s.readLine sl line).1.w.macros[c]?).map (·.reg.objs) = (s.w.macros[c]?).map (·.reg.objs)) ∧
    (∀ c, c ≠ sl.rxn → ((s.readLine sl line).1.w.rxns[c]?).map (·.reg.objs) = (s.w.rxns[c]?).map (·.reg.objs)) ∧
    ReaderWorld sl (s.readLine sl line).1.w ∧
    (∀ x ∈ s.w.held, x ∈ (s.readLine sl line).1.w.held) := by
  obtain ⟨h1, h2, _⟩ := readLine_fs s sl hw hsl line
  exact ⟨h2.frame.doms, h2.frame.strands, h2.frame.cplxs, h2.frame.macros, h2.frame.rxns, h1, h2.held⟩

/-! #### the hypothesis on the slot-class strands is needed -/

/-- a domain `a` of class 0, and a composite domain `S = a` of class 1 -/
def mixedWorld : World :=
  let w0 := (({} : World).mkDom 0 { name := some "a", length := some 5 }).1
  (w0.mkStrand 1 (some [some 0]) (some "S")).1

def slots1 : Slots := { dom := 1, strand := 1, cplx := 1, macr := 1, rxn := 1 }

/-- FALSE without `SlotStrands`: reading `X = S*` with all slots set to class 1 in `mixedWorld` inverts the domain
    `a` of class 0 and registers `a*` in class 0, a class the reader is not configured with -/
theorem slotStrands_needed :
    ((mixedWorld.doms[0]?).map (·.reg.objs.length) = some 1) ∧
    (((({ w := mixedWorld } : RState).readLine slots1 [.tok "kernel-complex", .tok "X", .grp [.tok "S*"]]).1.w.doms[0]?).map
      (·.reg.objs.length) = some 2) := by
  constructor <;> decide +kernel

/-! #### documents -/

/-- **2. a document adds nothing to a non-slot class, and removes nothing that is held**: with `before ⊆ held`,
    after `read_pil` (successful or not) every object of a class other than the configured one was there before —
    the same object: identity, name, canonical form, keys — (`sub…`; the per-line collection may have removed dead
    ones), and every such object whose identity is in `before` is still there (`keep…`); see `RdL.DocRel` -/
theorem readDoc_frame (s : RState) (sl : Slots) (hsl : RdL.SlotsOK sl) (hw : ReaderWorld sl s.w) (ign : List String)
    (before : List Nat) (hb : ∀ x ∈ before, x ∈ s.w.held) (lines : List Tree) :
    DocRel sl before s.w (s.readDoc sl ign before lines {}).1.w ∧
    ReaderWorld sl (s.readDoc sl ign before lines {}).1.w ∧
    (∀ x ∈ before, x ∈ (s.readDoc sl ign before lines {}).1.w.held) := by
  obtain ⟨h1, h2, h3, _⟩ := readDoc_fs sl hsl ign before lines s {} hw hb (dictIn_empty sl s.w)
  exact ⟨h2, h1, h3⟩

/-- the domain part of `readDoc_frame`, spelled out -/
theorem readDoc_frame_doms (s : RState) (sl : Slots) (hsl : RdL.SlotsOK sl) (hw : ReaderWorld sl s.w) (ign : List String)
    (before : List Nat) (hb : ∀ x ∈ before, x ∈ s.w.held) (lines : List Tree) (c : Nat) (hc : c ≠ sl.dom) :
    (∀ cr', (s.readDoc sl ign before lines {}).1.w.doms[c]? = some cr' →
      ∃ cr, s.w.doms[c]? = some cr ∧ ∀ o ∈ cr'.reg.objs, o ∈ cr.reg.objs) ∧
    (∀ cr, s.w.doms[c]? = some cr →
      ∃ cr', (s.readDoc sl ign before lines {}).1.w.doms[c]? = some cr' ∧
        ∀ o ∈ cr.reg.objs, o.id ∈ before → o ∈ cr'.reg.objs) := by
  obtain ⟨h, _, _⟩ := readDoc_frame s sl hsl hw ign before hb lines
  exact ⟨fun cr' h' => h.subDoms c cr' hc h', fun cr h' => h.keepDoms c cr hc h'⟩

/-! #### the objects of the result dictionary -/

/-- the identities stored in the result dictionary, by kind -/
def InDict (d : RDict) : Kind → Nat → Prop
  | .dom, i => ∃ n, (n, i) ∈ d.domains
  | .strand, i => ∃ n, (n, i) ∈ d.strands
  | .cplx, i => ∃ n, (n, i) ∈ d.complexes
  | .macro, i => ∃ n, (n, i) ∈ d.macrostates
  | .rxn, i => i ∈ d.det ∨ i ∈ d.con

theorem inDict_inSlot (sl : Slots) (w : World) (d : RDict) (h : DictIn sl w d) (k : Kind) (i : Nat) (hi : InDict d k i) :
    InSlot sl w k i := by
  cases k with
  | dom => obtain ⟨n, hn⟩ := hi; exact h.domains _ hn
  | strand => obtain ⟨n, hn⟩ := hi; exact h.strands _ hn
  | cplx => obtain ⟨n, hn⟩ := hi; exact h.complexes _ hn
  | «macro» => obtain ⟨n, hn⟩ := hi; exact h.macrostates _ hn
  | rxn => rcases hi with hi | hi
           · exact h.det _ hi
           · exact h.con _ hi

/-- `RdL.has` is registration: `findId` finds the identity in the registry of that class -/
theorem has_dom_iff (w : World) (c i : Nat) :
    has w .dom c i ↔ ∃ cr, w.doms[c]? = some cr ∧ (cr.reg.findId i).isSome := by
  simp only [has, HasObj, Reg.findId, List.find?_isSome, beq_iff_eq]
theorem has_strand_iff (w : World) (c i : Nat) :
    has w .strand c i ↔ ∃ cr, w.strands[c]? = some cr ∧ (cr.reg.findId i).isSome := by
  simp only [has, HasObj, Reg.findId, List.find?_isSome, beq_iff_eq]
theorem has_cplx_iff (w : World) (c i : Nat) :
    has w .cplx c i ↔ ∃ cr, w.cplxs[c]? = some cr ∧ (cr.reg.findId i).isSome := by
  simp only [has, HasObj, Reg.findId, List.find?_isSome, beq_iff_eq]
theorem has_macro_iff (w : World) (c i : Nat) :
    has w .macro c i ↔ ∃ cr, w.macros[c]? = some cr ∧ (cr.reg.findId i).isSome := by
  simp only [has, HasObj, Reg.findId, List.find?_isSome, beq_iff_eq]
theorem has_rxn_iff (w : World) (c i : Nat) :
    has w .rxn c i ↔ ∃ cr, w.rxns[c]? = some cr ∧ (cr.reg.findId i).isSome := by
  simp only [has, HasObj, Reg.findId, List.find?_isSome, beq_iff_eq]

/-- **3. every object the reader hands out is an instance of exactly the configured class of its kind and lives
    only in that class's registry**: for a successful read into a reader world, every identity `i` stored under
    kind `k` in the result dictionary has a node of kind `k` and class `slot k`, is registered (`has`, i.e. `findId`
    succeeds, see `has_dom_iff` …) in the registry of class `slot k` of kind `k`, in no other class of that kind, in
    no class of any other kind, and is held by the caller -/
theorem reader_objects_in_slot_class (s : RState) (sl : Slots) (hsl : RdL.SlotsOK sl) (hw : ReaderWorld sl s.w)
    (ign : List String) (before : List Nat) (hb : ∀ x ∈ before, x ∈ s.w.held) (lines : List Tree)
    (s' : RState) (d' : RDict) (h : s.readDoc sl ign before lines {} = (s', .ok d')) (k : Kind) (i : Nat)
    (hi : InDict d' k i) :
    (∃ n ∈ s'.w.nodes, n.id = i ∧ n.kind = k ∧ n.cls = slotOf sl k) ∧
    has s'.w k (slotOf sl k) i ∧
    (∀ c, c ≠ slotOf sl k → ¬ has s'.w k c i) ∧
    (∀ k' c, k' ≠ k → ¬ has s'.w k' c i) ∧
    i ∈ s'.w.held := by
  obtain ⟨h1, _, _, h4, _⟩ := readDoc_fs sl hsl ign before lines s {} hw hb (dictIn_empty sl s.w)
  rw [h] at h1 h4
  obtain ⟨hhas, hheld⟩ := inDict_inSlot sl s'.w d' (h4 d' rfl) k i hi
  refine ⟨h1.wf.objNode _ _ _ hhas, hhas, ?_, ?_, hheld⟩
  · intro c hc hh
    exact hc (wf_has_unique s'.w h1.wf _ _ _ _ i hh hhas).2
  · intro k' c hk hh
    exact hk (wf_has_unique s'.w h1.wf _ _ _ _ i hh hhas).1

/-- the same for the fresh world -/
theorem reader_objects_in_slot_class_fresh (sl : Slots) (hsl : RdL.SlotsOK sl) (ign : List String) (lines : List Tree)
    (s' : RState) (d' : RDict) (h : ({} : RState).readDoc sl ign [] lines {} = (s', .ok d')) (k : Kind) (i : Nat)
    (hi : InDict d' k i) :
    (∃ n ∈ s'.w.nodes, n.id = i ∧ n.kind = k ∧ n.cls = slotOf sl k) ∧
    has s'.w k (slotOf sl k) i ∧ (∀ c, c ≠ slotOf sl k → ¬ has s'.w k c i) ∧
    (∀ k' c, k' ≠ k → ¬ has s'.w k' c i) ∧ i ∈ s'.w.held :=
  reader_objects_in_slot_class {} sl hsl (readerWorld_fresh sl) ign [] (by simp) lines s' d' h k i hi

/-! #### a failed read leaves no trace -/

/-- **4. a constructor that fails leaves no trace** (document level — a single failing line may leave behind the
    objects it created before the failure, e.g. the domains of a refused kernel complex; they are released by the
    `keepOnly before {}` that ends the read).  If the handles in `before` are live, then after a FAILED read every
    node is a node of the original world and every registered identity — of any kind, in any class, the slot
    classes included — was registered in the same kind and class before: everything the read created is gone,
    so every name and canonical form it had bound is free again; and nothing the caller holds was lost
    (`readDoc_frame`, `C14.failed_read_restores`) -/
theorem failed_read_no_trace (s : RState) (sl : Slots) (hsl : RdL.SlotsOK sl) (hw : ReaderWorld sl s.w)
    (ign : List String) (before : List Nat) (hb : ∀ x ∈ before, x ∈ s.w.held) (hlive : ∀ x ∈ before, HasNode s.w x)
    (lines : List Tree) (s' : RState) (e : RErr) (h : s.readDoc sl ign before lines {} = (s', .error e)) :
    (∀ n ∈ s'.w.nodes, n ∈ s.w.nodes) ∧ (∀ k c i, has s'.w k c i → has s.w k c i) ∧
    (∀ x ∈ s'.w.held, x ∈ before) := by
  obtain ⟨h1, _, _, _, h5⟩ := readDoc_fs sl hsl ign before lines s {} hw hb (dictIn_empty sl s.w)
  rw [h] at h1 h5
  have hold := h5 s.w (Old.refl s.w)
  simp only at h1 hold
  obtain ⟨sX, hsX⟩ := ReaderL.readDoc_error sl ign before lines s {} s' e h
  have hheld : ∀ x ∈ s'.w.held, x ∈ before := by
    intro x hx
    rw [hsX, keepOnly_eq] at hx
    simp only [WorldL.collect_held, List.mem_filter, List.contains_eq_mem, decide_eq_true_eq] at hx
    simpa [keepList] using hx.2
  have hreach : ∀ n ∈ s'.w.nodes, n.id ∈ s'.w.reachable := by
    rw [hsX, keepOnly_eq]; exact WorldL.collect_nodes_reachable _
  -- everything reachable from the old handles carries an old identity
  have hlt : ∀ x, C05.Reach s'.w x → x < s.w.nextId := by
    intro x hx
    induction hx with
    | held y hy =>
      obtain ⟨m, hm, hmi⟩ := hlive y (hheld y hy)
      rw [← hmi]; exact hw.wf.lt m hm
    | child a b _ hb' ih =>
      unfold World.childrenOf at hb'
      cases hf : s'.w.nodes.find? (fun m => m.id == a) with
      | none => rw [hf] at hb'; simp at hb'
      | some m =>
        rw [hf] at hb'
        have hma : m.id = a := by simpa using List.find?_some hf
        have hm0 : m ∈ s.w.nodes := hold.nodes m (List.mem_of_find?_eq_some hf) (by rw [hma]; exact ih)
        obtain ⟨mb, hmb, hmbi⟩ := hw.wf.child m hm0 b hb'
        rw [← hmbi]; exact hw.wf.lt mb hmb
  have hnode : ∀ n ∈ s'.w.nodes, n.id < s.w.nextId :=
    fun n hn => hlt n.id (C05.reachable_sound s'.w n.id (hreach n hn))
  refine ⟨fun n hn => hold.nodes n hn (hnode n hn), ?_, hheld⟩
  intro k c i hh
  obtain ⟨n, hn, hni, _⟩ := h1.wf.objNode k c i hh
  exact hold.has k c i hh (by rw [← hni]; exact hnode n hn)

/-- with no handles to keep, a failed read leaves an empty world behind -/
theorem failed_read_from_nothing (s : RState) (sl : Slots) (hsl : RdL.SlotsOK sl) (hw : ReaderWorld sl s.w)
    (ign : List String) (lines : List Tree) (s' : RState) (e : RErr)
    (h : s.readDoc sl ign [] lines {} = (s', .error e)) : s'.w.nodes = [] ∧ s'.w.held = [] ∧ ∀ k c i, ¬ has s'.w k c i := by
  obtain ⟨h1, _, _, _, _⟩ := readDoc_fs sl hsl ign [] lines s {} hw (by simp) (dictIn_empty sl s.w)
  rw [h] at h1
  obtain ⟨sX, hsX⟩ := ReaderL.readDoc_error sl ign [] lines s {} s' e h
  have hheld : s'.w.held = [] := by
    rw [hsX, keepOnly_eq]
    simp [WorldL.collect_held, keepList]
  have hnodes : s'.w.nodes = [] := by
    apply List.eq_nil_iff_forall_not_mem.mpr
    intro n hn
    have hr : n.id ∈ s'.w.reachable := by
      have := WorldL.collect_nodes_reachable ({ sX.w with held := sX.w.held.filter (fun h => (keepList [] {}).contains h) } : World) n
      rw [hsX, keepOnly_eq] at hn ⊢
      exact this hn
    have : ∀ x, C05.Reach s'.w x → False := by
      intro x hx
      induction hx with
      | held y hy => rw [hheld] at hy; simp at hy
      | child a b _ _ ih => exact ih
    exact this n.id (C05.reachable_sound s'.w n.id hr)
  refine ⟨hnodes, hheld, ?_⟩
  intro k c i hh
  obtain ⟨n, hn, _⟩ := h1.wf.objNode k c i hh
  rw [hnodes] at hn; simp at hn

/-! #### non-vacuity -/

/-- a base-class world (a domain, a strand and a complex of class 0) read with all slots set to class 1 -/
def baseWorld : World :=
  let w0 := (({} : World).mkDom 0 { name := some "a", length := some 5 }).1
  let w1 := (w0.mkStrand 0 (some [some 0]) (some "S")).1
  (w1.mkCplx 0 (some [some 0]) ['.'] (some "C") none).1

def doc1 : List Tree :=
  [.grp [.tok "dl-domain", .tok "a", .tok "short"],
   .grp [.tok "composite-domain", .tok "S", .grp [.tok "a"]],
   .grp [.tok "kernel-complex", .tok "C", .grp [.tok "S*"]]]


def slots0 : Slots := {}
def bw0 : World := (({} : World).mkDom 0 { name := some "a", length := some 5 }).1
def bw1 : World := (bw0.mkStrand 0 (some [some 0]) (some "S")).1

theorem slots0_ok : RdL.SlotsOK slots0 := ⟨by decide, by decide, by decide, by decide, by decide⟩
theorem slots1_ok : RdL.SlotsOK slots1 := ⟨by decide, by decide, by decide, by decide, by decide⟩

theorem baseWorld_wf : WF baseWorld := by
  have h0 : Inv slots0 ({} : World) := inv_empty _
  -- the three requests that build `baseWorld`
  have g0 := mkDom_growF ({} : World) 0 _ rfl "a" (some 5)
  have w0 : WF bw0 := g0.wf h0.wf (by simp)
  have hn0 : HasNode bw0 0 := by
    obtain ⟨n, hn, h1, _⟩ := w0.objNode .dom 0 0 (g0.ret 0 true (by decide +kernel))
    exact ⟨n, hn, h1⟩
  obtain ⟨cr1, hc1⟩ := class_some bw0.strands 0 w0.lens.2.1 (by decide)
  have g1 := (mkStrand_grow bw0 0 cr1 hc1 (some [some 0]) "S").toF
  have w1 : WF bw1 := g1.wf w0 (by intro ch hch; simp at hch; subst hch; exact hn0)
  obtain ⟨cr2, hc2⟩ := class_some bw1.cplxs 0 w1.lens.2.2.1 (by decide)
  have g2 := (mkCplx_grow bw1 0 cr2 hc2 (some [some 0]) ['.'] "C").toF
  exact g2.wf w1 (by intro ch hch; simp at hch; subst hch; exact g1.hasNodeOld 0 hn0)

/-- the hypothesis of the theorems holds in a populated base-class world, for slots of another class -/
theorem baseWorld_reader : ReaderWorld slots1 baseWorld := by
  refine ⟨baseWorld_wf, ?_⟩
  intro n hn hk hc
  have hall : baseWorld.nodes.all (fun n => n.cls == 0) = true := by decide +kernel
  have := List.all_eq_true.mp hall n hn
  simp only [beq_iff_eq] at this
  rw [this] at hc
  exact absurd hc (by decide)

/-- the read succeeds, fills class 1 of every kind used, and leaves the three class-0 objects alone although the
    names `a`, `S`, `C` are all taken there -/
example :
    (match ({ w := baseWorld } : RState).readDoc slots1 [] [0, 1, 2] doc1 {} with
     | (s', .ok d') =>
       d'.domains.map (·.1) == ["a", "a*"] && d'.strands.map (·.1) == ["S"] && d'.complexes.map (·.1) == ["C"] &&
       (s'.w.doms[0]?).map (·.reg.objs.map (·.name)) == some ["a"] &&
       (s'.w.doms[1]?).map (·.reg.objs.map (·.name)) == some ["a", "a*"] &&
       (s'.w.strands[0]?).map (·.reg.objs.map (·.name)) == some ["S"] &&
       (s'.w.cplxs[0]?).map (·.reg.objs.map (·.name)) == some ["C"] &&
       (s'.w.cplxs[1]?).map (·.reg.objs.map (·.name)) == some ["C"]
     | _ => false) = true := by decide +kernel

/-- `readDoc_frame` applied to this world: the three base-class objects (held as `[0, 1, 2]`) are still there and
    nothing was added to class 0 -/
example : DocRel slots1 [0, 1, 2] baseWorld (({ w := baseWorld } : RState).readDoc slots1 [] [0, 1, 2] doc1 {}).1.w :=
  (readDoc_frame { w := baseWorld } slots1 slots1_ok baseWorld_reader [] [0, 1, 2] (by decide +kernel) doc1).1

/-- a document whose second line is refused (`a` is requested again with another length) -/
def failDoc : List Tree :=
  [.grp [.tok "dl-domain", .tok "a", .tok "short"], .grp [.tok "dl-domain", .tok "a", .tok "long"]]

/-- the read fails with SingletonError, nothing is left, and the name `a` is free again: it can now be bound with
    the other length -/
example :
    (match ({} : RState).readDoc {} [] [] failDoc {} with
     | (s', .error .singleton) =>
       s'.w.nodes.length == 0 && (s'.w.doms[0]?).map (·.reg.objs.length) == some 0 &&
       (match (s'.w.mkDom 0 { name := some "a", length := some 15 }).2 with | .ret _ true => true | _ => false)
     | _ => false) = true := by decide +kernel

end Dsd.C15
