/-
The `resting-macrostate` branch and the ignored-reaction case of the `reaction` branch of `read_pil_line` AS WRITTEN (Gen/PyReadLine.lean) against the
same branches of `ReaderFull.readLineFull`, with the request parameters instantiated by the model's world (`PyReadLineL.modelEnv`).

* `py_resting_macrostate_eq_model`: for a str name and a list of strs, under the model's own assumption that a look-up `Complex(None, None, x)` never
  answers KeyError (`NoKeyError`; the model drops the `try … except KeyError: raise PilFormatError` wrapper, the translation has it): same object or
  exception, same world.
* `py_ignored_reaction_hands_back_eq_model`: a typed reaction line that the model ignores (no rate / no type / type outside `Gen.rtypes`) is handed back by
  the code as written, world untouched - as the model's `RObj.other` (through `PyReaderFns.py_ignored_reaction_six_nones`).
NOT proved: the accepted-reaction case (look-ups, `Reaction(…)`, `.rate_constant`).
-/
import DsdVerif.Lemmas.PyReadLine3Rxn

namespace Dsd.PyReadLine3
open Dsd Dsd.PP Dsd.Gen Dsd.ReaderFull Dsd.PyReadLineL

theorem py_resting_macrostate_eq_model (sl : Slots) (RT : Py.StrSet) (g12 : Py.FloatLit → String) (strL : List Tree → String) (name : String)
    (xs : List String) (rest : List Tree) (s : RState) (hK : NoKeyError (fun s x => ctorComplex sl s none [] (some x))) :
    Py.MS.exec (py_read_pil_line (modelEnv sl RT g12 strL) (.tok "resting-macrostate" :: .tok name :: .grp (xs.map .tok) :: rest)) s =
      outOf (.tok "resting-macrostate" :: .tok name :: .grp (xs.map .tok) :: rest)
        (s.readLineFull sl (.tok "resting-macrostate" :: .tok name :: .grp (xs.map .tok) :: rest)) :=
  resting_eq sl RT g12 strL name xs rest s hK

theorem py_ignored_reaction_hands_back_eq_model (sl : Slots) (g12 : Py.FloatLit → String) (strL : List Tree → String) (nameT : Tree)
    (rest : List Tree) (s : RState) (hT : PyReaderFnsL.lineTyped (.tok "reaction" :: nameT :: rest) = true)
    (hm : readReaction (.tok "reaction" :: nameT :: rest) = .ok (none, none, none)) :
    Py.MS.exec (py_read_pil_line (modelEnv sl Gen.rtypes g12 strL) (.tok "reaction" :: nameT :: rest)) s =
      outOf (.tok "reaction" :: nameT :: rest) (s.readLineFull sl (.tok "reaction" :: nameT :: rest)) :=
  reaction_ignored_eq sl g12 strL nameT rest s hT hm

/-- running `try … catch` in the translation's monad: the handler runs in the world the body left (an exception does not undo the requests) -/
theorem py_try_keeps_world {α} (m : Py.MS RState α) (h : Err → Py.MS RState α) (s : RState) :
    Py.MS.exec (tryCatch m h) s =
      (match Py.MS.exec m s with
       | (.ok a, s') => (.ok a, s')
       | (.error e, s') => Py.MS.exec (h e) s') :=
  exec_tryCatch m h s

end Dsd.PyReadLine3

#print axioms Dsd.PyReadLine3.py_resting_macrostate_eq_model
#print axioms Dsd.PyReadLine3.py_ignored_reaction_hands_back_eq_model
#print axioms Dsd.PyReadLine3.py_try_keeps_world
