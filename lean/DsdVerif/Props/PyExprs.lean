import DsdVerif.Gen.PyExprs
import DsdVerif.Model.Complex
import DsdVerif.Model.Objects
import DsdVerif.Props.C07Loci

/-! The small pure functions that are translated from the Python source on every run (Gen/PyExprs.lean) compute what the
hand-written model computes: a change of `wrap`, `rotate_pairtable_loc` or `DomainS.dtype` in the source re-opens these
obligations. -/
namespace Dsd.PyExprs
open Dsd Dsd.Gen

/-- `complex_utils.wrap` as written in the source is the model's `wrap` (for a positive modulus) -/
theorem py_wrap_eq_model (x : Int) (m : Nat) (hm : 0 < m) : py_wrap x m = (wrap x m : Int) := by
  unfold py_wrap wrap
  have hm' : (0 : Int) < m := by exact_mod_cast hm
  have h1 : Int.fmod x m = x % m := Int.fmod_eq_emod_of_nonneg x (Int.le_of_lt hm')
  rw [h1]
  have h2 : Int.fmod (x % m + m) m = (x % m + m) % m := Int.fmod_eq_emod_of_nonneg _ (Int.le_of_lt hm')
  rw [h2]
  have h3 : 0 ≤ (x % (m : Int) + m) % m := Int.emod_nonneg _ (Int.ne_of_gt hm')
  exact (Int.toNat_of_nonneg h3).symm

/-- … and it is the mathematical residue: `0 ≤ wrap x m < m`, `wrap x m ≡ x (mod m)` -/
theorem py_wrap_spec (x : Int) (m : Int) (hm : 0 < m) : 0 ≤ py_wrap x m ∧ py_wrap x m < m ∧ py_wrap x m = x % m := by
  unfold py_wrap
  have h1 : Int.fmod x m = x % m := Int.fmod_eq_emod_of_nonneg x (Int.le_of_lt hm)
  have h2 : Int.fmod (x % m + m) m = (x % m + m) % m := Int.fmod_eq_emod_of_nonneg _ (Int.le_of_lt hm)
  rw [h1, h2]
  have h3 : (x % m + m) % m = x % m := by
    rw [Int.add_emod_right, Int.emod_emod_of_dvd x (Int.dvd_refl m)]
  rw [h3]
  exact ⟨Int.emod_nonneg x (Int.ne_of_gt hm), Int.emod_lt_of_pos x hm, rfl⟩

/-- `ComplexS.rotate_pairtable_loc` as written in the source is the re-indexing `C07.rotLoc` of the rotation theorems
    (`C07.rotateOnce_pairtable`, `rotatePtOnce_inverts`), for every locus, turn count and number of strands -/
theorem py_rotate_pairtable_loc_eq (l : Locus) (k : Int) (n : Nat) (hn : 0 < n) :
    py_rotate_pairtable_loc ((l.1 : Int), (l.2 : Int)) k n = (((C07.rotLoc n k l).1 : Int), ((C07.rotLoc n k l).2 : Int)) := by
  unfold py_rotate_pairtable_loc C07.rotLoc
  simp only [py_wrap_eq_model _ n hn]

/-- `DomainS.dtype` as written in the source is the model's `dtypeOf` -/
theorem py_dtype_eq_model (cfg : DomCfg) (len : Nat) :
    py_dtype len cfg.cutoff = (match cfg.dtypeOf len with | .short => "short" | .long => "long") := by
  unfold py_dtype DomCfg.dtypeOf
  by_cases h : len ≤ cfg.cutoff
  · have h' : (len : Int) ≤ (cfg.cutoff : Int) := by exact_mod_cast h
    simp [h, h']
  · have h' : ¬ (len : Int) ≤ (cfg.cutoff : Int) := by exact_mod_cast h
    simp [h, h']

example : py_wrap (-1) 3 = 2 ∧ py_wrap 7 3 = 1 ∧ py_rotate_pairtable_loc (0, 4) 1 3 = (2, 4) ∧ py_dtype 8 8 = "short" := by decide

end Dsd.PyExprs
