/-
C04 / C05, closing the model gap of `domainRequest`: the full model `domainRequestFull` (Model/DomainFull.lean)
follows `DomainS.identifiers` and `Singleton.__call__` statement by statement, with the nested requests and the
temporary complement objects these create and drop.  In a well-formed registry it has exactly the net effect
`domainRequest` describes — for names with at most one trailing `*` other than `"*"` (any length, 0 included: the
guards of the two complement checks read `length is not None` since the repair of C04).
Outside these bounds the two differ (and the full model is the faithful one): see FINDINGS below.
-/
import DsdVerif.Lemmas.DomainFull

namespace Dsd.C04
open Dsd Dsd.DomFull Dsd.DomFullL

/-- names the refinement covers: non-empty, not `"*"`, at most one trailing `*` -/
def PlainName (n : String) : Prop := n ≠ "" ∧ n ≠ "*" ∧ (isStarred n = true → isStarred (cnameOf n) = false)

/-! ### 2. refinement -/

/-- **the full model refines to the net-effect model**: same outcome, same registry (the same list of objects in the
    same order, the same `ID` counter) — the temporaries leave no trace and consume neither `fresh` nor an
    automatic name.  `tmp`, the identity lent to temporaries, must not be the identity of a live object. -/
theorem domainRequestFullT_eq (cfg : DomCfg) (r : Reg DKey) (fresh tmp : Nat) (q : DomReq) (h : DomWF r)
    (htmp : ∀ o ∈ r.objs, o.id ≠ tmp) (hname : PlainName (q.effName cfg r)) :
    domainRequestFullT cfg r fresh tmp q = domainRequest cfg r fresh q := by
  obtain ⟨hne, hstar, hone⟩ := hname
  rw [DomL.domainRequest_eq, ← effName_eq]
  have hemp : (q.effName cfg r).isEmpty = false := by simpa using hne
  simp only [hemp, Bool.false_eq_true, if_false]
  unfold domainRequestFullT
  cases hL : DomL.lengthOf cfg q with
  | error u =>
    show callF ((q.effName cfg r).length + 2 + 1) cfg r fresh tmp q = _
    rw [callF_succ]
    unfold identifiers
    rw [lengthArg_eq, hL]
  | ok L =>
    simp only
    cases hs : isStarred (q.effName cfg r) with
    | true =>
      exact callF_starred ((q.effName cfg r).length + 1) cfg r fresh tmp q h hs (hone hs)
        (DomL.cname_ne_empty _ hstar) L hL
    | false =>
      cases L with
      | none =>
        show callF ((q.effName cfg r).length + 2 + 1) cfg r fresh tmp q = _
        rw [callF_succ, identifiers_eq _ cfg r q none hL hne]
        unfold identTail DomL.domTail
        simp only [hs, Bool.false_eq_true, if_false, Option.toList]
      | some l =>
        exact callF_unstarred (q.effName cfg r).length cfg r fresh tmp q h htmp hs hne l hL

/-- … with the default supply of temporary identities (`fresh + 1`) -/
theorem domainRequestFull_eq (cfg : DomCfg) (r : Reg DKey) (fresh : Nat) (q : DomReq) (h : DomWF r)
    (htmp : ∀ o ∈ r.objs, o.id ≠ fresh + 1) (hname : PlainName (q.effName cfg r)) :
    domainRequestFull cfg r fresh q = domainRequest cfg r fresh q :=
  domainRequestFullT_eq cfg r fresh (fresh + 1) q h htmp hname

/-- the usual situation: identities are allocated in increasing order -/
theorem domainRequestFull_eq_of_lt (cfg : DomCfg) (r : Reg DKey) (fresh : Nat) (q : DomReq) (h : DomWF r)
    (hlt : ∀ o ∈ r.objs, o.id < fresh) (hname : PlainName (q.effName cfg r)) :
    domainRequestFull cfg r fresh q = domainRequest cfg r fresh q :=
  domainRequestFull_eq cfg r fresh q h (fun o ho => by have := hlt o ho; omega) hname

/-! ### 3. no trace of temporaries -/

/-- **after the full request no object other than the returned one was added, and nothing was removed; on every
    outcome other than a creation the registry is unchanged** -/
theorem no_trace_of_temporaries (cfg : DomCfg) (r : Reg DKey) (fresh : Nat) (q : DomReq) (h : DomWF r)
    (htmp : ∀ o ∈ r.objs, o.id ≠ fresh + 1) (hname : PlainName (q.effName cfg r)) :
    ((domainRequestFull cfg r fresh q).1 = r ∧ ∀ id, (domainRequestFull cfg r fresh q).2 ≠ .ret id true) ∨
    (∃ o, (domainRequestFull cfg r fresh q).2 = .ret fresh true ∧ o.id = fresh ∧
      (domainRequestFull cfg r fresh q).1.objs = r.objs ++ [o] ∧
      (domainRequestFull cfg r fresh q).1.autoId = if q.name.isNone then r.autoId + 1 else r.autoId) := by
  rw [domainRequestFull_eq cfg r fresh q h htmp hname]
  rcases DomL.domainRequest_spec cfg r fresh q with h1 | ⟨L, hreq, _⟩
  · exact Or.inl h1
  · right
    rw [hreq]
    exact ⟨_, rfl, rfl, rfl, rfl⟩

theorem no_trace_objs (cfg : DomCfg) (r : Reg DKey) (fresh : Nat) (q : DomReq) (h : DomWF r)
    (htmp : ∀ o ∈ r.objs, o.id ≠ fresh + 1) (hname : PlainName (q.effName cfg r)) :
    (∀ o ∈ (domainRequestFull cfg r fresh q).1.objs, o ∈ r.objs ∨
      (o.id = fresh ∧ (domainRequestFull cfg r fresh q).2 = .ret fresh true)) ∧
    (∀ o ∈ r.objs, o ∈ (domainRequestFull cfg r fresh q).1.objs) ∧
    ((∀ id c, (domainRequestFull cfg r fresh q).2 ≠ .ret id c) → (domainRequestFull cfg r fresh q).1 = r) := by
  rcases no_trace_of_temporaries cfg r fresh q h htmp hname with ⟨h1, _⟩ | ⟨o, h1, h2, h3, _⟩
  · rw [h1]
    exact ⟨fun o ho => Or.inl ho, fun o ho => ho, fun _ => rfl⟩
  · refine ⟨?_, ?_, fun hno => absurd h1 (hno _ _)⟩
    · intro o' ho'
      rw [h3, List.mem_append, List.mem_singleton] at ho'
      rcases ho' with ho' | rfl
      · exact Or.inl ho'
      · exact Or.inr ⟨h2, h1⟩
    · intro o' ho'
      rw [h3]; exact List.mem_append_left _ ho'

/-- the invariant is preserved by the full request as well -/
theorem domwf_requestFull (cfg : DomCfg) (r : Reg DKey) (fresh : Nat) (q : DomReq) (h : DomWF r)
    (hfresh : ∀ o ∈ r.objs, o.id ≠ fresh) (htmp : ∀ o ∈ r.objs, o.id ≠ fresh + 1)
    (hname : PlainName (q.effName cfg r)) :
    DomWF (domainRequestFull cfg r fresh q).1 := by
  rw [domainRequestFull_eq cfg r fresh q h htmp hname]
  exact domwf_request_aux cfg r fresh q h hfresh (fun _ => ⟨hname.1, hname.2.2⟩)

/-! ### 4. closed examples -/

/-- what an example registry holds -/
def content (r : Reg DKey) : List (Nat × String × Nat) × Nat := (r.objs.map (fun o => (o.id, o.name, o.canon.2)), r.autoId)

namespace Ex

/-- `a = DomainS('a', 7)` in the empty registry -/
def rA : Reg DKey := (domainRequestFull {} {} 0 { name := some "a", length := some 7 }).1

/-- the registry then holds `a` only -/
example : (domainRequestFull {} {} 0 { name := some "a", length := some 7 }).2 = .ret 0 true ∧
    content rA = ([(0, "a", 7)], 1) := by decide

/-- `DomainS('a*')` inherits the length 7; `DomainS('a*', 10)` is refused -/
example : (domainRequestFull {} rA 1 { name := some "a*" }).2 = .ret 1 true ∧
    content (domainRequestFull {} rA 1 { name := some "a*" }).1 = ([(0, "a", 7), (1, "a*", 7)], 1) ∧
    domainRequestFull {} rA 1 { name := some "a*", length := some 10 } = (rA, .singletonErr none) := by
  refine ⟨by decide, by decide, rfl⟩

/-- `a` is alive, `a*` is not: `DomainS('a', 7)` returns `a` — on the way `len(cls('a*'))` and `cls('a*', length = 7)`
    each create a temporary `a*` (identity 2) that dies again; `DomainS('a', 10)` is refused, also without a trace -/
example : domainRequestFull {} rA 1 { name := some "a", length := some 7 } = (rA, .ret 0 false) ∧
    domainRequestFull {} rA 1 { name := some "a", length := some 10 } = (rA, .singletonErr none) ∧
    -- the nested `cls('a*')` of the first statement: a temporary
    content (callF 2 {} rA 2 2 { name := some "a*" }).1 = ([(0, "a", 7), (2, "a*", 7)], 1) ∧
    (callF 2 {} rA 2 2 { name := some "a*" }).2 = .ret 2 true := by
  refine ⟨rfl, rfl, by decide, by decide⟩

/-- both alive -/
def rAB : Reg DKey := (domainRequestFull {} rA 1 { name := some "a*" }).1

example : domainRequestFull {} rAB 2 { name := some "a", length := some 10 } = (rAB, .singletonErr none) ∧
    domainRequestFull {} rAB 2 { name := some "a", length := some 7 } = (rAB, .ret 0 false) ∧
    domainRequestFull {} rAB 2 { name := some "a*", length := some 7 } = (rAB, .ret 1 false) := ⟨rfl, rfl, rfl⟩

/-- only the complement `a*` (7) alive -/
def rS : Reg DKey := (domainRequestFull {} {} 0 { name := some "a*", length := some 7 }).1

example : content rS = ([(0, "a*", 7)], 1) ∧
    domainRequestFull {} rS 1 { name := some "a", length := some 10 } = (rS, .singletonErr none) ∧
    (domainRequestFull {} rS 1 { name := some "a", length := some 7 }).2 = .ret 1 true ∧
    content (domainRequestFull {} rS 1 { name := some "a", length := some 7 }).1 = ([(0, "a*", 7), (1, "a", 7)], 1) := by
  refine ⟨by decide, rfl, by decide, by decide⟩

/-- automatic names: temporaries never consume one -/
example : content (domainRequestFull {} rA 1 { length := some 4 }).1 = ([(0, "a", 7), (1, "d1", 4)], 2) := by decide

/-- REMARK on the Python text.  In the empty registry `DomainS('a', 7)` creates NO temporary: the first statement of
    the `try` block, `clength = len(cls('a*'))`, raises SingletonError (neither `a` nor `a*` is alive), so the second
    statement `cls('a*', length = 7)` is never executed.  Temporaries arise exactly when the first statement
    succeeds, i.e. when `a` or `a*` is alive (and `len(cls('a*'))` itself creates one when `a` is alive, `a*` not). -/
example : callF 2 {} {} 2 2 { name := some "a*" } = ({}, .singletonErr none) := rfl

/-- the hypothesis `htmp` is needed (an artefact of identifying objects by number, not a behaviour of the code): if the
    identity lent to temporaries is that of the live `a`, dropping the temporary drops `a` as well -/
example : (domainRequestFullT {} rA 1 0 { name := some "a", length := some 7 }).2 = .ret 1 true ∧
    (domainRequest {} rA 1 { name := some "a", length := some 7 }).2 = .ret 0 false := by decide

/-! ### FINDINGS: where `domainRequest` and the code differ (the naming hypothesis of `domainRequestFull_eq` is sharp) -/

/-- FINDING 1 (names with several trailing stars).  With `a` (7) alive, `DomainS('a**')` succeeds in the code: the
    nested `cls('a*', length = None)` creates a temporary `a*` of length 7, and `a**` inherits 7 from it.
    `domainRequest` looks for a live `a*` only and refuses. -/
theorem finding_double_star :
    (domainRequestFull {} rA 1 { name := some "a**" }).2 = .ret 1 true ∧
    content (domainRequestFull {} rA 1 { name := some "a**" }).1 = ([(0, "a", 7), (1, "a**", 7)], 1) ∧
    (domainRequest {} rA 1 { name := some "a**" }).2 = .singletonErr none := by decide

/-- the guards of the complement checks BEFORE the repair of C04 (`elif length and …`): length 0 is falsy, both
    checks are skipped -/
def identTailOld (nested : Reg DKey → DomReq → Reg DKey × Out) (r : Reg DKey) (name : String) (length : Option Nat) :
    Reg DKey × Except Out Idents :=
  match length with
  | some 0 => (r, .ok (some (name, 0), name, none))
  | _ => identTail nested r name length

/-- the outermost request with the old guards (nested requests never carry length 0 there) -/
def domainRequestOld (cfg : DomCfg) (r : Reg DKey) (fresh : Nat) (q : DomReq) : Reg DKey × Out :=
  match lengthArg cfg q with
  | .error _ => (r, .objectInitErr)
  | .ok length =>
    if (q.effName cfg r).isEmpty then (r, .fault "IndexError") else
    match identTailOld (fun r' q' => callF ((q.effName cfg r).length + 2) cfg r' (fresh + 1) (fresh + 1) q') r
        (q.effName cfg r) length with
    | (r1, .error e) => (r1, e)
    | (r1, .ok (canon, name, _)) => r1.call canon (some name) fresh canon.toList q.name.isNone

/-- **length 0 is checked like every other length** (formerly FINDING 2): with `a` (7) alive, `DomainS('a*', 0)` is
    refused by the code and by `domainRequest`, without a trace; `DomainS('a', 0)` likewise.
    With the OLD guards (`elif length and …`) the request was accepted — `a*` of length 0 next to `a` of length 7,
    complementary domains of different lengths: the defect of C04 repaired upstream. -/
theorem length_zero_refused :
    domainRequestFull {} rA 1 { name := some "a*", length := some 0 } = (rA, .singletonErr none) ∧
    (domainRequest {} rA 1 { name := some "a*", length := some 0 }).2 = .singletonErr none ∧
    domainRequestFull {} rA 1 { name := some "a", length := some 0 } = (rA, .singletonErr none) ∧
    (domainRequestOld {} rA 1 { name := some "a*", length := some 0 }).2 = .ret 1 true ∧
    content (domainRequestOld {} rA 1 { name := some "a*", length := some 0 }).1 = ([(0, "a", 7), (1, "a*", 0)], 1) ∧
    -- for every other length the old and the new guards agree
    domainRequestOld {} rA 1 { name := some "a*", length := some 10 } = (rA, .singletonErr none) ∧
    (domainRequestOld {} rA 1 { name := some "a*" }).2 = .ret 1 true := by
  refine ⟨rfl, by decide, rfl, by decide, by decide, rfl, by decide⟩

/-- FINDING 3 (the name `*`).  `DomainS('*', 5)` raises IndexError in the code (the nested `cls('')` evaluates
    `''[-1]`), `domainRequest` creates a domain named `*` — the registry `starReg` of Props/C04Dom is reachable in the
    net-effect model only (in the code a domain named `*` can be created with length 0 only). -/
theorem finding_star_name :
    domainRequestFull {} {} 0 { name := some "*", length := some 5 } = ({}, .fault "IndexError") ∧
    (domainRequest {} {} 0 { name := some "*", length := some 5 }).2 = .ret 0 true := ⟨rfl, by decide⟩

/-- FINDING 4 (order of the checks on the empty name).  The dtype/length check precedes `name[-1]`:
    `DomainS('', 3, dtype = 'long')` raises ObjectInitError, `domainRequest` reports IndexError. -/
theorem finding_empty_name_order :
    domainRequestFull {} {} 0 { name := some "", length := some 3, dtype := some .long } = ({}, .objectInitErr) ∧
    (domainRequest {} {} 0 { name := some "", length := some 3, dtype := some .long }).2 = .fault "IndexError" :=
  ⟨rfl, by decide⟩

end Ex

end Dsd.C04
