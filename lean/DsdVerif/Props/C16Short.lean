import DsdVerif.Props.C16Text
import DsdVerif.Lemmas.PilSize

namespace Dsd.C16
open Dsd Dsd.PP Dsd.Gen Dsd.RdL

/-! C16, dynamic clause, the recursion budget in terms of the TEXT LENGTH.

With input accounting (`PP.Yield`, Lemmas/PilSize.lean): every token of the forest that a kernel pattern returns
consumed at least one non-blank character of the text and every nested list its two parentheses, and the statement
also holds its name and the `=`; tab expansion adds only blanks.  So `treeSize f pat < text.length` for every
`kernel-complex` line of an accepted text — the budget `treeSize 1000 pat < 1000` of `read_text_never_faults` holds
for every text of at most 1000 characters, and reading such a text never faults, unconditionally. -/

/-- the kernel patterns of an accepted text are smaller than the text (for every fuel of `treeSize`) -/
theorem kernel_pattern_lt_length (text : String) (lines : List Tree)
    (h : parseDoc pil_env pil_grammar text = some lines) (name : String) (pat rest : List Tree)
    (hm : .grp (.tok "kernel-complex" :: .tok name :: .grp pat :: rest) ∈ lines) (f : Nat) :
    treeSize f pat < text.length := by
  have := kernel_pattern_lt_text text lines h name pat rest hm f
  rwa [String.length_toList] at this

/-- **texts of at most 1000 characters fit the recursion budget** -/
theorem kernelBudget_of_short (text : String) (lines : List Tree) (h : parseDoc pil_env pil_grammar text = some lines)
    (hlen : text.length ≤ 1000) : KernelBudget lines := by
  intro name pat rest hm
  have := kernel_pattern_lt_length text lines h name pat rest hm 1000
  omega

/-- **reading a text shorter than 1000 characters never faults**: the text does not parse, or reading its lines
    returns the dictionary or one of the declared errors — no hypothesis on the lines -/
theorem read_short_text_never_faults (text : String) (h : text.length < 1000) (sl : Slots) (hsl : SlotsOK sl)
    (ign : List String) :
    match parseDoc pil_env pil_grammar text with
    | none => True
    | some lines => ∀ s' e, ({} : RState).readDoc sl ign [] lines {} = (s', .error e) → ∀ k, e ≠ .fault k := by
  have hmain := read_text_never_faults text sl hsl ign
  cases hp : parseDoc pil_env pil_grammar text with
  | none => trivial
  | some lines =>
    rw [hp] at hmain
    exact hmain (kernelBudget_of_short text lines hp (by omega))

/-- non-vacuity: a short text that parses, to which the theorem applies -/
example : ("length a = short\nX = a( b( c ) )\n".length < 1000) ∧
    (parseDoc pil_env pil_grammar "length a = short\nX = a( b( c ) )\n").isSome = true := by
  constructor <;> decide +kernel

end Dsd.C16
