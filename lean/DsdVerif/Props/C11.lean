/- C11 — macrostates and reactions are (multi)sets: theorems are in Props/C11Sets.lean. -/
import DsdVerif.Props.C11Sets
import DsdVerif.Props.C11Full
