/- C15 — class independence: the frame theorems are in Props/C05World.lean (namespace Dsd.C05). -/
import DsdVerif.Props.C05World
