/- C15 — theorems are being added. -/
import DsdVerif.Model.World
