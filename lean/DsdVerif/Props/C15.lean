/- C15 — class independence: the frame theorems for requests are in Props/C05World.lean (namespace Dsd.C05), the theorems
   about the reader honouring its configured classes in Props/C15Reader.lean. -/
import DsdVerif.Props.C05World
import DsdVerif.Props.C15Reader
