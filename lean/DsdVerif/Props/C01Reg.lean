import DsdVerif.Model.World
import DsdVerif.Lemmas.Registry
import DsdVerif.Lemmas.RegistryCplx

namespace Dsd.C01
open Dsd

variable {κ : Type} [DecidableEq κ]

/-- registry invariant: names are unique, identities are unique, the key sets of different objects are
    disjoint, and every object is registered under its own canonical form -/
structure WF (r : Reg κ) : Prop where
  names : r.objs.Pairwise (fun a b => a.name ≠ b.name)
  ids : r.objs.Pairwise (fun a b => a.id ≠ b.id)
  keys : r.objs.Pairwise (fun a b => ∀ k, k ∈ a.keys → k ∉ b.keys)
  canon : ∀ o ∈ r.objs, o.canon ∈ o.keys

omit [DecidableEq κ] in
theorem wf_unique_aux (r : Reg κ) (h : WF r) (a b : Obj κ) (ha : a ∈ r.objs) (hb : b ∈ r.objs) :
    (a.name = b.name → a = b) ∧ ((∃ k, k ∈ a.keys ∧ k ∈ b.keys) → a = b) ∧ (a.id = b.id → a = b) := by
  refine ⟨?_, ?_, ?_⟩
  · intro e
    rcases RegL.pairwise_cases _ _ h.names a b ha hb with h1 | h1 | h1
    · exact h1
    · exact absurd e h1
    · exact absurd e.symm h1
  · rintro ⟨k, ka, kb⟩
    rcases RegL.pairwise_cases _ _ h.keys a b ha hb with h1 | h1 | h1
    · exact h1
    · exact absurd kb (h1 k ka)
    · exact absurd ka (h1 k kb)
  · intro e
    rcases RegL.pairwise_cases _ _ h.ids a b ha hb with h1 | h1 | h1
    · exact h1
    · exact absurd e h1
    · exact absurd e.symm h1

theorem wf_init : WF ({} : Reg κ) := by
  constructor <;> simp

/-- at most one live object per name and per canonical form, and both keys lead to the same object -/
theorem wf_lookup (r : Reg κ) (h : WF r) (o : Obj κ) (ho : o ∈ r.objs) :
    r.findName o.name = some o ∧ r.findCanon o.canon = some o ∧ (∀ k ∈ o.keys, r.findCanon k = some o) ∧
    r.findId o.id = some o := by
  have hu := fun b hb => wf_unique_aux r h b o hb ho
  have h3 : ∀ k ∈ o.keys, r.findCanon k = some o := by
    intro k hk
    unfold Reg.findCanon
    apply RegL.find?_unique _ _ o ho (by simpa using hk)
    intro a ha hp
    exact (hu a ha).2.1 ⟨k, by simpa using hp, hk⟩
  refine ⟨?_, h3 _ (h.canon o ho), h3, ?_⟩
  · unfold Reg.findName
    apply RegL.find?_unique _ _ o ho (by simp)
    intro a ha hp
    exact (hu a ha).1 (by simpa using hp)
  · unfold Reg.findId
    apply RegL.find?_unique _ _ o ho (by simp)
    intro a ha hp
    exact (hu a ha).2.2 (by simpa using hp)

theorem wf_unique (r : Reg κ) (h : WF r) (a b : Obj κ) (ha : a ∈ r.objs) (hb : b ∈ r.objs) :
    (a.name = b.name → a = b) ∧ ((∃ k, k ∈ a.keys ∧ k ∈ b.keys) → a = b) ∧ (a.id = b.id → a = b) := by
  exact wf_unique_aux r h a b ha hb

/-- a request preserves the invariant, provided a *created* object gets an unused identity and registers
    keys that contain its canonical form and are not registered yet -/
theorem wf_call (r : Reg κ) (h : WF r) (canon : Option κ) (name : Option String) (fresh : Nat)
    (keys : List κ) (auto : Bool)
    (hfresh : ∀ o ∈ r.objs, o.id ≠ fresh)
    (hcanon : ∀ k, canon = some k → k ∈ keys)
    (hnew : (∃ id, (r.call canon name fresh keys auto).2 = .ret id true) → ∀ k ∈ keys, r.findCanon k = none) :
    WF (r.call canon name fresh keys auto).1 := by
  rcases Reg.call_spec r canon name fresh keys auto with ⟨n, k, rfl, rfl, hn, hc, hcall⟩ | ⟨h1, _⟩
  · have hk := hnew ⟨fresh, by rw [hcall]⟩
    rw [hcall]
    simp only [Reg.register]
    constructor
    · rw [List.pairwise_append]
      refine ⟨h.names, by simp, ?_⟩
      intro a ha b hb
      simp only [List.mem_singleton] at hb; subst hb
      exact Reg.findName_none r n hn a ha
    · rw [List.pairwise_append]
      refine ⟨h.ids, by simp, ?_⟩
      intro a ha b hb
      simp only [List.mem_singleton] at hb; subst hb
      exact hfresh a ha
    · rw [List.pairwise_append]
      refine ⟨h.keys, by simp, ?_⟩
      intro a ha b hb
      simp only [List.mem_singleton] at hb; subst hb
      intro k' hk' hk''
      exact Reg.findCanon_none r k' (hk k' hk'') a ha hk'
    · intro o ho
      simp only [List.mem_append, List.mem_singleton] at ho
      rcases ho with ho | rfl
      · exact h.canon o ho
      · exact hcanon k rfl
  · rw [h1]; exact h

theorem wf_drop (r : Reg κ) (h : WF r) (id : Nat) : WF (r.drop id) := by
  unfold Reg.drop
  constructor
  · exact h.names.filter _
  · exact h.ids.filter _
  · exact h.keys.filter _
  · intro o ho; exact h.canon o (List.mem_filter.mp ho).1

/-- histories of requests and reference drops -/
inductive Op (κ : Type)
  | request (canon : Option κ) (name : Option String) (fresh : Nat) (keys : List κ) (auto : Bool)
  | drop (id : Nat)

def stepOp (r : Reg κ) : Op κ → Reg κ
  | .request c n f ks a => (r.call c n f ks a).1
  | .drop id => r.drop id

/-- side conditions a class's `identifiers` method and the harness' handle allocation guarantee -/
def Admissible (r : Reg κ) : Op κ → Prop
  | .request c n f ks a =>
    (∀ o ∈ r.objs, o.id ≠ f) ∧ (∀ k, c = some k → k ∈ ks) ∧
    ((∃ id, (r.call c n f ks a).2 = .ret id true) → ∀ k ∈ ks, r.findCanon k = none)
  | .drop _ => True

def AdmissibleFrom (r : Reg κ) : List (Op κ) → Prop
  | [] => True
  | op :: rest => Admissible r op ∧ AdmissibleFrom (stepOp r op) rest

/-- **the invariant holds at every point of every history** -/
theorem wf_steps (r : Reg κ) (h : WF r) (ops : List (Op κ)) (hadm : AdmissibleFrom r ops) :
    WF (ops.foldl stepOp r) := by
  induction ops generalizing r with
  | nil => exact h
  | cons op rest ih =>
    simp only [List.foldl_cons]
    obtain ⟨h1, h2⟩ := hadm
    apply ih _ _ h2
    cases op with
    | request c n f ks a =>
      obtain ⟨a1, a2, a3⟩ := h1
      exact wf_call r h c n f ks a a1 a2 a3
    | drop id => exact wf_drop r h id

/-- a construction request that is consistent with a live object returns that very object, state unchanged -/
theorem consistent_returns_same (r : Reg κ) (h : WF r) (o : Obj κ) (ho : o ∈ r.objs) (k : κ) (hk : k ∈ o.keys)
    (fresh : Nat) (keys : List κ) (auto : Bool) :
    r.call (some k) (some o.name) fresh keys auto = (r, .ret o.id false) := by
  obtain ⟨h1, _, h3, _⟩ := wf_lookup r h o ho
  simp [Reg.call, Reg.decide, h1, h3 k hk]

/-- a request whose name or canonical form conflicts with a live object raises SingletonError, whose
    `existing`, when set, is the live object with the requested canonical form; the registry is unchanged -/
theorem conflict_raises_unchanged (r : Reg κ) (h : WF r) (n : String) (k : κ) (fresh : Nat) (keys : List κ) (auto : Bool) :
    (∀ o1, r.findName n = some o1 → r.findCanon k = none →
        r.call (some k) (some n) fresh keys auto = (r, .singletonErr none)) ∧
    (∀ o1 o2, r.findName n = some o1 → r.findCanon k = some o2 → o1.id ≠ o2.id →
        r.call (some k) (some n) fresh keys auto = (r, .singletonErr none)) ∧
    (∀ o2, r.findName n = none → r.findCanon k = some o2 →
        r.call (some k) (some n) fresh keys auto = (r, .singletonErr (some o2.id)) ∧ o2 ∈ r.objs ∧ k ∈ o2.keys) := by
  refine ⟨?_, ?_, ?_⟩
  · intro o1 h1 h2
    simp [Reg.call, Reg.decide, h1, h2]
  · intro o1 o2 h1 h2 hne
    simp [Reg.call, Reg.decide, h1, h2, hne]
  · intro o2 h1 h2
    have := Reg.findCanon_some r k o2 h2
    refine ⟨?_, this.1, this.2⟩
    simp [Reg.call, Reg.decide, h1, h2]

/-- a name-only request returns the live object of that name or raises SingletonError; it creates nothing -/
theorem name_only (r : Reg κ) (n : String) (fresh : Nat) (keys : List κ) (auto : Bool) :
    (∀ o, r.findName n = some o → r.call none (some n) fresh keys auto = (r, .ret o.id false)) ∧
    (r.findName n = none → r.call none (some n) fresh keys auto = (r, .singletonErr none)) := by
  constructor
  · intro o h1; simp [Reg.call, Reg.decide, h1]
  · intro h1; simp [Reg.call, Reg.decide, h1]

/-- any request that does not return an object leaves the registry (names, objects, counter) unchanged -/
theorem refused_no_effect (r : Reg κ) (canon : Option κ) (name : Option String) (fresh : Nat) (keys : List κ) (auto : Bool) :
    (∀ id c, (r.call canon name fresh keys auto).2 ≠ .ret id c) → (r.call canon name fresh keys auto).1 = r := by
  intro hno
  rcases Reg.call_spec r canon name fresh keys auto with ⟨n, k, _, _, _, _, hcall⟩ | ⟨h1, _⟩
  · exact absurd (by rw [hcall]) (hno fresh true)
  · exact h1

/-- an object is created only when neither its name nor its canonical form is bound -/
theorem create_only_when_free (r : Reg κ) (canon : Option κ) (name : Option String) (fresh : Nat) (keys : List κ) (auto : Bool)
    (id : Nat) (hc : (r.call canon name fresh keys auto).2 = .ret id true) :
    ∃ n k, name = some n ∧ canon = some k ∧ r.findName n = none ∧ r.findCanon k = none ∧ id = fresh := by
  rcases Reg.call_spec r canon name fresh keys auto with ⟨n, k, hn, hk, h1, h2, hcall⟩ | ⟨_, ⟨o, ho⟩ | ⟨e, he⟩⟩
  · rw [hcall] at hc
    simp only [Out.ret.injEq, and_true] at hc
    exact ⟨n, k, hn, hk, h1, h2, hc.symm⟩
  · rw [ho] at hc; simp at hc
  · rw [he] at hc; simp at hc

/-! ### the class-specific side conditions -/

/-- `ComplexS.identifiers`: when the request leads to a creation, none of the rotations it wants to register
    is registered yet, and the canonical form is among them -/
theorem complex_keys_admissible (r : Reg CKey) (seq : List String) (sst : List Char) (ids : CplxIds)
    (h : complexIdentifiers r seq sst = .ok ids) :
    ids.canon ∈ ids.keys ∨ (r.findCanon ids.canon).isSome := by
  rcases RegL.complexIdentifiers_spec r seq sst ids h with h1 | h1
  · left; exact h1.1
  · right; exact h1

theorem complex_keys_unregistered (r : Reg CKey) (seq : List String) (sst : List Char) (ids : CplxIds)
    (h : complexIdentifiers r seq sst = .ok ids) (hfree : r.findCanon ids.canon = none) :
    ∀ k ∈ ids.keys, r.findCanon k = none := by
  rcases RegL.complexIdentifiers_spec r seq sst ids h with h1 | h1
  · exact h1.2
  · rw [hfree] at h1; simp at h1

/-- **Domains.**  The only object a name-only domain request can create is a starred domain whose unstarred
    partner is live, with the partner's length. -/
theorem domain_name_only_creates_only_starred (cfg : DomCfg) (r : Reg DKey) (fresh : Nat) (n : String) (id : Nat)
    (h : (domainRequest cfg r fresh { name := some n }).2 = .ret id true) :
    isStarred n = true ∧ ∃ o, r.findName (cnameOf n) = some o ∧
      ((domainRequest cfg r fresh { name := some n }).1.findName n).map (·.canon) = some (n, o.canon.2) := by
  rw [RegL.domainRequest_nameOnly] at h ⊢
  have nocreate : ∀ id, (r.call none (some n) fresh [] false).2 ≠ .ret id true := by
    intro id hc
    obtain ⟨_, k, _, hk, _⟩ := create_only_when_free r none (some n) fresh [] false id hc
    cases hk
  by_cases he : n.isEmpty = true
  · simp [he] at h
  · simp only [he, Bool.false_eq_true, if_false] at h ⊢
    by_cases hs : isStarred n = true
    · simp only [hs, if_true] at h ⊢
      cases ho : r.findName (cnameOf n) with
      | none => rw [ho] at h; exact absurd h (nocreate id)
      | some o =>
        rw [ho] at h
        simp only at h ⊢
        refine ⟨trivial, o, rfl, ?_⟩
        rcases Reg.call_spec r (some (n, o.canon.2)) (some n) fresh [(n, o.canon.2)] false with
          ⟨n2, k2, e1, e2, f1, f2, hcall⟩ | ⟨_, ⟨o', ho'⟩ | ⟨e, he'⟩⟩
        · cases e1; cases e2
          rw [hcall]
          unfold Reg.findName at f1
          simp only [Reg.register, Reg.findName]
          rw [RegL.find?_append_none _ _ _ f1]
          simp
        · rw [ho'] at h; simp at h
        · rw [he'] at h; simp at h
    · simp only [hs] at h
      exact absurd h (nocreate id)

/-- non-vacuity: a registry with two objects satisfies the invariant, and a conflicting request is refused -/
example : WF ({ objs := [{ id := 0, name := "a", canon := (1 : Nat), keys := [1, 2] }, { id := 1, name := "b", canon := 3, keys := [3] }] } : Reg Nat) := by
  constructor <;> simp

end Dsd.C01
