import DsdVerif.Props.C19Reject
import DsdVerif.Props.C19FormsEx

namespace Dsd.C19
open Dsd.PP Dsd.Gen Dsd.PP.Ssw Dsd.PP.Tabs

/-! C19: closed instances of the general rejection theorems (Props/C19Reject.lean), and direct checks against the
interpreter. -/

/-- a reporter with one argument, a blank and a tab inside — through `reporter_one_argument_rejected` -/
example : parseDoc ssw_env ssw_grammar "reporter [\t7 ]\n" = none :=
  parse_of_text _ _ _ _ _
    (reporter_one_argument_rejected ['7'] (dg _ (by decide)) [' '] ['\t'] [' '] isSep_blank isSep_tab isSep_blank
      ['\n'])
    (by decide +kernel)

/-- the malformed statement after a well-formed one and before another one — through `wrong_arity_rejected` -/
example : parseDoc ssw_env ssw_grammar "INPUT(1) = w[1, 2]\n\nreporter[ 7 ]\nseesaw[5, {1}, {2}]\n" = none := by
  have d1 := dg '1' (by decide); have d2 := dg '2' (by decide); have d7 := dg '7' (by decide)
  have h := wrong_arity_rejected (WrongArity.reporter1 ['7'] d7) 0
    [(_, _, 1)] (by intro x hx; simp at hx; subst hx; exact stmtText_input ['1'] ['1'] ['2'] d1 d1 d2 1 1 1)
    [[], [' '], [' ']] rfl
    (by intro w hw; simp at hw; rcases hw with rfl | rfl | rfl <;> first | exact isSep_nil | exact isSep_blank)
    "\nseesaw[5, {1}, {2}]\n".toList
  exact parse_of_text _ _ _ _ _ h (by decide +kernel)

/-- a negative concentration with a tab after the minus sign — through `negative_wire_concentration_rejected` -/
example : parseDoc ssw_env ssw_grammar "conc[w[1,2], -\t3*c]\n" = none :=
  parse_of_text _ _ _ _ _
    (negative_wire_concentration_rejected ['1'] ['2'] ['3'] (dg _ (by decide)) (dg _ (by decide)) (dg _ (by decide))
      [' '] ['\t'] isSep_blank isSep_tab ['\n'])
    (by decide +kernel)

/-! direct checks -/
example : parseDoc ssw_env ssw_grammar "reporter [\t7 ]\n" = none := by decide +kernel
example : parseDoc ssw_env ssw_grammar "reporter[1, 2, 3]\n" = none := by decide +kernel
example : parseDoc ssw_env ssw_grammar "seesaw [5 , {1, 2} ]\n" = none := by decide +kernel
example : parseDoc ssw_env ssw_grammar "inputfanout[1, {2}]\n" = none := by decide +kernel
example : parseDoc ssw_env ssw_grammar "inputfanout[1 , 2 ]\n" = none := by decide +kernel
example : parseDoc ssw_env ssw_grammar "conc[th[3, w[1,2]] , - 1.5e3 * c]\n" = none := by decide +kernel
example : parseDoc ssw_env ssw_grammar "INPUT(1) = w[1, 2]\n\nreporter[ 7 ]\nseesaw[5, {1}, {2}]\n" = none := by
  decide +kernel
/-- … while the well-formed counterparts are accepted -/
example : (parseDoc ssw_env ssw_grammar "INPUT(1) = w[1, 2]\n\nreporter[ 7 , 8 ]\nseesaw[5, {1}, {2}]\n").isSome = true := by
  decide +kernel
example : (parseDoc ssw_env ssw_grammar "conc[th[3, w[1,2]] , 1.5e3 * c]\n").isSome = true := by decide +kernel

end Dsd.C19
