import DsdVerif.Gen.PyDunders
import DsdVerif.Lemmas.PyIdent2Order
import DsdVerif.Props.C11Sets

/-!
The main clause of C10 on the code AS WRITTEN: the comparison and hash methods `__eq__ __ne__ __lt__ __gt__ __le__ __ge__ __hash__` of
`DomainS`, `ComplexS` (inherited by `StrandS`), `MacrostateS`, `ReactionS` — `Gen/PyDunders.lean` is regenerated from the source text,
statement by statement, on every run (translator/pydunders.py) — on operands of the same kind never raise and form a coherent order:
`==` iff the equality keys are equal, `!=` its negation, `<=` a total transitive preorder on the ORDER key (the name for domains, the
canonical form otherwise) whose equivalence `==` refines, `<` iff `<=` and not `>=`, `>` / `>=` the converses, equal objects have equal
hashes (for ANY hash function).  Against a foreign operand `==` is False and `!=` True.
-/
namespace Dsd.PyDunders
open Dsd Dsd.Gen Dsd.Py.Dunder

/-- what C10 asks of the seven methods of one class, on operands of the same kind, with `κ` what the methods read of an object -/
structure Coherent {κ : Type} [DecidableEq κ] (eq ne lt gt le ge : κ → Operand κ → Py.M Bool) (hash : κ → Py.M Int) : Prop where
  eq_iff : ∀ a b, eq a (.same b) = .ok (decide (a = b))
  ne_not : ∀ a b, ne a (.same b) = .ok (!decide (a = b))
  never_raise : ∀ a b, ∃ x y z w, lt a (.same b) = .ok x ∧ gt a (.same b) = .ok y ∧ le a (.same b) = .ok z ∧ ge a (.same b) = .ok w
  le_total : ∀ a b, le a (.same b) = .ok true ∨ le b (.same a) = .ok true
  le_trans : ∀ a b c, le a (.same b) = .ok true → le b (.same c) = .ok true → le a (.same c) = .ok true
  lt_iff : ∀ a b, lt a (.same b) = .ok true ↔ (le a (.same b) = .ok true ∧ ge a (.same b) = .ok false)
  gt_conv : ∀ a b, gt a (.same b) = lt b (.same a)
  ge_conv : ∀ a b, ge a (.same b) = le b (.same a)
  eq_refines : ∀ a b, eq a (.same b) = .ok true → le a (.same b) = .ok true ∧ le b (.same a) = .ok true
  eq_hash : ∀ a b, eq a (.same b) = .ok true → hash a = hash b
  hash_ok : ∀ a, ∃ h, hash a = .ok h
  foreign : ∀ a, eq a .foreign = .ok false ∧ ne a .foreign = .ok true

/-- the generic argument: methods that compare an order key `ok a` by a strict total order `L` (and `==` the whole key) are coherent -/
theorem coherent_of {κ ω : Type} [DecidableEq κ] [DecidableEq ω] (ok : κ → ω) (L : ω → ω → Bool) (hL : C11.StrictTotal L)
    (eq ne lt gt le ge : κ → Operand κ → Py.M Bool) (hash : κ → Py.M Int)
    (heq : ∀ a b, eq a (.same b) = .ok (decide (a = b))) (hne : ∀ a b, ne a (.same b) = .ok (!decide (a = b)))
    (hlt : ∀ a b, lt a (.same b) = .ok (L (ok a) (ok b))) (hgt : ∀ a b, gt a (.same b) = .ok (L (ok b) (ok a)))
    (hle : ∀ a b, le a (.same b) = .ok (decide (ok a = ok b) || L (ok a) (ok b)))
    (hge : ∀ a b, ge a (.same b) = .ok (decide (ok a = ok b) || L (ok b) (ok a)))
    (hh : ∀ a b, a = b → hash a = hash b) (hho : ∀ a, ∃ h, hash a = .ok h) (hf : ∀ a, eq a .foreign = .ok false ∧ ne a .foreign = .ok true) :
    Coherent eq ne lt gt le ge hash := by
  have leOf_eq : ∀ x y : ω, (decide (x = y) || L x y) = leOf L x y := fun _ _ => rfl
  refine ⟨heq, hne, fun a b => ⟨_, _, _, _, hlt a b, hgt a b, hle a b, hge a b⟩, ?_, ?_, ?_, ?_, ?_, ?_, ?_, hho, hf⟩
  · intro a b
    rw [hle, hle, leOf_eq, leOf_eq]
    rcases C11.le_total L hL (ok a) (ok b) with h | h
    · left; rw [h]
    · right; rw [h]
  · intro a b c h1 h2
    rw [hle, leOf_eq] at h1 h2 ⊢
    injection h1 with h1; injection h2 with h2
    rw [C11.le_trans L hL _ _ _ h1 h2]
  · intro a b
    rw [hlt, hle, hge, leOf_eq]
    have hsw : (decide (ok a = ok b) || L (ok b) (ok a)) = leOf L (ok b) (ok a) := by
      unfold leOf; by_cases h : ok a = ok b <;> simp [h, eq_comm]
    rw [hsw]
    have := C11.lt_iff_le_not_le L hL (ok a) (ok b)
    constructor
    · intro h; injection h with h; obtain ⟨x, y⟩ := this.mp h; rw [x, y]; exact ⟨rfl, rfl⟩
    · rintro ⟨x, y⟩; injection x with x; injection y with y; rw [this.mpr ⟨x, y⟩]
  · intro a b; rw [hgt, hlt]
  · intro a b
    rw [hge, hle]
    by_cases h : ok a = ok b <;> simp [h, eq_comm]
  · intro a b h
    rw [heq] at h; injection h with h
    have hab : a = b := by simpa using h
    subst hab
    rw [hle]; simp
  · intro a b h
    rw [heq] at h; injection h with h
    exact hh a b (by simpa using h)

theorem beq_dec {α} [BEq α] [LawfulBEq α] [DecidableEq α] (a b : α) : (a == b) = decide (a = b) := by
  by_cases h : a = b <;> simp [h]

/-! ### the four families -/

/-- **domains**: `==` compares (name, length); `< > <= >=` compare the NAMES only (a total preorder on names whose equivalence `==`
    refines); `hash` is of the name -/
theorem py_DomainS_coherent (hashfn : String → Int) :
    Coherent py_DomainS___eq__ py_DomainS___ne__ py_DomainS___lt__ py_DomainS___gt__ py_DomainS___le__ py_DomainS___ge__
      (py_DomainS___hash__ hashfn) := by
  have heq : ∀ a b, py_DomainS___eq__ a (.same b) = .ok (decide (a = b)) := by
    intro a b
    simp only [py_DomainS___eq__, isSame, attrs, bind, Except.bind, pure, Except.pure, Bool.not_true, Bool.false_eq_true, if_false]
    rw [beq_dec]
  apply coherent_of (fun a : String × Nat => a.1) Dsd.strLt C11.strLt_strictTotal
  · exact heq
  · intro a b; simp only [py_DomainS___ne__, heq, bind, Except.bind, pure, Except.pure]
  · intro a b; simp only [py_DomainS___lt__, attrs, bind, Except.bind, pure, Except.pure, PyIdent2.strLt_eq]
  · intro a b; simp only [py_DomainS___gt__, attrs, bind, Except.bind, pure, Except.pure, PyIdent2.strLt_eq]
  · intro a b; simp only [py_DomainS___le__, attrs, bind, Except.bind, pure, Except.pure, PyIdent2.strLt_eq, Py.Dunder.le, beq_dec]
  · intro a b; simp only [py_DomainS___ge__, attrs, bind, Except.bind, pure, Except.pure, PyIdent2.strLt_eq, Py.Dunder.ge, beq_dec]
  · intro a b h; rw [h]
  · intro a; exact ⟨_, rfl⟩
  · intro a; exact ⟨rfl, rfl⟩

/-- **complexes (and strands)**: everything goes by the canonical form, ordered by Python's tuple order (= the model's `ckeyLt`) -/
theorem py_ComplexS_coherent (hashfn : CKey → Int) :
    Coherent py_ComplexS___eq__ py_ComplexS___ne__ py_ComplexS___lt__ py_ComplexS___gt__ py_ComplexS___le__ py_ComplexS___ge__
      (py_ComplexS___hash__ hashfn) := by
  have heq : ∀ a b, py_ComplexS___eq__ a (.same b) = .ok (decide (a = b)) := by
    intro a b
    simp only [py_ComplexS___eq__, isSame, attrs, bind, Except.bind, pure, Except.pure, Bool.not_true, Bool.false_eq_true, if_false]
    rw [beq_dec]
  apply coherent_of (fun a : CKey => a) Dsd.ckeyLt C11.ckeyLt_strictTotal
  · exact heq
  · intro a b; simp only [py_ComplexS___ne__, heq, bind, Except.bind, pure, Except.pure]
  · intro a b; simp only [py_ComplexS___lt__, isSame, attrs, bind, Except.bind, pure, Except.pure, PyIdent2.ckeyLt_eq, Bool.not_true, Bool.false_eq_true, if_false]
  · intro a b; simp only [py_ComplexS___gt__, isSame, attrs, bind, Except.bind, pure, Except.pure, PyIdent2.ckeyLt_eq, Bool.not_true, Bool.false_eq_true, if_false]
  · intro a b; simp only [py_ComplexS___le__, isSame, attrs, bind, Except.bind, pure, Except.pure, PyIdent2.ckeyLt_eq, Py.Dunder.le, beq_dec, Bool.not_true, Bool.false_eq_true, if_false]
  · intro a b; simp only [py_ComplexS___ge__, isSame, attrs, bind, Except.bind, pure, Except.pure, PyIdent2.ckeyLt_eq, Py.Dunder.ge, beq_dec, Bool.not_true, Bool.false_eq_true, if_false]
  · intro a b h; rw [h]
  · intro a; exact ⟨_, rfl⟩
  · intro a; exact ⟨rfl, rfl⟩

theorem mkeyLt_py : Py.seqLt Py.ckeyLt = Dsd.mkeyLt := by
  funext a b; rw [PyIdent2.ckeyLt_eq, PyIdent2.seqLt_eq_lexLt']; rfl

/-- **macrostates**: by the tuple of the member complexes (= the model's `mkeyLt`) -/
theorem py_MacrostateS_coherent (hashfn : MKey → Int) :
    Coherent py_MacrostateS___eq__ py_MacrostateS___ne__ py_MacrostateS___lt__ py_MacrostateS___gt__ py_MacrostateS___le__ py_MacrostateS___ge__
      (py_MacrostateS___hash__ hashfn) := by
  have heq : ∀ a b, py_MacrostateS___eq__ a (.same b) = .ok (decide (a = b)) := by
    intro a b
    simp only [py_MacrostateS___eq__, isSame, attrs, bind, Except.bind, pure, Except.pure, Bool.not_true, Bool.false_eq_true, if_false]
    rw [beq_dec]
  apply coherent_of (fun a : MKey => a) Dsd.mkeyLt C11.mkeyLt_strictTotal
  · exact heq
  · intro a b; simp only [py_MacrostateS___ne__, heq, bind, Except.bind, pure, Except.pure]
  · intro a b; simp only [py_MacrostateS___lt__, attrs, bind, Except.bind, pure, Except.pure, mkeyLt_py]
  · intro a b; simp only [py_MacrostateS___gt__, attrs, bind, Except.bind, pure, Except.pure, mkeyLt_py]
  · intro a b; simp only [py_MacrostateS___le__, attrs, bind, Except.bind, pure, Except.pure, mkeyLt_py, Py.Dunder.le, beq_dec]
  · intro a b; simp only [py_MacrostateS___ge__, attrs, bind, Except.bind, pure, Except.pure, mkeyLt_py, Py.Dunder.ge, beq_dec]
  · intro a b h; rw [h]
  · intro a; exact ⟨_, rfl⟩
  · intro a; exact ⟨rfl, rfl⟩

/-- lexicographic product of two orders (Python's comparison of 2-tuples) -/
def plex {α β} [DecidableEq α] (l1 : α → α → Bool) (l2 : β → β → Bool) (a b : α × β) : Bool :=
  if a.1 = b.1 then l2 a.2 b.2 else l1 a.1 b.1

theorem plex_strictTotal {α β} [DecidableEq α] (l1 : α → α → Bool) (l2 : β → β → Bool) (h1 : C11.StrictTotal l1) (h2 : C11.StrictTotal l2) :
    C11.StrictTotal (plex l1 l2) := by
  refine ⟨fun a => by simp [plex, h2.irrefl], ?_, ?_⟩
  · rintro ⟨a1, a2⟩ ⟨b1, b2⟩ ⟨c1, c2⟩ hab hbc
    simp only [plex] at hab hbc ⊢
    by_cases e1 : a1 = b1
    · subst e1
      by_cases e2 : a1 = c1
      · subst e2; simp only [if_true] at hab hbc ⊢; exact h2.trans _ _ _ hab hbc
      · simp only [if_true, e2, if_false] at hab hbc ⊢; exact hbc
    · by_cases e2 : b1 = c1
      · subst e2; simp only [e1, if_false, if_true] at hab hbc ⊢; exact hab
      · simp only [e1, e2, if_false] at hab hbc
        by_cases e3 : a1 = c1
        · subst e3
          have := h1.trans _ _ _ hab hbc
          rw [h1.irrefl] at this; cases this
        · simp only [e3, if_false]; exact h1.trans _ _ _ hab hbc
  · rintro ⟨a1, a2⟩ ⟨b1, b2⟩
    simp only [plex]
    by_cases e1 : a1 = b1
    · subst e1
      rcases h2.total a2 b2 with e | e | e
      · left; rw [e]
      · right; left; simpa using e
      · right; right; simpa using e
    · have e1' : ¬ b1 = a1 := fun e => e1 e.symm
      rcases h1.total a1 b1 with e | e | e
      · exact absurd e e1
      · right; left; simpa [e1] using e
      · right; right; simpa [e1'] using e

theorem rkeyLt_py : Py.Dunder.rkeyLt = plex (lexLt Dsd.ckeyLt) (plex (lexLt Dsd.ckeyLt) Dsd.strLt) := by
  funext a b
  simp only [Py.Dunder.rkeyLt, plex, PyIdent2.ckeyLt_eq, PyIdent2.strLt_eq, PyIdent2.seqLt_eq_lexLt', beq_dec]
  by_cases h1 : a.1 = b.1 <;> by_cases h2 : a.2.1 = b.2.1 <;> simp [h1, h2]

/-- **reactions** (among complexes, with str types): by the triple (reactant forms, product forms, type), compared as Python compares
    tuples -/
theorem py_ReactionS_coherent (hashfn : Py.Dunder.RKeyC → Int) :
    Coherent py_ReactionS___eq__ py_ReactionS___ne__ py_ReactionS___lt__ py_ReactionS___gt__ py_ReactionS___le__ py_ReactionS___ge__
      (py_ReactionS___hash__ hashfn) := by
  have heq : ∀ a b, py_ReactionS___eq__ a (.same b) = .ok (decide (a = b)) := by
    intro a b
    simp only [py_ReactionS___eq__, isSame, attrs, bind, Except.bind, pure, Except.pure, Bool.not_true, Bool.false_eq_true, if_false]
    rw [beq_dec]
  apply coherent_of (fun a : Py.Dunder.RKeyC => a) _
    (plex_strictTotal _ _ (C11.lexLt_strictTotal _ C11.ckeyLt_strictTotal) (plex_strictTotal _ _ (C11.lexLt_strictTotal _ C11.ckeyLt_strictTotal) C11.strLt_strictTotal))
  · exact heq
  · intro a b; simp only [py_ReactionS___ne__, heq, bind, Except.bind, pure, Except.pure]
  · intro a b; simp only [py_ReactionS___lt__, attrs, bind, Except.bind, pure, Except.pure, rkeyLt_py]
  · intro a b; simp only [py_ReactionS___gt__, attrs, bind, Except.bind, pure, Except.pure, rkeyLt_py]
  · intro a b; simp only [py_ReactionS___le__, attrs, bind, Except.bind, pure, Except.pure, rkeyLt_py, Py.Dunder.le, beq_dec]
  · intro a b; simp only [py_ReactionS___ge__, attrs, bind, Except.bind, pure, Except.pure, rkeyLt_py, Py.Dunder.ge, beq_dec]
  · intro a b h; rw [h]
  · intro a; exact ⟨_, rfl⟩
  · intro a; exact ⟨rfl, rfl⟩

/-- the classes whose comparison methods are translated -/
inductive Family | domain | complex | macrostate | reaction
deriving DecidableEq, Repr

/-- **C10, main clause, for the code as written**: for each of the four families the seven methods are coherent, whatever the hash function -/
theorem py_order_coherent :
    (∀ h, Coherent py_DomainS___eq__ py_DomainS___ne__ py_DomainS___lt__ py_DomainS___gt__ py_DomainS___le__ py_DomainS___ge__ (py_DomainS___hash__ h)) ∧
    (∀ h, Coherent py_ComplexS___eq__ py_ComplexS___ne__ py_ComplexS___lt__ py_ComplexS___gt__ py_ComplexS___le__ py_ComplexS___ge__ (py_ComplexS___hash__ h)) ∧
    (∀ h, Coherent py_MacrostateS___eq__ py_MacrostateS___ne__ py_MacrostateS___lt__ py_MacrostateS___gt__ py_MacrostateS___le__ py_MacrostateS___ge__ (py_MacrostateS___hash__ h)) ∧
    (∀ h, Coherent py_ReactionS___eq__ py_ReactionS___ne__ py_ReactionS___lt__ py_ReactionS___gt__ py_ReactionS___le__ py_ReactionS___ge__ (py_ReactionS___hash__ h)) :=
  ⟨py_DomainS_coherent, py_ComplexS_coherent, py_MacrostateS_coherent, py_ReactionS_coherent⟩

/-- the translated order methods ARE the model's key orders (Model/Objects.lean) on same-kind operands -/
theorem py_order_is_model (d d' : String × Nat) (c c' : CKey) (m m' : MKey) :
    py_DomainS___lt__ d (.same d') = .ok (domLt d d') ∧ py_ComplexS___lt__ c (.same c') = .ok (ckeyLt c c') ∧
    py_MacrostateS___lt__ m (.same m') = .ok (mkeyLt m m') := by
  refine ⟨?_, ?_, ?_⟩
  · simp only [py_DomainS___lt__, attrs, bind, Except.bind, pure, Except.pure, PyIdent2.strLt_eq, domLt]
  · simp only [py_ComplexS___lt__, isSame, attrs, bind, Except.bind, pure, Except.pure, PyIdent2.ckeyLt_eq, Bool.not_true, Bool.false_eq_true, if_false]
  · simp only [py_MacrostateS___lt__, attrs, bind, Except.bind, pure, Except.pure, mkeyLt_py]

/-- what the order methods do with a foreign operand: `DomainS` / `MacrostateS` / `ReactionS` read its attribute (AttributeError),
    `ComplexS` asserts its kind first (AssertionError) -/
theorem py_order_foreign (d : String × Nat) (c : CKey) (m : MKey) :
    py_DomainS___lt__ d .foreign = .error (.fault "AttributeError") ∧ py_ComplexS___lt__ c .foreign = .error .assertion ∧
    py_ComplexS___ge__ c .foreign = .error .assertion ∧ py_MacrostateS___le__ m .foreign = .error (.fault "AttributeError") := ⟨rfl, rfl, rfl, rfl⟩

end Dsd.PyDunders

#print axioms Dsd.PyDunders.coherent_of
#print axioms Dsd.PyDunders.py_DomainS_coherent
#print axioms Dsd.PyDunders.py_ComplexS_coherent
#print axioms Dsd.PyDunders.py_MacrostateS_coherent
#print axioms Dsd.PyDunders.py_ReactionS_coherent
#print axioms Dsd.PyDunders.py_order_coherent
#print axioms Dsd.PyDunders.py_order_is_model
#print axioms Dsd.PyDunders.py_order_foreign
#print axioms Dsd.PyDunders.plex_strictTotal
