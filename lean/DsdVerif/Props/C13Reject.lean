import DsdVerif.Props.C13Layout
import DsdVerif.Lemmas.PilBadRx

namespace Dsd.C13
open Dsd.PP Dsd.Gen Dsd.Pil

/-! C13, the negative clause at document level: "statements with … a missing name or assignment sign, or a
malformed number are rejected with a parse error".

`BadPilStmt s`: `s` is the text of a malformed statement of one of the families below — with arbitrary blanks where
the positive theorems (Props/C13Pil.lean, C13Doc.lean, C13Gaps*.lean) have them, and an ARBITRARY rest of the line
`r` behind the point where the parser gives up.  `bad_pil_statement_rejected`: a document in which such a statement
stands where a statement is expected — after statement-free lines and any well-formed statements (with tabs, in any
line-level layout) — is rejected, whatever text follows.  (Unbalanced kernel brackets: Props/C13RejectKernel.lean.)

Keywords are written as character lists: `K_length = "length".toList`, … (Lemmas/PilBad.lean). -/

/-- the malformed statements -/
inductive BadPilStmt : List Char → Prop
  /-- **missing name**: the statement starts with a character that cannot start a name — `= a b`, `: 5`, `( a )` -/
  | noName (c : Char) (r : List Char) (hc : StartCh c) (hid : c ∉ Pil.identChars) : BadPilStmt (c :: r)
  /-- **missing sign**: `length a 5`, `domain a* short`, `sequence t ACGT` -/
  | dlNoSign (kw : List Char) (hkw : kw = K_length ∨ kw = K_domain ∨ kw = K_sequence) (name : List Char) (st : Bool)
      (a b : Nat) (c : Char) (r : List Char) (hn : Ident name) (h1 : isWs c = false) (h2 : c ≠ '#') (h3 : c ≠ '=')
      (h4 : c ≠ ':') :
      BadPilStmt (kw ++ blanks (a + 1) ++ name ++ star st ++ blanks (b + 1) ++ c :: r)
  /-- **missing sign**: `strand s a b`, `sup-sequence s a b`, `complex c a b …`, `structure c a + b : ..` -/
  | nameNoSign (kw : List Char) (hkw : kw = K_supseq ∨ kw = K_strand ∨ kw = K_complex ∨ kw = K_structure)
      (name : List Char) (a b : Nat) (c : Char) (r : List Char) (hn : Ident name) (h1 : isWs c = false)
      (h2 : c ≠ '#') (h3 : c ≠ '=') (h4 : c ≠ ':') :
      BadPilStmt (kw ++ blanks (a + 1) ++ name ++ blanks (b + 1) ++ c :: r)
  /-- **missing sign**: `state M [a]`, `macrostate M [a, b]` (here the sign must be `=`: `state M : [a]`) -/
  | restNoSign (kw : List Char) (hkw : kw = K_state ∨ kw = K_macrostate) (name : List Char) (a b : Nat) (c : Char)
      (r : List Char) (hn : Ident name) (h1 : isWs c = false) (h2 : c ≠ '#') (h3 : c ≠ '=') :
      BadPilStmt (kw ++ blanks (a + 1) ++ name ++ blanks (b + 1) ++ c :: r)
  /-- **missing sign**: a kernel complex `X a( b )` — a name that is no keyword, not followed by `=` -/
  | kernelNoSign (name : List Char) (hn : Ident name) (hnk : name ∉ Pil.keywords) (a : Nat) (c : Char) (r : List Char)
      (h1 : isWs c = false) (h2 : c ≠ '#') (h3 : c ≠ '=') :
      BadPilStmt (name ++ blanks (a + 1) ++ c :: r)
  /-- **malformed number**: `length a = 5x`, `length a = 1.5`, `domain a : 7 8` -/
  | dlBadNumber (kw : List Char) (hkw : kw = K_length ∨ kw = K_domain ∨ kw = K_sequence) (name : List Char)
      (st : Bool) (a b : Nat) (sign : Char) (hs : sign = '=' ∨ sign = ':') (cc : Nat) (d : List Char) (e : Nat)
      (x : Char) (r : List Char) (hn : Ident name) (hd : Digits d) (hx : StartCh x) (hxn : x ∉ pp_nums) :
      BadPilStmt (kw ++ blanks (a + 1) ++ name ++ star st ++ blanks b ++ [sign] ++ blanks cc ++ d ++ blanks e ++ x :: r)
  /-- **malformed number**: `sequence t = ACGT : 4x` (the constraint does not begin like `short` / `long`) -/
  | slBadNumber (name : List Char) (st : Bool) (a b : Nat) (s1 : Char) (hs1 : s1 = '=' ∨ s1 = ':') (cc : Nat)
      (cn : Char) (cm : List Char) (e : Nat) (s2 : Char) (hs2 : s2 = '=' ∨ s2 = ':') (f : Nat) (d : List Char)
      (g : Nat) (x : Char) (r : List Char) (hn : Ident name) (hcon : Letters (cn :: cm)) (hcs : cn ≠ 's')
      (hcl : cn ≠ 'l') (hd : Digits d) (hx : StartCh x) (hxn : x ∉ pp_nums) :
      BadPilStmt (K_sequence ++ blanks (a + 1) ++ name ++ star st ++ blanks b ++ [s1] ++ blanks cc ++ (cn :: cm) ++
        blanks e ++ [s2] ++ blanks f ++ d ++ blanks g ++ x :: r)
  /-- **malformed rate**: it does not start with a digit — `reaction [k = .5 /s] …` -/
  | rateNoDigit (kw : List Char) (hkw : kw = K_kinetic ∨ kw = K_reaction) (n g0 : Nat) (ty : List Char) (g1 : Nat)
      (sign : Char) (hs : sign = '=' ∨ sign = ':') (g2 : Nat) (c : Char) (r : List Char) (hty : Ident ty)
      (h1 : isWs c = false) (h2 : c ≠ '#') (h3 : c ∉ pp_nums) :
      BadPilStmt (kw ++ blanks n ++ ['['] ++ blanks g0 ++ ty ++ blanks g1 ++ [sign] ++ blanks g2 ++ c :: r)
  /-- **malformed rate**: a decimal point without digits behind it — `1.` -/
  | rateDot (kw : List Char) (hkw : kw = K_kinetic ∨ kw = K_reaction) (n g0 : Nat) (ty : List Char) (g1 : Nat)
      (sign : Char) (hs : sign = '=' ∨ sign = ':') (g2 : Nat) (v : List Char) (c : Char) (r : List Char)
      (hty : Ident ty) (hv : Digits v) (hc : c ∉ pp_nums) :
      BadPilStmt (kw ++ blanks n ++ ['['] ++ blanks g0 ++ ty ++ blanks g1 ++ [sign] ++ blanks g2 ++ v ++ '.' :: c :: r)
  /-- **malformed rate**: an exponent without digits — `1e`, `1.5e` -/
  | rateExp (kw : List Char) (hkw : kw = K_kinetic ∨ kw = K_reaction) (n g0 : Nat) (ty : List Char) (g1 : Nat)
      (sign : Char) (hs : sign = '=' ∨ sign = ':') (g2 : Nat) (m : List Char) (ss : List String) (c : Char)
      (r : List Char) (hty : Ident ty) (hm : Ssw.Mant m ss) (hc : c ∉ pp_nums) (hcm : c ≠ '-') (hcp : c ≠ '+') :
      BadPilStmt (kw ++ blanks n ++ ['['] ++ blanks g0 ++ ty ++ blanks g1 ++ [sign] ++ blanks g2 ++ m ++ 'e' :: c :: r)
  /-- **malformed rate**: an exponent sign without digits — `1e+`, `1.5e-` -/
  | rateExpSign (kw : List Char) (hkw : kw = K_kinetic ∨ kw = K_reaction) (n g0 : Nat) (ty : List Char) (g1 : Nat)
      (sign : Char) (hs : sign = '=' ∨ sign = ':') (g2 : Nat) (m : List Char) (ss : List String) (s c : Char)
      (r : List Char) (hty : Ident ty) (hm : Ssw.Mant m ss) (hsg : s = '-' ∨ s = '+') (hc : c ∉ pp_nums) :
      BadPilStmt (kw ++ blanks n ++ ['['] ++ blanks g0 ++ ty ++ blanks g1 ++ [sign] ++ blanks g2 ++ m ++
        'e' :: s :: c :: r)
  /-- **malformed units**: concentration units but no time unit — `[k = 5 /M]`, `[k = 1e3 /nM/M ]`, `[k = 5]` -/
  | rateNoTime (kw : List Char) (hkw : kw = K_kinetic ∨ kw = K_reaction) (n g0 : Nat) (ty : List Char) (g1 : Nat)
      (sign : Char) (hs : sign = '=' ∨ sign = ':') (g2 : Nat) (rate : Num) (g3 : Nat) (cus : List (List Char))
      (c : Char) (r : List Char) (hty : Ident ty) (hrate : rate.OK) (hcu : ∀ u ∈ cus, IsCunit u)
      (h1 : isWs c = false) (h2 : c ≠ '#') (h3 : c ≠ '/') (h4 : c ≠ '+') (h5 : NumEnd c) :
      BadPilStmt (kw ++ blanks n ++ ['['] ++ blanks g0 ++ ty ++ blanks g1 ++ [sign] ++ blanks g2 ++ rate.text ++
        blanks g3 ++ cuText cus ++ c :: r)

/-- the interface to `Pil.BadStmt`: `f R` is the normal form of `s ++ R` -/
theorem badStmt_of (s : List Char) (c : Char) (hhead : s.head? = some c) (hc : StartCh c) (hnt : '\t' ∉ s) (N : Nat)
    (hN : N ≤ 4 * s.length + 100) (f : List Char → List Char) (hf : ∀ R, s ++ R = f R)
    (hno : ∀ R, No pil_env N {} pil_stmt { rest := f R, past := false }) : Pil.BadStmt s := by
  refine ⟨?_, hnt, N, hN, fun R _ => by rw [hf R]; exact hno R⟩
  cases s with
  | nil => simp at hhead
  | cons d r => simp at hhead; subst hhead; exact ⟨d, r, rfl, hc⟩

theorem kw_startCh {K : List Char} (hK : K ∈ Pil.keywords) : ∃ c ks, K = c :: ks ∧ StartCh c := by
  obtain ⟨c, ks, rfl, h1, h2, h3, _⟩ := kw_head hK
  exact ⟨c, ks, rfl, h1, h2, h3⟩

theorem ident_cons {name : List Char} (h : Ident name) :
    ∃ nc m, name = nc :: m ∧ nc ∈ Pil.identChars ∧ ∀ x ∈ m, x ∈ Pil.identChars := Pil.cons_of_class name _ h

theorem length_le_cuText (cus : List (List Char)) : cus.length ≤ (cuText cus).length := by
  induction cus with
  | nil => simp
  | cons u cus ih => rw [cuText_cons]; simp only [List.length_cons, List.length_append]; omega

/-- **every malformed statement of the list is rejected by `pil_stmt`, whatever follows** (tab-free) -/
theorem badStmt_of_badPil {s : List Char} (h : BadPilStmt s) (hnt : '\t' ∉ s) : Pil.BadStmt s := by
  cases h with
  | noName c r hc hid =>
    exact badStmt_of _ c rfl hc hnt 30 (by omega) (fun R => c :: (r ++ R)) (fun R => rfl)
      (fun R => No_stmt_nonident c (r ++ R) hc.1 hc.2.1 hid)
  | dlNoSign kw hkw name st a b c r hn h1 h2 h3 h4 =>
    obtain ⟨nc, m, rfl, hnc, hm⟩ := ident_cons hn
    have hKm : kw ∈ Pil.keywords := by rcases hkw with rfl | rfl | rfl <;> decide
    obtain ⟨k, ks, rfl, hk⟩ := kw_startCh hKm
    exact badStmt_of _ k rfl hk hnt 40 (by omega)
      (fun R => k :: ks ++ (bl (a + 1) ++ (nc :: m ++ (Pil.star st ++ (bl (b + 1) ++ c :: (r ++ R))))))
      (fun R => by simp [blanks, star, Pil.star, List.append_assoc])
      (fun R => No_dl_nosign _ hkw a nc m st b c (r ++ R) hnc hm h1 h2 h3 h4)
  | nameNoSign kw hkw name a b c r hn h1 h2 h3 h4 =>
    obtain ⟨nc, m, rfl, hnc, hm⟩ := ident_cons hn
    have hKm : kw ∈ Pil.keywords := by rcases hkw with rfl | rfl | rfl | rfl <;> decide
    obtain ⟨k, ks, rfl, hk⟩ := kw_startCh hKm
    exact badStmt_of _ k rfl hk hnt 40 (by omega)
      (fun R => k :: ks ++ (bl (a + 1) ++ (nc :: m ++ (bl (b + 1) ++ c :: (r ++ R)))))
      (fun R => by simp [blanks, List.append_assoc])
      (fun R => No_ident_nosign _ hkw a nc m b c (r ++ R) hnc hm h1 h2 h3 h4)
  | restNoSign kw hkw name a b c r hn h1 h2 h3 =>
    obtain ⟨nc, m, rfl, hnc, hm⟩ := ident_cons hn
    have hKm : kw ∈ Pil.keywords := by rcases hkw with rfl | rfl <;> decide
    obtain ⟨k, ks, rfl, hk⟩ := kw_startCh hKm
    exact badStmt_of _ k rfl hk hnt 40 (by omega)
      (fun R => k :: ks ++ (bl (a + 1) ++ (nc :: m ++ (bl (b + 1) ++ c :: (r ++ R)))))
      (fun R => by simp [blanks, List.append_assoc])
      (fun R => No_rest_nosign _ hkw a nc m b c (r ++ R) hnc hm h1 h2 h3)
  | kernelNoSign name hn hnk a c r h1 h2 h3 =>
    obtain ⟨nc, m, rfl, hnc, hm⟩ := ident_cons hn
    have hf := ident_facts nc hnc
    exact badStmt_of _ nc rfl ⟨hf.1, hf.2.1, hf.2.2.2.2.2.1⟩ hnt 40 (by omega)
      (fun R => nc :: m ++ (bl (a + 1) ++ c :: (r ++ R)))
      (fun R => by simp [blanks, List.append_assoc])
      (fun R => No_name_noeq nc m hnk a c (r ++ R) hnc hm h1 h2 h3)
  | dlBadNumber kw hkw name st a b sign hs cc d e x r hn hd hx hxn =>
    obtain ⟨nc, m, rfl, hnc, hm⟩ := ident_cons hn
    obtain ⟨dc, dm, rfl, hdc, hdm⟩ := Pil.cons_of_class d _ hd
    have hKm : kw ∈ Pil.keywords := by rcases hkw with rfl | rfl | rfl <;> decide
    obtain ⟨k, ks, rfl, hk⟩ := kw_startCh hKm
    exact badStmt_of _ k rfl hk hnt 40 (by omega)
      (fun R => k :: ks ++ dlText (a + 1) nc m st b sign cc (dc :: dm) (bl e ++ x :: (r ++ R)))
      (fun R => by simp [blanks, star, Pil.star, dlText, List.append_assoc])
      (fun R => No_dl_badnum _ hkw a nc m st b sign hs cc dc dm e x (r ++ R) hnc hm hdc hdm hx.1 hx.2.1 hx.2.2 hxn)
  | slBadNumber name st a b s1 hs1 cc cn cm e s2 hs2 f d g x r hn hcon hcs hcl hd hx hxn =>
    obtain ⟨nc, m, rfl, hnc, hm⟩ := ident_cons hn
    obtain ⟨dc, dm, rfl, hdc, hdm⟩ := Pil.cons_of_class d _ hd
    have hcn : cn ∈ pp_alphas := hcon.2 cn List.mem_cons_self
    have hcm : ∀ y ∈ cm, y ∈ pp_alphas := fun y hy => hcon.2 y (List.mem_cons_of_mem _ hy)
    exact badStmt_of _ 's' rfl ⟨by decide, by decide, by decide⟩ hnt 40 (by omega)
      (fun R => K_sequence ++ dlText (a + 1) nc m st b s1 cc (cn :: cm)
        (bl e ++ (s2 :: (bl f ++ (dc :: dm ++ (bl g ++ x :: (r ++ R)))))))
      (fun R => by simp [blanks, star, Pil.star, dlText, List.append_assoc])
      (fun R => No_sl_badnum a nc m st b s1 hs1 cc cn cm e s2 hs2 f dc dm g x (r ++ R) hnc hm hcn hcm hcs hcl hdc hdm
        hx.1 hx.2.1 hx.2.2 hxn)
  | rateNoDigit kw hkw n g0 ty g1 sign hs g2 c r hty h1 h2 h3 =>
    obtain ⟨tc, tm, rfl, htc, htm⟩ := ident_cons hty
    have hKm : kw ∈ Pil.keywords := by rcases hkw with rfl | rfl <;> decide
    obtain ⟨k, ks, rfl, hk⟩ := kw_startCh hKm
    exact badStmt_of _ k rfl hk hnt 72 (by omega)
      (fun R => k :: ks ++ (bl n ++ ('[' :: (bl g0 ++ (tc :: tm ++ (bl g1 ++ (sign :: (bl g2 ++ c :: (r ++ R)))))))))
      (fun R => by simp [blanks, List.append_assoc])
      (fun R => No_rx_badinfo _ hkw n g0 tc tm g1 sign hs g2 _ 12 htc htm
        (rate_nondigit_fail g2 c (r ++ R) h1 h2 (by simpa using h3)))
  | rateDot kw hkw n g0 ty g1 sign hs g2 v c r hty hv hc =>
    obtain ⟨tc, tm, rfl, htc, htm⟩ := ident_cons hty
    have hKm : kw ∈ Pil.keywords := by rcases hkw with rfl | rfl <;> decide
    obtain ⟨k, ks, rfl, hk⟩ := kw_startCh hKm
    exact badStmt_of _ k rfl hk hnt 100 (by omega)
      (fun R => k :: ks ++ (bl n ++ ('[' :: (bl g0 ++ (tc :: tm ++ (bl g1 ++ (sign :: (bl g2 ++
        (v ++ '.' :: c :: (r ++ R))))))))))
      (fun R => by simp [blanks, List.append_assoc])
      (fun R => No_rx_badinfo _ hkw n g0 tc tm g1 sign hs g2 _ 40 htc htm
        (rate_stop_fail _ v '.' (c :: (r ++ R)) 20 (ev_gorf_int_dot g2 v hv c (r ++ R) (by simpa using hc))
          (by decide) (by decide) (by decide) (by decide)))
  | rateExp kw hkw n g0 ty g1 sign hs g2 m ss c r hty hm hc hcm hcp =>
    obtain ⟨tc, tm, rfl, htc, htm⟩ := ident_cons hty
    have hKm : kw ∈ Pil.keywords := by rcases hkw with rfl | rfl <;> decide
    obtain ⟨k, ks, rfl, hk⟩ := kw_startCh hKm
    exact badStmt_of _ k rfl hk hnt 108 (by simp only [List.length_append, List.length_cons]; omega)
      (fun R => k :: ks ++ (bl n ++ ('[' :: (bl g0 ++ (tc :: tm ++ (bl g1 ++ (sign :: (bl g2 ++
        (m ++ 'e' :: c :: (r ++ R))))))))))
      (fun R => by simp [blanks, List.append_assoc])
      (fun R => No_rx_badinfo _ hkw n g0 tc tm g1 sign hs g2 _ 48 htc htm
        (rate_stop_fail _ m 'e' (c :: (r ++ R)) 28
          (ev_gorf_stop g2 hm 'e' (c :: (r ++ R)) (by decide) (by decide) 8
            (expG_fail_e c (r ++ R) (by simpa using hc) (Ne.symm hcm) (Ne.symm hcp)))
          (by decide) (by decide) (by decide) (by decide)))
  | rateExpSign kw hkw n g0 ty g1 sign hs g2 m ss s c r hty hm hsg hc =>
    obtain ⟨tc, tm, rfl, htc, htm⟩ := ident_cons hty
    have hKm : kw ∈ Pil.keywords := by rcases hkw with rfl | rfl <;> decide
    obtain ⟨k, ks, rfl, hk⟩ := kw_startCh hKm
    exact badStmt_of _ k rfl hk hnt 110 (by simp only [List.length_append, List.length_cons]; omega)
      (fun R => k :: ks ++ (bl n ++ ('[' :: (bl g0 ++ (tc :: tm ++ (bl g1 ++ (sign :: (bl g2 ++
        (m ++ 'e' :: s :: c :: (r ++ R))))))))))
      (fun R => by simp [blanks, List.append_assoc])
      (fun R => No_rx_badinfo _ hkw n g0 tc tm g1 sign hs g2 _ 50 htc htm
        (rate_stop_fail _ m 'e' (s :: c :: (r ++ R)) 30
          (ev_gorf_stop g2 hm 'e' (s :: c :: (r ++ R)) (by decide) (by decide) 10
            (expG_fail_esign s c (r ++ R) hsg (by simpa using hc)))
          (by decide) (by decide) (by decide) (by decide)))
  | rateNoTime kw hkw n g0 ty g1 sign hs g2 rate g3 cus c r hty hrate hcu h1 h2 h3 h4 h5 =>
    obtain ⟨tc, tm, rfl, htc, htm⟩ := ident_cons hty
    have hKm : kw ∈ Pil.keywords := by rcases hkw with rfl | rfl <;> decide
    obtain ⟨k, ks, rfl, hk⟩ := kw_startCh hKm
    have hlen := length_le_cuText cus
    refine badStmt_of _ k rfl hk hnt (cus.length + 120) ?_
      (fun R => k :: ks ++ (bl n ++ ('[' :: (bl g0 ++ (tc :: tm ++ (bl g1 ++ (sign :: (bl g2 ++
        (rate.text ++ (bl g3 ++ (cuText cus ++ c :: (r ++ R))))))))))))
      (fun R => by simp [blanks, List.append_assoc])
      (fun R => No_rx_badinfo _ hkw n g0 tc tm g1 sign hs g2 _ (cus.length + 60) htc htm
        (rate_notime_fail g2 rate hrate g3 cus hcu c (r ++ R) h1 h2 h3 h4 h5))
    simp only [List.length_append, List.length_cons]
    omega

/-- **malformed statements are rejected with a parse error, at document level**: statement-free lines `pre`, any
    well-formed statements `stmts` (which may contain tabs) in any line-level layout, the malformed statement, and
    any further text `R` (which may contain tabs) -/
theorem bad_pil_statement_rejected (pre : List BLine) (hpre : ∀ b ∈ pre, b.OK) (stmts : List LItem)
    (h : ∀ x ∈ stmts, StmtTextT x.1 x.2.1 ∧ x.2.2.OK) (s : List Char) (hs : BadPilStmt s) (hnt : '\t' ∉ s)
    (R : List Char) :
    parseDoc pil_env pil_grammar (String.ofList (blines pre ++ (litemsText stmts ++ (s ++ R)))) = none :=
  pil_document_rejected pre hpre stmts h s (badStmt_of_badPil hs hnt).toT R (fun _ => trivial)

end Dsd.C13
