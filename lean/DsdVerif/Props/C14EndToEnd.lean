/-
C14, a closed end-to-end example: ONE text with domains, composite domains, complexes in both notations, resting
macrostates, a detailed reaction, a condensed reaction and two ignorable reactions

    length a = short
    length b = long
    strand s = a b
    strand t = b* a*
    structure c1 = s + t : ((+))
    structure c2 = s : ..
    k1 = a( + ) @initial 5 nM
    k2 = b
    state c1 = [c1, k2]
    state k1 = [k1]
    reaction [open = 100 /M/s] k2 + c2 -> c1
    reaction c1 -> k1
    reaction [condensed = 7 /s] c1 -> k1
    reaction [weird = 1 /s] c1 -> k1

(a) parsed and read by evaluation of the model in the kernel, with the returned dictionary and the objects behind it
    displayed, and
(b) the same keys obtained from the theorems (`read_pil_macrostates_text`, `read_pil_reactions_text`), whose
    hypotheses are discharged for this system — which is also their non-vacuity check.
-/
import DsdVerif.Props.C14TextRxn

namespace Dsd.C14
open Dsd Dsd.PP Dsd.Gen Dsd.RState Dsd.TextSig

/-! ### decidable equality of token trees (for `decide +kernel` on parse results) -/

mutual
def treeDecEq : (a b : Tree) → Decidable (a = b)
  | .tok s, .tok t => if h : s = t then isTrue (by rw [h]) else isFalse (by intro e; cases e; exact h rfl)
  | .tok _, .grp _ => isFalse (by intro e; cases e)
  | .grp _, .tok _ => isFalse (by intro e; cases e)
  | .grp as, .grp bs =>
    match treesDecEq as bs with
    | isTrue h => isTrue (by rw [h])
    | isFalse h => isFalse (by intro e; cases e; exact h rfl)
def treesDecEq : (as bs : List Tree) → Decidable (as = bs)
  | [], [] => isTrue rfl
  | [], _ :: _ => isFalse (by intro e; cases e)
  | _ :: _, [] => isFalse (by intro e; cases e)
  | a :: as, b :: bs =>
    match treeDecEq a b, treesDecEq as bs with
    | isTrue h1, isTrue h2 => isTrue (by rw [h1, h2])
    | isFalse h1, _ => isFalse (by intro e; cases e; exact h1 rfl)
    | _, isFalse h2 => isFalse (by intro e; cases e; exact h2 rfl)
end

instance : DecidableEq Tree := treeDecEq

/-! ### the system -/

/-- the text (domains, strands and strand-notation complexes are those of the earlier examples) -/
def e2Text : String :=
  "length a = short\nlength b = long\nstrand s = a b\nstrand t = b* a*\nstructure c1 = s + t : ((+))\nstructure c2 = s : ..\nk1 = a( + ) @initial 5 nM\nk2 = b\nstate c1 = [c1, k2]\nstate k1 = [k1]\nreaction [open = 100 /M/s] k2 + c2 -> c1\nreaction c1 -> k1\nreaction [condensed = 7 /s] c1 -> k1\nreaction [weird = 1 /s] c1 -> k1\n"

def e2Kts : List KText :=
  [{ name := "k1", seq := ["a", "+", "a*"], sst := ['(', '+', ')'], conc := some ("initial", "5", "nM") },
   { name := "k2", seq := ["b"], sst := ['.'], conc := none }]

def e2L : List RTLine :=
  [.decl { ty := "open", rate := "100", cunits := ["M"], tu := "s", reactants := ["k2", "c2"], products := ["c1"] },
   .plain ["c1"] ["k1"],
   .decl { ty := "condensed", rate := "7", cunits := [], tu := "s", reactants := ["c1"], products := ["k1"] },
   .unk { ty := "weird", rate := "1", cunits := [], tu := "s", reactants := ["c1"], products := ["k1"] }]

/-- the token document of the system, in the shape the reader theorems are stated on -/
def e2Lines : List Tree :=
  Sig.doc exDs ++ (Sig.sdoc exSs ++ (Sig.cdoc exCds ++ (Sig.kdoc (e2Kts.map KText.decl) ++
    (Sig.mdoc exMS ++ Sig.rdoc (e2L.map RTLine.line)))))

set_option maxRecDepth 100000 in
/-- the text is the canonical rendering of the system -/
theorem e2_render : renderSys6 exDs exSs exCds e2Kts exMS e2L = e2Text := by rfl

/-- the kernel complexes as text are the kernel complexes of the Stage-5 example -/
theorem e2_kds : e2Kts.map KText.decl = exKds := by rfl

/-! ### (a) by evaluation -/

/-- the dictionary a read returns: domains, strands, complexes, macrostates, detailed reactions, condensed
    reactions, number of ignored lines -/
abbrev DictT :=
  List (String × Nat) × List (String × Nat) × List (String × Nat) × List (String × Nat) × List Nat × List Nat × Nat

def dictOf (r : Option (RState × Except RErr RDict)) : Option DictT :=
  match r with
  | some (_, .ok d) => some (d.domains, d.strands, d.complexes, d.macrostates, d.det, d.con, d.other)
  | _ => none

/-- the parser: the text parses to the token document of the system (by evaluation in the kernel; `render_parses6`
    gives the same from the layout theorems) -/
theorem e2_parse : parseDoc pil_env pil_grammar e2Text = some e2Lines := by decide +kernel

set_option synthInstance.maxSize 4000 in
/-- **the text, parsed and read by evaluation**: `read_pil(text)` returns the displayed dictionary — four domains,
    two strands, four complexes, two macrostates, the `open` reaction under detailed, the `condensed` one under
    condensed, two lines ignored -/
theorem e2_readPil : dictOf (readPil {} e2Text) =
    some ([("a", 0), ("a*", 1), ("b", 2), ("b*", 3)], [("s", 4), ("t", 5)],
          [("c1", 6), ("c2", 7), ("k1", 8), ("k2", 9)], [("c1", 10), ("k1", 11)], [12], [13], 2) := by
  unfold readPil
  rw [e2_parse]
  decide +kernel

/-- what `read_pil(text)` leaves in the world, part 1: the children of strand `s` (4), of complex `c1` (6), the
    sequence and structure of kernel complex `k1` (8), the children of macrostate `c1` (10) -/
def objsOf (r : Option (RState × Except RErr RDict)) :
    Option (List Nat) × Option (List Nat) × Option (List String × List Char) × Option (List Nat) :=
  match r with
  | some (s', .ok _) =>
    ((s'.w.node 4).map Node.children, (s'.w.node 6).map Node.children,
     (s'.w.cstate.lookup 8).map (fun (st : CplxObj) => (st.seq, st.sst)), (s'.w.node 10).map Node.children)
  | _ => (none, none, none, none)

/-- part 2: the children of the two filed reactions (12, 13), the rate table, the concentration table -/
def rxnsOf (r : Option (RState × Except RErr RDict)) :
    Option (List Nat) × Option (List Nat) × List (Nat × String × Option String) × List (Nat × String × String × String) :=
  match r with
  | some (s', .ok _) => ((s'.w.node 12).map Node.children, (s'.w.node 13).map Node.children, s'.rate, s'.conc)
  | _ => (none, none, [], [])

set_option synthInstance.maxSize 4000 in
/-- the objects behind the keys: strand `s` consists of the domains `a b`, complex `c1` of the domains `a b b* a*`,
    kernel complex `k1` of `a`, `a*` with one strand break, macrostate `c1` of the complexes `c1 k2` -/
theorem e2_objects : objsOf (readPil {} e2Text) =
    (some [0, 2], some [0, 2, 3, 1], some (["a", "+", "a*"], ['(', '+', ')']), some [6, 9]) := by
  unfold readPil
  rw [e2_parse]
  decide +kernel

set_option synthInstance.maxSize 4000 in
/-- … the `open` reaction has children `k2 c2 c1` and rate `100 /M/s`, the condensed one the macrostates `c1 k1` and
    rate `7 /s`; `k1` carries the concentration `initial 5 nM` -/
theorem e2_reactions : rxnsOf (readPil {} e2Text) =
    (some [9, 7, 6], some [10, 11], [(12, ("100", some "/M/s")), (13, ("7", some "/s"))],
     [(8, ("initial", "5", "nM"))]) := by
  unfold readPil
  rw [e2_parse]
  decide +kernel

/-! ### (b) from the theorems -/

instance (s : List Char) : Decidable (C13.Ident s) := by unfold C13.Ident; infer_instance
instance (s : List Char) : Decidable (C13.Digits s) := by unfold C13.Digits; infer_instance
instance (s : List Char) : Decidable (C13.Letters s) := by unfold C13.Letters; infer_instance
instance (s : List Char) : Decidable (C13.DotBracket s) := by unfold C13.DotBracket; infer_instance

theorem e2_legal1 : C13.LegalNames ["a", "+", "a*"] ['(', '+', ')'] := by
  refine ⟨rfl, ?_⟩
  intro i n c h1 h2
  match i, h1, h2 with
  | 0, h1, h2 =>
    simp at h1 h2; subst h1 h2
    exact ⟨by decide, fun _ => ⟨['a'], false, rfl, by decide⟩, by decide⟩
  | 1, h1, h2 =>
    simp at h1 h2; subst h1 h2
    exact ⟨fun _ => rfl, fun h => absurd rfl h, by decide⟩
  | 2, h1, h2 =>
    simp at h1 h2; subst h1 h2
    exact ⟨by decide, fun _ => ⟨['a'], true, rfl, by decide⟩, by decide⟩
  | k + 3, h1, h2 => simp at h1

theorem e2_legal2 : C13.LegalNames ["b"] ['.'] := by
  refine ⟨rfl, ?_⟩
  intro i n c h1 h2
  match i, h1, h2 with
  | 0, h1, h2 =>
    simp at h1 h2; subst h1 h2
    exact ⟨by decide, fun _ => ⟨['b'], false, rfl, by decide⟩, by decide⟩
  | k + 1, h1, h2 => simp at h1

/-- the textual side conditions hold for the example -/
theorem e2_text : TextSys6 exDs exSs exCds e2Kts exMS e2L := by
  refine ⟨⟨?_, ?_, ?_, ?_⟩, ?_, ?_⟩
  · intro d hd
    simp only [exDs, List.mem_cons, List.not_mem_nil, or_false] at hd
    rcases hd with rfl | rfl
    · exact ⟨by decide, Or.inl rfl⟩
    · exact ⟨by decide, Or.inr (Or.inl rfl)⟩
  · intro p hp
    simp only [exSs, List.mem_cons, List.not_mem_nil, or_false] at hp
    rcases hp with rfl | rfl
    · refine ⟨by decide, by simp, ?_⟩
      intro n hn
      simp only [List.mem_cons, List.not_mem_nil, or_false] at hn
      rcases hn with rfl | rfl
      · exact ⟨['a'], false, rfl, by decide⟩
      · exact ⟨['b'], false, rfl, by decide⟩
    · refine ⟨by decide, by simp, ?_⟩
      intro n hn
      simp only [List.mem_cons, List.not_mem_nil, or_false] at hn
      rcases hn with rfl | rfl
      · exact ⟨['b'], true, rfl, by decide⟩
      · exact ⟨['a'], true, rfl, by decide⟩
  · intro c hc
    simp only [exCds, List.mem_cons, List.not_mem_nil, or_false] at hc
    rcases hc with rfl | rfl
    · refine ⟨by decide, by simp, ?_, by decide⟩
      intro n hn
      simp only [List.mem_cons, List.not_mem_nil, or_false] at hn
      rcases hn with rfl | rfl
      · exact ⟨['s'], false, rfl, by decide⟩
      · exact ⟨['t'], false, rfl, by decide⟩
    · refine ⟨by decide, by simp, ?_, by decide⟩
      intro n hn
      simp only [List.mem_cons, List.not_mem_nil, or_false] at hn
      subst hn
      exact ⟨['s'], false, rfl, by decide⟩
  · intro k hk
    simp only [e2Kts, List.mem_cons, List.not_mem_nil, or_false] at hk
    rcases hk with rfl | rfl
    · refine ⟨by decide, e2_legal1, by decide, ⟨_, rfl⟩, ?_⟩
      intro c hc
      cases hc
      exact ⟨Or.inl rfl, by decide, by decide⟩
    · exact ⟨by decide, e2_legal2, by decide, ⟨_, rfl⟩, by intro c hc; cases hc⟩
  · intro M hM
    simp only [exMS, List.mem_cons, List.not_mem_nil, or_false] at hM
    rcases hM with rfl | rfl
    · unfold MacroText; decide
    · unfold MacroText; decide
  · intro ln hl
    simp only [e2L, List.mem_cons, List.not_mem_nil, or_false] at hl
    rcases hl with rfl | rfl | rfl | rfl
    · show RxnText _; unfold RxnText; decide
    · show (_ ∧ _) ∧ (_ ∧ _); decide
    · show RxnText _; unfold RxnText; decide
    · show RxnText _; unfold RxnText; decide

/-- **the parse from the layout theorems** (`render_parses6`; no evaluation of the parser): the same statement as
    `e2_parse` -/
theorem e2_parse_from_theorems : parseDoc pil_env pil_grammar e2Text = some e2Lines := by
  rw [← e2_render]
  exact render_parses6 exDs exSs exCds e2Kts exMS e2L e2_text (by simp [items6, TextSig.items, exDs])

theorem e2_sys5 : Sys5 exDs exSs exCds (e2Kts.map KText.decl) := e2_kds ▸ ex_sys5

theorem e2_msys : Sig.MSys (allC exDs exSs exCds (e2Kts.map KText.decl)) exMS := e2_kds ▸ ex_msys

theorem e2_rsys : Sig.RSys (allC exDs exSs exCds (e2Kts.map KText.decl)) exMS (e2L.map RTLine.line) := by
  rw [e2_kds]
  refine ⟨by decide, ?_, by decide, by decide⟩
  intro info rs ps h
  simp only [e2L, List.map_cons, List.map_nil, RTLine.line, List.mem_cons, Sig.RLine.ign.injEq, reduceCtorEq,
    List.not_mem_nil, or_false, false_or] at h
  rcases h with ⟨rfl, _, _⟩ | ⟨rfl, _, _⟩
  · trivial
  · right
    show Gen.rtypes.contains "weird" = false
    decide

/-- **`read_pil_reactions_text` applied to the text**: the read succeeds and the keys of the returned dictionary are
    those displayed in `e2_readPil`; two reactions are filed, two lines are ignored, and each declared reaction is
    read at its identity. -/
theorem e2_from_theorems :
    ∃ lines s' d', parseDoc pil_env pil_grammar e2Text = some lines ∧
      ({} : RState).readDoc {} [] [] lines {} = (s', .ok d') ∧
      d'.domains.map (·.1) = ["a", "a*", "b", "b*"] ∧ d'.strands.map (·.1) = ["s", "t"] ∧
      d'.complexes.map (·.1) = ["c1", "c2", "k1", "k2"] ∧ d'.macrostates.map (·.1) = ["c1", "k1"] ∧
      d'.det.length + d'.con.length = 2 ∧ d'.other = 2 ∧
      (∀ M ∈ exMS, MacroRead {} s' d' M.name M.members) ∧
      (∃ i0 i1, i0 ≠ i1 ∧
        RxnReadAt {} s' d' { ty := "open", rate := "100", units := "/M/s", reactants := ["k2", "c2"], products := ["c1"] } i0 ∧
        RxnReadAt {} s' d' { ty := "condensed", rate := "7", units := "/s", reactants := ["c1"], products := ["k1"] } i1) := by
  obtain ⟨lines, s', d', h1, h2, h3, h4, h5, h6, _, _, h9, h10, _, _, _, _, h15, ids, hl, hnd, hat, _⟩ :=
    read_pil_reactions_text {} (by decide) (by decide) (by decide) (by decide) (by decide) exDs (by decide) exSs exCds
      e2Kts e2_sys5 exMS e2_msys e2L e2_rsys e2_text
  rw [e2_render] at h1
  obtain ⟨i0, hi0, r0⟩ := hat 0 _ rfl
  obtain ⟨i1, hi1, r1⟩ := hat 1 _ rfl
  refine ⟨lines, s', d', h1, h2, h3, h4, h5, h6, h9, h10, h15, i0, i1, ?_, r0, r1⟩
  intro e
  subst e
  have h01 : (0 : Nat) = 1 :=
    (List.getElem?_inj (by have := (List.getElem?_eq_some_iff.mp hi0).1; omega) hnd).mp (hi0.trans hi1.symm)
  omega

/-- **`read_pil_macrostates_text` applied to the text without its reaction lines** -/
theorem e2_macro_from_theorems :
    ∃ lines s' d', parseDoc pil_env pil_grammar (renderSys6 exDs exSs exCds e2Kts exMS []) = some lines ∧
      ({} : RState).readDoc {} [] [] lines {} = (s', .ok d') ∧
      d'.complexes.map (·.1) = ["c1", "c2", "k1", "k2"] ∧ d'.macrostates.map (·.1) = ["c1", "k1"] ∧
      d'.det = [] ∧ d'.con = [] ∧ d'.other = 0 ∧
      MacroRead {} s' d' "c1" ["c1", "k2"] ∧ MacroRead {} s' d' "k1" ["k1"] := by
  obtain ⟨lines, s', d', h1, h2, _, _, h5, h6, _, h8, h9, h10, _, _, _, _, h15⟩ :=
    read_pil_macrostates_text {} (by decide) (by decide) (by decide) (by decide) (by decide) exDs (by decide) exSs exCds
      e2Kts e2_sys5 exMS e2_msys ⟨e2_text.lower, e2_text.macros, by intro ln h; cases h⟩
  exact ⟨lines, s', d', h1, h2, h5, h6, h8, h9, h10, h15 ⟨"c1", ["c1", "k2"]⟩ (by simp [exMS]),
    h15 ⟨"k1", ["k1"]⟩ (by simp [exMS])⟩

end Dsd.C14
