/-
The unit / rate-constant arithmetic AS WRITTEN in the working tree (Gen/PyUnits.lean, transcribed statement by statement by
translator/pyunits.py) is the model of Model/Units.lean, for all inputs; and the C18 theorems about the model (Props/C18.lean) are
therefore statements about the code.

Reading of numbers: a Python int / float is the exact rational it denotes (Model/PyPreludeUnits.lean); floating-point rounding is not
modelled (DESIGN.md section 9).  The equalities themselves are proved in Lemmas/PyUnits.lean and Lemmas/PyUnitsObj.lean (core Lean);
this file imports Props/C18 (and with it the Mathlib tactics C18 uses) only to transfer its theorems.

  functions   `py_flint_eq`, `py_convert_units_eq`
  ReactionS   `py_rate_set_eq`, `py_rate_set_refused`, `py_rate_get_eq`, `py_arity_eq`, `py_rateformat_eq`, `py_rateformat_no_units`
  ComplexS    `py_conc_set_eq`, `py_conc_get_eq`, `py_concentrationformat_eq`, `py_concentrationformat_none`
  where the model is total and the code raises (kernel-checked witnesses)
              `py_div_zero_raises` (unreachable: `py_convert_units_never_divides_by_zero`), `py_rateformat_none_const_raises`
              (unreachable through the setter: `py_rate_set_const_isSome`)
  transferred `py_convert_id`, `py_convert_compose`, `py_convert_inverse`, `py_rate_roundtrip`, `py_rateformat_physical`,
              `py_rateformat_roundtrip`, `py_concentrationformat_convert`
-/
import DsdVerif.Lemmas.PyUnitsObj
import DsdVerif.Props.C18

namespace Dsd.PyUnits
open Dsd Gen PyUnitsL

/-! ### the translated definitions are the model functions -/

/-- `flint(n)` returns the value of its argument (as an int or a float of that value: one `Rat`).  The `except OverflowError` branch
    is unreachable for the values the reading represents (finite ones): `float(n)` / `int(…)` do not raise there. -/
theorem py_flint_eq (n : Rat) : py_flint n = .ok n := PyUnitsL.py_flint_eq n

/-- `convert_units` as written = `Units.convert`, for every value and every two unit names (same number or same exception) -/
theorem py_convert_units_eq (v : Rat) (a b : String) : py_convert_units v a b = liftU (Units.convert v a b) :=
  PyUnitsL.py_convert_units_eq v a b

/-- the `rate_constant` setter as written = `Units.setRate` on a number, a 1-tuple, a pair; nothing else of the object changes -/
theorem py_rate_set_eq (a : Units.RateArg) (s : ReactionS.Self) :
    (py_ReactionS_set_rate_constant (argOf a)).exec s =
      (.ok (), { s with _const := some (Units.setRate a).1, _units := (Units.setRate a).2 }) := PyUnitsL.py_rate_set_eq a s

/-- every other tuple is refused (AssertionError) and the object is unchanged -/
theorem py_rate_set_refused (s : ReactionS.Self) :
    (py_ReactionS_set_rate_constant .tuple0).exec s = (.error .assertion, s) ∧
    ∀ k, (py_ReactionS_set_rate_constant (.longer k)).exec s = (.error .assertion, s) := PyUnitsL.py_rate_set_refused s

/-- the `rate_constant` getter as written = `Units.getRate` of what is stored (`(None, None)` before a constant is stored) -/
theorem py_rate_get_eq (s : ReactionS.Self) :
    py_ReactionS_rate_constant.exec s =
      (.ok (match s._const with
            | none => (none, none)
            | some c => (some (Units.getRate (c, s._units)).1, (Units.getRate (c, s._units)).2)), s) := PyUnitsL.py_rate_get_eq s

theorem py_arity_eq (s : ReactionS.Self) :
    py_ReactionS_arity.exec s = (.ok (s._reactants.length, s._products.length), s) := PyUnitsL.py_arity_eq s

/-- `rateformat` as written = `Units.rateformat` on the unit names `s.split('/')[1:]` of the stored and of the requested string -/
theorem py_rateformat_eq (out u : String) (c : Rat) (s : ReactionS.Self) (hu : s._units = some u) (hc : s._const = some c) :
    (py_ReactionS_rateformat out).exec s =
      (match liftU (Units.rateformat c (unitsOf u) (unitsOf out) s._reactants.length) with
       | .ok r => .ok (r, out)
       | .error e => .error e, s) := PyUnitsL.py_rateformat_eq out u c s hu hc

theorem py_rateformat_no_units (out : String) (s : ReactionS.Self) (hu : s._units = none) :
    (py_ReactionS_rateformat out).exec s = (.error .objectInit, s) := PyUnitsL.py_rateformat_no_units out s hu

theorem py_conc_set_eq (trip : Option (String × (Rat × String))) (s : ComplexSConc.Self) :
    (py_ComplexSConc_set_concentration trip).exec s = (.ok (), { s with _concentration := trip }) := PyUnitsL.py_conc_set_eq trip s

theorem py_conc_get_eq (s : ComplexSConc.Self) : py_ComplexSConc_concentration.exec s = (.ok s._concentration, s) :=
  PyUnitsL.py_conc_get_eq s

/-- `concentrationformat` as written = `Units.concentrationformat` on the stored value and unit -/
theorem py_concentrationformat_eq (out m u : String) (v : Rat) (s : ComplexSConc.Self) (h : s._concentration = some (m, v, u)) :
    (py_ComplexSConc_concentrationformat out).exec s =
      (match liftU (Units.concentrationformat v u out) with
       | .ok r => .ok (m, r, out)
       | .error e => .error e, s) := PyUnitsL.py_concentrationformat_eq out m u v s h

theorem py_concentrationformat_none (out : String) (s : ComplexSConc.Self) (h : s._concentration = none) :
    (py_ComplexSConc_concentrationformat out).exec s = (.error (.fault "TypeError"), s) :=
  PyUnitsL.py_concentrationformat_none out s h

/-! ### where the model is total and the code raises -/

/-- the model divides in `Rat` (`x / 0 = 0`), the code raises ZeroDivisionError … -/
theorem py_div_zero_raises : Py.div 1 0 = .error (.fault "ZeroDivisionError") ∧ (1 : Rat) / 0 = 0 := by
  refine ⟨by unfold Py.div; rfl, ?_⟩
  rw [Rat.div_def, Rat.inv_zero, Rat.mul_zero]

/-- … which no look-up in the regenerated tables can trigger: every scale is non-zero (this is what makes `py_convert_units_eq` hold
    without a hypothesis; a zero in a dict display of `convert_units` breaks it) -/
theorem py_convert_units_never_divides_by_zero (u : String) (p : Nat × Nat)
    (h : Units.lookup Gen.units_conc u = some p ∨ Units.lookup Gen.units_time u = some p) : Units.scaleOf p ≠ 0 := by
  rcases h with h | h
  · exact scale_ne_zero _ conc_pos u p h
  · exact scale_ne_zero _ time_pos u p h

/-- an object with units but WITHOUT a constant is not a state of the model (`Rat × Option String`).  On such an object the
    transcription raises TypeError at `newc = self._const` (the local is typed as a number); CPython raises it later, inside
    `convert_units` (`None * 1.0`), and with no unit pairs at all it returns `(None, '')`: the one difference, kernel-checked here … -/
theorem py_rateformat_none_const_raises :
    (py_ReactionS_rateformat "").exec { _reactants := [], _products := [], _const := none, _units := some "" } =
      (.error (.fault "TypeError"), { _reactants := [], _products := [], _const := none, _units := some "" }) := by
  decide

/-- … and unreachable: whatever argument the setter accepts, it stores a constant -/
theorem py_rate_set_const_isSome (a : Py.RateArg) (s s' : ReactionS.Self)
    (h : (py_ReactionS_set_rate_constant a).exec s = (.ok (), s')) : s'._const.isSome = true := by
  cases a with
  | number v => cases h; rfl
  | tuple1 v => cases h; rfl
  | pair v u => cases h; rfl
  | tuple0 => exact absurd h (by rw [(py_rate_set_refused s).1]; simp)
  | longer k => exact absurd h (by rw [(py_rate_set_refused s).2 k]; simp)

/-! ### the C18 theorems, transferred to the code as written -/

theorem liftU_eq_ok {α} (r : Except Units.Err α) (x : α) : liftU r = .ok x ↔ r = .ok x := by
  cases r <;> simp [liftU]

/-- converting a known unit to itself returns the value -/
theorem py_convert_id (v : Rat) (a : String) (h : (Units.family a).isSome) : py_convert_units v a a = .ok v := by
  rw [py_convert_units_eq, Units.convert_id v a h]; rfl

/-- `convert_units` composes: a → b → c is a → c -/
theorem py_convert_compose (v w z : Rat) (a b c : String)
    (h1 : py_convert_units v a b = .ok w) (h2 : py_convert_units w b c = .ok z) : py_convert_units v a c = .ok z := by
  rw [py_convert_units_eq, liftU_eq_ok] at *; exact Units.convert_compose v w z a b c h1 h2

/-- `convert_units` back returns the original value -/
theorem py_convert_inverse (v w : Rat) (a b : String) (h : py_convert_units v a b = .ok w) : py_convert_units w b a = .ok v := by
  rw [py_convert_units_eq, liftU_eq_ok] at *; exact Units.convert_inverse v w a b h

/-- the rate constant is returned as it was set (`Units.rate_roundtrip` for the setter and the getter as written) -/
theorem py_rate_roundtrip (a : Units.RateArg) (s : ReactionS.Self) :
    py_ReactionS_rate_constant.exec ((py_ReactionS_set_rate_constant (argOf a)).exec s).2 =
      (.ok (match a with
            | .number v => (some v, none) | .tuple1 v => (some v, none) | .pair v u => (some v, u)),
       ((py_ReactionS_set_rate_constant (argOf a)).exec s).2) := by
  rw [py_rate_set_eq, py_rate_get_eq]
  simp only [Prod.mk.eta, Units.rate_roundtrip]
  cases a <;> rfl

/-- `rateformat` as written multiplies the constant by one factor `scale(new)/scale(old)` per unit pair: the physical rate is
    unchanged (`Units.rateformat_physical`) -/
theorem py_rateformat_physical (out u : String) (c f : Rat) (s : ReactionS.Self) (hu : s._units = some u) (hc : s._const = some c)
    (ho : (unitsOf u).length = s._reactants.length) (hn : (unitsOf out).length = s._reactants.length)
    (hf : Units.factor ((unitsOf u).zip (unitsOf out)) = some f) :
    (py_ReactionS_rateformat out).exec s = (.ok (c * f, out), s) := by
  rw [py_rateformat_eq out u c s hu hc, Units.rateformat_physical c _ _ _ f ho hn hf]; rfl

/-- re-expressing in other units, storing the result, and re-expressing back returns the original constant
    (`Units.rateformat_roundtrip`) -/
theorem py_rateformat_roundtrip (out u : String) (c c' f : Rat) (s : ReactionS.Self) (hu : s._units = some u) (hc : s._const = some c)
    (ho : (unitsOf u).length = s._reactants.length) (hn : (unitsOf out).length = s._reactants.length)
    (hf : Units.factor ((unitsOf u).zip (unitsOf out)) = some f)
    (h : (py_ReactionS_rateformat out).exec s = (.ok (c', out), s)) :
    (py_ReactionS_rateformat u).exec ((py_ReactionS_set_rate_constant (.pair c' (some out))).exec s).2 =
      (.ok (c, u), ((py_ReactionS_set_rate_constant (.pair c' (some out))).exec s).2) := by
  rw [py_rateformat_physical out u c f s hu hc ho hn hf] at h
  have hc' : c' = c * f := by cases h; rfl
  have hm := Units.rateformat_roundtrip c c' (unitsOf u) (unitsOf out) s._reactants.length f ho hn hf
    (by rw [Units.rateformat_physical c _ _ _ f ho hn hf, hc'])
  rw [show Py.RateArg.pair c' (some out) = argOf (.pair c' (some out)) from rfl, py_rate_set_eq]
  rw [py_rateformat_eq u out c' _ rfl rfl]
  simp only [Units.setRate]
  rw [hm]; rfl

/-- `concentrationformat` as written converts the stored value like `convert_units` (`Units.concentrationformat_physical`) -/
theorem py_concentrationformat_convert (out m u : String) (v : Rat) (s : ComplexSConc.Self) (h : s._concentration = some (m, v, u)) :
    (py_ComplexSConc_concentrationformat out).exec s =
      (match py_convert_units v u out with
       | .ok r => .ok (m, r, out)
       | .error e => .error e, s) := by
  rw [py_concentrationformat_eq out m u v s h, Units.concentrationformat_physical, py_convert_units_eq]
  rfl

/-- non-vacuity: 5 /M/s is 5·10⁻⁹ /nM/s for a reaction with two reactants, through the code as written -/
example : (py_ReactionS_rateformat "/nM/s").exec { _reactants := [(), ()], _products := [()], _const := some 5, _units := some "/M/s" } =
    (.ok (5 / 1000000000, "/nM/s"), { _reactants := [(), ()], _products := [()], _const := some 5, _units := some "/M/s" }) := by
  rw [py_rateformat_physical "/nM/s" "/M/s" 5 (1 / 1000000000) _ rfl rfl (by decide) (by decide) (by decide +kernel)]
  norm_num

end Dsd.PyUnits

#print axioms Dsd.PyUnits.py_flint_eq
#print axioms Dsd.PyUnits.py_convert_units_eq
#print axioms Dsd.PyUnits.py_rate_set_eq
#print axioms Dsd.PyUnits.py_rate_set_refused
#print axioms Dsd.PyUnits.py_rate_get_eq
#print axioms Dsd.PyUnits.py_arity_eq
#print axioms Dsd.PyUnits.py_rateformat_eq
#print axioms Dsd.PyUnits.py_rateformat_no_units
#print axioms Dsd.PyUnits.py_conc_set_eq
#print axioms Dsd.PyUnits.py_conc_get_eq
#print axioms Dsd.PyUnits.py_concentrationformat_eq
#print axioms Dsd.PyUnits.py_concentrationformat_none
#print axioms Dsd.PyUnits.py_div_zero_raises
#print axioms Dsd.PyUnits.py_convert_units_never_divides_by_zero
#print axioms Dsd.PyUnits.py_rateformat_none_const_raises
#print axioms Dsd.PyUnits.py_rate_set_const_isSome
#print axioms Dsd.PyUnits.py_convert_id
#print axioms Dsd.PyUnits.py_convert_compose
#print axioms Dsd.PyUnits.py_convert_inverse
#print axioms Dsd.PyUnits.py_rate_roundtrip
#print axioms Dsd.PyUnits.py_rateformat_physical
#print axioms Dsd.PyUnits.py_rateformat_roundtrip
#print axioms Dsd.PyUnits.py_concentrationformat_convert
