/-
C17 — IUPAC complement and constraint arithmetic is set-exact.
Table theorems are about the tables *regenerated from the source* (Gen/IupacTables.lean);
sequence-level theorems are about the hand model of the five functions (Model/Iupac.lean).
-/
import DsdVerif.Spec.Iupac

namespace Dsd.Iupac

/-! ### table level (finite, `decide`) -/

/-- every WC table has exactly the 15 codes of its material as keys -/
theorem wc_keys (m : Material) : keysOk (wcTable m) m = true := by cases m <;> decide
theorem wobble_keys (m : Material) : keysOk (wobbleTable m) m = true := by cases m <;> decide

/-- `wc_complement` maps every code to the code denoting exactly the Watson–Crick partners of its bases -/
theorem wc_exact (m : Material) : ∀ c ∈ codes m, wcRowOk m c = true := by cases m <;> decide

/-- hence it is an involution on codes -/
theorem wc_involution (m : Material) :
    ∀ c ∈ codes m, (lookup (wcTable m) c).bind (lookup (wcTable m)) = some c := by cases m <;> decide

/-- `complement` maps every code to the code denoting every base able to pair with one of its bases,
    G–T/U wobble included -/
theorem wobble_exact (m : Material) : ∀ c ∈ codes m, wobbleRowOk m c = true := by cases m <;> decide

/-- the DNA and RNA variants differ only by exchanging T and U -/
theorem rna_is_dna_TU :
    Gen.wc_complement_rna = Gen.wc_complement_dna.map (fun r => (swapTU r.1, swapTU r.2)) ∧
    Gen.wobble_complement_rna = Gen.wobble_complement_dna.map (fun r => (swapTU r.1, swapTU r.2)) ∧
    Gen.bin_iupac_rna = Gen.bin_iupac_dna.map (fun s => String.ofList (s.toList.map swapTU)) := by decide

/-- `iupac_bin` is the bit mask of the denotation, `bin_iupac_*` its inverse -/
theorem bin_exact (m : Material) : ∀ c ∈ codes m, binRowOk c = true ∧ binInvOk m c = true := by
  cases m <;> decide

theorem bin_zero_empty (m : Material) : (binTable m)[0]? = some "" := by cases m <;> decide

/-! ### sequence level -/

theorem mapSeq_length (tbl) (s o : List Char) (h : mapSeq tbl s = some o) : o.length = s.length := by
  unfold mapSeq at h
  induction s generalizing o with
  | nil => simp at h; subst h; rfl
  | cons c cs ih =>
    simp only [List.mapM_cons] at h
    cases hc : lookup tbl c with
    | none => simp [hc] at h
    | some d =>
      cases hr : cs.mapM (lookup tbl) with
      | none => simp [hc, hr] at h
      | some r => simp [hc, hr] at h; subst h; simp [ih r hr]

/-- position-wise: the i-th output character is the table image of the i-th input character -/
theorem mapSeq_pointwise (tbl) (s o : List Char) (h : mapSeq tbl s = some o) :
    ∀ i (hi : i < s.length), o[i]? = lookup tbl s[i] := by
  unfold mapSeq at h
  induction s generalizing o with
  | nil => intro i hi; simp at hi
  | cons c cs ih =>
    simp only [List.mapM_cons] at h
    cases hc : lookup tbl c with
    | none => simp [hc] at h
    | some d =>
      cases hr : cs.mapM (lookup tbl) with
      | none => simp [hc, hr] at h
      | some r =>
        simp [hc, hr] at h; subst h
        intro i hi
        cases i with
        | zero => simp [hc]
        | succ j => simpa using ih r hr j (by simpa using hi)

/-- the functions fail (KeyError) exactly when some character is not a table key -/
theorem mapSeq_none_iff (tbl) (s : List Char) :
    mapSeq tbl s = none ↔ ∃ c ∈ s, lookup tbl c = none := by
  unfold mapSeq
  induction s with
  | nil => simp
  | cons c cs ih =>
    simp only [List.mapM_cons]
    cases hc : lookup tbl c with
    | none => simp [hc]
    | some d =>
      cases hr : cs.mapM (lookup tbl) with
      | none =>
        have := ih.mp hr
        obtain ⟨x, hx, hxn⟩ := this
        simp; right; exact ⟨x, hx, hxn⟩
      | some r =>
        simp [hc]
        intro x hx hxn
        have : cs.mapM (lookup tbl) = none := ih.mpr ⟨x, hx, hxn⟩
        simp [hr] at this

theorem mapSeq_append (tbl) (a b : List Char) :
    mapSeq tbl (a ++ b) = (mapSeq tbl a).bind (fun x => (mapSeq tbl b).map (fun y => x ++ y)) := by
  unfold mapSeq
  induction a with
  | nil => simp
  | cons c cs ih =>
    simp only [List.cons_append, List.mapM_cons, ih]
    cases lookup tbl c <;> cases cs.mapM (lookup tbl) <;> cases b.mapM (lookup tbl) <;> simp

/-- the `reverse_*` variants are the plain maps applied to the reversed sequence, and equal the
    reversal of the plain result -/
theorem mapSeq_reverse (tbl) (s : List Char) :
    mapSeq tbl s.reverse = (mapSeq tbl s).map List.reverse := by
  induction s with
  | nil => simp [mapSeq]
  | cons c cs ih =>
    rw [List.reverse_cons, mapSeq_append, ih]
    have h1 : mapSeq tbl [c] = (lookup tbl c).map (fun d => [d]) := by
      simp [mapSeq]; cases lookup tbl c <;> simp
    have h2 : mapSeq tbl (c :: cs) = (lookup tbl c).bind (fun d => (mapSeq tbl cs).map (fun r => d :: r)) := by
      simp [mapSeq]; cases lookup tbl c <;> cases cs.mapM (lookup tbl) <;> simp
    rw [h1, h2]
    cases lookup tbl c <;> cases mapSeq tbl cs <;> simp

theorem reverse_variants (m : Material) (s : List Char) :
    reverseComplement m s = complement m s.reverse ∧
    reverseWcComplement m s = wcComplement m s.reverse ∧
    reverseComplement m s = (complement m s).map List.reverse ∧
    reverseWcComplement m s = (wcComplement m s).map List.reverse :=
  ⟨rfl, rfl, mapSeq_reverse _ _, mapSeq_reverse _ _⟩

/-- sequences over the codes are always mapped (no KeyError) and position-wise exact -/
theorem wc_sequence_exact (m : Material) (s : List Char) (hs : ∀ c ∈ s, c ∈ codes m) :
    ∃ o, wcComplement m s = some o ∧ o.length = s.length ∧
      ∀ i (hi : i < s.length), ∃ d, o[i]? = some d ∧ lookup (wcTable m) s[i] = some d ∧ wcRowOk m s[i] = true := by
  cases h : wcComplement m s with
  | none =>
    obtain ⟨c, hc, hn⟩ := (mapSeq_none_iff _ _).mp h
    have := wc_exact m c (hs c hc)
    simp [wcRowOk, rowOk, hn] at this
  | some o =>
    refine ⟨o, rfl, mapSeq_length _ _ _ h, ?_⟩
    intro i hi
    have hp := mapSeq_pointwise _ _ _ h i hi
    have hrow := wc_exact m s[i] (hs _ (List.getElem_mem hi))
    cases hl : lookup (wcTable m) s[i] with
    | none => simp [wcRowOk, rowOk, hl] at hrow
    | some d => exact ⟨d, by rw [hp, hl], rfl, hrow⟩

theorem wobble_sequence_exact (m : Material) (s : List Char) (hs : ∀ c ∈ s, c ∈ codes m) :
    ∃ o, complement m s = some o ∧ o.length = s.length ∧
      ∀ i (hi : i < s.length), ∃ d, o[i]? = some d ∧ lookup (wobbleTable m) s[i] = some d ∧ wobbleRowOk m s[i] = true := by
  cases h : complement m s with
  | none =>
    obtain ⟨c, hc, hn⟩ := (mapSeq_none_iff _ _).mp h
    have := wobble_exact m c (hs c hc)
    simp [wobbleRowOk, rowOk, hn] at this
  | some o =>
    refine ⟨o, rfl, mapSeq_length _ _ _ h, ?_⟩
    intro i hi
    have hp := mapSeq_pointwise _ _ _ h i hi
    have hrow := wobble_exact m s[i] (hs _ (List.getElem_mem hi))
    cases hl : lookup (wobbleTable m) s[i] with
    | none => simp [wobbleRowOk, rowOk, hl] at hrow
    | some d => exact ⟨d, by rw [hp, hl], rfl, hrow⟩

/-! ### add_constraints -/

/-- specification of one position: the code of the intersection, `none` when it is empty -/
def meetSpec (m : Material) (x y : Char) : Option Char :=
  match den m x, den m y with
  | some a, some b =>
    (codes m).find? (fun c => (den m c).map mask == some (mask a &&& mask b))
  | _, _ => none

def cell : Option Char → List Char | some c => [c] | none => []

/-- table-level: for every pair of codes the looked-up string is the code of the intersection
    (one character) or the empty string when the intersection is empty -/
theorem meet_exact (m : Material) : ∀ x ∈ codes m, ∀ y ∈ codes m,
    meet m x y = some (cell (meetSpec m x y)) := by
  cases m <;> decide

/-- the intersection code is absent exactly when the two base sets are disjoint, and otherwise
    denotes exactly the intersection -/
theorem meetSpec_none_iff (m : Material) : ∀ x ∈ codes m, ∀ y ∈ codes m,
    (meetSpec m x y = none ↔ ((den m x).map mask).getD 0 &&& ((den m y).map mask).getD 0 = 0) ∧
    (∀ c, meetSpec m x y = some c →
        (den m c).map mask = some (((den m x).map mask).getD 0 &&& ((den m y).map mask).getD 0)) := by
  cases m <;> decide

/-- the function returns its result (no fall-through to `None`) -/
theorem add_constraints_returns : Gen.add_constraints_returns = true := by decide

theorem mapM_meet (m : Material) (ps : List (Char × Char))
    (h : ∀ p ∈ ps, p.1 ∈ codes m ∧ p.2 ∈ codes m) :
    ps.mapM (fun p => meet m p.1 p.2) = some (ps.map (fun p => cell (meetSpec m p.1 p.2))) := by
  induction ps with
  | nil => rfl
  | cons p ps ih =>
    have hp := h p (by simp)
    have := meet_exact m p.1 hp.1 p.2 hp.2
    simp only [List.mapM_cons, this, ih (fun q hq => h q (by simp [hq]))]
    rfl

def joinCells : List (Option Char) → List Char
  | [] => []
  | none :: xs => joinCells xs
  | some c :: xs => c :: joinCells xs

theorem flatten_eq_joinCells (xs : List (Option Char)) : (xs.map cell).flatten = joinCells xs := by
  induction xs with
  | nil => rfl
  | cons x xs ih => cases x <;> simp [cell, joinCells, ih]

theorem joinCells_facts (xs : List (Option Char)) :
    (joinCells xs).length ≤ xs.length ∧
    ((joinCells xs).length < xs.length ↔ none ∈ xs) ∧
    (none ∉ xs → xs.mapM id = some (joinCells xs)) ∧
    (none ∈ xs → xs.mapM id = none) := by
  induction xs with
  | nil => simp [joinCells]
  | cons x xs ih =>
    obtain ⟨h1, h2, h3, h4⟩ := ih
    cases x with
    | none => simp [joinCells]; omega
    | some c =>
      simp only [joinCells, List.length_cons, List.mem_cons, reduceCtorEq, false_or, List.mapM_cons, id]
      refine ⟨by omega, by rw [← h2]; omega, ?_, ?_⟩
      · intro hn; rw [h3 hn]; rfl
      · intro hn; rw [h4 hn]; rfl

/-- `add_constraints` returns the position-wise intersection of two equally long constraints and
    raises ConstraintError exactly when some position has an empty intersection -/
theorem add_constraints_spec (m : Material) (s1 s2 : List Char) (hl : s1.length = s2.length)
    (h1 : ∀ c ∈ s1, c ∈ codes m) (h2 : ∀ c ∈ s2, c ∈ codes m) :
    addConstraints m s1 s2 =
      match (s1.zip s2).mapM (fun p => meetSpec m p.1 p.2) with
      | some con => .ok con
      | none => .constraintError := by
  have hz : ∀ p ∈ s1.zip s2, p.1 ∈ codes m ∧ p.2 ∈ codes m := by
    intro p hp
    exact ⟨h1 _ (List.of_mem_zip hp).1, h2 _ (List.of_mem_zip hp).2⟩
  have hm : (s1.zip s2).mapM (fun p => meetSpec m p.1 p.2)
      = ((s1.zip s2).map (fun p => meetSpec m p.1 p.2)).mapM id := by
    rw [List.mapM_map]; rfl
  have hfl : ((s1.zip s2).map (fun p => cell (meetSpec m p.1 p.2))).flatten
      = joinCells ((s1.zip s2).map (fun p => meetSpec m p.1 p.2)) := by
    rw [← flatten_eq_joinCells, List.map_map]; rfl
  unfold addConstraints
  rw [if_neg (by simpa using hl), mapM_meet m _ hz]
  simp only [hfl, add_constraints_returns, if_true, hm]
  generalize hxs : (s1.zip s2).map (fun p => meetSpec m p.1 p.2) = xs
  have hlen : xs.length = s1.length := by rw [← hxs]; simp [hl]
  obtain ⟨_, f2, f3, f4⟩ := joinCells_facts xs
  rw [hlen] at f2
  by_cases hn : none ∈ xs
  · rw [f4 hn, if_pos (f2.mpr hn)]
  · rw [f3 hn, if_neg (fun h => hn (f2.mp h))]

theorem add_constraints_error_iff (m : Material) (s1 s2 : List Char) (hl : s1.length = s2.length)
    (h1 : ∀ c ∈ s1, c ∈ codes m) (h2 : ∀ c ∈ s2, c ∈ codes m) :
    addConstraints m s1 s2 = .constraintError ↔ ∃ p ∈ s1.zip s2, meetSpec m p.1 p.2 = none := by
  rw [add_constraints_spec m s1 s2 hl h1 h2]
  generalize s1.zip s2 = ps
  induction ps with
  | nil => simp
  | cons p ps ih =>
    simp only [List.mapM_cons, List.mem_cons, exists_eq_or_imp]
    cases hp : meetSpec m p.1 p.2 with
    | none => simp
    | some c =>
      cases hr : ps.mapM (fun p => meetSpec m p.1 p.2) with
      | none => simp [hr] at ih; simpa using ih
      | some r => simp [hr] at ih; simpa using ih

/-- non-vacuity: a concrete pair of constraints with a non-trivial intersection, and one that clashes -/
example : meetSpec .dna 'R' 'K' = some 'G' ∧ meetSpec .dna 'R' 'Y' = none := by decide

end Dsd.Iupac
