import DsdVerif.Gen.LegacyWrappers

/-! C20 — the deprecated utility wrappers that the package still exports (`dsdobjects/utils.py`) are pure delegations to
the modelled `complex_utils` functions: the translator reduces each wrapper's body to the function it forwards its
unchanged parameters to (Gen/LegacyWrappers.lean, regenerated on every run); this file fixes what they must be.
`split_complex(stab, ptab)` is `split_complex_pt(stab, ptab)` with every part converted by `strand_table_to_sequence`
and `pair_table_to_dot_bracket` — exactly the composition `C09.split_spec` and the C06 round trips are about. -/
namespace Dsd.C20
open Dsd

theorem legacy_wrappers_delegate :
    Gen.legacyWrappers =
      [("split_complex", "map", "complex_utils.split_complex_pt |> complex_utils.strand_table_to_sequence , complex_utils.pair_table_to_dot_bracket"),
       ("make_lol_sequence", "delegate", "complex_utils.make_strand_table"),
       ("make_pair_table", "delegate", "complex_utils.make_pair_table"),
       ("pair_table_to_dot_bracket", "delegate", "complex_utils.pair_table_to_dot_bracket"),
       ("make_loop_index", "delegate", "complex_utils.make_loop_index")] := by
  decide

end Dsd.C20
