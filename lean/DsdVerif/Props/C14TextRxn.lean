/-
C14 on TEXT, continued: parse-then-read of the canonical text of a full declared system — domains, composite
domains, complexes in both notations, resting macrostates and reactions — succeeds with the conclusions of
`read_macrostates_sigma` / `read_reactions_sigma`.

Textual side conditions (`TextSig.TextSys6`): macrostate and member names are PIL identifiers; a reaction's type
consists of letters (of the reader's types these are `condensed` and `open`), its rate is an integer literal, its
units are `/M…/s`-shaped (`M mM uM nM pM`, then `s m h`), reactants and products are non-empty lists of identifiers.
-/
import DsdVerif.Props.C14Text
import DsdVerif.Props.C14SigmaRxn
import DsdVerif.Lemmas.TextSigmaRxn

namespace Dsd.C14
open Dsd Dsd.PP Dsd.Gen Dsd.RState Dsd.TextSig

/-- the Stage 1–5 hypotheses for a system whose kernel complexes are given as text -/
theorem sys5_of_text (ds : List Sig.Decl) (hsys : Sig.Sys ds) (ss : List Sig.SDecl) (hss : Sig.SSys ds ss)
    (cds : List Sig.CDecl) (kts : List KText)
    (hstrands : ∀ c ∈ cds, c.strands ≠ [] ∧ ∀ n ∈ c.strands, n ∈ ss.map (·.1))
    (hker : ∀ k ∈ kts, ∃ t, C12.KDescr k.seq k.sst t ∧ C12.Complementary k.seq t ∧ treeSize 1000 k.decl.pat < 1000)
    (hkdoms : ∀ k ∈ kts, ∀ n ∈ k.seq, n ≠ "+" → ∃ d ∈ ds, n = d.name ∨ n = d.name ++ "*")
    (hdescr : ∀ c ∈ cds.map (Sig.CDecl.spec ds ss) ++ (kts.map KText.decl).map (Sig.KDecl.spec ds),
      C02.Descr c.ns c.sst)
    (hnames : ((cds.map (Sig.CDecl.spec ds ss) ++ (kts.map KText.decl).map (Sig.KDecl.spec ds)).map (·.name)).Nodup)
    (hnonrot : (cds.map (Sig.CDecl.spec ds ss) ++ (kts.map KText.decl).map (Sig.KDecl.spec ds)).Pairwise
      (fun a b => (b.ns, b.sst) ∉ C02.orbit (C02.nStrands a.ns) a.ns a.sst)) :
    Sys5 ds ss cds (kts.map KText.decl) := by
  refine ⟨hsys, hss, hstrands, ?_, ?_, hdescr, hnames, hnonrot⟩
  · intro k hk
    obtain ⟨kt, hkt, rfl⟩ := List.mem_map.mp hk
    obtain ⟨t, h1, h2, h3⟩ := hker kt hkt
    exact ktext_resolves kt t h1 h2 h3
  · intro k hk
    obtain ⟨kt, hkt, rfl⟩ := List.mem_map.mp hk
    exact hkdoms kt hkt

/-- **Stage 6a on text.**  The canonical text of a system with resting macrostates parses, and reading the parsed
    lines succeeds with the conclusions of `read_macrostates_sigma`. -/
theorem read_pil_macrostates_text (sl : Slots) (hdom : sl.dom < 4) (hstr : sl.strand < 4) (hcx : sl.cplx < 4)
    (hmc : sl.macr < 4) (hrx : sl.rxn < 4) (ds : List Sig.Decl) (hne : ds ≠ []) (ss : List Sig.SDecl)
    (cds : List Sig.CDecl) (kts : List KText) (h5 : Sys5 ds ss cds (kts.map KText.decl)) (MS : List Sig.MDecl)
    (hms : Sig.MSys (allC ds ss cds (kts.map KText.decl)) MS) (ht : TextSys6 ds ss cds kts MS []) :
    ∃ lines s' d', parseDoc pil_env pil_grammar (renderSys6 ds ss cds kts MS []) = some lines ∧
      ({} : RState).readDoc sl [] [] lines {} = (s', .ok d') ∧
      d'.domains.map (·.1) = ds.flatMap (fun d => [d.name, d.name ++ "*"]) ∧
      d'.strands.map (·.1) = ss.map (·.1) ∧
      d'.complexes.map (·.1) = cds.map (·.name) ++ kts.map (·.name) ∧
      d'.macrostates.map (·.1) = MS.map (·.name) ∧ (d'.macrostates.map (·.1)).Nodup ∧
      d'.det = [] ∧ d'.con = [] ∧ d'.other = 0 ∧
      (∀ d ∈ ds, DeclRead sl s' d' d) ∧ (∀ p ∈ ss, StrandRead sl s' d' p) ∧
      (∀ c ∈ cds, CplxRead sl s' d' c.name (c.spec ds ss).ns c.sst) ∧
      (∀ k ∈ kts, CplxRead sl s' d' k.name k.seq k.sst) ∧
      (∀ M ∈ MS, MacroRead sl s' d' M.name M.members) := by
  have hp := render_parses6 ds ss cds kts MS [] ht
    (by cases ds with
        | nil => exact absurd rfl hne
        | cons d ds => simp [TextSig.items6, TextSig.items])
  simp only [List.map_nil, Sig.rdoc, List.append_nil] at hp
  obtain ⟨s', d', h1, h2, h3, h4, h5', h6, h7, h8, h9, h10, h11, h12, h13, h14⟩ :=
    read_macrostates_sigma sl hdom hstr hcx hmc hrx ds ss cds (kts.map KText.decl) h5 MS hms
  refine ⟨_, s', d', hp, h1, h2, h3, ?_, h5', h6, h7, h8, h9, h10, h11, h12, ?_, h14⟩
  · rw [h4, List.map_map]; rfl
  · intro k hk
    exact h13 k.decl (List.mem_map_of_mem hk)

/-- **Stage 6b on text.**  The canonical text of a full system — with declared reactions, reactions without an info
    box and reactions of an unknown type — parses, and reading the parsed lines succeeds with the conclusions of
    `read_reactions_sigma`. -/
theorem read_pil_reactions_text (sl : Slots) (hdom : sl.dom < 4) (hstr : sl.strand < 4) (hcx : sl.cplx < 4)
    (hmc : sl.macr < 4) (hrx : sl.rxn < 4) (ds : List Sig.Decl) (hne : ds ≠ []) (ss : List Sig.SDecl)
    (cds : List Sig.CDecl) (kts : List KText) (h5 : Sys5 ds ss cds (kts.map KText.decl)) (MS : List Sig.MDecl)
    (hms : Sig.MSys (allC ds ss cds (kts.map KText.decl)) MS) (L : List RTLine)
    (hrs : Sig.RSys (allC ds ss cds (kts.map KText.decl)) MS (L.map RTLine.line))
    (ht : TextSys6 ds ss cds kts MS L) :
    ∃ lines s' d', parseDoc pil_env pil_grammar (renderSys6 ds ss cds kts MS L) = some lines ∧
      ({} : RState).readDoc sl [] [] lines {} = (s', .ok d') ∧
      d'.domains.map (·.1) = ds.flatMap (fun d => [d.name, d.name ++ "*"]) ∧
      d'.strands.map (·.1) = ss.map (·.1) ∧
      d'.complexes.map (·.1) = cds.map (·.name) ++ kts.map (·.name) ∧
      d'.macrostates.map (·.1) = MS.map (·.name) ∧
      d'.det.Nodup ∧ d'.con.Nodup ∧ d'.det.length + d'.con.length = (Sig.declsOf (L.map RTLine.line)).length ∧
      d'.other = Sig.ignCount (L.map RTLine.line) ∧
      (∀ d ∈ ds, DeclRead sl s' d' d) ∧ (∀ p ∈ ss, StrandRead sl s' d' p) ∧
      (∀ c ∈ cds, CplxRead sl s' d' c.name (c.spec ds ss).ns c.sst) ∧
      (∀ k ∈ kts, CplxRead sl s' d' k.name k.seq k.sst) ∧
      (∀ M ∈ MS, MacroRead sl s' d' M.name M.members) ∧
      (∃ ids : List Nat, ids.length = (Sig.declsOf (L.map RTLine.line)).length ∧ ids.Nodup ∧
        (∀ (j : Nat) (R : Sig.RDecl), (Sig.declsOf (L.map RTLine.line))[j]? = some R →
          ∃ id, ids[j]? = some id ∧ RxnReadAt sl s' d' R id) ∧
        (∀ i ∈ d'.det ++ d'.con, i ∈ ids)) := by
  have hp := render_parses6 ds ss cds kts MS L ht
    (by cases ds with
        | nil => exact absurd rfl hne
        | cons d ds => simp [TextSig.items6, TextSig.items])
  obtain ⟨s', d', h1, h2, h3, h4, h5', h6, h7, h8, h9, h10, h11, h12, h13, h14, h15⟩ :=
    read_reactions_sigma sl hdom hstr hcx hmc hrx ds ss cds (kts.map KText.decl) h5 MS hms (L.map RTLine.line) hrs
  refine ⟨_, s', d', hp, h1, h2, h3, ?_, h5', h6, h7, h8, h9, h10, h11, h12, ?_, h14, h15⟩
  · rw [h4, List.map_map]; rfl
  · intro k hk
    exact h13 k.decl (List.mem_map_of_mem hk)

/- Non-vacuity: `Props/C14EndToEnd.lean` discharges every hypothesis of both theorems for a concrete fourteen-line text
   (`e2_from_theorems`, `e2_macro_from_theorems`) and checks the model's output on that text by evaluation. -/

end Dsd.C14
