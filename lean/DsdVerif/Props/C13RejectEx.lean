import DsdVerif.Props.C13RejectKernel

namespace Dsd.C13
open Dsd.PP Dsd.Gen Dsd.Pil

/-! C13, negative clause: closed instances of `bad_pil_statement_rejected` / `unbalanced_kernel_*_rejected`
(non-vacuity), and direct checks of one member of every family against the interpreter. -/

theorem idt (c : Char) (h : c ∈ pp_alphanums ++ ['_', '-']) : Ident [c] := ⟨by simp, by simpa using h⟩

/-- a well-formed statement, the malformed `length b 7` (no sign), then more text — through the theorem -/
example : parseDoc pil_env pil_grammar "length a = 5\nlength b 7\nX = a\n" = none := by
  have ia := idt 'a' (by decide); have ib := idt 'b' (by decide)
  have d5 : Digits ['5'] := ⟨by simp, by decide⟩
  have none_ok : ∀ c : List Char, (none : Option (List Char)) = some c → '\n' ∉ c ∧ '\t' ∉ c := by
    intro c hc; cases hc
  have h := bad_pil_statement_rejected [] (by simp)
    [(_, _, ⟨⟨[], none⟩, []⟩)]
    (by
      intro x hx
      simp only [List.mem_cons, List.not_mem_nil, or_false] at hx
      subst hx
      exact ⟨(stmtTextB_dl_domain "length".toList (Or.inl rfl) ['a'] ['5'] false '=' (Or.inl rfl) ia d5
        0 1 1 0).toL.toT, bline_ok _ _ (by decide) none_ok, by decide, by simp⟩)
    _ (BadPilStmt.dlNoSign K_length (Or.inl rfl) ['b'] false 0 0 '7' [] ib (by decide) (by decide) (by decide)
      (by decide)) (by decide) "\nX = a\n".toList
  exact parse_of_text _ _ _ _ _ h (by decide +kernel)

/-- a malformed rate `1e+` with a TAB before the information box — through the theorem -/
example : parseDoc pil_env pil_grammar "reaction\t[k = 1e+ /M/s] a -> b\n" = none := by
  have ik := idt 'k' (by decide)
  have hbad := badStmt_of_badPil (BadPilStmt.rateExpSign K_reaction (Or.inr rfl) 8 0 ['k'] 1 '=' (Or.inl rfl) 1
    ['1'] _ '+' ' ' ['/', 'M', '/', 's', ']', ' ', 'a', ' ', '-', '>', ' ', 'b'] ik
    (Ssw.Mant.int ['1'] ⟨by simp, by decide⟩) (Or.inr rfl) (by decide)) (by decide)
  -- the tab after the keyword (column 8) expands to 8 blanks
  have hT : BadStmtForT (fun _ => True)
      (K_reaction ++ '\t' :: ['[', 'k', ' ', '=', ' ', '1', 'e', '+', ' ', '/', 'M', '/', 's', ']', ' ', 'a', ' ',
        '-', '>', ' ', 'b']) := by
    refine ⟨_, fun rest => ⟨Tabs.colAfter ['[', 'k', ' ', '=', ' ', '1', 'e', '+', ' ', '/', 'M', '/', 's', ']', ' ',
      'a', ' ', '-', '>', ' ', 'b'] 0, ?_⟩, hbad⟩
    have e1 := Tabs.expandTabs_tok K_reaction (by decide)
      ('\t' :: (['[', 'k', ' ', '=', ' ', '1', 'e', '+', ' ', '/', 'M', '/', 's', ']', ' ', 'a', ' ', '-', '>', ' ',
        'b'] ++ rest)) 0
    have e2 := Tabs.expandTabs_tok ['[', 'k', ' ', '=', ' ', '1', 'e', '+', ' ', '/', 'M', '/', 's', ']', ' ', 'a',
      ' ', '-', '>', ' ', 'b'] (by decide) rest 0
    have hcol : Tabs.colAfter K_reaction 0 = 0 := by decide
    show expandTabs (K_reaction ++ '\t' :: (['[', 'k', ' ', '=', ' ', '1', 'e', '+', ' ', '/', 'M', '/', 's', ']', ' ',
      'a', ' ', '-', '>', ' ', 'b'] ++ rest)) 0 = _
    rw [e1, hcol, expandTabs, e2]
    simp [blanks]
  have h := pil_document_rejected [] (by simp) [] (by simp) _ hT ['\n'] (fun _ => trivial)
  exact parse_of_text _ _ _ _ _ h (by decide +kernel)

/-- too many closing parentheses, comments and more statements behind — through the theorem -/
example : parseDoc pil_env pil_grammar "X = a( b ) )  # ( (\nY = c( d )\n" = none := by
  have iX := idt 'X' (by decide)
  have h := unbalanced_kernel_close_rejected [] (by simp) [] (by simp) ['X'] 1 1
    ['a', '(', ' ', 'b', ' ', ')', ' ', ')'] iX (by decide)
    (by
      intro c hc
      simp only [List.mem_cons, List.not_mem_nil, or_false] at hc
      rcases hc with rfl | rfl | rfl | rfl | rfl | rfl | rfl | rfl <;> (unfold PatCh; decide))
    (by decide) "  # ( (\nY = c( d )\n".toList
  exact parse_of_text _ _ _ _ _ h (by decide +kernel)

/-! one member of every family, checked directly -/
example : parseDoc pil_env pil_grammar "= a b\n" = none := by rfl
example : parseDoc pil_env pil_grammar "length a 5\n" = none := by rfl
example : parseDoc pil_env pil_grammar "sequence t ACGT\n" = none := by rfl
example : parseDoc pil_env pil_grammar "strand s a b\n" = none := by rfl
example : parseDoc pil_env pil_grammar "structure c a + b : (+)\n" = none := by rfl
example : parseDoc pil_env pil_grammar "state M [a]\n" = none := by rfl
example : parseDoc pil_env pil_grammar "X a( b )\n" = none := by rfl
example : parseDoc pil_env pil_grammar "length a = 5x\n" = none := by rfl
example : parseDoc pil_env pil_grammar "length a = 1.5\n" = none := by rfl
example : parseDoc pil_env pil_grammar "sequence t = ACGT : 4x\n" = none := by rfl
example : parseDoc pil_env pil_grammar "reaction [k = .5 /s] a -> b\n" = none := by rfl
example : parseDoc pil_env pil_grammar "reaction [k = 1. /s] a -> b\n" = none := by rfl
example : parseDoc pil_env pil_grammar "reaction [k = 1e /s] a -> b\n" = none := by rfl
example : parseDoc pil_env pil_grammar "reaction [k = 1e+ /s] a -> b\n" = none := by rfl
example : parseDoc pil_env pil_grammar "reaction [k = 5 /M] a -> b\n" = none := by rfl
example : parseDoc pil_env pil_grammar "X = a( b\nY = c\n" = none := by rfl
example : parseDoc pil_env pil_grammar "X = a b )\n" = none := by rfl
/-- … and the well-formed counterparts are accepted -/
example : (parseDoc pil_env pil_grammar "length a = 5\nreaction [k = 1e+3 /M/s] a -> b\nX = a( b )\n").isSome = true := by
  rfl

end Dsd.C13
