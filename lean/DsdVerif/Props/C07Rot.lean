import DsdVerif.Model.Complex
import DsdVerif.Lemmas.Matcher
import DsdVerif.Lemmas.MatchingUnique
import DsdVerif.Lemmas.Render
import DsdVerif.Lemmas.Rotate
import DsdVerif.Lemmas.RotateMatch
import DsdVerif.Lemmas.RotatePeriod

namespace Dsd.C07
open Dsd.Bracket

/-- a structure list as a linear bracket word: the break token (and anything else) is unpaired -/
def toSymN : Char → Sym
  | '(' => .op
  | ')' => .cl
  | _ => .dot

def word (sst : List Char) : List Sym := sst.map toSymN

/-- where position `i` of the old lists goes when the first strand (length `p`) moves to the end:
    positions of the first strand shift right by `N - p`, the first break token becomes the last one
    (position `N - p - 1`), everything else shifts left by `p + 1`.  (`N` = length of the lists.) -/
def sigma (N p i : Nat) : Nat :=
  if i < p then i + (N - p) else if i = p then N - p - 1 else i - (p + 1)

/-- `seq` and `sst` are aligned descriptions: same length, break tokens at the same positions -/
def Aligned (seq : List String) (sst : List Char) : Prop :=
  seq.length = sst.length ∧ ∀ i : Nat, seq[i]? = some "+" ↔ sst[i]? = some '+'

theorem toSymN_eq : toSymN = Rot.tsym := by
  funext c
  by_cases h1 : c = '('
  · subst h1; rfl
  · by_cases h2 : c = ')'
    · subst h2; rfl
    · rw [Rot.tsym_dot c h1 h2]; unfold toSymN; split <;> simp_all

theorem word_eq (sst : List Char) : word sst = Rot.cword sst := by
  unfold word Rot.cword; rw [toSymN_eq]

theorem sigma_eq_sh (N p i : Nat) (hi : i < N) (hip : i ≠ p) :
    sigma N p i = sh (N + 1) (p + 1) i := by
  unfold sigma sh; split <;> split <;> omega

/-- **Strand rotation is a structure-preserving relabelling** (one step, on list positions).
    For aligned lists whose structure is balanced, with the first break at `p`:
    the rotation succeeds, moves every name and every non-bracket character along `sigma`,
    keeps the brackets balanced, and the new pairing is the old pairing transported along `sigma`
    (the same set of base pairs under the re-indexing). -/
theorem rotateOnce_pairs (seq : List String) (sst : List Char) (p : Nat) (t : List (Option Nat))
    (hal : Aligned seq sst) (hp : seq.idxOf? "+" = some p) (hm : matchW (word sst) = some t) :
    ∃ seq' sst' t', rotateOnce seq sst = .ok (seq', sst') ∧
      seq' = seq.drop (p + 1) ++ ["+"] ++ seq.take p ∧
      sst'.length = sst.length ∧ Aligned seq' sst' ∧
      matchW (word sst') = some t' ∧
      (∀ i, i < sst.length → seq'[sigma sst.length p i]? = seq[i]?) ∧
      (∀ i, i < sst.length → (P t i).isNone → sst'[sigma sst.length p i]? = sst[i]?) ∧
      (∀ i, i < sst.length → P t' (sigma sst.length p i) = (P t i).map (sigma sst.length p)) := by
  obtain ⟨hlen, hplus⟩ := hal
  obtain ⟨hps, hpp, _⟩ := Rot.idxOf?_some seq "+" p hp
  have hpl : p < sst.length := by omega
  have hpb : sst[p]? = some '+' := (hplus p).mp hpp
  rw [word_eq] at hm
  obtain ⟨n2, t', hn2, hrot, hnone, hchr, hm', hP⟩ := Rot.rotateOnce_main seq sst p t hp hpl hpb hm
  have hM := matchW_sound _ _ hm
  have hpd : (Rot.cword sst)[p]? = some .dot := by rw [Rot.cword_get, hpb]; rfl
  have hsp : sigma sst.length p p = sst.length - p - 1 := by unfold sigma; simp
  have hseqmid : (Rot.rotL seq "+" p)[sst.length - p - 1]? = some "+" := by
    have := Rot.rot_get_mid seq "+" p hps; rw [hlen] at this; exact this
  have hsstmid : (Rot.rotL n2 '+' p)[sst.length - p - 1]? = some '+' := by
    have := Rot.rot_get_mid n2 '+' p (by omega); rw [hn2] at this; exact this
  have hseqsh : ∀ i, i < sst.length → i ≠ p →
      (Rot.rotL seq "+" p)[sh (sst.length + 1) (p + 1) i]? = seq[i]? := by
    intro i hi hip
    have := Rot.rot_get_sh seq "+" p i hps (by omega) hip; rw [hlen] at this; exact this
  have hsstsh : ∀ i, i < sst.length → i ≠ p →
      (Rot.rotL n2 '+' p)[sh (sst.length + 1) (p + 1) i]? = n2[i]? := by
    intro i hi hip
    have := Rot.rot_get_sh n2 '+' p i (by omega) (by omega) hip; rw [hn2] at this; exact this
  have hplus2 : ∀ i : Nat, n2[i]? = some '+' ↔ sst[i]? = some '+' := by
    intro i
    constructor
    · intro h
      rcases hchr i '+' h with h' | ⟨h', _⟩
      · exact h'
      · rcases h' with h' | h' <;> simp at h'
    · intro h
      have hd : (Rot.cword sst)[i]? = some .dot := by rw [Rot.cword_get, h]; rfl
      rw [hnone i (hM.dot i hd)]; exact h
  refine ⟨Rot.rotL seq "+" p, Rot.rotL n2 '+' p, t', hrot, rfl, ?_, ⟨?_, ?_⟩, ?_, ?_, ?_, ?_⟩
  · unfold Rot.rotL; rw [Rot.rot_length _ _ _ (by omega)]; exact hn2
  · unfold Rot.rotL; rw [Rot.rot_length n2 _ _ (by omega), Rot.rot_length seq _ _ hps]; omega
  · intro x
    by_cases hx : x < sst.length
    · rcases Rot.rot_pos_cases sst.length p x hpl hx with h | ⟨i, hi, hip, hsh⟩
      · subst h; rw [hseqmid, hsstmid]; simp
      · subst hsh; rw [hseqsh i hi hip, hsstsh i hi hip, hplus2, hplus]
    · have e1 : (Rot.rotL seq "+" p)[x]? = none := by
        apply List.getElem?_eq_none; unfold Rot.rotL; rw [Rot.rot_length _ _ _ hps]; omega
      have e2 : (Rot.rotL n2 '+' p)[x]? = none := by
        apply List.getElem?_eq_none; unfold Rot.rotL; rw [Rot.rot_length _ _ _ (by omega)]; omega
      rw [e1, e2]; simp
  · rw [word_eq]; exact hm'
  · intro i hi
    by_cases hip : i = p
    · rw [hip, hsp, hseqmid, hpp]
    · rw [sigma_eq_sh _ _ _ hi hip, hseqsh i hi hip]
  · intro i hi hn
    have hn' : P t i = none := by simpa using hn
    by_cases hip : i = p
    · rw [hip, hsp, hsstmid, hpb]
    · rw [sigma_eq_sh _ _ _ hi hip, hsstsh i hi hip, hnone i hn']
  · intro i hi
    rw [hP]
    by_cases hip : i = p
    · rw [hip, hM.dot _ hpd, hsp]
      have : shInv (sst.length + 1) (p + 1) (sst.length - p - 1) = sst.length := by
        unfold shInv; split <;> omega
      unfold conj
      rw [if_pos (by omega), this, hM.out _ (by rw [Rot.cword_length]; omega)]; rfl
    · rw [sigma_eq_sh _ _ _ hi hip, Rot.conj_sh _ _ _ _ (by omega) (by omega)]
      cases hj : P t i with
      | none => rfl
      | some j =>
        have := (matching_nci _ _ hM).rng _ _ hj
        rw [Rot.cword_length] at this
        have hjp : j ≠ p := by
          intro e; subst e
          have := Rot.matching_inv _ _ hM _ _ hj
          rw [hM.dot _ hpd] at this; simp at this
        simp only [Option.map_some]
        rw [sigma_eq_sh _ _ _ this.2.1 hjp]


/-- a list without a break token is returned unchanged -/
theorem rotateOnce_single (seq : List String) (sst : List Char) (h : "+" ∉ seq) :
    rotateOnce seq sst = .ok (seq, sst) := by
  unfold rotateOnce
  have : seq.idxOf? "+" = none := by
    simp [List.idxOf?, List.findIdx?_eq_none_iff]
    intro x hx e; subst e; exact h hx
  rw [this]

/-- the strands are cyclically shifted by one, contents untouched -/
theorem rotateOnce_strands (seq : List String) (sst : List Char) (r : List String × List Char)
    (h : rotateOnce seq sst = .ok r) (hplus : "+" ∈ seq) :
    splitOn "+" r.1 = (splitOn "+" seq).drop 1 ++ (splitOn "+" seq).take 1 := by
  obtain ⟨p, hp⟩ := Rot.idxOf?_isSome_of_mem seq "+" hplus
  rw [Rot.rotateOnce_fst seq sst r p h hp]
  obtain ⟨h1, h2⟩ := Rot.idxOf?_split seq "+" p hp
  have e : splitOn "+" seq = [seq.take p] ++ splitOn "+" (seq.drop (p + 1)) := by
    conv => lhs; rw [h1]
    rw [Rot.splitOn_append_sep, Rot.splitOn_not_mem _ _ h2]
  rw [e]
  simp only [List.append_assoc, List.singleton_append]
  rw [Rot.splitOn_append_sep, Rot.splitOn_not_mem _ _ h2]
  simp

/-- `n` rotations of an `n`-stranded balanced complex restore the original lists -/
theorem rotate_period (seq : List String) (sst : List Char) (t : List (Option Nat))
    (hal : Aligned seq sst) (hm : matchW (word sst) = some t)
    (hdot : ∀ c ∈ sst, c = '(' ∨ c = ')' ∨ c = '.' ∨ c = '+') :
    rotateN (splitOn "+" seq).length seq sst = .ok (seq, sst) := by
  rw [word_eq] at hm
  have hal' : Rot.Al seq sst := hal
  have hM := matchW_sound _ _ hm
  by_cases hplus : "+" ∈ seq
  · rw [Rot.splitOn_length]
    apply Rot.period_aux seq sst t hal' hdot hm hplus _ seq sst t 0 hal' hdot hm
    · rw [Rot.conj_zero]
      intro x hx; apply hM.out; rw [Rot.cword_length]; omega
    · omega
    · rw [Rot.R_zero]
    · simp [List.count_append]
  · rw [Rot.splitOn_not_mem _ _ hplus]
    simp only [List.length_singleton, rotateN, rotateOnce_single seq sst hplus]
    rfl

theorem getLast_rot {β} (l : List β) (hl : l ≠ []) :
    l.getLast?.toList ++ l.dropLast = l.drop (l.length - 1) ++ l.take (l.length - 1) := by
  rw [List.dropLast_eq_take]
  congr 1
  rw [List.getLast?_eq_some_getLast hl]
  have hlen : 0 < l.length := List.length_pos_iff.mpr hl
  apply List.ext_getElem
  · simp; omega
  · intro i h1 h2
    simp at h1
    subst h1
    simp [List.getLast_eq_getElem]

/-- one step of the pair-table generator is the inverse relabelling of strands
    (`rotate_pairtable_loc` with `n = -1`): rows move back by one and strand indices increase by one -/
theorem rotatePtOnce_spec {α} (stab : List (List α)) (ptab : PairTable) (h : ptab.length > 1)
    (hs : stab.length = ptab.length) :
    (rotatePtOnce stab ptab).1 = stab.drop (stab.length - 1) ++ stab.take (stab.length - 1) ∧
    (rotatePtOnce stab ptab).2 =
      (ptab.drop (ptab.length - 1) ++ ptab.take (ptab.length - 1)).map
        (fun row => row.map (rotateLocus ptab.length 1)) := by
  unfold rotatePtOnce
  simp only [h, if_true]
  constructor
  · exact getLast_rot stab (by intro e; simp [e] at hs; omega)
  · rw [getLast_rot ptab (by intro e; simp [e] at h)]

theorem rotationsPt_go_length {α} (k : Nat) (cur : List (List α) × PairTable) :
    (rotationsPt.go k cur).length = k := by
  induction k generalizing cur with
  | zero => simp [rotationsPt.go]
  | succ k ih => simp [rotationsPt.go, ih]

/-- the pair-table generator (called without `turns`) yields exactly `n` entries, starting with the input -/
theorem rotationsPt_length {α} (stab : List (List α)) (ptab : PairTable) :
    (rotationsPt stab ptab).length = ptab.length ∧ (ptab ≠ [] → (rotationsPt stab ptab)[0]? = some (stab, ptab)) := by
  unfold rotationsPt
  cases h : ptab.length with
  | zero => simp [List.length_eq_zero_iff.mp h]
  | succ k => simp [rotationsPt_go_length]

/-- `wrap` is the mathematical modulus for a positive modulus -/
theorem wrap_eq_emod (x : Int) (m : Nat) (hm : 0 < m) : (wrap x m : Int) = x % (m : Int) := by
  unfold wrap
  have h1 := Int.emod_nonneg x (by omega : (m:Int) ≠ 0)
  rw [Int.add_emod_right, Int.emod_emod_of_dvd _ (Int.dvd_refl _)]
  exact Int.toNat_of_nonneg h1

/-- non-vacuity: a two-strand complex with a cross-strand pair -/
example : rotateOnce ["a", "b", "+", "c"] ['(', '.', '+', ')'] = .ok (["c", "+", "a", "b"], ['(', '+', ')', '.']) := by
  decide

end Dsd.C07
