/-
Continuation of Props/PyLegacySeq2.lean: `add_constraint` of the legacy `SequenceConstraint` AS WRITTEN against the CURRENT `add_constraints` AS WRITTEN.

  `py_seq_union_pairs_dna`, `py_seq_union_pairs_rna`   for every pair of IUPAC codes (15 × 15) the legacy `_iupac_union` (with `_iupac_bin`, `_bin_iupac` and
                               their displays keyed by `T`) is the current `bin_iupac[iupac_bin[x] & iupac_bin[y]]` - both translations evaluated by the kernel
-/
import DsdVerif.Props.PyLegacySeq2
import DsdVerif.Lemmas.PyLegacySeq3

namespace Dsd.PyLegacySeq
open Dsd Dsd.Gen

theorem py_seq_union_pairs_dna : ∀ p ∈ pairsOf "DNA", ((py_SequenceConstraint_iupac_union ([p.1], [p.2])).exec (st0 ['T'])).1 =
    (curUnion bin_iupac_dna p).map String.toList := union_pairs_dna
theorem py_seq_union_pairs_rna : ∀ p ∈ pairsOf "RNA", ((py_SequenceConstraint_iupac_union ([p.1], [p.2])).exec (st0 ['U'])).1 =
    (curUnion bin_iupac_rna p).map String.toList := union_pairs_rna

#print axioms py_seq_union_pairs_dna
#print axioms py_seq_union_pairs_rna

end Dsd.PyLegacySeq
