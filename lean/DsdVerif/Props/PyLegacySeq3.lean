/-
Continuation of Props/PyLegacySeq2.lean: `add_constraint` of the legacy `SequenceConstraint` AS WRITTEN against the CURRENT `add_constraints` AS WRITTEN.

  `py_seq_union_pairs_dna`, `py_seq_union_pairs_rna`   for every pair of IUPAC codes (15 × 15) the legacy `_iupac_union` (with `_iupac_bin`, `_bin_iupac` and
                               their displays keyed by `T`) is the current `bin_iupac[iupac_bin[x] & iupac_bin[y]]` - both translations evaluated by the kernel
  `py_seq_union_reads`         `_iupac_union` (and the helpers under it) leave the object untouched and read only `ToU`
  `py_seq_merge_eq`            `_merge_constraints(self._sequence, con)` as written = the per-position results `bin_iupac[bin x & bin y]` of the current
                               `add_constraints`, for IUPAC sequences of either molecule (lists of the same results, exceptions included)
  `py_seq_add_constraint_eq`   `add_constraint(con)` as written on IUPAC sequences of equal length, in terms of the per-position results `l` of the current
                               `add_constraints`: an exception of a look-up is passed on, an empty result refuses (DSDObjectsError, object unchanged), otherwise
                               `_sequence := l`.  (The current function joins `l` and refuses when the text is shorter than the sequence: the equivalence of the
                               two refusal tests - every `bin_iupac` entry has at most one character - is NOT proved here.)
-/
import DsdVerif.Props.PyLegacySeq2
import DsdVerif.Lemmas.PyLegacySeq3
import DsdVerif.Lemmas.PyLegacySeq3c
import DsdVerif.Lemmas.PyLegacySeq3d

namespace Dsd.PyLegacySeq
open Dsd Dsd.Gen

theorem py_seq_union_pairs_dna : ∀ p ∈ pairsOf "DNA", ((py_SequenceConstraint_iupac_union ([p.1], [p.2])).exec (st0 ['T'])).1 =
    (curUnion bin_iupac_dna p).map String.toList := union_pairs_dna
theorem py_seq_union_pairs_rna : ∀ p ∈ pairsOf "RNA", ((py_SequenceConstraint_iupac_union ([p.1], [p.2])).exec (st0 ['U'])).1 =
    (curUnion bin_iupac_rna p).map String.toList := union_pairs_rna

theorem py_seq_union_reads (p : List Char × List Char) : ReadsToU (py_SequenceConstraint_iupac_union p) := union_reads p

theorem py_seq_merge_eq (s c : List Char) (mol : String) (hm : mol = "DNA" ∨ mol = "RNA") (hs : ∀ x ∈ s, x ∈ codesOf mol)
    (hc : ∀ x ∈ c, x ∈ codesOf mol) :
    (py_SequenceConstraint_merge_constraints (s.map (fun x => [x])) (c.map (fun x => [x]))).exec (mkS s mol) =
      ((List.mapM (curUnion (tblOf mol)) (List.zip s c)).map (List.map String.toList), mkS s mol) := merge_eq s c mol hm hs hc

theorem py_seq_add_constraint_eq (s c : List Char) (mol : String) (hm : mol = "DNA" ∨ mol = "RNA") (hs : ∀ x ∈ s, x ∈ codesOf mol)
    (hc : ∀ x ∈ c, x ∈ codesOf mol) (hl : s.length = c.length) :
    (py_SequenceConstraint_add_constraint (c.map (fun x => [x]))).exec (mkS s mol) =
      match List.mapM (curUnion (tblOf mol)) (List.zip s c) with
      | .error e => (.error e, mkS s mol)
      | .ok l =>
        if (l.map String.toList).contains [] then (.error (.fault "DSDObjectsError"), mkS s mol)
        else (.ok (), { mkS s mol with _sequence := l.map String.toList }) := add_constraint_eq s c mol hm hs hc hl

#print axioms py_seq_add_constraint_eq
#print axioms py_seq_union_reads
#print axioms py_seq_merge_eq
#print axioms py_seq_union_pairs_dna
#print axioms py_seq_union_pairs_rna

end Dsd.PyLegacySeq
