/-
The function-level pieces of the PIL reader dsdobjects/objectio.py AS WRITTEN: `read_reaction`, `set_io_objects`, `clear_io_objects`,
translated statement by statement from the working tree (translator/pyreaderfn.py -> Gen/PyReaderFns.lean).

1. `Gen.py_read_reaction` is the hand-written `ReaderFull.readReaction` (the model C14 / C16 reason about; components rtype, rate,
   units; exceptions by kind) on every line that is TYPED as the grammar produces lines (`lineTyped`: the info box a list of lists
   of strs, reactants and products lists).  The typing cannot be dropped: the model answers TypeError where a str stands for a
   list, the code follows Python's duck typing and subscripts the str character by character (`model_differs_on_str_info`,
   `py_accepts_str_rate`; CPython agrees with the translation on both: stream `read_reaction.source-derived`).
   `float(s)` is read as the opaque literal `s` on both sides (neither interprets the number; the ValueError of a str that is no
   float literal is not modelled).  `Reaction.RTYPES` is a parameter of the translation; the model has the regenerated
   `Gen.rtypes` of ReactionS.
2. The C16 facts for the code as written: an IGNORED reaction (no rate, no type, a type outside RTYPES) makes `read_reaction` return six
   `None`s - it does not raise (`py_ignored_reaction_six_nones`, `py_ignored_reaction_survives`), and whatever a typed line returns is
   six `None`s or the complete tuple of an accepted reaction (`py_read_reaction_outcome`, for any RTYPES).
3. `set_io_objects(D, S, C, M, R)` leaves every slot the argument, or the library class where the argument is `None`, INDEPENDENT of the
   previous state of the module globals (`py_set_io_objects_spec`, `py_set_io_objects_independent`: a version that returns early on
   "already configured" does not have this property); `clear_io_objects()` leaves all five `None` (C15).
-/
import DsdVerif.Lemmas.PyReaderFns
import DsdVerif.Lemmas.PyReaderFnsOutcome
import DsdVerif.Lemmas.PyReaderFnsIo

namespace Dsd.PyReaderFns
open Dsd Dsd.PP Dsd.Gen Dsd.ReaderFull Dsd.PyReaderFnsL

/-! ### `read_reaction` is the model -/

/-- **`py_read_reaction = readReaction`** on typed lines, for every rendering of `{:12g}` / of `str(list)`: the components the model keeps
    (rtype, rate literal, units) and the kind of the exception -/
theorem py_read_reaction_eq_model (g12 : Py.FloatLit → String) (strL : List Tree → String) (line : List Tree)
    (h : lineTyped line = true) :
    ((py_read_reaction Gen.rtypes g12 strL line).map keep3).mapError toRErr = (readReaction line).map embed3 :=
  py_eq g12 strL line h

/-- a line without `line[1]`: IndexError in the code (first statement) and in the model, for any RTYPES -/
theorem py_read_reaction_short_line (RTYPES : Py.StrSet) (g12 : Py.FloatLit → String) (strL : List Tree → String) (line : List Tree)
    (h : line.length < 2) :
    py_read_reaction RTYPES g12 strL line = .error (.fault "IndexError") ∧ readReaction line = .error (.fault "IndexError") := by
  match line, h with
  | [], _ => exact ⟨rfl, rfl⟩
  | [_], _ => exact ⟨rfl, rfl⟩

/-- the typing cannot be dropped (1): with a STR as info box the code subscripts characters - `'123'[0][0]` is `'1'`, the rate is
    `float('2')`, the type `'1'` is unknown: six `None`s - where the model reports TypeError.
    (CPython: `read_reaction(['reaction', '123', [], []])` -> six Nones.) -/
theorem model_differs_on_str_info (g12 : Py.FloatLit → String) (strL : List Tree → String) :
    py_read_reaction Gen.rtypes g12 strL [.tok "reaction", .tok "123", .grp [], .grp []] = .ok (none, none, none, none, none, none) ∧
    readReaction [.tok "reaction", .tok "123", .grp [], .grp []] = .error (.fault "TypeError") := by
  constructor <;> rfl

/-- the typing cannot be dropped (2): a STR in place of the list of rate and error term: the code ACCEPTS the reaction with the rate
    `float('1')` (the first character of `'15'`); the model reports TypeError.
    (CPython: `read_reaction(['reaction', [['open'], '15', ['/s']], ['A'], ['B']])` -> `(['A'], ['B'], 'open', 1.0, '/s', …)`.) -/
theorem py_accepts_str_rate (g12 : Py.FloatLit → String) (strL : List Tree → String) :
    (py_read_reaction Gen.rtypes g12 strL
        [.tok "reaction", .grp [.grp [.tok "open"], .tok "15", .grp [.tok "/s"]], .grp [.tok "A"], .grp [.tok "B"]]).map keep3 =
      .ok (some (.tok "open"), some "1", some (.tok "/s")) ∧
    readReaction [.tok "reaction", .grp [.grp [.tok "open"], .tok "15", .grp [.tok "/s"]], .grp [.tok "A"], .grp [.tok "B"]] =
      .error (.fault "TypeError") := by
  constructor <;> rfl

/-! ### ignored reactions: six `None`s, no exception (C16) - for the code as written -/

/-- whatever `read_reaction` returns for a typed line is six `None`s, or the complete tuple of an accepted reaction: reactants `line[2]`,
    products `line[3]`, a type that is a str of RTYPES, a rate, the sixth component a str - for ANY set RTYPES -/
theorem py_read_reaction_outcome (RTYPES : Py.StrSet) (g12 : Py.FloatLit → String) (strL : List Tree → String) (line : List Tree)
    (h : lineTyped line = true) (r : Res6) (hr : py_read_reaction RTYPES g12 strL line = .ok r) : Outcome RTYPES line r := by
  match line, h with
  | [], _ => exact absurd hr (by intro h; cases h)
  | [_], _ => exact absurd hr (by intro h; cases h)
  | a :: .tok s :: rest, h => simp [lineTyped, infoTyped] at h
  | a :: .grp ts :: rest, h => exact py_outcome_grp RTYPES g12 strL a ts rest h r hr

/-- **an ignored reaction returns six `None`s and does not raise** (transferred from the model): whenever the model ignores a typed
    line - no rate, no type, a type outside `Gen.rtypes` - the code as written returns `None, None, None, None, None, None` -/
theorem py_ignored_reaction_six_nones (g12 : Py.FloatLit → String) (strL : List Tree → String) (line : List Tree)
    (h : lineTyped line = true) (hm : readReaction line = .ok (none, none, none)) :
    py_read_reaction Gen.rtypes g12 strL line = .ok (none, none, none, none, none, none) := by
  have e := py_read_reaction_eq_model g12 strL line h
  rw [hm] at e
  cases hpy : py_read_reaction Gen.rtypes g12 strL line with
  | error err => rw [hpy] at e; cases e
  | ok r =>
    rw [hpy] at e
    rcases py_read_reaction_outcome Gen.rtypes g12 strL line h r hpy with rfl | ⟨t, ra, _, _, _, _, ht, _⟩
    · rfl
    · exfalso
      have : keep3 r = (none, none, none) := by
        simpa [Except.map, Except.mapError, embed3] using e
      simp [keep3, ht] at this

/-- … and an accepted one returns the model's type, rate and units, with the reactants and products of the line -/
theorem py_accepted_reaction (g12 : Py.FloatLit → String) (strL : List Tree → String) (line : List Tree)
    (h : lineTyped line = true) (ty ra : String) (un : Option String) (hm : readReaction line = .ok (some ty, some ra, un)) :
    ∃ r, py_read_reaction Gen.rtypes g12 strL line = .ok r ∧ r.1 = line[2]? ∧ r.2.1 = line[3]? ∧ r.2.2.1 = some (.tok ty) ∧
      r.2.2.2.1 = some ra ∧ r.2.2.2.2.1 = un.map .tok ∧ ty ∈ Gen.rtypes := by
  have e := py_read_reaction_eq_model g12 strL line h
  rw [hm] at e
  cases hpy : py_read_reaction Gen.rtypes g12 strL line with
  | error err => rw [hpy] at e; cases e
  | ok r =>
    rw [hpy] at e
    have hk : keep3 r = (some (.tok ty), some ra, un.map .tok) := by
      simpa [Except.map, Except.mapError, embed3] using e
    simp only [keep3, Prod.mk.injEq] at hk
    rcases py_read_reaction_outcome Gen.rtypes g12 strL line h r hpy with rfl | ⟨t, ra', h2, h3, _, _, ht, hin, _, _⟩
    · simp at hk
    · refine ⟨r, rfl, h2, h3, hk.1, hk.2.1, hk.2.2, ?_⟩
      have : t = ty := by
        have := hk.1; rw [ht] at this; simpa using this
      exact this ▸ hin

/-- the grammar's reaction lines (`[kw, [[type?], [rate, error?], [units]], reactants, products]`, all strs) that C16 calls IGNORED -
    no type, or a type outside the regenerated RTYPES of ReactionS: six `None`s, no exception.
    (A parsed info box always has a rate; a line without info box is `py_no_info_box_six_nones`.) -/
theorem py_ignored_reaction_survives (g12 : Py.FloatLit → String) (strL : List Tree → String) (kw : Tree)
    (ty ra un rs ps : List String) (r0 : String) (hra : ra = [r0] ∨ ∃ e, ra = [r0, e]) (u : String) (hun : un = [u])
    (hty : ty = [] ∨ ∃ t, ty = [t] ∧ t ∉ Gen.rtypes) :
    py_read_reaction Gen.rtypes g12 strL
      [kw, .grp [.grp (ty.map .tok), .grp (ra.map .tok), .grp (un.map .tok)], .grp (rs.map .tok), .grp (ps.map .tok)] =
      .ok (none, none, none, none, none, none) := by
  have toks : ∀ l : List String, Py.treeStrs (l.map Tree.tok) = .ok l := by
    intro l; induction l with
    | nil => rfl
    | cons x l ih => simp only [List.map_cons, Py.treeStrs, ih]; rfl
  subst hun
  rcases hty with rfl | ⟨t, rfl, ht⟩
  · rcases hra with rfl | ⟨e, rfl⟩ <;>
      (simp [py_read_reaction, Py.idx, Py.treeIdx, Py.treeNeNil, Py.treeLen, Py.treeFloat, Py.treeJoin, Py.inStrSet, Py.unwrap, toks]) <;>
      try rfl
  · rcases hra with rfl | ⟨e, rfl⟩ <;>
      (simp [py_read_reaction, Py.idx, Py.treeIdx, Py.treeNeNil, Py.treeLen, Py.treeFloat, Py.treeJoin, Py.inStrSet, Py.unwrap, toks, ht]) <;>
      try rfl

/-- a reaction line without info box (`reaction A + B -> C`): no rate - six `None`s, no exception -/
theorem py_no_info_box_six_nones (RTYPES : Py.StrSet) (g12 : Py.FloatLit → String) (strL : List Tree → String) (kw : Tree)
    (rs ps : List String) :
    py_read_reaction RTYPES g12 strL [kw, .grp [], .grp (rs.map .tok), .grp (ps.map .tok)] = .ok (none, none, none, none, none, none) := by
  have toks : ∀ l : List String, Py.treeStrs (l.map Tree.tok) = .ok l := by
    intro l; induction l with
    | nil => rfl
    | cons x l ih => simp only [List.map_cons, Py.treeStrs, ih]; rfl
  simp [py_read_reaction, Py.idx, Py.treeNeNil, Py.treeJoin, toks]
  rfl

/-! ### `set_io_objects` / `clear_io_objects` (C15: the reader honours the configured classes) -/

/-- **`set_io_objects(D, S, C, M, R)`** never raises and leaves in every slot the argument, or the library class where the argument is
    `None` - whatever the module globals were before -/
theorem py_set_io_objects_spec (base : objectio.Imports) (D S C M R : Option Py.ClassId) (g : objectio.Globals) :
    Py.MS.exec (py_set_io_objects base D S C M R) g = (.ok (), configured base D S C M R) :=
  set_exec base D S C M R g

/-- the outcome does not depend on the previous configuration (a `set_io_objects` that returns early when the reader is "already
    configured" would keep the old classes: it does not satisfy this) -/
theorem py_set_io_objects_independent (base : objectio.Imports) (D S C M R : Option Py.ClassId) (g g' : objectio.Globals) :
    Py.MS.exec (py_set_io_objects base D S C M R) g = Py.MS.exec (py_set_io_objects base D S C M R) g' := by
  rw [set_exec, set_exec]

/-- every slot holds the configured class: a given class is taken as it is, for every slot separately -/
theorem py_set_io_objects_honours (base : objectio.Imports) (D S C M R : Option Py.ClassId) (g : objectio.Globals) (d s c m r : Py.ClassId)
    (hD : D = some d) (hS : S = some s) (hC : C = some c) (hM : M = some m) (hR : R = some r) :
    (Py.MS.exec (py_set_io_objects base D S C M R) g).2 =
      { Domain := some d, Strand := some s, Complex := some c, Macrostate := some m, Reaction := some r } := by
  subst hD hS hC hM hR; rw [set_exec]; rfl

/-- `set_io_objects()` without arguments: the five library classes -/
theorem py_set_io_objects_default (base : objectio.Imports) (g : objectio.Globals) :
    (Py.MS.exec (py_set_io_objects base none none none none none) g).2 =
      { Domain := some base.DomainS, Strand := some base.StrandS, Complex := some base.ComplexS, Macrostate := some base.MacrostateS,
        Reaction := some base.ReactionS } := by
  rw [set_exec]; rfl

/-- **`clear_io_objects()`** never raises and leaves all five module globals `None` -/
theorem py_clear_io_objects_spec (base : objectio.Imports) (g : objectio.Globals) :
    Py.MS.exec (py_clear_io_objects base) g =
      (.ok (), { Domain := none, Strand := none, Complex := none, Macrostate := none, Reaction := none }) :=
  clear_exec base g

/-- re-configuration without `clear_io_objects()` in between: only the LAST call counts (an omitted slot means the library class again) -/
theorem py_set_twice (base : objectio.Imports) (D S C M R D' S' C' M' R' : Option Py.ClassId) (g : objectio.Globals) :
    (Py.MS.exec (py_set_io_objects base D' S' C' M' R') (Py.MS.exec (py_set_io_objects base D S C M R) g).2).2 =
      configured base D' S' C' M' R' := by
  rw [set_exec]

/-- the slot configuration of the reader model (Model/Reader.lean `Slots`, the library classes being class 0 of their kind) after
    `set_io_objects`: per kind the given class, else class 0 - the `Slots` value the C14 - C16 theorems about `readLine` / `readDoc` take -/
theorem py_set_io_objects_slots (D S C M R : Option Py.ClassId) (g : objectio.Globals) :
    slotsOf (Py.MS.exec (py_set_io_objects ⟨0, 0, 0, 0, 0⟩ D S C M R) g).2 =
      some { dom := D.getD 0, strand := S.getD 0, cplx := C.getD 0, macr := M.getD 0, rxn := R.getD 0 } := by
  rw [set_exec]; rfl

/-- after `clear_io_objects()` the reader is not configured (every branch of `read_pil_line` tests `… is not None`) -/
theorem py_clear_io_objects_slots (base : objectio.Imports) (g : objectio.Globals) :
    slotsOf (Py.MS.exec (py_clear_io_objects base) g).2 = none := by
  rw [clear_exec]; rfl

end Dsd.PyReaderFns

#print axioms Dsd.PyReaderFns.py_read_reaction_eq_model
#print axioms Dsd.PyReaderFns.py_read_reaction_short_line
#print axioms Dsd.PyReaderFns.model_differs_on_str_info
#print axioms Dsd.PyReaderFns.py_accepts_str_rate
#print axioms Dsd.PyReaderFns.py_read_reaction_outcome
#print axioms Dsd.PyReaderFns.py_ignored_reaction_six_nones
#print axioms Dsd.PyReaderFns.py_accepted_reaction
#print axioms Dsd.PyReaderFns.py_ignored_reaction_survives
#print axioms Dsd.PyReaderFns.py_no_info_box_six_nones
#print axioms Dsd.PyReaderFns.py_set_io_objects_spec
#print axioms Dsd.PyReaderFns.py_set_io_objects_independent
#print axioms Dsd.PyReaderFns.py_set_io_objects_honours
#print axioms Dsd.PyReaderFns.py_set_io_objects_default
#print axioms Dsd.PyReaderFns.py_clear_io_objects_spec
#print axioms Dsd.PyReaderFns.py_set_twice
#print axioms Dsd.PyReaderFns.py_set_io_objects_slots
#print axioms Dsd.PyReaderFns.py_clear_io_objects_slots
