import DsdVerif.Props.C12Kernel
import DsdVerif.Props.C13Kernel
import DsdVerif.Lemmas.ReaderName

namespace Dsd.C12
open Dsd Dsd.PP Dsd.Gen Dsd.C13

/-! C12 at character level: writing a complex as the text `name = <kernel string>` and reading it back — the
PIL parser (`parseDoc pil_env pil_grammar`, C13 `kernel_rt`) followed by the reader's `resolve_kernel_loops`
(`resolveKernel`, C12 `resolve_kernel_inverse`) — yields the same (sequence, structure). -/

/-! ### the reader's recursion budget

`read_pil_line` calls `resolveKernel (treeSize 1000 pat + 2) pat`.  The fuel of `resolveKernel` bounds the nesting
depth only, and a successful result does not depend on it; `treeSize 1000 pat`, when it is not saturated
(`< 1000`), is at least the depth. -/

/-- a successful fold of `resolveKernel`'s step is reproduced with any fuel of at least the (unsaturated) size -/
theorem fold_fuel : ∀ (f : Nat) (toks : List Tree), treeSize f toks < f →
    ∀ (g : Nat) (acc r : List String × List Char), toks.foldlM (RdL.kstep g) acc = .ok r →
    ∀ fuel, treeSize f toks ≤ fuel → toks.foldlM (RdL.kstep fuel) acc = .ok r := by
  intro f
  induction f using Nat.strongRecOn with
  | _ f ih =>
    intro toks hsz g acc r h fuel hfuel
    cases f with
    | zero => simp [treeSize] at hsz
    | succ f =>
      cases toks with
      | nil => simpa using h
      | cons t rest =>
        cases t with
        | tok s =>
          simp only [treeSize] at hsz hfuel
          simp only [List.foldlM_cons, RdL.kstep, bind, Except.bind] at h ⊢
          exact ih f (by omega) rest (by omega) g _ r h fuel (by omega)
        | grp inner =>
          simp only [treeSize] at hsz hfuel
          simp only [List.foldlM_cons, RdL.kstep, bind, Except.bind] at h ⊢
          cases hl : acc.1.getLast? with
          | none => rw [hl] at h; simp at h
          | some old =>
            rw [hl] at h
            simp only at h ⊢
            cases hg : resolveKernel g inner with
            | error e => rw [hg] at h; simp at h
            | ok q =>
              obtain ⟨se, ss⟩ := q
              rw [hg] at h
              simp only at h
              obtain ⟨g', rfl⟩ : ∃ g', g = g' + 1 := by
                cases g with
                | zero => simp [resolveKernel] at hg
                | succ g' => exact ⟨g', rfl⟩
              obtain ⟨fuel', rfl⟩ : ∃ fuel', fuel = fuel' + 1 := ⟨fuel - 1, by omega⟩
              rw [RdL.resolveKernel_succ] at hg
              have hin := ih f (by omega) inner (by omega) g' _ _ hg fuel' (by omega)
              rw [RdL.resolveKernel_succ, hin]
              simp only
              exact ih f (by omega) rest (by omega) (g' + 1) _ r h (fuel' + 1) (by omega)

/-- a result of `resolveKernel` with any fuel is the result with the reader's budget, provided the size of the
    pattern does not saturate the budget -/
theorem resolveKernel_budget (toks : List Tree) (g : Nat) (r : List String × List Char)
    (h : resolveKernel g toks = .ok r) (hsz : treeSize 1000 toks < 1000) :
    resolveKernel (treeSize 1000 toks + 2) toks = .ok r := by
  obtain ⟨g', rfl⟩ : ∃ g', g = g' + 1 := by
    cases g with
    | zero => simp [resolveKernel] at h
    | succ g' => exact ⟨g', rfl⟩
  rw [RdL.resolveKernel_succ] at h
  rw [show treeSize 1000 toks + 2 = (treeSize 1000 toks + 1) + 1 by omega, RdL.resolveKernel_succ]
  exact fold_fuel 1000 toks hsz g' _ r h _ (by omega)

/-- **parse ∘ render is the identity on (sequence, structure)**: the text `name = <kernel string of (seq, sst)>`
    parses to the `kernel-complex` line whose pattern is the token forest of the kernel string, and the reader's
    `resolve_kernel_loops` — with the budget `read_pil_line` gives it — turns that pattern back into `(seq, sst)`.
    Hypotheses: `name` a PIL identifier; the names PIL domain names (`LegalNames`); a balanced structure over
    `( ) . +` aligned with the names (`KDescr`); paired positions carry complementary names (`Complementary`).
    The budget hypothesis `treeSize 1000 toks < 1000` cannot be dropped: `treeSize 1000` saturates and deeper
    patterns end in a RecursionError (Props/C16Reader.lean, `deepPattern`). -/
theorem kernel_text_roundtrip (name : List Char) (seq : List String) (sst : List Char) (t : List (Option Nat))
    (hn : Ident name) (hl : LegalNames seq sst) (hne : sst ≠ [])
    (h : KDescr seq sst t) (hc : Complementary seq t) :
    ∃ toks, kernelTokens seq sst = some toks ∧
      parseDoc pil_env pil_grammar
        (String.ofList (name ++ " = ".toList ++ (kernelString seq sst).toList ++ ['\n'])) =
        some [.grp [.tok "kernel-complex", tokOf name, .grp toks]] ∧
      (treeSize 1000 toks < 1000 → resolveKernel (treeSize 1000 toks + 2) toks = .ok (seq, sst)) := by
  obtain ⟨toks, ht⟩ := kernelTokens_total seq sst t h
  refine ⟨toks, ht, kernel_rt name seq sst toks hn hl hne ht, fun hsz => ?_⟩
  exact resolveKernel_budget toks _ _ (resolve_kernel_inverse seq sst t h hc toks ht) hsz

/-! ### the same in every rotation -/

theorem legalNames_doms (seq : List String) (sst : List Char) (hl : LegalNames seq sst) :
    ∀ n ∈ seq, n ≠ "+" → DomName n.toList := by
  intro n hn hne
  obtain ⟨i, hi⟩ := List.getElem?_of_mem hn
  have hlt : i < sst.length := by
    have := (List.getElem?_eq_some_iff.mp hi).1
    rw [hl.1] at this; exact this
  obtain ⟨l1, l2, _⟩ := hl.2 i n sst[i] hi (List.getElem?_eq_getElem hlt)
  exact l2 (fun e => hne (l1 e))

theorem legalNames_of (seq : List String) (sst : List Char) (t : List (Option Nat)) (h : KDescr seq sst t)
    (hd : ∀ n ∈ seq, n ≠ "+" → DomName n.toList) : LegalNames seq sst := by
  refine ⟨h.aligned.1, ?_⟩
  intro i n c h1 h2
  refine ⟨?_, ?_, h.chars c (List.mem_of_getElem? h2)⟩
  · intro hc
    subst hc
    have := (h.aligned.2 i).mpr h2
    rw [h1] at this
    exact Option.some.inj this
  · intro hc
    apply hd n (List.mem_of_getElem? h1)
    intro e
    subst e
    have := (h.aligned.2 i).mp h1
    rw [h2] at this
    exact hc (Option.some.inj this)

/-- **the round trip through text holds in every rotation** of a complementary description whose names have at
    most one trailing star (`hinv`, see `compName_involutive`) -/
theorem kernel_text_all_rotations (name : List Char) (seq : List String) (sst : List Char) (t : List (Option Nat))
    (hn : Ident name) (hl : LegalNames seq sst) (hne : sst ≠ [])
    (h : KDescr seq sst t) (hc : Complementary seq t) (hinv : ∀ n ∈ seq, compName (compName n) = n)
    (k : Nat) (r : List String × List Char) (hr : rotateN k seq sst = .ok r) :
    ∃ toks, kernelTokens r.1 r.2 = some toks ∧
      parseDoc pil_env pil_grammar
        (String.ofList (name ++ " = ".toList ++ (kernelString r.1 r.2).toList ++ ['\n'])) =
        some [.grp [.tok "kernel-complex", tokOf name, .grp toks]] ∧
      (treeSize 1000 toks < 1000 → resolveKernel (treeSize 1000 toks + 2) toks = .ok r) := by
  induction k generalizing seq sst t with
  | zero =>
    simp only [rotateN, Except.ok.injEq] at hr
    subst hr
    exact kernel_text_roundtrip name seq sst t hn hl hne h hc
  | succ k ih =>
    rw [Rot.rotateN_succ] at hr
    cases hro : rotateOnce seq sst with
    | error e => rw [hro] at hr; cases hr
    | ok r1 =>
      rw [hro] at hr
      obtain ⟨t', hk', hc'⟩ := complementary_rotate seq sst t h hc hinv r1 hro
      have hnames := rotate_names seq sst r1 hro
      have hinv' : ∀ n ∈ r1.1, compName (compName n) = n := fun n hn => hinv n (hnames n hn)
      have hl' : LegalNames r1.1 r1.2 :=
        legalNames_of r1.1 r1.2 t' hk' (fun n hn hne' => legalNames_doms seq sst hl n (hnames n hn) hne')
      have hne' : r1.2 ≠ [] := by
        intro e
        have hlen := hk'.aligned.1
        rw [e] at hlen
        have h1 : r1.1 = [] := List.length_eq_zero_iff.mp hlen
        by_cases hplus : "+" ∈ seq
        · obtain ⟨p, hp⟩ := Rot.idxOf?_isSome_of_mem seq "+" hplus
          have := Rot.rotateOnce_fst seq sst r1 p hro hp
          rw [h1] at this
          simp at this
        · rw [C07.rotateOnce_single seq sst hplus] at hro
          cases hro
          exact hne e
      exact ih r1.1 r1.2 t' hl' hne' hk' hc' hinv' hr

/-! ### non-vacuity: a two-strand complex with a nested loop and an empty hairpin -/

def exSeq : List String := ["a", "b", "+", "b*", "c", "c*", "a*"]
def exSst : List Char := ['(', '(', '+', ')', '(', ')', ')']
def exT : List (Option Nat) := [some 6, some 3, none, some 1, some 5, some 4, some 0]

theorem ident_of_decide (s : List Char) (h1 : s ≠ []) (h2 : ∀ c ∈ s, c ∈ pp_alphanums ++ ['_', '-']) : Ident s :=
  ⟨h1, h2⟩

/-- the example satisfies the hypotheses … -/
theorem ex_hyps : Ident "X".toList ∧ LegalNames exSeq exSst ∧ exSst ≠ [] ∧ KDescr exSeq exSst exT ∧
    Complementary exSeq exT ∧ ∀ n ∈ exSeq, compName (compName n) = n := by
  have dn : ∀ (b : List Char) (st : Bool), Ident b → DomName (b ++ star st) := fun b st hb => ⟨b, st, rfl, hb⟩
  have ia : Ident ['a'] := ⟨by simp, by decide⟩
  have ib : Ident ['b'] := ⟨by simp, by decide⟩
  have ic : Ident ['c'] := ⟨by simp, by decide⟩
  have hk : KDescr exSeq exSst exT := by
    refine ⟨⟨rfl, ?_⟩, by decide, by decide⟩
    intro i
    match i with
    | 0 => decide
    | 1 => decide
    | 2 => decide
    | 3 => decide
    | 4 => decide
    | 5 => decide
    | 6 => decide
    | k + 7 => simp [exSeq, exSst]
  refine ⟨⟨by decide, by decide⟩, ?_, by decide, hk, ?_, by decide⟩
  · apply legalNames_of exSeq exSst exT hk
    intro n hn hne
    simp only [exSeq, List.mem_cons, List.not_mem_nil, or_false] at hn
    rcases hn with rfl | rfl | rfl | rfl | rfl | rfl | rfl
    · exact dn ['a'] false ia
    · exact dn ['b'] false ib
    · exact absurd rfl hne
    · exact dn ['b'] true ib
    · exact dn ['c'] false ic
    · exact dn ['c'] true ic
    · exact dn ['a'] true ia
  · intro i j hij hlt
    match i with
    | 0 => simp [exT, Bracket.P] at hij; subst hij; decide
    | 1 => simp [exT, Bracket.P] at hij; subst hij; decide
    | 2 => simp [exT, Bracket.P] at hij
    | 3 => simp [exT, Bracket.P] at hij; omega
    | 4 => simp [exT, Bracket.P] at hij; subst hij; decide
    | 5 => simp [exT, Bracket.P] at hij; omega
    | 6 => simp [exT, Bracket.P] at hij; omega
    | k + 7 => simp [exT, Bracket.P] at hij

/-- … and the text is parsed and resolved by the model as the theorem says (checked by evaluation): the kernel
    string, the parsed line, the reader's budget, and the resolved (sequence, structure) -/
example :
    kernelString exSeq exSst = "a( b( + ) c( ) )" ∧
    parseDoc pil_env pil_grammar "X = a( b( + ) c( ) )\n" =
      some [.grp [.tok "kernel-complex", .tok "X",
        .grp [.tok "a", .grp [.tok "b", .grp [.tok "+"], .tok "c", .grp []]]]] ∧
    kernelTokens exSeq exSst = some [.tok "a", .grp [.tok "b", .grp [.tok "+"], .tok "c", .grp []]] ∧
    treeSize 1000 [.tok "a", .grp [.tok "b", .grp [.tok "+"], .tok "c", .grp []]] = 11 ∧
    resolveKernel (11 + 2) [.tok "a", .grp [.tok "b", .grp [.tok "+"], .tok "c", .grp []]] = .ok (exSeq, exSst) := by
  refine ⟨by decide, by rfl, by rfl, by rfl, by rfl⟩

/-! ### the budget hypothesis cannot be dropped

ATTEMPTED STATEMENT (false): `… → resolveKernel (treeSize 1000 toks + 2) toks = .ok (seq, sst)` without the
hypothesis `treeSize 1000 toks < 1000`.  Counterexample (the description behind `C16.deepPattern`): 998 unpaired
domains `a`, then 1100 nested helices `a( … )` — aligned, balanced and complementary by construction.  Its token
forest saturates `treeSize 1000`, and the reader's `resolve_kernel_loops` ends in a RecursionError. -/

def deepSeq : List String := List.replicate 998 "a" ++ List.replicate 1100 "a" ++ List.replicate 1100 "a*"
def deepSst : List Char := List.replicate 998 '.' ++ List.replicate 1100 '(' ++ List.replicate 1100 ')'

example : (match kernelTokens deepSeq deepSst with
    | some toks =>
      (match resolveKernel (treeSize 1000 toks + 2) toks with
       | .error (.fault "RecursionError") => decide (1000 ≤ treeSize 1000 toks)
       | _ => false)
    | none => false) = true := by decide +kernel

end Dsd.C12
