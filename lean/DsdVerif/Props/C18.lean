/-
C18 — unit and rate-constant conversion preserves the physical quantity.
Arithmetic is exact (ℚ); floating-point rounding is *not* modelled (the correspondence
harness compares the implementation's floats with these exact values up to a relative tolerance).
-/
import DsdVerif.Model.Units
import Mathlib.Tactic.FieldSimp
import Mathlib.Tactic.Ring

namespace Dsd.Units

/-- the physical scale table (SI prefixes; seconds per time unit), written by hand -/
def physical : List (String × (Nat × Nat)) :=
  [("M", (1, 1)), ("mM", (1, 1000)), ("uM", (1, 1000000)), ("nM", (1, 1000000000)), ("pM", (1, 1000000000000)),
   ("days", (86400, 1)), ("hours", (3600, 1)), ("h", (3600, 1)), ("min", (60, 1)), ("m", (60, 1)), ("s", (1, 1)),
   ("ms", (1, 1000)), ("us", (1, 1000000)), ("ns", (1, 1000000000))]

def sameRatio (a b : Nat × Nat) : Bool := a.1 * b.2 == b.1 * a.2

def rowPhysical (r : String × (Nat × Nat)) : Bool :=
  match lookup physical r.1 with
  | some p => sameRatio r.2 p && decide (0 < r.2.1) && decide (0 < r.2.2)
  | none => false

/-- every row of the generated tables carries the physical scale of its unit, and the required
    units are present -/
theorem tables_physical :
    (∀ r ∈ Gen.units_conc, rowPhysical r = true) ∧ (∀ r ∈ Gen.units_time, rowPhysical r = true) ∧
    (∀ u ∈ ["M", "mM", "uM", "nM", "pM"], (lookup Gen.units_conc u).isSome) ∧
    (∀ u ∈ ["days", "hours", "min", "s", "ms", "us", "ns"], (lookup Gen.units_time u).isSome) := by decide

/-- no unit belongs to both families -/
theorem families_disjoint : ∀ r ∈ Gen.units_conc, lookup Gen.units_time r.1 = none := by decide

/-- every rate unit accepted by the PIL grammar can be converted -/
theorem grammar_units_convertible :
    (∀ u ∈ Gen.grammar_cunit, (lookup Gen.units_conc u).isSome) ∧
    (∀ u ∈ Gen.grammar_tunit, (lookup Gen.units_time u).isSome) := by decide

theorem lookup_mem (tbl : List (String × (Nat × Nat))) (u : String) (p) (h : lookup tbl u = some p) :
    (u, p) ∈ tbl := by
  unfold lookup at h
  cases hf : tbl.reverse.find? (fun r => r.1 == u) with
  | none => simp [hf] at h
  | some r =>
    simp [hf] at h
    have hm := List.mem_of_find?_eq_some hf
    have hp := List.find?_some hf
    simp at hp hm
    obtain ⟨a, b⟩ := r
    simp at hp h; subst hp; subst h; exact hm

theorem scale_pos_conc : ∀ r ∈ Gen.units_conc, 0 < r.2.1 ∧ 0 < r.2.2 := by decide
theorem scale_pos_time : ∀ r ∈ Gen.units_time, 0 < r.2.1 ∧ 0 < r.2.2 := by decide

theorem scaleOf_ne_zero (p : Nat × Nat) (h : 0 < p.1 ∧ 0 < p.2) : scaleOf p ≠ 0 := by
  unfold scaleOf
  have h1 : (p.1 : Rat) ≠ 0 := by exact_mod_cast (Nat.pos_iff_ne_zero.mp h.1)
  have h2 : (p.2 : Rat) ≠ 0 := by exact_mod_cast (Nat.pos_iff_ne_zero.mp h.2)
  exact div_ne_zero h1 h2

/-- `family u = some (fam, scale)`: which table the unit is looked up in, with `convert`'s priority -/
def family (u : String) : Option (Bool × (Nat × Nat)) :=
  match lookup Gen.units_conc u with
  | some a => some (true, a)
  | none => (lookup Gen.units_time u).map (fun a => (false, a))

theorem family_scale_ne_zero (u) (f) (p) (h : family u = some (f, p)) : scaleOf p ≠ 0 := by
  unfold family at h
  cases hc : lookup Gen.units_conc u with
  | some a =>
    simp [hc] at h; obtain ⟨_, rfl⟩ := h
    exact scaleOf_ne_zero _ (scale_pos_conc _ (lookup_mem _ _ _ hc))
  | none =>
    cases ht : lookup Gen.units_time u with
    | none => simp [hc, ht] at h
    | some a =>
      simp [hc, ht] at h; obtain ⟨_, rfl⟩ := h
      exact scaleOf_ne_zero _ (scale_pos_time _ (lookup_mem _ _ _ ht))

/-- definition: within a family the result is `v · scale(a) / scale(b)`; anything else is an exception -/
theorem convert_def (v : Rat) (a b : String) :
    convert v a b =
      match family a, family b with
      | some (fa, sa), some (fb, sb) => if fa = fb then .ok (v * scaleOf sa / scaleOf sb) else .error .keyError
      | some _, none => .error .keyError
      | none, _ => .error .valueError := by
  unfold convert family
  cases hca : lookup Gen.units_conc a with
  | some sa =>
    cases hcb : lookup Gen.units_conc b with
    | some sb => simp
    | none => cases htb : lookup Gen.units_time b <;> simp
  | none =>
    cases hta : lookup Gen.units_time a with
    | none => simp
    | some sa =>
      cases hcb : lookup Gen.units_conc b with
      | some sb =>
        have := families_disjoint _ (lookup_mem _ _ _ hcb)
        simp at this
        simp [this]
      | none => cases htb : lookup Gen.units_time b <;> simp

/-- a number is returned exactly for two known units of the same family -/
theorem convert_ok_iff (v : Rat) (a b : String) :
    (∃ r, convert v a b = .ok r) ↔ ∃ fa sa sb, family a = some (fa, sa) ∧ family b = some (fa, sb) := by
  rw [convert_def]
  cases ha : family a with
  | none => simp
  | some pa =>
    obtain ⟨fa, sa⟩ := pa
    cases hb : family b with
    | none => simp
    | some pb =>
      obtain ⟨fb, sb⟩ := pb
      by_cases h : fa = fb
      · subst h; simp
      · simp [h]; intro h'; exact absurd h'.symm h

theorem convert_id (v : Rat) (a : String) (h : (family a).isSome) : convert v a a = .ok v := by
  rw [convert_def]
  cases ha : family a with
  | none => simp [ha] at h
  | some pa =>
    obtain ⟨fa, sa⟩ := pa
    have := family_scale_ne_zero a fa sa ha
    simp
    field_simp

theorem convert_compose (v w z : Rat) (a b c : String)
    (h1 : convert v a b = .ok w) (h2 : convert w b c = .ok z) : convert v a c = .ok z := by
  rw [convert_def] at h1 h2 ⊢
  cases ha : family a with
  | none => simp [ha] at h1
  | some pa =>
    obtain ⟨fa, sa⟩ := pa
    cases hb : family b with
    | none => simp [ha, hb] at h1
    | some pb =>
      obtain ⟨fb, sb⟩ := pb
      cases hc : family c with
      | none => simp [hb, hc] at h2
      | some pc =>
        obtain ⟨fc, sc⟩ := pc
        simp only [ha, hb, hc] at h1 h2 ⊢
        by_cases hab : fa = fb
        · by_cases hbc : fb = fc
          · subst hab; subst hbc
            simp at h1 h2 ⊢
            have := family_scale_ne_zero b fa sb hb
            have := family_scale_ne_zero c fa sc hc
            rw [← h2, ← h1]; field_simp
          · simp [hbc] at h2
        · simp [hab] at h1

theorem convert_inverse (v w : Rat) (a b : String) (h : convert v a b = .ok w) : convert w b a = .ok v := by
  rw [convert_def] at h ⊢
  cases ha : family a with
  | none => simp [ha] at h
  | some pa =>
    obtain ⟨fa, sa⟩ := pa
    cases hb : family b with
    | none => simp [ha, hb] at h
    | some pb =>
      obtain ⟨fb, sb⟩ := pb
      simp only [ha, hb] at h ⊢
      by_cases hab : fa = fb
      · subst hab
        simp at h ⊢
        have := family_scale_ne_zero a fa sa ha
        have := family_scale_ne_zero b fa sb hb
        rw [← h]; field_simp
      · simp [hab] at h

/-! ### rate constants -/

/-- the rate constant is returned as it was set: a number, a 1-tuple, or a (value, units) pair -/
theorem rate_roundtrip (a : RateArg) :
    getRate (setRate a) = match a with
      | .number v => (v, none) | .tuple1 v => (v, none) | .pair v u => (v, u) := by
  cases a <;> rfl

/-- the accumulated factor of a unit change: one factor `scale(new)/scale(old)` per unit pair -/
def factor : List (String × String) → Option Rat
  | [] => some 1
  | (o, n) :: rest =>
    match family o, family n, factor rest with
    | some (fo, so), some (fn, sn), some f => if fo = fn then some (scaleOf sn / scaleOf so * f) else none
    | _, _, _ => none

theorem foldlM_convert (ps : List (String × String)) (c : Rat) (f : Rat) (h : factor ps = some f) :
    ps.foldlM (fun c (io : String × String) => convert c io.2 io.1) c = .ok (c * f) := by
  induction ps generalizing c f with
  | nil => simp [factor] at h; subst h; simp [List.foldlM, pure, Except.pure]
  | cons p ps ih =>
    obtain ⟨o, n⟩ := p
    simp only [factor] at h
    cases ho : family o with
    | none => simp [ho] at h
    | some po =>
      obtain ⟨fo, so⟩ := po
      cases hn : family n with
      | none => simp [ho, hn] at h
      | some pn =>
        obtain ⟨fn, sn⟩ := pn
        cases hf : factor ps with
        | none => simp [ho, hn, hf] at h
        | some f' =>
          simp only [ho, hn, hf] at h
          by_cases hfo : fo = fn
          · subst hfo
            simp at h; subst h
            have hstep : convert c n o = .ok (c * scaleOf sn / scaleOf so) := by
              rw [convert_def]; simp [hn, ho]
            simp only [List.foldlM_cons, hstep, bind, Except.bind]
            rw [ih _ f' hf]
            congr 1
            have := family_scale_ne_zero o fo so ho
            field_simp
          · simp [hfo] at h

/-- `rateformat` multiplies the constant by one factor per reactant-concentration / time unit, so the
    physical rate (constant divided by the product of the unit scales) is unchanged -/
theorem rateformat_physical (c : Rat) (old new : List String) (n : Nat) (f : Rat)
    (ho : old.length = n) (hn : new.length = n) (hf : factor (old.zip new) = some f) :
    rateformat c old new n = .ok (c * f) := by
  unfold rateformat
  simp [ho, hn]
  exact foldlM_convert _ _ _ hf

theorem factor_swap (ps : List (String × String)) (f : Rat) (h : factor ps = some f) :
    ∃ g, factor (ps.map (fun p => (p.2, p.1))) = some g ∧ f * g = 1 := by
  induction ps generalizing f with
  | nil => simp [factor] at h ⊢; exact h.symm ▸ rfl
  | cons p ps ih =>
    obtain ⟨o, n⟩ := p
    simp only [factor] at h
    cases ho : family o with
    | none => simp [ho] at h
    | some po =>
      obtain ⟨fo, so⟩ := po
      cases hn : family n with
      | none => simp [ho, hn] at h
      | some pn =>
        obtain ⟨fn, sn⟩ := pn
        cases hf : factor ps with
        | none => simp [ho, hn, hf] at h
        | some f' =>
          simp only [ho, hn, hf] at h
          by_cases hfo : fo = fn
          · subst hfo
            simp at h; subst h
            obtain ⟨g', hg', hfg⟩ := ih f' hf
            refine ⟨scaleOf so / scaleOf sn * g', ?_, ?_⟩
            · simp [factor, ho, hn, hg']
            · have h1 := family_scale_ne_zero o fo so ho
              have h2 := family_scale_ne_zero n fo sn hn
              have : scaleOf sn / scaleOf so * f' * (scaleOf so / scaleOf sn * g') = f' * g' := by
                field_simp
              rw [this, hfg]
          · simp [hfo] at h

/-- re-expressing and re-expressing back returns the original constant -/
theorem rateformat_roundtrip (c c' : Rat) (old new : List String) (n : Nat) (f : Rat)
    (ho : old.length = n) (hn : new.length = n) (hf : factor (old.zip new) = some f)
    (h : rateformat c old new n = .ok c') : rateformat c' new old n = .ok c := by
  rw [rateformat_physical c old new n f ho hn hf] at h
  injection h with h; subst h
  obtain ⟨g, hg, hfg⟩ := factor_swap _ f hf
  have hz : ∀ (a b : List String), (a.zip b).map (fun p => (p.2, p.1)) = b.zip a := by
    intro a
    induction a with
    | nil => intro b; cases b <;> simp
    | cons x xs ih => intro b; cases b with
      | nil => simp
      | cons y ys => simp [ih ys]
  have hz := hz old new
  rw [hz] at hg
  rw [rateformat_physical (c * f) new old n g hn ho hg]
  congr 1
  rw [mul_assoc, hfg, mul_one]

theorem concentrationformat_physical (v : Rat) (u out : String) :
    concentrationformat v u out = convert v u out := rfl

/-- non-vacuity: 5 /M/s is 5·10⁻⁹ /nM/s -/
example : rateformat 5 ["M", "s"] ["nM", "s"] 2 = .ok (5 / 1000000000) := by
  rw [rateformat_physical 5 ["M", "s"] ["nM", "s"] 2 (1 / 1000000000) rfl rfl (by decide +kernel)]
  norm_num

end Dsd.Units
