import DsdVerif.Props.C13More
import DsdVerif.Lemmas.PilStmts
import DsdVerif.Lemmas.PilDoc

namespace Dsd.C13
open Dsd Dsd.PP Dsd.Gen
open Dsd.Pil (StmtText LineEnd Tail eolG)

/-! C13, "parsing a document equals concatenating the parses of its statements in order", for documents of any
number of statements of any kinds.  `Pil.StmtText s t` (Lemmas/PilDoc.lean): `s` is the text of one statement without
the line end that closes it — it starts with a character that is neither blank, `#` nor a line feed, contains no tab,
and `pil_stmt` parses it to exactly `[t]` in front of ANY continuation that is empty or begins with a line end.  In the
PIL grammar every statement alternative ends with `OneOrMore(Suppress(LineEnd))`: the line end and the blank lines
after a statement are consumed by that statement. -/

/-- a statement text, its tree, and the number of blank lines that follow its line end -/
abbrev Stmt := List Char × Tree × Nat

/-- the text of the statements: each one, its line end, and its blank lines -/
def stmtsText (stmts : List Stmt) : List Char := stmts.flatMap (fun x => x.1 ++ '\n' :: List.replicate x.2.2 '\n')

theorem stmtsText_eq (stmts : List Stmt) : stmtsText stmts = Pil.itemsText stmts := rfl

/-- **documents parse as the concatenation of their statements**: any number `≥ 1` of statements of any kinds, each
    followed by its line end and any number of blank lines -/
theorem document_rt (stmts : List Stmt) (hne : stmts ≠ []) (h : ∀ x ∈ stmts, StmtText x.1 x.2.1) :
    parseDoc pil_env pil_grammar
      (String.ofList (stmts.flatMap (fun x => x.1 ++ '\n' :: List.replicate x.2.2 '\n'))) =
    some (stmts.map (fun x => x.2.1)) :=
  Pil.document_parse 0 stmts hne h

/-- … after any number of leading blank lines -/
theorem document_leading_rt (k0 : Nat) (stmts : List Stmt) (hne : stmts ≠ []) (h : ∀ x ∈ stmts, StmtText x.1 x.2.1) :
    parseDoc pil_env pil_grammar (String.ofList (List.replicate k0 '\n' ++ stmtsText stmts)) =
    some (stmts.map (fun x => x.2.1)) :=
  Pil.document_parse k0 stmts hne h

/-- … and with a last statement whose line end is missing (the end of the input closes it) -/
theorem document_open_rt (k0 : Nat) (stmts : List Stmt) (h : ∀ x ∈ stmts, StmtText x.1 x.2.1)
    (s : List Char) (t : Tree) (hs : StmtText s t) :
    parseDoc pil_env pil_grammar (String.ofList (List.replicate k0 '\n' ++ (stmtsText stmts ++ s))) =
    some (stmts.map (fun x => x.2.1) ++ [t]) :=
  Pil.document_parse_open k0 stmts h s t hs

/-! ### every statement kind is a `StmtText` -/

/-- introduction rule: `f X` is the normalised form of `s ++ X`; tabs and length are checked on `f []` -/
theorem stmtText_of (s : List Char) (t : Tree) (N : Nat) (c : Char) (f : List Char → List Char)
    (hf : ∀ X, s ++ X = f X) (hhead : (f []).head? = some c) (hc : Pil.StartCh c) (hnt : '\t' ∉ f [])
    (hN : N ≤ 4 * (f []).length + 100)
    (hok : ∀ (X : List Char) (NE : Nat) (p : Pos), LineEnd X →
      Ok pil_env NE {} eolG { rest := X, past := false } (p, []) →
      Ok pil_env (max N (NE + 30)) {} pil_stmt { rest := f X, past := false } (p, [t])) : StmtText s t := by
  have hs : s = f [] := by rw [← hf [], List.append_nil]
  exact StmtText.of s t N c f (hs ▸ hhead) hc (hs ▸ hnt) (hs ▸ hN) hf hok

theorem startCh_ident (c : Char) (h : c ∈ Pil.identChars) : Pil.StartCh c :=
  ⟨(Pil.ident_facts c h).1, (Pil.ident_facts c h).2.1, (Pil.ident_facts c h).2.2.2.2.2.1⟩

theorem notab_cons (c : Char) (m : List Char) (hc : c ∈ Pil.identChars) (hm : ∀ x ∈ m, x ∈ Pil.identChars) :
    '\t' ∉ c :: m :=
  Pil.notab_ident (c :: m) (by intro x hx; rcases List.mem_cons.mp hx with rfl | h; exact hc; exact hm x h)

theorem notab_cons_nums (c : Char) (m : List Char) (hc : c ∈ pp_nums) (hm : ∀ x ∈ m, x ∈ pp_nums) :
    '\t' ∉ c :: m :=
  Pil.notab_of_nums (c :: m) (by intro x hx; rcases List.mem_cons.mp hx with rfl | h; exact hc; exact hm x h)

theorem notab_cons_alphas (c : Char) (m : List Char) (hc : c ∈ pp_alphas) (hm : ∀ x ∈ m, x ∈ pp_alphas) :
    '\t' ∉ c :: m :=
  Pil.notab_of_alphas (c :: m) (by intro x hx; rcases List.mem_cons.mp hx with rfl | h; exact hc; exact hm x h)

theorem notab_blanks_tail (e : Nat) : '\t' ∉ List.replicate e ' ' ++ ([] : List Char) := by
  simp only [List.append_nil]; exact Pil.notab_replicate e

/-- **domain-length statements** -/
theorem stmtText_dl_domain (kw : List Char) (hkw : kw = "length".toList ∨ kw = "domain".toList ∨ kw = "sequence".toList)
    (name d : List Char) (st : Bool) (sign : Char) (hs : sign = '=' ∨ sign = ':')
    (hn : Ident name) (hd : Digits d) (a b c e : Nat) :
    StmtText (kw ++ blanks (a + 1) ++ name ++ star st ++ blanks b ++ [sign] ++ blanks c ++ d ++ blanks e)
      (.grp [.tok "dl-domain", .tok (String.ofList (name ++ star st)), .tok (String.ofList d)]) := by
  obtain ⟨nc, m, rfl, hnc, hm⟩ := Pil.cons_of_class name _ hn
  obtain ⟨dc, dm, rfl, hdc, hdm⟩ := Pil.cons_of_class d _ hd
  have k1 : "length".toList = ['l', 'e', 'n', 'g', 't', 'h'] := by rfl
  have k2 : "domain".toList = ['d', 'o', 'm', 'a', 'i', 'n'] := by rfl
  have k3 : "sequence".toList = ['s', 'e', 'q', 'u', 'e', 'n', 'c', 'e'] := by rfl
  rw [k1, k2, k3] at hkw
  obtain ⟨kc, ks, hkcs, h1, h2, h3⟩ := Pil.Kw.head hkw
  have hkt : '\t' ∉ kw := by rcases hkw with e | e | e <;> rw [e] <;> decide
  refine stmtText_of _ _ 0 kc
    (fun X => kw ++ Pil.dlText (a + 1) nc m st b sign c (dc :: dm) (List.replicate e ' ' ++ X))
    (by intro X; simp [blanks, Pil.dlText, star, Pil.star, List.append_assoc])
    (by rw [hkcs]; rfl) ⟨h1, h2, h3⟩ ?_ (Nat.zero_le _) ?_
  · have := Pil.notab_dlText (a + 1) nc m st b sign hs c (dc :: dm) (List.replicate e ' ' ++ []) hnc hm
      (notab_cons_nums dc dm hdc hdm) (notab_blanks_tail e)
    simp only [List.mem_append, not_or]
    exact ⟨hkt, this⟩
  · intro X NE p hX heol
    have hT := hX.tail.blanks e
    have hlen := (Pil.Ok_dlength_num pil_env c dc dm _ hdc hdm hT.outId).mono (N' := 5) (by decide)
    have hsl : No pil_env 14 {} pil_sl_domain
        { rest := kw ++ Pil.dlText (a + 1) nc m st b sign c (dc :: dm) (List.replicate e ' ' ++ X), past := false } := by
      rcases hkw with h | h | h
      · exact (Pil.No_sl_kw pil_env kw _ (Or.inl h)).mono (by decide)
      · exact (Pil.No_sl_kw pil_env kw _ (Or.inr h)).mono (by decide)
      · rw [h]; exact Pil.No_sl_digits pil_env (a + 1) (Nat.succ_pos a) nc m st b sign hs c dc dm _ hnc hm hdc
    have := Pil.dl_stmt_tail kw hkw (a + 1) (Nat.succ_pos a) nc m st b sign hs c (dc :: dm) _ NE p hnc hm hlen hsl
      (Pil.Ok_eol_blanks e heol)
    simp only [star]
    exact this.mono (by omega)

/-- `short` / `long` as the length (keywords `length` and `domain`) -/
theorem stmtText_dl_domain_dtype (kw : List Char) (hkw : kw = "length".toList ∨ kw = "domain".toList)
    (name : List Char) (st : Bool) (dt : List Char) (hdt : dt = "short".toList ∨ dt = "long".toList)
    (sign : Char) (hs : sign = '=' ∨ sign = ':') (hn : Ident name) (a b c e : Nat) :
    StmtText (kw ++ blanks (a + 1) ++ name ++ star st ++ blanks b ++ [sign] ++ blanks c ++ dt ++ blanks e)
      (.grp [.tok "dl-domain", .tok (String.ofList (name ++ star st)), .tok (String.ofList dt)]) := by
  obtain ⟨nc, m, rfl, hnc, hm⟩ := Pil.cons_of_class name _ hn
  have k1 : "length".toList = ['l', 'e', 'n', 'g', 't', 'h'] := by rfl
  have k2 : "domain".toList = ['d', 'o', 'm', 'a', 'i', 'n'] := by rfl
  have k4 : "short".toList = ['s', 'h', 'o', 'r', 't'] := by rfl
  have k5 : "long".toList = ['l', 'o', 'n', 'g'] := by rfl
  rw [k1, k2] at hkw
  rw [k4, k5] at hdt
  have hkw' : Pil.Kw kw := by rcases hkw with h | h; exact Or.inl h; exact Or.inr (Or.inl h)
  obtain ⟨kc, ks, hkcs, h1, h2, h3⟩ := Pil.Kw.head hkw'
  have hkt : '\t' ∉ kw := by rcases hkw with e | e <;> rw [e] <;> decide
  have hdtt : '\t' ∉ dt := by rcases hdt with e | e <;> rw [e] <;> decide
  refine stmtText_of _ _ 0 kc
    (fun X => kw ++ Pil.dlText (a + 1) nc m st b sign c dt (List.replicate e ' ' ++ X))
    (by intro X; simp [blanks, Pil.dlText, star, Pil.star, List.append_assoc])
    (by rw [hkcs]; rfl) ⟨h1, h2, h3⟩ ?_ (Nat.zero_le _) ?_
  · have := Pil.notab_dlText (a + 1) nc m st b sign hs c dt (List.replicate e ' ' ++ []) hnc hm hdtt
      (notab_blanks_tail e)
    simp only [List.mem_append, not_or]
    exact ⟨hkt, this⟩
  · intro X NE p hX heol
    have hsl := (Pil.No_sl_kw pil_env kw
      (Pil.dlText (a + 1) nc m st b sign c dt (List.replicate e ' ' ++ X)) hkw).mono (N' := 14) (by decide)
    have hlen : Ok pil_env 5 {} pil_dlength
        { rest := List.replicate c ' ' ++ (dt ++ (List.replicate e ' ' ++ X)), past := false }
        ({ rest := List.replicate e ' ' ++ X, past := false }, [.tok (String.ofList dt)]) := by
      rcases hdt with rfl | rfl
      · exact (Pil.Ok_dlength_short pil_env c _).mono (by decide)
      · exact Pil.Ok_dlength_long pil_env c _
    have := Pil.dl_stmt_tail kw hkw' (a + 1) (Nat.succ_pos a) nc m st b sign hs c dt _ NE p hnc hm hlen hsl
      (Pil.Ok_eol_blanks e heol)
    simp only [star]
    exact this.mono (by omega)

/-- **sequence-constraint statements**, with and without the explicit length -/
theorem stmtText_sl_domain (name con : List Char) (st : Bool) (sign : Char) (hs : sign = '=' ∨ sign = ':')
    (hn : Ident name) (hc : Letters con) (a b c e : Nat) :
    StmtText ("sequence".toList ++ blanks (a + 1) ++ name ++ star st ++ blanks b ++ [sign] ++ blanks c ++ con ++ blanks e)
      (.grp [.tok "sl-domain", .tok (String.ofList (name ++ star st)), .tok (String.ofList con)]) := by
  obtain ⟨nc, m, rfl, hnc, hm⟩ := Pil.cons_of_class name _ hn
  obtain ⟨kc, km, rfl, hkc, hkm⟩ := Pil.cons_of_class con _ hc
  have k3 : "sequence".toList = ['s', 'e', 'q', 'u', 'e', 'n', 'c', 'e'] := by rfl
  refine stmtText_of _ _ 0 's'
    (fun X => ['s', 'e', 'q', 'u', 'e', 'n', 'c', 'e'] ++
      Pil.dlText (a + 1) nc m st b sign c (kc :: km) (List.replicate e ' ' ++ X))
    (by intro X; rw [k3]; simp [blanks, Pil.dlText, star, Pil.star, List.append_assoc])
    rfl ⟨by decide, by decide, by decide⟩ ?_ (Nat.zero_le _) ?_
  · have := Pil.notab_dlText (a + 1) nc m st b sign hs c (kc :: km) (List.replicate e ' ' ++ []) hnc hm
      (notab_cons_alphas kc km hkc hkm) (notab_blanks_tail e)
    simp only [List.mem_append, not_or]
    exact ⟨by decide, this⟩
  · intro X NE p hX heol
    have := Pil.sl_stmt_tail (a + 1) (Nat.succ_pos a) nc m st b sign hs c kc km _ NE p hnc hm hkc hkm
      (hX.tail.blanks e) (Pil.Ok_eol_blanks e heol)
    simp only [star]
    exact this.mono (by omega)

theorem stmtText_sl_domain_len (name con d : List Char) (st : Bool) (s1 s2 : Char) (hs1 : s1 = '=' ∨ s1 = ':')
    (hs2 : s2 = '=' ∨ s2 = ':') (hn : Ident name) (hc : Letters con) (hd : Digits d) (a b c e f g : Nat) :
    StmtText ("sequence".toList ++ blanks (a + 1) ++ name ++ star st ++ blanks b ++ [s1] ++ blanks c ++ con ++ blanks e ++
        [s2] ++ blanks f ++ d ++ blanks g)
      (.grp [.tok "sl-domain", .tok (String.ofList (name ++ star st)), .tok (String.ofList con), .tok (String.ofList d)]) := by
  obtain ⟨nc, m, rfl, hnc, hm⟩ := Pil.cons_of_class name _ hn
  obtain ⟨kc, km, rfl, hkc, hkm⟩ := Pil.cons_of_class con _ hc
  obtain ⟨dc, dm, rfl, hdc, hdm⟩ := Pil.cons_of_class d _ hd
  have k3 : "sequence".toList = ['s', 'e', 'q', 'u', 'e', 'n', 'c', 'e'] := by rfl
  refine stmtText_of _ _ 0 's'
    (fun X => ['s', 'e', 'q', 'u', 'e', 'n', 'c', 'e'] ++ Pil.dlText (a + 1) nc m st b s1 c (kc :: km)
        (Pil.slTail e s2 f dc dm (List.replicate g ' ' ++ X)))
    (by intro X; rw [k3]; simp [blanks, Pil.dlText, Pil.slTail, star, Pil.star, List.append_assoc])
    rfl ⟨by decide, by decide, by decide⟩ ?_ (Nat.zero_le _) ?_
  · have hs2' : '\t' ≠ s2 := by rcases hs2 with rfl | rfl <;> decide
    have hd' := notab_cons_nums dc dm hdc hdm
    have := Pil.notab_dlText (a + 1) nc m st b s1 hs1 c (kc :: km)
      (Pil.slTail e s2 f dc dm (List.replicate g ' ' ++ [])) hnc hm (notab_cons_alphas kc km hkc hkm) (by
        unfold Pil.slTail
        simp only [List.mem_append, List.mem_cons, not_or]
        simp only [List.mem_cons, not_or] at hd'
        exact ⟨Pil.notab_replicate e, hs2', Pil.notab_replicate f, ⟨hd'.1, hd'.2⟩, Pil.notab_replicate g,
          List.not_mem_nil⟩)
    simp only [List.mem_append, not_or]
    exact ⟨by decide, this⟩
  · intro X NE p hX heol
    have := Pil.sl_len_stmt_tail (a + 1) (Nat.succ_pos a) nc m st b s1 hs1 c kc km e s2 hs2 f dc dm _ NE p hnc hm
      hkc hkm hdc hdm (hX.tail.blanks g) (Pil.Ok_eol_blanks g heol)
    simp only [star]
    exact this.mono (by omega)

theorem commaSep_eq (d : List Char) (ds : List (List Char)) : commaSep (d :: ds) = d ++ Pil.csMems ds := by
  induction ds generalizing d with
  | nil => simp [commaSep, Pil.csMems]
  | cons x xs ih =>
    show d ++ [',', ' '] ++ commaSep (x :: xs) = _
    rw [ih x, Pil.csMems_cons]; simp

/-- **strand / sup-sequence statements** with any number of domains -/
theorem stmtText_comp_domain (kw : List Char) (hkw : kw = "strand".toList ∨ kw = "sup-sequence".toList)
    (name : List Char) (doms : List (List Char)) (sign : Char) (hs : sign = '=' ∨ sign = ':')
    (hn : Ident name) (hd : doms ≠ [] ∧ ∀ d ∈ doms, DomName d) (a b c e : Nat) :
    StmtText (kw ++ blanks (a + 1) ++ name ++ blanks b ++ [sign] ++ blanks c ++ spaced doms ++ blanks e)
      (.grp [.tok "composite-domain", tokOf name, .grp (doms.map tokOf)]) := by
  obtain ⟨nc, m, rfl, hnc, hm⟩ := Pil.cons_of_class name _ hn
  obtain ⟨hd1, hd2⟩ := hd
  cases doms with
  | nil => exact absurd rfl hd1
  | cons d ds =>
    have hdd := domName_isDom d (hd2 d (by simp))
    have hds : ∀ x ∈ ds, Pil.IsDom x := fun x hx => domName_isDom x (hd2 x (List.mem_cons_of_mem _ hx))
    have k1 : "strand".toList = ['s', 't', 'r', 'a', 'n', 'd'] := by rfl
    have k2 : "sup-sequence".toList = ['s', 'u', 'p', '-', 's', 'e', 'q', 'u', 'e', 'n', 'c', 'e'] := by rfl
    rw [k1, k2] at hkw
    have hkt : '\t' ∉ kw := by rcases hkw with e | e <;> rw [e] <;> decide
    have hkh : kw.head? = some 's' := by rcases hkw with e | e <;> rw [e] <;> rfl
    refine stmtText_of _ _ (ds.length + 30) 's'
      (fun X => kw ++ Pil.compTextX (a + 1) nc m b sign c d ds (List.replicate e ' ' ++ X))
      (by intro X; rw [spaced_eq]; simp [blanks, Pil.compTextX, List.append_assoc])
      (by rcases hkw with e | e <;> rw [e] <;> rfl) ⟨by decide, by decide, by decide⟩ ?_ ?_ ?_
    · have h1 := notab_cons nc m hnc hm
      have hsg : '\t' ≠ sign := by rcases hs with rfl | rfl <;> decide
      unfold Pil.compTextX
      simp only [List.mem_append, List.mem_cons, not_or]
      simp only [List.mem_cons, not_or] at h1
      exact ⟨hkt, Pil.notab_replicate _, ⟨h1.1, h1.2⟩, Pil.notab_replicate b, hsg, Pil.notab_replicate c,
        Pil.notab_dom d hdd, Pil.notab_spDoms ds hds, Pil.notab_replicate e, List.not_mem_nil⟩
    · have := Pil.spDoms_length ds
      unfold Pil.compTextX
      simp only [List.length_append, List.length_cons]
      omega
    · intro X NE p hX heol
      have := Pil.comp_stmt_tail kw hkw (a + 1) (Nat.succ_pos a) nc m b sign hs c d ds _ NE p hnc hm hdd hds
        (hX.tail.blanks e) (Pil.Ok_eol_blanks e heol)
      exact this

/-- **resting macrostates** with any number of members -/
theorem stmtText_resting (kw : List Char) (hkw : kw = "state".toList ∨ kw = "macrostate".toList)
    (name : List Char) (mem : List (List Char)) (hn : Ident name) (hm : mem ≠ [] ∧ ∀ m ∈ mem, Ident m) (a b c e : Nat) :
    StmtText (kw ++ blanks (a + 1) ++ name ++ blanks b ++ ['='] ++ blanks c ++ ['['] ++ commaSep mem ++ [']'] ++ blanks e)
      (.grp [.tok "resting-macrostate", tokOf name, .grp (mem.map tokOf)]) := by
  obtain ⟨nc, m, rfl, hnc, hm'⟩ := Pil.cons_of_class name _ hn
  obtain ⟨hm1, hm2⟩ := hm
  cases mem with
  | nil => exact absurd rfl hm1
  | cons d ds =>
    obtain ⟨mc, mm, rfl, hmc, hmm⟩ := Pil.cons_of_class d _ (hm2 d (by simp))
    have hms : ∀ x ∈ ds, Pil.IsId x := fun x hx => ident_isId x (hm2 x (List.mem_cons_of_mem _ hx))
    have k1 : "state".toList = ['s', 't', 'a', 't', 'e'] := by rfl
    have k2 : "macrostate".toList = ['m', 'a', 'c', 'r', 'o', 's', 't', 'a', 't', 'e'] := by rfl
    rw [k1, k2] at hkw
    have hkt : '\t' ∉ kw := by rcases hkw with e | e <;> rw [e] <;> decide
    obtain ⟨kc, hkh, hkc⟩ : ∃ kc, kw.head? = some kc ∧ Pil.StartCh kc := by
      rcases hkw with e | e <;> rw [e]
      · exact ⟨'s', rfl, by decide, by decide, by decide⟩
      · exact ⟨'m', rfl, by decide, by decide, by decide⟩
    refine stmtText_of _ _ (ds.length + 40) kc
      (fun X => kw ++ Pil.restTextX (a + 1) nc m b c mc mm ds (List.replicate e ' ' ++ X))
      (by intro X; rw [commaSep_eq]; simp [blanks, Pil.restTextX, List.append_assoc])
      (by rcases hkw with e | e <;> rw [e] at hkh ⊢ <;> exact hkh) hkc ?_ ?_ ?_
    · have h1 := notab_cons nc m hnc hm'
      have h2 := notab_cons mc mm hmc hmm
      unfold Pil.restTextX
      simp only [List.mem_append, List.mem_cons, not_or]
      simp only [List.mem_cons, not_or] at h1 h2
      exact ⟨hkt, Pil.notab_replicate _, ⟨h1.1, h1.2⟩, Pil.notab_replicate b, by decide, Pil.notab_replicate c,
        by decide, ⟨h2.1, h2.2⟩, Pil.notab_csMems ds hms, by decide, Pil.notab_replicate e, List.not_mem_nil⟩
    · have := Pil.csMems_length ds
      unfold Pil.restTextX
      simp only [List.length_append, List.length_cons]
      omega
    · intro X NE p hX heol
      exact Pil.rest_stmt_tail kw hkw a nc m b c mc mm ds _ NE p hnc hm' hmc hmm hms (Pil.Ok_eol_blanks e heol)

/-- **kernel-notation complexes** (every identifier `name`, patterns of any nesting depth) -/
theorem stmtText_kernel (name : List Char) (seq : List String) (sst : List Char) (toks : List Tree)
    (hn : Ident name) (hl : LegalNames seq sst) (hne : sst ≠ []) (ht : kernelTokens seq sst = some toks) :
    StmtText (name ++ " = ".toList ++ (kernelString seq sst).toList)
      (.grp [.tok "kernel-complex", tokOf name, .grp toks]) := by
  obtain ⟨nc, m, rfl, hnc, hm, hL, hleg, hp, _⟩ := kernel_prep name seq sst toks hn hl hne ht []
  have htext : ∀ X, nc :: m ++ " = ".toList ++ (kernelString seq sst).toList ++ X =
      Pil.kernelText nc m (seq.zip sst) X := by
    intro X
    obtain ⟨nc', m', e1, _, _, _, _, _, e2⟩ := kernel_prep (nc :: m) seq sst toks hn hl hne ht X
    simp only [List.cons.injEq] at e1
    rw [e2, e1.1, e1.2]
  obtain ⟨f1, f2⟩ := Pil.kernelText_facts nc m (seq.zip sst) [] hnc hm hleg (by simp)
  refine stmtText_of _ _ (8 * (seq.zip sst).length + 70) nc (fun X => Pil.kernelText nc m (seq.zip sst) X)
    htext rfl (startCh_ident nc hnc) f2 (by omega) ?_
  intro X NE p hX heol
  exact Pil.kernel_stmt_tail nc m _ toks X NE p hnc hm hL hleg hp hX.tail heol

/-- **kernel complexes with a concentration** -/
theorem stmtText_kernel_conc (name : List Char) (seq : List String) (sst : List Char) (toks : List Tree)
    (mode value unit : List Char)
    (hn : Ident name) (hl : LegalNames seq sst) (hne : sst ≠ []) (ht : kernelTokens seq sst = some toks)
    (hm : mode = "initial".toList ∨ mode = "i".toList ∨ mode = "constant".toList ∨ mode = "c".toList)
    (hv : Digits value)
    (hu : unit = "M".toList ∨ unit = "mM".toList ∨ unit = "uM".toList ∨ unit = "nM".toList ∨ unit = "pM".toList) :
    StmtText (name ++ " = ".toList ++ (kernelString seq sst).toList ++ " @".toList ++ mode ++ [' '] ++ value ++ [' '] ++ unit)
      (.grp [.tok "kernel-complex", tokOf name, .grp toks, .grp [tokOf mode, tokOf value, tokOf unit]]) := by
  obtain ⟨vc, vm, rfl, hvc, hvm⟩ := Pil.cons_of_class value _ hv
  have hmode : Pil.IsMode mode := by
    have e1 : "initial".toList = ['i', 'n', 'i', 't', 'i', 'a', 'l'] := rfl
    have e2 : "i".toList = ['i'] := rfl
    have e3 : "constant".toList = ['c', 'o', 'n', 's', 't', 'a', 'n', 't'] := rfl
    have e4 : "c".toList = ['c'] := rfl
    rw [e1, e2, e3, e4] at hm
    exact hm
  have hunit : Pil.IsCunit unit := by
    have e1 : "M".toList = ['M'] := rfl
    have e2 : "mM".toList = ['m', 'M'] := rfl
    have e3 : "uM".toList = ['u', 'M'] := rfl
    have e4 : "nM".toList = ['n', 'M'] := rfl
    have e5 : "pM".toList = ['p', 'M'] := rfl
    rw [e1, e2, e3, e4, e5] at hu
    exact hu
  obtain ⟨nc, m, rfl, hnc, hm', hL, hleg, hp, _⟩ := kernel_prep name seq sst toks hn hl hne ht []
  have htext : ∀ X, nc :: m ++ " = ".toList ++ (kernelString seq sst).toList ++ X =
      Pil.kernelText nc m (seq.zip sst) X := by
    intro X
    obtain ⟨nc', m', e1, _, _, _, _, _, e2⟩ := kernel_prep (nc :: m) seq sst toks hn hl hne ht X
    simp only [List.cons.injEq] at e1
    rw [e2, e1.1, e1.2]
  have k : " @".toList = [' ', '@'] := rfl
  have hXt : '\t' ∉ Pil.concTextX mode vc vm unit [] := by
    have n1 : '\t' ∉ mode := by rcases hmode with rfl | rfl | rfl | rfl <;> decide
    have n2 := notab_cons_nums vc vm hvc hvm
    have n3 : '\t' ∉ unit := by rcases hunit with rfl | rfl | rfl | rfl | rfl <;> decide
    unfold Pil.concTextX
    simp only [List.mem_cons, List.mem_append, not_or]
    simp only [List.mem_cons, not_or] at n2
    exact ⟨by decide, by decide, n1, by decide, ⟨n2.1, n2.2⟩, by decide, n3, List.not_mem_nil⟩
  obtain ⟨f1, f2⟩ := Pil.kernelText_facts nc m (seq.zip sst) (Pil.concTextX mode vc vm unit []) hnc hm' hleg hXt
  refine stmtText_of _ _ (8 * (seq.zip sst).length + 70) nc
    (fun X => Pil.kernelText nc m (seq.zip sst) (Pil.concTextX mode vc vm unit X))
    (by
      intro X
      rw [← htext]
      rw [k]; simp [Pil.concTextX, List.append_assoc])
    rfl (startCh_ident nc hnc) f2 (by omega) ?_
  intro X NE p hX heol
  exact Pil.kernel_conc_stmt_tail nc m _ toks mode vc vm unit X NE p hnc hm' hL hleg hp hmode hvc hvm hunit heol

/-- **strand-notation complexes, `complex` form** (a statement of three lines) -/
theorem stmtText_complex (name : List Char) (strands : List (List Char)) (db : List Char) (sign : Char)
    (hs : sign = '=' ∨ sign = ':')
    (hn : Ident name) (hst : strands ≠ [] ∧ ∀ s ∈ strands, DomName s) (hdb : DotBracket db) (a b : Nat) :
    StmtText ("complex".toList ++ blanks (a + 1) ++ name ++ blanks b ++ [sign] ++ ['\n'] ++ spaced strands ++ ['\n'] ++ db)
      (.grp [.tok "strand-complex", tokOf name, .grp (strands.map tokOf), tokOf db]) := by
  obtain ⟨nc, m, rfl, hnc, hm⟩ := Pil.cons_of_class name _ hn
  obtain ⟨dbc, dbm, rfl, hdbc, hdbm⟩ := dotBracket_core db hdb
  obtain ⟨hst1, hst2⟩ := hst
  cases strands with
  | nil => exact absurd rfl hst1
  | cons d ds =>
    have hdd := domName_isDom d (hst2 d (by simp))
    have hds : ∀ x ∈ ds, Pil.IsDom x := fun x hx => domName_isDom x (hst2 x (List.mem_cons_of_mem _ hx))
    have k : "complex".toList = ['c', 'o', 'm', 'p', 'l', 'e', 'x'] := rfl
    refine stmtText_of _ _ (ds.length + 40) 'c'
      (fun X => 'c' :: (['o', 'm', 'p', 'l', 'e', 'x'] ++ Pil.complexTextX (a + 1) nc m b sign d ds dbc dbm X))
      (by intro X; rw [k, spaced_eq]; simp [blanks, Pil.complexTextX, List.append_assoc])
      rfl ⟨by decide, by decide, by decide⟩ ?_ ?_ ?_
    · have h1 := notab_cons nc m hnc hm
      have h2 := Pil.notab_db dbc dbm hdbc hdbm
      have hsg : '\t' ≠ sign := by rcases hs with rfl | rfl <;> decide
      unfold Pil.complexTextX
      simp only [List.mem_append, List.mem_cons, not_or]
      simp only [List.mem_cons, not_or] at h1 h2
      exact ⟨by decide, ⟨by decide, by decide, by decide, by decide, by decide, by decide, List.not_mem_nil⟩,
        Pil.notab_replicate _, ⟨h1.1, h1.2⟩, Pil.notab_replicate b, hsg, by decide, Pil.notab_dom d hdd,
        Pil.notab_spDoms ds hds, by decide, ⟨h2.1, h2.2⟩, List.not_mem_nil⟩
    · have := Pil.spDoms_length ds
      unfold Pil.complexTextX
      simp only [List.length_append, List.length_cons]
      omega
    · intro X NE p hX heol
      exact Pil.complex_stmt_tail (a + 1) (Nat.succ_pos a) nc m b sign hs d ds dbc dbm X NE p hnc hm hdd hds
        hdbc hdbm hX.outDb heol

/-- **strand-notation complexes, `structure` form** -/
theorem stmtText_structure (name : List Char) (strands : List (List Char)) (db : List Char) (s1 s2 : Char)
    (hs1 : s1 = '=' ∨ s1 = ':') (hs2 : s2 = '=' ∨ s2 = ':')
    (hn : Ident name) (hst : strands ≠ [] ∧ ∀ s ∈ strands, DomName s) (hdb : DotBracket db) (a : Nat) :
    StmtText ("structure".toList ++ blanks (a + 1) ++ name ++ [' ', s1, ' '] ++ plusSep strands ++ [' ', s2, ' '] ++ db)
      (.grp [.tok "strand-complex", tokOf name, .grp (strands.map tokOf), tokOf db]) := by
  obtain ⟨nc, m, rfl, hnc, hm⟩ := Pil.cons_of_class name _ hn
  obtain ⟨dbc, dbm, rfl, hdbc, hdbm⟩ := dotBracket_core db hdb
  obtain ⟨hst1, hst2⟩ := hst
  cases strands with
  | nil => exact absurd rfl hst1
  | cons d ds =>
    have hdd := domName_isDom d (hst2 d (by simp))
    have hds : ∀ x ∈ ds, Pil.IsDom x := fun x hx => domName_isDom x (hst2 x (List.mem_cons_of_mem _ hx))
    have k : "structure".toList = ['s', 't', 'r', 'u', 'c', 't', 'u', 'r', 'e'] := rfl
    refine stmtText_of _ _ (2 * ds.length + 40) 's'
      (fun X => 's' :: (['t', 'r', 'u', 'c', 't', 'u', 'r', 'e'] ++ Pil.structTextX (a + 1) nc m s1 d ds s2 dbc dbm X))
      (by intro X; rw [k, plusSep_eq]; simp [blanks, Pil.structTextX, List.append_assoc])
      rfl ⟨by decide, by decide, by decide⟩ ?_ ?_ ?_
    · have h1 := notab_cons nc m hnc hm
      have h2 := Pil.notab_db dbc dbm hdbc hdbm
      have hsg1 : '\t' ≠ s1 := by rcases hs1 with rfl | rfl <;> decide
      have hsg2 : '\t' ≠ s2 := by rcases hs2 with rfl | rfl <;> decide
      unfold Pil.structTextX
      simp only [List.mem_append, List.mem_cons, not_or]
      simp only [List.mem_cons, not_or] at h1 h2
      exact ⟨by decide, ⟨by decide, by decide, by decide, by decide, by decide, by decide, by decide, by decide,
          List.not_mem_nil⟩,
        Pil.notab_replicate _, ⟨h1.1, h1.2⟩, by decide, hsg1, by decide, Pil.notab_dom d hdd,
        Pil.notab_psList ds (fun x hx => Pil.notab_dom x (hds x hx)), by decide, hsg2, by decide, ⟨h2.1, h2.2⟩,
        List.not_mem_nil⟩
    · have := Pil.psList_length ds
      unfold Pil.structTextX
      simp only [List.length_append, List.length_cons]
      omega
    · intro X NE p hX heol
      exact Pil.struct_stmt_tail (a + 1) (Nat.succ_pos a) nc m s1 s2 hs1 hs2 d ds dbc dbm X NE p hnc hm hdd hds
        hdbc hdbm hX.outDb heol

theorem rxTextX_facts (n : Nat) (rc : Char) (rm : List Char) (rs : List (List Char)) (pc : Char) (pm : List Char)
    (ps : List (List Char))
    (hrc : rc ∈ Pil.identChars) (hrm : ∀ x ∈ rm, x ∈ Pil.identChars) (hrs : ∀ x ∈ rs, Pil.IsId x)
    (hpc : pc ∈ Pil.identChars) (hpm : ∀ x ∈ pm, x ∈ Pil.identChars) (hps : ∀ x ∈ ps, Pil.IsId x) :
    rs.length + ps.length ≤ (Pil.rxTextX n rc rm rs pc pm ps []).length ∧ '\t' ∉ Pil.rxTextX n rc rm rs pc pm ps [] := by
  have l1 := Pil.psList_length rs
  have l2 := Pil.psList_length ps
  have nid : ∀ x, Pil.IsId x → '\t' ∉ x := by
    rintro x ⟨c, m, rfl, hc, hm⟩
    exact notab_cons c m hc hm
  have h1 := nid _ ⟨rc, rm, rfl, hrc, hrm⟩
  have h2 := nid _ ⟨pc, pm, rfl, hpc, hpm⟩
  unfold Pil.rxTextX
  constructor
  · simp only [List.length_append, List.length_cons]; omega
  · simp only [List.mem_append, List.mem_cons, not_or]
    simp only [List.mem_cons, not_or] at h1 h2
    exact ⟨Pil.notab_replicate n, ⟨h1.1, h1.2⟩, Pil.notab_psList rs (fun x hx => nid x (hrs x hx)), by decide, by decide,
      by decide, by decide, ⟨h2.1, h2.2⟩, Pil.notab_psList ps (fun x hx => nid x (hps x hx)), List.not_mem_nil⟩

theorem rx_textX_eq (n : Nat) (rc : Char) (rm : List Char) (rs : List (List Char)) (pc : Char) (pm : List Char)
    (ps : List (List Char)) (X : List Char) :
    blanks n ++ plusSep ((rc :: rm) :: rs) ++ " -> ".toList ++ plusSep ((pc :: pm) :: ps) ++ X =
      Pil.rxTextX n rc rm rs pc pm ps X := by
  have k : " -> ".toList = [' ', '-', '>', ' '] := rfl
  rw [plusSep_eq, plusSep_eq, k]
  simp [blanks, Pil.rxTextX, List.append_assoc]

/-- **reactions without an information box** -/
theorem stmtText_reaction_plain (kw : List Char) (hkw : kw = "reaction".toList ∨ kw = "kinetic".toList)
    (rs ps : List (List Char)) (hr : rs ≠ [] ∧ ∀ r ∈ rs, Ident r) (hp : ps ≠ [] ∧ ∀ p ∈ ps, Ident p) (a : Nat) :
    StmtText (kw ++ blanks (a + 1) ++ plusSep rs ++ " -> ".toList ++ plusSep ps)
      (.grp [.tok "reaction", .grp [], .grp (rs.map tokOf), .grp (ps.map tokOf)]) := by
  obtain ⟨hr1, hr2⟩ := hr
  obtain ⟨hp1, hp2⟩ := hp
  cases rs with
  | nil => exact absurd rfl hr1
  | cons r rs =>
    cases ps with
    | nil => exact absurd rfl hp1
    | cons q ps =>
      obtain ⟨rc, rm, rfl, hrc, hrm⟩ := Pil.cons_of_class r _ (hr2 r (by simp))
      obtain ⟨pc, pm, rfl, hpc, hpm⟩ := Pil.cons_of_class q _ (hp2 q (by simp))
      have hrs : ∀ x ∈ rs, Pil.IsId x := fun x hx => ident_isId x (hr2 x (List.mem_cons_of_mem _ hx))
      have hps : ∀ x ∈ ps, Pil.IsId x := fun x hx => ident_isId x (hp2 x (List.mem_cons_of_mem _ hx))
      have k1 : "reaction".toList = ['r', 'e', 'a', 'c', 't', 'i', 'o', 'n'] := rfl
      have k2 : "kinetic".toList = ['k', 'i', 'n', 'e', 't', 'i', 'c'] := rfl
      rw [k1, k2] at hkw
      have hkt : '\t' ∉ kw := by rcases hkw with e | e <;> rw [e] <;> decide
      obtain ⟨kc, hkh, hkc⟩ : ∃ kc, kw.head? = some kc ∧ Pil.StartCh kc := by
        rcases hkw with e | e <;> rw [e]
        · exact ⟨'r', rfl, by decide, by decide, by decide⟩
        · exact ⟨'k', rfl, by decide, by decide, by decide⟩
      obtain ⟨f1, f2⟩ := rxTextX_facts (a + 1) rc rm rs pc pm ps hrc hrm hrs hpc hpm hps
      refine stmtText_of _ _ (max 6 (rs.length + ps.length) + 40) kc
        (fun X => kw ++ Pil.rxTextX (a + 1) rc rm rs pc pm ps X)
        (by intro X; rw [← rx_textX_eq]; simp [List.append_assoc])
        (by rcases hkw with e | e <;> rw [e] at hkh ⊢ <;> exact hkh) hkc ?_ ?_ ?_
      · simp only [List.mem_append, not_or]; exact ⟨hkt, f2⟩
      · simp only [List.length_append]; omega
      · intro X NE p hX heol
        exact Pil.rx_stmt_tail kw hkw _
          (by unfold Pil.rxTextX; exact Pil.OutHd_kw_blanks (a + 1) (Nat.succ_pos a) _) 6 []
          (a + 1) rc rm rs pc pm ps X NE p hrc hrm hrs hpc hpm hps
          (Pil.Ok_noinfo a rc rm rs pc pm ps X hrc) hX.tail heol

/-- **reactions with type, integer rate and units** -/
theorem stmtText_reaction_info (ty rate : List Char) (cunits : List (List Char)) (tu : List Char)
    (rs ps : List (List Char)) (hty : Letters ty) (hrate : Digits rate)
    (hcu : ∀ u ∈ cunits, u = "M".toList ∨ u = "mM".toList ∨ u = "uM".toList ∨ u = "nM".toList ∨ u = "pM".toList)
    (htu : tu = "s".toList ∨ tu = "m".toList ∨ tu = "h".toList)
    (hr : rs ≠ [] ∧ ∀ r ∈ rs, Ident r) (hp : ps ≠ [] ∧ ∀ p ∈ ps, Ident p) :
    StmtText ("reaction [".toList ++ ty ++ " = ".toList ++ rate ++ [' '] ++ (cunits.map (fun u => '/' :: u)).flatten ++ ['/'] ++ tu ++
        "] ".toList ++ plusSep rs ++ " -> ".toList ++ plusSep ps)
      (.grp [.tok "reaction",
        .grp [.grp [tokOf ty], .grp [tokOf rate], .grp [tokOf ((cunits.map (fun u => '/' :: u)).flatten ++ ['/'] ++ tu)]],
        .grp (rs.map tokOf), .grp (ps.map tokOf)]) := by
  obtain ⟨hr1, hr2⟩ := hr
  obtain ⟨hp1, hp2⟩ := hp
  obtain ⟨tc, tm, rfl, htc, htm⟩ := Pil.cons_of_class ty _ hty
  obtain ⟨dc, dm, rfl, hdc, hdm⟩ := Pil.cons_of_class rate _ hrate
  have hcu' : ∀ u ∈ cunits, Pil.IsCunit u := by
    intro u hu
    have e1 : "M".toList = ['M'] := rfl
    have e2 : "mM".toList = ['m', 'M'] := rfl
    have e3 : "uM".toList = ['u', 'M'] := rfl
    have e4 : "nM".toList = ['n', 'M'] := rfl
    have e5 : "pM".toList = ['p', 'M'] := rfl
    have := hcu u hu
    rw [e1, e2, e3, e4, e5] at this
    exact this
  have htu' : Pil.IsTunit tu := by
    have e1 : "s".toList = ['s'] := rfl
    have e2 : "m".toList = ['m'] := rfl
    have e3 : "h".toList = ['h'] := rfl
    rw [e1, e2, e3] at htu
    exact htu
  cases rs with
  | nil => exact absurd rfl hr1
  | cons r rs =>
    cases ps with
    | nil => exact absurd rfl hp1
    | cons q ps =>
      obtain ⟨rc, rm, rfl, hrc, hrm⟩ := Pil.cons_of_class r _ (hr2 r (by simp))
      obtain ⟨pc, pm, rfl, hpc, hpm⟩ := Pil.cons_of_class q _ (hp2 q (by simp))
      have hrs : ∀ x ∈ rs, Pil.IsId x := fun x hx => ident_isId x (hr2 x (List.mem_cons_of_mem _ hx))
      have hps : ∀ x ∈ ps, Pil.IsId x := fun x hx => ident_isId x (hp2 x (List.mem_cons_of_mem _ hx))
      have htc' := (Pil.alphas_facts tc htc).1
      have htm' : ∀ x ∈ tm, x ∈ Pil.identChars := fun x hx => (Pil.alphas_facts x (htm x hx)).1
      have k1 : "reaction [".toList = ['r', 'e', 'a', 'c', 't', 'i', 'o', 'n', ' ', '['] := rfl
      have k2 : " = ".toList = [' ', '=', ' '] := rfl
      have k3 : "] ".toList = [']', ' '] := rfl
      obtain ⟨f1, f2⟩ := rxTextX_facts 1 rc rm rs pc pm ps hrc hrm hrs hpc hpm hps
      have l3 := Pil.cuText_length cunits
      have n3 := Pil.notab_cuText cunits hcu'
      have n1 := notab_cons tc tm htc' htm'
      have n2 := notab_cons_nums dc dm hdc hdm
      have n4 : '\t' ∉ tu := by rcases htu' with rfl | rfl | rfl <;> decide
      have htree : (Tree.grp [.tok "reaction",
          .grp [.grp [tokOf (tc :: tm)], .grp [tokOf (dc :: dm)],
            .grp [tokOf ((cunits.map (fun u => '/' :: u)).flatten ++ ['/'] ++ tu)]],
          .grp (((rc :: rm) :: rs).map tokOf), .grp (((pc :: pm) :: ps).map tokOf)]) =
          .grp [.tok "reaction",
            .grp [.grp [.tok (String.ofList (tc :: tm))], .grp [.tok (String.ofList (dc :: dm))],
              .grp [.tok (String.ofList (Pil.cuText cunits ++ ('/' :: tu)))]],
            .grp (((rc :: rm) :: rs).map (fun d => .tok (String.ofList d))),
            .grp (((pc :: pm) :: ps).map (fun d => .tok (String.ofList d)))] := by
        simp [tokOf, Pil.cuText, List.append_assoc]
      rw [htree]
      refine stmtText_of _ _ (max (2 * cunits.length + 32) (rs.length + ps.length) + 40) 'r'
        (fun X => ['r', 'e', 'a', 'c', 't', 'i', 'o', 'n'] ++
            Pil.infoText tc tm dc dm cunits tu (Pil.rxTextX 1 rc rm rs pc pm ps X))
        (by
          intro X
          rw [← rx_textX_eq, k1, k2, k3]
          simp [Pil.infoText, Pil.cuText, blanks, List.append_assoc])
        rfl ⟨by decide, by decide, by decide⟩ ?_ ?_ ?_
      · unfold Pil.infoText
        simp only [List.mem_cons, List.mem_append, not_or]
        simp only [List.mem_cons, not_or] at n1 n2
        exact ⟨⟨by decide, by decide, by decide, by decide, by decide, by decide, by decide, by decide,
            List.not_mem_nil⟩, by decide, by decide, ⟨n1.1, n1.2⟩, by decide, by decide, by decide, ⟨n2.1, n2.2⟩,
          by decide, n3, by decide, n4, by decide, f2⟩
      · unfold Pil.infoText
        simp only [List.length_append, List.length_cons]
        omega
      · intro X NE p hX heol
        exact Pil.rx_stmt_tail _ (Or.inl rfl) _
          (by unfold Pil.infoText; exact Pil.OutHd_cons _ _ _ (Pil.outside_facts ' ' (by decide))) _ _
          1 rc rm rs pc pm ps X NE p hrc hrm hrs hpc hpm hps
          (Pil.Ok_infobox pil_env tc tm dc dm cunits tu _ htc' htm' hdc hdm hcu' htu') hX.tail heol

/-! ### remarks

* The texts of the instances above are those of the round-trip theorems of C13Pil / C13Kernel / C13More without the
  final line end.  A statement text may contain line ends itself (the `complex` form has three lines).
* `StmtText` quantifies over continuations that are empty or START with a line end; trailing blanks are part of the
  statement texts where the round-trip theorems have them (`blanks e`).  The stronger formulation "in front of any
  continuation of blanks and a line end" is FALSE for the strand-notation complexes: the grammar's `dotbracket` is
  `Word("(.)+ ")`, the blank is one of its characters, and trailing blanks end up in the token: -/

example : parseDoc pil_env pil_grammar "structure x = a : . \n" =
    some [.grp [.tok "strand-complex", .tok "x", .grp [.tok "a"], .tok ". "]] := by
  rfl

/-! ### non-vacuity: a four-statement document of four different kinds -/

/-- from the character list to the string literal: the text of the theorem instance and the literal are compared
    as character lists (with a bare `exact h` the kernel could also identify the two statements by evaluating the
    parser on both texts) -/
theorem parse_of_text (env : Env) (g : G) (T : List Char) (s : String) (r : Option (List Tree))
    (h : parseDoc env g (String.ofList T) = r) (e : T = s.toList) : parseDoc env g s = r := by
  subst e; rwa [String.ofList_toList] at h

theorem ident_single (c : Char) (h : c ∈ pp_alphanums ++ ['_', '-']) : Ident [c] :=
  ⟨by simp, by intro x hx; simp at hx; subst hx; exact h⟩

/-- `length a = 5`, `sequence t = ACGT`, a blank line, `strand s = a t*`, `X = a( t )` — from `document_rt` and the
    instances -/
example :
    parseDoc pil_env pil_grammar "length a = 5\nsequence t = ACGT\n\nstrand s = a t*\nX = a( t )\n" =
    some [.grp [.tok "dl-domain", .tok "a", .tok "5"],
          .grp [.tok "sl-domain", .tok "t", .tok "ACGT"],
          .grp [.tok "composite-domain", .tok "s", .grp [.tok "a", .tok "t*"]],
          .grp [.tok "kernel-complex", .tok "X", .grp [.tok "a", .grp [.tok "t"]]]] := by
  have ia := ident_single 'a' (by decide); have it := ident_single 't' (by decide)
  have is := ident_single 's' (by decide); have iX := ident_single 'X' (by decide)
  have d5 : Digits ['5'] := ⟨by simp, by decide⟩
  have lA : Letters "ACGT".toList := ⟨by decide, by decide⟩
  have hleg : LegalNames ["a", "t", "a"] ['(', '.', ')'] := by
    refine ⟨rfl, ?_⟩
    intro i n c h1 h2
    match i, h1, h2 with
    | 0, h1, h2 =>
      simp at h1 h2; subst h1 h2
      exact ⟨by decide, fun _ => ⟨['a'], false, rfl, ia⟩, by decide⟩
    | 1, h1, h2 =>
      simp at h1 h2; subst h1 h2
      exact ⟨by decide, fun _ => ⟨['t'], false, rfl, it⟩, by decide⟩
    | 2, h1, h2 =>
      simp at h1 h2; subst h1 h2
      exact ⟨by decide, fun _ => ⟨['a'], false, rfl, ia⟩, by decide⟩
    | k + 3, h1, h2 => simp at h1
  have h := document_rt
    [(_, _, 0), (_, _, 1), (_, _, 0), (_, _, 0)] (by simp)
    (by
      intro x hx
      simp only [List.mem_cons, List.not_mem_nil, or_false] at hx
      rcases hx with rfl | rfl | rfl | rfl
      · exact stmtText_dl_domain "length".toList (Or.inl rfl) ['a'] ['5'] false '=' (Or.inl rfl) ia d5 0 1 1 0
      · exact stmtText_sl_domain ['t'] "ACGT".toList false '=' (Or.inl rfl) it lA 0 1 1 0
      · exact stmtText_comp_domain "strand".toList (Or.inl rfl) ['s'] [['a'], ['t', '*']] '=' (Or.inl rfl) is
          ⟨by simp, by
            intro d hd; simp at hd
            rcases hd with rfl | rfl
            · exact ⟨['a'], false, rfl, ia⟩
            · exact ⟨['t'], true, rfl, it⟩⟩ 0 1 1 0
      · exact stmtText_kernel ['X'] ["a", "t", "a"] ['(', '.', ')'] _ iX hleg (by decide) rfl)
  exact parse_of_text _ _ _ _ _ h (by decide +kernel)

/-- the same document, checked directly against the interpreter -/
example :
    parseDoc pil_env pil_grammar "length a = 5\nsequence t = ACGT\n\nstrand s = a t*\nX = a( t )\n" =
    some [.grp [.tok "dl-domain", .tok "a", .tok "5"],
          .grp [.tok "sl-domain", .tok "t", .tok "ACGT"],
          .grp [.tok "composite-domain", .tok "s", .grp [.tok "a", .tok "t*"]],
          .grp [.tok "kernel-complex", .tok "X", .grp [.tok "a", .grp [.tok "t"]]]] := by
  rfl

/-- a leading blank line, and the last statement without its line end (`document_open_rt`) -/
example :
    parseDoc pil_env pil_grammar "\nlength a = 5\n\nX = a( t )" =
    some [.grp [.tok "dl-domain", .tok "a", .tok "5"],
          .grp [.tok "kernel-complex", .tok "X", .grp [.tok "a", .grp [.tok "t"]]]] := by
  rfl

end Dsd.C13
