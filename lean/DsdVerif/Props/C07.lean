/- C07 — strand rotation is a structure-preserving relabelling: theorems are in Props/C07Rot.lean (list positions)
   and Props/C07Loci.lean (pair tables over loci, rotate_pairtable_loc, connectivity). -/
import DsdVerif.Props.C07Rot
import DsdVerif.Props.C07Loci
import DsdVerif.Props.PyExprs
