/- C07 — strand rotation is a structure-preserving relabelling: theorems are in Props/C07Rot.lean. -/
import DsdVerif.Props.C07Rot
