/- C07 — theorems are being added; see harness/props/c07.py THEOREMS for the audited list. -/
import DsdVerif.Model.Complex
