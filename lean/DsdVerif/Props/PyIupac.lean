import DsdVerif.Gen.PyIupac
import DsdVerif.Lemmas.PyIupac
import DsdVerif.Props.C17

/-!
The sequence-level functions of `dsdobjects/iupac_utils.py` as they are written in the working tree — `Gen/PyIupac.lean` is
regenerated from the source text, statement by statement (translator/pyfunc.py, `gen_pyiupac`); the module-level tables are the
constants of `Gen/IupacTables.lean`, regenerated from the same file — compute exactly what the hand-written model
`Model/Iupac.lean` computes, for EVERY input.  The theorems of C17 about the model are then statements about the code as written.

Python outcomes: `PyEq.keyErr` reads the model's `none` as KeyError (`Err.fault "KeyError"`), `PyEq.acOutcome` reads the model's
`ACResult` (`constraintError` as `Err.fault "ConstraintError"`, `lengthAssert` as `Err.assertion`); `Err` has no constructor
of its own for KeyError / ConstraintError.  `PyEq.material` is the source's reading of the `material` argument
(`'DNA'`, anything else is RNA).
-/
namespace Dsd.PyIupac
open Dsd Dsd.Gen Dsd.Iupac Dsd.PyEq

/-- `complement` as written in the source is the model's `Iupac.complement`: the wobble table of the material applied to
    every character, KeyError for a character that is not a key; every text, every `material` -/
theorem py_complement_eq (s : List Char) (m : String) :
    py_complement s m = keyErr (Iupac.complement (material m) s) := complement_eq s m

/-- `wc_complement` as written in the source is the model's `Iupac.wcComplement` (Watson–Crick table), for every input -/
theorem py_wc_complement_eq (s : List Char) (m : String) :
    py_wc_complement s m = keyErr (Iupac.wcComplement (material m) s) := wc_complement_eq s m

/-- `reverse_complement` as written in the source is the model's `Iupac.reverseComplement`, for every input -/
theorem py_reverse_complement_eq (s : List Char) (m : String) :
    py_reverse_complement s m = keyErr (Iupac.reverseComplement (material m) s) := reverse_complement_eq s m

/-- `reverse_wc_complement` as written in the source is the model's `Iupac.reverseWcComplement`, for every input -/
theorem py_reverse_wc_complement_eq (s : List Char) (m : String) :
    py_reverse_wc_complement s m = keyErr (Iupac.reverseWcComplement (material m) s) := reverse_wc_complement_eq s m

/-- `add_constraints` as written in the source is the model's `Iupac.addConstraints`, for every pair of texts and every
    `material`: AssertionError for different lengths, KeyError for a character outside `iupac_bin`, ConstraintError when
    some position has no common base, else the position-wise intersection -/
theorem py_add_constraints_eq (s1 s2 : List Char) (m : String) :
    py_add_constraints s1 s2 m = acOutcome (Iupac.addConstraints (material m) s1 s2) := add_constraints_eq s1 s2 m

/-- the model's fifth outcome (falling off the end of the function) does not occur for the source as written -/
theorem addConstraints_returns (mt : Material) (s1 s2 : List Char) : Iupac.addConstraints mt s1 s2 ≠ .returnsNone :=
  addConstraints_ne_returnsNone mt s1 s2

/-! ### C17 on the source-derived functions -/

/-- the only exception of the source's four complement functions is KeyError … -/
theorem py_complement_error_kind (s : List Char) (m : String) (e : Err) :
    (py_complement s m = .error e ∨ py_wc_complement s m = .error e ∨
     py_reverse_complement s m = .error e ∨ py_reverse_wc_complement s m = .error e) → e = .fault "KeyError" := by
  rw [py_complement_eq, py_wc_complement_eq, py_reverse_complement_eq, py_reverse_wc_complement_eq]
  have key : ∀ (o : Option (List Char)), keyErr o = .error e → e = .fault "KeyError" := by
    intro o h
    cases o with
    | none => exact (Except.error.inj h).symm
    | some x => cases h
  rintro (h | h | h | h) <;> exact key _ h

/-- … raised by `wc_complement` exactly when some character of the text is not a key of the table -/
theorem py_wc_complement_raises_iff (s : List Char) (m : String) :
    py_wc_complement s m = .error (.fault "KeyError") ↔ ∃ c ∈ s, Iupac.lookup (wcTable (material m)) c = none := by
  rw [py_wc_complement_eq, ← mapSeq_none_iff]
  unfold Iupac.wcComplement
  cases mapSeq (wcTable (material m)) s <;> simp [keyErr]

/-- the source's `reverse_wc_complement` is its `wc_complement` read backwards (results and KeyError alike) -/
theorem py_reverse_wc_is_reversed_wc (s : List Char) (m : String) :
    py_reverse_wc_complement s m = (py_wc_complement s m).map List.reverse := by
  rw [py_reverse_wc_complement_eq, py_wc_complement_eq, (reverse_variants (material m) s).2.2.2]
  cases Iupac.wcComplement (material m) s <;> rfl

/-- the source's `reverse_complement` is its `complement` read backwards -/
theorem py_reverse_is_reversed (s : List Char) (m : String) :
    py_reverse_complement s m = (py_complement s m).map List.reverse := by
  rw [py_reverse_complement_eq, py_complement_eq, (reverse_variants (material m) s).2.2.1]
  cases Iupac.complement (material m) s <;> rfl

/-- **set-exactness of the source's `wc_complement`** (`wc_sequence_exact` transferred): on a text over the 15 codes of the
    material it raises nothing, keeps the length, and maps every position to the code that denotes exactly the Watson–Crick
    partners of the bases of the input code (`wcRowOk`, checked against the independent IUPAC denotation of Spec/Iupac) -/
theorem py_wc_complement_exact (s : List Char) (m : String) (hs : ∀ c ∈ s, c ∈ codes (material m)) :
    ∃ o, py_wc_complement s m = .ok o ∧ o.length = s.length ∧
      ∀ i (hi : i < s.length), ∃ d, o[i]? = some d ∧ Iupac.lookup (wcTable (material m)) s[i] = some d ∧
        wcRowOk (material m) s[i] = true := by
  obtain ⟨o, ho, hl, hp⟩ := wc_sequence_exact (material m) s hs
  exact ⟨o, by rw [py_wc_complement_eq, ho]; rfl, hl, hp⟩

/-- **set-exactness of the source's `complement`** (wobble pairs included; `wobble_sequence_exact` transferred) -/
theorem py_complement_exact (s : List Char) (m : String) (hs : ∀ c ∈ s, c ∈ codes (material m)) :
    ∃ o, py_complement s m = .ok o ∧ o.length = s.length ∧
      ∀ i (hi : i < s.length), ∃ d, o[i]? = some d ∧ Iupac.lookup (wobbleTable (material m)) s[i] = some d ∧
        wobbleRowOk (material m) s[i] = true := by
  obtain ⟨o, ho, hl, hp⟩ := wobble_sequence_exact (material m) s hs
  exact ⟨o, by rw [py_complement_eq, ho]; rfl, hl, hp⟩

/-- **the source's `add_constraints` is the position-wise intersection** (`add_constraints_spec` transferred): for two equally
    long texts over the codes of the material it returns the code of the intersection of the two base sets at every
    position (`meetSpec`, from the independent denotation), and raises ConstraintError exactly when some intersection is empty -/
theorem py_add_constraints_spec (s1 s2 : List Char) (m : String) (hl : s1.length = s2.length)
    (h1 : ∀ c ∈ s1, c ∈ codes (material m)) (h2 : ∀ c ∈ s2, c ∈ codes (material m)) :
    py_add_constraints s1 s2 m =
      match (s1.zip s2).mapM (fun p => meetSpec (material m) p.1 p.2) with
      | some con => .ok con
      | none => .error (.fault "ConstraintError") := by
  rw [py_add_constraints_eq, add_constraints_spec (material m) s1 s2 hl h1 h2]
  cases (s1.zip s2).mapM (fun p => meetSpec (material m) p.1 p.2) <;> rfl

/-- texts of different lengths fail the source's assertion, whatever they contain -/
theorem py_add_constraints_length (s1 s2 : List Char) (m : String) (hl : s1.length ≠ s2.length) :
    py_add_constraints s1 s2 m = .error .assertion := by
  rw [py_add_constraints_eq]
  unfold Iupac.addConstraints
  rw [if_pos hl]; rfl

/-- non-vacuity and error kinds on concrete inputs: an intersection, a clash, a foreign letter, the RNA tables -/
example : py_add_constraints "RNW".toList "KYA".toList "DNA" = .ok "GYA".toList ∧
    py_add_constraints "R".toList "Y".toList "DNA" = .error (.fault "ConstraintError") ∧
    py_add_constraints "X".toList "A".toList "DNA" = .error (.fault "KeyError") ∧
    py_reverse_wc_complement "ACGU".toList "RNA" = .ok "ACGU".toList ∧
    py_wc_complement "ACGU".toList "DNA" = .error (.fault "KeyError") := by
  refine ⟨?_, ?_, ?_, ?_, ?_⟩ <;> decide

end Dsd.PyIupac

#print axioms Dsd.PyIupac.py_complement_eq
#print axioms Dsd.PyIupac.py_wc_complement_eq
#print axioms Dsd.PyIupac.py_reverse_complement_eq
#print axioms Dsd.PyIupac.py_reverse_wc_complement_eq
#print axioms Dsd.PyIupac.py_add_constraints_eq
#print axioms Dsd.PyIupac.py_add_constraints_spec
