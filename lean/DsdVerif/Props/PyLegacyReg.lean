/-
The REGISTRY side of the legacy class `DSD_Complex` AS WRITTEN in dsdobjects/core/deprecated.py (translated statement by statement by
translator/pylegacy2.py into Gen/PyLegacyReg.lean; state = object + class variables `ID` / `NAMES` / `MEMORY`) against the
hand-written model `Lg.LObj` / `Lg.LReg` (Model/LegacyFull.lean), for EVERY object and class state (`ofLR R o`):

  `py_do_memorycheck_eq`      `do_memorycheck(current, rotations)` with both arguments given = `LObj.doMemorycheck`: the look-up in
                              `MEMORY`, `DSDDuplicationError` with `existing` (identity) and `rotations = abs(rotations - self.size) -
                              other._rotations` (`errOfR`: the two attributes inside the exception), TypeError for an entry without `_rotations`
  `py_canonical_form_eq`      `canonical_form` = `LObj.canonicalForm`: the cache test, the loop over the generator `rotate()` with its
                              in-place `rotate_once()` (`canonLoop`), the dict of variants, the memory check per new variant, the
                              sorted minimum, `_rotations`; results, exceptions and the object afterwards
Transferred from Props/C20Full.lean (statements about the code as written):

  `py_legacy_full_canon_eq`   on a fresh instance of a well-formed description (check off, or no rotation registered) the property as
                              written returns the CURRENT API's canonical form, sets `_rotations` to the abstract model's value, and
                              leaves the object as `registered …` (C20F.legacy_full_canon_eq)
  `py_canonical_form_restores`   … in particular after the FULL cycle of `rotate_once()` calls `_sequence` / `_structure` are the ones
                              the object was given, and the class variables are untouched
  `py_canonical_form_cached`  a second evaluation returns the cached form and changes nothing
Not translated (so not transferred): `__init__` (`construct`), hence `legacy_construct_eq`, `legacy_refused_leaves_nothing`;
`legacy_dup_iff` is a statement about the abstract canonical forms and applies to the values `py_legacy_full_canon_eq` returns.
-/
import DsdVerif.Lemmas.PyLegacyRegCanon
import DsdVerif.Props.C20Full

namespace Dsd.PyLegacyReg
open Dsd Dsd.Gen Dsd.Lg Dsd.LgL Dsd.C02 Dsd.PyLegacy

theorem py_do_memorycheck_eq (R : LReg) (o : LObj) (current : CKey) (e : Nat) :
    (py_DSD_ComplexR_do_memorycheck current (some (Int.ofNat e))).exec (ofLR R o) =
      unitAns R (o.doMemorycheck R current (some e)) := exec_do_memorycheck R o current e

/-- **`canonical_form` as written is the model's `canonicalForm`** -/
theorem py_canonical_form_eq (R : LReg) (o : LObj) :
    (py_DSD_ComplexR_canonical_form).exec (ofLR R o) = canonAns R (o.canonicalForm R) := exec_canonical_form R o

/-- a cached canonical form is returned as it is -/
theorem py_canonical_form_cached (R : LReg) (o : LObj) (c : CKey) (h : o.canon = some c) :
    (py_DSD_ComplexR_canonical_form).exec (ofLR R o) = (.ok (some c), ofLR R o) := by
  rw [py_canonical_form_eq, canonicalForm_cached R o c h]; rfl

/-- transferred C20F.legacy_full_canon_eq -/
theorem py_legacy_full_canon_eq (R : LReg) (fresh : Nat) (nm : String) (seq : List String) (sst : List Char) (mc : Bool)
    (hd : Descr seq sst)
    (hfree : mc = false ∨ ∀ z ∈ orbit (nStrands seq) seq sst, R.MEMORY.lookup z = none)
    (ids : CplxIds) (h : complexIdentifiers ({} : Reg CKey) seq sst = .ok ids) :
    ∃ rot, (py_DSD_ComplexR_canonical_form).exec (ofLR R (mk0 fresh nm seq sst mc)) =
        (.ok (some ids.canon), ofLR R (registered fresh nm seq sst mc ids.canon rot)) ∧
      legacyCanon seq sst = .ok (ids.canon, rot) ∧ rot < nStrands seq ∧
      rotateN rot ids.canon.1 ids.canon.2 = .ok (seq, sst) := by
  obtain ⟨rot, h1, h2, h3, h4⟩ := C20F.legacy_full_canon_eq R fresh nm seq sst mc hd hfree ids h
  refine ⟨rot, ?_, h2, h3, h4⟩
  rw [py_canonical_form_eq, h1]; rfl

/-- **the full cycle restores the representation**: `canonical_form` as written runs `rotate_once()` once per strand; afterwards
    the object has the sequence and structure it was given (and the class variables are untouched) -/
theorem py_canonical_form_restores (R : LReg) (fresh : Nat) (nm : String) (seq : List String) (sst : List Char) (mc : Bool)
    (hd : Descr seq sst)
    (hfree : mc = false ∨ ∀ z ∈ orbit (nStrands seq) seq sst, R.MEMORY.lookup z = none) :
    ∃ c s', (py_DSD_ComplexR_canonical_form).exec (ofLR R (mk0 fresh nm seq sst mc)) = (.ok (some c), s') ∧
      s'._sequence = seq ∧ s'._structure = sst ∧ s'._canonical_form = some c ∧
      s'.cls_ID = R.ID ∧ s'.cls_NAMES = R.NAMES ∧ s'.cls_MEMORY = (ofLR R (mk0 fresh nm seq sst mc)).cls_MEMORY := by
  obtain ⟨ids, hids⟩ := identifiers_total {} seq sst hd
  obtain ⟨rot, h1, _⟩ := py_legacy_full_canon_eq R fresh nm seq sst mc hd hfree ids hids
  exact ⟨ids.canon, _, h1, rfl, rfl, rfl, rfl, rfl, rfl⟩

#print axioms py_do_memorycheck_eq
#print axioms py_canonical_form_eq
#print axioms py_canonical_form_cached
#print axioms py_legacy_full_canon_eq
#print axioms py_canonical_form_restores

end Dsd.PyLegacyReg
