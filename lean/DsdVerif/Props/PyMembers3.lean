/-
The missing link between the TRANSLATED generator `ComplexS.split` (Gen/PyComplexS2.lean, `Props/PyComplexS2.py_split_spec`) and C09's object-level
model `World.splitC` (Model/World.lean):

  `py_split_eq_splitC`   for the complex `id` of a world `w` whose translated object `s` is coherent and holds the sequence / structure of the
                         world's object, and a `request` that answers as the world does along the run (`Agrees`: the PARAMETER that stands for
                         `self.__class__(nseq, nsst)` instantiated by `World.mkCplxByNames`, world by world), `list(c.split())` as written is what
                         `World.splitC` yields: the same handles in the same order, or the same first refusal (`outsView`)
  `py_split_handles`     `World.splitC`'s outcomes all objects  ⇒  the translated generator returns exactly their handles, position by position -
                         which is what `C09.splitC_components` / `splitC_twice` speak about (`py_split_components_world`, `py_split_twice`)
-/
import DsdVerif.Lemmas.PyMembers3Split
import DsdVerif.Props.C09Obj

namespace Dsd.PyMembers3
open Dsd Gen PyObj PyObj2

/-- **the translated `split` = `World.splitC`** (see the header) -/
theorem py_split_eq_splitC (w : World) (id : Nat) (o : CplxObj) (nd : Node) (pt : PairTable) (s : ComplexS.Self) (h : PCoh s)
    (ho : w.cstate.lookup id = some o) (hn : w.node id = some nd) (hseq : s._sequence = o.seq) (hsst : s._structure = o.sst)
    (hm : makePairTable o.sst = .ok pt) (hshape : (makeStrandTableList "+" o.seq).map List.length = pt.map List.length)
    (request : List String → List Char → Py.M Nat)
    (hag : ∀ parts, splitPt (pt.length + 1) (makeStrandTableList "+" o.seq) pt = .ok parts → Agrees request nd.cls nd.children parts w) :
    ((py_ComplexS_split (pt.length + 1) request).exec s).1 = outsView (w.splitC id).2 := by
  obtain ⟨s', hex, _, _⟩ := PyObj2.py_split_spec (pt.length + 1) request s h
  obtain ⟨parts, idxs, hp, _⟩ := PyFuncs.py_split_spec o.sst '+' pt (makeStrandTableList "+" o.seq)
    (by rw [PyFuncs.py_make_pair_table_eq]; exact hm) hshape
  have hsp : splitPt (pt.length + 1) (makeStrandTableList "+" o.seq) pt = .ok parts := by
    rw [← PyFuncs.py_split_complex_pt_eq (pt.length + 1) _ o.sst '+' pt hm hshape]; exact hp
  rw [hex, hsst, hseq, hm]
  simp only [hp]
  unfold World.splitC
  simp only [ho, hn, hm, hsp]
  have := splitRun_eq_go request nd w.held parts w [] (by intro o ho; cases ho) (hag parts hsp)
  rw [this]
  simp only [outsView]
  cases splitRun request parts <;> rfl

/-- outcomes that are all objects: the view is the list of their handles, position by position -/
theorem outsView_all_rets (outs : List Out) (hall : ∀ o ∈ outs, ∃ h b, o = Out.ret h b) :
    ∃ hs, outsView outs = .ok hs ∧ hs.length = outs.length ∧ ∀ (k h : Nat) (b : Bool), outs[k]? = some (Out.ret h b) → hs[k]? = some h := by
  induction outs with
  | nil => exact ⟨[], rfl, rfl, by intro k h b hk; simp at hk⟩
  | cons o rest ih =>
    obtain ⟨h0, b0, rfl⟩ := hall _ List.mem_cons_self
    obtain ⟨hs, h1, h2, h3⟩ := ih (fun o ho => hall o (List.mem_cons_of_mem _ ho))
    refine ⟨h0 :: hs, by simp [outsView, h1], by simp [h2], ?_⟩
    intro k h b hk
    cases k with
    | zero => simp at hk; simp [hk.1]
    | succ k => simp at hk ⊢; exact h3 k h b hk

/-- when the world's `splitC` yields objects only, the translated generator returns exactly their handles -/
theorem py_split_handles (w : World) (id : Nat) (o : CplxObj) (nd : Node) (pt : PairTable) (s : ComplexS.Self) (h : PCoh s)
    (ho : w.cstate.lookup id = some o) (hn : w.node id = some nd) (hseq : s._sequence = o.seq) (hsst : s._structure = o.sst)
    (hm : makePairTable o.sst = .ok pt) (hshape : (makeStrandTableList "+" o.seq).map List.length = pt.map List.length)
    (request : List String → List Char → Py.M Nat)
    (hag : ∀ parts, splitPt (pt.length + 1) (makeStrandTableList "+" o.seq) pt = .ok parts → Agrees request nd.cls nd.children parts w)
    (hall : ∀ out ∈ (w.splitC id).2, ∃ h b, out = Out.ret h b) :
    ∃ hs, ((py_ComplexS_split (pt.length + 1) request).exec s).1 = .ok hs ∧ hs.length = (w.splitC id).2.length ∧
      ∀ (k h : Nat) (b : Bool), (w.splitC id).2[k]? = some (Out.ret h b) → hs[k]? = some h := by
  rw [py_split_eq_splitC w id o nd pt s h ho hn hseq hsst hm hshape request hag]
  exact outsView_all_rets _ hall

end Dsd.PyMembers3

#print axioms Dsd.PyMembers3.py_split_eq_splitC
#print axioms Dsd.PyMembers3.py_split_handles
