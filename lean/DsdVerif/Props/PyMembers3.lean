/-
The missing link between the TRANSLATED generator `ComplexS.split` (Gen/PyComplexS2.lean, `Props/PyComplexS2.py_split_spec`) and C09's object-level
model `World.splitC` (Model/World.lean):

  `py_split_eq_splitC`   for the complex `id` of a world `w` whose translated object `s` is coherent and holds the sequence / structure of the
                         world's object, and a `request` that answers as the world does along the run (`Agrees`: the PARAMETER that stands for
                         `self.__class__(nseq, nsst)` instantiated by `World.mkCplxByNames`, world by world), `list(c.split())` as written is what
                         `World.splitC` yields: the same handles in the same order, or the same first refusal (`outsView`)
  `py_split_handles`     `World.splitC`'s outcomes all objects  ⇒  the translated generator returns exactly their handles, position by position -
                         which is what `C09.splitC_components` / `splitC_twice` speak about (`py_split_components_world`, `py_split_twice`)
-/
import DsdVerif.Lemmas.PyMembers3Split
import DsdVerif.Props.C09Obj

namespace Dsd.PyMembers3
open Dsd Gen PyObj PyObj2

/-- **the translated `split` = `World.splitC`** (see the header) -/
theorem py_split_eq_splitC (w : World) (id : Nat) (o : CplxObj) (nd : Node) (pt : PairTable) (s : ComplexS.Self) (h : PCoh s)
    (ho : w.cstate.lookup id = some o) (hn : w.node id = some nd) (hseq : s._sequence = o.seq) (hsst : s._structure = o.sst)
    (hm : makePairTable o.sst = .ok pt) (hshape : (makeStrandTableList "+" o.seq).map List.length = pt.map List.length)
    (request : List String → List Char → Py.M Nat)
    (hag : ∀ parts, splitPt (pt.length + 1) (makeStrandTableList "+" o.seq) pt = .ok parts → Agrees request nd.cls nd.children parts w) :
    ((py_ComplexS_split (pt.length + 1) request).exec s).1 = outsView (w.splitC id).2 := by
  obtain ⟨s', hex, _, _⟩ := PyObj2.py_split_spec (pt.length + 1) request s h
  obtain ⟨parts, idxs, hp, _⟩ := PyFuncs.py_split_spec o.sst '+' pt (makeStrandTableList "+" o.seq)
    (by rw [PyFuncs.py_make_pair_table_eq]; exact hm) hshape
  have hsp : splitPt (pt.length + 1) (makeStrandTableList "+" o.seq) pt = .ok parts := by
    rw [← PyFuncs.py_split_complex_pt_eq (pt.length + 1) _ o.sst '+' pt hm hshape]; exact hp
  rw [hex, hsst, hseq, hm]
  simp only [hp]
  unfold World.splitC
  simp only [ho, hn, hm, hsp]
  have := splitRun_eq_go request nd w.held parts w [] (by intro o ho; cases ho) (hag parts hsp)
  rw [this]
  simp only [outsView]
  cases splitRun request parts <;> rfl

/-- outcomes that are all objects: the view is the list of their handles, position by position -/
theorem outsView_all_rets (outs : List Out) (hall : ∀ o ∈ outs, ∃ h b, o = Out.ret h b) :
    ∃ hs, outsView outs = .ok hs ∧ hs.length = outs.length ∧ ∀ (k h : Nat) (b : Bool), outs[k]? = some (Out.ret h b) → hs[k]? = some h := by
  induction outs with
  | nil => exact ⟨[], rfl, rfl, by intro k h b hk; simp at hk⟩
  | cons o rest ih =>
    obtain ⟨h0, b0, rfl⟩ := hall _ List.mem_cons_self
    obtain ⟨hs, h1, h2, h3⟩ := ih (fun o ho => hall o (List.mem_cons_of_mem _ ho))
    refine ⟨h0 :: hs, by simp [outsView, h1], by simp [h2], ?_⟩
    intro k h b hk
    cases k with
    | zero => simp at hk; simp [hk.1]
    | succ k => simp at hk ⊢; exact h3 k h b hk

/-- when the world's `splitC` yields objects only, the translated generator returns exactly their handles -/
theorem py_split_handles (w : World) (id : Nat) (o : CplxObj) (nd : Node) (pt : PairTable) (s : ComplexS.Self) (h : PCoh s)
    (ho : w.cstate.lookup id = some o) (hn : w.node id = some nd) (hseq : s._sequence = o.seq) (hsst : s._structure = o.sst)
    (hm : makePairTable o.sst = .ok pt) (hshape : (makeStrandTableList "+" o.seq).map List.length = pt.map List.length)
    (request : List String → List Char → Py.M Nat)
    (hag : ∀ parts, splitPt (pt.length + 1) (makeStrandTableList "+" o.seq) pt = .ok parts → Agrees request nd.cls nd.children parts w)
    (hall : ∀ out ∈ (w.splitC id).2, ∃ h b, out = Out.ret h b) :
    ∃ hs, ((py_ComplexS_split (pt.length + 1) request).exec s).1 = .ok hs ∧ hs.length = (w.splitC id).2.length ∧
      ∀ (k h : Nat) (b : Bool), (w.splitC id).2[k]? = some (Out.ret h b) → hs[k]? = some h := by
  rw [py_split_eq_splitC w id o nd pt s h ho hn hseq hsst hm hshape request hag]
  exact outsView_all_rets _ hall

/-- **`C09.splitC_components` for the translated generator**: `list(c.split())` as written returns one handle per connected component, in
    order; the k-th handle is a live complex whose canonical form is the one `ComplexS.identifiers` computes for the k-th part, and if a complex
    of that class was live before the call it is that object -/
theorem py_split_components_world (w : World) (id c : Nat) (hw : RdL.WOK w) (hcs : SplitObj.CplxStateOK w) (hlive : C09.LiveCplx w c id)
    (hall : ∀ out ∈ (w.splitC id).2, ∃ h b, out = Out.ret h b)
    (o : CplxObj) (nd : Node) (pt : PairTable) (s : ComplexS.Self) (h : PCoh s)
    (ho : w.cstate.lookup id = some o) (hn : w.node id = some nd) (hseq : s._sequence = o.seq) (hsst : s._structure = o.sst)
    (hm : makePairTable o.sst = .ok pt) (hshape : (makeStrandTableList "+" o.seq).map List.length = pt.map List.length)
    (request : List String → List Char → Py.M Nat)
    (hag : ∀ parts, splitPt (pt.length + 1) (makeStrandTableList "+" o.seq) pt = .ok parts → Agrees request nd.cls nd.children parts w) :
    ∃ (hs : List Nat) (parts : List (List (List String) × PairTable)),
      ((py_ComplexS_split (pt.length + 1) request).exec s).1 = .ok hs ∧ hs.length = parts.length ∧
      ∀ (k : Nat) (part : List (List String) × PairTable), parts[k]? = some part →
        ∃ (hd : Nat) (ids : CplxIds) (o' : CplxObj), hs[k]? = some hd ∧
          complexIdentifiers {} (joinWith "+" part.1) (ptToDb part.2) = .ok ids ∧
          (w.splitC id).1.cstate.lookup hd = some o' ∧ o'.canon = ids.canon ∧
          (∀ (cr : ClassReg CKey) (ob : Obj CKey), w.cplxs[c]? = some cr → ob ∈ cr.reg.objs → ob.canon = ids.canon → hd = ob.id) := by
  obtain ⟨_, _, parts, _, _, _, hlen, hk⟩ := C09.splitC_components w id c hw hcs hlive hall
  obtain ⟨hs, h1, h2, h3⟩ := py_split_handles w id o nd pt s h ho hn hseq hsst hm hshape request hag hall
  refine ⟨hs, parts, h1, h2.trans hlen, fun k part hp => ?_⟩
  obtain ⟨hd, b, o', ids, cr', ob', a1, a2, a3, a4, _, _, _, _, a9⟩ := hk k part hp
  exact ⟨hd, ids, o', h3 k hd b a1, a2, a3, a4, fun cr ob x y z => (a9 cr ob x y z).1⟩

theorem outsView_same_handles (outs outs' : List Out) (hall : ∀ o ∈ outs, ∃ h b, o = Out.ret h b) (hlen : outs'.length = outs.length)
    (hsame : ∀ (i h : Nat) (b : Bool), outs[i]? = some (Out.ret h b) → outs'[i]? = some (Out.ret h false)) :
    outsView outs' = outsView outs := by
  induction outs generalizing outs' with
  | nil => cases outs' with
    | nil => rfl
    | cons _ _ => simp at hlen
  | cons o rest ih =>
    obtain ⟨h0, b0, rfl⟩ := hall _ List.mem_cons_self
    cases outs' with
    | nil => simp at hlen
    | cons o' rest' =>
      have h0' := hsame 0 h0 b0 (by simp)
      simp at h0'; subst h0'
      have := ih rest' (fun o ho => hall o (List.mem_cons_of_mem _ ho)) (by simpa using hlen)
        (fun i h b hi => by have := hsame (i + 1) h b (by simpa using hi); simpa using this)
      simp [outsView, this]

/-- **`C09.splitC_twice` for the translated generator**: splitting again (in the world after the first call, with a `request` that answers as
    that world does) returns the same handles in the same order -/
theorem py_split_twice (w : World) (id c : Nat) (hw : RdL.WOK w) (hcs : SplitObj.CplxStateOK w) (hlive : C09.LiveCplx w c id)
    (w1 : World) (outs : List Out) (hsplit : w.splitC id = (w1, outs)) (hall : ∀ out ∈ outs, ∃ h b, out = Out.ret h b)
    (cr1 : ClassReg CKey) (hc1 : w1.cplxs[c]? = some cr1) (hfree : cr1.reg.findName (SplitObj.autoName w1 c) = none)
    (o o1 : CplxObj) (nd nd1 : Node) (pt : PairTable) (s : ComplexS.Self) (h : PCoh s)
    (ho : w.cstate.lookup id = some o) (hn : w.node id = some nd) (ho1 : w1.cstate.lookup id = some o1) (hn1 : w1.node id = some nd1)
    (hoo : o1.seq = o.seq ∧ o1.sst = o.sst)
    (hseq : s._sequence = o.seq) (hsst : s._structure = o.sst)
    (hm : makePairTable o.sst = .ok pt) (hshape : (makeStrandTableList "+" o.seq).map List.length = pt.map List.length)
    (request request1 : List String → List Char → Py.M Nat)
    (hag : ∀ parts, splitPt (pt.length + 1) (makeStrandTableList "+" o.seq) pt = .ok parts → Agrees request nd.cls nd.children parts w)
    (hag1 : ∀ parts, splitPt (pt.length + 1) (makeStrandTableList "+" o.seq) pt = .ok parts → Agrees request1 nd1.cls nd1.children parts w1) :
    ((py_ComplexS_split (pt.length + 1) request1).exec s).1 = ((py_ComplexS_split (pt.length + 1) request).exec s).1 := by
  obtain ⟨w2, outs', h2, hlen, hsame, _⟩ := C09.splitC_twice w id c hw hcs hlive w1 outs hsplit hall cr1 hc1 hfree
  rw [py_split_eq_splitC w id o nd pt s h ho hn hseq hsst hm hshape request hag,
    py_split_eq_splitC w1 id o1 nd1 pt s h ho1 hn1 (hseq.trans hoo.1.symm) (hsst.trans hoo.2.symm) (by rw [hoo.2]; exact hm)
      (by rw [hoo.1]; exact hshape) request1 (by rw [hoo.1]; exact hag1), hsplit, h2]
  exact outsView_same_handles outs outs' hall hlen hsame

end Dsd.PyMembers3

#print axioms Dsd.PyMembers3.py_split_eq_splitC
#print axioms Dsd.PyMembers3.py_split_handles
#print axioms Dsd.PyMembers3.py_split_components_world
#print axioms Dsd.PyMembers3.py_split_twice
