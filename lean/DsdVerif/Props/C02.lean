/- C02 — complex identity under rotation, minimal canonical form: theorems are in Props/C02Canon.lean. -/
import DsdVerif.Props.C02Canon
import DsdVerif.Props.C02Full
