import DsdVerif.Model.Reader
import DsdVerif.Props.C06
import DsdVerif.Props.C05World
import DsdVerif.Lemmas.ReaderDoc

namespace Dsd.C16
open Dsd Dsd.PP Dsd.RState

/-! C16 (dynamic part, on the model): reading never ends in an interpreter-level fault.
`RErr.fault _` is what the model returns wherever the transcribed code would perform a partial operation on a
value that is wrong by the reader's own logic (indexing an empty list, a dead handle, a missing class …). -/

-- ORIGINAL DEFINITION (too weak): `def Name (s : String) : Prop := s ≠ ""`.
-- With it `reader_never_faults` is false: a domain named `*` has the complement name "" (`cnameOf "*" = ""`), and
-- `read_pil` inverts every domain it reads; the request for the empty name faults with IndexError (see the checked
-- `example` below).  The PIL grammar cannot produce this name (an identifier precedes the optional star).
-- FIX (minimal): names are non-empty and not the bare star.
def Name (s : String) : Prop := s ≠ "" ∧ s ≠ "*"

/-- counterexample to the original statement: the one-line document `length * = short` ends in a fault -/
example : (({} : RState).readDoc {} [] [] [.grp [.tok "dl-domain", .tok "*", .tok "short"]] {}).2
    matches .error (.fault "IndexError") := by rfl

/-- a kernel token forest as the grammar produces it: a nested list only directly after a name other than "+" -/
inductive Forest : List Tree → Prop
  | nil : Forest []
  | tok (s : String) (rest : List Tree) : Name s → Forest rest → Forest (.tok s :: rest)
  | loop (s : String) (inner rest : List Tree) : Name s → s ≠ "+" → Forest inner → Forest rest →
      Forest (.tok s :: .grp inner :: rest)

def Toks (ts : List Tree) : Prop := ts ≠ [] ∧ ∀ t ∈ ts, ∃ s, t = .tok s ∧ Name s

/-- the line shapes the PIL grammar can produce (token trees after the parse actions) -/
inductive Typed : List Tree → Prop
  | dl (name len : String) : Name name → (len = "short" ∨ len = "long" ∨ (len.toNat?).isSome) →
      Typed [.tok "dl-domain", .tok name, .tok len]
  | sl (name con : String) : Name name → Name con → Typed [.tok "sl-domain", .tok name, .tok con]
  | slLen (name con len : String) : Name name → Name con → Typed [.tok "sl-domain", .tok name, .tok con, .tok len]
  | comp (name : String) (doms : List Tree) (rest : List Tree) : Name name → Toks doms →
      Typed (.tok "composite-domain" :: .tok name :: .grp doms :: rest)
  | strandComplex (name db : String) (strands : List Tree) : Name name → (∀ t ∈ strands, ∃ s, t = .tok s ∧ Name s) →
      Typed [.tok "strand-complex", .tok name, .grp strands, .tok db]
  -- ORIGINAL: `kernel … : Name name → Forest pat → pat ≠ [] → Typed […]` (same for `kernelConc`).  With it the
  -- statements are false: `resolveKernel` runs with the fuel `treeSize 1000 pat + 2`, `treeSize 1000` saturates
  -- near 1000, and a pattern with 998 names followed by 1100 nested loops exceeds it: RecursionError (checked
  -- `example` below; Python's recursion limit does the same).  FIX: the pattern fits the budget.
  | kernel (name : String) (pat : List Tree) : Name name → Forest pat → pat ≠ [] → treeSize 1000 pat < 1000 →
      Typed [.tok "kernel-complex", .tok name, .grp pat]
  | kernelConc (name mode value unit : String) (pat : List Tree) : Name name → Forest pat → pat ≠ [] →
      treeSize 1000 pat < 1000 →
      Typed [.tok "kernel-complex", .tok name, .grp pat, .grp [.tok mode, .tok value, .tok unit]]
  | resting (name : String) (mem : List Tree) : Name name → Toks mem →
      Typed [.tok "resting-macrostate", .tok name, .grp mem]
  | reactionPlain (rs ps : List Tree) : Toks rs → Toks ps → Typed [.tok "reaction", .grp [], .grp rs, .grp ps]
  | reactionInfo (ty ra un rs ps : List Tree) : (ty = [] ∨ ∃ t, ty = [.tok t]) → ra ≠ [] → Toks rs → Toks ps →
      Typed [.tok "reaction", .grp [.grp ty, .grp ra, .grp un], .grp rs, .grp ps]

/-- a deep kernel pattern: 998 names, then 1100 nested loops -/
def deepNest : Nat → List Tree
  | 0 => []
  | k + 1 => [.tok "a", .grp (deepNest k)]
def deepPattern : List Tree := List.replicate 998 (.tok "a") ++ deepNest 1100

/-- counterexample to the original `Typed.kernel`: the recursion budget is exceeded -/
example : (match resolveKernel (treeSize 1000 deepPattern + 2) deepPattern with
    | .error (.fault "RecursionError") => true | _ => false) = true := by decide +kernel

/-- the reader slots are configured with existing classes -/
def SlotsOK (sl : Slots) : Prop := sl.dom < 4 ∧ sl.strand < 4 ∧ sl.cplx < 4 ∧ sl.macr < 4 ∧ sl.rxn < 4

theorem slotsOK {sl : Slots} (h : SlotsOK sl) : RdL.SlotsOK sl :=
  ⟨h.1, h.2.1, h.2.2.1, h.2.2.2.1, h.2.2.2.2⟩

theorem forest_k {pat : List Tree} (h : Forest pat) : RdL.KForest pat := by
  induction h with
  | nil => exact RdL.KForest.nil
  | tok s rest hs _ ih => exact RdL.KForest.tok s rest hs ih
  | loop s inner rest hs hp _ _ ih1 ih2 => exact RdL.KForest.loop s inner rest hs hp ih1 ih2

/-- the kernel translation succeeds on a grammar-shaped forest within the recursion budget, with as many structure
    characters as names and no empty name (the intended statement of `resolveKernel_total`) -/
theorem resolveKernel_ok (pat : List Tree) (hf : Forest pat) (hsz : treeSize 1000 pat < 1000) :
    ∃ names struct, resolveKernel (treeSize 1000 pat + 2) pat = .ok (names, struct) ∧
      names.length = struct.length ∧ ∀ n ∈ names, n ≠ "" :=
  RdL.resolveKernel_ok pat (forest_k hf) hsz

/-- every grammar-shaped line is read without fault in every well-formed state -/
theorem typed_lineOK (line : List Tree) (ht : Typed line) : RdL.LineOK line := by
  intro s sl hw hsl
  cases ht with
  | dl name len hn hl => exact RdL.readLine_dl s sl hw hsl name len [] hn hl
  | sl name con hn _ => exact RdL.readLine_sl s sl hw hsl name con [] hn
  | slLen name con len hn _ => exact RdL.readLine_sl s sl hw hsl name con [.tok len] hn
  | comp name doms rest _ hd => exact RdL.readLine_comp s sl hw hsl name doms rest hd.2
  | strandComplex name db strands _ _ => exact RdL.readLine_strandComplex s sl hw hsl name db strands []
  | kernel name pat _ hf _ hsz =>
    obtain ⟨names, struct, h1, h2, h3⟩ := resolveKernel_ok pat hf hsz
    exact RdL.readLine_kernel s sl hw hsl name pat [] names struct h1 h2 h3
  | kernelConc name mode value unit pat _ hf _ hsz =>
    obtain ⟨names, struct, h1, h2, h3⟩ := resolveKernel_ok pat hf hsz
    exact RdL.readLine_kernel s sl hw hsl name pat _ names struct h1 h2 h3
  | resting name mem _ _ => exact RdL.readLine_resting s sl hw hsl name mem []
  | reactionPlain rs ps _ _ => exact RdL.readLine_reaction s sl hw hsl [] rs ps []
  | reactionInfo ty ra un rs ps _ _ _ _ => exact RdL.readLine_reaction s sl hw hsl _ rs ps []

/-- **No interpreter-level fault**: reading any document whose lines have the shapes the grammar produces, into a
    fresh world, with any ignore list and any slot configuration, either returns the dictionary or ends in one of
    the declared errors (SingletonError, ObjectInitError, SecondaryStructureError, NotImplementedError, an assertion,
    PilFormatError) — never in a fault. -/
theorem reader_never_faults (sl : Slots) (hsl : SlotsOK sl) (ign : List String) (lines : List Tree)
    (ht : ∀ t ∈ lines, ∃ l, t = .grp l ∧ Typed l) (s' : RState) (e : RErr)
    (h : ({} : RState).readDoc sl ign [] lines {} = (s', .error e)) : ∀ k, e ≠ .fault k := by
  have hok : ∀ t ∈ lines, ∀ l, t = .grp l → RdL.LineOK l := by
    intro t hmem l hl
    obtain ⟨l', hl', hty⟩ := ht t hmem
    rw [hl] at hl'
    cases hl'
    exact typed_lineOK l hty
  exact RdL.readDoc_nofault sl (slotsOK hsl) ign [] lines {} {} RdL.wok_empty hok s' e h

/-- the same for a single line read into any state reached by reading typed documents -/
theorem readLine_never_faults_fresh (sl : Slots) (hsl : SlotsOK sl) (line : List Tree) (ht : Typed line)
    (s' : RState) (e : RErr) (h : ({} : RState).readLine sl line = (s', .error e)) : ∀ k, e ≠ .fault k := by
  obtain ⟨_, h2, _⟩ := typed_lineOK line ht {} sl RdL.wok_empty (slotsOK hsl)
  rw [h] at h2
  exact h2 e rfl

/-- the kernel translation never faults on a grammar-shaped forest -/
theorem resolveKernel_total (pat : List Tree) (hf : Forest pat) :
    ∃ r, resolveKernel (treeSize 1000 pat + 2) pat = .ok r ∨ treeSize 1000 pat ≥ 1000 := by
  by_cases hsz : treeSize 1000 pat < 1000
  · obtain ⟨names, struct, h, _⟩ := resolveKernel_ok pat hf hsz
    exact ⟨(names, struct), Or.inl h⟩
  · exact ⟨([], []), Or.inr (by omega)⟩

end Dsd.C16
