import DsdVerif.Gen.Grammars
import DsdVerif.Lemmas.PPRun
import DsdVerif.Lemmas.PilRun

namespace Dsd.C13
open Dsd.PP Dsd.Gen

/-! Round-trip theorems for the PIL grammar *as regenerated from pil_parser.py* (`Gen.pil_grammar`, `Gen.pil_env`),
interpreted by the model of pyparsing (`PP.run`, `PP.parseDoc`).  All statements quantify over arbitrary
identifiers / numbers / amounts of blanks — no bound on sizes. -/

def blanks (n : Nat) : List Char := List.replicate n ' '

/-- a PIL identifier: non-empty, letters / digits / `_` / `-` -/
def Ident (s : List Char) : Prop := s ≠ [] ∧ ∀ c ∈ s, c ∈ pp_alphanums ++ ['_', '-']
def Digits (s : List Char) : Prop := s ≠ [] ∧ ∀ c ∈ s, c ∈ pp_nums
def Letters (s : List Char) : Prop := s ≠ [] ∧ ∀ c ∈ s, c ∈ pp_alphas

def star (b : Bool) : List Char := if b then ['*'] else []

/-- "More fuel never changes a successful parse" is FALSE for the model as it stands: running out of fuel is
    reported as `none`, which `Optional` / `MatchFirst` / the repetitions turn into a success of the enclosing
    element.  Counterexample: `Optional(Literal "a")` on "a" yields `[]` with fuel 1 and `["a"]` with fuel 2.
    (`Combine` is fuel-sensitive too: it joins `flatToks (fuel + 1) ts`, which truncates a token list longer
    than the fuel.) -/
theorem run_fuel_mono_false :
    ¬ ∀ (env : Env) (fuel k : Nat) (ctx : Ctx) (g : G) (p : Pos) (r : Pos × List Tree),
      run env fuel ctx g p = some r → run env (fuel + k) ctx g p = some r :=
  PP.run_fuel_mono_false

/-- corrected statement: more fuel never changes a successful parse of a grammar without choice points and
    `Combine` (`PP.Simple`: literals, keywords, words, line/string ends, `And`, `Group`, `Suppress`, tags, and
    references into an environment of such grammars).
    For the full grammar the fuel-robust notions are `PP.Ok` / `PP.No` (Lemmas/PPRun.lean): success resp.
    failure for *every* fuel above a closed bound; all round-trip theorems below are proved through them. -/
theorem run_fuel_mono (env : Env) (henv : ∀ n g, env.lookup n = some g → Simple g)
    (fuel k : Nat) (ctx : Ctx) (g : G) (hg : Simple g) (p : Pos) (r : Pos × List Tree)
    (h : run env fuel ctx g p = some r) : run env (fuel + k) ctx g p = some r :=
  (PP.run_fuel_mono_simple env henv fuel).1 ctx g p r hg h k

/-- `Word` is maximal munch: on `c :: m ++ rest` with `c` an initial character, `m` body characters and `rest`
    not starting with a body character it consumes exactly `c :: m` (after skipping `n` leading blanks) -/
theorem word_munch (env : Env) (fuel : Nat) (init body : List Char) (n : Nat) (c : Char) (m rest : List Char)
    (hc : c ∈ init) (hcws : isWs c = false ∧ c ≠ '#') (hm : ∀ x ∈ m, x ∈ body)
    (hr : ∀ x, rest.head? = some x → x ∉ body) (past : Bool) :
    run env (fuel + 1) {} (.word init body) { rest := blanks n ++ c :: m ++ rest, past := past } =
      some ({ rest := rest, past := past }, [.tok (String.ofList (c :: m))]) := by
  refine Ok_word env {} init body _ c m rest ?_ hc hm hr (fuel + 1) (by omega)
  rw [pre_skip]
  show skipIgn (List.replicate n ' ' ++ c :: m ++ rest) = c :: (m ++ rest)
  rw [List.append_assoc, List.cons_append]
  exact skipIgn_blanks_cons n c _ hcws.1 hcws.2

/-- tab-free text is not changed by tab expansion -/
theorem expandTabs_id (cs : List Char) (col : Nat) (h : '\t' ∉ cs) : expandTabs cs col = cs :=
  Pil.expandTabs_id cs col h

/-- **domain-length statements**: every keyword alias, either assignment sign, any identifier (starred or not),
    any number, any amount of blanks — parsing the rendered text returns exactly the statement's token tree -/
theorem dl_domain_rt (kw : List Char) (hkw : kw = "length".toList ∨ kw = "domain".toList ∨ kw = "sequence".toList)
    (name d : List Char) (st : Bool) (sign : Char) (hs : sign = '=' ∨ sign = ':')
    (hn : Ident name) (hd : Digits d) (a b c e : Nat) :
    parseDoc pil_env pil_grammar
      (String.ofList (kw ++ blanks (a + 1) ++ name ++ star st ++ blanks b ++ [sign] ++ blanks c ++ d ++ blanks e ++ ['\n'])) =
    some [.grp [.tok "dl-domain", .tok (String.ofList (name ++ star st)), .tok (String.ofList d)]] := by
  obtain ⟨nc, m, rfl, hnc, hm⟩ := Pil.cons_of_class name _ hn
  obtain ⟨dc, dm, rfl, hdc, hdm⟩ := Pil.cons_of_class d _ hd
  have k1 : "length".toList = ['l', 'e', 'n', 'g', 't', 'h'] := by rfl
  have k2 : "domain".toList = ['d', 'o', 'm', 'a', 'i', 'n'] := by rfl
  have k3 : "sequence".toList = ['s', 'e', 'q', 'u', 'e', 'n', 'c', 'e'] := by rfl
  rw [k1, k2, k3] at hkw
  have htext : kw ++ blanks (a + 1) ++ (nc :: m) ++ star st ++ blanks b ++ [sign] ++ blanks c ++ (dc :: dm) ++
      blanks e ++ ['\n'] = kw ++ Pil.dlText (a + 1) nc m st b sign c (dc :: dm) (List.replicate e ' ' ++ ['\n']) := by
    simp [blanks, Pil.dlText, star, Pil.star, List.append_assoc]
  rw [htext]
  have hlen := Pil.Ok_dlength_num pil_env c dc dm _ hdc hdm (Pil.OutHd_nl_tail e)
  have hsl : No pil_env 14 {} pil_sl_domain
      { rest := kw ++ Pil.dlText (a + 1) nc m st b sign c (dc :: dm) (List.replicate e ' ' ++ ['\n']), past := false } := by
    rcases hkw with h | h | h
    · exact (Pil.No_sl_kw pil_env kw _ (Or.inl h)).mono (by decide)
    · exact (Pil.No_sl_kw pil_env kw _ (Or.inr h)).mono (by decide)
    · rw [h]; exact Pil.No_sl_digits pil_env (a + 1) (Nat.succ_pos a) nc m st b sign hs c dc dm _ hnc hm hdc
  exact Pil.dl_parse kw hkw (a + 1) (Nat.succ_pos a) nc m st b sign hs c (dc :: dm) _ _ _ hnc hm hlen (Pil.EolTail_nl e) hsl
    (by decide) (by decide)
    (Pil.notab_of_nums _ (by intro x hx; rcases List.mem_cons.mp hx with rfl | h; exact hdc; exact hdm x h))
    (Pil.notab_nl_tail e)

/-- `short` / `long` as the length (keywords `length` and `domain`) -/
theorem dl_domain_dtype_rt (kw : List Char) (hkw : kw = "length".toList ∨ kw = "domain".toList)
    (name : List Char) (st : Bool) (dt : List Char) (hdt : dt = "short".toList ∨ dt = "long".toList)
    (sign : Char) (hs : sign = '=' ∨ sign = ':') (hn : Ident name) (a b c e : Nat) :
    parseDoc pil_env pil_grammar
      (String.ofList (kw ++ blanks (a + 1) ++ name ++ star st ++ blanks b ++ [sign] ++ blanks c ++ dt ++ blanks e ++ ['\n'])) =
    some [.grp [.tok "dl-domain", .tok (String.ofList (name ++ star st)), .tok (String.ofList dt)]] := by
  obtain ⟨nc, m, rfl, hnc, hm⟩ := Pil.cons_of_class name _ hn
  have k1 : "length".toList = ['l', 'e', 'n', 'g', 't', 'h'] := by rfl
  have k2 : "domain".toList = ['d', 'o', 'm', 'a', 'i', 'n'] := by rfl
  have k4 : "short".toList = ['s', 'h', 'o', 'r', 't'] := by rfl
  have k5 : "long".toList = ['l', 'o', 'n', 'g'] := by rfl
  rw [k1, k2] at hkw
  rw [k4, k5] at hdt
  have htext : kw ++ blanks (a + 1) ++ (nc :: m) ++ star st ++ blanks b ++ [sign] ++ blanks c ++ dt ++
      blanks e ++ ['\n'] = kw ++ Pil.dlText (a + 1) nc m st b sign c dt (List.replicate e ' ' ++ ['\n']) := by
    simp [blanks, Pil.dlText, star, Pil.star, List.append_assoc]
  rw [htext]
  have hkw' : Pil.Kw kw := by rcases hkw with h | h; exact Or.inl h; exact Or.inr (Or.inl h)
  have hsl := Pil.No_sl_kw pil_env kw
    (Pil.dlText (a + 1) nc m st b sign c dt (List.replicate e ' ' ++ ['\n'])) hkw
  rcases hdt with rfl | rfl
  · exact Pil.dl_parse kw hkw' (a + 1) (Nat.succ_pos a) nc m st b sign hs c _ _ _ _ hnc hm
      (Pil.Ok_dlength_short pil_env c _) (Pil.EolTail_nl e) hsl (by decide) (by decide) (by decide)
      (Pil.notab_nl_tail e)
  · exact Pil.dl_parse kw hkw' (a + 1) (Nat.succ_pos a) nc m st b sign hs c _ _ _ _ hnc hm
      (Pil.Ok_dlength_long pil_env c _) (Pil.EolTail_nl e) hsl (by decide) (by decide) (by decide)
      (Pil.notab_nl_tail e)

/-- **sequence-constraint statements**, with and without the explicit length -/
theorem sl_domain_rt (name con : List Char) (st : Bool) (sign : Char) (hs : sign = '=' ∨ sign = ':')
    (hn : Ident name) (hc : Letters con) (a b c e : Nat) :
    parseDoc pil_env pil_grammar
      (String.ofList ("sequence".toList ++ blanks (a + 1) ++ name ++ star st ++ blanks b ++ [sign] ++ blanks c ++ con ++ blanks e ++ ['\n'])) =
    some [.grp [.tok "sl-domain", .tok (String.ofList (name ++ star st)), .tok (String.ofList con)]] := by
  obtain ⟨nc, m, rfl, hnc, hm⟩ := Pil.cons_of_class name _ hn
  obtain ⟨kc, km, rfl, hkc, hkm⟩ := Pil.cons_of_class con _ hc
  have k3 : "sequence".toList = ['s', 'e', 'q', 'u', 'e', 'n', 'c', 'e'] := by rfl
  have htext : "sequence".toList ++ blanks (a + 1) ++ (nc :: m) ++ star st ++ blanks b ++ [sign] ++ blanks c ++
      (kc :: km) ++ blanks e ++ ['\n'] = ['s', 'e', 'q', 'u', 'e', 'n', 'c', 'e'] ++
        Pil.dlText (a + 1) nc m st b sign c (kc :: km) (List.replicate e ' ' ++ ['\n']) := by
    rw [k3]; simp [blanks, Pil.dlText, star, Pil.star, List.append_assoc]
  rw [htext]
  have hstmt := Pil.Ok_sl_stmt pil_env (a + 1) (Nat.succ_pos a) nc m st b sign hs c kc km _ hnc hm hkc hkm
    (skipIgn_blanks_cons e '\n' [] (by decide) (by decide)) (Pil.OutHd_nl_tail e)
  refine Pil.parse_stmt _ _ ⟨_, _, rfl, by decide, by decide, by decide⟩ _ _ hstmt (by decide) ?_
  simp only [List.mem_append, not_or]
  exact ⟨by decide, Pil.notab_dlText _ nc m st b sign hs c _ _ hnc hm
    (Pil.notab_of_alphas _ (by intro x hx; rcases List.mem_cons.mp hx with rfl | h; exact hkc; exact hkm x h))
    (Pil.notab_nl_tail e)⟩

theorem sl_domain_len_rt (name con d : List Char) (st : Bool) (s1 s2 : Char) (hs1 : s1 = '=' ∨ s1 = ':') (hs2 : s2 = '=' ∨ s2 = ':')
    (hn : Ident name) (hc : Letters con) (hd : Digits d) (a b c e f g : Nat) :
    parseDoc pil_env pil_grammar
      (String.ofList ("sequence".toList ++ blanks (a + 1) ++ name ++ star st ++ blanks b ++ [s1] ++ blanks c ++ con ++ blanks e ++
        [s2] ++ blanks f ++ d ++ blanks g ++ ['\n'])) =
    some [.grp [.tok "sl-domain", .tok (String.ofList (name ++ star st)), .tok (String.ofList con), .tok (String.ofList d)]] := by
  obtain ⟨nc, m, rfl, hnc, hm⟩ := Pil.cons_of_class name _ hn
  obtain ⟨kc, km, rfl, hkc, hkm⟩ := Pil.cons_of_class con _ hc
  obtain ⟨dc, dm, rfl, hdc, hdm⟩ := Pil.cons_of_class d _ hd
  have k3 : "sequence".toList = ['s', 'e', 'q', 'u', 'e', 'n', 'c', 'e'] := by rfl
  have htext : "sequence".toList ++ blanks (a + 1) ++ (nc :: m) ++ star st ++ blanks b ++ [s1] ++ blanks c ++
      (kc :: km) ++ blanks e ++ [s2] ++ blanks f ++ (dc :: dm) ++ blanks g ++ ['\n'] =
      ['s', 'e', 'q', 'u', 'e', 'n', 'c', 'e'] ++ Pil.dlText (a + 1) nc m st b s1 c (kc :: km)
        (Pil.slTail e s2 f dc dm (List.replicate g ' ' ++ ['\n'])) := by
    rw [k3]; simp [blanks, Pil.dlText, Pil.slTail, star, Pil.star, List.append_assoc]
  rw [htext]
  have hstmt := Pil.Ok_sl_len_stmt pil_env (a + 1) (Nat.succ_pos a) nc m st b s1 hs1 c kc km e s2 hs2 f dc dm _ hnc hm hkc hkm
    hdc hdm (Pil.EolTail_nl g) (Pil.OutHd_nl_tail g)
  refine Pil.parse_stmt _ _ ⟨_, _, rfl, by decide, by decide, by decide⟩ _ _ hstmt (by decide) ?_
  have hs2' : '\t' ≠ s2 := by rcases hs2 with rfl | rfl <;> decide
  have hd' := Pil.notab_of_nums (dc :: dm) (by intro x hx; rcases List.mem_cons.mp hx with rfl | h; exact hdc; exact hdm x h)
  simp only [List.mem_append, not_or]
  refine ⟨by decide, Pil.notab_dlText _ nc m st b s1 hs1 c _ _ hnc hm
    (Pil.notab_of_alphas _ (by intro x hx; rcases List.mem_cons.mp hx with rfl | h; exact hkc; exact hkm x h)) ?_⟩
  unfold Pil.slTail
  simp only [List.mem_append, List.mem_cons, not_or]
  simp only [List.mem_cons, not_or] at hd'
  exact ⟨Pil.notab_replicate e, hs2', Pil.notab_replicate f, ⟨hd'.1, hd'.2⟩, Pil.notab_replicate g, by decide,
    List.not_mem_nil⟩

/-- a trailing comment and a missing final newline do not change the parse -/
theorem dl_domain_comment_rt (name d comment : List Char) (hn : Ident name) (hd : Digits d) (hc : '\n' ∉ comment) (ht : '\t' ∉ comment)
    (e : Nat) :
    parseDoc pil_env pil_grammar
      (String.ofList ("length ".toList ++ name ++ " = ".toList ++ d ++ blanks e ++ ['#'] ++ comment)) =
    some [.grp [.tok "dl-domain", .tok (String.ofList name), .tok (String.ofList d)]] := by
  obtain ⟨nc, m, rfl, hnc, hm⟩ := Pil.cons_of_class name _ hn
  obtain ⟨dc, dm, rfl, hdc, hdm⟩ := Pil.cons_of_class d _ hd
  have k1 : "length ".toList = ['l', 'e', 'n', 'g', 't', 'h', ' '] := by rfl
  have k2 : " = ".toList = [' ', '=', ' '] := by rfl
  have htext : "length ".toList ++ (nc :: m) ++ " = ".toList ++ (dc :: dm) ++ blanks e ++ ['#'] ++ comment =
      ['l', 'e', 'n', 'g', 't', 'h'] ++ Pil.dlText 1 nc m false 1 '=' 1 (dc :: dm)
        (List.replicate e ' ' ++ '#' :: comment) := by
    rw [k1, k2]; simp [blanks, Pil.dlText, Pil.star, List.append_assoc, List.replicate]
  rw [htext]
  have hlen := Pil.Ok_dlength_num pil_env 1 dc dm _ hdc hdm (Pil.OutHd_comment_tail e comment)
  have hsl := Pil.No_sl_kw pil_env ['l', 'e', 'n', 'g', 't', 'h']
    (Pil.dlText 1 nc m false 1 '=' 1 (dc :: dm) (List.replicate e ' ' ++ '#' :: comment)) (Or.inl rfl)
  have := Pil.dl_parse _ (Or.inl rfl) 1 (by decide) nc m false 1 '=' (Or.inl rfl) 1 (dc :: dm) _ _ _ hnc hm hlen
    (Pil.EolTail_comment e comment hc) hsl (by decide) (by decide)
    (Pil.notab_of_nums _ (by intro x hx; rcases List.mem_cons.mp hx with rfl | h; exact hdc; exact hdm x h))
    (by simp only [List.mem_append, List.mem_cons, not_or]; exact ⟨Pil.notab_replicate e, by decide, ht⟩)
  rw [show (nc :: m ++ Pil.star false) = nc :: m from List.append_nil _] at this
  exact this

/-- a missing assignment sign is rejected -/
theorem dl_domain_missing_assign_rejected (name d : List Char) (hn : Ident name) (hd : Digits d) (a b : Nat) :
    parseDoc pil_env pil_grammar
      (String.ofList ("length".toList ++ blanks (a + 1) ++ name ++ blanks (b + 1) ++ d ++ ['\n'])) = none := by
  obtain ⟨nc, m, rfl, hnc, hm⟩ := Pil.cons_of_class name _ hn
  obtain ⟨dc, dm, rfl, hdc, _⟩ := Pil.cons_of_class d _ hd
  have k1 : "length".toList = ['l', 'e', 'n', 'g', 't', 'h'] := by rfl
  have htext : "length".toList ++ blanks (a + 1) ++ (nc :: m) ++ blanks (b + 1) ++ (dc :: dm) ++ ['\n'] =
      ['l', 'e', 'n', 'g', 't', 'h'] ++ (List.replicate (a + 1) ' ' ++ (nc :: m ++
          (List.replicate (b + 1) ' ' ++ (dc :: dm ++ ['\n'])))) := by
    rw [k1]; simp [blanks, List.append_assoc]
  rw [htext]
  have hno := Pil.No_missing_assign pil_env a nc m b dc dm hnc hm hdc
  refine Pil.reject_stmt _ _ ⟨_, _, rfl, by decide, by decide, by decide⟩ _ hno (by decide) ?_
  have h1 := Pil.notab_ident (nc :: m) (by intro x hx; rcases List.mem_cons.mp hx with rfl | h; exact hnc; exact hm x h)
  have h2 := Pil.notab_of_nums (dc :: dm) hd.2
  simp only [List.mem_append, not_or]
  exact ⟨by decide, Pil.notab_replicate _, h1, Pil.notab_replicate _, h2, by decide⟩

/-! Non-vacuity / regression: statement keywords are `Keyword`s, not `Literal`s.  With `Literal("length")` the text
`lengthy = 5` parsed as the domain-length statement `[dl-domain, y, 5]` (the former known finding: a keyword matched a
prefix of a longer name); with `Keyword` the statement keyword must be followed by a non-identifier character, and
`lengthy` is the name of a kernel complex.  (`Props/C13Kernel.lean`, `keyword_prefixed_name_rt`, is the general statement.) -/
example : parseDoc pil_env pil_grammar "lengthy = 5" =
    some [.grp [.tok "kernel-complex", .tok "lengthy", .grp [.tok "5"]]] := by
  rfl

/-- the keyword followed by a blank still introduces a domain-length statement -/
example : parseDoc pil_env pil_grammar "length y = 5" = some [.grp [.tok "dl-domain", .tok "y", .tok "5"]] := by
  rfl

/-- a complex may be named like a keyword: `length` matches as a keyword, but `=` is not a domain name, the
    alternative fails and the ordered choice reaches `kernel-complex` -/
example : parseDoc pil_env pil_grammar "length = 5" =
    some [.grp [.tok "kernel-complex", .tok "length", .grp [.tok "5"]]] := by
  rfl

/-- `-` is an identifier character, so `sup-sequence` is not a keyword match in `sup-sequence-x` -/
example : parseDoc pil_env pil_grammar "sup-sequence-x = a b" =
    some [.grp [.tok "kernel-complex", .tok "sup-sequence-x", .grp [.tok "a", .tok "b"]]] := by
  rfl

example : parseDoc pil_env pil_grammar "strand x = a b" =
    some [.grp [.tok "composite-domain", .tok "x", .grp [.tok "a", .tok "b"]]] := by
  rfl

end Dsd.C13
