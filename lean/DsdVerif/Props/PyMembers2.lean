/-
`DomainS.__init__` AS WRITTEN in the working tree (Gen/PyMembers2.lean, transcribed statement by statement by translator/pymembers2.py):

  `py_domain_init_eq`      net effect: the given name or the automatic one (`prefix` if GIVEN - `is None` test, so an empty prefix counts - else
                           `cls.PREFIX`, then `cls.ID`), `cls.ID += 1` exactly when no name was given, the given length or the default of the
                           `dtype`, `sequence = None`; never raises
  `py_domain_init_after_identifiers`   the two sites agree: for a request without a name, the translated `identifiers` (Gen/PyDomain.lean) behaves
                           exactly as for the name that `__init__` - called with the same `prefix` on the same class (`PREFIX`, `ID`) - stores;
                           and with a name, `__init__` stores that name and leaves `ID` alone
  `py_domain_init_empty_prefix`   the case that separates `is None` from truthiness, kernel-checked: `prefix = ''` gives the name `'<ID>'`, not
                           `'d<ID>'` (a seeded regression wrote `prefix or cls.PREFIX` at this site only)
  `py_domain_init_default_length`   without a length: SHORT_DOM_LEN for 'short', LONG_DOM_LEN for 'long', otherwise `None`
-/
import DsdVerif.Lemmas.PyMembers2
import DsdVerif.Lemmas.PyDomainEqIdent3c

namespace Dsd.PyMembers2
open Dsd Gen PyMembers2L

theorem py_domain_init_eq (st : DomainS2.St) (pfx : String) (sh lo : Nat) (name : Option String) (length : Option Nat)
    (pre dtype : Option String) :
    (py_DomainS_init_full pfx sh lo name length pre dtype).exec st = (.ok (), initPost st pfx sh lo name length pre dtype) :=
  PyMembers2L.py_domain_init_eq st pfx sh lo name length pre dtype

/-- **the two sites agree** (see the header) -/
theorem py_domain_init_after_identifiers (request : Py.Dom.Req → Py.Dom.M Nat) (tmp cutoff sh lo : Nat) (pfx : String)
    (l l' : Option Nat) (pre d d' : Option String) (s : Py.Dom.Cls) (st : DomainS2.St) (hid : st.cls_ID = s.ID) :
    (py_DomainS_identifiers request tmp cutoff sh lo pfx none l pre d).exec s =
      (py_DomainS_identifiers request tmp cutoff sh lo pfx
        (some ((py_DomainS_init_full pfx sh lo none l' pre d').exec st).2._name) l pre d).exec s ∧
    ((py_DomainS_init_full pfx sh lo none l' pre d').exec st).2.cls_ID = s.ID + 1 ∧
    ∀ n, ((py_DomainS_init_full pfx sh lo (some n) l' pre d').exec st).2._name = n ∧
         ((py_DomainS_init_full pfx sh lo (some n) l' pre d').exec st).2.cls_ID = s.ID := by
  refine ⟨?_, ?_, fun n => ⟨?_, ?_⟩⟩
  · rw [py_domain_init_eq, PyDomainEq.identifiers_auto_name_py]
    simp only [initPost, autoName, Option.getD_none, hid]
  · rw [py_domain_init_eq]; simp [initPost, hid]
  · rw [py_domain_init_eq]; rfl
  · rw [py_domain_init_eq]; simp [initPost, hid]

/-- an EMPTY prefix is a given prefix -/
theorem py_domain_init_empty_prefix (st : DomainS2.St) (sh lo : Nat) (length : Option Nat) (dtype : Option String) :
    ((py_DomainS_init_full "d" sh lo none length (some "") dtype).exec st).2._name = toString st.cls_ID := by
  rw [py_domain_init_eq]; simp [initPost, autoName]

theorem py_domain_init_default_length (st : DomainS2.St) (pfx : String) (sh lo : Nat) (name pre : Option String) :
    ((py_DomainS_init_full pfx sh lo name none pre (some "short")).exec st).2._length = some sh ∧
    ((py_DomainS_init_full pfx sh lo name none pre (some "long")).exec st).2._length = some lo ∧
    ((py_DomainS_init_full pfx sh lo name none pre none).exec st).2._length = none ∧
    ∀ l d, ((py_DomainS_init_full pfx sh lo name (some l) pre d).exec st).2._length = some l := by
  refine ⟨?_, ?_, ?_, fun l d => ?_⟩ <;> rw [py_domain_init_eq] <;> simp [initPost, defaultLen]

end Dsd.PyMembers2

#print axioms Dsd.PyMembers2.py_domain_init_eq
#print axioms Dsd.PyMembers2.py_domain_init_after_identifiers
#print axioms Dsd.PyMembers2.py_domain_init_empty_prefix
#print axioms Dsd.PyMembers2.py_domain_init_default_length
