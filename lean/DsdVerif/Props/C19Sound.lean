import DsdVerif.Lemmas.SswYield

namespace Dsd.C19
open Dsd Dsd.PP Dsd.Gen

/-! C19, negative clauses in general form: PARSE SOUNDNESS of the seesaw grammar.  Whatever text the parser
accepts, every statement of the result is `PP.SswValid`: one of the valid statement kinds, with the right arity and
kinds of arguments (`PP.SswLine`: an INPUT binds a wire and never a fluorophore; an OUTPUT a fluorophore or a wire;
`seesaw` has exactly a gate number, a non-empty list of inputs and a non-empty list of outputs; `reporter` exactly
two numbers; `inputfanout` two numbers and a list; `seesawOR`/`seesawAND` two numbers and two lists; the three
`conc` forms a wire / gate / threshold and an unsigned number).  So a text that is not a layout of such a tree is
rejected.  The proof uses only the shape theorem `PP.run_shape`. -/

/-- **the seesaw parser accepts only valid statements** -/
theorem ssw_accepts_only_valid (text : String) (ts : List Tree) (h : parseDoc ssw_env ssw_grammar text = some ts) :
    ∀ t ∈ ts, SswValid t :=
  ssw_document_shape (parseDoc_shape ssw_env ssw_grammar text ts h)

/-- an accepted INPUT is bound to a wire — never to a fluorophore -/
theorem input_binds_wire (text : String) (ts : List Tree) (h : parseDoc ssw_env ssw_grammar text = some ts)
    (n v : Tree) (hm : .grp [.tok "INPUT", n, v] ∈ ts) : WireT v ∧ ¬ FluorT v := by
  obtain ⟨l, hl, hline⟩ := ssw_accepts_only_valid text ts h _ hm
  cases hl
  have hw : WireT v := by
    generalize hL : [Tree.tok "INPUT", n, v] = L at hline
    cases hline <;> simp at hL
    rename_i n' w' hn' hw'
    rw [hL.2]; exact hw'
  refine ⟨hw, ?_⟩
  obtain ⟨a, b, rfl, _⟩ := hw
  rintro ⟨m, hm', _⟩
  simp at hm'

/-- the concentration of an accepted `conc[…]` statement is an unsigned number: its token starts with a digit -/
theorem conc_value_unsigned (text : String) (ts : List Tree) (h : parseDoc ssw_env ssw_grammar text = some ts)
    (x c : Tree) (hm : .grp [.tok "conc", x, c] ∈ ts) : ConcT c := by
  obtain ⟨l, hl, hline⟩ := ssw_accepts_only_valid text ts h _ hm
  cases hl
  generalize hL : [Tree.tok "conc", x, c] = L at hline
  cases hline <;> simp at hL
  all_goals (rename_i x' c' _ hc'; rw [hL.2]; exact hc')

/-- a reporter has exactly two arguments, both numbers -/
theorem reporter_arity (text : String) (ts : List Tree) (h : parseDoc ssw_env ssw_grammar text = some ts)
    (args : List Tree) (hm : .grp [.tok "reporter", .grp args] ∈ ts) : ∃ a b, args = [a, b] ∧ NumT a ∧ NumT b := by
  obtain ⟨l, hl, hline⟩ := ssw_accepts_only_valid text ts h _ hm
  cases hl
  generalize hL : [Tree.tok "reporter", Tree.grp args] = L at hline
  cases hline <;> simp at hL
  rename_i a b ha hb
  exact ⟨a, b, hL, ha, hb⟩

/-- **negative concentrations, general form** (input accounting): wherever the concentration term of the grammar is
    tried, the first character after the blanks is a digit; at a `-` or `+` it fails, whatever follows -/
theorem negative_concentration_rejected_general (ign r rest : List Char) (ts : List Tree)
    (hws : ∀ x ∈ ign, isWs x = true) : ¬ Yield ssw_env true ssw_conc (ign ++ '-' :: r) rest ts :=
  ssw_conc_not_at_sign ign '-' r rest ts hws (Or.inl rfl)

/-! #### closed examples -/

/-- an accepted document (it parses), and the theorem applied to it -/
example : (parseDoc ssw_env ssw_grammar "reporter[3, 7]\nINPUT(1) = w[1, 2]\n").isSome = true := by decide +kernel
example (ts : List Tree) (h : parseDoc ssw_env ssw_grammar "reporter[3, 7]\nINPUT(1) = w[1, 2]\n" = some ts) :
    ∀ t ∈ ts, SswValid t := ssw_accepts_only_valid _ ts h

/-- texts that are not layouts of a valid statement are rejected -/
example : (parseDoc ssw_env ssw_grammar "INPUT(1) = Fluor[2]\n").isNone = true := by decide +kernel
example : (parseDoc ssw_env ssw_grammar "reporter[1]\n").isNone = true := by decide +kernel
example : (parseDoc ssw_env ssw_grammar "conc[w[1, 2], -3*c]\n").isNone = true := by decide +kernel
example : (parseDoc ssw_env ssw_grammar "seesaw[5, {1, 2}]\n").isNone = true := by decide +kernel

end Dsd.C19
