import DsdVerif.Gen.PyStrings
import DsdVerif.Props.PySetObjects

/-!
`ReactionS.reaction_string` (and `__str__`) AS WRITTEN in the working tree — `Gen/PyStrings.lean` is regenerated from the source text on every run
(translator/pystrings.py) — in closed form: `reaction [<type:12s><rate:12s>] A + B -> C + D` over the STORED reactant / product lists, the rate part
present iff the rate constant is TRUTHY (a zero rate prints like a missing one).  The renderings `{:12s}`, `{:5s}`, `{:10g}` of `flint(c)` are opaque
parameters `f12 f5 f10`.

`py_reaction_name_is_reaction_string` AS ASKED IS FALSE of this code: the automatic name (`identifiers`: `"[{}] {} -> {}"`) and `reaction_string`
(`"reaction [{:12s}{:12s}] {} -> {}"`) are different texts (`name_is_not_reaction_string`, kernel-checked); what holds is that both list the SAME
members in the SAME (canonical) order around ` -> ` (`py_reaction_name_and_string_agree`).
-/
namespace Dsd.PyStrings
open Dsd Dsd.Gen Dsd.SetsFull

/-- the rate part of `reaction_string` -/
def ratePart (f5 : String → String) (f10 : Rat → String) (s : ReactionSStr.Self) : String :=
  match s._const with
  | some c => if c != 0 then " = " ++ f10 c ++ f5 (if Py.Str.truthyOS s._units then " " ++ Py.strOpt s._units else "") ++ " " else ""
  | none => ""

/-- **`reaction_string` as written in the source, in closed form**: TypeError for a reaction without type (`format(None, '12s')`), else the
    text below; the object is unchanged -/
theorem py_reaction_string_eq (f12 f5 : String → String) (f10 : Rat → String) (s : ReactionSStr.Self) :
    (py_ReactionSStr_reaction_string f12 f5 f10).exec s =
      match s._rtype with
      | none => (.error (.fault "TypeError"), s)
      | some t => (.ok ("reaction [" ++ f12 t ++ f12 (ratePart f5 f10 s) ++ "] " ++ " + ".intercalate (s._reactants.map (·.1)) ++ " -> " ++
                        " + ".intercalate (s._products.map (·.1))), s) := by
  obtain ⟨rs, ps, rt, nm, c, u⟩ := s
  unfold py_ReactionSStr_reaction_string py_ReactionSStr_rtype py_ReactionSStr_reactants py_ReactionSStr_products
  cases c with
  | none => cases rt <;> rfl
  | some q =>
    cases hb : (q != 0) with
    | false =>
      simp only [PySetObj.exec_bind, PySetObj.exec_get, PySetObj.exec_pure, PySetObj.exec_monadLift, PySetObj.exec_ite, Py.Str.truthyNum, ratePart, hb,
        Bool.false_eq_true, if_false]
      cases rt <;> rfl
    | true =>
      simp only [PySetObj.exec_bind, PySetObj.exec_get, PySetObj.exec_pure, PySetObj.exec_monadLift, PySetObj.exec_ite, Py.Str.truthyNum, ratePart, hb,
        if_true, Py.unwrap]
      cases rt <;> cases hu : Py.Str.truthyOS u <;> simp only [pure, Except.pure, hu, Bool.false_eq_true, if_false, if_true] <;> rfl

/-- **a zero or missing rate omits the rate part** (the test is `if self._const:`, truthiness): the text is that of a reaction without rate -/
theorem py_reaction_string_no_rate (f12 f5 : String → String) (f10 : Rat → String) (s : ReactionSStr.Self)
    (h : s._const = none ∨ s._const = some 0) : ratePart f5 f10 s = "" := by
  rcases h with h | h <;> simp [ratePart, h]

/-- … and a non-zero rate is printed -/
theorem py_reaction_string_rate (f12 f5 : String → String) (f10 : Rat → String) (s : ReactionSStr.Self) (c : Rat) (h : s._const = some c) (hc : c ≠ 0) :
    ratePart f5 f10 s = " = " ++ f10 c ++ f5 (if Py.Str.truthyOS s._units then " " ++ Py.strOpt s._units else "") ++ " " := by
  simp [ratePart, h, hc]

/-- `str(r)` is the name -/
theorem py_reaction_str (s : ReactionSStr.Self) : py_ReactionSStr___str__.exec s = (.ok (Py.strOpt s._name), s) := rfl

/-- **the automatic name and `reaction_string` list the same members in the same canonical order**: for the name the source's
    `identifiers` derives (Props/PyIdent2) and the `reaction_string` of an object whose stored lists are what the source's `__init__` stores
    (`PySetObj.py_reaction_lists_sorted`: the arguments sorted by canonical form), both texts are `<prefix> A + B -> C + D` with the same member
    part; only the prefixes differ (`[type] ` vs `reaction [<type:12s><rate:12s>] `) -/
theorem py_reaction_name_and_string_agree (f12 f5 : String → String) (f10 : Rat → String) (rs ps : List (String × MemKey)) (t : String)
    (hr : ∀ y ∈ rs, y.2 ≠ .m []) (hp : ∀ y ∈ ps, y.2 ≠ .m [])
    (res : Option RKey × Option String × Option RKey × Option (Option String))
    (h : py_ReactionS_identifiers (some rs) (some ps) (some t) none = .ok res)
    (o : ReactionSObj.Self) (ho : py_ReactionSObj_new rs ps (some t) res.2.1 res.1 = .ok o)
    (s : ReactionSStr.Self) (h1 : s._reactants = o._reactants) (h2 : s._products = o._products) (h3 : s._rtype = o._rtype) :
    ∃ A B, res.2.1 = some ("[" ++ t ++ "] " ++ A ++ " -> " ++ B) ∧
      (py_ReactionSStr_reaction_string f12 f5 f10).exec s = (.ok ("reaction [" ++ f12 t ++ f12 (ratePart f5 f10 s) ++ "] " ++ A ++ " -> " ++ B), s) ∧
      A = " + ".intercalate ((sortBy (fun a b => memLt a.2 b.2) rs).map (·.1)) ∧ B = " + ".intercalate ((sortBy (fun a b => memLt a.2 b.2) ps).map (·.1)) := by
  have hr' : PyIdent2.NoEmptyMacro (some rs) := fun ms e y hy => by cases e; exact hr y hy
  have hp' : PyIdent2.NoEmptyMacro (some ps) := fun ms e y hy => by cases e; exact hp y hy
  obtain ⟨m1, m2, _, _⟩ := PyIdent2.py_reaction_ok rs ps (some t) none hr' hp' res h
  obtain ⟨e1, e2, _, _, _, _, _, _, _, e3, _⟩ := PySetObj.py_reaction_lists_sorted {} 0 rs ps (some t) res.2.1 none res.1 hr hp o ho
  rw [PyIdent2.py_ReactionS_identifiers_eq _ _ _ _ hr' hp'] at h
  unfold pySorted at h
  simp only [m1, m2, Bool.false_eq_true, if_false] at h
  injection h with h
  subst h
  refine ⟨_, _, rfl, ?_, rfl, rfl⟩
  rw [py_reaction_string_eq, h3, e3, h1, h2, e1, e2]

/-- the two texts are NOT the same text (so "the automatic name is the reaction string" is false of this code): kernel-checked, with the
    identity for the padding functions -/
theorem name_is_not_reaction_string :
    ∃ nm str, (py_ReactionS_identifiers (some [("A", .c (["a"], ['.']))]) (some [("B", .c (["b"], ['.']))]) (some "open") none).map (·.2.1) = .ok (some nm) ∧
      ((py_ReactionSStr_reaction_string id id (fun _ => "")).exec
        { _reactants := [("A", .c (["a"], ['.']))], _products := [("B", .c (["b"], ['.']))], _rtype := some "open", _name := some nm, _const := none, _units := none }).1 = .ok str ∧
      nm = "[open] A -> B" ∧ str = "reaction [open] A -> B" ∧ nm ≠ str :=
  ⟨_, _, rfl, rfl, rfl, rfl, by decide⟩

end Dsd.PyStrings

#print axioms Dsd.PyStrings.py_reaction_string_eq
#print axioms Dsd.PyStrings.py_reaction_string_no_rate
#print axioms Dsd.PyStrings.py_reaction_string_rate
#print axioms Dsd.PyStrings.py_reaction_str
#print axioms Dsd.PyStrings.py_reaction_name_and_string_agree
#print axioms Dsd.PyStrings.name_is_not_reaction_string

