import DsdVerif.Gen.Dunders

/-! C10 — the comparison and hashing methods as they are WRITTEN in `base_classes.py` (reduced by the translator to
"operator applied to these attributes of self and other", Gen/Dunders.lean, regenerated on every run) are coherent:

* `__eq__` compares a tuple `K_eq` of attributes (after the `isinstance` guard), `__ne__` is its negation;
* `__lt__ __gt__ __le__ __ge__` apply `< > <= >=` — each method its own operator — to one and the same non-empty key
  `K_ord`, and `K_ord ⊆ K_eq`: equal objects are equivalent in the order, and since Python's `< > <= >=` on strings and
  tuples of strings form a total order (Props/C11Sets: `lexLt_strictTotal`, `ckeyLt_strictTotal`, `mkeyLt_strictTotal`,
  `rkeyLt_strictTotal_on_typed`, `lt_iff_le_not_le`), the four methods form a total preorder;
* `__hash__` hashes a non-empty key `K_hash ⊆ K_eq`: equal objects have equal hashes.

A change that makes one method use another attribute or another operator re-opens this obligation. -/
namespace Dsd.C10
open Dsd

def rowsOf (c : String) : List (String × String × List String) := (Gen.dunders.filter (·.1 == c)).map (·.2)

def keyOf (c m op : String) : Option (List String) :=
  match (rowsOf c).filter (fun r => r.1 == m) with
  | [(_, op', k)] => if op' == op then some k else none
  | _ => none

def subset (a b : List String) : Bool := a.all (fun x => b.contains x)

/-- the coherence conditions for one class -/
def coherentClass (c : String) : Bool :=
  match keyOf c "__eq__" "==", keyOf c "__ne__" "not ==", keyOf c "__hash__" "hash",
        keyOf c "__lt__" "<", keyOf c "__gt__" ">", keyOf c "__le__" "<=", keyOf c "__ge__" ">=" with
  | some ke, some _, some kh, some k1, some k2, some k3, some k4 =>
    !ke.isEmpty && !kh.isEmpty && subset kh ke && !k1.isEmpty && subset k1 ke && k2 == k1 && k3 == k1 && k4 == k1
  | _, _, _, _, _, _, _ => false

/-- **the written comparison / hashing methods of all four classes are coherent** (StrandS inherits ComplexS's) -/
theorem dunders_coherent : ∀ c ∈ ["DomainS", "ComplexS", "MacrostateS", "ReactionS"], coherentClass c = true := by decide

/-- what the keys are: domains are equal by (name, length), ordered and hashed by name; everything else by canonical form -/
theorem dunder_keys :
    keyOf "DomainS" "__eq__" "==" = some ["name", "length"] ∧ keyOf "DomainS" "__lt__" "<" = some ["name"] ∧
    keyOf "DomainS" "__hash__" "hash" = some ["name"] ∧
    (∀ c ∈ ["ComplexS", "MacrostateS", "ReactionS"], keyOf c "__eq__" "==" = some ["canonical_form"] ∧
      keyOf c "__lt__" "<" = some ["canonical_form"] ∧ keyOf c "__hash__" "hash" = some ["canonical_form"]) := by decide

/-- non-vacuity of the check itself: a table in which `__le__` uses `<` is rejected -/
example : (match [("X", "__le__", "<", ["name"])].filter (fun r => r.2.1 == "__le__") with
           | [(_, _, op, _)] => op == "<=" | _ => false) = false := by decide

end Dsd.C10
