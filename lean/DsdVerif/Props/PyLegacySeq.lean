/-
The legacy `SequenceConstraint` AS WRITTEN (dsdobjects/core/deprecated.py, translated by translator/pylegacy4.py into Gen/PyLegacySeq.lean)
against the CURRENT IUPAC functions AS WRITTEN (Gen/PyIupac.lean) - no hand model in the statements:

  `py_seq_init_eq`           `SequenceConstraint(s, mol)` for mol = DNA / RNA leaves the object `mkS s mol`
  `py_seq_complement_eq`     the `complement` property = `complement(s, material=mol)` for both molecules on every IUPAC sequence
                             (per code both translations are evaluated by the kernel: `compl_codes_dna/rna`; the legacy dictionary
                             display with the run-time key `T` is translated where it stands)
  `py_seq_wc_codes_dna/rna`  per code A C G T/U N the legacy Watson-Crick dictionary = the current table (the legacy one has no other keys)
LEFT (translated and run in the stream, no theorem yet): `wc_complement` / reverse variants along the sequence, `add_constraint` vs
`py_add_constraints`, `~~c == c`; `__add__`, `__radd__`, `__invert__`, `__eq__`, `__ne__`, `__str__` are not translated.
-/
import DsdVerif.Lemmas.PyLegacySeq

namespace Dsd.PyLegacySeq
open Dsd Dsd.Gen

theorem py_seq_init_eq (s : List Char) (mol : String) (h : mol = "DNA" ∨ mol = "RNA") (st : SequenceConstraint.Self) :
    (py_SequenceConstraint_init s mol).exec st = (.ok (), mkS s mol) := exec_init s mol h st

theorem py_seq_complement_eq (s : List Char) (mol : String) (hm : mol = "DNA" ∨ mol = "RNA") (hs : ∀ c ∈ s, c ∈ codesOf mol) :
    (py_SequenceConstraint_complement).exec (mkS s mol) = (py_complement s mol, mkS s mol) := complement_eq s mol hm hs

theorem py_seq_wc_codes_dna : ∀ c ∈ wcCodesOf "DNA", ((py_SequenceConstraint_wc_complement1 [c]).exec (st0 ['T'])).1 =
    (Py.dictGet wc_complement_dna c).map (fun x => [x]) := wc_codes_dna
theorem py_seq_wc_codes_rna : ∀ c ∈ wcCodesOf "RNA", ((py_SequenceConstraint_wc_complement1 [c]).exec (st0 ['U'])).1 =
    (Py.dictGet wc_complement_rna c).map (fun x => [x]) := wc_codes_rna

#print axioms py_seq_init_eq
#print axioms py_seq_complement_eq
#print axioms py_seq_wc_codes_dna
#print axioms py_seq_wc_codes_rna

end Dsd.PyLegacySeq
