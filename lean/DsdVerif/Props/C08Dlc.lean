/-
C08, last clause: `is_domainlevel_complement` is true exactly when every pair joins a domain with its
complement.  Model: Model/Dlc.lean.
-/
import DsdVerif.Model.Dlc
import DsdVerif.Lemmas.Locus
import DsdVerif.Lemmas.DomainNames
import DsdVerif.Props.C06Loci

namespace Dsd.C08
open Dsd

/-! ### the cell -/

/-- the pair `(l, l')` joins a domain with its complement -/
def CompAt (stab : List (List Dom)) (l l' : Locus) : Prop :=
  ∃ d d', getL stab l = some d ∧ getL stab l' = some d' ∧ d.name = compName d'.name ∧ d.len = d'.len

theorem dom_eq_compl (d d' : Dom) : d = d'.compl ↔ d.name = compName d'.name ∧ d.len = d'.len := by
  cases d; cases d'; simp [Dom.compl]

theorem getDomain_eq (stab : List (List Dom)) (l : Locus) :
    getDomain stab l = match getL stab l with
      | some d => .ok d
      | none => .error (.fault "IndexError") := by
  unfold getDomain getL
  cases stab[l.1]? with
  | none => rfl
  | some s => cases h : s[l.2]? <;> simp [h]

theorem getDomain_ok_iff (stab : List (List Dom)) (l : Locus) (d : Dom) :
    getDomain stab l = .ok d ↔ getL stab l = some d := by
  rw [getDomain_eq]; cases getL stab l <;> simp

theorem dlcCell_none (stab : List (List Dom)) (si di : Nat) : dlcCell stab si di none = .ok true := rfl

theorem dlcCell_true_iff (stab : List (List Dom)) (si di : Nat) (c : Locus) :
    dlcCell stab si di (some c) = .ok true ↔ CompAt stab (si, di) c := by
  unfold dlcCell CompAt
  simp only [getDomain_eq]
  cases h1 : getL stab (si, di) with
  | none => simp
  | some d =>
    cases h2 : getL stab c with
    | none => simp
    | some d' => simp [dom_eq_compl]

theorem dlcCell_ok_of_get (stab : List (List Dom)) (si di : Nat) (c : Locus) (d d' : Dom)
    (h1 : getL stab (si, di) = some d) (h2 : getL stab c = some d') :
    dlcCell stab si di (some c) = .ok (decide (d.name = compName d'.name ∧ d.len = d'.len)) := by
  unfold dlcCell
  simp only [getDomain_eq, h1, h2]
  congr 1
  exact decide_eq_decide.mpr (dom_eq_compl d d')

/-- the only exception is IndexError, raised exactly when the own locus or the partner locus is
    outside the strand table (the own locus is looked up first) -/
theorem dlcCell_error_iff (stab : List (List Dom)) (si di : Nat) (c : Locus) (e : Err) :
    dlcCell stab si di (some c) = .error e ↔
      e = .fault "IndexError" ∧ (getL stab (si, di) = none ∨ getL stab c = none) := by
  unfold dlcCell
  simp only [getDomain_eq]
  cases h1 : getL stab (si, di) with
  | none => simp [eq_comm]
  | some d =>
    cases h2 : getL stab c with
    | none => simp [eq_comm]
    | some d' => simp

/-! ### the loops -/

theorem dlcRow_true_iff (stab : List (List Dom)) (si k : Nat) (row : List (Option Locus)) :
    dlcRow stab si k row = .ok true ↔ ∀ j o, row[j]? = some o → dlcCell stab si (k + j) o = .ok true := by
  induction row generalizing k with
  | nil => simp [dlcRow]
  | cons o rest ih =>
    unfold dlcRow
    constructor
    · intro h j o' hj
      cases hc : dlcCell stab si k o with
      | error e => simp [hc] at h
      | ok b =>
        cases b with
        | false => simp [hc] at h
        | true =>
          simp only [hc] at h
          cases j with
          | zero => simp at hj; subst hj; simpa using hc
          | succ j =>
            have := (ih (k + 1)).mp h j o' (by simpa using hj)
            rwa [show k + 1 + j = k + (j + 1) by omega] at this
    · intro h
      have h0 := h 0 o (by simp)
      simp only [Nat.add_zero] at h0
      simp only [h0]
      apply (ih (k + 1)).mpr
      intro j o' hj
      have := h (j + 1) o' (by simpa using hj)
      rwa [show k + (j + 1) = k + 1 + j by omega] at this

theorem dlcRow_total (stab : List (List Dom)) (si k : Nat) (row : List (Option Locus))
    (h : ∀ j o, row[j]? = some o → ∃ b, dlcCell stab si (k + j) o = .ok b) :
    ∃ b, dlcRow stab si k row = .ok b := by
  induction row generalizing k with
  | nil => exact ⟨true, rfl⟩
  | cons o rest ih =>
    unfold dlcRow
    obtain ⟨b, hb⟩ := h 0 o (by simp)
    simp only [Nat.add_zero] at hb
    cases b with
    | false => exact ⟨false, by simp [hb]⟩
    | true =>
      simp only [hb]
      apply ih (k + 1)
      intro j o' hj
      have := h (j + 1) o' (by simpa using hj)
      rwa [show k + (j + 1) = k + 1 + j by omega] at this

theorem dlcRows_true_iff (stab : List (List Dom)) (k : Nat) (pt : PairTable) :
    dlcRows stab k pt = .ok true ↔
      ∀ i j o, getL pt (i, j) = some o → dlcCell stab (k + i) j o = .ok true := by
  induction pt generalizing k with
  | nil => simp [dlcRows, getL]
  | cons row rest ih =>
    unfold dlcRows
    constructor
    · intro h i j o' hj
      cases hc : dlcRow stab k 0 row with
      | error e => simp [hc] at h
      | ok b =>
        cases b with
        | false => simp [hc] at h
        | true =>
          simp only [hc] at h
          cases i with
          | zero =>
            have := (dlcRow_true_iff stab k 0 row).mp hc j o' (by simpa [getL] using hj)
            simpa using this
          | succ i =>
            have := (ih (k + 1)).mp h i j o' (by simpa [getL] using hj)
            rwa [show k + 1 + i = k + (i + 1) by omega] at this
    · intro h
      have h0 : dlcRow stab k 0 row = .ok true := by
        apply (dlcRow_true_iff stab k 0 row).mpr
        intro j o hj
        have := h 0 j o (by simpa [getL] using hj)
        simpa using this
      simp only [h0]
      apply (ih (k + 1)).mpr
      intro i j o' hj
      have := h (i + 1) j o' (by simpa [getL] using hj)
      rwa [show k + (i + 1) = k + 1 + i by omega] at this

theorem dlcRows_total (stab : List (List Dom)) (k : Nat) (pt : PairTable)
    (h : ∀ i j o, getL pt (i, j) = some o → ∃ b, dlcCell stab (k + i) j o = .ok b) :
    ∃ b, dlcRows stab k pt = .ok b := by
  induction pt generalizing k with
  | nil => exact ⟨true, rfl⟩
  | cons row rest ih =>
    unfold dlcRows
    obtain ⟨b, hb⟩ := dlcRow_total stab k 0 row (by
      intro j o hj
      have := h 0 j o (by simpa [getL] using hj)
      simpa using this)
    cases b with
    | false => exact ⟨false, by simp [hb]⟩
    | true =>
      simp only [hb]
      apply ih (k + 1)
      intro i j o' hj
      have := h (i + 1) j o' (by simpa [getL] using hj)
      rwa [show k + (i + 1) = k + 1 + i by omega] at this

/-- an exception of the loops is an exception of some cell -/
theorem dlcRow_error (stab : List (List Dom)) (si k : Nat) (row : List (Option Locus)) (e : Err)
    (h : dlcRow stab si k row = .error e) : ∃ j o, row[j]? = some o ∧ dlcCell stab si (k + j) o = .error e := by
  induction row generalizing k with
  | nil => simp [dlcRow] at h
  | cons o rest ih =>
    unfold dlcRow at h
    cases hc : dlcCell stab si k o with
    | error e' =>
      simp only [hc, Except.error.injEq] at h
      subst h
      exact ⟨0, o, by simp, by simpa using hc⟩
    | ok b =>
      cases b with
      | false => simp [hc] at h
      | true =>
        simp only [hc] at h
        obtain ⟨j, o', h1, h2⟩ := ih (k + 1) h
        exact ⟨j + 1, o', by simpa using h1, by rwa [show k + (j + 1) = k + 1 + j by omega]⟩

theorem dlcRows_error (stab : List (List Dom)) (k : Nat) (pt : PairTable) (e : Err)
    (h : dlcRows stab k pt = .error e) :
    ∃ i j o, getL pt (i, j) = some o ∧ dlcCell stab (k + i) j o = .error e := by
  induction pt generalizing k with
  | nil => simp [dlcRows] at h
  | cons row rest ih =>
    unfold dlcRows at h
    cases hc : dlcRow stab k 0 row with
    | error e' =>
      simp only [hc, Except.error.injEq] at h
      subst h
      obtain ⟨j, o, h1, h2⟩ := dlcRow_error stab k 0 row e' hc
      exact ⟨0, j, o, by simpa [getL] using h1, by simpa using h2⟩
    | ok b =>
      cases b with
      | false => simp [hc] at h
      | true =>
        simp only [hc] at h
        obtain ⟨i, j, o', h1, h2⟩ := ih (k + 1) h
        exact ⟨i + 1, j, o', by simpa [getL] using h1, by rwa [show k + (i + 1) = k + 1 + i by omega]⟩

/-! ### pair-table entries -/

theorem ptGet_some_iff (pt : PairTable) (l l' : Locus) :
    C06.ptGet pt l = some l' ↔ getL pt l = some (some l') := by
  rw [C06.ptGet_eq]
  cases getL pt l with
  | none => simp
  | some o => cases o <;> simp

/-! ### the claims -/

/-- `True` exactly when every pair joins a domain with its complement — this direction needs no
    hypothesis on the tables: an IndexError is not `True`, and the right-hand side asks for both domains -/
theorem dlc_true_iff_unconditional (stab : List (List Dom)) (pt : PairTable) :
    isDomainLevelComplement stab pt = .ok true ↔
      ∀ l l', C06.ptGet pt l = some l' →
        ∃ d d', getL stab l = some d ∧ getL stab l' = some d' ∧ d.name = compName d'.name ∧ d.len = d'.len := by
  unfold isDomainLevelComplement
  rw [dlcRows_true_iff]
  constructor
  · intro h l l' hp
    have := h l.1 l.2 (some l') ((ptGet_some_iff pt l l').mp hp)
    rw [Nat.zero_add, dlcCell_true_iff] at this
    exact this
  · intro h i j o ho
    cases o with
    | none => rfl
    | some c =>
      rw [Nat.zero_add, dlcCell_true_iff]
      exact h (i, j) c ((ptGet_some_iff pt (i, j) c).mpr ho)

/-- the statement as requested (the two hypotheses are not needed for this equivalence) -/
theorem dlc_true_iff (stab : List (List Dom)) (pt : PairTable)
    (_hshape : stab.map List.length = pt.map List.length)
    (_hvalid : ∀ l l', C06.ptGet pt l = some l' → ValidL (pt.map List.length) l') :
    isDomainLevelComplement stab pt = .ok true ↔
      ∀ l l', C06.ptGet pt l = some l' →
        ∃ d d', getL stab l = some d ∧ getL stab l' = some d' ∧ d.name = compName d'.name ∧ d.len = d'.len :=
  dlc_true_iff_unconditional stab pt

/-- both ends of every pair carry a domain -/
theorem pair_domains (stab : List (List Dom)) (pt : PairTable)
    (hshape : stab.map List.length = pt.map List.length)
    (hvalid : ∀ l l', C06.ptGet pt l = some l' → ValidL (pt.map List.length) l')
    (l l' : Locus) (hp : C06.ptGet pt l = some l') :
    ∃ d d', getL stab l = some d ∧ getL stab l' = some d' := by
  have hv : ValidL (stab.map List.length) l := by
    rw [hshape]; exact getL_valid pt l _ ((ptGet_some_iff pt l l').mp hp)
  have hv' : ValidL (stab.map List.length) l' := by rw [hshape]; exact hvalid l l' hp
  obtain ⟨d, hd⟩ := getL_of_valid stab l hv
  obtain ⟨d', hd'⟩ := getL_of_valid stab l' hv'
  exact ⟨d, d', hd, hd'⟩

/-- never a fault on tables of the same shape with valid partners -/
theorem dlc_total (stab : List (List Dom)) (pt : PairTable)
    (hshape : stab.map List.length = pt.map List.length)
    (hvalid : ∀ l l', C06.ptGet pt l = some l' → ValidL (pt.map List.length) l') :
    ∃ b, isDomainLevelComplement stab pt = .ok b := by
  unfold isDomainLevelComplement
  apply dlcRows_total
  intro i j o ho
  cases o with
  | none => exact ⟨true, rfl⟩
  | some c =>
    obtain ⟨d, d', hd, hd'⟩ := pair_domains stab pt hshape hvalid (i, j) c ((ptGet_some_iff pt (i, j) c).mpr ho)
    rw [Nat.zero_add]
    exact ⟨_, dlcCell_ok_of_get stab i j c d d' hd hd'⟩

/-- `False` exactly when some pair joins two domains that are not complements -/
theorem dlc_false_iff (stab : List (List Dom)) (pt : PairTable)
    (hshape : stab.map List.length = pt.map List.length)
    (hvalid : ∀ l l', C06.ptGet pt l = some l' → ValidL (pt.map List.length) l') :
    isDomainLevelComplement stab pt = .ok false ↔
      ¬ ∀ l l', C06.ptGet pt l = some l' →
        ∃ d d', getL stab l = some d ∧ getL stab l' = some d' ∧ d.name = compName d'.name ∧ d.len = d'.len := by
  rw [← dlc_true_iff_unconditional]
  obtain ⟨b, hb⟩ := dlc_total stab pt hshape hvalid
  rw [hb]
  cases b <;> simp

/-- the same with the offending pair and its two domains named -/
theorem dlc_false_iff_witness (stab : List (List Dom)) (pt : PairTable)
    (hshape : stab.map List.length = pt.map List.length)
    (hvalid : ∀ l l', C06.ptGet pt l = some l' → ValidL (pt.map List.length) l') :
    isDomainLevelComplement stab pt = .ok false ↔
      ∃ l l' d d', C06.ptGet pt l = some l' ∧ getL stab l = some d ∧ getL stab l' = some d' ∧
        ¬ (d.name = compName d'.name ∧ d.len = d'.len) := by
  rw [dlc_false_iff stab pt hshape hvalid]
  constructor
  · intro h
    apply Classical.byContradiction
    intro hn
    apply h
    intro l l' hp
    obtain ⟨d, d', hd, hd'⟩ := pair_domains stab pt hshape hvalid l l' hp
    refine ⟨d, d', hd, hd', ?_⟩
    apply Classical.byContradiction
    intro hc
    exact hn ⟨l, l', d, d', hp, hd, hd', hc⟩
  · rintro ⟨l, l', d, d', hp, hd, hd', hc⟩ h
    obtain ⟨e, e', he, he', hn, hl⟩ := h l l' hp
    rw [hd] at he; rw [hd'] at he'
    cases he; cases he'
    exact hc ⟨hn, hl⟩

/-- without the hypotheses: the only exception is IndexError, and it means that some pair has an end
    outside the strand table -/
theorem dlc_error (stab : List (List Dom)) (pt : PairTable) (e : Err)
    (h : isDomainLevelComplement stab pt = .error e) :
    e = .fault "IndexError" ∧ ∃ l l', C06.ptGet pt l = some l' ∧ (getL stab l = none ∨ getL stab l' = none) := by
  obtain ⟨i, j, o, ho, hc⟩ := dlcRows_error stab 0 pt e h
  cases o with
  | none => simp [dlcCell] at hc
  | some c =>
    rw [Nat.zero_add, dlcCell_error_iff] at hc
    exact ⟨hc.1, (i, j), c, (ptGet_some_iff pt (i, j) c).mpr ho, hc.2⟩

/-! ### tables from `make_pair_table` -/

/-- the partners written by `make_pair_table` are loci of the table -/
theorem mpt_partner_valid (ss : List Char) (brk : Char) (pt : PairTable) (h : makePairTable ss brk = .ok pt)
    (l l' : Locus) (hp : C06.ptGet pt l = some l') : ValidL (pt.map List.length) l' := by
  have := ((C06.mpt_involution_nested ss brk pt h).2.1 l l' hp).2.1
  exact getL_valid pt l' _ ((ptGet_some_iff pt l' l).mp this)

/-- for every well-formed structure and every strand table of its shape the check does not fault, is
    `True` exactly when every pair joins a domain with its complement, and `False` exactly otherwise -/
theorem dlc_of_make_pair_table (ss : List Char) (brk : Char) (pt : PairTable) (stab : List (List Dom))
    (h : makePairTable ss brk = .ok pt) (hshape : stab.map List.length = pt.map List.length) :
    (∀ l l', C06.ptGet pt l = some l' → ValidL (pt.map List.length) l') ∧
    (isDomainLevelComplement stab pt = .ok true ↔
      ∀ l l', C06.ptGet pt l = some l' →
        ∃ d d', getL stab l = some d ∧ getL stab l' = some d' ∧ d.name = compName d'.name ∧ d.len = d'.len) ∧
    (∃ b, isDomainLevelComplement stab pt = .ok b) ∧
    (isDomainLevelComplement stab pt = .ok false ↔
      ¬ ∀ l l', C06.ptGet pt l = some l' →
        ∃ d d', getL stab l = some d ∧ getL stab l' = some d' ∧ d.name = compName d'.name ∧ d.len = d'.len) :=
  have hv := mpt_partner_valid ss brk pt h
  ⟨hv, dlc_true_iff stab pt hshape hv, dlc_total stab pt hshape hv, dlc_false_iff stab pt hshape hv⟩

/-- in terms of the strand table of the string: `stab` has the shape of `ss` split at the break -/
theorem dlc_of_make_pair_table' (ss : List Char) (brk : Char) (pt : PairTable) (stab : List (List Dom))
    (h : makePairTable ss brk = .ok pt) (hshape : stab.map List.length = (splitOn brk ss).map List.length) :
    isDomainLevelComplement stab pt = .ok true ↔
      ∀ l l', C06.ptGet pt l = some l' →
        ∃ d d', getL stab l = some d ∧ getL stab l' = some d' ∧ d.name = compName d'.name ∧ d.len = d'.len :=
  (dlc_of_make_pair_table ss brk pt stab h (by rw [hshape, C06.mpt_shape ss brk pt h])).2.1

/-! ### one side of each pair suffices -/

theorem locus_lt_total (a b : Locus) (h : a ≠ b) : Locus.lt a b = true ∨ Locus.lt b a = true := by
  obtain ⟨a1, a2⟩ := a
  obtain ⟨b1, b2⟩ := b
  simp only [Locus.lt, Bool.or_eq_true, decide_eq_true_eq, Bool.and_eq_true, beq_iff_eq]
  have : ¬ (a1 = b1 ∧ a2 = b2) := by
    intro e; apply h; rw [e.1, e.2]
  omega

/-- for a symmetric, fixed-point-free pair table and names on which `compName` is an involution, it
    suffices to check every pair from its smaller end -/
theorem dlc_symmetric_check_redundant (stab : List (List Dom)) (pt : PairTable)
    (hsym : ∀ l l', C06.ptGet pt l = some l' → C06.ptGet pt l' = some l)
    (hirr : ∀ l l', C06.ptGet pt l = some l' → l ≠ l')
    (hinv : ∀ l d, getL stab l = some d → compName (compName d.name) = d.name) :
    isDomainLevelComplement stab pt = .ok true ↔
      ∀ l l', C06.ptGet pt l = some l' → Locus.lt l l' = true →
        ∃ d d', getL stab l = some d ∧ getL stab l' = some d' ∧ d.name = compName d'.name ∧ d.len = d'.len := by
  rw [dlc_true_iff_unconditional]
  constructor
  · intro h l l' hp _
    exact h l l' hp
  · intro h l l' hp
    rcases locus_lt_total l l' (hirr l l' hp) with hlt | hlt
    · exact h l l' hp hlt
    · obtain ⟨d', d, hd', hd, hn, hl⟩ := h l' l (hsym l l' hp) hlt
      refine ⟨d, d', hd, hd', ?_, hl.symm⟩
      rw [hn, hinv l d hd]

/-- the structures accepted by `make_pair_table` are symmetric and fixed-point free -/
theorem dlc_one_sided_of_make_pair_table (ss : List Char) (brk : Char) (pt : PairTable) (stab : List (List Dom))
    (h : makePairTable ss brk = .ok pt)
    (hinv : ∀ l d, getL stab l = some d → compName (compName d.name) = d.name) :
    isDomainLevelComplement stab pt = .ok true ↔
      ∀ l l', C06.ptGet pt l = some l' → Locus.lt l l' = true →
        ∃ d d', getL stab l = some d ∧ getL stab l' = some d' ∧ d.name = compName d'.name ∧ d.len = d'.len :=
  dlc_symmetric_check_redundant stab pt
    (fun l l' hp => ((C06.mpt_involution_nested ss brk pt h).2.1 l l' hp).2.1)
    (fun l l' hp => ((C06.mpt_involution_nested ss brk pt h).2.1 l l' hp).1) hinv

/-- names with at most one trailing star satisfy the involution hypothesis -/
theorem compName_involutive_of_single_star (n : String)
    (h : isStarred n = true → isStarred (compName n) = false) : compName (compName n) = n :=
  DomL.cname_cname n h

/-! ### non-vacuity -/

/-- `a b + b* a*` with `((+))` -/
def exStab : List (List Dom) := [[⟨"a", 5⟩, ⟨"b", 7⟩], [⟨"b*", 7⟩, ⟨"a*", 5⟩]]
/-- `a b + b* c` with `((+))` -/
def exStabBad : List (List Dom) := [[⟨"a", 5⟩, ⟨"b", 7⟩], [⟨"b*", 7⟩, ⟨"c", 5⟩]]
/-- right names, wrong length -/
def exStabLen : List (List Dom) := [[⟨"a", 5⟩, ⟨"b", 7⟩], [⟨"b*", 7⟩, ⟨"a*", 6⟩]]

example : makePairTable "((+))".toList = .ok [[some (1, 1), some (1, 0)], [some (0, 1), some (0, 0)]] := by decide

example : (makePairTable "((+))".toList).map (isDomainLevelComplement exStab) = .ok (.ok true) := by decide
example : (makePairTable "((+))".toList).map (isDomainLevelComplement exStabBad) = .ok (.ok false) := by decide
example : (makePairTable "((+))".toList).map (isDomainLevelComplement exStabLen) = .ok (.ok false) := by decide

/-- the hypotheses of the theorems are met by the example -/
example : exStab.map List.length = [[some (1, 1), some (1, 0)], [some (0, 1), some (0, 0)]].map List.length := by
  decide

/-- faults: a partner outside the strand table, and an own locus outside it; the own locus is looked up
    first, and an unpaired position outside the strand table is not looked up at all -/
example : isDomainLevelComplement exStab [[some (2, 0)]] = .error (.fault "IndexError") := by decide
example : isDomainLevelComplement exStab [[none, none, some (0, 0)]] = .error (.fault "IndexError") := by decide
example : isDomainLevelComplement exStab [[none, none, none], [], [none]] = .ok true := by decide
/-- the first offending position decides: `False` at (0,0) before the fault at (0,1), and the reverse -/
example : isDomainLevelComplement exStab [[some (0, 1), some (5, 5)]] = .ok false := by decide
example : isDomainLevelComplement exStab [[some (5, 5), some (0, 0)]] = .error (.fault "IndexError") := by decide

/-- why `dlc_symmetric_check_redundant` asks for an involution: on `a* + a**` with `(+)` the smaller end
    passes (`a* = ~a**`), the larger end does not (`a** ≠ ~a* = a`), and the check is `False` -/
example :
    isDomainLevelComplement [[⟨"a*", 5⟩], [⟨"a**", 5⟩]] [[some (1, 0)], [some (0, 0)]] = .ok false ∧
    isDomainLevelComplement [[⟨"a*", 5⟩], [⟨"a**", 5⟩]] [[some (1, 0)], [none]] = .ok true := by decide

end Dsd.C08
