/- C14 — the reader builds the declared system: theorems about the reader model (C14Reader) and the component theorems of C17. -/
import DsdVerif.Props.C17
import DsdVerif.Props.C14Reader
import DsdVerif.Props.C14Sigma
import DsdVerif.Props.C14SigmaCplx
import DsdVerif.Props.C14Text
import DsdVerif.Props.C14SigmaRxn
import DsdVerif.Props.C14SigmaX
import DsdVerif.Props.C14TextRxn
import DsdVerif.Props.C14EndToEnd
