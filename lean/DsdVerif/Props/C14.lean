/- C14 — the reader builds the declared system: component theorems are imported from C17 / C12 when available. -/
import DsdVerif.Props.C17
