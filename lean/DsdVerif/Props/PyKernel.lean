/-
`resolve_kernel_loops` (dsdobjects/objectio.py) AS WRITTEN: its statement-level translation `Gen.py_resolve_kernel_loops`
(Gen/PyKernel.lean, regenerated from the working tree by translator/pykernel.py) is the hand-written model `resolveKernel`
(Model/Kernel.lean) that C12 / C14 / C16 reason about, with the same recursion budget - so C12's round-trip theorems are
statements about the code.

Where the two differ: the model computes the complement name with the total `compName` (`compName "" = "*"`), the code evaluates
`old[-1]` of the empty str, an IndexError.  The names that can stand before a nested list are the tokens of the forest and
complement names of earlier ones, so the equality is stated for forests whose names are non-empty and do not begin with `*`
(`forestOk`; every PIL domain name and `+` is such a name: `goodNames_of_legal`).  Both halves of the hypothesis are needed
(`model_differs_on_empty_name`, `model_differs_after_star_name`).  `struct[-1] = '('` on an empty list (a nested list that nothing
precedes) is an IndexError on both sides (`group_first_raises`).
-/
import DsdVerif.Lemmas.PyKernel
import DsdVerif.Lemmas.PyKernelTokens
import DsdVerif.Props.C12Kernel
import DsdVerif.Props.C12Text
import DsdVerif.Lemmas.PyObjKernel

namespace Dsd.PyKernel
open Dsd Dsd.PP Dsd.Gen Dsd.PyKernelL

/-! ### the translation is the model -/

/-- **`py_resolve_kernel_loops = resolveKernel`**: for every recursion budget and every token forest whose names (at any depth)
    are non-empty and do not begin with a star.  Same budget on both sides: they also agree on running out of it. -/
theorem py_resolve_kernel_loops_eq_model (fuel : Nat) (toks : List Tree) (h : forestOk toks = true) :
    py_resolve_kernel_loops fuel toks = resolveKernel fuel toks :=
  py_eq_model fuel toks h

/-- the hypothesis cannot be dropped: with an EMPTY name before a nested list the code raises IndexError (`old[-1]` of `''`)
    where the totalised model answers with the complement name `"*"`.  (CPython: `resolve_kernel_loops(['', []])` -> IndexError.) -/
theorem model_differs_on_empty_name :
    py_resolve_kernel_loops 2 [.tok "", .grp []] = .error (.fault "IndexError") ∧
    resolveKernel 2 [.tok "", .grp []] = .ok (["", "*"], ['(', ')']) := by
  constructor <;> decide

/-- "non-empty" alone is not enough either: the complement name of `"*"` is the empty str, which then stands before the second
    nested list.  (CPython: `resolve_kernel_loops(['*', [], []])` -> IndexError.) -/
theorem model_differs_after_star_name :
    py_resolve_kernel_loops 2 [.tok "*", .grp [], .grp []] = .error (.fault "IndexError") ∧
    resolveKernel 2 [.tok "*", .grp [], .grp []] = .ok (["*", "", "*"], ['(', '(', ')']) := by
  constructor <;> decide

/-- a nested list that nothing precedes: IndexError in the code (`struct[-1] = '('` on the empty list) and in the model, for any
    names and any positive budget -/
theorem group_first_raises (fuel : Nat) (ts rest : List Tree) :
    py_resolve_kernel_loops (fuel + 1) (.grp ts :: rest) = .error (.fault "IndexError") ∧
    resolveKernel (fuel + 1) (.grp ts :: rest) = .error (.fault "IndexError") := by
  constructor
  · rw [py_succ, List.foldlM_cons, step_grp_empty _ _ _ _ rfl]; rfl
  · rw [resolveKernel_succ, List.foldlM_cons]; rfl

/-- with NO hypothesis on the names: for every forest and every budget the code answers like the model or raises IndexError -
    the model never gives a different answer, it only goes on where the code stops (the empty-name corner above) -/
theorem py_resolve_kernel_loops_eq_model_or_index_error (fuel : Nat) (toks : List Tree) :
    py_resolve_kernel_loops fuel toks = resolveKernel fuel toks ∨
    py_resolve_kernel_loops fuel toks = .error (.fault "IndexError") :=
  py_eq_model_or_index_error fuel toks

/-- whatever the code returns, the model returns (all forests, all budgets) -/
theorem py_ok_model_ok (fuel : Nat) (toks : List Tree) (r : List String × List Char)
    (h : py_resolve_kernel_loops fuel toks = .ok r) : resolveKernel fuel toks = .ok r := by
  rcases py_eq_model_or_index_error fuel toks with e | e
  · rw [← e]; exact h
  · rw [e] at h; cases h

/-- every name of a PIL-legal kernel description is a good name, and so is every name of the token forest of its kernel string -/
theorem kernel_forest_ok (seq : List String) (sst : List Char) (toks : List Tree)
    (hn : ∀ n ∈ seq, GoodName n = true) (ht : kernelTokens seq sst = some toks) : forestOk toks = true :=
  kernelTokens_ok seq sst toks hn ht

/-! ### C12's theorems, about the code as written -/

/-- `C12.resolve_kernel_inverse` for the transcription: **the code's translation of a parsed kernel pattern into (sequence,
    structure) is the exact inverse of kernel_string**, for arbitrarily nested, multi-stranded and empty-loop patterns -/
theorem py_resolve_kernel_inverse (seq : List String) (sst : List Char) (t : List (Option Nat)) (h : C12.KDescr seq sst t)
    (hc : C12.Complementary seq t) (hn : ∀ n ∈ seq, GoodName n = true)
    (toks : List Tree) (ht : kernelTokens seq sst = some toks) :
    py_resolve_kernel_loops (seq.length + 1) toks = .ok (seq, sst) := by
  rw [py_eq_model _ toks (kernelTokens_ok seq sst toks hn ht)]
  exact C12.resolve_kernel_inverse seq sst t h hc toks ht

/-- `C12.resolve_kernel_structure` for the transcription: without complementarity the structure is still recovered exactly, and
    the sequence up to the closing names -/
theorem py_resolve_kernel_structure (seq : List String) (sst : List Char) (t : List (Option Nat)) (h : C12.KDescr seq sst t)
    (hn : ∀ n ∈ seq, GoodName n = true) (toks : List Tree) (ht : kernelTokens seq sst = some toks) :
    ∃ seq', py_resolve_kernel_loops (seq.length + 1) toks = .ok (seq', sst) ∧ seq'.length = seq.length ∧
      ∀ i : Nat, sst[i]? ≠ some ')' → seq'[i]? = seq[i]? := by
  rw [py_eq_model _ toks (kernelTokens_ok seq sst toks hn ht)]
  exact C12.resolve_kernel_structure seq sst t h toks ht

/-- `C12.kernel_all_rotations` for the transcription: the round trip holds in every rotation (names whose complement operation is
    an involution, see `C12.compName_involutive`) -/
theorem py_kernel_all_rotations (seq : List String) (sst : List Char) (t : List (Option Nat)) (h : C12.KDescr seq sst t)
    (hc : C12.Complementary seq t) (hinv : ∀ n ∈ seq, compName (compName n) = n) (hn : ∀ n ∈ seq, GoodName n = true)
    (k : Nat) (r : List String × List Char) (hr : rotateN k seq sst = .ok r) :
    ∃ toks, kernelTokens r.1 r.2 = some toks ∧ py_resolve_kernel_loops (r.1.length + 1) toks = .ok r := by
  obtain ⟨toks, h1, h2⟩ := C12.kernel_all_rotations seq sst t h hc hinv k r hr
  refine ⟨toks, h1, ?_⟩
  have hnames : ∀ n ∈ r.1, n ∈ seq := by
    clear h2 h1 hinv hc h
    induction k generalizing seq sst with
    | zero => simp only [rotateN, Except.ok.injEq] at hr; subst hr; exact fun n hn => hn
    | succ k ih =>
      rw [Rot.rotateN_succ] at hr
      cases hro : rotateOnce seq sst with
      | error e => rw [hro] at hr; cases hr
      | ok r1 =>
        rw [hro] at hr
        intro n hn'
        exact C12.rotate_names seq sst r1 hro n
          (ih r1.1 r1.2 (fun m hm => hn m (C12.rotate_names seq sst r1 hro m hm)) hr n hn')
  rw [py_eq_model _ toks (kernelTokens_ok r.1 r.2 toks (fun n hn' => hn n (hnames n hn')) h1)]
  exact h2

/-- `C12.kernel_text_roundtrip` for the transcription: **parse ∘ render is the identity on (sequence, structure)** with the
    code's `resolve_kernel_loops` behind the (model of the) parser, under the budget `read_pil_line` gives it.  PIL-legal names are
    good names, so no further hypothesis is needed. -/
theorem py_kernel_text_roundtrip (name : List Char) (seq : List String) (sst : List Char) (t : List (Option Nat))
    (hn : C13.Ident name) (hl : C13.LegalNames seq sst) (hne : sst ≠ [])
    (h : C12.KDescr seq sst t) (hc : C12.Complementary seq t) :
    ∃ toks, kernelTokens seq sst = some toks ∧
      parseDoc pil_env pil_grammar
        (String.ofList (name ++ " = ".toList ++ (kernelString seq sst).toList ++ ['\n'])) =
        some [.grp [.tok "kernel-complex", C13.tokOf name, .grp toks]] ∧
      (treeSize 1000 toks < 1000 → py_resolve_kernel_loops (treeSize 1000 toks + 2) toks = .ok (seq, sst)) := by
  obtain ⟨toks, h1, h2, h3⟩ := C12.kernel_text_roundtrip name seq sst t hn hl hne h hc
  refine ⟨toks, h1, h2, fun hsz => ?_⟩
  rw [py_eq_model _ toks (kernelTokens_ok seq sst toks (goodNames_of_legal seq sst hl) h1)]
  exact h3 hsz

/-! ### end to end: the translated `ComplexS.kernel_string`, the parser, the translated `resolve_kernel_loops` -/

/-- the str that the TRANSLATED `ComplexS.kernel_string` returns for an object (which it leaves unchanged), written after
    `name = `, parses to the kernel-complex statement whose pattern the TRANSLATED `resolve_kernel_loops` turns back into the
    object's sequence and structure (`PyObj.Kernel.exec_kernel_string` ∘ `C12.kernel_text_roundtrip` ∘ the equality above) -/
theorem py_kernel_string_roundtrip (s : ComplexS.Self) (name : List Char) (t : List (Option Nat))
    (hn : C13.Ident name) (hl : C13.LegalNames s._sequence s._structure) (hne : s._structure ≠ [])
    (h : C12.KDescr s._sequence s._structure t) (hc : C12.Complementary s._sequence t) :
    ∃ ks toks, py_ComplexS_kernel_string.exec s = (.ok ks, s) ∧
      parseDoc pil_env pil_grammar (String.ofList (name ++ " = ".toList ++ ks ++ ['\n'])) =
        some [.grp [.tok "kernel-complex", C13.tokOf name, .grp toks]] ∧
      (treeSize 1000 toks < 1000 →
        py_resolve_kernel_loops (treeSize 1000 toks + 2) toks = .ok (s._sequence, s._structure)) := by
  obtain ⟨toks, _, h2, h3⟩ := py_kernel_text_roundtrip name s._sequence s._structure t hn hl hne h hc
  exact ⟨_, toks, PyObj.Kernel.exec_kernel_string s hl.1, h2, h3⟩

/-- non-vacuity: a two-strand complex with a nested loop and an empty hairpin, through the transcription -/
example : (kernelTokens ["a", "b", "+", "b*", "c", "c*", "a*"] ['(', '(', '+', ')', '(', ')', ')']).map
      (fun toks => py_resolve_kernel_loops 8 toks) =
    some (.ok (["a", "b", "+", "b*", "c", "c*", "a*"], ['(', '(', '+', ')', '(', ')', ')'])) := by decide

#print axioms py_resolve_kernel_loops_eq_model
#print axioms py_resolve_kernel_loops_eq_model_or_index_error
#print axioms py_ok_model_ok
#print axioms model_differs_on_empty_name
#print axioms model_differs_after_star_name
#print axioms group_first_raises
#print axioms kernel_forest_ok
#print axioms py_resolve_kernel_inverse
#print axioms py_resolve_kernel_structure
#print axioms py_kernel_all_rotations
#print axioms py_kernel_text_roundtrip
#print axioms py_kernel_string_roundtrip

end Dsd.PyKernel
