/-
`Singleton.__call__` and `clear_singletons` (dsdobjects/singleton.py) AS WRITTEN: the statement-level translation
`Gen.py_Singleton_call` (Gen/PySingleton.lean, regenerated from the working tree by translator/pysingleton.py) is the hand-written
model `Reg.callFull` (Model/SingletonFull.lean) and hence, for a non-empty name, `Reg.call` (Model/Registry.lean), which C01 / C02 /
C11 reason about - so C01's theorems are statements about the code.

The class (two association lists name ↦ object, key ↦ object) and the registry of live objects `Reg κ` are related by
`Rep s r`: every look-up in `_instanceNames` / `_instanceCanon` answers with the identity of the live object of that name / holding
that key.  "The registry is unchanged" therefore reads `Rep s' r` for the class `s'` after the call.

Left out of the translation (see translator/pysingleton.py): the keyword plumbing around `identifiers` (with its `assert`), what the
constructor does besides registering `initKeys`, `log.debug`, the text of the messages.
-/
import DsdVerif.Lemmas.PySingleton
import DsdVerif.Lemmas.SingletonFull
import DsdVerif.Props.C01Reg

namespace Dsd.PySingleton
open Dsd Dsd.Gen Dsd.PySingletonL
variable {κ : Type} [DecidableEq κ]

/-- the result (returned reference or exception) of the translated `__call__` on the class `s` -/
abbrev res (s : Py.SingletonCls κ) (canon : Option κ) (name : String) (fresh : Nat) (initKeys : List κ) : Except Err (Option Nat) :=
  ((py_Singleton_call canon name fresh initKeys).exec s).1

/-- the class after the translated `__call__` -/
abbrev post (s : Py.SingletonCls κ) (canon : Option κ) (name : String) (fresh : Nat) (initKeys : List κ) : Py.SingletonCls κ :=
  ((py_Singleton_call canon name fresh initKeys).exec s).2

/-- the keys a created object holds: those its `__init__` registered, and its canonical form -/
def keysOf (canon : Option κ) (initKeys : List κ) : List κ :=
  match canon with
  | some k => if initKeys.contains k then initKeys else initKeys ++ [k]
  | none => initKeys

/-! ### the translation is the model -/

/-- **`py_Singleton_call` = `Reg.callFull`**: for EVERY class state that represents a registry and every request, the code returns
    / raises what the model says (no side condition), and the class afterwards represents the registry afterwards provided that,
    when an object is created, none of the keys its `__init__` registers is held by a live object (the side condition `hnew` of
    `C01.wf_call`; `initKeys_takeover` shows what happens otherwise) -/
theorem py_call_eq_callFull (s : Py.SingletonCls κ) (r : Reg κ) (h : Rep s r) (canon : Option κ) (name : String) (fresh : Nat)
    (initKeys : List κ) (auto : Bool) :
    res s canon name fresh initKeys = toPy (r.callFull canon name fresh initKeys auto).2 ∧
    (((∃ id, (r.callFull canon name fresh initKeys auto).2 = .ret id true) → ∀ k ∈ initKeys, r.findCanon k = none) →
      Rep (post s canon name fresh initKeys) (r.callFull canon name fresh initKeys auto).1) :=
  call_eq s r h canon name fresh initKeys auto

/-- the empty class represents the empty registry -/
theorem rep_init : Rep ({} : Py.SingletonCls κ) ({} : Reg κ) := ⟨fun _ => rfl, fun _ => rfl⟩

/-- for a non-empty name: `Reg.call`, the function C01 is stated for -/
theorem callFull_call (r : Reg κ) (canon : Option κ) (name : String) (fresh : Nat) (initKeys : List κ) (auto : Bool)
    (hne : name ≠ "") :
    r.callFull canon name fresh initKeys auto = r.call canon (some name) fresh (keysOf canon initKeys) auto :=
  Reg.callFull_eq r canon name fresh initKeys _ auto hne (by intro k hk _; subst hk; rfl)

theorem py_call_eq_call (s : Py.SingletonCls κ) (r : Reg κ) (h : Rep s r) (canon : Option κ) (name : String) (fresh : Nat)
    (initKeys : List κ) (auto : Bool) (hne : name ≠ "") :
    res s canon name fresh initKeys = toPy (r.call canon (some name) fresh (keysOf canon initKeys) auto).2 ∧
    (((∃ id, (r.call canon (some name) fresh (keysOf canon initKeys) auto).2 = .ret id true) →
        ∀ k ∈ initKeys, r.findCanon k = none) →
      Rep (post s canon name fresh initKeys) (r.call canon (some name) fresh (keysOf canon initKeys) auto).1) := by
  rw [← callFull_call r canon name fresh initKeys auto hne]
  exact call_eq s r h canon name fresh initKeys auto

/-- with an EMPTY name (falsy) the request is a look-up by canonical form -/
theorem py_call_empty_name (s : Py.SingletonCls κ) (r : Reg κ) (h : Rep s r) (canon : Option κ) (fresh : Nat) (initKeys : List κ) :
    res s canon "" fresh initKeys = toPy (r.call canon none fresh [] false).2 ∧ Rep (post s canon "" fresh initKeys) r := by
  have := call_eq s r h canon "" fresh initKeys false
  rw [Reg.callFull_empty] at this
  refine ⟨this.1, ?_⟩
  have h2 := this.2
  have hr : (r.call canon none fresh [] false).1 = r := by
    cases canon with
    | none => simp [Reg.call, Reg.decide]
    | some k => cases hc : r.findCanon k <;> simp [Reg.call, Reg.decide, hc]
  rw [hr] at h2
  apply h2
  intro ⟨id, hid⟩
  cases canon with
  | none => simp [Reg.call, Reg.decide] at hid
  | some k => cases hc : r.findCanon k <;> simp [Reg.call, Reg.decide, hc] at hid

/-! ### C01's theorems, about the code as written -/

/-- `C01.consistent_returns_same`: a construction request that is consistent with a live object returns that very object; the class
    still represents the same registry -/
theorem py_consistent_returns_same (s : Py.SingletonCls κ) (r : Reg κ) (hR : Rep s r) (h : C01.WF r) (o : Obj κ) (ho : o ∈ r.objs)
    (k : κ) (hk : k ∈ o.keys) (hne : o.name ≠ "") (fresh : Nat) (initKeys : List κ) :
    res s (some k) o.name fresh initKeys = .ok (some o.id) ∧ Rep (post s (some k) o.name fresh initKeys) r := by
  have := py_call_eq_call s r hR (some k) o.name fresh initKeys false hne
  rw [C01.consistent_returns_same r h o ho k hk] at this
  exact ⟨this.1, this.2 (by intro ⟨id, hid⟩; simp at hid)⟩

/-- `C01.conflict_raises_unchanged`: a request whose name or canonical form conflicts with a live object raises SingletonError,
    whose `existing`, when set, is the live object with the requested canonical form; the registry is unchanged -/
theorem py_conflict_raises_unchanged (s : Py.SingletonCls κ) (r : Reg κ) (hR : Rep s r) (h : C01.WF r) (n : String) (k : κ)
    (hne : n ≠ "") (fresh : Nat) (initKeys : List κ) :
    (∀ o1, r.findName n = some o1 → r.findCanon k = none →
        res s (some k) n fresh initKeys = .error (.singleton none) ∧ Rep (post s (some k) n fresh initKeys) r) ∧
    (∀ o1 o2, r.findName n = some o1 → r.findCanon k = some o2 → o1.id ≠ o2.id →
        res s (some k) n fresh initKeys = .error (.singleton none) ∧ Rep (post s (some k) n fresh initKeys) r) ∧
    (∀ o2, r.findName n = none → r.findCanon k = some o2 →
        (res s (some k) n fresh initKeys = .error (.singleton (some o2.id)) ∧ Rep (post s (some k) n fresh initKeys) r) ∧
        o2 ∈ r.objs ∧ k ∈ o2.keys) := by
  have hm := py_call_eq_call s r hR (some k) n fresh initKeys false hne
  obtain ⟨c1, c2, c3⟩ := C01.conflict_raises_unchanged r h n k fresh (keysOf (some k) initKeys) false
  refine ⟨?_, ?_, ?_⟩
  · intro o1 h1 h2
    rw [c1 o1 h1 h2] at hm
    exact ⟨hm.1, hm.2 (by intro ⟨id, hid⟩; simp at hid)⟩
  · intro o1 o2 h1 h2 h3
    rw [c2 o1 o2 h1 h2 h3] at hm
    exact ⟨hm.1, hm.2 (by intro ⟨id, hid⟩; simp at hid)⟩
  · intro o2 h1 h2
    obtain ⟨e, m1, m2⟩ := c3 o2 h1 h2
    rw [e] at hm
    exact ⟨⟨hm.1, hm.2 (by intro ⟨id, hid⟩; simp at hid)⟩, m1, m2⟩

/-- `C01.name_only`: a name-only request (falsy canonical form) returns the live object of that name or raises SingletonError; it
    creates nothing -/
theorem py_name_only (s : Py.SingletonCls κ) (r : Reg κ) (hR : Rep s r) (n : String) (hne : n ≠ "") (fresh : Nat)
    (initKeys : List κ) :
    (∀ o, r.findName n = some o → res s none n fresh initKeys = .ok (some o.id) ∧ Rep (post s none n fresh initKeys) r) ∧
    (r.findName n = none → res s none n fresh initKeys = .error (.singleton none) ∧ Rep (post s none n fresh initKeys) r) := by
  have hm := py_call_eq_call s r hR none n fresh initKeys false hne
  obtain ⟨c1, c2⟩ := C01.name_only r n fresh (keysOf none initKeys) false
  constructor
  · intro o h1
    rw [c1 o h1] at hm
    exact ⟨hm.1, hm.2 (by intro ⟨id, hid⟩; simp at hid)⟩
  · intro h1
    rw [c2 h1] at hm
    exact ⟨hm.1, hm.2 (by intro ⟨id, hid⟩; simp at hid)⟩

/-- `C01.refused_no_effect`: a request that raises leaves the registry unchanged -/
theorem py_refused_no_effect (s : Py.SingletonCls κ) (r : Reg κ) (hR : Rep s r) (canon : Option κ) (name : String) (hne : name ≠ "")
    (fresh : Nat) (initKeys : List κ) (e : Err) (he : res s canon name fresh initKeys = .error e) :
    Rep (post s canon name fresh initKeys) r := by
  have hm := py_call_eq_call s r hR canon name fresh initKeys false hne
  have hno : ∀ id c, (r.call canon (some name) fresh (keysOf canon initKeys) false).2 ≠ .ret id c := by
    intro id c hc
    rw [hc, he] at hm
    simp [toPy] at hm
  have := C01.refused_no_effect r canon (some name) fresh (keysOf canon initKeys) false hno
  rw [this] at hm
  exact hm.2 (by intro ⟨id, hid⟩; exact absurd hid (hno id true))

/-- `C01.create_only_when_free`: the constructor runs (the new object `fresh` is returned) only when neither the name nor the
    canonical form is bound; stated for a `fresh` that is not the identity of a live object -/
theorem py_create_only_when_free (s : Py.SingletonCls κ) (r : Reg κ) (hR : Rep s r) (canon : Option κ) (name : String)
    (hne : name ≠ "") (fresh : Nat) (initKeys : List κ) (hfresh : ∀ o ∈ r.objs, o.id ≠ fresh)
    (hc : res s canon name fresh initKeys = .ok (some fresh)) :
    ∃ k, canon = some k ∧ r.findName name = none ∧ r.findCanon k = none := by
  have hm := (py_call_eq_call s r hR canon name fresh initKeys false hne).1
  rw [hc] at hm
  have hN : ∀ o, r.findName name = some o → o.id ≠ fresh := fun o ho => hfresh o (Reg.findName_some r name o ho).1
  cases canon with
  | none =>
    cases hn : r.findName name with
    | none => simp [Reg.call, Reg.decide, hn, toPy] at hm
    | some o =>
      simp [Reg.call, Reg.decide, hn, toPy] at hm
      exact absurd hm.symm (hN o hn)
  | some k =>
    cases hn : r.findName name with
    | none =>
      cases hcn : r.findCanon k with
      | none => exact ⟨k, rfl, rfl, hcn⟩
      | some oc => simp [Reg.call, Reg.decide, hn, hcn, toPy] at hm
    | some on =>
      cases hcn : r.findCanon k with
      | none => simp [Reg.call, Reg.decide, hn, hcn, toPy] at hm
      | some oc =>
        by_cases hid : on.id = oc.id
        · simp [Reg.call, Reg.decide, hn, hcn, hid, toPy] at hm
          have := hN on hn
          rw [hid] at this
          exact absurd hm.symm this
        · simp [Reg.call, Reg.decide, hn, hcn, hid, toPy] at hm

/-- `C01.wf_call`: the registry invariant is preserved and the class keeps representing the registry, along any request -/
theorem py_wf_call (s : Py.SingletonCls κ) (r : Reg κ) (hR : Rep s r) (h : C01.WF r) (canon : Option κ) (name : String)
    (hne : name ≠ "") (fresh : Nat) (initKeys : List κ) (auto : Bool)
    (hfresh : ∀ o ∈ r.objs, o.id ≠ fresh)
    (hnew : (∃ id, (r.call canon (some name) fresh (keysOf canon initKeys) auto).2 = .ret id true) →
      ∀ k ∈ keysOf canon initKeys, r.findCanon k = none) :
    C01.WF (r.call canon (some name) fresh (keysOf canon initKeys) auto).1 ∧
    Rep (post s canon name fresh initKeys) (r.call canon (some name) fresh (keysOf canon initKeys) auto).1 ∧
    res s canon name fresh initKeys = toPy (r.call canon (some name) fresh (keysOf canon initKeys) auto).2 := by
  have hm := py_call_eq_call s r hR canon name fresh initKeys auto hne
  refine ⟨C01.wf_call r h canon (some name) fresh (keysOf canon initKeys) auto hfresh ?_ hnew, hm.2 ?_, hm.1⟩
  · intro k hk; subst hk
    simp only [keysOf]
    split <;> simp_all
  · intro hex k hk
    apply hnew hex k
    cases canon with
    | none => exact hk
    | some k0 =>
      simp only [keysOf]
      split <;> simp_all

/-! ### the side condition on `initKeys`, and `clear_singletons` -/

/-- the side condition of the representation half cannot be dropped: when `__init__` registers a key that a live object holds, the
    code lets the NEW object take the key over (`cls._instanceCanon[k] = self`), the model's registry keeps answering with the old
    one (`findCanon` finds the first holder).  (CPython: the stream's FIXED history 2.) -/
theorem initKeys_takeover :
    let s : Py.SingletonCls Nat := { _instanceNames := [("a", 1)], _instanceCanon := [(1, 1)] }
    let r : Reg Nat := { objs := [{ id := 1, name := "a", canon := 1, keys := [1] }] }
    Rep s r ∧ res s (some 2) "b" 2 [1] = .ok (some 2) ∧
    (post s (some 2) "b" 2 [1])._instanceCanon.lookup 1 = some 2 ∧
    ((r.callFull (some 2) "b" 2 [1] false).1.findCanon 1).map (·.id) = some 1 := by
  refine ⟨⟨?_, ?_⟩, by decide, by decide, by decide⟩
  · intro n
    by_cases h : n = "a"
    · subst h; decide
    · have : ("a" == n) = false := by simpa using fun e => h e.symm
      have h2 : (n == "a") = false := by simpa using h
      simp [List.lookup, Reg.findName, h2, this]
  · intro k
    by_cases h : k = 1
    · subst h; decide
    · have h2 : (k == 1) = false := by simpa using h
      simp [List.lookup, Reg.findCanon, h2, h]

/-- `clear_singletons` as written: both dictionaries are empty afterwards (whatever they held), nothing is raised; the class then
    represents the empty registry (the objects live on, unknown to the class) -/
theorem py_clear_singletons_spec (s : Py.SingletonCls κ) (r : Reg κ) :
    (py_clear_singletons (κ := κ)).exec s = (.ok (), { _instanceNames := [], _instanceCanon := [] }) ∧
    Rep ((py_clear_singletons (κ := κ)).exec s).2 ({ objs := [], autoId := r.autoId } : Reg κ) :=
  ⟨rfl, ⟨fun _ => rfl, fun _ => rfl⟩⟩

#print axioms py_call_eq_callFull
#print axioms py_call_eq_call
#print axioms py_call_empty_name
#print axioms rep_init
#print axioms py_consistent_returns_same
#print axioms py_conflict_raises_unchanged
#print axioms py_name_only
#print axioms py_refused_no_effect
#print axioms py_create_only_when_free
#print axioms py_wf_call
#print axioms initKeys_takeover
#print axioms py_clear_singletons_spec

end Dsd.PySingleton
