import DsdVerif.Model.Reader
import DsdVerif.Props.C17
import DsdVerif.Props.C05World
import DsdVerif.Lemmas.Reader
import DsdVerif.Lemmas.DomainNames

namespace Dsd.C14
open Dsd Dsd.PP Dsd.RState

/-! Theorems about the model of the PIL reader (Model/Reader.lean). -/

def kindOf (t : Tree) : String :=
  match t with
  | .grp line => (line.head?.bind tokStr).getD ""
  | .tok _ => ""

/-- **statement kinds listed in `ignore` are skipped**: reading a document with an ignore list equals reading the
    document without the lines of those kinds -/
theorem ignore_skips (s : RState) (sl : Slots) (ign : List String) (before : List Nat) (lines : List Tree) (d : RDict)
    (hg : ∀ t ∈ lines, ∃ l, t = .grp l) :
    s.readDoc sl ign before lines d = s.readDoc sl ign before (lines.filter (fun t => !ign.contains (kindOf t))) d := by
  induction lines generalizing s d with
  | nil => rfl
  | cons t rest ih =>
    obtain ⟨line, rfl⟩ := hg t (by simp)
    have hg' : ∀ t ∈ rest, ∃ l, t = .grp l := fun t ht => hg t (by simp [ht])
    by_cases hk : ign.contains (kindOf (.grp line)) = true
    · rw [List.filter_cons_of_neg (by simpa using hk)]
      rw [← ih s d hg']
      conv => lhs; unfold readDoc
      simp only [kindOf] at hk
      simp only [hk, if_true]
    · rw [List.filter_cons_of_pos (by simpa using hk)]
      conv => lhs; unfold readDoc
      conv => rhs; unfold readDoc
      simp only [ih _ _ hg']

/-- **reactions the reader announces as ignored do not abort the read and create nothing**:
    a reaction without a rate, or with a missing / unknown type, yields `other` and leaves the state unchanged -/
theorem ignored_reaction_survives (s : RState) (sl : Slots) (info rs ps : List Tree)
    (h : (match info with
          | [.grp ty, .grp ra, .grp _] =>
            (tokList ra).head? = none ∨ (match (tokList ty).head? with | some t => Gen.rtypes.contains t = false | none => True)
          | _ => True)) :
    ∃ s', s.readLine sl [.tok "reaction", .grp info, .grp rs, .grp ps] = (s', .ok .other) ∧ s'.w.nodes = s.w.nodes ∧
      s'.w.held = s.w.held ∧ s'.rate = s.rate := by
  refine ⟨s, ?_, rfl, rfl, rfl⟩
  rcases info with _ | ⟨a, _ | ⟨b, _ | ⟨c, _ | ⟨d, l⟩⟩⟩⟩
  · rfl
  · cases a <;> rfl
  · cases a <;> cases b <;> rfl
  · cases a with
    | tok _ => rfl
    | grp ty =>
      cases b with
      | tok _ => rfl
      | grp ra =>
        cases c with
        | tok _ => rfl
        | grp un =>
          simp only at h
          unfold readLine
          simp only
          cases hra : (tokList ra).head? with
          | none => rfl
          | some r =>
            rw [hra] at h
            simp only [reduceCtorEq, false_or] at h
            cases hty : (tokList ty).head? with
            | none => simp
            | some t =>
              rw [hty] at h
              simp only at h
              simp
              intro hm
              simp [hm] at h
  · cases a <;> cases b <;> cases c <;> rfl

theorem tokList_map_tok (l : List String) : tokList (l.map Tree.tok) = l := by
  induction l with
  | nil => rfl
  | cons a as ih => simp [tokList, tokStr] at ih ⊢; exact ih

theorem lookup_missing (s : RState) (sl : Slots) (ty : String) (rs : List String) (n : String) (hn : n ∈ rs)
    (hmiss : if ty = "condensed" then ((s.w.macros[sl.macr]?).bind (fun cr => cr.reg.findName n)) = none
             else ((s.w.cplxs[sl.cplx]?).bind (fun cr => cr.reg.findName n)) = none)
    (hcls : (s.w.macros[sl.macr]?).isSome ∧ (s.w.cplxs[sl.cplx]?).isSome) :
    ∃ s', s.lookupAll (if (ty == "condensed") = true then (fun w n => w.mkMacro sl.macr none (some n))
        else (fun w n => let r := w.mkCplx sl.cplx none [] (some n) none; (r.1, r.2.1))) rs = (s', .error .singleton) := by
  by_cases hc : ty = "condensed"
  · subst hc
    simp only [if_true] at hmiss
    simp only [beq_self_eq_true, if_true]
    apply ReaderL.lookupAll_missing _ (fun w => ∃ cr, w.macros[sl.macr]? = some cr ∧ cr.reg.findName n = none) n
      _ _ rs s _ hn
    · intro w m ⟨cr, hcr, hfn⟩
      obtain ⟨cr', h1, h2, _, h4⟩ := ReaderL.look_macro w sl.macr m cr hcr
      refine ⟨⟨cr', h1, by rw [ReaderL.findName_congr _ _ h2]; exact hfn⟩, ?_⟩
      rcases h4 with ⟨o, _, ho⟩ | ⟨_, ho⟩
      · exact Or.inl ⟨_, _, ho⟩
      · exact Or.inr ⟨_, ho⟩
    · intro w ⟨cr, hcr, hfn⟩
      obtain ⟨_, _, _, _, h4⟩ := ReaderL.look_macro w sl.macr n cr hcr
      rcases h4 with ⟨o, ho, _⟩ | ⟨_, ho⟩
      · rw [hfn] at ho; cases ho
      · exact ⟨_, ho⟩
    · cases hm : s.w.macros[sl.macr]? with
      | none => rw [hm] at hcls; simp at hcls
      | some cr => rw [hm] at hmiss; exact ⟨cr, rfl, by simpa using hmiss⟩
  · simp only [hc, if_false] at hmiss
    have hb : (ty == "condensed") = false := by simpa using hc
    simp only [hb, Bool.false_eq_true, if_false]
    apply ReaderL.lookupAll_missing _ (fun w => ∃ cr, w.cplxs[sl.cplx]? = some cr ∧ cr.reg.findName n = none) n
      _ _ rs s _ hn
    · intro w m ⟨cr, hcr, hfn⟩
      obtain ⟨cr', h1, h2, _, h4⟩ := ReaderL.look_cplx w sl.cplx m cr hcr
      refine ⟨⟨cr', h1, by rw [ReaderL.findName_congr _ _ h2]; exact hfn⟩, ?_⟩
      rcases h4 with ⟨o, _, ho⟩ | ⟨_, ho⟩
      · exact Or.inl ⟨_, _, ho⟩
      · exact Or.inr ⟨_, ho⟩
    · intro w ⟨cr, hcr, hfn⟩
      obtain ⟨_, _, _, _, h4⟩ := ReaderL.look_cplx w sl.cplx n cr hcr
      rcases h4 with ⟨o, ho, _⟩ | ⟨_, ho⟩
      · rw [hfn] at ho; cases ho
      · exact ⟨_, ho⟩
    · cases hm : s.w.cplxs[sl.cplx]? with
      | none => rw [hm] at hcls; simp at hcls
      | some cr => rw [hm] at hmiss; exact ⟨cr, rfl, by simpa using hmiss⟩

/-- a condensed reaction looks its members up among the macrostates, every other accepted type among the complexes;
    in both cases a missing member is a SingletonError, never a fault -/
theorem reaction_missing_member (s : RState) (sl : Slots) (ty ra un : String) (rs ps : List String) (n : String)
    (hty : Gen.rtypes.contains ty = true) (hn : n ∈ rs)
    (hmiss : if ty = "condensed" then ((s.w.macros[sl.macr]?).bind (fun cr => cr.reg.findName n)) = none
             else ((s.w.cplxs[sl.cplx]?).bind (fun cr => cr.reg.findName n)) = none)
    (hcls : (s.w.macros[sl.macr]?).isSome ∧ (s.w.cplxs[sl.cplx]?).isSome) :
    ∃ s', s.readLine sl [.tok "reaction", .grp [.grp [.tok ty], .grp [.tok ra], .grp [.tok un]],
        .grp (rs.map .tok), .grp (ps.map .tok)] = (s', .error .singleton) := by
  obtain ⟨s', hs'⟩ := lookup_missing s sl ty rs n hn hmiss hcls
  refine ⟨s', ?_⟩
  unfold readLine
  simp only [tokList_map_tok]
  have h1 : (tokList [Tree.tok ty]).head? = some ty := rfl
  have h2 : (tokList [Tree.tok ra]).head? = some ra := rfl
  simp only [h1, h2, hty, Option.getD_some, Bool.not_true, Bool.false_eq_true, if_false]
  rw [hs']

/- ORIGINAL STATEMENT (false in worlds whose registries are not consistent with the identity counter: the reader
   files an object under the name it finds *by identity* in the slot class, so a stale object with the same
   identity hijacks the dictionary entry; counterexample below):

theorem complement_sequence (s : RState) (sl : Slots) (before : List Nat) (name con : String) (d : RDict)
    (s' : RState) (d' : RDict)
    (hcodes : ∀ c ∈ con.toList, c ∈ Iupac.codes .dna)
    (h : s.readDoc sl [] before [.grp [.tok "sl-domain", .tok name, .tok con]] d = (s', .ok d')) :
    ∃ id cid rc, d'.domains.lookup name = some id ∧ s'.dseq.lookup id = some con ∧
      (s'.dseq.lookup cid = some (String.ofList rc) ∨ cid = id) ∧
      Iupac.reverseWcComplement .dna con.toList = some rc ∧ rc.length = con.length 
-/

/-- counterexample world: class 0 of the domains already holds an object with identity 0 = `nextId` -/
def badWorld : World :=
  { doms := [{ reg := { objs := [{ id := 0, name := "x", canon := ("x", 3), keys := [("x", 3)] }] },
               ownId := true, prefix_ := some "d" }, {}, {}, {}] }

/-- reading `sequence a = ACGT` into it succeeds but files the new domain under `x`: no entry for `a` -/
example :
    (match ({ w := badWorld } : RState).readDoc {} [] [] [.grp [.tok "sl-domain", .tok "a", .tok "ACGT"]] {} with
     | (_, .ok d') => (d'.domains, d'.domains.lookup "a")
     | (_, .error _) => ([], some 0)) = ([("x", 0), ("x*", 1)], none) := by
  rfl

/-- non-vacuity of the added hypothesis: the empty world is consistent -/
example : ReaderL.DomSlotOK ({} : World) 0 :=
  ⟨⟨{ ownId := true, prefix_ := some "d" }, rfl, by simp, by simp⟩, by simp⟩

/-- the strong form: in a world whose slot class of domains is consistent (`ReaderL.DomSlotOK`: identities
    distinct and below the counter, every live domain has its node of that class), the dictionary holds
    `name ↦ id` and `complement name ↦ cid`, `id` carries the declared sequence, and a complement that had no
    sequence before now carries the reverse Watson–Crick complement -/
theorem complement_sequence_strong (s : RState) (sl : Slots) (before : List Nat) (name con : String) (d : RDict)
    (s' : RState) (d' : RDict)
    (hcodes : ∀ c ∈ con.toList, c ∈ Iupac.codes .dna)
    (hok : ReaderL.DomSlotOK s.w sl.dom)
    (h : s.readDoc sl [] before [.grp [.tok "sl-domain", .tok name, .tok con]] d = (s', .ok d')) :
    ∃ id cid rc, d'.domains.lookup name = some id ∧ d'.domains.lookup (cnameOf name) = some cid ∧
      s'.dseq.lookup id = some con ∧
      Iupac.reverseWcComplement .dna con.toList = some rc ∧ rc.length = con.length ∧
      (cid ≠ id → s.dseq.lookup cid = none → s'.dseq.lookup cid = some (String.ofList rc)) := by
  obtain ⟨rc, hrc, hrclen, _⟩ := Iupac.wc_sequence_exact .dna con.toList.reverse
    (fun c hc => hcodes c (List.mem_reverse.mp hc))
  have hrc' : Iupac.reverseWcComplement .dna con.toList = some rc := hrc
  have hlen : rc.length = con.length := by rw [hrclen, List.length_reverse]; exact String.length_toList
  unfold readDoc at h
  simp only [List.head?_cons, Option.bind_some, tokStr, Option.getD_some, List.contains_nil, Bool.false_eq_true,
    if_false] at h
  unfold readLine at h
  simp only [Bool.false_eq_true, if_false] at h
  unfold domReq at h
  simp only at h
  have hmk := ReaderL.mkDom_ok s.w sl.dom { name := some name, length := some con.length } hok
  generalize s.w.mkDom sl.dom { name := some name, length := some con.length } = M at h hmk
  obtain ⟨w1, out1⟩ := M
  simp only at h hmk
  cases out1 with
  | ret id b =>
    simp only at h
    obtain ⟨hok1, hname1⟩ := hmk id b name rfl rfl
    have hinv := ReaderL.invert_ok w1 sl.dom hok1 id name hname1
    generalize w1.invert id = I at h hinv
    obtain ⟨w2, out2⟩ := I
    simp only at h hinv
    cases out2 with
    | ret cid b2 =>
      simp only at h
      obtain ⟨_, hname2⟩ := hinv cid b2 rfl
      have hl1 : List.lookup id (List.filter (fun p => p.fst != id) s.dseq ++ [(id, con)]) = some con := by
        rw [List.lookup_append, ReaderL.lookup_filter_ne]; simp
      rw [hl1] at h
      simp only [Option.isSome_some, Bool.true_and, Option.getD_some, hrc', hname1, hname2] at h
      have hdict : ∀ (dd : List (String × Nat)),
          (dictPut (dictPut dd name id) (cnameOf name) cid).lookup name = some id ∧
          (dictPut (dictPut dd name id) (cnameOf name) cid).lookup (cnameOf name) = some cid := by
        intro dd
        refine ⟨?_, ReaderL.lookup_dictPut_self _ _ _⟩
        rw [ReaderL.lookup_dictPut_ne _ _ _ _ (fun e => DomL.cname_ne_self name e.symm)]
        exact ReaderL.lookup_dictPut_self _ _ _
      have hfl : List.lookup cid (List.filter (fun p => p.fst != id) s.dseq ++ [(id, con)]) =
          if cid = id then some con else List.lookup cid (List.filter (fun p => p.fst != id) s.dseq) := by
        rw [List.lookup_append]
        by_cases hci : cid = id
        · subst hci; rw [ReaderL.lookup_filter_ne]; simp
        · have h2 : (cid == id) = false := by simpa using hci
          simp [List.lookup_cons, h2, hci]
      by_cases hneeds : (List.lookup cid (List.filter (fun p => p.fst != id) s.dseq ++ [(id, con)])).isNone = true
      · simp only [hneeds, if_true, readDoc, Prod.mk.injEq, Except.ok.injEq] at h
        obtain ⟨rfl, rfl⟩ := h
        refine ⟨id, cid, rc, (hdict _).1, (hdict _).2, ?_, hrc', hlen, ?_⟩
        · simp only [keepOnly]
          rw [List.lookup_append, hl1]; rfl
        · intro hne hnone
          simp only [keepOnly]
          rw [List.lookup_append]
          have : List.lookup cid (List.filter (fun p => p.fst != id) s.dseq ++ [(id, con)]) = none := by
            simpa using hneeds
          rw [this]
          simp
      · simp only [hneeds, Bool.false_eq_true, if_false, readDoc, Prod.mk.injEq, Except.ok.injEq] at h
        obtain ⟨rfl, rfl⟩ := h
        refine ⟨id, cid, rc, (hdict _).1, (hdict _).2, ?_, hrc', hlen, ?_⟩
        · simp only [keepOnly]; exact hl1
        · intro hne hnone
          exfalso
          apply hneeds
          rw [hfl, if_neg hne]
          have : List.lookup cid (List.filter (fun p => p.fst != id) s.dseq) = none := by
            exact ReaderL.lookup_filter_none _ _ _ hnone
          rw [this]; rfl
    | _ => simp at h
  | _ => simp at h

/-- **the complement of a sequenced domain carries the reverse Watson–Crick complement**: when a document line
    declares `sequence name = S` over the IUPAC codes, the dictionary afterwards holds the complement with
    `reverseWcComplement S`, which by C17 is position-wise the set-exact complement of the reversed sequence.
    CORRECTED: added `hok` (consistency of the slot class with the world, see `complement_sequence_strong`). -/
theorem complement_sequence (s : RState) (sl : Slots) (before : List Nat) (name con : String) (d : RDict)
    (s' : RState) (d' : RDict)
    (hcodes : ∀ c ∈ con.toList, c ∈ Iupac.codes .dna)
    (hok : ReaderL.DomSlotOK s.w sl.dom)
    (h : s.readDoc sl [] before [.grp [.tok "sl-domain", .tok name, .tok con]] d = (s', .ok d')) :
    ∃ id cid rc, d'.domains.lookup name = some id ∧ s'.dseq.lookup id = some con ∧
      (s'.dseq.lookup cid = some (String.ofList rc) ∨ cid = id) ∧
      Iupac.reverseWcComplement .dna con.toList = some rc ∧ rc.length = con.length := by
  obtain ⟨id, _, rc, h1, _, h3, h4, h5, _⟩ := complement_sequence_strong s sl before name con d s' d' hcodes hok h
  exact ⟨id, id, rc, h1, h3, Or.inr rfl, h4, h5⟩

/-- a sequence with a letter outside the DNA codes is rejected with PilFormatError (not a KeyError) when the
    complement has no sequence yet -/
theorem non_iupac_rejected (tbl : List (Char × Char)) (sq : List Char) (c : Char) (hc : c ∈ sq)
    (hno : Iupac.lookup (Iupac.wcTable .dna) c = none) : Iupac.reverseWcComplement .dna sq = none := by
  unfold Iupac.reverseWcComplement
  rw [Iupac.mapSeq_none_iff]
  exact ⟨c, List.mem_reverse.mpr hc, hno⟩

/-- **a failed read leaves the previously held handles exactly as they were** and keeps only reachable objects -/
theorem failed_read_restores (s : RState) (sl : Slots) (ign : List String) (lines : List Tree) (d : RDict)
    (s' : RState) (e : RErr) (h : s.readDoc sl ign s.w.held lines d = (s', .error e)) :
    (∀ x, x ∈ s'.w.held → x ∈ s.w.held) ∧ (∀ n ∈ s'.w.nodes, n.id ∈ s'.w.reachable) := by
  obtain ⟨sX, rfl⟩ := ReaderL.readDoc_error sl ign s.w.held lines s d s' e h
  constructor
  · intro x hx
    simp only [keepOnly, WorldL.collect_held, List.mem_filter] at hx
    simpa using hx.2
  · exact WorldL.collect_nodes_reachable _

/-- the explicit length of a sequence statement must equal the sequence length -/
theorem sl_domain_length_mismatch (s : RState) (sl : Slots) (name con len : String) (h : len.toNat? ≠ some con.length) :
    s.readLine sl [.tok "sl-domain", .tok name, .tok con, .tok len] = (s, .error .pilFormat) := by
  unfold readLine
  simp [h]

/-- domain-length statements: `short` is 5 and `long` is 15 (the reader's own constants), a number is itself -/
theorem dl_domain_lengths (s : RState) (sl : Slots) (name len : String) (l : Nat)
    (hl : (len = "short" ∧ l = 5) ∨ (len = "long" ∧ l = 15) ∨ (len ≠ "short" ∧ len ≠ "long" ∧ len.toNat? = some l)) :
    s.readLine sl [.tok "dl-domain", .tok name, .tok len] =
      (match s.domReq sl { name := some name, length := some l } with
       | (s1, .ok id) => (s1, .ok (.dom id))
       | (s1, .error e) => (s1, .error e)) := by
  unfold readLine
  rcases hl with ⟨rfl, rfl⟩ | ⟨rfl, rfl⟩ | ⟨h1, h2, h3⟩
  · simp only [beq_self_eq_true, if_true]
    generalize s.domReq sl { name := some name, length := some 5 } = x
    obtain ⟨s1, r⟩ := x
    cases r <;> rfl
  · simp
    generalize s.domReq sl { name := some name, length := some 15 } = x
    obtain ⟨s1, r⟩ := x
    cases r <;> rfl
  · simp [h1, h2, h3]
    generalize s.domReq sl { name := some name, length := some l } = x
    obtain ⟨s1, r⟩ := x
    cases r <;> rfl

end Dsd.C14
