/-
C20 — the legacy object model `DSD_Complex` (Model/LegacyFull.lean, statement by statement) against the current API.

  Task 2  `legacy_rotate_once_eq`     the legacy `rotate_once` = `rotate_complex_once`, for every pair of lists of
                                      equal length; the exception class differs.
  Task 3  `legacy_construct_eq`       one legacy construction against `ComplexS(…)` on corresponding registry states:
                                      new object ⇔ created; DSDDuplicationError(existing, rotations) ⇔ the current API
                                      finds the same live object (returns it, or refuses with `existing`); name clash
                                      ⇔ SingletonError; `legacy_refused_leaves_nothing`.
  Findings at the end (kernel-checked differences).
-/
import DsdVerif.Lemmas.LegacyCorr
import DsdVerif.Props.C20Legacy
import DsdVerif.Props.C02Full

namespace Dsd.C20F
open Dsd Dsd.Lg Dsd.LgL Dsd.C02

/-! ## Task 2: `rotate_once` -/

/-- **the legacy `rotate_once` computes the same (sequence, structure) as `rotate_complex_once`** on every aligned
    description; where the current function raises SecondaryStructureError the legacy one raises
    DSDObjectsError("Unbalanced parenthesis in secondary structure.") (`toCurrent` translates the class). -/
theorem legacy_rotate_once_eq (seq : List String) (sst : List Char) (hal : C07.Aligned seq sst) :
    toCurrent (rotateOnceLists seq sst) = rotateOnce seq sst :=
  rotateOnceLists_eq seq sst hal.1

/-- … in fact on every pair of lists of equal length (the invariant `__init__` establishes): ill-formed structures,
    single strands, empty strands, misplaced `+` included -/
theorem legacy_rotate_once_eq_len (seq : List String) (sst : List Char) (h : seq.length = sst.length) :
    toCurrent (rotateOnceLists seq sst) = rotateOnce seq sst :=
  rotateOnceLists_eq seq sst h

/-- the method on the instance: success updates `_sequence`, `_structure` and resets six caches (`rotated`) -/
theorem legacy_rotate_once_obj (o : LObj) (h : o.seq.length = o.sst.length) (nx : List String × List Char)
    (hrot : rotateOnce o.seq o.sst = .ok nx) : o.rotateOnce = (rotated o nx, none) :=
  obj_rotateOnce o nx hrot h

/-- non-vacuity and a value: `a( b + )` turns into `a( + ) b`-shaped lists in both implementations -/
example : C07.Aligned ["a", "b", "+", "c"] ['(', '.', '+', ')'] ∧
    rotateOnceLists ["a", "b", "+", "c"] ['(', '.', '+', ')'] = (["c", "+", "a", "b"], .ok ['(', '+', ')', '.']) ∧
    rotateOnce ["a", "b", "+", "c"] ['(', '.', '+', ')'] = .ok (["c", "+", "a", "b"], ['(', '+', ')', '.']) := by
  refine ⟨⟨rfl, ?_⟩, by decide, by decide⟩
  intro i
  match i with
  | 0 => decide
  | 1 => decide
  | 2 => decide
  | 3 => decide
  | k + 4 => simp

/-! ## Task 3: one construction -/

/-- invariant of the legacy class state: both dicts have unique keys; every MEMORY entry `c ↦ ob` holds an instance of
    a well-formed description whose (abstract) legacy canonical form is `c`, with `_rotations` set and its name bound
    to `c` in NAMES; every NAMES entry belongs to a MEMORY entry -/
structure LWF (R : LReg) : Prop where
  memKeys : (R.MEMORY.map (·.1)).Nodup
  nameKeys : (R.NAMES.map (·.1)).Nodup
  entry : ∀ c ob, (c, ob) ∈ R.MEMORY → Descr ob.seq ob.sst ∧
    ∃ ro, ob.rotations = some ro ∧ legacyCanon ob.seq ob.sst = .ok (c, ro) ∧ (ob.name, c) ∈ R.NAMES
  names : ∀ nm c, (nm, c) ∈ R.NAMES → ∃ ob, (c, ob) ∈ R.MEMORY ∧ ob.name = nm

/-- **corresponding registry states**: the same live canonical forms, under the same names and identities -/
structure Corr (R : LReg) (r : Reg CKey) : Prop where
  fwd : ∀ c ob, (c, ob) ∈ R.MEMORY → ∃ o ∈ r.objs, o.canon = c ∧ o.id = ob.id ∧ o.name = ob.name
  bwd : ∀ o ∈ r.objs, ∃ ob, (o.canon, ob) ∈ R.MEMORY ∧ ob.id = o.id ∧ ob.name = o.name

theorem lwf_empty : LWF {} := ⟨List.nodup_nil, List.nodup_nil, fun _ _ h => (by cases h), fun _ _ h => (by cases h)⟩
theorem corr_empty : Corr {} {} := ⟨fun _ _ h => (by cases h), fun _ h => (by cases h)⟩

theorem lwf_id (R : LReg) (k : Nat) (h : LWF R) : LWF { R with ID := k } := ⟨h.memKeys, h.nameKeys, h.entry, h.names⟩
theorem corr_id (R : LReg) (r : Reg CKey) (k : Nat) (h : Corr R r) : Corr { R with ID := k } r := ⟨h.fwd, h.bwd⟩

/-- a MEMORY key that is a rotation of `x` is the canonical form of `x` -/
theorem mem_key_is_canon (R : LReg) (hL : LWF R) (seq : List String) (sst : List Char) (hd : Rot.Descr' seq sst)
    (c : CKey) (rot : Nat) (hc : legacyCanon seq sst = .ok (c, rot)) (z : CKey)
    (hz : z ∈ Rot.orb (Rot.nStr seq) seq sst) (ob : LObj) (hm : R.MEMORY.lookup z = some ob) : z = c := by
  obtain ⟨hdo, ro, _, hco, _⟩ := hL.entry z ob (mem_of_lookup _ _ _ hm)
  have hdo' := (descr_iff _ _).mp hdo
  obtain ⟨_, _, _, _, _, a1, a2, _⟩ := legacyCanon_facts seq sst hd c rot hc
  obtain ⟨_, _, _, _, _, b1, b2, _⟩ := legacyCanon_facts ob.seq ob.sst hdo' z ro hco
  obtain ⟨_, hsame⟩ := orb_share (seq, sst) (ob.seq, ob.sst) hd hdo' z hz b1
  exact Ord.min_unique ckeyLt Ord.ckeyLt_sto _ _ _ _ (fun w => (hsame w).symm) ⟨b1, b2⟩ ⟨a1, a2⟩

/-! ### the legacy side -/

/-- the canonical form is registered: DSDDuplicationError with `existing` = the registered instance and
    `rotations` = the difference of the two `_rotations` -/
theorem legacy_dup (R : LReg) (hL : LWF R) (fresh : Nat) (nm : String) (seq : List String) (sst : List Char)
    (hd : Rot.Descr' seq sst) (c : CKey) (rot : Nat) (hc : legacyCanon seq sst = .ok (c, rot)) (ob : LObj)
    (hm : R.MEMORY.lookup c = some ob) (ro : Nat) (hro : ob.rotations = some ro) :
    core R fresh nm seq sst true = (R, .error (.duplication ob.id ((rot : Int) - (ro : Int)))) := by
  obtain ⟨vs, hvs, hlen, hcv, hidx, _⟩ := legacyCanon_facts seq sst hd c rot hc
  obtain ⟨vs', hvs', _, hb⟩ := core_spec R fresh nm seq sst hd
  rw [hvs] at hvs'; cases hvs'
  obtain ⟨g1, g2⟩ := idxOf_first vs c hcv
  rw [hb (vs.idxOf c) c ob g1 hm ?_]
  · have hab : (((vs.idxOf c + 1 : Nat) : Int) - (Rot.nStr seq : Int)).natAbs = rot := by omega
    unfold dupOf
    rw [hro, hab]
  · intro i hi z' hz'
    cases hl : R.MEMORY.lookup z' with
    | none => rfl
    | some ob' =>
      exfalso
      have hzo : z' ∈ Rot.orb (Rot.nStr seq) seq sst :=
        (variants_mem_orb seq sst hd vs hvs z').mp (List.mem_of_getElem? hz')
      exact g2 i hi z' hz' (mem_key_is_canon R hL seq sst hd c rot hc z' hzo ob' hl)

/-- the canonical form is not registered: no rotation is a key of MEMORY -/
theorem legacy_free (R : LReg) (hL : LWF R) (seq : List String) (sst : List Char)
    (hd : Rot.Descr' seq sst) (c : CKey) (rot : Nat) (hc : legacyCanon seq sst = .ok (c, rot))
    (hm : R.MEMORY.lookup c = none) (z : CKey) (hz : z ∈ Rot.orb (Rot.nStr seq) seq sst) :
    R.MEMORY.lookup z = none := by
  cases hl : R.MEMORY.lookup z with
  | none => rfl
  | some ob =>
    have := mem_key_is_canon R hL seq sst hd c rot hc z hz ob hl
    rw [this, hm] at hl; cases hl

theorem legacy_new_or_clash (R : LReg) (hL : LWF R) (fresh : Nat) (nm : String) (seq : List String) (sst : List Char)
    (hd : Rot.Descr' seq sst) (c : CKey) (rot : Nat) (hc : legacyCanon seq sst = .ok (c, rot))
    (hm : R.MEMORY.lookup c = none) :
    ((R.NAMES.lookup nm).isSome = true →
      core R fresh nm seq sst true = (R, .error (.objects "Duplicate DSD_Complex name!"))) ∧
    (R.NAMES.lookup nm = none →
      core R fresh nm seq sst true =
        ({ R with NAMES := R.NAMES ++ [(nm, c)], MEMORY := R.MEMORY ++ [(c, registered fresh nm seq sst true c rot)] },
         .ok (registered fresh nm seq sst true c rot))) := by
  obtain ⟨vs, hvs, ha, _⟩ := core_spec R fresh nm seq sst hd
  obtain ⟨c', rot', hc', h1, h2⟩ := ha (fun z hz =>
    legacy_free R hL seq sst hd c rot hc hm z ((variants_mem_orb seq sst hd vs hvs z).mp hz))
  rw [hc] at hc'
  simp only [Except.ok.injEq, Prod.mk.injEq] at hc'
  obtain ⟨rfl, rfl⟩ := hc'
  refine ⟨h1, fun hn => ?_⟩
  rw [h2 hn, dictPut_new _ _ _ ((lookup_none_iff _ _).mp hn), dictPut_new _ _ _ ((lookup_none_iff _ _).mp hm)]

/-! ### the current side -/

/-- a live object is registered under a rotation of the request: the registry is unchanged and the outcome depends
    on the requested name only -/
theorem cur_existing (pfx : String) (r : Reg CKey) (hwf : C01.WF r) (hk : KeysAreOrbit r) (o : Obj CKey) (ho : o ∈ r.objs)
    (seq : List String) (sst : List Char) (hd : Descr seq sst) (hrot : (seq, sst) ∈ o.keys) (fresh : Nat) (nm : String) :
    (complexRequest pfx r fresh { seq := some seq, sst := sst, name := some nm }).1 = r ∧
    (complexRequest pfx r fresh { seq := some seq, sst := sst, name := some nm }).2.1 =
      (if nm = o.name then .ret o.id false
       else if (r.findName nm).isSome then .singletonErr none else .singletonErr (some o.id)) := by
  obtain ⟨h1, h2, h3⟩ := identifiers_existing pfx r hwf hk o ho seq sst hd hrot fresh (some nm)
  refine ⟨h1, ?_⟩
  by_cases hn : nm = o.name
  · rw [if_pos hn]; exact h2 (by rw [hn])
  · rw [if_neg hn]
    cases hfn : r.findName nm with
    | none => simp only [Option.isSome_none, Bool.false_eq_true, if_false]; exact h3 hn hfn
    | some o2 =>
      simp only [Option.isSome_some, if_true]
      have hd' := (descr_iff _ _).mp hd
      have hfc : r.findCanon (seq, sst) = some o := (C01.wf_lookup r hwf o ho).2.2.1 _ hrot
      obtain ⟨ids, hids, hcanon⟩ : ∃ ids, complexIdentifiers r seq sst = .ok ids ∧ ids.canon = (seq, sst) := by
        obtain ⟨m, hm⟩ : ∃ m, Rot.nStr seq = m + 1 :=
          ⟨Rot.nStr seq - 1, by have := Rot.nStr_pos seq hd'.nonempty; omega⟩
        rw [Rot.complexIdentifiers_eq r seq sst hd'.al.1, hm,
          Rot.loop_succ_reg r _ m 0 seq sst [] (by rw [hfc]; rfl)]
        exact ⟨_, rfl, rfl⟩
      rw [complexRequest_seq pfx r fresh seq sst (some nm) ids hids, hcanon]
      simp only [Option.getD_some]
      have ho2 : o2 ∈ r.objs := List.mem_of_find?_eq_some hfn
      have hn2 : o2.name = nm := by
        have := List.find?_some hfn
        simpa using this
      have hne : o2.id ≠ o.id := by
        intro e
        have := (C01.wf_unique_aux r hwf o2 o ho2 ho).2.2 e
        rw [this] at hn2; exact hn hn2.symm
      rw [(C01.conflict_raises_unchanged r hwf nm (seq, sst) fresh ids.keys (some nm).isNone).2.1 o2 o hfn hfc hne]

/-- no rotation of the request is registered: created under a free name, refused (`existing = None`) under a bound one -/
theorem cur_free (pfx : String) (r : Reg CKey) (seq : List String) (sst : List Char) (hd : Descr seq sst)
    (hfree : ∀ k ∈ orbit (nStrands seq) seq sst, r.findCanon k = none) (fresh : Nat) (nm : String) :
    ∃ c, c ∈ orbit (nStrands seq) seq sst ∧ (∀ x ∈ orbit (nStrands seq) seq sst, ckeyLt x c = false) ∧
      (r.findName nm = none →
        (complexRequest pfx r fresh { seq := some seq, sst := sst, name := some nm }).1 =
            r.register { id := fresh, name := nm, canon := c, keys := (orbit (nStrands seq) seq sst).eraseDups } false ∧
        (complexRequest pfx r fresh { seq := some seq, sst := sst, name := some nm }).2.1 = .ret fresh true) ∧
      ((r.findName nm).isSome = true →
        (complexRequest pfx r fresh { seq := some seq, sst := sst, name := some nm }).1 = r ∧
        (complexRequest pfx r fresh { seq := some seq, sst := sst, name := some nm }).2.1 = .singletonErr none) := by
  have hd' := (descr_iff _ _).mp hd
  rcases Rot.ids_cases r seq sst hd' with ⟨ids0, _, hmem, hsome⟩ | ⟨_, c, hc, hci⟩
  · rw [hfree _ hmem] at hsome; cases hsome
  · obtain ⟨m1, m2⟩ := Ord.minKey_spec _ _ hc
    refine ⟨c, m1, m2, ?_, ?_⟩
    · intro hfn
      rw [complexRequest_seq pfx r fresh seq sst (some nm) _ hci]
      simp [Reg.call, Reg.decide, hfn, hfree c m1, orbit_eq, nStrands_eq]
    · intro hfn
      obtain ⟨o2, ho2⟩ := Option.isSome_iff_exists.mp hfn
      rw [complexRequest_seq pfx r fresh seq sst (some nm) _ hci]
      simp [Reg.call, Reg.decide, ho2, hfree c m1]

/-! ### names and forms on both sides -/

theorem names_corr (R : LReg) (r : Reg CKey) (hL : LWF R) (hc : Corr R r) (nm : String) :
    (R.NAMES.lookup nm).isSome = (r.findName nm).isSome := by
  cases h1 : R.NAMES.lookup nm with
  | some c =>
    obtain ⟨ob, hob, hname⟩ := hL.names nm c (mem_of_lookup _ _ _ h1)
    obtain ⟨o, ho, _, _, hon⟩ := hc.fwd c ob hob
    cases h2 : r.findName nm with
    | some _ => rfl
    | none =>
      exfalso
      have := List.find?_eq_none.mp h2 o ho
      simp [hon, hname] at this
  | none =>
    cases h2 : r.findName nm with
    | none => rfl
    | some o =>
      exfalso
      have ho : o ∈ r.objs := List.mem_of_find?_eq_some h2
      have hn : o.name = nm := by have := List.find?_some h2; simpa using this
      obtain ⟨ob, hob, _, hname⟩ := hc.bwd o ho
      obtain ⟨_, _, _, _, hin⟩ := hL.entry _ ob hob
      have := lookup_of_mem_nodup _ hL.nameKeys _ _ hin
      rw [hname, hn, h1] at this; cases this

/-- the canonical form of `x` is not live on the legacy side ⇒ no rotation of `x` is registered on the current side -/
theorem free_corr (R : LReg) (r : Reg CKey) (hL : LWF R) (hk : KeysAreOrbit r) (hc : Corr R r)
    (seq : List String) (sst : List Char) (hd : Rot.Descr' seq sst) (c : CKey) (rot : Nat)
    (hcan : legacyCanon seq sst = .ok (c, rot)) (hm : R.MEMORY.lookup c = none) :
    ∀ k ∈ orbit (nStrands seq) seq sst, r.findCanon k = none := by
  intro k hkm
  rw [orbit_eq, nStrands_eq] at hkm
  cases hf : r.findCanon k with
  | none => rfl
  | some o =>
    exfalso
    have ho : o ∈ r.objs := List.mem_of_find?_eq_some hf
    have hko : k ∈ o.keys := by have := List.find?_some hf; simpa using this
    obtain ⟨hdo, hkeys⟩ := hk o ho
    have hdo' := (descr_iff _ _).mp hdo
    have hk2 : k ∈ Rot.orb (Rot.nStr o.canon.1) o.canon.1 o.canon.2 := (hkeys k).mp hko
    obtain ⟨_, hsame⟩ := orb_share (seq, sst) o.canon hd hdo' k hkm hk2
    have hco : o.canon ∈ Rot.orb (Rot.nStr seq) seq sst := (hsame _).mpr (Rot.self_mem_orb _ _ hdo')
    obtain ⟨ob, hob, _⟩ := hc.bwd o ho
    have hl := lookup_of_mem_nodup _ hL.memKeys _ _ hob
    have := mem_key_is_canon R hL seq sst hd c rot hcan o.canon hco ob hl
    rw [this, hm] at hl; cases hl

/-! ### the rotation equation -/

/-- if `x` is `rot` turns and `y` is `ro` turns away from the canonical form, then `x` is `(rot − ro) mod n` turns away
    from `y` (Python's `%`) -/
theorem rot_equation (c : CKey) (hdc : Rot.Descr' c.1 c.2) (rot ro : Nat) (hrot : rot < Rot.nStr c.1)
    (hro : ro < Rot.nStr c.1) (x y : CKey) (hx : rotateN rot c.1 c.2 = .ok x) (hy : rotateN ro c.1 c.2 = .ok y) :
    rotateN ((((rot : Int) - (ro : Int)) % (Rot.nStr c.1 : Int)).toNat) y.1 y.2 = .ok x := by
  have key : ∀ d q : Nat, ro + d = rot + Rot.nStr c.1 * q → rotateN d y.1 y.2 = .ok x := by
    intro d q hq
    have h1 := Rot.rotateN_add ro d c.1 c.2
    rw [hy] at h1
    have h2 := Rot.rotateN_add_period rot q c.1 c.2 hdc
    rw [← hq, hx] at h2
    rw [h2] at h1
    exact h1.symm
  by_cases hle : ro ≤ rot
  · have e : (((rot : Int) - (ro : Int)) % (Rot.nStr c.1 : Int)).toNat = rot - ro := by
      rw [Int.emod_eq_of_lt (by omega) (by omega)]; omega
    rw [e]
    exact key (rot - ro) 0 (by omega)
  · have e : (((rot : Int) - (ro : Int)) % (Rot.nStr c.1 : Int)).toNat = rot + Rot.nStr c.1 - ro := by
      rw [← Int.add_emod_right, Int.emod_eq_of_lt (by omega) (by omega)]; omega
    rw [e]
    exact key (rot + Rot.nStr c.1 - ro) 1 (by omega)

/-! ### `legacy_construct_eq` -/

/-- **one legacy construction against the current API on corresponding registry states.**
    `core R …` is `DSD_Complex(seq, sst, …, memorycheck = True)` after the name `nm` has been chosen
    (`construct_named`, `construct_auto`); the current request is `ComplexS(seq, sst, name = nm)`.
    With `c` the canonical form and `rot` the `_rotations` of the description:

    1. `c` not live, `nm` free: the legacy class creates the instance (NAMES and MEMORY gain exactly one entry each)
       ⇔ the current API creates the object, with the SAME canonical form; the new states correspond again and keep
       their invariants.
    2. `c` live as `ob`: DSDDuplicationError with `existing = ob` and `rotations = rot − ob._rotations`, nothing
       changed; the current API changes nothing either and finds the SAME object: it returns it if `nm` is its name,
       refuses with `existing = ob` if `nm` is free, refuses without `existing` if `nm` is bound elsewhere.
       Rotation equation: turning `ob`'s representation `rotations mod n` times gives the requested representation.
    3. `c` not live, `nm` bound: DSDObjectsError('Duplicate DSD_Complex name!') ⇔ SingletonError without `existing`;
       nothing changed on either side. -/
theorem legacy_construct_eq (R : LReg) (r : Reg CKey) (hL : LWF R) (hwf : C01.WF r) (hk : KeysAreOrbit r)
    (hcorr : Corr R r) (seq : List String) (sst : List Char) (hd : Descr seq sst) (nm : String) (fresh : Nat)
    (hfresh : ∀ o ∈ r.objs, o.id ≠ fresh) (pfx : String) :
    ∃ c rot, legacyCanon seq sst = .ok (c, rot) ∧
      (∀ ids, complexIdentifiers ({} : Reg CKey) seq sst = .ok ids → ids.canon = c) ∧
      -- 1. new
      (R.MEMORY.lookup c = none → R.NAMES.lookup nm = none →
        core R fresh nm seq sst true =
          ({ R with NAMES := R.NAMES ++ [(nm, c)], MEMORY := R.MEMORY ++ [(c, registered fresh nm seq sst true c rot)] },
           .ok (registered fresh nm seq sst true c rot)) ∧
        (complexRequest pfx r fresh { seq := some seq, sst := sst, name := some nm }).2.1 = .ret fresh true ∧
        (∃ keys, (complexRequest pfx r fresh { seq := some seq, sst := sst, name := some nm }).1 =
          r.register { id := fresh, name := nm, canon := c, keys := keys } false) ∧
        LWF (core R fresh nm seq sst true).1 ∧
        Corr (core R fresh nm seq sst true).1 (complexRequest pfx r fresh { seq := some seq, sst := sst, name := some nm }).1 ∧
        C01.WF (complexRequest pfx r fresh { seq := some seq, sst := sst, name := some nm }).1 ∧
        KeysAreOrbit (complexRequest pfx r fresh { seq := some seq, sst := sst, name := some nm }).1) ∧
      -- 2. duplicate
      (∀ ob, R.MEMORY.lookup c = some ob →
        ∃ ro, ob.rotations = some ro ∧
          core R fresh nm seq sst true = (R, .error (.duplication ob.id ((rot : Int) - (ro : Int)))) ∧
          rotateN ((((rot : Int) - (ro : Int)) % (nStrands seq : Int)).toNat) ob.seq ob.sst = .ok (seq, sst) ∧
          (complexRequest pfx r fresh { seq := some seq, sst := sst, name := some nm }).1 = r ∧
          (complexRequest pfx r fresh { seq := some seq, sst := sst, name := some nm }).2.1 =
            (if nm = ob.name then .ret ob.id false
             else if (R.NAMES.lookup nm).isSome then .singletonErr none else .singletonErr (some ob.id))) ∧
      -- 3. name clash
      (R.MEMORY.lookup c = none → (R.NAMES.lookup nm).isSome = true →
        core R fresh nm seq sst true = (R, .error (.objects "Duplicate DSD_Complex name!")) ∧
        (complexRequest pfx r fresh { seq := some seq, sst := sst, name := some nm }).1 = r ∧
        (complexRequest pfx r fresh { seq := some seq, sst := sst, name := some nm }).2.1 = .singletonErr none) := by
  have hd' := (descr_iff _ _).mp hd
  obtain ⟨c, rot, hcan⟩ := legacyCanon_total seq sst hd'
  obtain ⟨vs, hvs, hlen, hcv, hidx, a1, a2, hrotlt, hback, hfwd⟩ := legacyCanon_facts seq sst hd' c rot hcan
  refine ⟨c, rot, hcan, ?_, ?_, ?_, ?_⟩
  · intro ids hids
    obtain ⟨rot', h1, _⟩ := C20L.legacy_canon_eq seq sst hd ids hids
    rw [hcan] at h1
    simp only [Except.ok.injEq, Prod.mk.injEq] at h1
    exact h1.1.symm
  · -- new
    intro hm hn
    have hfree := free_corr R r hL hk hcorr seq sst hd' c rot hcan hm
    obtain ⟨c', m1, m2, hcreate, _⟩ := cur_free pfx r seq sst hd hfree fresh nm
    have hcc : c' = c := by
      rw [orbit_eq, nStrands_eq] at m1 m2
      exact Ord.min_unique ckeyLt Ord.ckeyLt_sto _ _ _ _ (fun _ => Iff.rfl) ⟨m1, m2⟩ ⟨a1, a2⟩
    subst hcc
    have hfn : r.findName nm = none := by
      have := names_corr R r hL hcorr nm
      rw [hn] at this
      cases h : r.findName nm with
      | none => rfl
      | some _ => rw [h] at this; cases this
    obtain ⟨hc1, hc2⟩ := hcreate hfn
    have hleg := (legacy_new_or_clash R hL fresh nm seq sst hd' c' rot hcan hm).2 hn
    obtain ⟨hwf', hk'⟩ := keys_are_orbit_preserved pfx r hwf hk seq sst hd fresh (some nm) hfresh
    refine ⟨hleg, hc2, ⟨_, hc1⟩, ?_, ?_, hwf', hk'⟩
    · -- the legacy invariant
      rw [hleg]
      refine ⟨?_, ?_, ?_, ?_⟩
      · simp only [List.map_append, List.map_cons, List.map_nil]
        rw [List.nodup_append]
        refine ⟨hL.memKeys, by simp, ?_⟩
        intro a ha b hb
        simp only [List.mem_singleton] at hb
        subst hb
        intro e; subst e
        exact (lookup_none_iff _ _).mp hm ha
      · simp only [List.map_append, List.map_cons, List.map_nil]
        rw [List.nodup_append]
        refine ⟨hL.nameKeys, by simp, ?_⟩
        intro a ha b hb
        simp only [List.mem_singleton] at hb
        subst hb
        intro e; subst e
        exact (lookup_none_iff _ _).mp hn ha
      · intro c0 ob hmem
        simp only [List.mem_append, List.mem_singleton, Prod.mk.injEq] at hmem
        rcases hmem with hmem | ⟨rfl, rfl⟩
        · obtain ⟨g1, ro, g2, g3, g4⟩ := hL.entry c0 ob hmem
          exact ⟨g1, ro, g2, g3, List.mem_append_left _ g4⟩
        · exact ⟨hd, rot, rfl, hcan, List.mem_append_right _ (List.mem_singleton.mpr rfl)⟩
      · intro nm0 c0 hmem
        simp only [List.mem_append, List.mem_singleton, Prod.mk.injEq] at hmem
        rcases hmem with hmem | ⟨rfl, rfl⟩
        · obtain ⟨ob, g1, g2⟩ := hL.names nm0 c0 hmem
          exact ⟨ob, List.mem_append_left _ g1, g2⟩
        · exact ⟨_, List.mem_append_right _ (List.mem_singleton.mpr rfl), rfl⟩
    · -- the states correspond again
      rw [hleg, hc1]
      refine ⟨?_, ?_⟩
      · intro c0 ob hmem
        simp only [List.mem_append, List.mem_singleton, Prod.mk.injEq] at hmem
        rcases hmem with hmem | ⟨rfl, rfl⟩
        · obtain ⟨o, ho, g⟩ := hcorr.fwd c0 ob hmem
          exact ⟨o, by simp [Reg.register, ho], g⟩
        · exact ⟨{ id := fresh, name := nm, canon := c0, keys := (orbit (nStrands seq) seq sst).eraseDups },
            by simp [Reg.register], rfl, rfl, rfl⟩
      · intro o ho
        simp only [Reg.register, List.mem_append, List.mem_singleton] at ho
        rcases ho with ho | rfl
        · obtain ⟨ob, g1, g2⟩ := hcorr.bwd o ho
          exact ⟨ob, List.mem_append_left _ g1, g2⟩
        · exact ⟨_, List.mem_append_right _ (List.mem_singleton.mpr rfl), rfl, rfl⟩
  · -- duplicate
    intro ob hm
    have hmem := mem_of_lookup _ _ _ hm
    obtain ⟨hdo, ro, hro, hco, _⟩ := hL.entry c ob hmem
    have hdo' := (descr_iff _ _).mp hdo
    obtain ⟨_, _, _, _, _, b1, _, hrolt, hbacko, _⟩ := legacyCanon_facts ob.seq ob.sst hdo' c ro hco
    obtain ⟨hdc, hnc, hxc⟩ := self_mem_orb_of (seq, sst) hd' c a1
    obtain ⟨_, hnco, _⟩ := self_mem_orb_of (ob.seq, ob.sst) hdo' c b1
    refine ⟨ro, hro, legacy_dup R hL fresh nm seq sst hd' c rot hcan ob hm ro hro, ?_, ?_⟩
    · have := rot_equation c hdc rot ro (by rw [hnc]; exact hrotlt) (by rw [hnco]; exact hrolt) (seq, sst)
        (ob.seq, ob.sst) hback hbacko
      rw [hnc] at this
      exact this
    · obtain ⟨o, ho, hoc, hoid, honame⟩ := hcorr.fwd c ob hmem
      obtain ⟨_, hkeys⟩ := hk o ho
      have hrot : (seq, sst) ∈ o.keys := by
        rw [hkeys, hoc, orbit_eq, nStrands_eq]
        exact hxc
      obtain ⟨g1, g2⟩ := cur_existing pfx r hwf hk o ho seq sst hd hrot fresh nm
      refine ⟨g1, ?_⟩
      rw [g2, honame, hoid, names_corr R r hL hcorr nm]
  · -- clash
    intro hm hn
    have hfree := free_corr R r hL hk hcorr seq sst hd' c rot hcan hm
    obtain ⟨_, _, _, _, hclash⟩ := cur_free pfx r seq sst hd hfree fresh nm
    have hfn : (r.findName nm).isSome = true := by rw [← names_corr R r hL hcorr nm]; exact hn
    exact ⟨(legacy_new_or_clash R hL fresh nm seq sst hd' c rot hcan hm).1 hn, hclash hfn⟩

/-- **what a refused construction leaves behind: nothing in NAMES and MEMORY** — for EVERY input (well-formed or
    not, any name, prefix and flag).  Only the counter `ID` may have been consumed. -/
theorem legacy_refused_leaves_nothing (R : LReg) (fresh : Nat) (seq : List String) (sst : List Char)
    (name : Option String) (pfx : String) (mc : Bool) (R' : LReg) (e : LErr)
    (h : construct R fresh seq sst name pfx mc = (R', .error e)) :
    R'.NAMES = R.NAMES ∧ R'.MEMORY = R.MEMORY ∧ (R'.ID = R.ID ∨ R'.ID = R.ID + 1) := by
  by_cases hn : ∃ n, name = some n ∧ n ≠ ""
  · obtain ⟨n, rfl, hne⟩ := hn
    rw [construct_named R fresh seq sst n pfx mc hne] at h
    have := core_refused R fresh n seq sst mc e R' h
    rw [this]; exact ⟨rfl, rfl, Or.inl rfl⟩
  · have hname : name = none ∨ name = some "" := by
      cases name with
      | none => exact Or.inl rfl
      | some n =>
        right
        by_cases e : n = ""
        · rw [e]
        · exact absurd ⟨n, rfl, e⟩ hn
    obtain ⟨b1, b2⟩ := construct_bad_prefix R fresh seq sst name pfx mc hname
    by_cases hp : pfx = ""
    · rw [b1 hp] at h; cases h; exact ⟨rfl, rfl, Or.inl rfl⟩
    · cases hdig : endsWithDigit pfx with
      | true => rw [b2 hp hdig] at h; cases h; exact ⟨rfl, rfl, Or.inl rfl⟩
      | false =>
        rw [construct_auto R fresh seq sst name pfx mc hname hp hdig] at h
        have := core_refused _ fresh _ seq sst mc e R' h
        rw [this]; exact ⟨rfl, rfl, Or.inr rfl⟩

/-! ### the full model and the abstract one (`legacy_canon_eq`) -/

/-- **`canonical_form` of the full legacy model is the current canonical form**: for a fresh instance of a well-formed
    description, with the memory check off or no rotation of it registered, the statement-level `canonical_form`
    returns `ids.canon` of the current API (`complexIdentifiers` on an empty registry), sets `_rotations` to the value
    of the abstract model (`legacyCanon`, Props/C20Legacy.lean), and leaves the instance in its representation;
    `_rotations` turns of the canonical form give the representation back. -/
theorem legacy_full_canon_eq (R : LReg) (fresh : Nat) (nm : String) (seq : List String) (sst : List Char) (mc : Bool)
    (hd : Descr seq sst)
    (hfree : mc = false ∨ ∀ z ∈ orbit (nStrands seq) seq sst, R.MEMORY.lookup z = none)
    (ids : CplxIds) (h : complexIdentifiers ({} : Reg CKey) seq sst = .ok ids) :
    ∃ rot, (mk0 fresh nm seq sst mc).canonicalForm R = (registered fresh nm seq sst mc ids.canon rot, .ok ids.canon) ∧
      legacyCanon seq sst = .ok (ids.canon, rot) ∧ rot < nStrands seq ∧
      rotateN rot ids.canon.1 ids.canon.2 = .ok (seq, sst) := by
  have hd' := (descr_iff _ _).mp hd
  obtain ⟨vs, hvs, ha, _⟩ := canonicalForm_fresh R fresh nm seq sst mc hd'
  obtain ⟨c, rot, hc, hcf⟩ := ha (by
    intro z hz
    rcases hfree with rfl | hfree
    · rfl
    · unfold chk
      split
      · exact hfree z ((variants_mem_orb seq sst hd' vs hvs z).mp hz)
      · rfl)
  obtain ⟨rot', h1, _⟩ := C20L.legacy_canon_eq seq sst hd ids h
  rw [hc] at h1
  simp only [Except.ok.injEq, Prod.mk.injEq] at h1
  obtain ⟨rfl, rfl⟩ := h1
  obtain ⟨_, _, _, _, _, _, _, hlt, hback, _⟩ := legacyCanon_facts seq sst hd' _ _ hc
  exact ⟨_, hcf, hc, hlt, hback⟩

/-- `__eq__`, `__lt__` (and with them `__ne__`, `__gt__`, `__le__`, `__ge__`, `__hash__`) compare canonical forms,
    like the current class -/
theorem legacy_compare (R : LReg) (a b : LObj) (ca cb : CKey) (ha : a.canon = some ca) (hb : b.canon = some cb) :
    objEq R a b = .ok (ca == cb) ∧ objLt R a b = .ok (ckeyLt ca cb) := by
  unfold objEq objLt
  rw [canonicalForm_cached R a ca ha, canonicalForm_cached R b cb hb]
  exact ⟨rfl, rfl⟩

/-- `clear_memory()` returns to the initial class state, which satisfies the invariant -/
theorem legacy_clear_memory (R : LReg) : clearMemory R = {} ∧ LWF (clearMemory R) := ⟨rfl, lwf_empty⟩

/-! ## non-vacuity -/

namespace Ex

theorem descr_ba : Descr ["b", "+", "a"] ['(', '+', ')'] := by
  refine ⟨⟨rfl, ?_⟩, ⟨[some 2, none, some 0], by decide⟩, by decide, by decide⟩
  intro i
  match i with
  | 0 => decide
  | 1 => decide
  | 2 => decide
  | k + 3 => simp

theorem descr_ab : Descr ["a", "+", "b"] ['(', '+', ')'] := by
  refine ⟨⟨rfl, ?_⟩, ⟨[some 2, none, some 0], by decide⟩, by decide, by decide⟩
  intro i
  match i with
  | 0 => decide
  | 1 => decide
  | 2 => decide
  | k + 3 => simp

theorem descr_a : Descr ["a"] ['.'] := by
  refine ⟨⟨rfl, ?_⟩, ⟨[none], by decide⟩, by decide, by decide⟩
  intro i
  match i with
  | 0 => decide
  | k + 1 => simp

/-- the legacy class state after `x = DSD_Complex(['b','+','a'], '(+)', name = 'x')` … -/
def R1 : LReg := (construct {} 0 ["b", "+", "a"] ['(', '+', ')'] (some "x")).1
/-- … and the current registry after `ComplexS(['b','+','a'], '(+)', name = 'x')` -/
def r1 : Reg CKey := (complexRequest "cplx" {} 0 { seq := some ["b", "+", "a"], sst := ['(', '+', ')'], name := some "x" }).1

set_option synthInstance.maxSize 4000 in
/-- the states as values: canonical form `a( + )`-ordered (`a + b`), `_rotations = 1`, the instance is back in its own
    representation `b + a`; the current object has the same canonical form and both rotations as keys -/
example : (R1.ID, R1.NAMES, R1.MEMORY) = (0, [("x", (["a", "+", "b"], ['(', '+', ')']))],
      [((["a", "+", "b"], ['(', '+', ')']),
        registered 0 "x" ["b", "+", "a"] ['(', '+', ')'] true (["a", "+", "b"], ['(', '+', ')']) 1)]) ∧
    r1.objs.map (fun o => (o.id, o.name, o.canon, o.keys)) =
      [(0, "x", (["a", "+", "b"], ['(', '+', ')']),
        [(["b", "+", "a"], ['(', '+', ')']), (["a", "+", "b"], ['(', '+', ')'])])] := by decide

/-- case 1 of `legacy_construct_eq` applied to the empty states: the hypotheses hold, the construction is new on both
    sides, and the resulting states `R1`, `r1` correspond and satisfy the invariants -/
theorem states1 : LWF R1 ∧ Corr R1 r1 ∧ C01.WF r1 ∧ KeysAreOrbit r1 := by
  obtain ⟨c, rot, _, _, hnew, _, _⟩ := legacy_construct_eq {} {} lwf_empty C01.wf_init (fun _ h => by cases h)
    corr_empty ["b", "+", "a"] ['(', '+', ')'] descr_ba "x" 0 (fun _ h => by cases h) "cplx"
  obtain ⟨_, _, _, h1, h2, h3, h4⟩ := hnew rfl rfl
  rw [← construct_named {} 0 ["b", "+", "a"] ['(', '+', ')'] "x" "cplx" true (by decide)] at h1 h2
  exact ⟨h1, h2, h3, h4⟩

/-- case 2 on these states, by evaluation: the other rotation is a duplicate — `existing` is object 0, `rotations`
    is −1 (a DIFFERENCE of two `_rotations`, meaningful modulo the number of strands: −1 mod 2 = 1 turn of `b + a`
    gives `a + b`); the current API refuses the unnamed/free-named request with `existing` = object 0, returns
    object 0 for the name `x` — where the legacy class raises all the same -/
example :
    (construct R1 1 ["a", "+", "b"] ['(', '+', ')'] (some "y")).2 = .error (.duplication 0 (-1)) ∧
    (construct R1 1 ["a", "+", "b"] ['(', '+', ')'] (some "x")).2 = .error (.duplication 0 (-1)) ∧
    (construct R1 1 ["a", "+", "b"] ['(', '+', ')'] (some "y")).1 = R1 ∧
    rotateN 1 ["b", "+", "a"] ['(', '+', ')'] = .ok (["a", "+", "b"], ['(', '+', ')']) ∧
    (complexRequest "cplx" r1 1 { seq := some ["a", "+", "b"], sst := ['(', '+', ')'], name := some "y" }).2.1 =
      .singletonErr (some 0) ∧
    (complexRequest "cplx" r1 1 { seq := some ["a", "+", "b"], sst := ['(', '+', ')'], name := some "x" }).2.1 =
      .ret 0 false := by decide

/-- … and from the theorem -/
example : ∃ ro, (construct R1 1 ["a", "+", "b"] ['(', '+', ')'] (some "y")).2 = .error (.duplication 0 ((0 : Int) - ro)) := by
  obtain ⟨hL, hC, hW, hK⟩ := states1
  obtain ⟨c, rot, hcan, _, _, hdup, _⟩ := legacy_construct_eq R1 r1 hL hW hK hC ["a", "+", "b"] ['(', '+', ')'] descr_ab "y" 1
    (by decide) "cplx"
  have hc : (c, rot) = ((["a", "+", "b"], ['(', '+', ')']), 0) := by
    have : legacyCanon ["a", "+", "b"] ['(', '+', ')'] = .ok ((["a", "+", "b"], ['(', '+', ')']), 0) := by decide
    rw [this] at hcan; cases hcan; rfl
  cases hc
  obtain ⟨ro, _, h, _⟩ := hdup (registered 0 "x" ["b", "+", "a"] ['(', '+', ')'] true (["a", "+", "b"], ['(', '+', ')']) 1)
    (by decide)
  rw [construct_named R1 1 _ _ "y" "cplx" true (by decide)]
  exact ⟨ro, by rw [h]; rfl⟩

/-- case 3 by evaluation: a new complex under the bound name `x` — 'Duplicate DSD_Complex name!' / SingletonError
    without `existing`, nothing changed on either side -/
example :
    construct R1 1 ["a"] ['.'] (some "x") = (R1, .error (.objects "Duplicate DSD_Complex name!")) ∧
    (complexRequest "cplx" r1 1 { seq := some ["a"], sst := ['.'], name := some "x" }).2.1 = .singletonErr none ∧
    (complexRequest "cplx" r1 1 { seq := some ["a"], sst := ['.'], name := some "x" }).1.objs.length = 1 := by decide

end Ex

/-! ## FINDINGS — where the legacy class and the current API differ (all checked by evaluation of the two models;
the legacy values were also observed on the real code) -/

namespace Findings
open Ex

/-- F1 (`name = ''` vs `None`).  The legacy class treats both as "no name" and generates `cplx0`.  The current API
    distinguishes: `None` generates a name, `''` is falsy inside `Singleton.__call__` and turns the request into a
    look-up by canonical form, which for a new complex raises SingletonError. -/
theorem empty_name :
    (construct {} 0 ["a"] ['.'] (some "")).2.toOption.map (·.name) = some "cplx0" ∧
    (construct {} 0 ["a"] ['.'] none).2.toOption.map (·.name) = some "cplx0" ∧
    (complexRequestFull "cplx" {} 0 { seq := some ["a"], sst := ['.'], name := some "" }).2.1 = .singletonErr none ∧
    (complexRequestFull "cplx" {} 0 { seq := some ["a"], sst := ['.'], name := none }).2.1 = .ret 0 true := by decide

/-- F2 (prefix).  The legacy class refuses an empty prefix and a prefix ending in a digit (class state untouched); the
    current API has no such check: prefix `c1` yields the name `c11` (indistinguishable from prefix `c` at ID 11),
    the empty prefix yields the name `1`. -/
theorem prefix_checks :
    construct {} 0 ["a"] ['.'] none "c1" = ({}, .error (.objects "DSD_Complex prefix must not end with a digit!")) ∧
    construct {} 0 ["a"] ['.'] none "" = ({}, .error (.objects "DSD_Complex prefix must not be empty!")) ∧
    (complexRequest "cplx" {} 0 { seq := some ["a"], sst := ['.'], prefix_ := some "c1" }).1.objs.map (·.name) = ["c11"] ∧
    (complexRequest "cplx" {} 0 { seq := some ["a"], sst := ['.'], prefix_ := some "" }).1.objs.map (·.name) = ["1"] := by
  decide

/-- F3 (the counter).  Legacy `ID` starts at 0 and is consumed BEFORE the checks: a refused duplicate, a name clash
    of an automatic name and a length mismatch all burn a number.  The current `ID` starts at 1 and is consumed only
    when an automatically named object is created. -/
theorem counter :
    (construct R1 1 ["a", "+", "b"] ['(', '+', ')'] none).1.ID = 1 ∧
    (construct {} 0 ["a", "b"] ['.'] none).1.ID = 1 ∧
    (complexRequest "cplx" r1 1 { seq := some ["a", "+", "b"], sst := ['(', '+', ')'] }).1.autoId = 1 ∧
    (complexRequest "cplx" {} 0 { seq := some ["a"], sst := ['.'] }).1.objs.map (·.name) = ["cplx1"] ∧
    (construct {} 0 ["a"] ['.'] none).1.NAMES.map (·.1) = ["cplx0"] := by decide

/-- F4 (`memorycheck = False`).  Nothing is computed and nothing is registered: no canonical form, `_rotations` is
    `None`, NAMES and MEMORY stay empty, the same complex under the same name can be constructed again without any
    error, and a later `canonical_form` does not consult MEMORY (no duplication error even for a registered complex).
    The current API has no way to create an unregistered complex. -/
theorem memorycheck_false :
    construct {} 0 ["a", "+", "b"] ['(', '+', ')'] (some "m") "cplx" false =
      ({}, .ok (mk0 0 "m" ["a", "+", "b"] ['(', '+', ')'] false)) ∧
    (construct R1 1 ["a", "+", "b"] ['(', '+', ')'] (some "x") "cplx" false).1 = R1 ∧
    ((mk0 1 "x" ["a", "+", "b"] ['(', '+', ')'] false).canonicalForm R1).2 = .ok (["a", "+", "b"], ['(', '+', ')']) ∧
    (mk0 1 "x" ["a", "+", "b"] ['(', '+', ')'] false).rotations = none := by decide

/-- F5 (same name, same complex).  Constructing a registered complex again under ITS OWN name is a
    DSDDuplicationError in the legacy class; the current API returns the existing object (case 2 of
    `legacy_construct_eq`, first branch). -/
theorem same_name_same_complex :
    (construct R1 1 ["b", "+", "a"] ['(', '+', ')'] (some "x")).2 = .error (.duplication 0 0) ∧
    (complexRequest "cplx" r1 1 { seq := some ["b", "+", "a"], sst := ['(', '+', ')'], name := some "x" }).2.1 = .ret 0 false := by
  decide

def symReq : CplxReq :=
  { seq := some ["b", "+", "a", "+", "b", "+", "a"], sst := ['.', '+', '.', '+', '.', '+', '.'], name := some "s" }

/-- F6 (`_rotations` of a rotationally symmetric complex).  `all_variants` keeps the FIRST count at which a
    representation is met, the current `cdict` the LAST: for `b + a + b + a` (period 2 in 4 strands) the legacy
    `_rotations` is 3, the current `turns` is 1 — both are valid exponents (3 ≡ 1 mod the period 2). -/
theorem symmetric_rotations :
    (construct {} 0 ["b", "+", "a", "+", "b", "+", "a"] ['.', '+', '.', '+', '.', '+', '.'] (some "s")).2.toOption.map
      (fun o => (o.canon, o.rotations)) = some (some (["a", "+", "b", "+", "a", "+", "b"], ['.', '+', '.', '+', '.', '+', '.']), some 3) ∧
    (complexRequest "c" {} 0 symReq).2.2.map (fun i => (i.canon, i.turns)) =
      some ((["a", "+", "b", "+", "a", "+", "b"], ['.', '+', '.', '+', '.', '+', '.']), 1) ∧
    rotateN 3 ["a", "+", "b", "+", "a", "+", "b"] ['.', '+', '.', '+', '.', '+', '.'] =
      rotateN 1 ["a", "+", "b", "+", "a", "+", "b"] ['.', '+', '.', '+', '.', '+', '.'] := by decide

/-- F7 (the `_rotations` value after a duplicate).  The refused instance never gets `_rotations` (it is discarded with
    `_canonical_form = None`); the registered one keeps its value; the error carries the DIFFERENCE, which can be
    negative (here −1), whereas the current `turns` is always in `[0, n)`. -/
theorem rotations_after_duplicate :
    (construct R1 1 ["a", "+", "b"] ['(', '+', ')'] (some "y")) = (R1, .error (.duplication 0 (-1))) ∧
    R1.MEMORY.map (fun p => p.2.rotations) = [some 1] := by decide

/-- F8 (ill-formed structures).  Neither side validates the structure.  An unmatched `(` is accepted by both.  An
    unmatched `)` is refused by both, with different exception classes (DSDObjectsError / SecondaryStructureError) —
    and the legacy `rotate_once` has already rotated `_sequence` when it raises, so an instance made with
    `memorycheck = False` is left with `_sequence` and `_structure` out of step. -/
theorem ill_formed :
    (construct {} 0 ["a", "+", "b"] ['(', '+', '.'] (some "w")).2.toOption.map (·.name) = some "w" ∧
    (complexRequest "c" {} 0 { seq := some ["a", "+", "b"], sst := ['(', '+', '.'], name := some "w" }).2.1 = .ret 0 true ∧
    (construct {} 0 ["a", "+", "b"] [')', '+', '('] (some "w")).2 =
      .error (.objects "Unbalanced parenthesis in secondary structure.") ∧
    (complexRequest "c" {} 0 { seq := some ["a", "+", "b"], sst := [')', '+', '('], name := some "w" }).2.1 = .ssErr ∧
    (let o := ((mk0 0 "w" ["a", "+", "b"] [')', '+', '('] false).canonicalForm {}).1; (o.seq, o.sst)) =
      (["b", "+", "a"], [')', '+', '(']) := by decide

/-- F9 (empty strands, outside the well-formed population).  Both sides count NON-EMPTY strands for the number of
    loop iterations, but the legacy loop records the representations AFTER each rotation (r¹x … rⁿx), the current one
    BEFORE (r⁰x … rⁿ⁻¹x).  For `a + + b` (3 strands, 2 non-empty) the two loops see different parts of the orbit:
    the legacy class registers `a + + b` and its rotation `+ b + a` as TWO complexes (their "canonical forms" are each
    other), the current API recognises the second as the first.  Moreover the legacy instance is left turned twice
    (`b + a +`), not in the representation it was constructed with. -/
theorem empty_strands :
    let Ra := (construct {} 0 ["a", "+", "+", "b"] ['.', '+', '+', '.'] (some "e")).1
    let ra := (complexRequest "c" {} 0 { seq := some ["a", "+", "+", "b"], sst := ['.', '+', '+', '.'], name := some "e" }).1
    (construct Ra 1 ["+", "b", "+", "a"] ['+', '.', '+', '.'] (some "f")).1.MEMORY.map (fun p => (p.1.1, p.2.name)) =
      [(["+", "b", "+", "a"], "e"), (["a", "+", "+", "b"], "f")] ∧
    (complexRequest "c" ra 1 { seq := some ["+", "b", "+", "a"], sst := ['+', '.', '+', '.'], name := some "f" }).2.1 =
      .singletonErr (some 0) ∧
    (construct {} 0 ["a", "+", "+", "b"] ['.', '+', '+', '.'] (some "e")).2.toOption.map (·.seq) = some ["b", "+", "a", "+"] := by
  decide

/-- F10 (no strand at all).  `DSD_Complex([], [])` and `DSD_Complex(['+'], ['+'])` end in an IndexError
    (`sorted([])[0]`), after an automatic name has consumed `ID`; the current API raises its ObjectInitError. -/
theorem no_strands :
    construct {} 0 [] [] none = ({ ID := 1 }, .error (.fault "IndexError")) ∧
    construct {} 0 ["+"] ['+'] (some "p") = ({}, .error (.fault "IndexError")) ∧
    (complexRequest "c" {} 0 { seq := some [], sst := [] }).2.1 = .objectInitErr := by decide

/-- F11 (`do_memorycheck()` without arguments).  On ANY registered instance the public call computes
    `abs(None - self.size)` and dies with a TypeError instead of reporting the duplicate. -/
theorem public_memorycheck :
    (R1.MEMORY.map (fun p => (p.2.doMemorycheckDefault R1).2)) = [some (.fault "TypeError")] := by decide

set_option synthInstance.maxSize 4000 in
/-- F12 (a registered instance can be turned behind the registry's back).  `rotate_once()` is public and does not
    touch `_rotations`: afterwards `_rotations` no longer relates the representation to the canonical form (here
    `_rotations = 1`, but the representation IS the canonical form), and the duplication error of a later
    construction reports a `rotations` that is off by that turn.  The current `turns` setter rotates and records
    together. -/
theorem stale_rotations :
    (R1.MEMORY.map (fun p => (p.2.rotateOnce.1.seq, p.2.rotateOnce.1.sst, p.2.rotateOnce.1.canon, p.2.rotateOnce.1.rotations))) =
      [(["a", "+", "b"], ['(', '+', ')'], some (["a", "+", "b"], ['(', '+', ')']), some 1)] := by decide

/-- F13 (a modelling remark on `rotate_complex_once`, not on the code).  If the structure is SHORTER than the position
    of the first `+` both Python functions raise IndexError; the legacy model does, `Dsd.rotateOnce` (which slices)
    does not.  `__init__`'s length check keeps every instance out of this case. -/
theorem short_structure :
    (rotateOnceLists ["a", "b", "+", "c"] ['.']).2 = .error (.fault "IndexError") ∧
    rotateOnce ["a", "b", "+", "c"] ['.'] = .ok (["c", "+", "a", "b"], ['+', '.']) := by decide

/-- the seeded regression: `__init__` with its two registry writes REORDERED (`MEMORY[canon] = self` before the test of
    the name) — NOT the model of the code, only here to show what `legacy_refused_leaves_nothing` excludes -/
def coreSwapped (R1 : LReg) (fresh : Nat) (nm : String) (seq : List String) (sst : List Char) : LReg × Except LErr LObj :=
  match (mk0 fresh nm seq sst true).canonicalForm R1 with
  | (_, .error e) => (R1, .error e)
  | (o1, .ok canon) =>
    let R2 := { R1 with MEMORY := dictPut R1.MEMORY canon o1 }
    if (R2.NAMES.lookup nm).isSome then (R2, .error (.objects "Duplicate DSD_Complex name!"))
    else ({ R2 with NAMES := dictPut R2.NAMES nm canon }, .ok o1)

/-- SENSITIVITY.  With the writes reordered, the refused construction of a new complex under the bound name `x` leaves
    a MEMORY entry without a NAMES entry behind — and the next, perfectly legal construction of that complex is then
    refused as a "duplicate" of an instance nobody holds.  The model of the real code leaves nothing. -/
theorem swapped_writes_leak :
    (coreSwapped R1 1 "x" ["a"] ['.']).2 = .error (.objects "Duplicate DSD_Complex name!") ∧
    (coreSwapped R1 1 "x" ["a"] ['.']).1.MEMORY.length = 2 ∧ (coreSwapped R1 1 "x" ["a"] ['.']).1.NAMES.length = 1 ∧
    (construct (coreSwapped R1 1 "x" ["a"] ['.']).1 2 ["a"] ['.'] (some "y")).2 = .error (.duplication 1 0) ∧
    (construct R1 1 ["a"] ['.'] (some "x")).1 = R1 ∧
    (construct R1 2 ["a"] ['.'] (some "y")).2.toOption.map (·.name) = some "y" := by decide

end Findings

end Dsd.C20F
