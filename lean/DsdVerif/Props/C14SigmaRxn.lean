/-
C14, end to end on the reader model, continued: resting macrostates (Stage 6a) and reactions (Stage 6b).
-/
import DsdVerif.Props.C14SigmaCplx
import DsdVerif.Lemmas.ReaderSigmaMacroAttr
import DsdVerif.Lemmas.ReaderSigmaRxnAttr

namespace Dsd.C14
open Dsd Dsd.PP Dsd.RState

/-! ### the lower stages carry over to every larger state -/

theorem declRead_of (sl : Slots) (hdom : sl.dom < 4) (ds : List Sig.Decl) (hsys : Sig.Sys ds) (ss : List Sig.SDecl)
    (C : List Sig.CSpec) (s' : RState) (d' : RDict) (hl : Sig.Lower sl ds ss C s' d') (d : Sig.Decl) (hd : d ∈ ds) :
    DeclRead sl s' d' d := by
  obtain ⟨k, hk⟩ := List.getElem?_of_mem hd
  have hlt := Sig.getElem?_lt' _ _ _ hk
  obtain ⟨l1, l2⟩ := Sig.dDict_lookup ds hsys k d hk
  obtain ⟨f1, f2⟩ := Sig.dObjs_find ds k d hk
  have o1 := Sig.domObj_gen s'.w sl.dom hdom (Sig.dObjs ds) hl.doms _ _ (hl.ndom (2 * k) (by omega)) f1
  have o2 := Sig.domObj_gen s'.w sl.dom hdom (Sig.dObjs ds) hl.doms _ _ (hl.ndom (2 * k + 1) (by omega)) f2
  have live : ∀ i, i < 2 * ds.length → s'.w.isLive i = true := by
    intro i hi
    unfold World.isLive World.node
    rw [hl.ndom i hi]; rfl
  refine ⟨2 * k, 2 * k + 1, _, _, by omega, by rw [hl.ddict]; exact l1, by rw [hl.ddict]; exact l2, o1, rfl, rfl, rfl,
    o2, rfl, rfl, rfl, live _ (by omega), live _ (by omega),
    hl.held _ (by unfold Sig.base4; omega), hl.held _ (by unfold Sig.base4; omega),
    Sig.reread_gen sl hdom ds hsys s' hl.doms k d hk, ?_⟩
  rw [hl.dseq]
  cases d with
  | dl n tk l => exact Sig.dSeq_lookup_dl ds k n tk l hk
  | sl n seq =>
    obtain ⟨q1, q2⟩ := Sig.dSeq_lookup ds k n seq hk
    obtain ⟨rc, hrc, hlen, _⟩ := Iupac.wc_sequence_exact .dna seq.toList.reverse
      (fun c hc => hsys.ok _ hd c (List.mem_reverse.mp hc))
    have hrc' : Iupac.reverseWcComplement .dna seq.toList = some rc := hrc
    refine ⟨q1, rc, hrc', by rw [hlen, List.length_reverse]; exact String.length_toList, ?_⟩
    rw [q2, Sig.rcOf, hrc']; rfl

theorem strandRead_of (sl : Slots) (hstr : sl.strand < 4) (ds : List Sig.Decl) (hsys : Sig.Sys ds) (ss : List Sig.SDecl)
    (hss : Sig.SSys ds ss) (C : List Sig.CSpec) (s' : RState) (d' : RDict) (hl : Sig.Lower sl ds ss C s' d')
    (p : Sig.SDecl) (hp : p ∈ ss) : StrandRead sl s' d' p := by
  obtain ⟨j, hj⟩ := List.getElem?_of_mem hp
  have hlt := Sig.getElem?_lt' _ _ _ hj
  have hnode : s'.w.node (2 * ds.length + j) = some (Sig.strandNode (2 * ds.length + j) sl.strand (Sig.idsOf ds p.2)) :=
    hl.nstrand j p hj
  have hobj := Sig.strandObj_gen s'.w sl.strand hstr (Sig.sObjs ds ss) hl.strands _ _ _ (hl.nstrand j p hj)
    (Sig.sObjs_find ds ss j p hj)
  refine ⟨2 * ds.length + j, _, _, by rw [hl.sdict]; exact Sig.sDict_lookup ds ss hss.names j p hj, hobj, rfl, rfl, rfl,
    hnode, rfl, rfl, ?_, ?_, hl.held _ (by unfold Sig.base4; omega)⟩
  · rw [hl.ddict]; exact (Sig.idsOf_lookup ds hsys p.2 (hss.content p hp)).symm
  · unfold World.isLive; rw [hnode]; rfl

theorem cplxRead_of (sl : Slots) (hcc : sl.cplx < 4) (ds : List Sig.Decl) (ss : List Sig.SDecl) (C : List Sig.CSpec)
    (hn : (C.map (·.name)).Nodup) (s' : RState) (d' : RDict) (hl : Sig.Lower sl ds ss C s' d') (c : Sig.CSpec)
    (hc : c ∈ C) (hd : Rot.Descr' c.ns c.sst)
    (hch : (c.seq.filterMap id).map some = (c.ns.filter (· != "+")).map (fun n => (Sig.dDict ds).lookup n)) :
    CplxRead sl s' d' c.name c.ns c.sst := by
  obtain ⟨j, hj⟩ := List.getElem?_of_mem hc
  have hlt := Sig.getElem?_lt' _ _ _ hj
  have hnode : s'.w.node (Sig.base4 ds ss + j) = some (Sig.cplxNode (Sig.base4 ds ss + j) sl.cplx (c.seq.filterMap id)) :=
    hl.ncplx j c hj
  have hobj := Sig.cplxObj_gen s'.w sl.cplx hcc _ hl.cplxs _ _ _ (hl.ncplx j c hj) (Sig.cObjs_find _ C j c hj)
  obtain ⟨_, b2, b3, b4, b5⟩ := Sig.cIds_canon c.ns c.sst hd
  refine ⟨_, _, _, _, by rw [hl.cdict]; exact Sig.cDict_lookup _ C hn j c hj, hobj, rfl, rfl, b2, b3, ?_,
    by rw [hl.cstate]; exact Sig.cStates_lookup _ C j c hj, rfl, rfl, rfl, rfl, b4, b5, hnode, rfl, rfl,
    by rw [hl.ddict]; exact hch, ?_, hl.held _ (by omega)⟩
  · intro x; exact List.mem_eraseDups
  · unfold World.isLive; rw [hnode]; rfl

/-! ### Stage 6a: resting macrostates -/

/-- the hypotheses of Stages 1–5 on a document `ds`, `ss`, `cds`, `kds`, bundled -/
structure Sys5 (ds : List Sig.Decl) (ss : List Sig.SDecl) (cds : List Sig.CDecl) (kds : List Sig.KDecl) : Prop where
  sys : Sig.Sys ds
  ssys : Sig.SSys ds ss
  strands : ∀ c ∈ cds, c.strands ≠ [] ∧ ∀ n ∈ c.strands, n ∈ ss.map (·.1)
  res : ∀ k ∈ kds, resolveKernel (treeSize 1000 k.pat + 2) k.pat = .ok (k.ns, k.sst)
  kdoms : ∀ k ∈ kds, ∀ n ∈ k.ns, n ≠ "+" → ∃ d ∈ ds, n = d.name ∨ n = d.name ++ "*"
  descr : ∀ c ∈ cds.map (Sig.CDecl.spec ds ss) ++ kds.map (Sig.KDecl.spec ds), C02.Descr c.ns c.sst
  names : ((cds.map (Sig.CDecl.spec ds ss) ++ kds.map (Sig.KDecl.spec ds)).map (·.name)).Nodup
  nonrot : (cds.map (Sig.CDecl.spec ds ss) ++ kds.map (Sig.KDecl.spec ds)).Pairwise
    (fun a b => (b.ns, b.sst) ∉ C02.orbit (C02.nStrands a.ns) a.ns a.sst)

/-- all complexes of the document, in document order -/
def allC (ds : List Sig.Decl) (ss : List Sig.SDecl) (cds : List Sig.CDecl) (kds : List Sig.KDecl) : List Sig.CSpec :=
  cds.map (Sig.CDecl.spec ds ss) ++ kds.map (Sig.KDecl.spec ds)

theorem Sys5.parts {ds ss cds kds} (h : Sys5 ds ss cds kds) :
    Sig.CSys ds ss cds ∧ Sig.KSys ds (cds.map (Sig.CDecl.spec ds ss)) kds ∧ Sig.CFacts (allC ds ss cds kds) := by
  have hdescr' : ∀ c ∈ cds.map (Sig.CDecl.spec ds ss) ++ kds.map (Sig.KDecl.spec ds), Rot.Descr' c.ns c.sst :=
    fun c hc => (C02.descr_iff _ _).mp (h.descr c hc)
  have hallnm : (cds.map (Sig.CDecl.spec ds ss) ++ kds.map (Sig.KDecl.spec ds)).map (·.name) =
      cds.map (·.name) ++ kds.map (·.name) := by
    rw [List.map_append, List.map_map, List.map_map]; rfl
  refine ⟨⟨h.strands, fun c hc => hdescr' _ (List.mem_append_left _ (List.mem_map_of_mem hc)), ?_, ?_⟩,
    ⟨h.res, ?_, hdescr', h.names, h.nonrot⟩, ⟨h.names, hdescr', h.nonrot⟩⟩
  · have := h.names; rw [hallnm] at this; exact (List.nodup_append.mp this).1
  · have := (List.pairwise_append.mp h.nonrot).1
    rw [List.pairwise_map] at this
    exact this
  · intro k hk n hn hne
    obtain ⟨d, hd, hnd⟩ := h.kdoms k hk n hn hne
    obtain ⟨i, hi⟩ := List.getElem?_of_mem hd
    exact ⟨i, d, hi, hnd⟩

/-- the lower part of every state over a Stage-5 document reads as the earlier stages say -/
theorem lower_reads (sl : Slots) (hdom : sl.dom < 4) (hstr : sl.strand < 4) (hcx : sl.cplx < 4) {ds ss cds kds}
    (h : Sys5 ds ss cds kds) (s' : RState) (d' : RDict) (hl : Sig.Lower sl ds ss (allC ds ss cds kds) s' d') :
    (∀ d ∈ ds, DeclRead sl s' d' d) ∧ (∀ p ∈ ss, StrandRead sl s' d' p) ∧
    (∀ c ∈ cds, CplxRead sl s' d' c.name (c.spec ds ss).ns c.sst) ∧ (∀ k ∈ kds, CplxRead sl s' d' k.name k.ns k.sst) := by
  obtain ⟨hcs, hks, hf⟩ := h.parts
  refine ⟨fun d hd => declRead_of sl hdom ds h.sys ss _ s' d' hl d hd,
    fun p hp => strandRead_of sl hstr ds h.sys ss h.ssys _ s' d' hl p hp, ?_, ?_⟩
  · intro c hc
    exact cplxRead_of sl hcx ds ss _ hf.names s' d' hl (c.spec ds ss)
      (List.mem_append_left _ (List.mem_map_of_mem hc))
      (hf.descr _ (List.mem_append_left _ (List.mem_map_of_mem hc)))
      (Sig.scplx_children ds h.sys ss h.ssys c (h.strands c hc).2)
  · intro k hk
    exact cplxRead_of sl hcx ds ss _ hf.names s' d' hl (k.spec ds)
      (List.mem_append_right _ (List.mem_map_of_mem hk))
      (hf.descr _ (List.mem_append_right _ (List.mem_map_of_mem hk)))
      (Sig.kseq_children ds h.sys k.ns (hks.doms k hk))

/-- what the final state and dictionary say about a resting macrostate `name` with member complexes `members`:
    the canonical form is the list of the members' canonical forms **sorted by the model's order** (`sortBy ckeyLt`),
    the node's children are the dictionary's complex identities **in the declared order** -/
def MacroRead (sl : Slots) (s' : RState) (d' : RDict) (name : String) (members : List String) : Prop :=
  ∃ id o nd mcs, d'.macrostates.lookup name = some id ∧
    s'.w.macroObj id = some (sl.macr, o) ∧ o.id = id ∧ o.name = name ∧
    mcs.length = members.length ∧
    (∀ (i : Nat) (n : String), members[i]? = some n → ∃ k cid oc, mcs[i]? = some k ∧
      d'.complexes.lookup n = some cid ∧ s'.w.cplxObj cid = some (sl.cplx, oc) ∧ oc.canon = k) ∧
    o.canon = sortBy ckeyLt mcs ∧ o.keys = [o.canon] ∧
    s'.w.node id = some nd ∧ nd.kind = .macro ∧ nd.cls = sl.macr ∧
    nd.children.map some = members.map (fun n => d'.complexes.lookup n) ∧
    s'.w.isLive id = true ∧ id ∈ s'.w.held

theorem macroRead6 (sl : Slots) (hcc : sl.cplx < 4) (hcm : sl.macr < 4) (ds : List Sig.Decl) (ss : List Sig.SDecl)
    (C : List Sig.CSpec) (hf : Sig.CFacts C) (MS : List Sig.MDecl) (hms : Sig.MSys C MS)
    (conc : List (Nat × (String × String × String))) (M : Sig.MDecl) (hM : M ∈ MS) :
    MacroRead sl (Sig.S6 sl.dom sl.strand sl.cplx sl.macr sl.rxn ds ss C MS conc) (Sig.D6 ds ss C MS) M.name M.members := by
  obtain ⟨j, hj⟩ := List.getElem?_of_mem hM
  obtain ⟨a1, a2, a3, a4⟩ := Sig.S6_macro sl.dom sl.strand sl.cplx sl.macr sl.rxn hcm ds ss C MS conc j M hj
  have hmem := (hms.each M hM).2.1
  have hl := Sig.lower_S6 sl ds ss C MS conc
  have key : ∀ n ∈ M.members, ∃ i c, C[i]? = some c ∧ c.name = n ∧
      (Sig.cDict (Sig.base4 ds ss) C).lookup n = some (Sig.base4 ds ss + i) ∧
      Sig.cResolve (Sig.base4 ds ss) C n = Sig.base4 ds ss + i := by
    intro n hn
    obtain ⟨c, hc, rfl⟩ := List.mem_map.mp (hmem n hn)
    obtain ⟨i, hi⟩ := List.getElem?_of_mem hc
    exact ⟨i, c, hi, rfl, Sig.cDict_lookup _ C hf.names i c hi, Sig.cResolve_get _ C hf i c hi⟩
  refine ⟨_, _, _, M.members.map (Sig.cCanonOf C), Sig.mDict_lookup _ MS hms.names j M hj, a2, rfl, rfl, by simp, ?_,
    Sig.macroCanon_eq C M, rfl, a1, rfl, rfl, ?_, a3, a4⟩
  · intro p n hp
    obtain ⟨i, c, hi, rfl, hlk, _⟩ := key n (List.mem_of_getElem? hp)
    refine ⟨Sig.cCanonOf C c.name, _, Sig.newCplx (Sig.base4 ds ss + i) c.name (Sig.cIds c.ns c.sst), by simp [hp],
      hlk, ?_, (Sig.cCanonOf_get C hf i c hi).symm⟩
    exact Sig.cplxObj_gen _ sl.cplx hcc _ hl.cplxs _ _ _ (hl.ncplx i c hi) (Sig.cObjs_find _ C i c hi)
  · simp only [Sig.macroNode, List.map_map]
    apply List.map_congr_left
    intro n hn
    obtain ⟨i, c, _, _, hlk, hres⟩ := key n hn
    simp only [Function.comp, hres]
    exact hlk.symm

/-- **Stage 6a (resting macrostates).**  After a Stage-5 document come `resting-macrostate` lines `MS` whose members
    are declared complexes (either notation), non-empty, with the macrostate's name among its members (as the library
    requires); macrostate names are pairwise distinct and the member *sets* pairwise different.  (Member lists need
    not be duplicate-free for the model.)  Then the read succeeds, the dictionary holds exactly the declared objects
    — `d'.macrostates` keys are the declared names in order — and every macrostate is read as `MacroRead` says. -/
theorem read_macrostates_sigma (sl : Slots) (hdom : sl.dom < 4) (hstr : sl.strand < 4) (hcx : sl.cplx < 4)
    (hmc : sl.macr < 4) (hrx : sl.rxn < 4) (ds : List Sig.Decl) (ss : List Sig.SDecl) (cds : List Sig.CDecl)
    (kds : List Sig.KDecl) (h5 : Sys5 ds ss cds kds) (MS : List Sig.MDecl)
    (hms : Sig.MSys (allC ds ss cds kds) MS) :
    ∃ s' d', ({} : RState).readDoc sl [] []
        (Sig.doc ds ++ (Sig.sdoc ss ++ (Sig.cdoc cds ++ (Sig.kdoc kds ++ Sig.mdoc MS)))) {} = (s', .ok d') ∧
      d'.domains.map (·.1) = ds.flatMap (fun d => [d.name, d.name ++ "*"]) ∧
      d'.strands.map (·.1) = ss.map (·.1) ∧
      d'.complexes.map (·.1) = cds.map (·.name) ++ kds.map (·.name) ∧
      d'.macrostates.map (·.1) = MS.map (·.name) ∧ (d'.macrostates.map (·.1)).Nodup ∧
      d'.det = [] ∧ d'.con = [] ∧ d'.other = 0 ∧
      (∀ d ∈ ds, DeclRead sl s' d' d) ∧ (∀ p ∈ ss, StrandRead sl s' d' p) ∧
      (∀ c ∈ cds, CplxRead sl s' d' c.name (c.spec ds ss).ns c.sst) ∧
      (∀ k ∈ kds, CplxRead sl s' d' k.name k.ns k.sst) ∧
      (∀ M ∈ MS, MacroRead sl s' d' M.name M.members) := by
  obtain ⟨hcs, hks, hf⟩ := h5.parts
  have hread := Sig.readDoc_fresh6 sl hdom hstr hcx hmc hrx ds h5.sys ss h5.ssys cds hcs kds hks MS hms []
  simp only [List.append_nil, readDoc] at hread
  have hallnm : (allC ds ss cds kds).map (·.name) = cds.map (·.name) ++ kds.map (·.name) := by
    unfold allC; rw [List.map_append, List.map_map, List.map_map]; rfl
  obtain ⟨r1, r2, r3, r4⟩ := lower_reads sl hdom hstr hcx h5 _ _ (Sig.lower_S6 sl ds ss (allC ds ss cds kds) MS _)
  refine ⟨_, _, hread, Sig.dDict_keys ds, Sig.sDict_keys ds ss, ?_, Sig.mDict_keys _ MS, ?_, rfl, rfl, rfl,
    r1, r2, r3, r4, ?_⟩
  · show (Sig.cDict _ _).map (·.1) = _
    rw [Sig.cDict_keys]; exact hallnm
  · show ((Sig.mDict _ MS).map (·.1)).Nodup
    rw [Sig.mDict_keys]; exact hms.names
  · exact fun M hM => macroRead6 sl hcx hmc ds ss _ hf MS hms _ M hM

/-- **declaring a macrostate again** in the state the document produced: under the same name with a permutation
    of the members it is the same object (no error); under the same name with a different member set it is refused
    with SingletonError -/
theorem macrostate_redeclared (sl : Slots) (hdom : sl.dom < 4) (hstr : sl.strand < 4) (hcx : sl.cplx < 4)
    (hmc : sl.macr < 4) (hrx : sl.rxn < 4) (ds : List Sig.Decl) (ss : List Sig.SDecl) (cds : List Sig.CDecl)
    (kds : List Sig.KDecl) (h5 : Sys5 ds ss cds kds) (MS : List Sig.MDecl) (hms : Sig.MSys (allC ds ss cds kds) MS)
    (M : Sig.MDecl) (hM : M ∈ MS) (members' : List String) (hne : members' ≠ [])
    (hmem : ∀ n ∈ members', n ∈ (allC ds ss cds kds).map (·.name)) (hnm : M.name ∈ members') :
    ∃ s' d' id, ({} : RState).readDoc sl [] []
        (Sig.doc ds ++ (Sig.sdoc ss ++ (Sig.cdoc cds ++ (Sig.kdoc kds ++ Sig.mdoc MS)))) {} = (s', .ok d') ∧
      d'.macrostates.lookup M.name = some id ∧
      (members'.Perm M.members →
        ∃ s1, s'.readLine sl (Sig.macroLine M.name members') = (s1, .ok (.macro id))) ∧
      ((¬ ∀ n, n ∈ members' ↔ n ∈ M.members) →
        ∃ s1, s'.readLine sl (Sig.macroLine M.name members') = (s1, .error .singleton)) := by
  obtain ⟨hcs, hks, hf⟩ := h5.parts
  have hread := Sig.readDoc_fresh6 sl hdom hstr hcx hmc hrx ds h5.sys ss h5.ssys cds hcs kds hks MS hms []
  simp only [List.append_nil, readDoc] at hread
  obtain ⟨j, hj⟩ := List.getElem?_of_mem hM
  obtain ⟨r1, r2⟩ := Sig.redeclare sl hcx hmc ds ss _ hf MS hms (Sig.kConc (Sig.base4 ds ss + cds.length) kds) j M hj
    members' hne hmem hnm
  exact ⟨_, _, _, hread, Sig.mDict_lookup _ MS hms.names j M hj, r1, r2⟩

/-! ### non-vacuity of Stage 6a -/

theorem ex_sys5 : Sys5 exDs exSs exCds exKds := by
  refine ⟨exDs_sys, exSs_sys, by decide, by decide, by decide, ?_, by decide, by decide⟩
  intro c hc
  simp only [exCds, exKds, List.map_cons, List.map_nil, List.cons_append, List.nil_append, List.mem_cons,
    List.not_mem_nil, or_false] at hc
  rcases hc with rfl | rfl | rfl | rfl
  · exact ex_descr1
  · exact ex_descr2
  · exact ex_descr3
  · exact ex_descr4

def exMS : List Sig.MDecl := [{ name := "c1", members := ["c1", "k2"] }, { name := "k1", members := ["k1"] }]

theorem ex_msys : Sig.MSys (allC exDs exSs exCds exKds) exMS := by
  refine ⟨by decide, by decide, ?_⟩
  simp only [exMS, List.pairwise_cons, List.mem_cons, List.not_mem_nil, or_false, forall_eq, List.Pairwise.nil,
    and_true]
  refine ⟨?_, fun _ hf => hf.elim⟩
  intro h
  have := (h "c1").mp (Or.inl rfl)
  revert this; decide

/-- the model files the macrostates with sorted canonical forms and the member complexes' identities as children
    (checked by evaluation; `c1` has identity 6, `k2` identity 9, and `k2`'s form `b .` sorts after `c1`'s) -/
example :
    (match ({} : RState).readDoc {} [] []
        (Sig.doc exDs ++ (Sig.sdoc exSs ++ (Sig.cdoc exCds ++ (Sig.kdoc exKds ++ Sig.mdoc exMS)))) {} with
     | (s', .ok d') => (d'.macrostates, (s'.w.node 10).map (·.children), (s'.w.macroObj 10).map (fun q => q.2.canon))
     | (_, .error _) => ([], none, none)) =
    ([("c1", 10), ("k1", 11)], some [6, 9],
      some [(["a", "b", "+", "b*", "a*"], ['(', '(', '+', ')', ')']), (["b"], ['.'])]) := by
  rfl

/-- declaring `c1 = {c1, k2}` again as `{k2, c1}` gives the same object 10; as `{c1}` it is a SingletonError
    (checked by evaluation) -/
example :
    (match ({} : RState).readDoc {} [] []
        (Sig.doc exDs ++ (Sig.sdoc exSs ++ (Sig.cdoc exCds ++ (Sig.kdoc exKds ++ Sig.mdoc exMS)))) {} with
     | (s', .ok _) =>
       (match (s'.readLine {} (Sig.macroLine "c1" ["k2", "c1"])).2 with | .ok (.macro id) => some id | _ => none,
        match (s'.readLine {} (Sig.macroLine "c1" ["c1"])).2 with | .error .singleton => true | _ => false)
     | (_, .error _) => (none, false)) = (some 10, true) := by
  rfl

/-! ### Stage 6b: reactions -/

theorem macroRead_of (sl : Slots) (hcc : sl.cplx < 4) (hcm : sl.macr < 4) (ds : List Sig.Decl) (ss : List Sig.SDecl)
    (C : List Sig.CSpec) (hf : Sig.CFacts C) (MS : List Sig.MDecl) (hms : Sig.MSys C MS) (s' : RState) (d' : RDict)
    (hl : Sig.Lower sl ds ss C s' d') (hm : Sig.LowerM sl ds ss C MS s' d') (M : Sig.MDecl) (hM : M ∈ MS) :
    MacroRead sl s' d' M.name M.members := by
  obtain ⟨j, hj⟩ := List.getElem?_of_mem hM
  have hlt := Sig.getElem?_lt' _ _ _ hj
  have hnode : s'.w.node (Sig.base6 ds ss C + j) =
      some (Sig.macroNode (Sig.base6 ds ss C + j) sl.macr (M.members.map (Sig.cResolve (Sig.base4 ds ss) C))) :=
    hm.nmacro j M hj
  obtain ⟨o1, _⟩ := Sig.macroObj_gen s'.w sl.macr hcm _ hm.macros _ _ _ (hm.nmacro j M hj) (Sig.mObjs_find _ C MS j M hj)
  have hmem := (hms.each M hM).2.1
  have key : ∀ n ∈ M.members, ∃ i c, C[i]? = some c ∧ c.name = n ∧
      (Sig.cDict (Sig.base4 ds ss) C).lookup n = some (Sig.base4 ds ss + i) ∧
      Sig.cResolve (Sig.base4 ds ss) C n = Sig.base4 ds ss + i := by
    intro n hn
    obtain ⟨c, hc, rfl⟩ := List.mem_map.mp (hmem n hn)
    obtain ⟨i, hi⟩ := List.getElem?_of_mem hc
    exact ⟨i, c, hi, rfl, Sig.cDict_lookup _ C hf.names i c hi, Sig.cResolve_get _ C hf i c hi⟩
  refine ⟨_, _, _, M.members.map (Sig.cCanonOf C), by rw [hm.mdict]; exact Sig.mDict_lookup _ MS hms.names j M hj, o1, rfl,
    rfl, by simp, ?_, Sig.macroCanon_eq C M, rfl, hnode, rfl, rfl, ?_, ?_, hm.held _ (by omega)⟩
  · intro p n hp
    obtain ⟨i, c, hi, rfl, hlk, _⟩ := key n (List.mem_of_getElem? hp)
    refine ⟨Sig.cCanonOf C c.name, _, Sig.newCplx (Sig.base4 ds ss + i) c.name (Sig.cIds c.ns c.sst), by simp [hp],
      by rw [hl.cdict]; exact hlk, ?_, (Sig.cCanonOf_get C hf i c hi).symm⟩
    exact Sig.cplxObj_gen _ sl.cplx hcc _ hl.cplxs _ _ _ (hl.ncplx i c hi) (Sig.cObjs_find _ C i c hi)
  · simp only [Sig.macroNode, List.map_map]
    apply List.map_congr_left
    intro n hn
    obtain ⟨i, c, _, _, hlk, hres⟩ := key n hn
    simp only [Function.comp, hres]
    rw [hl.cdict]; exact hlk.symm
  · unfold World.isLive; rw [hnode]; rfl

/-- the key a reaction member contributes: the canonical form of the complex of that name — or, in a condensed
    reaction, of the macrostate of that name — as the dictionary's object carries it -/
def MemberKey (sl : Slots) (s' : RState) (d' : RDict) (cond : Bool) (n : String) (k : MemKey) : Prop :=
  if cond then ∃ mid om, d'.macrostates.lookup n = some mid ∧ s'.w.macroObj mid = some (sl.macr, om) ∧ k = .m om.canon
  else ∃ cid oc, d'.complexes.lookup n = some cid ∧ s'.w.cplxObj cid = some (sl.cplx, oc) ∧ k = .c oc.canon

def KeysOf (sl : Slots) (s' : RState) (d' : RDict) (cond : Bool) (names : List String) (keys : List MemKey) : Prop :=
  keys.length = names.length ∧
    ∀ (i : Nat) (n : String), names[i]? = some n → ∃ k, keys[i]? = some k ∧ MemberKey sl s' d' cond n k

/-- what the final state and dictionary say about a declared reaction, registered under the identity `id`:
    filed under `con` exactly when condensed and under `det` otherwise; canonical form = (reactant keys sorted by
    `memLt`, product keys sorted, type); the rate with its units; children = the dictionary's member identities,
    reactants first, in the declared order -/
def RxnReadAt (sl : Slots) (s' : RState) (d' : RDict) (R : Sig.RDecl) (id : Nat) : Prop :=
  (if R.cond then id ∈ d'.con ∧ id ∉ d'.det else id ∈ d'.det ∧ id ∉ d'.con) ∧
  ∃ o nd clr rks pks, s'.w.rxns[sl.rxn]? = some clr ∧ clr.reg.findId id = some o ∧ o.id = id ∧
    KeysOf sl s' d' R.cond R.reactants rks ∧ KeysOf sl s' d' R.cond R.products pks ∧
    o.canon = (sortBy memLt rks, sortBy memLt pks, some R.ty) ∧ o.keys = [o.canon] ∧
    s'.rate.lookup id = some (R.rate, some R.units) ∧
    s'.w.node id = some nd ∧ nd.kind = .rxn ∧ nd.cls = sl.rxn ∧
    nd.children.map some = (R.reactants ++ R.products).map
      (fun n => if R.cond then d'.macrostates.lookup n else d'.complexes.lookup n) ∧
    s'.w.isLive id = true ∧ id ∈ s'.w.held

theorem keysOf7 (sl : Slots) (hcc : sl.cplx < 4) (hcm : sl.macr < 4) (ds : List Sig.Decl) (ss : List Sig.SDecl)
    (C : List Sig.CSpec) (hf : Sig.CFacts C) (MS : List Sig.MDecl) (hmn : (MS.map (·.name)).Nodup) (s' : RState)
    (d' : RDict) (hl : Sig.Lower sl ds ss C s' d') (hm : Sig.LowerM sl ds ss C MS s' d') (cond : Bool)
    (names : List String)
    (hmem : ∀ n ∈ names, if cond = true then n ∈ MS.map (·.name) else n ∈ C.map (·.name)) :
    KeysOf sl s' d' cond names (names.map (fun n => (Sig.memOf C MS cond n).2)) ∧
    (names.map (Sig.memId (Sig.base4 ds ss) (Sig.base6 ds ss C) C MS cond)).map some =
      names.map (fun n => if cond then d'.macrostates.lookup n else d'.complexes.lookup n) := by
  cases cond with
  | true =>
    simp only [if_true] at hmem
    have key : ∀ n ∈ names, ∃ j M, MS[j]? = some M ∧ M.name = n ∧
        d'.macrostates.lookup n = some (Sig.base6 ds ss C + j) ∧ Sig.mResolve (Sig.base6 ds ss C) MS n = Sig.base6 ds ss C + j := by
      intro n hn
      obtain ⟨M, hM, rfl⟩ := List.mem_map.mp (hmem n hn)
      obtain ⟨j, hj⟩ := List.getElem?_of_mem hM
      have hlk := Sig.mDict_lookup (Sig.base6 ds ss C) MS hmn j M hj
      exact ⟨j, M, hj, rfl, by rw [hm.mdict]; exact hlk, by unfold Sig.mResolve; rw [hlk]; rfl⟩
    refine ⟨⟨by simp, ?_⟩, ?_⟩
    · intro i n hi
      obtain ⟨j, M, hj, rfl, hlk, _⟩ := key n (List.mem_of_getElem? hi)
      obtain ⟨o1, _⟩ := Sig.macroObj_gen s'.w sl.macr hcm _ hm.macros _ _ _ (hm.nmacro j M hj)
        (Sig.mObjs_find _ C MS j M hj)
      refine ⟨(Sig.memOf C MS true M.name).2, by simp [hi], ?_⟩
      simp only [MemberKey, if_true, Sig.memOf]
      exact ⟨_, _, hlk, o1, by rw [Sig.mCanonOf_get C MS hmn j M hj]; rfl⟩
    · rw [List.map_map]
      apply List.map_congr_left
      intro n hn
      obtain ⟨j, M, _, _, hlk, hres⟩ := key n hn
      simp only [Function.comp, Sig.memId, if_true, hres, hlk]
  | false =>
    simp only [Bool.false_eq_true, if_false] at hmem
    have key : ∀ n ∈ names, ∃ i c, C[i]? = some c ∧ c.name = n ∧
        d'.complexes.lookup n = some (Sig.base4 ds ss + i) ∧ Sig.cResolve (Sig.base4 ds ss) C n = Sig.base4 ds ss + i := by
      intro n hn
      obtain ⟨c, hc, rfl⟩ := List.mem_map.mp (hmem n hn)
      obtain ⟨i, hi⟩ := List.getElem?_of_mem hc
      exact ⟨i, c, hi, rfl, by rw [hl.cdict]; exact Sig.cDict_lookup _ C hf.names i c hi, Sig.cResolve_get _ C hf i c hi⟩
    refine ⟨⟨by simp, ?_⟩, ?_⟩
    · intro p n hp
      obtain ⟨i, c, hi, rfl, hlk, _⟩ := key n (List.mem_of_getElem? hp)
      have hobj := Sig.cplxObj_gen s'.w sl.cplx hcc _ hl.cplxs _ _ _ (hl.ncplx i c hi) (Sig.cObjs_find _ C i c hi)
      refine ⟨(Sig.memOf C MS false c.name).2, by simp [hp], ?_⟩
      simp only [MemberKey, Bool.false_eq_true, if_false, Sig.memOf]
      exact ⟨_, _, hlk, hobj, by rw [Sig.cCanonOf_get C hf i c hi]; rfl⟩
    · rw [List.map_map]
      apply List.map_congr_left
      intro n hn
      obtain ⟨i, c, _, _, hlk, hres⟩ := key n hn
      simp only [Function.comp, Sig.memId, Bool.false_eq_true, if_false, hres, hlk]

theorem rxnRead7 (sl : Slots) (hcc : sl.cplx < 4) (hcm : sl.macr < 4) (hcr : sl.rxn < 4) (ds : List Sig.Decl)
    (ss : List Sig.SDecl) (C : List Sig.CSpec) (hf : Sig.CFacts C) (MS : List Sig.MDecl) (hmn : (MS.map (·.name)).Nodup)
    (RS : List Sig.RDecl) (conc : List (Nat × (String × String × String))) (oth : Nat) (j : Nat) (R : Sig.RDecl)
    (hj : RS[j]? = some R)
    (hmem : ∀ n ∈ R.reactants ++ R.products, if R.cond = true then n ∈ MS.map (·.name) else n ∈ C.map (·.name)) :
    RxnReadAt sl (Sig.S7 sl.dom sl.strand sl.cplx sl.macr sl.rxn ds ss C MS RS conc) (Sig.D7 ds ss C MS RS oth) R
      (Sig.base7 ds ss C MS + j) := by
  obtain ⟨a1, ⟨clr, a2, a3⟩, a4, a5, a6⟩ := Sig.S7_rxn sl.dom sl.strand sl.cplx sl.macr sl.rxn hcr ds ss C MS RS conc j R hj
  obtain ⟨l1, l2⟩ := Sig.rxn_listed (Sig.base7 ds ss C MS) RS j R hj
  have hl := Sig.lower_S7 sl ds ss C MS RS conc oth
  have hm := Sig.lowerM_S7 sl ds ss C MS RS conc oth
  obtain ⟨k1, c1⟩ := keysOf7 sl hcc hcm ds ss C hf MS hmn _ _ hl hm R.cond R.reactants
    (fun n hn => hmem n (List.mem_append_left _ hn))
  obtain ⟨k2, c2⟩ := keysOf7 sl hcc hcm ds ss C hf MS hmn _ _ hl hm R.cond R.products
    (fun n hn => hmem n (List.mem_append_right _ hn))
  refine ⟨?_, _, _, clr, _, _, a2, a3, rfl, k1, k2, ?_, rfl, a4, a1, rfl, rfl, ?_, a5, a6⟩
  · cases hc : R.cond with
    | true => simp only [if_true]; exact l1 hc
    | false => simp only [Bool.false_eq_true, if_false]; exact l2 hc
  · simp only [Sig.newRxn, Sig.rxnCanonOf, Sig.sortMem]
    rw [SortL.sortBy_map (fun a : String × MemKey => a.2) memLt, SortL.sortBy_map (fun a : String × MemKey => a.2) memLt]
    simp only [Sig.rsOf, Sig.psOf, List.map_map]
    rfl
  · simp only [Sig.rxnNode, Sig.rChildren, List.map_append]
    rw [c1, c2]

/-- **Stage 6b (reactions).**  After a Stage-6a document come `reaction` lines `L`: declared reactions with an info
    box `[type = rate /units]` whose type is one of `Gen.rtypes` and whose reactants and products are declared
    complexes — declared macrostates for the type `condensed` — and lines the reader ignores (no rate, missing or
    unknown type; `Sig.Ignorable`).  The declared reactions are pairwise different (canonical forms: reactant and
    product multisets and type) and have pairwise different automatic names.  Then the read succeeds; every declared
    reaction is read as `RxnReadAt` says under an identity of its own; `d'.det` and `d'.con` are duplicate-free and
    list nothing but declared reactions (detailed resp. condensed); the ignorable lines create nothing and are
    counted in `d'.other`. -/
theorem read_reactions_sigma (sl : Slots) (hdom : sl.dom < 4) (hstr : sl.strand < 4) (hcx : sl.cplx < 4)
    (hmc : sl.macr < 4) (hrx : sl.rxn < 4) (ds : List Sig.Decl) (ss : List Sig.SDecl) (cds : List Sig.CDecl)
    (kds : List Sig.KDecl) (h5 : Sys5 ds ss cds kds) (MS : List Sig.MDecl) (hms : Sig.MSys (allC ds ss cds kds) MS)
    (L : List Sig.RLine) (hrs : Sig.RSys (allC ds ss cds kds) MS L) :
    ∃ s' d', ({} : RState).readDoc sl [] []
        (Sig.doc ds ++ (Sig.sdoc ss ++ (Sig.cdoc cds ++ (Sig.kdoc kds ++ (Sig.mdoc MS ++ Sig.rdoc L))))) {} =
          (s', .ok d') ∧
      d'.domains.map (·.1) = ds.flatMap (fun d => [d.name, d.name ++ "*"]) ∧
      d'.strands.map (·.1) = ss.map (·.1) ∧
      d'.complexes.map (·.1) = cds.map (·.name) ++ kds.map (·.name) ∧
      d'.macrostates.map (·.1) = MS.map (·.name) ∧
      d'.det.Nodup ∧ d'.con.Nodup ∧ d'.det.length + d'.con.length = (Sig.declsOf L).length ∧
      d'.other = Sig.ignCount L ∧
      (∀ d ∈ ds, DeclRead sl s' d' d) ∧ (∀ p ∈ ss, StrandRead sl s' d' p) ∧
      (∀ c ∈ cds, CplxRead sl s' d' c.name (c.spec ds ss).ns c.sst) ∧
      (∀ k ∈ kds, CplxRead sl s' d' k.name k.ns k.sst) ∧
      (∀ M ∈ MS, MacroRead sl s' d' M.name M.members) ∧
      (∃ ids : List Nat, ids.length = (Sig.declsOf L).length ∧ ids.Nodup ∧
        (∀ (j : Nat) (R : Sig.RDecl), (Sig.declsOf L)[j]? = some R → ∃ id, ids[j]? = some id ∧ RxnReadAt sl s' d' R id) ∧
        (∀ i ∈ d'.det ++ d'.con, i ∈ ids)) := by
  obtain ⟨hcs, hks, hf⟩ := h5.parts
  have hread := Sig.readDoc_fresh7 sl hdom hstr hcx hmc hrx ds h5.sys ss h5.ssys cds hcs kds hks MS hms L hrs
  have hallnm : (allC ds ss cds kds).map (·.name) = cds.map (·.name) ++ kds.map (·.name) := by
    unfold allC; rw [List.map_append, List.map_map, List.map_map]; rfl
  have hl := Sig.lower_S7 sl ds ss (allC ds ss cds kds) MS (Sig.declsOf L) (Sig.kConc (Sig.base4 ds ss + cds.length) kds)
    (Sig.ignCount L)
  have hm := Sig.lowerM_S7 sl ds ss (allC ds ss cds kds) MS (Sig.declsOf L)
    (Sig.kConc (Sig.base4 ds ss + cds.length) kds) (Sig.ignCount L)
  obtain ⟨r1, r2, r3, r4⟩ := lower_reads sl hdom hstr hcx h5 _ _ hl
  -- lengths of det / con
  have hlen : ∀ (RS : List Sig.RDecl) (b : Nat), (Sig.rDet b RS).length + (Sig.rCon b RS).length = RS.length := by
    intro RS b
    unfold Sig.rDet Sig.rCon
    generalize 0 = k
    induction RS generalizing k with
    | nil => rfl
    | cons R rest ih =>
      simp only [List.zipIdx_cons, List.filterMap_cons, List.length_cons]
      have := ih (k + 1)
      cases hc : R.cond <;> simp only [Bool.false_eq_true, if_false, if_true, List.length_cons] <;> omega
  refine ⟨_, _, hread, Sig.dDict_keys ds, Sig.sDict_keys ds ss, ?_, Sig.mDict_keys _ MS,
    Sig.rDet_nodup _ _, Sig.rCon_nodup _ _, hlen _ _, rfl, r1, r2, r3, r4, ?_, ?_⟩
  · show (Sig.cDict _ _).map (·.1) = _
    rw [Sig.cDict_keys]; exact hallnm
  · exact fun M hM => macroRead_of sl hcx hmc ds ss _ hf MS hms _ _ hl hm M hM
  · refine ⟨(List.range (Sig.declsOf L).length).map (fun j => Sig.base7 ds ss (allC ds ss cds kds) MS + j), by simp,
      ?_, ?_, ?_⟩
    · rw [List.Nodup, List.pairwise_map]
      exact List.pairwise_lt_range.imp (fun h => by omega)
    · intro j R hj
      have hlt := Sig.getElem?_lt' _ _ _ hj
      refine ⟨Sig.base7 ds ss (allC ds ss cds kds) MS + j, by simp [hlt], ?_⟩
      exact rxnRead7 sl hcx hmc hrx ds ss _ hf MS hms.names (Sig.declsOf L) _ _ j R hj
        (hrs.decls R (List.mem_of_getElem? hj)).2
    · intro i hi
      rw [List.mem_append] at hi
      rw [List.mem_map]
      rcases hi with hi | hi
      · obtain ⟨j, R, hj, _, rfl⟩ := Sig.rDet_mem _ _ i hi
        exact ⟨j, List.mem_range.mpr (Sig.getElem?_lt' _ _ _ hj), rfl⟩
      · obtain ⟨j, R, hj, _, rfl⟩ := Sig.rCon_mem _ _ i hi
        exact ⟨j, List.mem_range.mpr (Sig.getElem?_lt' _ _ _ hj), rfl⟩

/-- **the same reaction declared twice yields one entry**: reading a declared reaction line again in the state the
    document produced returns the same identity and leaves `det` / `con` as they are -/
theorem reaction_redeclared (sl : Slots) (hdom : sl.dom < 4) (hstr : sl.strand < 4) (hcx : sl.cplx < 4)
    (hmc : sl.macr < 4) (hrx : sl.rxn < 4) (ds : List Sig.Decl) (ss : List Sig.SDecl) (cds : List Sig.CDecl)
    (kds : List Sig.KDecl) (h5 : Sys5 ds ss cds kds) (MS : List Sig.MDecl) (hms : Sig.MSys (allC ds ss cds kds) MS)
    (L : List Sig.RLine) (hrs : Sig.RSys (allC ds ss cds kds) MS L) (R : Sig.RDecl) (hR : R ∈ Sig.declsOf L) :
    ∃ s' d' id, ({} : RState).readDoc sl [] []
        (Sig.doc ds ++ (Sig.sdoc ss ++ (Sig.cdoc cds ++ (Sig.kdoc kds ++ (Sig.mdoc MS ++ Sig.rdoc L))))) {} =
          (s', .ok d') ∧
      RxnReadAt sl s' d' R id ∧
      (∃ s1, s'.readLine sl (Sig.rxnLine R.ty R.rate R.units R.reactants R.products) = (s1, .ok (.rxn id R.cond))) ∧
      Sig.putRxn d' id R.cond = d' := by
  obtain ⟨hcs, hks, hf⟩ := h5.parts
  have hread := Sig.readDoc_fresh7 sl hdom hstr hcx hmc hrx ds h5.sys ss h5.ssys cds hcs kds hks MS hms L hrs
  obtain ⟨j, hj⟩ := List.getElem?_of_mem hR
  obtain ⟨e1, e2⟩ := hrs.decls R hR
  obtain ⟨q1, q2⟩ := Sig.rxn_reread sl hcx hmc hrx ds ss _ hf MS hms.names (Sig.declsOf L) hrs.names hrs.canons
    (Sig.kConc (Sig.base4 ds ss + cds.length) kds) (Sig.ignCount L) j R hj e1 e2
  exact ⟨_, _, _, hread, rxnRead7 sl hcx hmc hrx ds ss _ hf MS hms.names (Sig.declsOf L) _ _ j R hj e2, q1, q2⟩

/-! ### non-vacuity of Stage 6b -/

def exL : List Sig.RLine :=
  [.decl { ty := "bind21", rate := "100", units := "/M/s", reactants := ["k2", "c2"], products := ["c1"] },
   .ign [] [.tok "c1"] [.tok "k1"],
   .decl { ty := "condensed", rate := "7", units := "/s", reactants := ["c1"], products := ["k1"] },
   .ign [.grp [.tok "weird"], .grp [.tok "1"], .grp [.tok "/s"]] [.tok "c1"] [.tok "k1"]]

theorem ex_rsys : Sig.RSys (allC exDs exSs exCds exKds) exMS exL := by
  refine ⟨by decide, ?_, by decide, by decide⟩
  intro info rs ps h
  simp only [exL, List.mem_cons, Sig.RLine.ign.injEq, reduceCtorEq, List.not_mem_nil, or_false, false_or] at h
  rcases h with ⟨rfl, _, _⟩ | ⟨rfl, _, _⟩
  · trivial
  · right
    show Gen.rtypes.contains "weird" = false
    decide

/-- the model files the detailed reaction under `det`, the condensed one under `con`, counts the two ignorable
    lines, and stores rate, units and member identities (checked by evaluation; the reactants `k2 c2` are sorted to
    `c2 k2` in the canonical form, the children keep the declared order) -/
example :
    (match ({} : RState).readDoc {} [] []
        (Sig.doc exDs ++ (Sig.sdoc exSs ++ (Sig.cdoc exCds ++ (Sig.kdoc exKds ++ (Sig.mdoc exMS ++ Sig.rdoc exL))))) {} with
     | (s', .ok d') => (d'.det, d'.con, d'.other, s'.rate, (s'.w.node 12).map (·.children), (s'.w.node 13).map (·.children))
     | (_, .error _) => ([], [], 0, [], none, none)) =
    ([12], [13], 2, [(12, ("100", some "/M/s")), (13, ("7", some "/s"))], some [9, 7, 6], some [10, 11]) := by
  rfl

/-- reading the first reaction again returns identity 12 and adds no entry (checked by evaluation) -/
example :
    (match ({} : RState).readDoc {} [] []
        (Sig.doc exDs ++ (Sig.sdoc exSs ++ (Sig.cdoc exCds ++ (Sig.kdoc exKds ++ (Sig.mdoc exMS ++ Sig.rdoc exL))))) {} with
     | (s', .ok _) =>
       (match (s'.readLine {} (Sig.rxnLine "bind21" "100" "/M/s" ["k2", "c2"] ["c1"])).2 with
        | .ok (.rxn id c) => some (id, c) | _ => none)
     | (_, .error _) => none) = some (12, false) := by
  rfl

end Dsd.C14
