import DsdVerif.Spec.Symbols
import DsdVerif.Props.C16Reader
import DsdVerif.Props.C16Text
import DsdVerif.Props.C16Full
import DsdVerif.Props.C16Short

namespace Dsd.Symbols

/-- No function of the package can fail with NameError: every global name it references is defined
    (bound at module level of its module, possibly through an import, or a builtin). -/
theorem no_unresolved_global : ∀ r ∈ Gen.global_refs, resolved r = true := by decide +kernel

/-- non-vacuity: the table is not empty and contains the reference the rotation code makes to its error class -/
example : ("dsdobjects.complex_utils", "rotate_complex_once", "SecondaryStructureError") ∈ Gen.global_refs := by
  decide +kernel

end Dsd.Symbols
