import DsdVerif.Props.C13GapsKernel
import DsdVerif.Lemmas.PilIndent

namespace Dsd.C13
open Dsd Dsd.PP Dsd.Gen Dsd.PP.Tabs
open Dsd.Pil (StmtTextL StmtTextT StmtTextC Num ErrVal SItem)
open Dsd.PP.Lines (Line Eol Lang renderDoc docTrees IsWs CmOK TLine)

/-! C13, the layout clause completed: INDENTED statements, and ONE theorem for every layout.

* `document_indent_rt`: a document given line by line (`Lines.TLine`, Lemmas/PPIndent.lean) — statement-free lines
  (blanks / tabs / carriage returns, optionally a comment) and statement lines `indentation ++ statement ++ comment`,
  each ended by LF or CR LF, the last line possibly unterminated — parses as its statements in order.  The statement
  parser skips the indentation; what the indentation changes is the COLUMN at which the statement starts and thereby
  the tab expansion of its separators: `Pil.StmtTextC` is `Pil.StmtTextT` at every start column.
* `pil_every_layout`: the same with the statements taken from `PilStmt` — the nine statement kinds with their layout
  templates (`PilStmt.tmpl`: every token boundary, Props/C13Gaps*.lean) — rendered by ONE function
  `Lines.renderDoc`: every line is `w ++ comment` or `indent ++ renderW (tmpl s) gaps ++ comment`. -/

/-! ### documents with indented statements -/

/-- the side conditions of a line: whitespace of blanks / tabs / carriage returns, comments without line feed, an
    indentation of blanks / tabs, a statement text (at any start column) -/
def lineOK : TLine → Prop
  | .blank w cm => IsWs w ∧ CmOK cm
  | .stmt i b t cm => IsSep i ∧ StmtTextC b t ∧ CmOK cm

/-- **documents with indented statements**, given line by line: `Lines.ttext L last` is the concatenation of the
    lines `L` with their line ends (LF or CR LF) and of the unterminated line `last` (`TLine.blank [] none` when the
    text ends with a line end); a line is `w ++ comment` or `indent ++ body ++ comment`.  It parses as the trees of
    the statement lines, in order. -/
theorem document_indent_rt (L : List (TLine × Eol)) (last : TLine) (hL : ∀ x ∈ L, lineOK x.1) (hlast : lineOK last)
    (hne : Lines.ttrees L last ≠ []) :
    parseDoc pil_env pil_grammar (String.ofList (Lines.ttext L last)) = some (Lines.ttrees L last) := by
  have hT : ∀ l : TLine, lineOK l → l.OK pil_env pil_stmt := by
    intro l hl
    cases l with
    | blank w cm => exact hl
    | stmt i b t cm => exact ⟨hl.1, hl.2.1.body, hl.2.2⟩
  exact Pil.document_lines_parse L last (fun x hx => hT x.1 (hL x hx)) (hT last hlast) hne

/-- a single indented statement -/
theorem stmt_indent_rt (indent s : List Char) (t : Tree) (hi : IsSep indent) (h : StmtTextC s t) :
    parseDoc pil_env pil_grammar (String.ofList (indent ++ s ++ ['\n'])) = some [t] := by
  have := document_indent_rt [(.stmt indent s t none, .lf)] (.blank [] none)
    (by
      intro x hx
      simp only [List.mem_cons, List.not_mem_nil, or_false] at hx
      subst hx
      exact ⟨hi, h, by intro c hc; cases hc⟩)
    ⟨(by intro c hc; cases hc), (by intro c hc; cases hc)⟩ (by simp [Lines.ttrees, Lines.TLine.trees])
  simpa [Lines.ttext, Lines.ttrees, Lines.TLine.body, Lines.TLine.trees, Lines.cmText, Eol.text, Eol.cr] using this

/-! ### the nine statement kinds -/

/-- a layout template with its tree: tab-free tokens, and every rendering with blank/tab separators is a statement
    text (at column 0: the summary theorems `*_layout`) -/
structure TmplOK (tm : List Piece) (t : Tree) : Prop where
  toks : ToksOK tm
  layout : ∀ ws, SepsOK tm ws → StmtTextT (renderW tm ws) t

/-- … hence at every start column -/
theorem TmplOK.textC {tm : List Piece} {t : Tree} (h : TmplOK tm t) (ws : List (List Char)) (hws : SepsOK tm ws) :
    StmtTextC (renderW tm ws) t :=
  Pil.stmtTextC_of_template tm h.toks t (Pil.fam_of_layout tm h.toks t h.layout) ws hws

/-- the statement kinds of the PIL grammar with the parameters of their layout templates (and, for kernel
    complexes, the tokens of the pattern) -/
inductive PilStmt
  /-- `length a = 5`, `domain a : short`, `sequence a = 5` -/
  | dl (kw name : List Char) (st : Bool) (sign : Char) (v : List Char)
  /-- `sequence t = ACGT (: 4)` -/
  | sl (name : List Char) (st : Bool) (sign : Char) (con : List Char) (len : Option (Char × List Char))
  /-- `strand s = a b*`, `sup-sequence s = a b` -/
  | strand (kw name : List Char) (sign : Char) (d : List Char) (ds : List (List Char))
  /-- `state S = [A, B]`, `macrostate S = [A]` -/
  | state (kw name m1 : List Char) (ms : List (List Char))
  /-- `X = a( t ) @initial 5 nM` -/
  | kernel (name : List Char) (seq : List String) (sst : List Char) (toks : List Tree)
      (conc : Option (List Char × Num × List Char))
  /-- the three-line `complex` form -/
  | complex (name : List Char) (sign : Char) (d : List Char) (ds : List (List Char)) (db : List Char)
  /-- `structure c = a b + c : (.+)` -/
  | struct (name : List Char) (s1 : Char) (it : SItem) (its : List SItem) (s2 : Char) (db : List Char)
  /-- `reaction a + b -> c`, `kinetic a -> b` -/
  | rxPlain (kw r1 : List Char) (rs : List (List Char)) (p1 : List Char) (ps : List (List Char))
  /-- `reaction [condensed = 1.5e3 /M/s] a + b -> c` -/
  | rxInfo (ty : List Char) (sign : Char) (rate : Num) (err : Option ErrVal) (cus : List (List Char))
      (tu r1 : List Char) (rs : List (List Char)) (p1 : List Char) (ps : List (List Char))

/-- the layout template of a statement: all its token boundaries -/
def PilStmt.tmpl : PilStmt → List Piece
  | .dl kw name st sign v => dlTmpl kw name st sign v
  | .sl name st sign con len => slTmpl name st sign con len
  | .strand kw name sign d ds => strandTmpl kw name sign d ds
  | .state kw name m1 ms => stateTmpl kw name m1 ms
  | .kernel name seq sst _ conc => kernelTmpl name seq sst conc
  | .complex name sign d ds db => complexTmpl name sign d ds db
  | .struct name s1 it its s2 db => structTmpl name s1 it its s2 db
  | .rxPlain kw r1 rs p1 ps => rxPlainTmpl kw r1 rs p1 ps
  | .rxInfo ty sign rate err cus tu r1 rs p1 ps => rxInfoTmpl "reaction".toList ty sign rate err cus tu r1 rs p1 ps

/-- the tree of a statement -/
def PilStmt.tree : PilStmt → Tree
  | .dl _ name st _ v => .grp [.tok "dl-domain", .tok (String.ofList (name ++ star st)), .tok (String.ofList v)]
  | .sl name st _ con len =>
    .grp ([.tok "sl-domain", .tok (String.ofList (name ++ star st)), .tok (String.ofList con)] ++ slLenTree len)
  | .strand _ name _ d ds => .grp [.tok "composite-domain", tokOf name, .grp ((d :: ds).map tokOf)]
  | .state _ name m1 ms => .grp [.tok "resting-macrostate", tokOf name, .grp ((m1 :: ms).map tokOf)]
  | .kernel name _ _ toks conc => .grp ([.tok "kernel-complex", tokOf name, .grp toks] ++ concTree conc)
  | .complex name _ d ds db => .grp [.tok "strand-complex", tokOf name, .grp ((d :: ds).map tokOf), tokOf db]
  | .struct name _ it its _ db =>
    .grp [.tok "strand-complex", tokOf name, .grp ((sitemDoms (it :: its)).map tokOf), tokOf db]
  | .rxPlain _ r1 rs p1 ps =>
    .grp [.tok "reaction", .grp [], .grp ((r1 :: rs).map tokOf), .grp ((p1 :: ps).map tokOf)]
  | .rxInfo ty _ rate err cus tu r1 rs p1 ps =>
    .grp [.tok "reaction",
      .grp [.grp [tokOf ty], .grp (tokOf rate.text :: errTree err), .grp [tokOf (Pil.cuText cus ++ '/' :: tu)]],
      .grp ((r1 :: rs).map tokOf), .grp ((p1 :: ps).map tokOf)]

/-- the side conditions of a statement: those of the summary theorem of its kind -/
def PilStmt.OK : PilStmt → Prop
  | .dl kw _name _ sign v => (sign = '=' ∨ sign = ':') ∧ Ident _name ∧
      (((kw = "length".toList ∨ kw = "domain".toList ∨ kw = "sequence".toList) ∧ Digits v) ∨
        ((kw = "length".toList ∨ kw = "domain".toList) ∧ (v = "short".toList ∨ v = "long".toList)))
  | .sl name _ sign con len => (sign = '=' ∨ sign = ':') ∧ Ident name ∧ Letters con ∧ slLenOK len
  | .strand kw name sign d ds => (kw = "strand".toList ∨ kw = "sup-sequence".toList) ∧ (sign = '=' ∨ sign = ':') ∧
      Ident name ∧ ∀ x ∈ d :: ds, DomName x
  | .state kw name m1 ms => (kw = "state".toList ∨ kw = "macrostate".toList) ∧ Ident name ∧ ∀ x ∈ m1 :: ms, Ident x
  | .kernel name seq sst toks conc => Ident name ∧ LegalNames seq sst ∧ sst ≠ [] ∧ kernelTokens seq sst = some toks ∧
      concOK conc
  | .complex name sign d ds db => (sign = '=' ∨ sign = ':') ∧ Ident name ∧ (∀ x ∈ d :: ds, DomName x) ∧ DotBracket db
  | .struct name s1 it its s2 db => (s1 = '=' ∨ s1 = ':') ∧ (s2 = '=' ∨ s2 = ':') ∧ Ident name ∧
      (∀ d, some d ∈ it :: its → DomName d) ∧ DotBracket db
  | .rxPlain kw r1 rs p1 ps => (kw = "reaction".toList ∨ kw = "kinetic".toList) ∧ (∀ x ∈ r1 :: rs, Ident x) ∧
      (∀ x ∈ p1 :: ps, Ident x)
  | .rxInfo ty sign rate err cus tu r1 rs p1 ps => (sign = '=' ∨ sign = ':') ∧ Ident ty ∧ rate.OK ∧ errValOK err ∧
      (∀ u ∈ cus, Pil.IsCunit u) ∧ Pil.IsTunit tu ∧ (∀ x ∈ r1 :: rs, Ident x) ∧ (∀ x ∈ p1 :: ps, Ident x)

theorem toksOK_rxTail (r1 : List Char) (rs : List (List Char)) (p1 : List Char) (ps : List (List Char))
    (hr : ∀ x ∈ r1 :: rs, Ident x) (hp : ∀ x ∈ p1 :: ps, Ident x) : ToksOK (rxTail r1 rs p1 ps) :=
  ⟨Pil.notab_ident r1 (hr r1 (by simp)).2,
    toksOK_species rs _ (fun x hx => Pil.notab_ident x (hr x (List.mem_cons_of_mem _ hx)).2)
      ⟨by decide, Pil.notab_ident p1 (hp p1 (by simp)).2,
        toksOK_species ps _ (fun x hx => Pil.notab_ident x (hp x (List.mem_cons_of_mem _ hx)).2) trivial⟩⟩

/-- the tokens of the templates are tab-free -/
theorem PilStmt.toksOK (s : PilStmt) (h : s.OK) : ToksOK s.tmpl := by
  cases s with
  | dl kw name st sign v =>
    obtain ⟨hs, hn, hv⟩ := h
    have hnt : '\t' ∉ name ++ star st := by
      have := Pil.notab_ident name hn.2; have := notab_star st; simp [*]
    have hsg : '\t' ∉ [sign] := by rcases hs with rfl | rfl <;> decide
    rcases hv with ⟨hkw, hd⟩ | ⟨hkw, hdt⟩
    · have hkt : '\t' ∉ kw := by rcases hkw with e | e | e <;> rw [e] <;> decide
      exact ⟨hkt, hnt, hsg, Pil.notab_of_nums v hd.2, trivial⟩
    · have hkt : '\t' ∉ kw := by rcases hkw with e | e <;> rw [e] <;> decide
      have hdtt : '\t' ∉ v := by rcases hdt with e | e <;> rw [e] <;> decide
      exact ⟨hkt, hnt, hsg, hdtt, trivial⟩
  | sl name st sign con len =>
    obtain ⟨hs, hn, hc, hlen⟩ := h
    have hnt : '\t' ∉ name ++ star st := by
      have := Pil.notab_ident name hn.2; have := notab_star st; simp [*]
    have hsg : '\t' ∉ [sign] := by rcases hs with rfl | rfl <;> decide
    cases len with
    | none => exact ⟨by decide, hnt, hsg, Pil.notab_of_alphas con hc.2, trivial⟩
    | some q =>
      obtain ⟨s2, d⟩ := q
      obtain ⟨hs2, hd⟩ := hlen
      have hsg2 : '\t' ∉ [s2] := by rcases hs2 with rfl | rfl <;> decide
      exact ⟨by decide, hnt, hsg, Pil.notab_of_alphas con hc.2, hsg2, Pil.notab_of_nums d hd.2, trivial⟩
  | strand kw name sign d ds =>
    obtain ⟨hkw, hs, hn, hd⟩ := h
    have hkt : '\t' ∉ kw := by rcases hkw with e | e <;> rw [e] <;> decide
    have hsg : '\t' ∉ [sign] := by rcases hs with rfl | rfl <;> decide
    exact ⟨hkt, Pil.notab_ident name hn.2, hsg, notab_domName d (hd d (by simp)),
      toksOK_sepToks ds _ (fun x hx => notab_domName x (hd x (List.mem_cons_of_mem _ hx))) trivial⟩
  | state kw name m1 ms =>
    obtain ⟨hkw, hn, hm⟩ := h
    have hkt : '\t' ∉ kw := by rcases hkw with e | e <;> rw [e] <;> decide
    exact ⟨hkt, Pil.notab_ident name hn.2, by decide, by decide, Pil.notab_ident m1 (hm m1 (by simp)).2,
      toksOK_commaToks ms _ (fun x hx => Pil.notab_ident x (hm x (List.mem_cons_of_mem _ hx)).2)
        ⟨by decide, trivial⟩⟩
  | kernel name seq sst toks conc =>
    obtain ⟨hn, hl, hne, ht, hc⟩ := h
    have hleg := legalEnt_zip seq sst hl
    have hwt : ∀ w ∈ kernelWords seq sst, '\t' ∉ w := by
      intro w hw
      obtain ⟨e, he, rfl⟩ := List.mem_map.mp hw
      exact (Pil.word_facts e (hleg e he)).2
    exact ⟨Pil.notab_ident name hn.2, by decide, toksOK_sepToks _ _ hwt (toksOK_conc conc hc _ trivial)⟩
  | complex name sign d ds db =>
    obtain ⟨hs, hn, hd, hdb⟩ := h
    have hsg : '\t' ∉ [sign] := by rcases hs with rfl | rfl <;> decide
    exact ⟨by decide, Pil.notab_ident name hn.2, hsg, by decide, notab_domName d (hd d (by simp)),
      toksOK_sepToks ds _ (fun x hx => notab_domName x (hd x (List.mem_cons_of_mem _ hx)))
        ⟨by decide, notab_dotBracket db hdb, trivial⟩⟩
  | struct name s1 it its s2 db =>
    obtain ⟨hs1, hs2, hn, hd, hdb⟩ := h
    have hsg1 : '\t' ∉ [s1] := by rcases hs1 with rfl | rfl <;> decide
    have hsg2 : '\t' ∉ [s2] := by rcases hs2 with rfl | rfl <;> decide
    exact ⟨by decide, Pil.notab_ident name hn.2, hsg1,
      toksOK_sitems _ _ _ (fun d h => notab_domName d (hd d h)) ⟨hsg2, notab_dotBracket db hdb, trivial⟩⟩
  | rxPlain kw r1 rs p1 ps =>
    obtain ⟨hkw, hr, hp⟩ := h
    have hkt : '\t' ∉ kw := by rcases hkw with e | e <;> rw [e] <;> decide
    exact ⟨hkt, toksOK_rxTail r1 rs p1 ps hr hp⟩
  | rxInfo ty sign rate err cus tu r1 rs p1 ps =>
    obtain ⟨hs, hty, hrate, herr, hcu, htu, hr, hp⟩ := h
    have hsg : '\t' ∉ [sign] := by rcases hs with rfl | rfl <;> decide
    have hunit : '\t' ∉ Pil.cuText cus ++ '/' :: tu := by
      have a1 := Pil.notab_cuText cus hcu
      have a2 : '\t' ∉ tu := by rcases htu with rfl | rfl | rfl <;> decide
      simp [a1, a2]
    have htail := toksOK_rxTail r1 rs p1 ps hr hp
    refine ⟨by decide, by decide, Pil.notab_ident ty hty.2, hsg, notab_num rate hrate, ?_⟩
    cases err with
    | none => exact ⟨hunit, by decide, htail⟩
    | some e => exact ⟨by decide, notab_errVal e herr, hunit, by decide, htail⟩

/-- the nine summary theorems `*_layout`, as one -/
theorem PilStmt.layout (s : PilStmt) (h : s.OK) (ws : List (List Char)) (hws : SepsOK s.tmpl ws) :
    StmtTextT (renderW s.tmpl ws) s.tree := by
  cases s with
  | dl kw name st sign v => exact dl_layout kw name st sign v h.1 h.2.1 h.2.2 ws hws
  | sl name st sign con len => exact sl_layout name st sign con len h.1 h.2.1 h.2.2.1 h.2.2.2 ws hws
  | strand kw name sign d ds => exact strand_layout kw h.1 name d ds sign h.2.1 h.2.2.1 h.2.2.2 ws hws
  | state kw name m1 ms => exact state_layout kw h.1 name m1 ms h.2.1 h.2.2 ws hws
  | kernel name seq sst toks conc =>
    exact kernel_layout name seq sst toks conc h.1 h.2.1 h.2.2.1 h.2.2.2.1 h.2.2.2.2 ws hws
  | complex name sign d ds db => exact complex_layout name sign h.1 d ds db h.2.1 h.2.2.1 h.2.2.2 ws hws
  | struct name s1 it its s2 db =>
    exact struct_layout name s1 s2 h.1 h.2.1 it its db h.2.2.1 h.2.2.2.1 h.2.2.2.2 ws hws
  | rxPlain kw r1 rs p1 ps => exact rx_plain_layout kw h.1 r1 rs p1 ps h.2.1 h.2.2 ws hws
  | rxInfo ty sign rate err cus tu r1 rs p1 ps =>
    obtain ⟨hs, hty, hrate, herr, hcu, htu, hr, hp⟩ := h
    exact rx_info_layout ty sign hs rate err cus tu r1 rs p1 ps hty hrate herr hcu htu hr hp ws hws

theorem PilStmt.tmplOK (s : PilStmt) (h : s.OK) : TmplOK s.tmpl s.tree := ⟨s.toksOK h, s.layout h⟩

/-- every statement kind, with any blank/tab separators at its token boundaries, AT ANY START COLUMN -/
theorem PilStmt.textC (s : PilStmt) (h : s.OK) (ws : List (List Char)) (hws : SepsOK s.tmpl ws) :
    StmtTextC (renderW s.tmpl ws) s.tree := (s.tmplOK h).textC ws hws

/-! ### every layout -/

/-- the PIL statement kinds as a family of layout templates -/
def pilLang : Lang PilStmt := ⟨PilStmt.tmpl, PilStmt.tree, PilStmt.OK⟩

/-- **PIL, every layout.**  A document is a list of lines `L`, each with its line end (`Eol.lf` / `Eol.crlf`), and a
    last line without line end (`Line.blank [] none` if there is none).  A line is
    * `Line.blank w cm`: whitespace `w` (blanks, tabs, carriage returns) and an optional comment `#cm`, or
    * `Line.stmt indent s gaps cm`: the indentation (blanks, tabs), the statement `s : PilStmt` — any of the nine
      kinds — rendered from its template with the blank/tab separators `gaps` at its token boundaries
      (`renderW s.tmpl gaps`; `SepsOK`: one separator per boundary, non-empty where the grammar needs one), and an
      optional comment.
    `Line.OK` collects exactly these side conditions.  The text `renderDoc pilLang L last` parses as the trees of
    the statement lines, in order. -/
theorem pil_every_layout (L : List (Line PilStmt × Eol)) (last : Line PilStmt) (hL : ∀ x ∈ L, x.1.OK pilLang)
    (hlast : last.OK pilLang) (hne : docTrees pilLang L last ≠ []) :
    parseDoc pil_env pil_grammar (String.ofList (renderDoc pilLang L last)) = some (docTrees pilLang L last) :=
  Lines.every_layout pilLang pil_stmt ((Pil.No_stmt_end pil_env).mono (by decide))
    (fun s hs ws hws => (PilStmt.textC s hs ws hws).body) L last hL hlast hne

/-! ### non-vacuity -/

/-- an identifier given literally -/
local macro "idt" : term => `((⟨by decide, by decide⟩ : Ident _))

def n10 : Num := ⟨['1', '0'], none, none⟩

theorem n10_ok : n10.OK :=
  ⟨dig_of _ (by decide) (by decide), (by intro f hf; cases hf), (by intro sg d h; cases h)⟩

/-- a realistic PIL document in a free layout: comment and blank lines, CR LF and LF line ends, indentation with
    blanks and tabs, tabs between tokens, trailing blanks, trailing comments, all nine statement kinds, and an
    unterminated last line -/
def exLines : List (Line PilStmt × Eol) :=
  [(.blank [] (some " toehold exchange".toList), .crlf),
   (.blank [] none, .crlf),
   (.stmt [] (.dl "length".toList ['a'] false '=' ['6']) [[' '], [' '], [' '], []] none, .lf),
   (.stmt ['\t'] (.dl "length".toList ['b'] false '=' ['1', '5']) [['\t'], ['\t'], [' '], [' ', ' ', ' ']]
      (some " branch migration".toList), .crlf),
   (.stmt [' ', ' '] (.sl ['t'] false '=' "ACGT".toList (some (':', ['4'])))
      [[' '], [' '], [' '], [' '], [' '], []] none, .lf),
   (.blank [' ', '\t', ' '] none, .lf),
   (.blank ['\t'] (some " strands and complexes".toList), .lf),
   (.stmt [' ', ' '] (.strand "strand".toList ['s', '1'] '=' ['a'] [['b', '*']])
      [[' '], [' '], [' '], [' '], ['\t']] none, .lf),
   (.stmt [' ', ' ', ' ', ' '] (.kernel ['X'] ["a", "t", "a"] ['(', '.', ')'] [.tok "a", .grp [.tok "t"]]
        (some ("initial".toList, n10, ['n', 'M'])))
      [[' '], [' '], [' '], [' '], ['\t'], [], [' '], [' '], []] none, .lf),
   (.stmt ['\t'] (.struct ['c'] '=' (some ['a']) [some ['t'], none, some ['t', '*']] ':' "(.+)".toList)
      [[' '], [' '], [' '], [' '], [' '], [' '], [' '], [' ']] none, .lf),
   (.stmt [' ', ' '] (.complex ['k'] '=' ['a'] [['t', '*']] "()".toList)
      [[' '], [' '], [' '], ['\t', ' '], [' ', ' '], [], ['\t', ' ']] none, .lf),
   (.stmt [' ', ' '] (.state "state".toList ['S'] ['X'] [['c']])
      [[' '], [' '], [' '], [], [], [' '], [], [' ', ' ', ' ']] (some " resting".toList), .lf),
   (.stmt ['\t'] (.rxInfo "condensed".toList '=' n12_5 none [['M']] ['s'] ['X'] [['c']] ['S'] [])
      [[' '], [], [' '], [' '], [' '], [], [' '], [' '], [' '], [' '], [' '], []] none, .crlf)]

def exLast : Line PilStmt :=
  .stmt [' ', ' '] (.rxPlain "kinetic".toList ['X'] [] ['c'] []) [[' '], [' '], [' '], []] none


theorem dom_plain (d : List Char) (h : Ident d) : DomName d := ⟨d, false, by simp [star], h⟩
theorem dom_star (d : List Char) (h : Ident d) : DomName (d ++ ['*']) := ⟨d, true, rfl, h⟩

theorem exLines_ok : ∀ x ∈ exLines, x.1.OK pilLang := by
  unfold exLines
  refine Lines.all_cons ⟨by decide, Lines.cmOK_some _ (by decide)⟩ ?_
  refine Lines.all_cons ⟨by decide, Lines.cmOK_none⟩ ?_
  refine Lines.all_cons ⟨by decide, ⟨Or.inl rfl, idt, Or.inl ⟨Or.inl rfl, by decide, by decide⟩⟩, by decide,
    Lines.cmOK_none⟩ ?_
  refine Lines.all_cons ⟨by decide, ⟨Or.inl rfl, idt, Or.inl ⟨Or.inl rfl, by decide, by decide⟩⟩, by decide,
    Lines.cmOK_some _ (by decide)⟩ ?_
  refine Lines.all_cons ⟨by decide, ⟨Or.inl rfl, idt, ⟨by decide, by decide⟩,
    ⟨Or.inr rfl, by decide, by decide⟩⟩, by decide, Lines.cmOK_none⟩ ?_
  refine Lines.all_cons ⟨by decide, Lines.cmOK_none⟩ ?_
  refine Lines.all_cons ⟨by decide, Lines.cmOK_some _ (by decide)⟩ ?_
  refine Lines.all_cons ⟨by decide, ⟨Or.inl rfl, Or.inl rfl, idt,
    Lines.all_cons (dom_plain _ idt) (Lines.all_cons (dom_star ['b'] idt) Lines.all_nil)⟩, by decide,
    Lines.cmOK_none⟩ ?_
  refine Lines.all_cons ⟨by decide, ⟨idt, legal_ata, by decide, rfl,
    Or.inl rfl, n10_ok, Or.inr (Or.inr (Or.inr (Or.inl rfl)))⟩, by decide, Lines.cmOK_none⟩ ?_
  refine Lines.all_cons ⟨by decide, ⟨Or.inl rfl, Or.inr rfl, idt, ?_, ⟨by decide, by decide⟩⟩, by decide,
    Lines.cmOK_none⟩ ?_
  · intro d hd
    simp only [List.mem_cons, Option.some.injEq, List.not_mem_nil, or_false] at hd
    rcases hd with rfl | rfl | h | rfl
    · exact dom_plain _ idt
    · exact dom_plain _ idt
    · cases h
    · exact dom_star ['t'] idt
  refine Lines.all_cons ⟨by decide, ⟨Or.inl rfl, idt,
    Lines.all_cons (dom_plain _ idt) (Lines.all_cons (dom_star ['t'] idt) Lines.all_nil), ⟨by decide, by decide⟩⟩,
    by decide, Lines.cmOK_none⟩ ?_
  refine Lines.all_cons ⟨by decide, ⟨Or.inl rfl, idt, Lines.all_cons idt (Lines.all_cons idt Lines.all_nil)⟩,
    by decide, Lines.cmOK_some _ (by decide)⟩ ?_
  refine Lines.all_cons ⟨by decide, ⟨Or.inl rfl, idt, n12_5_ok, trivial,
    Lines.all_cons (Or.inl rfl) Lines.all_nil, Or.inl rfl,
    Lines.all_cons idt (Lines.all_cons idt Lines.all_nil), Lines.all_cons idt Lines.all_nil⟩, by decide,
    Lines.cmOK_none⟩ ?_
  exact Lines.all_nil

theorem exLast_ok : exLast.OK pilLang :=
  ⟨by decide, ⟨Or.inr rfl, Lines.all_cons idt Lines.all_nil, Lines.all_cons idt Lines.all_nil⟩, by decide,
    Lines.cmOK_none⟩




theorem ex_ne : docTrees pilLang exLines exLast ≠ [] := by
  intro e; have := congrArg List.length e; revert this; decide



/-- the document of `exLines` / `exLast`, from `pil_every_layout` (the text is compared character by character) … -/
example : parseDoc pil_env pil_grammar
    (String.join
      ["# toehold exchange\r\n",
       "\r\n",
       "length a = 6\n",
       "\tlength\tb\t= 15   # branch migration\r\n",
       "  sequence t = ACGT : 4\n",
       " \t \n",
       "\t# strands and complexes\n",
       "  strand s1 = a b*\t\n",
       "    X = a( t )\t@initial 10 nM\n",
       "\tstructure c = a t + t* : (.+)\n",
       "  complex k = \n",
       "\t a  t*\n",
       "\t ()\n",
       "  state S = [X, c]   # resting\n",
       "\treaction [condensed = 12.5 /M/s] X + c -> S\r\n",
       "  kinetic X -> c"]) =
    some [.grp [.tok "dl-domain", .tok "a", .tok "6"],
      .grp [.tok "dl-domain", .tok "b", .tok "15"],
      .grp [.tok "sl-domain", .tok "t", .tok "ACGT", .tok "4"],
      .grp [.tok "composite-domain", .tok "s1", .grp [.tok "a", .tok "b*"]],
      .grp [.tok "kernel-complex", .tok "X", .grp [.tok "a", .grp [.tok "t"]],
        .grp [.tok "initial", .tok "10", .tok "nM"]],
      .grp [.tok "strand-complex", .tok "c", .grp [.tok "a", .tok "t", .tok "t*"], .tok "(.+)"],
      .grp [.tok "strand-complex", .tok "k", .grp [.tok "a", .tok "t*"], .tok "()"],
      .grp [.tok "resting-macrostate", .tok "S", .grp [.tok "X", .tok "c"]],
      .grp [.tok "reaction", .grp [.grp [.tok "condensed"], .grp [.tok "12.5"], .grp [.tok "/M/s"]],
        .grp [.tok "X", .tok "c"], .grp [.tok "S"]],
      .grp [.tok "reaction", .grp [], .grp [.tok "X"], .grp [.tok "c"]]] := by
  have h := pil_every_layout exLines exLast exLines_ok exLast_ok ex_ne
  exact Lines.parse_of_lines _ _ _ _ h (by decide +kernel)

/-- … and directly -/
example : parseDoc pil_env pil_grammar
    (String.join
      ["# toehold exchange\r\n",
       "\r\n",
       "length a = 6\n",
       "\tlength\tb\t= 15   # branch migration\r\n",
       "  sequence t = ACGT : 4\n",
       " \t \n",
       "\t# strands and complexes\n",
       "  strand s1 = a b*\t\n",
       "    X = a( t )\t@initial 10 nM\n",
       "\tstructure c = a t + t* : (.+)\n",
       "  complex k = \n",
       "\t a  t*\n",
       "\t ()\n",
       "  state S = [X, c]   # resting\n",
       "\treaction [condensed = 12.5 /M/s] X + c -> S\r\n",
       "  kinetic X -> c"]) =
    some [.grp [.tok "dl-domain", .tok "a", .tok "6"],
      .grp [.tok "dl-domain", .tok "b", .tok "15"],
      .grp [.tok "sl-domain", .tok "t", .tok "ACGT", .tok "4"],
      .grp [.tok "composite-domain", .tok "s1", .grp [.tok "a", .tok "b*"]],
      .grp [.tok "kernel-complex", .tok "X", .grp [.tok "a", .grp [.tok "t"]],
        .grp [.tok "initial", .tok "10", .tok "nM"]],
      .grp [.tok "strand-complex", .tok "c", .grp [.tok "a", .tok "t", .tok "t*"], .tok "(.+)"],
      .grp [.tok "strand-complex", .tok "k", .grp [.tok "a", .tok "t*"], .tok "()"],
      .grp [.tok "resting-macrostate", .tok "S", .grp [.tok "X", .tok "c"]],
      .grp [.tok "reaction", .grp [.grp [.tok "condensed"], .grp [.tok "12.5"], .grp [.tok "/M/s"]],
        .grp [.tok "X", .tok "c"], .grp [.tok "S"]],
      .grp [.tok "reaction", .grp [], .grp [.tok "X"], .grp [.tok "c"]]] :=
  Lines.parse_lines_direct _ _ _ (by decide +kernel)


/-! a short document as a plain string literal: `length a = 5` indented by two blanks, a kernel complex indented by
    a tab with a trailing comment and CR LF -/

def exShort : List (Line PilStmt × Eol) :=
  [(.stmt [' ', ' '] (.dl "length".toList ['a'] false '=' ['5']) [[' '], [' '], [' '], []] none, .lf),
   (.stmt ['\t'] (.kernel ['X'] ["a", "t", "a"] ['(', '.', ')'] [.tok "a", .grp [.tok "t"]] none)
      [['\t'], [' '], [' '], [' '], [' ', ' ']] (some " c".toList), .crlf)]

/-- from `pil_every_layout` … -/
example : parseDoc pil_env pil_grammar "  length a = 5\n\tX\t= a( t )  # c\r\n" =
    some [.grp [.tok "dl-domain", .tok "a", .tok "5"],
          .grp [.tok "kernel-complex", .tok "X", .grp [.tok "a", .grp [.tok "t"]]]] := by
  have h := pil_every_layout exShort (.blank [] none)
    (Lines.all_cons ⟨by decide, ⟨Or.inl rfl, idt, Or.inl ⟨Or.inl rfl, by decide, by decide⟩⟩, by decide,
        Lines.cmOK_none⟩
      (Lines.all_cons ⟨by decide, ⟨idt, legal_ata, by decide, rfl, trivial⟩, by decide,
        Lines.cmOK_some _ (by decide)⟩ Lines.all_nil))
    ⟨by decide, Lines.cmOK_none⟩ (by intro e; have := congrArg List.length e; revert this; decide)
  exact parse_of_text _ _ _ _ _ h (by decide +kernel)

/-- … and directly -/
example : parseDoc pil_env pil_grammar "  length a = 5\n\tX\t= a( t )  # c\r\n" =
    some [.grp [.tok "dl-domain", .tok "a", .tok "5"],
          .grp [.tok "kernel-complex", .tok "X", .grp [.tok "a", .grp [.tok "t"]]]] := by
  rfl

/-- the indentation matters for the tab expansion: after two blanks the tab of `X<TAB>=` yields six blanks, at
    column 0 it would yield seven — both are statement texts (`StmtTextC`: every start column) -/
example : parseDoc pil_env pil_grammar "  X\t= a\n" = parseDoc pil_env pil_grammar "X\t= a\n" := by rfl

end Dsd.C13
