/-
C06 — dot-bracket, pair-table and strand-table conversions are exact and validating.
-/
import DsdVerif.Model.Complex
import DsdVerif.Lemmas.Matcher
import DsdVerif.Lemmas.MatchingUnique
import DsdVerif.Props.C06Loci

namespace Dsd.C06
open Dsd.Bracket

/-- every operation of the rotation that detects an imbalance reports SecondaryStructureError -/
theorem rotateOnce_error_kind (seq : List String) (sst : List Char) (e : Err)
    (h : rotateOnce seq sst = .error e) : e = .secondaryStructure := by
  unfold rotateOnce at h
  split at h
  · simp at h
  · split at h
    · injection h with h; exact h.symm
    · simp only at h
      split at h
      · injection h with h; exact h.symm
      · simp at h

/-- the only error `make_pair_table` raises is SecondaryStructureError -/
theorem mpt_error_kind (ss : List Char) (brk : Char) (e : Err)
    (h : makePairTable ss brk = .error e) : e = .secondaryStructure := by
  unfold makePairTable at h
  simp only at h
  split at h
  · injection h with h; exact h.symm
  · split at h
    · injection h with h; exact h.symm
    · simp at h

end Dsd.C06
