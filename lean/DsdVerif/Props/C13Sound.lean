import DsdVerif.Lemmas.PilReject

namespace Dsd.C13
open Dsd Dsd.PP Dsd.Gen

/-! C13, negative clauses in general form: PARSE SOUNDNESS of the PIL grammar.  `PP.Yield env skip g inp rest ts`
(Lemmas/PPYield.lean) is the relational form of a successful run: the term `g` accepts a prefix of `inp`, leaves
`rest`, returns `ts`, and every terminal accounts for the ignorable text in front of it and for the characters it
matched.  `PP.run_yield` / `PP.parseDoc_yield`: whatever the parser accepts is such a derivation over the
(tab-expanded) text.  From it:

* `kernel_brackets_balanced` — the kernel lines of an accepted, comment-free text were read from pieces of the text
  whose parentheses are balanced (`PP.Balanced`; in fact well nested from every depth, `PP.Neutral`);
* `unbalanced_kernel_rejected` — a kernel statement `name = pt` whose pattern text has unbalanced parentheses is
  rejected, for every identifier `name` and every pattern text over identifier characters, blanks, `+ * ^ ( )`;
* `missing_assign_rejected` — a text without any of `=`, `:`, `>` is rejected (every statement needs an assignment
  sign or the arrow `->`);
* `dl_value_wellformed` — the value of an accepted `length`/`domain`/`sequence` statement is `short`, `long` or a
  natural number (a malformed number cannot be accepted).

Not proved: the correspondence "one `( … )` pair per nested list of the returned forest" as a count; the bracket
theorems assume a text without `#` (a comment inside a loop, `a( # ( \n )`, is accepted by the grammar and would have
to be cut out of the consumed text first). -/

theorem expandTabs_id_sound (cs : List Char) (h : '\t' ∉ cs) (col : Nat) : expandTabs cs col = cs := by
  induction cs generalizing col with
  | nil => rfl
  | cons c cs ih =>
    have hc : c ≠ '\t' := fun e => h (by rw [e]; exact List.mem_cons_self)
    have hcs : '\t' ∉ cs := fun e => h (List.mem_cons_of_mem _ e)
    simp [expandTabs, ih hcs]

/-- **the kernel lines of an accepted text were read from balanced text**: for every `kernel-complex` line of the
    result there is a piece `c` of the (tab-expanded, comment-free) text, consumed by the kernel statement that
    returned this line, whose parentheses are balanced -/
theorem kernel_brackets_balanced (text : String) (lines : List Tree) (h : parseDoc pil_env pil_grammar text = some lines)
    (hh : '#' ∉ text.toList) (line : Tree) (hl : line ∈ lines) (l : List Tree)
    (hk : line = .grp (.tok "kernel-complex" :: l)) :
    ∃ pre c post t, expandTabs text.toList 0 = pre ++ (c ++ post) ∧
      Yield pil_env true pil_cplx (c ++ post) post t ∧ line ∈ t ∧ Balanced c := by
  obtain ⟨rest, hy⟩ := parseDoc_yield pil_env pil_grammar text lines h
  have hh' : '#' ∉ expandTabs text.toList 0 := by
    intro hm
    rcases mem_expandTabs _ _ _ hm with hm | hm
    · exact hh hm
    · cases hm
  obtain ⟨pre, c, post, t, e, hc, hlt, hn⟩ := kernel_lines_neutral hy hh' line hl l hk
  exact ⟨pre, c, post, t, e, hc, hlt, hn.balanced⟩

/-- **a kernel statement with unbalanced parentheses is rejected**: for every identifier `name` and every pattern
    text `pt` over identifier characters, blanks, `+`, `*`, `^`, `(` and `)` whose parentheses are not balanced, the
    text `name = pt⏎` does not parse -/
theorem unbalanced_kernel_rejected (name pt : List Char) (hname : name ≠ [] ∧ ∀ c ∈ name, c ∈ identChars)
    (hpt : ∀ c ∈ pt, PatCh c) (hunb : ¬ Balanced pt) :
    parseDoc pil_env pil_grammar (String.ofList (kernelText name pt)) = none := by
  cases hp : parseDoc pil_env pil_grammar (String.ofList (kernelText name pt)) with
  | none => rfl
  | some lines =>
    exfalso
    obtain ⟨rest, hy⟩ := parseDoc_yield pil_env pil_grammar _ lines hp
    have hnt : '\t' ∉ kernelText name pt := by
      unfold kernelText
      simp only [List.mem_append, List.mem_cons, List.not_mem_nil, or_false, not_or]
      refine ⟨fun hm => (identChars_facts' _ (hname.2 _ hm)).2.2.2.1 rfl, by decide, by decide, by decide,
        fun hm => (patCh_facts _ (hpt _ hm)).2.2 rfl, by decide⟩
    rw [String.toList_ofList, expandTabs_id_sound _ hnt] at hy
    exact hunb (kernelText_accepted_balanced name pt rest lines hname hpt hy)

/-- **a text without an assignment sign or arrow is rejected**: every statement contains `=`, `:` or `->` -/
theorem missing_assign_rejected (text : String) (h : ∀ c ∈ text.toList, c ≠ '=' ∧ c ≠ ':' ∧ c ≠ '>') :
    parseDoc pil_env pil_grammar text = none := by
  cases hp : parseDoc pil_env pil_grammar text with
  | none => rfl
  | some lines =>
    exfalso
    obtain ⟨rest, hy⟩ := parseDoc_yield pil_env pil_grammar text lines hp
    obtain ⟨c, hc, hcc⟩ := document_assign_char hy
    rcases mem_expandTabs _ _ _ hc with hc | hc
    · obtain ⟨h1, h2, h3⟩ := h c hc
      rcases hcc with e | e | e
      · exact h1 e
      · exact h2 e
      · exact h3 e
    · subst hc
      rcases hcc with e | e | e <;> cases e

/-- **a malformed domain length is never accepted**: the value of an accepted `dl-domain` line is `short`, `long`
    or a natural number -/
theorem dl_value_wellformed (text : String) (lines : List Tree) (h : parseDoc pil_env pil_grammar text = some lines)
    (name v : String) (hm : .grp [.tok "dl-domain", .tok name, .tok v] ∈ lines) :
    v = "short" ∨ v = "long" ∨ (v.toNat?).isSome := by
  obtain ⟨l, hl, hline⟩ := document_shape (parseDoc_shape pil_env pil_grammar text lines h) _ hm
  cases hl
  generalize hL : [Tree.tok "dl-domain", Tree.tok name, Tree.tok v] = L at hline
  cases hline <;> simp at hL
  rename_i n' len' _ hlen
  rw [hL.2]; exact hlen

/-! #### closed examples -/

theorem ident_a_sound : (['X'] : List Char) ≠ [] ∧ ∀ c ∈ ['X'], c ∈ identChars := by
  refine ⟨by simp, ?_⟩
  intro c hc; simp at hc; subst hc; decide

/-- `X = a( b⏎`: an unmatched opening parenthesis — by the theorem, and checked directly -/
example : parseDoc pil_env pil_grammar "X = a( b\n" = none := by
  have := unbalanced_kernel_rejected ['X'] "a( b".toList ident_a_sound
    (by intro c hc; simp at hc; rcases hc with rfl | rfl | rfl | rfl <;> simp [PatCh] <;> decide) (by unfold Balanced; decide)
  exact this
example : (parseDoc pil_env pil_grammar "X = a( b\n").isNone = true := by decide +kernel

/-- `X = a b )⏎`: an unmatched closing parenthesis -/
example : parseDoc pil_env pil_grammar "X = a b )\n" = none :=
  unbalanced_kernel_rejected ['X'] "a b )".toList ident_a_sound
    (by intro c hc; simp at hc; rcases hc with rfl | rfl | rfl | rfl | rfl <;> simp [PatCh] <;> decide) (by unfold Balanced; decide)

/-- a statement without assignment sign -/
example : parseDoc pil_env pil_grammar "length a 5\n" = none :=
  missing_assign_rejected _ (by decide)

/-- the balanced variant is accepted -/
example : (parseDoc pil_env pil_grammar "X = a( b )\n").isSome = true := by decide +kernel

end Dsd.C13
