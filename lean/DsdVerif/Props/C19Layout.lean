import DsdVerif.Props.C19Doc
import DsdVerif.Lemmas.PPSswLayout

namespace Dsd.C19
open Dsd.PP Dsd.Gen Dsd.PP.Ssw

/-! C19, the LAYOUT clause for the seesaw grammar: statements terminated by "\n" or "\r\n", followed on the same line by
whitespace and a comment, separated by empty / whitespace-only / comment-only lines, such lines before the first and
after the last statement, and an unterminated last line (Lemmas/PPSswLayout.lean).  A seesaw statement ends with the
literal `]` and does not own its line ends, so — unlike the PIL strand-notation complexes — no statement kind
restricts the whitespace that may follow it: the hypothesis is the `Ssw.StmtText` of Props/C19Doc.lean. -/

/-- **seesaw documents in any line-level layout parse as the concatenation of their statements.**
    `pre`: statement-free lines (whitespace, optionally a comment) before the first statement; every statement is
    followed by a separator `sp : LineSep`: the rest of its line — whitespace, optionally a comment, the line feed;
    so "\n", "\r\n", "  # …\n", … — and any number of statement-free lines; `fin`: an unterminated last line of
    whitespace / a comment. -/
theorem ssw_document_layout_rt (pre : List BLine) (stmts : List LItem) (fin : BLine) (hne : stmts ≠ [])
    (hpre : ∀ b ∈ pre, b.OK) (h : ∀ x ∈ stmts, StmtText x.1 x.2.1 ∧ x.2.2.OK) (hfin : fin.OK) :
    parseDoc ssw_env ssw_grammar
      (String.ofList (pre.flatMap BLine.text ++ (stmts.flatMap (fun x => x.1 ++ x.2.2.text) ++ fin.body))) =
    some (stmts.map (fun x => x.2.1)) :=
  Ssw.document_layout_parse pre hpre stmts hne h fin.body (Ssw.skipIgn_body fin hfin) (Ssw.notab_bline fin hfin)

/-- … and with a last statement whose own line is not terminated by a line feed -/
theorem ssw_document_layout_open_rt (pre : List BLine) (stmts : List LItem) (s : List Char) (t : Tree) (fin : BLine)
    (hpre : ∀ b ∈ pre, b.OK) (h : ∀ x ∈ stmts, StmtText x.1 x.2.1 ∧ x.2.2.OK) (hs : StmtText s t)
    (hfin : fin.OK) :
    parseDoc ssw_env ssw_grammar
      (String.ofList (pre.flatMap BLine.text ++ (stmts.flatMap (fun x => x.1 ++ x.2.2.text) ++ (s ++ fin.body)))) =
    some (stmts.map (fun x => x.2.1) ++ [t]) :=
  Ssw.document_layout_parse_open pre hpre stmts h s t hs fin.body (Ssw.skipIgn_body fin hfin)
    (Ssw.notab_bline fin hfin)

/-! ### non-vacuity: CRLF line ends, a comment after a statement, a comment-only line, a blank line, comment lines
before the first and (unterminated) after the last statement -/

/-- from the character list to the string literal (comparing the lists is much cheaper for the kernel than
    comparing the strings) -/
theorem parse_of_text (env : Env) (g : G) (T : List Char) (s : String) (r : Option (List Tree))
    (h : parseDoc env g (String.ofList T) = r) (e : T = s.toList) : parseDoc env g s = r := by
  subst e; rwa [String.ofList_toList] at h

theorem bline_ok (ws : List Char) (cm : Option (List Char)) (h1 : ∀ c ∈ ws, c = ' ' ∨ c = '\r')
    (h2 : ∀ c, cm = some c → '\n' ∉ c ∧ '\t' ∉ c) : (⟨ws, cm⟩ : BLine).OK := ⟨h1, h2⟩

example :
    parseDoc ssw_env ssw_grammar
      "# circuit\r\nINPUT(1) = w[1, 2]  # in\r\n\r\n  # gate\r\nseesaw[5, {1, 2}, {3}]\r\nreporter[3, 7]\n# end" =
    some [.grp [.tok "INPUT", .grp [.tok "1"], .grp [.tok "w", .grp [.tok "1", .tok "2"]]],
          .grp [.tok "seesaw", .grp [.tok "5", .grp [.tok "1", .tok "2"], .grp [.tok "3"]]],
          .grp [.tok "reporter", .grp [.tok "3", .tok "7"]]] := by
  have d : ∀ c : Char, c ∈ pp_nums → Digits [c] := fun c hc => ⟨by simp, by simpa using hc⟩
  have d1 := d '1' (by decide); have d2 := d '2' (by decide); have d3 := d '3' (by decide)
  have d5 := d '5' (by decide); have d7 := d '7' (by decide)
  have cm : ∀ (x : List Char), '\n' ∉ x → '\t' ∉ x → ∀ c, some x = some c → '\n' ∉ c ∧ '\t' ∉ c := by
    intro x a b c hc; cases hc; exact ⟨a, b⟩
  have none_ok : ∀ c : List Char, (none : Option (List Char)) = some c → '\n' ∉ c ∧ '\t' ∉ c := by
    intro c hc; cases hc
  have h := ssw_document_layout_rt
    [⟨[], some " circuit\r".toList⟩]
    [(_, _, ⟨⟨[' ', ' '], some " in\r".toList⟩, [⟨['\r'], none⟩, ⟨[' ', ' '], some " gate\r".toList⟩]⟩),
     (_, _, ⟨⟨['\r'], none⟩, []⟩),
     (_, _, ⟨⟨[], none⟩, []⟩)]
    ⟨[], some " end".toList⟩ (by simp)
    (by
      intro b hb
      simp only [List.mem_cons, List.not_mem_nil, or_false] at hb
      subst hb
      exact bline_ok _ _ (by decide) (cm _ (by decide) (by decide)))
    (by
      intro x hx
      simp only [List.mem_cons, List.not_mem_nil, or_false] at hx
      rcases hx with rfl | rfl | rfl
      · refine ⟨stmtText_input ['1'] ['1'] ['2'] d1 d1 d2 1 1 1,
          bline_ok _ _ (by decide) (cm _ (by decide) (by decide)), ?_⟩
        intro b hb
        simp only [List.mem_cons, List.not_mem_nil, or_false] at hb
        rcases hb with rfl | rfl
        · exact bline_ok _ _ (by decide) none_ok
        · exact bline_ok _ _ (by decide) (cm _ (by decide) (by decide))
      · exact ⟨stmtText_seesaw ['5'] [['1'], ['2']] [['3']] d5
            ⟨by simp, by intro x hx; simp at hx; rcases hx with rfl | rfl <;> assumption⟩
            ⟨by simp, by intro x hx; simp at hx; subst hx; exact d3⟩,
          bline_ok _ _ (by decide) none_ok, by simp⟩
      · exact ⟨stmtText_reporter ['3'] ['7'] d3 d7 1, bline_ok _ _ (by decide) none_ok, by simp⟩)
    (bline_ok _ _ (by decide) (cm _ (by decide) (by decide)))
  exact parse_of_text _ _ _ _ _ h (by decide +kernel)

/-- the same document, checked directly against the interpreter -/
example :
    (match parseDoc ssw_env ssw_grammar
        "# circuit\r\nINPUT(1) = w[1, 2]  # in\r\n\r\n  # gate\r\nseesaw[5, {1, 2}, {3}]\r\nreporter[3, 7]\n# end" with
     | some [.grp [.tok "INPUT", _, _], .grp [.tok "seesaw", _], .grp [.tok "reporter", _]] => true
     | _ => false) = true := by decide +kernel

end Dsd.C19
