import DsdVerif.Props.C19Tabs
import DsdVerif.Lemmas.PPSswStreamKinds

namespace Dsd.C19
open Dsd.PP Dsd.Gen Dsd.PP.Ssw Dsd.PP.Tabs

/-! C19, from token streams to statement texts.  A seesaw statement is a list of tokens `t0 :: toks`
(Lemmas/PPSswStreamKinds.lean); its LAYOUT TEMPLATE `tmOf t0 toks` puts an optional separator (`.sep false`: zero
characters are allowed) at EVERY token boundary.  `stmtText_of_stream`: with blanks, the rendering is an
`Ssw.StmtText`; `stmtTextT_of_stream`: with arbitrary blank/tab separators it is an `Ssw.StmtTextT` — so that
`document_rt` / `ssw_document_layout_rt` / `ssw_document_tabs_rt` apply. -/

/-- `sep tok sep tok …` -/
def tmTail (toks : List (List Char)) : List Piece := toks.flatMap (fun t => [.sep false, .tok t])

/-- the template of a statement: the first token, then every further token after an optional separator -/
def tmOf (t0 : List Char) (toks : List (List Char)) : List Piece := .tok t0 :: tmTail toks

theorem tmTail_cons (t : List Char) (toks : List (List Char)) :
    tmTail (t :: toks) = .sep false :: .tok t :: tmTail toks := by simp [tmTail]

/-- a token: no tab, not empty -/
def TokOK (t : List Char) : Prop := '\t' ∉ t ∧ t ≠ []

theorem toksOK_tmTail (toks : List (List Char)) (h : ∀ t ∈ toks, TokOK t) : ToksOK (tmTail toks) := by
  induction toks with
  | nil => trivial
  | cons t toks ih =>
    rw [tmTail_cons]
    exact ⟨(h t List.mem_cons_self).1, ih (fun x hx => h x (List.mem_cons_of_mem _ hx))⟩

/-- the template with blank counts is the text of a stream -/
theorem render_tmTail (toks : List (List Char)) (ks : List Nat) (h : CountsOK (tmTail toks) ks) :
    ∃ S : Stream, S.map Prod.snd = toks ∧ render (tmTail toks) ks = txt S [] := by
  induction toks generalizing ks with
  | nil => exact ⟨[], rfl, rfl⟩
  | cons t toks ih =>
    rw [tmTail_cons] at h ⊢
    cases ks with
    | nil => exact absurd h (by simp [CountsOK])
    | cons k ks =>
      obtain ⟨S, hS, hr⟩ := ih ks h.2
      exact ⟨(k, t) :: S, by simp [hS], by simp only [render, txt, hr]⟩

/-- … and every stream is such a rendering -/
theorem txt_eq_render (S : Stream) :
    CountsOK (tmTail (S.map Prod.snd)) (S.map Prod.fst) ∧
      txt S [] = render (tmTail (S.map Prod.snd)) (S.map Prod.fst) := by
  induction S with
  | nil => exact ⟨rfl, rfl⟩
  | cons x S ih =>
    obtain ⟨k, t⟩ := x
    simp only [List.map_cons, tmTail_cons]
    exact ⟨⟨by simp, ih.1⟩, by simp only [render, txt, ih.2]⟩

/-- **blanks at every token boundary**: the text of a stream is a statement text -/
theorem stmtText_of_stream (t0 : List Char) (c : Char) (r : List Char) (ht0 : t0 = c :: r) (hc : StartCh c)
    (toks : List (List Char)) (ts : List Tree) (b : Nat) (h : StmtComp ssw_env t0 toks ts b) (hnt0 : '\t' ∉ t0)
    (hnt : ∀ t ∈ toks, TokOK t) (hb : b ≤ 3 * toks.length + 30) (S : Stream) (hS : S.map Prod.snd = toks) :
    StmtText (t0 ++ txt S []) (.grp ts) := by
  have hmem : ∀ x ∈ S, TokOK x.2 := by
    intro x hx
    apply hnt
    rw [← hS]
    exact List.mem_map_of_mem hx
  have hlen := length_le_txt S [] (fun x hx => (hmem x hx).2)
  have hSl : S.length = toks.length := by rw [← hS]; simp
  refine StmtText.of _ ts b c (fun rest => t0 ++ txt S rest) (by subst ht0; simp) hc ?_ ?_ ?_ (fun rest => h S rest hS)
  · have := notab_txt S [] (fun x hx => (hmem x hx).1) (by simp)
    simp [hnt0, this]
  · simp only [List.length_append]
    simp only [List.length_nil] at hlen
    omega
  · intro rest; rw [List.append_assoc, txt_rest]

/-- **blank/tab separators at every token boundary**: the rendering of the template is a statement text with tabs -/
theorem stmtTextT_of_stream (t0 : List Char) (c : Char) (r : List Char) (ht0 : t0 = c :: r) (hc : StartCh c)
    (toks : List (List Char)) (ts : List Tree) (b : Nat) (h : StmtComp ssw_env t0 toks ts b) (hnt0 : '\t' ∉ t0)
    (hnt : ∀ t ∈ toks, TokOK t) (hb : b ≤ 3 * toks.length + 30) (ws : List (List Char))
    (hws : SepsOK (tmOf t0 toks) ws) : StmtTextT (renderW (tmOf t0 toks) ws) (.grp ts) := by
  refine stmtTextT_of_template (tmOf t0 toks) ⟨hnt0, toksOK_tmTail toks hnt⟩ _ ?_ ws hws
  intro ks hk
  obtain ⟨S, hS, hr⟩ := render_tmTail toks ks hk
  show StmtText (t0 ++ render (tmTail toks) ks) _
  rw [hr]
  exact stmtText_of_stream t0 c r ht0 hc toks ts b h hnt0 hnt hb S hS

/-! ### a statement as a one-line document -/

theorem stmt_rt (s : List Char) (t : Tree) (h : StmtText s t) :
    parseDoc ssw_env ssw_grammar (String.ofList (s ++ ['\n'])) = some [t] := by
  have := document_rt [(s, t, 0)] (by simp) (by intro x hx; simp at hx; subst hx; exact h)
  simpa using this

theorem stmtT_rt (s : List Char) (t : Tree) (h : StmtTextT s t) :
    parseDoc ssw_env ssw_grammar (String.ofList (s ++ ['\n'])) = some [t] := by
  have hb : BLine.OK ⟨[], none⟩ := bline_ok _ _ (by simp) (by intro c hc; cases hc)
  have := ssw_document_tabs_rt [] [(s, t, ⟨⟨[], none⟩, []⟩)] ⟨[], none⟩ (by simp) (by simp)
    (by intro x hx; simp at hx; subst hx; exact ⟨h, hb, by simp⟩) hb
  simpa [BLine.text, BLine.body, LineSep.text, blines] using this

/-! ### the tokens are proper -/

theorem tokOK_dig {t : List Char} (h : Dig t) : TokOK t := ⟨notab_digits h, h.1⟩

theorem tokOK_numOrF {t : List Char} (h : NumOrF t) : TokOK t := by
  rcases h with h | rfl
  · exact tokOK_dig h
  · exact ⟨by decide, by decide⟩

theorem tokOK_name {t : List Char} (h : NameTok t) : TokOK t := by
  rcases h with h | h
  · exact tokOK_dig h
  · refine ⟨notab_ident h, ?_⟩
    obtain ⟨c, cs, rfl, _⟩ := h
    simp

theorem tokOK_mant {m : List Char} {ss : List String} (h : Mant m ss) : TokOK m := by
  cases h with
  | int _ hv => exact tokOK_dig hv
  | dec v w hv hw =>
    have h1 := notab_digits hv; have h2 := notab_digits hw
    exact ⟨by simp [h1, h2], by simp⟩

theorem tokOK_gorf {t : List Char} (h : GorfTok t) : TokOK t := by
  cases h with
  | flt hm => exact tokOK_mant hm
  | sci hm hs x hx =>
    have h1 := (tokOK_mant hm).1; have h2 := notab_digits hx
    refine ⟨?_, by simp⟩
    cases hs <;> simp [h1, h2]

theorem tokOK_lit (c : Char) (s : List Char) (h : '\t' ∉ c :: s) : TokOK (c :: s) := ⟨h, by simp⟩

theorem tokOK_wire {a b : List Char} (ha : Dig a) (hb : NumOrF b) : ∀ t ∈ wireToks a b, TokOK t := by
  intro t ht
  simp only [wireToks, List.mem_cons, List.not_mem_nil, or_false] at ht
  rcases ht with rfl | rfl | rfl | rfl | rfl | rfl
  · exact ⟨by decide, by decide⟩
  · exact ⟨by decide, by decide⟩
  · exact tokOK_dig ha
  · exact ⟨by decide, by decide⟩
  · exact tokOK_numOrF hb
  · exact ⟨by decide, by decide⟩

theorem tokOK_tail {Q : List Char → Prop} (hQ : ∀ t, Q t → TokOK t) (ys : List (List Char)) (h : ∀ y ∈ ys, Q y) :
    ∀ t ∈ tailToks ys, TokOK t := by
  intro t ht
  simp only [tailToks, List.mem_flatMap, List.mem_cons, List.not_mem_nil, or_false] at ht
  obtain ⟨y, hy, rfl | rfl⟩ := ht
  · exact ⟨by decide, by decide⟩
  · exact hQ _ (h _ hy)

theorem tokOK_braces {Q : List Char → Prop} (hQ : ∀ t, Q t → TokOK t) (x0 : List Char) (xs : List (List Char))
    (h0 : Q x0) (h : ∀ y ∈ xs, Q y) : ∀ t ∈ braceToks x0 xs, TokOK t := by
  intro t ht
  simp only [braceToks, List.mem_cons, List.mem_append, List.not_mem_nil, or_false] at ht
  rcases ht with rfl | rfl | ht | rfl
  · exact ⟨by decide, by decide⟩
  · exact hQ _ h0
  · exact tokOK_tail hQ xs h t ht
  · exact ⟨by decide, by decide⟩

theorem length_tailToks (ys : List (List Char)) : (tailToks ys).length = 2 * ys.length := by
  induction ys with
  | nil => rfl
  | cons y ys ih => rw [tailToks_cons]; simp only [List.length_cons, ih]; omega

theorem length_braceToks (x0 : List Char) (xs : List (List Char)) : (braceToks x0 xs).length = 2 * xs.length + 3 := by
  simp only [braceToks, List.length_cons, List.length_append, length_tailToks, List.length_nil]

end Dsd.C19
