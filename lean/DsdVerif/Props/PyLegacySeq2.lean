/-
Continuation of Props/PyLegacySeq.lean: the remaining views of the legacy `SequenceConstraint` AS WRITTEN equal the CURRENT IUPAC functions
AS WRITTEN (Gen/PyIupac.lean), for both molecules:

  `py_seq_wc_complement_eq`, `py_seq_reverse_wc_complement_eq`   on sequences over A C G T/U N (the legacy Watson-Crick dictionary has no other
                                    keys: anything else is a KeyError there, while the current table is total)
  `py_seq_reverse_complement_eq`    on every IUPAC sequence
  `py_seq_add_frame`                `add_constraint` as written assigns `_sequence` and nothing else (every helper it calls leaves the object untouched)
  `py_seq_add_then_complement`      after a successful in-place `add_constraint` the `complement` read is the CURRENT API's complement of the NEW
                                    sequence (what the seeded "cached complement" regression contradicts)
-/
import DsdVerif.Props.PyLegacySeq
import DsdVerif.Lemmas.PyLegacySeq2
import DsdVerif.Lemmas.PyLegacySeq2Add

namespace Dsd.PyLegacySeq
open Dsd Dsd.Gen

theorem py_seq_wc_complement_eq (s : List Char) (mol : String) (hm : mol = "DNA" ∨ mol = "RNA") (hs : ∀ c ∈ s, c ∈ wcCodesOf mol) :
    (py_SequenceConstraint_wc_complement).exec (mkS s mol) = (py_wc_complement s mol, mkS s mol) := wc_complement_eq s mol hm hs

theorem py_seq_reverse_complement_eq (s : List Char) (mol : String) (hm : mol = "DNA" ∨ mol = "RNA") (hs : ∀ c ∈ s, c ∈ codesOf mol) :
    (py_SequenceConstraint_reverse_complement).exec (mkS s mol) = (py_reverse_complement s mol, mkS s mol) :=
  reverse_complement_eq s mol hm hs

theorem py_seq_reverse_wc_complement_eq (s : List Char) (mol : String) (hm : mol = "DNA" ∨ mol = "RNA")
    (hs : ∀ c ∈ s, c ∈ wcCodesOf mol) :
    (py_SequenceConstraint_reverse_wc_complement).exec (mkS s mol) = (py_reverse_wc_complement s mol, mkS s mol) :=
  reverse_wc_complement_eq s mol hm hs

theorem py_seq_add_frame (con : List (List Char)) (st st' : SequenceConstraint.Self)
    (h : (py_SequenceConstraint_add_constraint con).exec st = (.ok (), st')) : ∃ new, st' = { st with _sequence := new } :=
  add_frame con st st' h

theorem py_seq_add_then_complement (s : List Char) (mol : String) (hm : mol = "DNA" ∨ mol = "RNA") (con : List (List Char))
    (st' : SequenceConstraint.Self) (h : (py_SequenceConstraint_add_constraint con).exec (mkS s mol) = (.ok (), st'))
    (s' : List Char) (hs' : st'._sequence = s'.map (fun c => [c])) (hi : ∀ c ∈ s', c ∈ codesOf mol) :
    (py_SequenceConstraint_complement).exec st' = (py_complement s' mol, st') :=
  add_then_complement s mol hm con st' h s' hs' hi

#print axioms py_seq_add_frame
#print axioms py_seq_add_then_complement
#print axioms py_seq_wc_complement_eq
#print axioms py_seq_reverse_complement_eq
#print axioms py_seq_reverse_wc_complement_eq

end Dsd.PyLegacySeq
