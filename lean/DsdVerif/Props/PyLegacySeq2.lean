/-
Continuation of Props/PyLegacySeq.lean: the remaining views of the legacy `SequenceConstraint` AS WRITTEN equal the CURRENT IUPAC functions
AS WRITTEN (Gen/PyIupac.lean), for both molecules:

  `py_seq_wc_complement_eq`, `py_seq_reverse_wc_complement_eq`   on sequences over A C G T/U N (the legacy Watson-Crick dictionary has no other
                                    keys: anything else is a KeyError there, while the current table is total)
  `py_seq_reverse_complement_eq`    on every IUPAC sequence
-/
import DsdVerif.Props.PyLegacySeq
import DsdVerif.Lemmas.PyLegacySeq2

namespace Dsd.PyLegacySeq
open Dsd Dsd.Gen

theorem py_seq_wc_complement_eq (s : List Char) (mol : String) (hm : mol = "DNA" ∨ mol = "RNA") (hs : ∀ c ∈ s, c ∈ wcCodesOf mol) :
    (py_SequenceConstraint_wc_complement).exec (mkS s mol) = (py_wc_complement s mol, mkS s mol) := wc_complement_eq s mol hm hs

theorem py_seq_reverse_complement_eq (s : List Char) (mol : String) (hm : mol = "DNA" ∨ mol = "RNA") (hs : ∀ c ∈ s, c ∈ codesOf mol) :
    (py_SequenceConstraint_reverse_complement).exec (mkS s mol) = (py_reverse_complement s mol, mkS s mol) :=
  reverse_complement_eq s mol hm hs

theorem py_seq_reverse_wc_complement_eq (s : List Char) (mol : String) (hm : mol = "DNA" ∨ mol = "RNA")
    (hs : ∀ c ∈ s, c ∈ wcCodesOf mol) :
    (py_SequenceConstraint_reverse_wc_complement).exec (mkS s mol) = (py_reverse_wc_complement s mol, mkS s mol) :=
  reverse_wc_complement_eq s mol hm hs

#print axioms py_seq_wc_complement_eq
#print axioms py_seq_reverse_complement_eq
#print axioms py_seq_reverse_wc_complement_eq

end Dsd.PyLegacySeq
