import DsdVerif.Props.C13Reject
import DsdVerif.Lemmas.PilBadKernel

namespace Dsd.C13
open Dsd.PP Dsd.Gen Dsd.Pil

/-! C13, negative clause, "statements with unbalanced kernel brackets … are rejected", at DOCUMENT level and
without any hypothesis on comments in the rest of the document.

`kernelLine name a b pt` = `name`, `a` blanks, `=`, `b` blanks, the pattern text `pt` (any text over identifier
characters, blanks and `+ * ^ ( )`; `name`: an identifier that is no statement keyword).

* too many CLOSING parentheses (`bdepth pt 0 = none`: some prefix of `pt` closes more than it opens): the document is
  rejected whatever follows;
* too many OPENING parentheses (`bdepth pt 0 = some (k + 1)`): the document is rejected when the rest of the text
  contains no `)`.  The condition is needed: the model accepts `X = a(` followed by a line feed and `)` — `White`
  matches line feeds inside an empty loop (kernel-checked below); the sharp condition is `Pil.NeverCloses k R`.

The proof is parse soundness with comment-aware accounting (Lemmas/PilYieldC.lean, PilBadKernel.lean). -/

theorem kernelLine_badStmt (name : List Char) (a b : Nat) (pt : List Char) (hn : Ident name)
    (hnk : name ∉ Pil.keywords) (hpt : ∀ c ∈ pt, PatCh c) :
    BadStmtFor (Unclosable (kernelLine name a b pt)) (kernelLine name a b pt) := by
  obtain ⟨nc, m, rfl, hnc, hm⟩ := ident_cons hn
  have hf := ident_facts nc hnc
  refine ⟨⟨nc, m ++ (List.replicate a ' ' ++ ('=' :: (List.replicate b ' ' ++ pt))), rfl, hf.1, hf.2.1,
    hf.2.2.2.2.2.1⟩, ?_, 20, by omega, fun R hR => No_stmt_unclosable (nc :: m) a b pt R hn hnk hpt hR⟩
  have h1 := Pil.notab_ident _ hn.2
  have h2 : '\t' ∉ pt := fun hm' => (patCh_facts _ (hpt _ hm')).2.2 rfl
  unfold kernelLine
  simp only [List.mem_append, List.mem_replicate, not_or]
  refine ⟨h1, fun h => absurd h.2 (by decide), ?_⟩
  simp only [List.mem_cons, List.mem_append, List.mem_replicate, not_or]
  exact ⟨by decide, fun h => absurd h.2 (by decide), h2⟩

/-- **too many closing parentheses**: the document is rejected, whatever follows the statement -/
theorem unbalanced_kernel_close_rejected (pre : List BLine) (hpre : ∀ b ∈ pre, b.OK) (stmts : List LItem)
    (h : ∀ x ∈ stmts, StmtTextT x.1 x.2.1 ∧ x.2.2.OK) (name : List Char) (a b : Nat) (pt : List Char)
    (hn : Ident name) (hnk : name ∉ Pil.keywords) (hpt : ∀ c ∈ pt, PatCh c) (hunb : bdepth pt 0 = none)
    (R : List Char) :
    parseDoc pil_env pil_grammar
      (String.ofList (blines pre ++ (litemsText stmts ++ (kernelLine name a b pt ++ R)))) = none :=
  pil_document_rejected pre hpre stmts h _ (kernelLine_badStmt name a b pt hn hnk hpt).toT R
    (fun _ => unclosable_of_close name a b pt _ hn.2 hpt hunb)

theorem notmem_expandTabs (cs : List Char) (col : Nat) (c : Char) (hc : c ≠ ' ') (h : c ∉ cs) :
    c ∉ expandTabs cs col := by
  intro hm
  rcases mem_expandTabs cs col c hm with h' | h'
  · exact h h'
  · exact hc h'

/-- **too many opening parentheses**: the document is rejected when nothing behind the statement closes them -/
theorem unbalanced_kernel_open_rejected (pre : List BLine) (hpre : ∀ b ∈ pre, b.OK) (stmts : List LItem)
    (h : ∀ x ∈ stmts, StmtTextT x.1 x.2.1 ∧ x.2.2.OK) (name : List Char) (a b : Nat) (pt : List Char)
    (hn : Ident name) (hnk : name ∉ Pil.keywords) (hpt : ∀ c ∈ pt, PatCh c) (k : Nat)
    (hunb : bdepth pt 0 = some (k + 1)) (R : List Char) (hR : ')' ∉ R) :
    parseDoc pil_env pil_grammar
      (String.ofList (blines pre ++ (litemsText stmts ++ (kernelLine name a b pt ++ R)))) = none :=
  pil_document_rejected pre hpre stmts h _ (kernelLine_badStmt name a b pt hn hnk hpt).toT R
    (fun col => unclosable_of_open name a b pt _ hn.2 hpt k hunb
      (neverCloses_of_noclose k _ (notmem_expandTabs R col ')' (by decide) hR)))

/-- **unbalanced kernel brackets are rejected** (both kinds at once; nothing behind the statement closes a
    parenthesis) -/
theorem unbalanced_kernel_rejected_doc (pre : List BLine) (hpre : ∀ b ∈ pre, b.OK) (stmts : List LItem)
    (h : ∀ x ∈ stmts, StmtTextT x.1 x.2.1 ∧ x.2.2.OK) (name : List Char) (a b : Nat) (pt : List Char)
    (hn : Ident name) (hnk : name ∉ Pil.keywords) (hpt : ∀ c ∈ pt, PatCh c) (hunb : ¬ Balanced pt)
    (R : List Char) (hR : ')' ∉ R) :
    parseDoc pil_env pil_grammar
      (String.ofList (blines pre ++ (litemsText stmts ++ (kernelLine name a b pt ++ R)))) = none := by
  cases hd : bdepth pt 0 with
  | none => exact unbalanced_kernel_close_rejected pre hpre stmts h name a b pt hn hnk hpt hd R
  | some d =>
    cases d with
    | zero => exact absurd hd hunb
    | succ k => exact unbalanced_kernel_open_rejected pre hpre stmts h name a b pt hn hnk hpt k hd R hR

/-! ### the condition on the following text is needed; comments do not matter -/

/-- an unclosed EMPTY loop is closed by a parenthesis on a later line -/
example : (parseDoc pil_env pil_grammar "X = a(\n)\n").isSome = true := by rfl
/-- … but not a non-empty one -/
example : parseDoc pil_env pil_grammar "X = a( b\n)\n" = none := by rfl
/-- comments may contain parentheses, also inside a loop -/
example : (parseDoc pil_env pil_grammar "X = a( # ( \n )\n").isSome = true := by rfl
example : (parseDoc pil_env pil_grammar "X = a( b ) # )\n").isSome = true := by rfl

end Dsd.C13
