import DsdVerif.Model.Complex
import DsdVerif.Lemmas.Matcher
import DsdVerif.Lemmas.MatchingUnique
import DsdVerif.Lemmas.Locus

namespace Dsd.C06
open Dsd.Bracket

/-- entry of a pair table at a locus (`none` when unpaired or out of range) -/
def ptGet (pt : PairTable) (l : Locus) : Option Locus := ((pt[l.1]?).bind (fun s => s[l.2]?)).join

/-- character of a multi-stranded structure at a locus -/
def chAt (strands : List (List Char)) (l : Locus) : Option Char := (strands[l.1]?).bind (fun s => s[l.2]?)

/-- independent definition of well-formedness: only `( ) .` besides the break, the bracket height never
    drops below zero and ends at zero (`bal` from Lemmas/Matcher is that height counter) -/
def WellFormed (ss : List Char) (brk : Char) : Prop :=
  ∃ syms, (splitOn brk ss).mapM (fun s => s.mapM toSym) = some syms ∧ bal 0 syms.flatten = true

/-! ### auxiliary facts -/

theorem toSym_op (c : Char) (h : toSym c = some .op) : c = '(' := by
  unfold toSym at h; split at h <;> simp_all

theorem toSym_cl (c : Char) (h : toSym c = some .cl) : c = ')' := by
  unfold toSym at h; split at h <;> simp_all

theorem toSym_dot (c : Char) (h : toSym c = some .dot) : c = '.' := by
  unfold toSym at h; split at h <;> simp_all

theorem ptGet_eq (pt : PairTable) (l : Locus) : ptGet pt l = (getL pt l).join := rfl

theorem chAt_eq (strands : List (List Char)) (l : Locus) : chAt strands l = getL strands l := rfl

/-- the linear data behind an accepted structure -/
structure Lin (ss : List Char) (brk : Char) (pt : PairTable) (W : List Sym) (t : List (Option Nat)) : Prop where
  hM : Matching W (P t)
  hlen : W.length = ((splitOn brk ss).map List.length).sum
  hshape : pt.map List.length = (splitOn brk ss).map List.length
  hpg : ∀ i : Nat, ptGet pt (toLocus ((splitOn brk ss).map List.length) i) =
    (P t i).map (toLocus ((splitOn brk ss).map List.length))
  hch : ∀ i : Nat, chAt (splitOn brk ss) (toLocus ((splitOn brk ss).map List.length) i) = (splitOn brk ss).flatten[i]?
  hS : ∀ i : Nat, ((splitOn brk ss).flatten[i]?).map toSym = (W[i]?).map some

theorem mpt_lin (ss : List Char) (brk : Char) (pt : PairTable) (h : makePairTable ss brk = .ok pt) :
    ∃ W t, Lin ss brk pt W t := by
  cases hm : (splitOn brk ss).mapM (fun s => s.mapM toSym) with
  | none => simp [makePairTable, hm] at h
  | some syms =>
    cases ht : matchW syms.flatten with
    | none => simp [makePairTable, hm, ht] at h
    | some t =>
      simp only [makePairTable, hm, ht, Except.ok.injEq] at h
      obtain ⟨e1, e2⟩ := mapM_mapM_flatten toSym _ _ hm
      rw [e2] at h
      have hlen : syms.flatten.length = ((splitOn brk ss).map List.length).sum := by
        rw [List.length_flatten, e2]
      have htl : (t.map (fun o => o.map (toLocus ((splitOn brk ss).map List.length)))).length =
          ((splitOn brk ss).map List.length).sum := by
        rw [List.length_map, matchW_length _ _ ht, hlen]
      refine ⟨syms.flatten, t, matchW_sound _ _ ht, hlen, ?_, ?_, ?_, ?_⟩
      · rw [← h, reshape_shape _ _ htl]
      · intro i
        rw [ptGet_eq, ← h, reshape_get _ _ htl, P]
        cases hti : t[i]? <;> simp [hti]
      · intro i; exact getL_toLocus _ i
      · intro i
        have := congrArg (fun l => l[i]?) e1
        simp only [List.getElem?_map] at this
        exact this

theorem Lin.sym_of_char {ss brk pt W t} (L : Lin ss brk pt W t) (i : Nat) (c : Char)
    (hc : (splitOn brk ss).flatten[i]? = some c) : ∃ y, W[i]? = some y ∧ toSym c = some y := by
  have := L.hS i
  rw [hc] at this
  cases hw : W[i]? with
  | none => simp [hw] at this
  | some y => simp [hw] at this; exact ⟨y, rfl, this⟩

theorem Lin.char_of_sym {ss brk pt W t} (L : Lin ss brk pt W t) (i : Nat) (y : Sym)
    (hw : W[i]? = some y) : ∃ c, (splitOn brk ss).flatten[i]? = some c ∧ toSym c = some y := by
  have := L.hS i
  rw [hw] at this
  cases hc : (splitOn brk ss).flatten[i]? with
  | none => simp [hc] at this
  | some c => simp [hc] at this; exact ⟨c, rfl, this⟩

/-- a valid locus of the string is `toLocus` of a linear position -/
theorem Lin.locus_of_char {ss brk pt W t} (L : Lin ss brk pt W t) (l : Locus) (c : Char)
    (hc : chAt (splitOn brk ss) l = some c) :
    ∃ i, l = toLocus ((splitOn brk ss).map List.length) i ∧ (splitOn brk ss).flatten[i]? = some c := by
  have hv := getL_valid _ l c hc
  obtain ⟨e1, _⟩ := toLocus_fromLocus _ l hv
  refine ⟨fromLocus ((splitOn brk ss).map List.length) l, e1.symm, ?_⟩
  rw [← L.hch, e1]; exact hc

/-- a non-empty entry of the table comes from a linear pair -/
theorem Lin.pair_of_ptGet {ss brk pt W t} (L : Lin ss brk pt W t) (l l' : Locus)
    (hp : ptGet pt l = some l') :
    ∃ i j, l = toLocus ((splitOn brk ss).map List.length) i ∧
      l' = toLocus ((splitOn brk ss).map List.length) j ∧ P t i = some j := by
  rw [ptGet_eq] at hp
  cases hg : getL pt l with
  | none => simp [hg] at hp
  | some o =>
    have hv := getL_valid _ l o hg
    rw [L.hshape] at hv
    obtain ⟨e1, _⟩ := toLocus_fromLocus _ l hv
    have := L.hpg (fromLocus ((splitOn brk ss).map List.length) l)
    rw [e1, ptGet_eq, hp] at this
    cases hpi : P t (fromLocus ((splitOn brk ss).map List.length) l) with
    | none => simp [hpi] at this
    | some j =>
      simp [hpi] at this
      exact ⟨_, j, e1.symm, this, hpi⟩

theorem Lin.char_cases {ss brk pt W t} (L : Lin ss brk pt W t) (l : Locus) (c : Char)
    (hc : chAt (splitOn brk ss) l = some c) : c = '(' ∨ c = ')' ∨ c = '.' := by
  obtain ⟨i, _, hi⟩ := L.locus_of_char l c hc
  obtain ⟨y, _, hy⟩ := L.sym_of_char i c hi
  cases y with
  | op => exact Or.inl (toSym_op c hy)
  | cl => exact Or.inr (Or.inl (toSym_cl c hy))
  | dot => exact Or.inr (Or.inr (toSym_dot c hy))

/-! ### the claims -/

/-- the table has the strand shape of the string -/
theorem mpt_shape (ss : List Char) (brk : Char) (pt : PairTable) (h : makePairTable ss brk = .ok pt) :
    pt.map List.length = (splitOn brk ss).map List.length := by
  obtain ⟨W, t, L⟩ := mpt_lin ss brk pt h
  exact L.hshape

/-- accepted exactly when well-formed; the only other outcome is SecondaryStructureError -/
theorem mpt_rejects_iff (ss : List Char) (brk : Char) :
    makePairTable ss brk = .error .secondaryStructure ↔ ¬ WellFormed ss brk := by
  unfold WellFormed
  cases hm : (splitOn brk ss).mapM (fun s => s.mapM toSym) with
  | none => simp [makePairTable, hm]
  | some syms =>
    cases ht : matchW syms.flatten with
    | none =>
      have : ¬ bal 0 syms.flatten = true := by rw [← matchW_complete, ht]; simp
      simp [makePairTable, hm, ht, this]
    | some t =>
      have : bal 0 syms.flatten = true := by rw [← matchW_complete, ht]; simp
      simp [makePairTable, hm, ht, this]

theorem mpt_accepts_iff (ss : List Char) (brk : Char) :
    (∃ pt, makePairTable ss brk = .ok pt) ↔ WellFormed ss brk := by
  unfold WellFormed
  cases hm : (splitOn brk ss).mapM (fun s => s.mapM toSym) with
  | none => simp [makePairTable, hm]
  | some syms =>
    cases ht : matchW syms.flatten with
    | none =>
      have : ¬ bal 0 syms.flatten = true := by rw [← matchW_complete, ht]; simp
      simp [makePairTable, hm, ht, this]
    | some t =>
      have : bal 0 syms.flatten = true := by rw [← matchW_complete, ht]; simp
      simp [makePairTable, hm, ht, this]

/-- the pairing is a symmetric, fixed-point-free, properly nested involution matching the brackets -/
theorem mpt_involution_nested (ss : List Char) (brk : Char) (pt : PairTable) (h : makePairTable ss brk = .ok pt) :
    (∀ l c, chAt (splitOn brk ss) l = some c →
      (c = '.' → ptGet pt l = none) ∧
      (c = '(' → ∃ l', ptGet pt l = some l' ∧ Locus.lt l l' = true ∧ ptGet pt l' = some l ∧ chAt (splitOn brk ss) l' = some ')') ∧
      (c = ')' → ∃ l', ptGet pt l = some l' ∧ Locus.lt l' l = true ∧ ptGet pt l' = some l ∧ chAt (splitOn brk ss) l' = some '(')) ∧
    (∀ l l', ptGet pt l = some l' → l ≠ l' ∧ ptGet pt l' = some l ∧ (chAt (splitOn brk ss) l).isSome) ∧
    (∀ a b c d, ptGet pt a = some b → ptGet pt c = some d →
      Locus.lt a c = true → Locus.lt c b = true → Locus.lt b d = true → False) := by
  obtain ⟨W, t, L⟩ := mpt_lin ss brk pt h
  refine ⟨?_, ?_, ?_⟩
  · intro l c hc
    obtain ⟨i, rfl, hi⟩ := L.locus_of_char l c hc
    obtain ⟨y, hy, hcy⟩ := L.sym_of_char i c hi
    refine ⟨?_, ?_, ?_⟩
    · intro e; subst e
      have : y = .dot := by simpa [toSym] using hcy.symm
      subst this
      rw [L.hpg i, L.hM.dot i hy]; rfl
    · intro e; subst e
      have : y = .op := by simpa [toSym] using hcy.symm
      subst this
      obtain ⟨j, hj1, hj2, hj3, hj4⟩ := L.hM.op i hy
      obtain ⟨c', h1, h2⟩ := L.char_of_sym j .cl hj4
      have := toSym_cl c' h2; subst this
      refine ⟨toLocus _ j, ?_, (toLocus_lt _ i j).mpr hj1, ?_, ?_⟩
      · rw [L.hpg i, hj2]; rfl
      · rw [L.hpg j, hj3]; rfl
      · rw [L.hch j]; exact h1
    · intro e; subst e
      have : y = .cl := by simpa [toSym] using hcy.symm
      subst this
      obtain ⟨j, hj1, hj2, hj3, hj4⟩ := L.hM.cl i hy
      obtain ⟨c', h1, h2⟩ := L.char_of_sym j .op hj4
      have := toSym_op c' h2; subst this
      refine ⟨toLocus _ j, ?_, (toLocus_lt _ j i).mpr hj1, ?_, ?_⟩
      · rw [L.hpg i, hj2]; rfl
      · rw [L.hpg j, hj3]; rfl
      · rw [L.hch j]; exact h1
  · intro l l' hp
    obtain ⟨i, j, rfl, rfl, hij⟩ := L.pair_of_ptGet l l' hp
    obtain ⟨h1, h2, h3, h4⟩ := L.hM.pair i j hij
    refine ⟨fun e => h3 (toLocus_inj _ i j e), ?_, ?_⟩
    · rw [L.hpg j, h4]; rfl
    · obtain ⟨c, hc, _⟩ := L.char_of_sym i W[i] (List.getElem?_eq_getElem h1)
      rw [L.hch i, hc]; rfl
  · intro a b c d hab hcd h1 h2 h3
    obtain ⟨i, j, rfl, rfl, hij⟩ := L.pair_of_ptGet a b hab
    obtain ⟨k, m, rfl, rfl, hkm⟩ := L.pair_of_ptGet c d hcd
    rw [toLocus_lt] at h1 h2 h3
    exact L.hM.nocross i j k m hij hkm h1 h2 h3

/-! ### rendering -/

/-- the character `pair_table_to_dot_bracket` writes for the entry `o` at locus `l` -/
def render (l : Locus) (o : Option Locus) : Char :=
  match o with
  | none => '.'
  | some pr => if Locus.lt l pr then '(' else ')'

def rend (p : List (Option Locus) × Nat) : List Char :=
  p.1.zipIdx.map (fun (q : Option Locus × Nat) => render (p.2, q.2) q.1)

def dbStep (brk : Char) (out : List Char) (p : List (Option Locus) × Nat) : List Char :=
  (if out.isEmpty then out else out ++ [brk]) ++ rend p

theorem ptToDb_eq (pt : PairTable) (brk : Char) : ptToDb pt brk = pt.zipIdx.foldl (dbStep brk) [] := rfl

theorem foldl_dbStep_ne (brk : Char) (rows : List (List (Option Locus) × Nat)) (out : List Char)
    (h : out ≠ []) :
    rows.foldl (dbStep brk) out = out ++ (rows.map (fun p => brk :: rend p)).flatten := by
  induction rows generalizing out with
  | nil => simp
  | cons p ps ih =>
    have e : dbStep brk out p = out ++ brk :: rend p := by
      cases out with
      | nil => exact absurd rfl h
      | cons a as => simp [dbStep]
    simp only [List.foldl_cons, e]
    rw [ih _ (by simp [h])]
    simp

theorem ptToDb_joinWith (pt : PairTable) (brk : Char) (h : ∀ r ∈ pt.head?, r ≠ []) :
    ptToDb pt brk = joinWith brk (pt.zipIdx.map rend) := by
  rw [ptToDb_eq]
  cases pt with
  | nil => rfl
  | cons r rs =>
    have hr : r ≠ [] := h r (by simp)
    simp only [List.zipIdx_cons, List.foldl_cons, List.map_cons]
    have e : dbStep brk [] (r, 0) = rend (r, 0) := by simp [dbStep]
    have hne : rend (r, 0) ≠ [] := by
      cases r with
      | nil => exact absurd rfl hr
      | cons a as => simp [rend]
    rw [e, foldl_dbStep_ne _ _ _ hne, joinWith_cons, List.map_map]
    rfl

theorem getL_rend (pt : PairTable) (l : Locus) :
    getL (pt.zipIdx.map rend) l = (getL pt l).map (render l) := by
  obtain ⟨s, k⟩ := l
  simp only [getL, List.getElem?_map, List.getElem?_zipIdx]
  cases pt[s]? with
  | none => simp
  | some r =>
    simp only [Option.map_some, Option.bind_some, rend, List.getElem?_map, List.getElem?_zipIdx, Nat.zero_add]
    cases r[k]? with
    | none => simp
    | some o => simp

/-- `pair_table_to_dot_bracket` returns exactly the original string (non-empty strands, any break character) -/
theorem db_of_mpt (ss : List Char) (brk : Char) (pt : PairTable) (h : makePairTable ss brk = .ok pt)
    (hne : ∀ s ∈ splitOn brk ss, s ≠ []) : ptToDb pt brk = ss := by
  obtain ⟨W, t, L⟩ := mpt_lin ss brk pt h
  have hinv := (mpt_involution_nested ss brk pt h).1
  have hlen : pt.length = (splitOn brk ss).length := by
    have := congrArg List.length L.hshape; simpa using this
  have hhead : ∀ r ∈ pt.head?, r ≠ [] := by
    intro r hr e
    subst e
    cases hpt : pt with
    | nil => simp [hpt] at hr
    | cons r' rs =>
      simp [hpt] at hr
      subst hr
      cases hsp : splitOn brk ss with
      | nil => exact splitOn_ne_nil _ _ hsp
      | cons s rest =>
        have := L.hshape
        rw [hpt, hsp] at this
        simp at this
        exact hne s (by simp [hsp]) (List.length_eq_zero_iff.mp this.1.symm)
  rw [ptToDb_joinWith pt brk hhead]
  have key : pt.zipIdx.map rend = splitOn brk ss := by
    apply ext_getL
    · simpa using hlen
    · intro l
      rw [getL_rend]
      cases hc : getL (splitOn brk ss) l with
      | none =>
        cases hp : getL pt l with
        | none => rfl
        | some o =>
          have hv := getL_valid _ l o hp
          rw [L.hshape] at hv
          obtain ⟨c, hc'⟩ := getL_of_valid _ l hv
          rw [hc] at hc'; simp at hc'
      | some c =>
        have hv := getL_valid _ l c hc
        rw [← L.hshape] at hv
        obtain ⟨o, ho⟩ := getL_of_valid _ l hv
        have hpg : ptGet pt l = o := by rw [ptGet_eq, ho]; rfl
        obtain ⟨h1, h2, h3⟩ := hinv l c hc
        rw [ho]
        simp only [Option.map_some, Option.some.injEq]
        rcases L.char_cases l c hc with e | e | e
        · obtain ⟨l', p1, p2, _, _⟩ := h2 e
          rw [hpg] at p1
          cases o with
          | none => simp at p1
          | some pr => simp at p1; subst p1; subst e; simp [render, p2]
        · obtain ⟨l', p1, p2, _, _⟩ := h3 e
          rw [hpg] at p1
          cases o with
          | none => simp at p1
          | some pr =>
            simp at p1; subst p1; subst e
            simp [render, Locus.lt_asymm _ _ p2]
        · have p1 := h1 e
          rw [hpg] at p1
          cases o with
          | none => subst e; rfl
          | some pr => simp at p1
  rw [key, joinWith_splitOn]

/-- `make_strand_table` / `strand_table_to_sequence(join=True)` on strings are mutually inverse -/
theorem strand_table_roundtrip_str (brk : Char) (seq : List Char) :
    strandTableToSequenceStr brk (makeStrandTableStr brk seq) = seq :=
  joinWith_splitOn brk seq

theorem sequence_roundtrip_str (brk : Char) (st : List (List Char)) (hne : st ≠ [])
    (hb : ∀ s ∈ st, brk ∉ s) : makeStrandTableStr brk (strandTableToSequenceStr brk st) = st :=
  splitOn_joinWith brk st hne hb

/-- list flavour (`groupby` drops empty strands, `reduce` needs a non-empty table): exact for non-empty strands -/
theorem strand_table_roundtrip_list (brk : String) (seq : List String)
    (hne : ∀ s ∈ splitOn brk seq, s ≠ []) :
    strandTableToSequence brk (makeStrandTableList brk seq) = .ok seq := by
  have hf : makeStrandTableList brk seq = splitOn brk seq := by
    unfold makeStrandTableList
    rw [List.filter_eq_self]
    intro s hs
    have := hne s hs
    cases s with
    | nil => exact absurd rfl this
    | cons _ _ => rfl
  rw [hf]
  unfold strandTableToSequence
  split
  · rename_i e; exact absurd e (splitOn_ne_nil _ _)
  · rw [joinWith_splitOn]

theorem sequence_roundtrip_list (brk : String) (st : List (List String)) (hne : st ≠ [])
    (hs : ∀ s ∈ st, s ≠ [] ∧ brk ∉ s) :
    (strandTableToSequence brk st).toOption.map (makeStrandTableList brk) = some st := by
  have e : strandTableToSequence brk st = .ok (joinWith brk st) := by
    unfold strandTableToSequence
    split
    · exact absurd rfl hne
    · rfl
  rw [e]
  simp only [Except.toOption, Option.map_some, Option.some.injEq]
  unfold makeStrandTableList
  rw [splitOn_joinWith brk st hne (fun s h => (hs s h).2), List.filter_eq_self]
  intro s h
  have := (hs s h).1
  cases s with
  | nil => exact absurd rfl this
  | cons _ _ => rfl

/-- non-vacuity -/
example : (makePairTable "((.+.))+.".toList '+').toOption =
    some [[some (1, 2), some (1, 1), none], [none, some (0, 1), some (0, 0)], [none]] := by decide

end Dsd.C06
