/-
C09, object level: `split()` on a live complex in a well-formed world.

World invariant: `RdL.WOK w` (nodes / registries / containment) and `SplitObj.CplxStateOK w` (every class registry
of complexes is well formed, every live complex has a state entry whose sequence and structure are an aligned,
balanced, non-empty-stranded rotation of its canonical form, with coherent caches); `Inv` below adds
`SplitObj.ChildNamesOK w` (the names in the state are the names of the node's children) and is shown to be preserved
by `mkDom`, `mkCplx`, `mkCplxByNames`, `splitC`, `setTurns`, `queryC`, `collect`, `drop`; `Ex` has concrete worlds.

For every connected component `split()` makes an unnamed request.  Its outcome (`SplitObj.request_out`):
* a live complex of the component's rotation class exists → that object is returned — unless the automatic name
  the class would use next is the name of *another* live complex, in which case `Singleton.__call__` refuses
  without `existing` and `split()` re-raises;
* no such complex → it is created under the automatic name — unless that name is taken, in which case the request
  is refused and `split()` re-raises.
-/
import DsdVerif.Lemmas.SplitObj
import DsdVerif.Lemmas.SplitInv
import DsdVerif.Lemmas.SplitKids

namespace Dsd.C09
open Dsd Dsd.SplitObj Dsd.Bracket

/-- `id` is a live complex of class `c` -/
abbrev LiveCplx (w : World) (c id : Nat) : Prop := RdL.has w .cplx c id

/-! ### 4. a connected complex is returned unchanged … -/

/-- **connected complexes**: `split()` yields the object itself, *provided* the automatic name of its class is
    not the name of another live complex; otherwise the call is refused.
    (The unconditional statement "the output is `[.ret id false]`" is false in the model — and in the code, which
    requests `self.__class__(nseq, nsst)` also for a connected complex — see `connected_self_counterexample`.) -/
theorem splitC_connected_self (w : World) (id c : Nat) (hw : RdL.WOK w) (hs : CplxStateOK w) (hlive : LiveCplx w c id)
    (o : CplxObj) (ho : w.cstate.lookup id = some o) (pt : PairTable) (hpt : makePairTable o.sst = .ok pt)
    (lo : LoopOut) (hconn : makeLoopIndex pt false = .ok lo)
    (cr : ClassReg CKey) (hc : w.cplxs[c]? = some cr) :
    ((∀ on, cr.reg.findName (autoName w c) = some on → on.id = id) → (w.splitC id).2 = [.ret id false]) ∧
    (∀ on, cr.reg.findName (autoName w c) = some on → on.id ≠ id → (w.splitC id).2 = [.singletonErr none]) := by
  obtain ⟨o', nd, cr', ob, pt', parts, ho', _, _, _, hc', hob, hid, he, hpt', hsp, hpok, hg⟩ :=
    splitC_run w id c hw hs hlive
  rw [ho] at ho'; cases ho'
  rw [hc] at hc'; cases hc'
  rw [hpt] at hpt'; cases hpt'
  -- the split of a connected complex is the complex
  obtain ⟨pt', hpt', hne, hshape⟩ := descr_pt o.seq o.sst he.descr
  rw [hpt] at hpt'; cases hpt'
  have hlen : (makeStrandTableList "+" o.seq).length = pt.length := by
    rw [stab_eq o.seq he.descr.nonempty]
    have := congrArg List.length hshape; simpa using this.symm
  have hptne : pt ≠ [] := by
    intro e
    rw [e, stab_eq o.seq he.descr.nonempty] at hlen
    exact splitOn_ne_nil "+" o.seq (List.length_eq_zero_iff.mp hlen)
  have hparts := C09.split_connected_id o.sst '+' pt (makeStrandTableList "+" o.seq) hpt hlen hptne lo hconn
  rw [hsp] at hparts
  have hparts := Except.ok.inj hparts
  subst hparts
  have hstne : makeStrandTableList "+" o.seq ≠ [] := by
    intro e; rw [e] at hlen; exact hptne (List.length_eq_zero_iff.mp hlen.symm)
  have e1 : pnames (makeStrandTableList "+" o.seq, pt) = o.seq := by
    have h1 := C06.strand_table_roundtrip_list "+" o.seq he.descr.nonempty
    rw [sts_ok _ hstne] at h1
    exact Except.ok.inj h1
  have e2 : psst (makeStrandTableList "+" o.seq, pt) = o.sst := C06.db_of_mpt o.sst '+' pt hpt hne
  have hk := canon_of_entry cr.reg (hs.regs c cr hc) ob hob o he
  have hwf := (hs.regs c cr hc).wf
  have same : ∀ ob' ∈ cr.reg.objs, ob'.canon = ob.canon → ob' = ob := by
    intro ob' hob' hcan
    exact (C01.wf_unique _ hwf ob' ob hob' hob).2.1
      ⟨ob'.canon, hwf.canon ob' hob', by rw [hcan]; exact hwf.canon ob hob⟩
  generalize w.splitC id = res at hg
  cases hg with
  | old p ps w0 acc res0 cr0 ob' k _ _ hc0 hk0 hob0 hcan0 hn0 hrest =>
    rw [hc] at hc0; cases hc0
    rw [e1, e2, hk] at hk0
    have hkk := Option.some.inj hk0
    have := same ob' hob0 (by rw [hcan0, hkk])
    subst this
    cases hrest
    refine ⟨fun _ => by rw [hid]; rfl, ?_⟩
    intro on hon hne'
    rcases hn0 with h | h
    · rw [h] at hon; cases hon
    · rw [h] at hon; cases hon; exact absurd hid hne'
  | new p ps w0 acc res0 cr0 ids k _ _ hc0 hk0 hno hn0 hrest =>
    rw [hc] at hc0; cases hc0
    rw [e1, e2, hk] at hk0
    exact absurd (Option.some.inj hk0) (hno ob hob)
  | abort p ps w0 acc cr0 on k _ _ hc0 hk0 hn0 hne0 =>
    rw [hc] at hc0; cases hc0
    rw [e1, e2, hk] at hk0
    have hkk := Option.some.inj hk0
    refine ⟨?_, fun _ _ _ => rfl⟩
    intro hall
    exfalso
    have hon := (Reg.findName_some _ _ on hn0).1
    have := (C01.wf_unique _ hwf on ob hon hob).2.2 (by rw [hall on hn0, hid])
    exact hne0 (by rw [this, hkk])

/-! ### 1. no faults -/

/-- **`split()` never faults**: every output is a returned handle, or the call ends with exactly one
    `SingletonError` without `existing` -/
theorem splitC_no_fault (w : World) (id c : Nat) (hw : RdL.WOK w) (hs : CplxStateOK w) (hlive : LiveCplx w c id) :
    (∀ out ∈ (w.splitC id).2, ∃ h b, out = .ret h b) ∨ (w.splitC id).2 = [.singletonErr none] := by
  obtain ⟨_, _, _, _, _, _, _, _, _, _, _, _, _, _, _, _, _, hg⟩ := splitC_run w id c hw hs hlive
  exact goRes_cases hg (by simp)

theorem splitC_no_fault' (w : World) (id c : Nat) (hw : RdL.WOK w) (hs : CplxStateOK w) (hlive : LiveCplx w c id) :
    (∀ k, .fault k ∉ (w.splitC id).2) ∧ .ssErr ∉ (w.splitC id).2 := by
  rcases splitC_no_fault w id c hw hs hlive with h | h
  · refine ⟨fun k hk => ?_, fun hk => ?_⟩
    · obtain ⟨_, _, e⟩ := h _ hk; cases e
    · obtain ⟨_, _, e⟩ := h _ hk; cases e
  · rw [h]; simp

/-! ### 2. one object per component -/

/-- **components**: when no request is refused there is one output per part of `splitPt` (by `split_spec`: one per
    connected component, in order); the handle returned for a part is a live complex of the class whose canonical
    form — in the registry and in its state — is the canonical form `ComplexS.identifiers` computes for the part's
    `(names, dot-bracket)`: the singleton of that component's rotation class.  If a complex of that class was live
    before the call, the handle is that object and it is not new. -/
theorem splitC_components (w : World) (id c : Nat) (hw : RdL.WOK w) (hs : CplxStateOK w) (hlive : LiveCplx w c id)
    (hall : ∀ out ∈ (w.splitC id).2, ∃ h b, out = .ret h b) :
    ∃ (o : CplxObj) (pt : PairTable) (parts : List (List (List String) × PairTable)),
      w.cstate.lookup id = some o ∧ makePairTable o.sst = .ok pt ∧
      splitPt (pt.length + 1) (makeStrandTableList "+" o.seq) pt = .ok parts ∧
      (w.splitC id).2.length = parts.length ∧
      ∀ (k : Nat) (part : List (List String) × PairTable), parts[k]? = some part →
        ∃ (h : Nat) (b : Bool) (o' : CplxObj) (ids : CplxIds) (cr' : ClassReg CKey) (ob' : Obj CKey),
          (w.splitC id).2[k]? = some (.ret h b) ∧
          complexIdentifiers {} (joinWith "+" part.1) (ptToDb part.2) = .ok ids ∧
          (w.splitC id).1.cstate.lookup h = some o' ∧ o'.canon = ids.canon ∧
          (w.splitC id).1.cplxs[c]? = some cr' ∧ ob' ∈ cr'.reg.objs ∧ ob'.id = h ∧ ob'.canon = ids.canon ∧
          (∀ (cr : ClassReg CKey) (ob : Obj CKey), w.cplxs[c]? = some cr → ob ∈ cr.reg.objs → ob.canon = ids.canon →
            h = ob.id ∧ b = false) := by
  obtain ⟨o, nd, cr, ob, pt, parts, ho, _, _, _, hc, hob, hid, he, hpt, hsp, hpok, hg⟩ := splitC_run w id c hw hs hlive
  obtain ⟨rets, e1, _, _, _, hall2⟩ := goRes_ok hg hall
  simp only [List.nil_append] at e1
  refine ⟨o, pt, parts, ho, hpt, hsp, by rw [e1]; exact hall2.length.symm, ?_⟩
  intro k part hk
  obtain ⟨out, hout, h, b, o', kk, cr', ob', a1, a2, a3, a4, a5, a6, a7, a8, a9⟩ := hall2.get k part hk
  obtain ⟨ids, hids, hmin⟩ := pure_ids (pnames part) (psst part) (hpok part (List.mem_of_getElem? hk)).descr
  have hkk : kk = ids.canon := by
    unfold canonOf at a2; rw [hmin] at a2; exact (Option.some.inj a2).symm
  subst hkk
  exact ⟨h, b, o', ids, cr', ob', by rw [e1, hout, a1], hids, a3, a4, a5, a6, a7, a8, a9⟩

/-! ### 3. splitting twice -/

/-- **splitting twice yields identical objects** — provided the automatic name the class would use *after* the
    first call is free.  (Without that proviso the second call may be refused: the first call checks the
    automatic name only against the names in use at that time, see `twice_counterexample`.)
    The second call returns the same handles, none of them new, and leaves the live objects unchanged. -/
theorem splitC_twice (w : World) (id c : Nat) (hw : RdL.WOK w) (hs : CplxStateOK w) (hlive : LiveCplx w c id)
    (w1 : World) (outs : List Out) (h1 : w.splitC id = (w1, outs)) (hall : ∀ out ∈ outs, ∃ h b, out = .ret h b)
    (cr1 : ClassReg CKey) (hc1 : w1.cplxs[c]? = some cr1) (hfree : cr1.reg.findName (autoName w1 c) = none) :
    ∃ (w2 : World) (outs' : List Out), w1.splitC id = (w2, outs') ∧ outs'.length = outs.length ∧
      (∀ (i h : Nat) (b : Bool), outs[i]? = some (Out.ret h b) → outs'[i]? = some (Out.ret h false)) ∧ SameLive w1 w2 := by
  obtain ⟨o, nd, cr, ob, pt, parts, ho, _, _, _, hc, hob, hid, he, hpt, hsp, hpok, hg⟩ := splitC_run w id c hw hs hlive
  rw [h1] at hg
  obtain ⟨rets, e1, hext, hw1, hs1, hall2⟩ := goRes_ok hg hall
  simp only [List.nil_append] at e1
  subst e1
  -- the complex is still live, with the same state
  obtain ⟨cr1', hc1', hsub⟩ := hext.objs cr hc
  rw [hc1] at hc1'; cases hc1'
  have hlive1 : LiveCplx w1 c id := ⟨cr1, hc1, ob, hsub ob hob, hid⟩
  obtain ⟨o1, nd1, cr1', ob1, pt1, parts1, ho1, _, _, _, hc1', _, _, _, hpt1, hsp1, _, hg1⟩ :=
    splitC_run w1 id c hw1 hs1 hlive1
  rw [hext.state id o ho] at ho1; cases ho1
  rw [hpt] at hpt1; cases hpt1
  rw [hsp] at hsp1; cases hsp1
  have hwf1 := (hs1.regs c cr1 hc1).wf
  obtain ⟨rets', f1, f2, f3⟩ := goRes_repeat hg1 cr1.reg.objs ⟨cr1, hc1, rfl⟩
    (Reg.findName_none _ _ hfree)
    (by
      intro p hp
      obtain ⟨k, hk⟩ := List.mem_iff_getElem?.mp hp
      obtain ⟨out, _, h, b, o', kk, cr', ob', _, a2, _, _, a5, a6, _, a8, _⟩ := hall2.get k p hk
      rw [hc1] at a5; cases a5
      exact ⟨ob', a6, by rw [a2, a8]⟩)
  simp only [List.nil_append] at f1
  refine ⟨(w1.splitC id).1, (w1.splitC id).2, rfl, by rw [f1, ← f3.length, hall2.length], ?_, f2⟩
  intro i h b hi
  have hil : i < parts.length := by
    rw [hall2.length]; exact (List.getElem?_eq_some_iff.mp hi).1
  obtain ⟨out, hout, h', b', o', kk, cr', ob', a1, a2, _, _, a5, a6, a7, a8, _⟩ :=
    hall2.get i parts[i] (List.getElem?_eq_getElem hil)
  rw [hi] at hout; cases hout; cases a1
  rw [hc1] at a5; cases a5
  obtain ⟨out', hout', ob'', hob'', hcan'', rfl⟩ := f3.get i parts[i] (List.getElem?_eq_getElem hil)
  rw [a2] at hcan''
  have hkk := Option.some.inj hcan''
  have : ob'' = ob' := (C01.wf_unique _ hwf1 ob'' ob' hob'' a6).2.1
    ⟨ob''.canon, hwf1.canon ob'' hob'', by rw [← hkk, ← a8]; exact hwf1.canon ob' a6⟩
  rw [f1, hout', this, a7]

/-! ### 5. the reason of a refusal -/

/-- **refusal**: when the call ends with `SingletonError` there is a component (canonical form `k`) for which the
    automatic name the class would use at that moment is the name of a live complex `on` of that class with a
    *different* canonical form (the moment: a world `wk` that extends `w` by the components created so far).
    Afterwards exactly the handles held before are held (the list under construction is released) and every node is
    reachable from a handle. -/
theorem splitC_refusal_reason (w : World) (id c : Nat) (hw : RdL.WOK w) (hs : CplxStateOK w) (hlive : LiveCplx w c id)
    (w' : World) (h : w.splitC id = (w', [.singletonErr none])) :
    (∃ (o : CplxObj) (pt : PairTable) (parts : List (List (List String) × PairTable))
       (part : List (List String) × PairTable) (wk : World) (cr : ClassReg CKey) (on : Obj CKey) (k : CKey),
      w.cstate.lookup id = some o ∧ makePairTable o.sst = .ok pt ∧
      splitPt (pt.length + 1) (makeStrandTableList "+" o.seq) pt = .ok parts ∧ part ∈ parts ∧
      Ext c w wk ∧ RdL.WOK wk ∧ CplxStateOK wk ∧ wk.cplxs[c]? = some cr ∧
      canonOf (joinWith "+" part.1) (ptToDb part.2) = some k ∧
      on ∈ cr.reg.objs ∧ on.name = autoName wk c ∧ on.canon ≠ k) ∧
    (∀ x, x ∈ w'.held ↔ x ∈ w.held) ∧ (∀ n ∈ w'.nodes, n.id ∈ w'.reachable) := by
  obtain ⟨o, nd, cr, ob, pt, parts, ho, _, _, _, hc, hob, hid, he, hpt, hsp, hpok, hg⟩ := splitC_run w id c hw hs hlive
  rw [h] at hg
  obtain ⟨wk, crk, on, p, k, a1, a2, a3, a4, a5, a6, a7, a8, a9⟩ := goRes_abort hg (by simp) rfl
  obtain ⟨b1, b2⟩ := Reg.findName_some _ _ on a7
  simp only at a9
  refine ⟨⟨o, pt, parts, p, wk, crk, on, k, ho, hpt, hsp, a2, a1, a3, a4, a5, a6, b1, b2, a8⟩, ?_, ?_⟩
  · intro x
    rw [a9]
    show x ∈ (wk.held.filter (fun h => w.held.contains h)) ↔ x ∈ w.held
    simp only [List.mem_filter, List.contains_eq_mem, decide_eq_true_eq]
    exact ⟨fun hx => hx.2, fun hx => ⟨a1.held x hx, hx⟩⟩
  · rw [a9]
    exact WorldL.collect_nodes_reachable _

/-! ### the invariant: preservation -/

/-- the world invariant of this file: nodes / registries / containment (`RdL.WOK`); every live complex has a state
    that is a well-formed rotation of its canonical form, with coherent caches (`CplxStateOK`); the names in that
    state are the names of the domain objects its node contains (`ChildNamesOK`) -/
structure Inv (w : World) : Prop where
  wok : RdL.WOK w
  cso : CplxStateOK w
  kids : ChildNamesOK w

theorem cplxs_empty (c : Nat) (cr : ClassReg CKey) (h : ({} : World).cplxs[c]? = some cr) : cr.reg.objs = [] := by
  have := List.mem_of_getElem? h
  simp only [List.mem_cons, List.not_mem_nil, or_false] at this
  rcases this with rfl | rfl | rfl | rfl <;> rfl

theorem cso_empty : CplxStateOK ({} : World) := by
  refine ⟨?_, ?_, ?_⟩
  · intro c cr h
    have e := cplxs_empty c cr h
    refine ⟨⟨?_, ?_, ?_, ?_⟩, ?_, ?_⟩ <;> first | (rw [e]; exact List.Pairwise.nil) | (intro o ho; rw [e] at ho; cases ho)
  · intro c cr ob h hob
    rw [cplxs_empty c cr h] at hob; cases hob
  · intro p hp; cases hp

theorem inv_empty : Inv ({} : World) :=
  ⟨RdL.wok_empty, cso_empty, fun c _ _ _ ⟨cr, hc, ob, hob, _⟩ => by rw [cplxs_empty c cr hc] at hob; cases hob⟩

theorem inv_mkDom (w : World) (h : Inv w) (c : Nat) (cr : ClassReg DKey) (hc : w.doms[c]? = some cr) (n : String)
    (hn : n ≠ "") (len : Option Nat) : Inv (w.mkDom c { name := some n, length := len }).1 :=
  ⟨(RdL.mkDom_grow w c cr hc n hn len).1.wok h.1 (fun _ hch => by cases hch) (fun e => by cases e),
    cso_mkDom w h.2 c _, childNames_mkDom w h.1 h.3 c cr hc n hn len⟩

/-- a named `ComplexS(sequence, structure, name)` request with a well-formed description -/
theorem inv_mkCplx (w : World) (h : Inv w) (c : Nat) (cr : ClassReg CKey) (hc : w.cplxs[c]? = some cr)
    (seq : Option (List (Option Nat))) (sst : List Char) (n : String)
    (hd : ∀ s, seq = some s → C02.Descr ((w.seqNames s).getD []) sst)
    (hch : ∀ ch ∈ (seq.getD []).filterMap id, RdL.HasNode w ch) : Inv (w.mkCplx c seq sst (some n) none).1 :=
  ⟨(SplitObj.inv_mkCplx w c cr h.1 h.2 hc seq sst n hd hch).1, (SplitObj.inv_mkCplx w c cr h.1 h.2 hc seq sst n hd hch).2,
    childNames_mkCplx w c cr h.1 h.2 h.3 hc seq sst n hd⟩

/-- **`split()` preserves the invariant** (also when it is refused and the new components are released); in
    particular every component it creates contains exactly the parent's domains that carry one of its names -/
theorem inv_splitC (w : World) (h : Inv w) (id c : Nat) (hlive : LiveCplx w c id) : Inv (w.splitC id).1 :=
  ⟨(SplitObj.inv_splitC w id c h.1 h.2 hlive).1, (SplitObj.inv_splitC w id c h.1 h.2 hlive).2,
    childNames_splitC w id c h.1 h.2 h.3 hlive⟩

/-- the unnamed request `split()` makes for a component of a complex whose children are `pch` -/
theorem inv_mkCplxByNames (w : World) (h : Inv w) (c : Nat) (cr : ClassReg CKey) (hc : w.cplxs[c]? = some cr)
    (names : List String) (sst : List Char) (pch : List Nat) (hd : C02.Descr names sst)
    (hch : ∀ ch ∈ pch, RdL.HasNode w ch) (hpar : ∀ x ∈ names, x ≠ "+" → ∃ ch ∈ pch, DomNamed w ch x) :
    Inv (w.mkCplxByNames c names sst pch).1 :=
  ⟨(SplitObj.inv_mkCplxByNames w c cr h.1 h.2 hc names sst pch hd hch).1,
    (SplitObj.inv_mkCplxByNames w c cr h.1 h.2 hc names sst pch hd hch).2,
    childNames_mkCplxByNames w c cr h.1 h.2 h.3 hc names sst pch hd hpar⟩

theorem inv_setTurns (w : World) (h : Inv w) (id : Nat) (v : Int) : Inv (w.setTurns id v).1 :=
  ⟨(SplitObj.inv_setTurns w id v h.1 h.2).1, (SplitObj.inv_setTurns w id v h.1 h.2).2,
    childNames_setTurns w id v h.2 h.3⟩

theorem inv_queryC (w : World) (h : Inv w) (id : Nat) (v : View) : Inv (w.queryC id v).1 :=
  ⟨(SplitObj.inv_queryC w id v h.1 h.2).1, (SplitObj.inv_queryC w id v h.1 h.2).2, childNames_queryC w id v h.2 h.3⟩

theorem inv_collect (w : World) (h : Inv w) : Inv w.collect :=
  ⟨RdL.wok_collect w h.1, cso_collect w h.2, childNames_collect w h.1 h.3⟩

theorem inv_drop (w : World) (h : Inv w) (id : Nat) : Inv (w.drop id) :=
  ⟨RdL.wok_collect _ (RdL.wok_held w h.1 _), cso_drop w h.2 id,
    childNames_collect _ (RdL.wok_held w h.1 _) (childNames_held w h.3 _)⟩

/-- what the invariant says about a live complex (claims 1–5 above use the first two parts only) -/
theorem Inv.live_state (w : World) (h : Inv w) (c id : Nat) (hlive : LiveCplx w c id) :
    ∃ (o : CplxObj) (nd : Node), w.cstate.lookup id = some o ∧ nd ∈ w.nodes ∧ nd.id = id ∧ C02.Descr o.seq o.sst ∧
      KidsOK w nd.children o.seq := by
  obtain ⟨o, nd, _, _, _, _, ho, hnd, hmem, _, _, _, _, he, _⟩ := splitC_run w id c h.1 h.2 hlive
  have hndid : nd.id = id := by
    unfold World.node at hnd
    simpa using List.find?_some hnd
  exact ⟨o, nd, ho, hmem, hndid, he.descr, h.3 c id nd o hlive hmem hndid ho⟩

/-! ### examples: the invariant is inhabited, the provisos are needed -/

/-- a decidable criterion for a well-formed description -/
theorem descr_of_check (seq : List String) (sst : List Char)
    (h1 : (splitOn "+" seq).map List.length = (splitOn '+' sst).map List.length)
    (h2 : (matchW (C07.word sst)).isSome = true)
    (h3 : sst.all (fun c => c == '(' || (c == ')' || (c == '.' || c == '+'))) = true)
    (h4 : (splitOn "+" seq).all (fun s => !s.isEmpty) = true) : C02.Descr seq sst := by
  refine ⟨aligned_of_lengths "+" '+' seq sst h1, Option.isSome_iff_exists.mp h2, ?_, ?_⟩
  · intro c hc
    have := List.all_eq_true.mp h3 c hc
    simpa using this
  · intro s hs e
    have := List.all_eq_true.mp h4 s hs
    rw [e] at this
    simp at this

theorem hasNodes_check (w : World) (l : List Nat) (h : l.all (fun i => (w.node i).isSome) = true) :
    ∀ ch ∈ l, RdL.HasNode w ch := by
  intro ch hch
  have := List.all_eq_true.mp h ch hch
  obtain ⟨n, hn⟩ := Option.isSome_iff_exists.mp this
  unfold World.node at hn
  exact ⟨n, List.mem_of_find?_eq_some hn, by simpa using List.find?_some hn⟩

theorem live_check (w : World) (c id : Nat)
    (h : ((w.cplxs[c]?).bind (fun cr => cr.reg.findId id)).isSome = true) : LiveCplx w c id := by
  obtain ⟨ob, hob⟩ := Option.isSome_iff_exists.mp h
  cases hc : w.cplxs[c]? with
  | none => rw [hc] at hob; cases hob
  | some cr =>
    rw [hc] at hob
    simp only [Option.bind_some] at hob
    unfold Reg.findId at hob
    exact ⟨cr, hc, ob, List.mem_of_find?_eq_some hob, by simpa using List.find?_some hob⟩

namespace Ex

/-- two domains `a` (handle 0) and `b` (handle 1) -/
def wD : World :=
  ((({} : World).mkDom 0 { name := some "a", length := some 5 }).1.mkDom 0 { name := some "b", length := some 5 }).1

theorem inv_wD : Inv wD :=
  inv_mkDom _ (inv_mkDom _ inv_empty 0 _ rfl "a" (by decide) _) 0 _ rfl "b" (by decide) _

/-- `x = a + b` (two strands, no pair; handle 2) -/
def wS : World := (wD.mkCplx 0 (some [some 0, none, some 1]) ['.', '+', '.'] (some "x") none).1

theorem inv_wS : Inv wS :=
  inv_mkCplx wD inv_wD 0 _ rfl _ _ "x"
    (fun s e => by cases e; exact descr_of_check _ _ (by decide) (by decide) (by decide) (by decide))
    (hasNodes_check wD _ (by decide))

/-- **the invariant is inhabited and `split()` does something**: the two strands of `x` become the new complexes
    `c1` and `c2` (handles 3 and 4) -/
theorem split_example : Inv wS ∧ LiveCplx wS 0 2 ∧ (wS.splitC 2).2 = [.ret 3 true, .ret 4 true] ∧
    ((wS.splitC 2).1.node 3).map (·.children) = some [0] ∧ ((wS.splitC 2).1.node 4).map (·.children) = some [1] :=
  ⟨inv_wS, live_check wS 0 2 (by decide), by decide, by decide, by decide⟩

/-- … and a second call returns the same two objects -/
theorem split_twice_example : ((wS.splitC 2).1.splitC 2).2 = [.ret 3 false, .ret 4 false] := by decide

/-- `x = a` (one strand; handle 2) and `c1 = b` (handle 3): the automatic name the class would use next, `c1`,
    is taken -/
def wY : World :=
  ((wD.mkCplx 0 (some [some 0]) ['.'] (some "x") none).1.mkCplx 0 (some [some 1]) ['.'] (some "c1") none).1

theorem inv_wY : Inv wY := by
  have h1 : Inv (wD.mkCplx 0 (some [some 0]) ['.'] (some "x") none).1 :=
    inv_mkCplx wD inv_wD 0 _ rfl _ _ "x"
      (fun s e => by cases e; exact descr_of_check _ _ (by decide) (by decide) (by decide) (by decide))
      (hasNodes_check wD _ (by decide))
  exact inv_mkCplx _ h1 0 _ rfl _ _ "c1"
    (fun s e => by cases e; exact descr_of_check _ _ (by decide) (by decide) (by decide) (by decide))
    (hasNodes_check _ _ (by decide))

/-- **claim 4 as first stated is false**: `x` is live and connected in a world satisfying the invariant, and
    `x.split()` is refused (the request `ComplexS(['a'], ['.'])` finds `x` by canonical form and `c1` by name) -/
theorem connected_self_counterexample :
    Inv wY ∧ LiveCplx wY 0 2 ∧
    (∃ o pt lo, wY.cstate.lookup 2 = some o ∧ makePairTable o.sst = .ok pt ∧ makeLoopIndex pt false = .ok lo) ∧
    (wY.splitC 2).2 = [.singletonErr none] ∧ (wY.splitC 2).2 ≠ [.ret 2 false] :=
  ⟨inv_wY, live_check wY 0 2 (by decide), ⟨_, _, _, rfl, rfl, rfl⟩, by decide, by decide⟩

/-- `x = a + b` (handle 2) and `c3 = a b` (one strand, handle 3) -/
def wZ : World :=
  (wS.mkCplx 0 (some [some 0, some 1]) ['.', '.'] (some "c3") none).1

theorem inv_wZ : Inv wZ :=
  inv_mkCplx wS inv_wS 0 _ rfl _ _ "c3"
    (fun s e => by cases e; exact descr_of_check _ _ (by decide) (by decide) (by decide) (by decide))
    (hasNodes_check wS _ (by decide))

/-- **claim 3 as first stated is false**: the first `split()` creates `c1` and `c2`; for the second the automatic name
    is `c3`, the name of another complex, and the call is refused -/
theorem twice_counterexample :
    Inv wZ ∧ LiveCplx wZ 0 2 ∧ (wZ.splitC 2).2 = [.ret 4 true, .ret 5 true] ∧
    ((wZ.splitC 2).1.splitC 2).2 = [.singletonErr none] :=
  ⟨inv_wZ, live_check wZ 0 2 (by decide), by decide, by decide⟩

end Ex

end Dsd.C09
