import DsdVerif.Props.C13Sound
import DsdVerif.Lemmas.PilYieldC
import DsdVerif.Lemmas.PilSize

namespace Dsd.C13
open Dsd Dsd.PP Dsd.Gen

/-! C13, parse soundness for kernel brackets WITHOUT the `#`-freeness hypothesis of `kernel_brackets_balanced`.

The grammar accepts comments inside kernel statements, also inside a loop: `X = a( # ( \n )` is a well-formed
complex (the comment runs to the line end; `White` then matches the line feed inside the empty loop) — so the
parentheses of the consumed text are balanced only when the comments are cut out.  `sig cs`: the SIGNIFICANT
characters of `cs` — every comment, from `#` up to (not including) the next line feed, removed.
`kernel_brackets_balanced_sig`: for every `kernel-complex` line of an accepted text, the significant characters of
the text its statement consumed have balanced parentheses.  (Lemmas/PilYieldC.lean: comment-aware accounting.) -/

/-- remove the comments: `b` — inside a comment -/
def sigAux : Bool → List Char → List Char
  | _, [] => []
  | true, c :: cs => if c = '\n' then '\n' :: sigAux false cs else sigAux true cs
  | false, c :: cs => if c = '#' then sigAux true cs else c :: sigAux false cs

/-- the significant characters of a text: comments removed -/
def sig (cs : List Char) : List Char := sigAux false cs

/-- the comment-skipping scan is the bracket depth of the significant characters -/
theorem scan_sig (cs : List Char) : ∀ (b : Bool) (d : Nat), (scan b d cs).map (·.2) = bdepth (sigAux b cs) d := by
  induction cs with
  | nil => intro b d; cases b <;> rfl
  | cons c cs ih =>
    intro b d
    cases b with
    | true =>
      simp only [scan, sigAux]
      split
      · rw [ih false d]; simp [bdepth]
      · exact ih true d
    | false =>
      simp only [scan, sigAux]
      split
      · exact ih true d
      · rename_i hc
        split
        · rename_i h1; subst h1
          rw [ih false (d + 1)]; simp [bdepth]
        · rename_i h1
          split
          · rename_i h2; subst h2
            cases d with
            | zero => simp [bdepth]
            | succ d' => rw [ih false d']; simp [bdepth]
          · rename_i h2
            rw [ih false d]; simp [bdepth, h1, h2]

theorem sig_of_nohash (cs : List Char) (h : '#' ∉ cs) : sig cs = cs := by
  unfold sig
  induction cs with
  | nil => rfl
  | cons c cs ih =>
    simp only [List.mem_cons, not_or] at h
    have hc : c ≠ '#' := fun e => h.1 e.symm
    simp only [sigAux, hc, if_false]
    rw [ih h.2]

/-- **the kernel lines of an accepted text were read from balanced text — up to comments**: for every
    `kernel-complex` line of the result there is a piece `c` of the (tab-expanded) text, consumed by the kernel
    statement that returned this line, whose significant characters have balanced parentheses.  No hypothesis on
    comments. -/
theorem kernel_brackets_balanced_sig (text : String) (lines : List Tree)
    (h : parseDoc pil_env pil_grammar text = some lines) (line : Tree) (hl : line ∈ lines) (l : List Tree)
    (hk : line = .grp (.tok "kernel-complex" :: l)) :
    ∃ pre c post t, expandTabs text.toList 0 = pre ++ (c ++ post) ∧
      Yield pil_env true pil_cplx (c ++ post) post t ∧ line ∈ t ∧ Balanced (sig c) := by
  obtain ⟨rest, hy⟩ := parseDoc_yield pil_env pil_grammar text lines h
  obtain ⟨pre, i, r, t, e, hc, hlt⟩ := kernel_line_source hy line hl l hk
  obtain ⟨c, ec, nc⟩ := cplx_neutC hc
  obtain ⟨b', hsc, _⟩ := nc false 0 (Or.inl rfl)
  refine ⟨pre, c, r, t, by rw [e, ec], by rw [← ec]; exact hc, hlt, ?_⟩
  have := scan_sig c false 0
  rw [hsc] at this
  exact this.symm

/-- the original statement is the special case of a comment-free text -/
theorem kernel_brackets_balanced' (text : String) (lines : List Tree)
    (h : parseDoc pil_env pil_grammar text = some lines) (hh : '#' ∉ text.toList) (line : Tree) (hl : line ∈ lines)
    (l : List Tree) (hk : line = .grp (.tok "kernel-complex" :: l)) :
    ∃ pre c post t, expandTabs text.toList 0 = pre ++ (c ++ post) ∧
      Yield pil_env true pil_cplx (c ++ post) post t ∧ line ∈ t ∧ Balanced c := by
  obtain ⟨pre, c, post, t, e, hc, hlt, hb⟩ := kernel_brackets_balanced_sig text lines h line hl l hk
  refine ⟨pre, c, post, t, e, hc, hlt, ?_⟩
  have hh' : '#' ∉ c := by
    intro hm
    have : '#' ∈ expandTabs text.toList 0 := by rw [e]; simp [hm]
    rcases mem_expandTabs _ _ _ this with hm' | hm'
    · exact hh hm'
    · cases hm'
  rwa [sig_of_nohash c hh'] at hb

/-! #### the model does accept a comment with a parenthesis inside a loop; `sig` cuts it out -/

example : (parseDoc pil_env pil_grammar "X = a( # ( \n )\n").isSome = true := by rfl
example : sig "X = a( # ( \n )\n".toList = "X = a( \n )\n".toList := by decide
example : ¬ Balanced "X = a( # ( \n )\n".toList ∧ Balanced (sig "X = a( # ( \n )\n".toList) := by
  unfold Balanced
  constructor <;> decide

end Dsd.C13
