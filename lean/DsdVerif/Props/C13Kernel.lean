import DsdVerif.Gen.Grammars
import DsdVerif.Model.Kernel
import DsdVerif.Model.CplxObject
import DsdVerif.Lemmas.PPRun
import DsdVerif.Lemmas.PilRun
import DsdVerif.Lemmas.PilKernel
import DsdVerif.Props.C13Pil

namespace Dsd.C13
open Dsd Dsd.PP Dsd.Gen

/-! More statement kinds of the PIL grammar (regenerated from source): lists of any length and the recursive
kernel pattern of any nesting depth. -/

def tokOf (s : List Char) : Tree := .tok (String.ofList s)

/-- domain names as the grammar's `domain`: identifier with optional `*` -/
def DomName (s : List Char) : Prop := ∃ base st, s = base ++ star st ∧ Ident base

def spaced : List (List Char) → List Char
  | [] => []
  | [x] => x
  | x :: xs => x ++ [' '] ++ spaced xs

def commaSep : List (List Char) → List Char
  | [] => []
  | [x] => x
  | x :: xs => x ++ [',', ' '] ++ commaSep xs

/-- **strand / sup-sequence statements** with any number of domains -/
theorem comp_domain_rt (kw : List Char) (hkw : kw = "strand".toList ∨ kw = "sup-sequence".toList)
    (name : List Char) (doms : List (List Char)) (sign : Char) (hs : sign = '=' ∨ sign = ':')
    (hn : Ident name) (hd : doms ≠ [] ∧ ∀ d ∈ doms, DomName d) (a b c e : Nat) :
    parseDoc pil_env pil_grammar
      (String.ofList (kw ++ blanks (a + 1) ++ name ++ blanks b ++ [sign] ++ blanks c ++ spaced doms ++ blanks e ++ ['\n'])) =
    some [.grp [.tok "composite-domain", tokOf name, .grp (doms.map tokOf)]] := by
  obtain ⟨nc, m, rfl, hnc, hm⟩ := Pil.cons_of_class name _ hn
  obtain ⟨hd1, hd2⟩ := hd
  have hdom : ∀ d, DomName d → Pil.IsDom d := by
    rintro d ⟨base, st, rfl, hb⟩
    obtain ⟨bc, bm, rfl, h1, h2⟩ := Pil.cons_of_class base _ hb
    exact ⟨bc, bm, st, rfl, h1, h2⟩
  have hsp : ∀ (d : List Char) (ds : List (List Char)), spaced (d :: ds) = d ++ Pil.spDoms ds := by
    intro d ds
    induction ds generalizing d with
    | nil => simp [spaced, Pil.spDoms]
    | cons x xs ih =>
      show d ++ [' '] ++ spaced (x :: xs) = _
      rw [ih x, Pil.spDoms_cons]; simp
  cases doms with
  | nil => exact absurd rfl hd1
  | cons d ds =>
    have k1 : "strand".toList = ['s', 't', 'r', 'a', 'n', 'd'] := by rfl
    have k2 : "sup-sequence".toList = ['s', 'u', 'p', '-', 's', 'e', 'q', 'u', 'e', 'n', 'c', 'e'] := by rfl
    rw [k1, k2] at hkw
    have htext : kw ++ blanks (a + 1) ++ (nc :: m) ++ blanks b ++ [sign] ++ blanks c ++ spaced (d :: ds) ++
        blanks e ++ ['\n'] = kw ++ Pil.compText (a + 1) nc m b sign c d ds e := by
      rw [hsp]; simp [blanks, Pil.compText, List.append_assoc]
    rw [htext]
    exact Pil.comp_parse kw hkw (a + 1) (Nat.succ_pos a) nc m b sign hs c d ds e hnc hm (hdom d (hd2 d (by simp)))
      (fun x hx => hdom x (hd2 x (List.mem_cons_of_mem _ hx)))

/-- **resting macrostates** with any number of members -/
theorem resting_rt (kw : List Char) (hkw : kw = "state".toList ∨ kw = "macrostate".toList)
    (name : List Char) (mem : List (List Char)) (hn : Ident name) (hm : mem ≠ [] ∧ ∀ m ∈ mem, Ident m) (a b c e : Nat) :
    parseDoc pil_env pil_grammar
      (String.ofList (kw ++ blanks (a + 1) ++ name ++ blanks b ++ ['='] ++ blanks c ++ ['['] ++ commaSep mem ++ [']'] ++ blanks e ++ ['\n'])) =
    some [.grp [.tok "resting-macrostate", tokOf name, .grp (mem.map tokOf)]] := by
  obtain ⟨nc, m, rfl, hnc, hm'⟩ := Pil.cons_of_class name _ hn
  obtain ⟨hm1, hm2⟩ := hm
  have hid : ∀ d, Ident d → Pil.IsId d := by
    intro d hd
    obtain ⟨bc, bm, rfl, h1, h2⟩ := Pil.cons_of_class d _ hd
    exact ⟨bc, bm, rfl, h1, h2⟩
  have hcs : ∀ (d : List Char) (ds : List (List Char)), commaSep (d :: ds) = d ++ Pil.csMems ds := by
    intro d ds
    induction ds generalizing d with
    | nil => simp [commaSep, Pil.csMems]
    | cons x xs ih =>
      show d ++ [',', ' '] ++ commaSep (x :: xs) = _
      rw [ih x, Pil.csMems_cons]; simp
  cases mem with
  | nil => exact absurd rfl hm1
  | cons d ds =>
    obtain ⟨mc, mm, rfl, hmc, hmm⟩ := Pil.cons_of_class d _ (hm2 d (by simp))
    have k1 : "state".toList = ['s', 't', 'a', 't', 'e'] := by rfl
    have k2 : "macrostate".toList = ['m', 'a', 'c', 'r', 'o', 's', 't', 'a', 't', 'e'] := by rfl
    rw [k1, k2] at hkw
    have htext : kw ++ blanks (a + 1) ++ (nc :: m) ++ blanks b ++ ['='] ++ blanks c ++ ['['] ++
        commaSep ((mc :: mm) :: ds) ++ [']'] ++ blanks e ++ ['\n'] =
        kw ++ Pil.restText (a + 1) nc m b c mc mm ds e := by
      rw [hcs]; simp [blanks, Pil.restText, List.append_assoc]
    rw [htext]
    exact Pil.rest_parse kw hkw a nc m b c mc mm ds e hnc hm' hmc hmm
      (fun x hx => hid x (hm2 x (List.mem_cons_of_mem _ hx)))

/-- the eleven statement keywords of the PIL grammar.

    While they were `Literal`s, the kernel theorems below needed the hypothesis that no keyword is a prefix of
    `name ++ " "` (`NoKeywordPrefix name`, now deleted): an earlier alternative of `stmt` took a line whose name merely
    started with a keyword (the recorded known finding).  They are `Keyword`s now and the theorems hold for EVERY
    identifier `name` — see `keyword_prefixed_name_rt`. -/
def keywords : List String :=
  ["length", "domain", "sequence", "sup-sequence", "strand", "complex", "structure", "kinetic", "reaction", "state",
    "macrostate"]

/-- names of a kernel description are PIL-legal: domain names at non-break positions, "+" at breaks -/
def LegalNames (seq : List String) (sst : List Char) : Prop :=
  seq.length = sst.length ∧ ∀ (i : Nat) (n : String) (c : Char), seq[i]? = some n → sst[i]? = some c →
    (c = '+' → n = "+") ∧ (c ≠ '+' → DomName n.toList) ∧ (c = '(' ∨ c = ')' ∨ c = '.' ∨ c = '+')


/-- common preparation for the two kernel theorems -/
theorem kernel_prep (name : List Char) (seq : List String) (sst : List Char) (toks : List Tree)
    (hn : Ident name) (hl : LegalNames seq sst) (hne : sst ≠ [])
    (ht : kernelTokens seq sst = some toks) (X : List Char) :
    ∃ nc m, name = nc :: m ∧ nc ∈ Pil.identChars ∧ (∀ x ∈ m, x ∈ Pil.identChars) ∧
      seq.zip sst ≠ [] ∧ (∀ e ∈ seq.zip sst, Pil.LegalEnt e) ∧
      Pil.pItems (2 * (seq.zip sst).length + 1) (seq.zip sst) = some (toks, []) ∧
      name ++ " = ".toList ++ (kernelString seq sst).toList ++ X = Pil.kernelText nc m (seq.zip sst) X := by
  obtain ⟨nc, m, rfl, hnc, hm⟩ := Pil.cons_of_class name _ hn
  obtain ⟨hlen, hleg⟩ := hl
  have hL : seq.zip sst ≠ [] := by
    cases seq with
    | nil => simp at hlen; exact absurd (List.length_eq_zero_iff.mp hlen.symm) hne
    | cons a as =>
      cases sst with
      | nil => exact absurd rfl hne
      | cons b bs => simp
  refine ⟨nc, m, rfl, hnc, hm, hL, ?_, Pil.pItems_of_nestGo _ toks ht, ?_⟩
  · intro e he
    obtain ⟨i, hi⟩ := List.mem_iff_getElem?.mp he
    rw [List.getElem?_zip_eq_some] at hi
    obtain ⟨l1, l2, l3⟩ := hleg i e.1 e.2 hi.1 hi.2
    refine ⟨l1, ?_, l3⟩
    intro hc
    obtain ⟨base, st, hb, hbase⟩ := l2 hc
    obtain ⟨bc, bm, rfl, h1, h2⟩ := Pil.cons_of_class base _ hbase
    exact ⟨bc, bm, st, hb, h1, h2⟩
  · have k : " = ".toList = [' ', '=', ' '] := rfl
    rw [k]
    unfold Pil.kernelText
    rw [← Pil.kernelString_sp seq sst hL]
    simp [List.append_assoc]

/-- **kernel-notation complexes**: writing `name = <kernel_string>` and parsing it yields exactly the token
    forest of the kernel string, for arbitrarily nested, multi-stranded and empty-loop patterns — and for every
    identifier `name`, including names that start with (or are) a statement keyword -/
theorem kernel_rt (name : List Char) (seq : List String) (sst : List Char) (toks : List Tree)
    (hn : Ident name) (hl : LegalNames seq sst) (hne : sst ≠ [])
    (ht : kernelTokens seq sst = some toks) :
    parseDoc pil_env pil_grammar
      (String.ofList (name ++ " = ".toList ++ (kernelString seq sst).toList ++ ['\n'])) =
    some [.grp [.tok "kernel-complex", tokOf name, .grp toks]] := by
  obtain ⟨nc, m, rfl, hnc, hm, hL, hleg, hp, htext⟩ := kernel_prep name seq sst toks hn hl hne ht ['\n']
  rw [htext]
  exact Pil.kernel_parse nc m _ toks hnc hm hL hleg hp

/-- the former known finding, stated explicitly (it is `kernel_rt` instantiated): a complex whose name starts with
    a statement keyword — or is one, `suffix = []` — is a kernel complex.  (With `Literal` keywords `lengthy = 5` was
    the domain-length statement `[dl-domain, y, 5]`.)  The membership `kw ∈ keywords` only documents the case of
    interest; the proof does not use it. -/
theorem keyword_prefixed_name_rt (kw : String) (_hkw : kw ∈ keywords) (suffix : List Char)
    (seq : List String) (sst : List Char) (toks : List Tree)
    (hn : Ident (kw.toList ++ suffix)) (hl : LegalNames seq sst) (hne : sst ≠ [])
    (ht : kernelTokens seq sst = some toks) :
    parseDoc pil_env pil_grammar
      (String.ofList (kw.toList ++ suffix ++ " = ".toList ++ (kernelString seq sst).toList ++ ['\n'])) =
    some [.grp [.tok "kernel-complex", tokOf (kw.toList ++ suffix), .grp toks]] :=
  kernel_rt (kw.toList ++ suffix) seq sst toks hn hl hne ht

/-- an unbalanced kernel pattern (a closing bracket too many) is rejected -/
theorem kernel_extra_close_rejected (name : List Char) (seq : List String) (sst : List Char) (toks : List Tree)
    (hn : Ident name) (hl : LegalNames seq sst) (hne : sst ≠ [])
    (ht : kernelTokens seq sst = some toks) :
    parseDoc pil_env pil_grammar
      (String.ofList (name ++ " = ".toList ++ (kernelString seq sst).toList ++ " )\n".toList)) = none := by
  have k : " )\n".toList = [' ', ')', '\n'] := rfl
  rw [k]
  obtain ⟨nc, m, rfl, hnc, hm, hL, hleg, hp, htext⟩ :=
    kernel_prep name seq sst toks hn hl hne ht [' ', ')', '\n']
  rw [htext]
  exact Pil.kernel_reject nc m _ toks hnc hm hL hleg hp

/-- a statement without a name is rejected -/
theorem kernel_missing_name_rejected (rest : List Char) :
    parseDoc pil_env pil_grammar (String.ofList ("= ".toList ++ rest)) = none := by
  have k : "= ".toList = ['=', ' '] := by rfl
  rw [k]
  exact Pil.missing_name rest

end Dsd.C13
