import DsdVerif.Model.Kernel
import DsdVerif.Props.C07Rot
import DsdVerif.Lemmas.Kernel
import DsdVerif.Lemmas.DomainNames
import DsdVerif.Lemmas.CanonOrbit

namespace Dsd.C12
open Dsd Dsd.PP Dsd.Bracket

/-- every pair joins a domain with its complement: the closing position carries the complement name of the
    opening one -/
def Complementary (seq : List String) (t : List (Option Nat)) : Prop :=
  ∀ i j, P t i = some j → i < j → seq[j]? = (seq[i]?).map compName

/-- a kernel-writable description: aligned lists, balanced structure over `( ) . +` -/
structure KDescr (seq : List String) (sst : List Char) (t : List (Option Nat)) : Prop where
  aligned : C07.Aligned seq sst
  balanced : matchW (C07.word sst) = some t
  chars : ∀ c ∈ sst, c = '(' ∨ c = ')' ∨ c = '.' ∨ c = '+'

/-- lemma-level round trip, in the vocabulary of this file -/
theorem kernel_spec' (seq : List String) (sst : List Char) (t : List (Option Nat)) (h : KDescr seq sst t) :
    ∃ toks nm, kernelTokens seq sst = some toks ∧
      resolveKernel (seq.length + 1) toks = .ok (nm, sst) ∧ Ker.NP nm (seq.zip sst) t := by
  have hm := h.balanced
  rw [C07.word_eq] at hm
  exact Ker.kernel_spec seq sst t h.aligned hm h.chars

theorem zip_get (seq : List String) (sst : List Char) (i : Nat) (n : String) (c : Char)
    (h1 : seq[i]? = some n) (h2 : sst[i]? = some c) : (seq.zip sst)[i]? = some (n, c) := by
  rw [List.getElem?_zip_eq_some]; exact ⟨h1, h2⟩

/-- the resolved names agree with the original ones off the closing positions -/
theorem np_keep (seq : List String) (sst : List Char) (t : List (Option Nat)) (nm : List String)
    (hlen : seq.length = sst.length) (hnp : Ker.NP nm (seq.zip sst) t) :
    nm.length = seq.length ∧ ∀ i : Nat, sst[i]? ≠ some ')' → nm[i]? = seq[i]? := by
  have hl : nm.length = seq.length := by rw [hnp.len]; simp; omega
  refine ⟨hl, ?_⟩
  intro i hi
  by_cases hlt : i < seq.length
  · have h1 : seq[i]? = some seq[i] := List.getElem?_eq_getElem hlt
    have h2 : sst[i]? = some sst[i] := List.getElem?_eq_getElem (by omega)
    rw [h1]
    apply hnp.keep i seq[i] sst[i] (zip_get seq sst i _ _ h1 h2)
    intro e; rw [h2, e] at hi; exact hi rfl
  · rw [List.getElem?_eq_none (by omega), List.getElem?_eq_none (by omega)]

/-- the token forest of the kernel string exists for every balanced description -/
theorem kernelTokens_total (seq : List String) (sst : List Char) (t : List (Option Nat)) (h : KDescr seq sst t) :
    ∃ toks, kernelTokens seq sst = some toks := by
  obtain ⟨toks, _, h1, _, _⟩ := kernel_spec' seq sst t h
  exact ⟨toks, h1⟩

/-- **The reader's translation of a parsed kernel pattern into (sequence, structure) is the exact inverse of
    kernel_string**, for arbitrarily nested, multi-stranded and empty-loop patterns: the synthesised closing
    names are the real ones exactly because paired domains are complementary. -/
theorem resolve_kernel_inverse (seq : List String) (sst : List Char) (t : List (Option Nat)) (h : KDescr seq sst t)
    (hc : Complementary seq t) (toks : List Tree) (ht : kernelTokens seq sst = some toks) :
    resolveKernel (seq.length + 1) toks = .ok (seq, sst) := by
  obtain ⟨toks', nm, h1, h2, hnp⟩ := kernel_spec' seq sst t h
  rw [ht] at h1; cases h1
  have hlen := h.aligned.1
  obtain ⟨hl, hkeep⟩ := np_keep seq sst t nm hlen hnp
  have hm := h.balanced
  rw [C07.word_eq] at hm
  have hM := matchW_sound _ _ hm
  have : nm = seq := by
    apply List.ext_getElem?
    intro i
    by_cases hcl : sst[i]? = some ')'
    · have hlt : i < seq.length := by have := u_lt sst i _ hcl; omega
      have h1 : seq[i]? = some seq[i] := List.getElem?_eq_getElem hlt
      obtain ⟨k, hk1, hk2, hk3⟩ := hnp.close i seq[i] (zip_get seq sst i _ _ h1 hcl)
      -- the partner is an opening position, where the name was kept
      have hwi : (Rot.cword sst)[i]? = some .cl := by rw [Rot.cword_get, hcl]; rfl
      obtain ⟨j, _, hj2, hj3, hj4⟩ := hM.cl i hwi
      rw [hk2] at hj2; cases hj2
      have hko : sst[k]? ≠ some ')' := by
        intro e
        rw [Rot.cword_get, e] at hj4; cases hj4
      rw [hk3, hkeep k hko, hc k i hj3 hk1]
    · exact hkeep i hcl
  subst this; exact h2

/-- without complementarity the structure is still recovered exactly, and the sequence up to the closing names -/
theorem resolve_kernel_structure (seq : List String) (sst : List Char) (t : List (Option Nat)) (h : KDescr seq sst t)
    (toks : List Tree) (ht : kernelTokens seq sst = some toks) :
    ∃ seq', resolveKernel (seq.length + 1) toks = .ok (seq', sst) ∧ seq'.length = seq.length ∧
      ∀ i : Nat, sst[i]? ≠ some ')' → seq'[i]? = seq[i]? := by
  obtain ⟨toks', nm, h1, h2, hnp⟩ := kernel_spec' seq sst t h
  rw [ht] at h1; cases h1
  obtain ⟨hl, hkeep⟩ := np_keep seq sst t nm h.aligned.1 hnp
  exact ⟨nm, h2, hl, hkeep⟩

/- ORIGINAL STATEMENTS (false when a paired name has two trailing stars, because `compName` is then not an
   involution: `compName "a**" = "a*"`, `compName "a*" = "a"`.  Counterexample: `seq = ["a**", "+", "a*"]`,
   `sst = ['(', '+', ')']`, `t = [some 2, none, some 0]` is complementary, its rotation
   `(["a*", "+", "a**"], ['(', '+', ')'])` is not, and the reader turns its kernel string into
   `["a*", "+", "a"]`; see the checked examples below):

theorem complementary_rotate (seq : List String) (sst : List Char) (t : List (Option Nat)) (h : KDescr seq sst t)
    (hc : Complementary seq t) (r : List String × List Char) (hr : rotateOnce seq sst = .ok r) :
    ∃ t', KDescr r.1 r.2 t' ∧ Complementary r.1 t'

theorem kernel_all_rotations (seq : List String) (sst : List Char) (t : List (Option Nat)) (h : KDescr seq sst t)
    (hc : Complementary seq t) (k : Nat) (r : List String × List Char) (hr : rotateN k seq sst = .ok r) :
    ∃ toks, kernelTokens r.1 r.2 = some toks ∧ resolveKernel (r.1.length + 1) toks = .ok r
-/

/-- the counterexample is a complementary kernel-writable description … -/
example : KDescr ["a**", "+", "a*"] ['(', '+', ')'] [some 2, none, some 0] ∧
    Complementary ["a**", "+", "a*"] [some 2, none, some 0] := by
  refine ⟨⟨⟨rfl, ?_⟩, by decide, by decide⟩, ?_⟩
  · intro i
    match i with
    | 0 => decide
    | 1 => decide
    | 2 => decide
    | k + 3 => simp
  · intro i j hij hlt
    match i with
    | 0 => simp [P] at hij; subst hij; decide
    | 1 => simp [P] at hij
    | 2 => simp [P] at hij; omega
    | k + 3 => simp [P] at hij

/-- … whose rotation does not survive the round trip -/
example : rotateOnce ["a**", "+", "a*"] ['(', '+', ')'] = .ok (["a*", "+", "a**"], ['(', '+', ')']) ∧
    (kernelTokens ["a*", "+", "a**"] ['(', '+', ')']).map (fun toks => resolveKernel 4 toks) =
      some (.ok (["a*", "+", "a"], ['(', '+', ')'])) := by
  constructor <;> rfl

theorem sigma_surj (N p x : Nat) (hp : p < N) (hx : x < N) : ∃ i, i < N ∧ C07.sigma N p i = x := by
  rcases Rot.rot_pos_cases N p x hp hx with h | ⟨i, hi, hip, hsh⟩
  · exact ⟨p, hp, by rw [h]; unfold C07.sigma; simp⟩
  · exact ⟨i, hi, by rw [C07.sigma_eq_sh N p i hi hip]; exact hsh⟩

/-- complementarity is a property of the complex, not of the rotation: it survives `rotate_complex_once`.
    CORRECTED: added `hinv` (taking the complement name is an involution on the names that occur, which holds
    for names with at most one trailing star, see `compName_involutive`). -/
theorem complementary_rotate (seq : List String) (sst : List Char) (t : List (Option Nat)) (h : KDescr seq sst t)
    (hc : Complementary seq t) (hinv : ∀ n ∈ seq, compName (compName n) = n)
    (r : List String × List Char) (hr : rotateOnce seq sst = .ok r) :
    ∃ t', KDescr r.1 r.2 t' ∧ Complementary r.1 t' := by
  by_cases hplus : "+" ∈ seq
  · obtain ⟨p, hp⟩ := Rot.idxOf?_isSome_of_mem seq "+" hplus
    obtain ⟨hps, _, _⟩ := Rot.idxOf?_some seq "+" p hp
    have hlen := h.aligned.1
    obtain ⟨seq', sst', t', hrot, _, hlen', hal', hm', hnames, _, hpair⟩ :=
      C07.rotateOnce_pairs seq sst p t h.aligned hp h.balanced
    have hm0 := h.balanced
    rw [C07.word_eq] at hm0
    obtain ⟨sst2, t2, hrot2, _, hok2, _, _⟩ := Rot.rotateOnce_step seq sst p t h.aligned h.chars hp hm0
    rw [hrot] at hrot2
    have hs2 : sst' = sst2 := by cases hrot2; rfl
    subst hs2
    rw [hr] at hrot; cases hrot
    refine ⟨t', ⟨hal', hm', hok2⟩, ?_⟩
    have hM := matchW_sound _ _ hm0
    have hm1 := hm'
    rw [C07.word_eq] at hm1
    have hM' := matchW_sound _ _ hm1
    intro x y hxy hlt
    have hx : x < sst.length := by
      have := (matching_nci _ _ hM').rng x y hxy
      rw [Rot.cword_length, hlen'] at this; exact this.1
    obtain ⟨i, hi, rfl⟩ := sigma_surj sst.length p x (by omega) hx
    rw [hpair i hi] at hxy
    cases hj : P t i with
    | none => rw [hj] at hxy; cases hxy
    | some j =>
      rw [hj] at hxy
      simp only [Option.map_some, Option.some.injEq] at hxy
      subst hxy
      have hrng := (matching_nci _ _ hM).rng i j hj
      rw [Rot.cword_length] at hrng
      rw [hnames i hi, hnames j hrng.2.1]
      by_cases hij : i < j
      · exact hc i j hj hij
      · have hji : j < i := by omega
        have hsym := Rot.matching_inv _ _ hM i j hj
        have := hc j i hsym hji
        have hjs : seq[j]? = some seq[j] := List.getElem?_eq_getElem (by omega)
        rw [hjs] at this ⊢
        rw [this]
        simp only [Option.map_some]
        rw [hinv _ (List.getElem_mem _)]
  · rw [C07.rotateOnce_single seq sst hplus] at hr
    cases hr
    exact ⟨t, h, hc⟩

/-- the names of a rotation are the names of the original -/
theorem rotate_names (seq : List String) (sst : List Char) (r : List String × List Char)
    (hr : rotateOnce seq sst = .ok r) : ∀ n ∈ r.1, n ∈ seq := by
  by_cases hplus : "+" ∈ seq
  · obtain ⟨p, hp⟩ := Rot.idxOf?_isSome_of_mem seq "+" hplus
    rw [Rot.rotateOnce_fst seq sst r p hr hp]
    intro n hn
    simp only [List.mem_append, List.mem_singleton] at hn
    rcases hn with (hn | hn) | hn
    · exact List.mem_of_mem_drop hn
    · rw [hn]; exact hplus
    · exact List.mem_of_mem_take hn
  · rw [C07.rotateOnce_single seq sst hplus] at hr
    cases hr
    exact fun n hn => hn

/-- hence the round trip holds **in every rotation**.
    CORRECTED: added `hinv`, as in `complementary_rotate`. -/
theorem kernel_all_rotations (seq : List String) (sst : List Char) (t : List (Option Nat)) (h : KDescr seq sst t)
    (hc : Complementary seq t) (hinv : ∀ n ∈ seq, compName (compName n) = n)
    (k : Nat) (r : List String × List Char) (hr : rotateN k seq sst = .ok r) :
    ∃ toks, kernelTokens r.1 r.2 = some toks ∧ resolveKernel (r.1.length + 1) toks = .ok r := by
  induction k generalizing seq sst t with
  | zero =>
    simp only [rotateN, Except.ok.injEq] at hr
    subst hr
    obtain ⟨toks, ht⟩ := kernelTokens_total seq sst t h
    exact ⟨toks, ht, resolve_kernel_inverse seq sst t h hc toks ht⟩
  | succ k ih =>
    rw [Rot.rotateN_succ] at hr
    cases hro : rotateOnce seq sst with
    | error e => rw [hro] at hr; cases hr
    | ok r1 =>
      rw [hro] at hr
      obtain ⟨t', hk', hc'⟩ := complementary_rotate seq sst t h hc hinv r1 hro
      have hinv' : ∀ n ∈ r1.1, compName (compName n) = n :=
        fun n hn => hinv n (rotate_names seq sst r1 hro n hn)
      exact ih r1.1 r1.2 t' hk' hc' hinv' hr

/-- `compName` is an involution on names with at most one trailing star -/
theorem compName_involutive (n : String) (h : n ≠ "" ∧ n ≠ "*" ∧ (isStarred n = true → isStarred (cnameOf n) = false)) :
    compName (compName n) = n := by
  exact DomL.cname_cname n h.2.2

/-- non-vacuity: a two-strand complex with a nested loop and an empty hairpin -/
example : (kernelTokens ["a", "b", "+", "b*", "c", "c*", "a*"] ['(', '(', '+', ')', '(', ')', ')']).map
      (fun toks => resolveKernel 8 toks) =
    some (.ok (["a", "b", "+", "b*", "c", "c*", "a*"], ['(', '(', '+', ')', '(', ')', ')'])) := by rfl

end Dsd.C12
