/-
C03 for the code as written: the translated methods of `ComplexS` (Gen/PyComplexS.lean) against the cache-free specification
and the hand-written model (Model/CplxObject.lean, Props/C03Views.lean).  The per-view statements live in
Lemmas/PyObjBasic.lean, Lemmas/PyObjExt.lean and Lemmas/PyObjRot.lean; this file assembles them.
-/
import DsdVerif.Lemmas.PyObjBasic
import DsdVerif.Lemmas.PyObjKernel
import DsdVerif.Lemmas.PyObjExt
import DsdVerif.Lemmas.PyObjRot
import DsdVerif.Props.C03Views

namespace Dsd.PyObj
open Dsd

/-- the object has at least one strand (what `ComplexS.identifiers` guarantees: "no strands" is refused) -/
def HasStrand (s : Gen.ComplexS.Self) : Prop := makeStrandTableList "+" s._sequence ≠ []

/-- every translated view except `canonical_form` (not part of the translated object) and `rotate_pt` (see `py_rotate_pt_eq`) -/
def Translated (v : View) : Prop := v ≠ .canon ∧ v ≠ .rotatePt

/-- **every translated view of a coherent object answers like the cache-free specification of its current representation**, keeps
    the object coherent and does not change the representation -/
theorem pyQuery_spec (s : Gen.ComplexS.Self) (canon : CKey) (v : View) (h : PCoh s) (hs : HasStrand s) (hv : Translated v) :
    ViewOk s v (C03.qSpec (toObj s canon) v) := by
  cases v with
  | sequence => exact Basic.view_sequence s canon h
  | «structure» => exact Basic.view_structure s canon h
  | kernel => exact Kernel.view_kernel s canon h
  | size => exact Basic.view_size s canon h
  | strandTable => exact Basic.view_strandTable s canon h
  | pairTable => exact Basic.view_pairTable s canon h
  | strandLength k => exact Basic.view_strandLength s canon k h
  | getDomain l => exact Basic.view_getDomain s canon l h
  | getPairedLoc l => exact Basic.view_getPairedLoc s canon l h
  | getLoopIndex l => exact Basic.view_getLoopIndex s canon l h
  | exterior => exact Ext.view_exterior s canon h
  | enclosed => exact Ext.view_enclosed s canon h
  | isConnected => exact Basic.view_isConnected s canon h
  | rotate => exact Rot.view_rotate_of_strands s canon h hs
  | rotatePt => exact absurd rfl hv.2
  | turns => exact Basic.view_turns s canon h
  | canon => exact absurd rfl hv.1
  | name => exact Basic.view_name s canon h

/-- the cache-free model object of a translated object is coherent -/
theorem coh_toObj (s : Gen.ComplexS.Self) (canon : CKey) : C03.Coh (toObj s canon) := by
  constructor <;> intro _ h <;> cases h

theorem coherent_toObj (s : Gen.ComplexS.Self) (canon : CKey) : C03.Coherent (toObj s canon) :=
  C03.coherent_fresh _ _ _ _ _

/-- … which is also what the hand-written model answers on its own coherent object of the same representation -/
theorem pyQuery_eq_model (s : Gen.ComplexS.Self) (canon : CKey) (v : View) (h : PCoh s) (hs : HasStrand s) (hv : Translated v) :
    (pyQuery s v).2 = ((toObj s canon).query v).2 := by
  rw [(pyQuery_spec s canon v h hs hv).2.2, (C03.query_coh (toObj s canon) v (coh_toObj s canon)).2.1]

/-- the translated setter equals the model's (re-export of `Rot.pySetTurns_spec`) -/
theorem pySetTurns_eq_model (s : Gen.ComplexS.Self) (canon : CKey) (v : Int) (h : PCoh s) :
    (pySetTurns s v).2 = ((toObj s canon).setTurns v).2 ∧ PCoh (pySetTurns s v).1 ∧
    CplxObj.SameRep (toObj (pySetTurns s v).1 canon) ((toObj s canon).setTurns v).1 :=
  Rot.pySetTurns_spec s canon v h

/-! ### a rotation has a strand iff the original has one -/

theorem rotateOnce_hasStrand (seq : List String) (sst : List Char) (r : List String × List Char)
    (h : rotateOnce seq sst = .ok r) (hs : makeStrandTableList "+" seq ≠ []) : makeStrandTableList "+" r.1 ≠ [] := by
  by_cases hplus : "+" ∈ seq
  · have e := C07.rotateOnce_strands seq sst r h hplus
    unfold makeStrandTableList at hs ⊢
    rw [e]
    obtain ⟨x, hx⟩ := List.exists_mem_of_ne_nil _ hs
    rw [List.mem_filter] at hx
    intro h0
    have hmem : x ∈ List.filter (fun s => !s.isEmpty) ((splitOn "+" seq).drop 1 ++ (splitOn "+" seq).take 1) := by
      rw [List.mem_filter]
      refine ⟨?_, hx.2⟩
      rw [List.mem_append]
      have := hx.1
      conv at this => rw [← List.take_append_drop 1 (splitOn "+" seq)]
      rcases List.mem_append.1 this with h1 | h1
      · exact Or.inr h1
      · exact Or.inl h1
    rw [h0] at hmem
    cases hmem
  · have hnone : seq.idxOf? "+" = none := by
      simp [List.idxOf?, List.findIdx?_eq_none_iff]
      intro x hx e; subst e; exact hplus hx
    unfold rotateOnce at h
    rw [hnone] at h
    cases h
    exact hs

theorem rotTail_hasStrand (k : Nat) (x : List String) (y : List Char) (l : List (List String × List Char))
    (hs : makeStrandTableList "+" x ≠ []) (h : Rot.rotTail k x y = .ok l) :
    ∀ p ∈ l, makeStrandTableList "+" p.1 ≠ [] := by
  induction k generalizing x y l with
  | zero => simp only [Rot.rotTail] at h; cases h; simp
  | succ k ih =>
    simp only [Rot.rotTail] at h
    cases hr : rotateOnce x y with
    | error e => rw [hr] at h; cases h
    | ok r =>
      rw [hr] at h
      simp only at h
      have hs' := rotateOnce_hasStrand x y r hr hs
      cases ht : Rot.rotTail k r.1 r.2 with
      | error e => rw [ht] at h; cases h
      | ok l' =>
        rw [ht] at h
        simp only [Except.map] at h
        cases h
        intro p hp
        rcases List.mem_cons.1 hp with hp | hp
        · subst hp; exact hs'
        · exact ih r.1 r.2 l' hs' ht p hp

theorem rotationsFrom_hasStrand (n : Nat) (x : List String) (y : List Char) (l : List (List String × List Char))
    (hs : makeStrandTableList "+" x ≠ []) (h : rotationsFrom n x y = .ok l) :
    ∀ p ∈ l, makeStrandTableList "+" p.1 ≠ [] := by
  cases n with
  | zero => simp only [rotationsFrom] at h; cases h; simp
  | succ k =>
    rw [Rot.rotationsFrom_succ] at h
    cases ht : Rot.rotTail k x y with
    | error e => rw [ht] at h; cases h
    | ok l' =>
      rw [ht] at h
      simp only [Except.map] at h
      cases h
      intro p hp
      rcases List.mem_cons.1 hp with hp | hp
      · subst hp; exact hs
      · exact rotTail_hasStrand k x y l' hs ht p hp

/-- the setter keeps "has a strand" -/
theorem pySetTurns_hasStrand (s : Gen.ComplexS.Self) (v : Int) (h : PCoh s) (hs : HasStrand s) : HasStrand (pySetTurns s v).1 := by
  unfold HasStrand at hs ⊢
  simp only [pySetTurns, Rot.exec_set_turns s v h]
  by_cases hn : Rot.nS s = 0
  · simp only [hn, if_true, Rot.fillST_seq]
    exact hs
  · simp only [hn, if_false]
    cases hr : rotationsFrom (Rot.nS s) s._sequence s._structure with
    | error e => simpa using hs
    | ok rots =>
      simp only
      cases hp : rots[wrap (-s._turns + v) (Rot.nS s)]? with
      | none => simpa using hs
      | some p =>
        simp only [Rot.setRep]
        exact rotationsFrom_hasStrand _ _ _ rots hs hr p (List.mem_of_getElem? hp)

/-- run a sequence of assignments and queries on the translated object -/
def pyRun (s : Gen.ComplexS.Self) : List C03.COp → Gen.ComplexS.Self × List Ans
  | [] => (s, [])
  | .setTurns v :: rest => pyRun (pySetTurns s v).1 rest
  | .query q :: rest => let r := pyQuery s q; let rr := pyRun r.1 rest; (rr.1, r.2 :: rr.2)

def Plain (ops : List C03.COp) : Prop := ∀ q, C03.COp.query q ∈ ops → Translated q

theorem toObj_sameRep {s s' : Gen.ComplexS.Self} (h : SameRepS s s') (canon : CKey) :
    CplxObj.SameRep (toObj s' canon) (toObj s canon) := by
  obtain ⟨a1, a2, a3, a4⟩ := h
  exact ⟨a1, a2, by simp only [toObj, a3], rfl, a4⟩

/-- **C03 for the code as written**: after any sequence of `turns` assignments interleaved with queries, every translated view of the
    translated object answers like the cache-free specification of the current rotation -/
theorem py_views_refine_spec (s : Gen.ComplexS.Self) (canon : CKey) (ops : List C03.COp) (h : PCoh s) (hs : HasStrand s) (hp : Plain ops) :
    (pyRun s ops).2 = C03.runSpec (toObj s canon) ops := by
  induction ops generalizing s with
  | nil => rfl
  | cons op rest ih =>
    have hp' : Plain rest := fun q hq => hp q (List.mem_cons_of_mem _ hq)
    cases op with
    | setTurns v =>
      simp only [pyRun, C03.runSpec]
      obtain ⟨_, g2, g3⟩ := pySetTurns_eq_model s canon v h
      rw [ih _ g2 (pySetTurns_hasStrand s v h hs) hp']
      exact C03.runSpec_congr g3 rest
    | query q =>
      simp only [pyRun, C03.runSpec]
      obtain ⟨g1, g2, g3⟩ := pyQuery_spec s canon q h hs (hp q List.mem_cons_self)
      have hs1 : HasStrand (pyQuery s q).1 := by
        unfold HasStrand at hs ⊢
        rw [g2.1]; exact hs
      rw [ih _ g1 hs1 hp', g3]
      congr 1
      · show _ = (CplxObj.query (toObj s canon) q).2
        rw [(C03.query_coh (toObj s canon) q (coh_toObj s canon)).2.1]
      · exact C03.runSpec_congr (toObj_sameRep g2 canon) rest

/-- … hence exactly like the hand-written model -/
theorem py_views_eq_model (s : Gen.ComplexS.Self) (canon : CKey) (ops : List C03.COp) (h : PCoh s) (hs : HasStrand s) (hp : Plain ops) :
    (pyRun s ops).2 = (C03.run (toObj s canon) ops).2 := by
  rw [py_views_refine_spec s canon ops h hs hp, C03.views_refine_spec _ ops (coherent_toObj s canon)]

/-- a new object (as `__init__` leaves it) is coherent, so all of the above applies from construction on -/
theorem py_views_from_init (seq : List String) (sst : List Char) (name : String) (turns : Nat) (canon : CKey) (ops : List C03.COp)
    (hl : seq.length = sst.length) (hs : makeStrandTableList "+" seq ≠ []) (hp : Plain ops) :
    (pyRun (Gen.py_ComplexS_init seq sst name turns) ops).2 =
      C03.runSpec { seq := seq, sst := sst, turns := turns, canon := canon, name := name } ops := by
  have hc : PCoh (Gen.py_ComplexS_init seq sst name turns) := pcoh_init seq sst name turns hl (Int.natCast_nonneg turns)
  rw [py_views_refine_spec _ canon ops hc hs hp]
  rfl

/-- `rotate_pt()` is `rotate()` mapped through the table constructors (re-export of `Rot.exec_rotate_pt`) -/
theorem py_rotate_pt_eq (s : Gen.ComplexS.Self) (turns : Option Nat) :
    (Gen.py_ComplexS_rotate_pt turns).exec s =
      match (Gen.py_ComplexS_rotate turns).exec s with
      | (.error e, s') => (.error e, s')
      | (.ok l, s') => (l.mapM (fun (p : List String × List Char) => do
            let a ← Gen.py_make_strand_table_list p.1 "+"
            let b ← Gen.py_make_pair_table p.2 '+' ['.']
            pure (a, b)), s') :=
  Rot.exec_rotate_pt s turns

#print axioms pyQuery_spec
#print axioms pyQuery_eq_model
#print axioms pySetTurns_eq_model
#print axioms pySetTurns_hasStrand
#print axioms py_views_refine_spec
#print axioms py_views_eq_model
#print axioms py_views_from_init
#print axioms py_rotate_pt_eq

end Dsd.PyObj
