/-
C16 / C14, closing the model gap of the PIL reader: the statement-by-statement transcription
`RState.readLineFull` / `readDocFull` (Model/ReaderFull.lean) against the hand-written `RState.readLine` / `readDoc`.
-/
import DsdVerif.Lemmas.ReaderFull
import DsdVerif.Props.C16Reader

namespace Dsd.C16F
open Dsd Dsd.PP Dsd.ReaderFull Dsd.RFull

/-- all elements are tokens -/
def AllToks (ts : List Tree) : Prop := ∀ t ∈ ts, ∃ s, t = .tok s

theorem asStrs_toks (ts : List Tree) (h : AllToks ts) : asStrs ts = .ok (tokList ts) := by
  induction ts with
  | nil => rfl
  | cons t ts ih =>
    obtain ⟨x, rfl⟩ := h t (by simp)
    have := ih (fun t ht => h t (by simp [ht]))
    unfold asStrs at this ⊢
    simp only [List.mapM_cons, asStr, this, tokList, List.filterMap_cons, tokStr]
    rfl

/-! ### dispatch -/

theorem dispatch_dl (s : RState) (sl : Slots) (t1 : Tree) (rest : List Tree) :
    s.readLineFull sl (.tok "dl-domain" :: t1 :: rest) = lineDl s sl (.tok "dl-domain" :: t1 :: rest) t1 := rfl
theorem dispatch_sl (s : RState) (sl : Slots) (t1 : Tree) (rest : List Tree) :
    s.readLineFull sl (.tok "sl-domain" :: t1 :: rest) = lineSl s sl (.tok "sl-domain" :: t1 :: rest) t1 := rfl
theorem dispatch_comp (s : RState) (sl : Slots) (t1 : Tree) (rest : List Tree) :
    s.readLineFull sl (.tok "composite-domain" :: t1 :: rest) =
      lineComposite s sl (.tok "composite-domain" :: t1 :: rest) t1 := rfl
theorem dispatch_sc (s : RState) (sl : Slots) (t1 : Tree) (rest : List Tree) :
    s.readLineFull sl (.tok "strand-complex" :: t1 :: rest) =
      lineStrandComplex s sl (.tok "strand-complex" :: t1 :: rest) t1 := rfl
theorem dispatch_kernel (s : RState) (sl : Slots) (t1 : Tree) (rest : List Tree) :
    s.readLineFull sl (.tok "kernel-complex" :: t1 :: rest) = lineKernel s sl (.tok "kernel-complex" :: t1 :: rest) t1 := rfl
theorem dispatch_resting (s : RState) (sl : Slots) (t1 : Tree) (rest : List Tree) :
    s.readLineFull sl (.tok "resting-macrostate" :: t1 :: rest) =
      lineResting s sl (.tok "resting-macrostate" :: t1 :: rest) t1 := rfl
theorem dispatch_rxn (s : RState) (sl : Slots) (t1 : Tree) (rest : List Tree) :
    s.readLineFull sl (.tok "reaction" :: t1 :: rest) = lineReaction s sl (.tok "reaction" :: t1 :: rest) t1 := rfl

/-! ### `dl-domain` -/

theorem readLineFull_dl (s : RState) (sl : Slots) (name len : String) (rest : List Tree) :
    s.readLineFull sl (.tok "dl-domain" :: .tok name :: .tok len :: rest) =
    s.readLine sl (.tok "dl-domain" :: .tok name :: .tok len :: rest) := by
  rw [dispatch_dl]
  simp only [RState.readLine, lineDl, item, isStr, asStr, pyInt, List.getElem?_cons_zero, List.getElem?_cons_succ]
  simp only [domReq_eq]
  by_cases h1 : (len == "short") = true
  · simp only [h1, if_true]; rfl
  · by_cases h2 : (len == "long") = true
    · simp only [h1, h2, if_true, Bool.false_eq_true, if_false]; rfl
    · simp only [h1, h2, Bool.false_eq_true, if_false]
      cases len.toNat? <;> rfl

/-! ### `sl-domain` -/

theorem readLineFull_sl (s : RState) (sl : Slots) (name con : String) :
    s.readLineFull sl [.tok "sl-domain", .tok name, .tok con] =
    s.readLine sl [.tok "sl-domain", .tok name, .tok con] := by
  rw [dispatch_sl]
  simp only [RState.readLine, lineSl, item, asStr, List.getElem?_cons_zero, List.getElem?_cons_succ, domReq_eq]
  rfl

theorem readLineFull_slLen (s : RState) (sl : Slots) (name con n : String) (hn : (n.toNat?).isSome) :
    s.readLineFull sl [.tok "sl-domain", .tok name, .tok con, .tok n] =
    s.readLine sl [.tok "sl-domain", .tok name, .tok con, .tok n] := by
  rw [dispatch_sl]
  obtain ⟨k, hk⟩ := Option.isSome_iff_exists.mp hn
  simp only [RState.readLine, lineSl, item, asStr, pyInt, hk, List.getElem?_cons_zero, List.getElem?_cons_succ,
    domReq_eq, List.length_cons, List.length_nil]
  by_cases hkc : k = con.length
  · simp [hkc]; rfl
  · simp [hkc]

/-! ### `composite-domain`, `strand-complex`, `resting-macrostate` -/

theorem readLineFull_comp (s : RState) (sl : Slots) (name : String) (doms rest : List Tree) (hd : AllToks doms) :
    s.readLineFull sl (.tok "composite-domain" :: .tok name :: .grp doms :: rest) =
    s.readLine sl (.tok "composite-domain" :: .tok name :: .grp doms :: rest) := by
  rw [dispatch_comp]
  simp only [RState.readLine, lineComposite, item, asStr, asList, List.getElem?_cons_zero, List.getElem?_cons_succ,
    Except.bind, asStrs_toks doms hd, domList_eq]
  generalize listComp (fun s d => ctorDomain sl s { name := some d }) s (tokList doms) = r
  obtain ⟨s1, r1⟩ := r
  cases r1 with
  | error e => rfl
  | ok ids =>
    simp only [ctorStrand, ofOut]
    cases s1.w.mkStrand sl.strand (some (List.map some ids)) (some name) with
    | mk w' out => cases out <;> rfl

theorem foldl_join {α} (sep : α) (a : List α) (rest : List (List α)) :
    rest.foldl (fun acc b => acc ++ [sep] ++ b) a = joinWith sep (a :: rest) := by
  induction rest generalizing a with
  | nil => rfl
  | cons b rest ih =>
    rw [List.foldl_cons, ih]
    cases rest with
    | nil => simp [joinWith]
    | cons c rest => simp [joinWith]

theorem readLineFull_sc (s : RState) (sl : Slots) (name db : String) (strands : List Tree) (hd : AllToks strands) :
    s.readLineFull sl [.tok "strand-complex", .tok name, .grp strands, .tok db] =
    s.readLine sl [.tok "strand-complex", .tok name, .grp strands, .tok db] := by
  rw [dispatch_sc]
  simp only [RState.readLine, lineStrandComplex, item, asStr, asList, List.getElem?_cons_zero, List.getElem?_cons_succ,
    Except.bind, asStrs_toks strands hd, collect_eq]
  generalize listComp (strandSeq sl) s (tokList strands) = r
  obtain ⟨s1, r1⟩ := r
  cases r1 with
  | error e => rfl
  | ok st =>
    cases st with
    | nil => rfl
    | cons a rest =>
      simp only [List.isEmpty_cons, Bool.false_eq_true, if_false, List.map_cons, foldl_join, ctorComplex, ofOut]
      cases s1.w.mkCplx sl.cplx (some (joinWith none (List.map some a :: List.map (fun x => List.map some x) rest)))
        (List.filter (fun c => c != ' ') db.toList) (some name) none with
      | mk w' r2 => obtain ⟨out, ids⟩ := r2; cases out <;> rfl

theorem readLineFull_resting (s : RState) (sl : Slots) (name : String) (mem : List Tree) (hd : AllToks mem) :
    s.readLineFull sl [.tok "resting-macrostate", .tok name, .grp mem] =
    s.readLine sl [.tok "resting-macrostate", .tok name, .grp mem] := by
  rw [dispatch_resting]
  simp only [RState.readLine, lineResting, item, asStr, asList, List.getElem?_cons_zero, List.getElem?_cons_succ,
    Except.bind, asStrs_toks mem hd]
  rw [lookupAll_eq _ (fun s x => ctorComplex sl s none [] (some x)) (fun s n => rfl)]
  generalize listComp (fun s x => ctorComplex sl s none [] (some x)) s (tokList mem) = r
  obtain ⟨s1, r1⟩ := r
  cases r1 with
  | error e => rfl
  | ok ids =>
    simp only [ctorMacro, ofOut]
    cases s1.w.mkMacro sl.macr (some ids) (some name) with
    | mk w' out => cases out <;> rfl

/-! ### `reaction` -/

theorem head_toks (a : List Tree) (h : AllToks a) :
    (if a.isEmpty then (Except.ok none : Except RErr (Option String))
     else match (item a 0).bind asStr with
       | .error e => .error e
       | .ok x => .ok (some x)) = .ok (tokList a).head? := by
  cases a with
  | nil => rfl
  | cons t a =>
    obtain ⟨x, rfl⟩ := h t (by simp)
    rfl

theorem infoHead_eq (a0 a1 a2 : List Tree) (h0 : AllToks a0) (h1 : AllToks a1) (h2 : AllToks a2) :
    infoHead [.grp a0, .grp a1, .grp a2] 0 = .ok (tokList a0).head? ∧
    infoHead [.grp a0, .grp a1, .grp a2] 1 = .ok (tokList a1).head? ∧
    infoHead [.grp a0, .grp a1, .grp a2] 2 = .ok (tokList a2).head? := by
  refine ⟨?_, ?_, ?_⟩ <;>
    simp only [infoHead, List.isEmpty_cons, Bool.false_eq_true, if_false, item, List.getElem?_cons_zero,
      List.getElem?_cons_succ, Except.bind, asList]
  · exact head_toks a0 h0
  · exact head_toks a1 h1
  · exact head_toks a2 h2

theorem infoError_ok (a0 a1 a2 : List Tree) (h1 : AllToks a1) :
    ∃ x, infoError [.grp a0, .grp a1, .grp a2] = .ok x := by
  simp only [infoError, List.isEmpty_cons, Bool.false_eq_true, if_false, item, List.getElem?_cons_zero,
    List.getElem?_cons_succ, Except.bind, asList]
  split
  · exact ⟨_, rfl⟩
  · split
    · rename_i hlen
      match a1, h1, hlen with
      | [t0, t1], h1, _ =>
        obtain ⟨x, rfl⟩ := h1 t1 (by simp)
        exact ⟨_, rfl⟩
    · exact ⟨_, rfl⟩

theorem readLineFull_rxn_plain (s : RState) (sl : Slots) (rs ps : List Tree) (hr : AllToks rs) (hp : AllToks ps) :
    s.readLineFull sl [.tok "reaction", .grp [], .grp rs, .grp ps] =
    s.readLine sl [.tok "reaction", .grp [], .grp rs, .grp ps] := by
  rw [dispatch_rxn]
  simp only [RState.readLine, lineReaction, readReaction, infoHead, infoError, item, asList,
    List.getElem?_cons_zero, List.getElem?_cons_succ, Except.bind, asStrs_toks rs hr, asStrs_toks ps hp,
    List.isEmpty_nil, if_true]

theorem readLineFull_rxn_info (s : RState) (sl : Slots) (ty ra un rs ps : List Tree) (hty : AllToks ty)
    (hra : AllToks ra) (hun : AllToks un) (hr : AllToks rs) (hp : AllToks ps) :
    s.readLineFull sl [.tok "reaction", .grp [.grp ty, .grp ra, .grp un], .grp rs, .grp ps] =
    s.readLine sl [.tok "reaction", .grp [.grp ty, .grp ra, .grp un], .grp rs, .grp ps] := by
  rw [dispatch_rxn]
  obtain ⟨e0, e1, e2⟩ := infoHead_eq ty ra un hty hra hun
  obtain ⟨x, ex⟩ := infoError_ok ty ra un hra
  simp only [RState.readLine, lineReaction, readReaction, item, asList, List.getElem?_cons_zero,
    List.getElem?_cons_succ, Except.bind, asStrs_toks rs hr, asStrs_toks ps hp, e0, e1, e2, ex]
  cases (tokList ra).head? with
  | none => rfl
  | some rate =>
    cases (tokList ty).head? with
    | none => rfl
    | some t =>
      by_cases hc : Gen.rtypes.contains t = true
      · simp only [hc, if_true, Bool.not_true, Bool.false_eq_true, if_false, Option.getD_some]
        by_cases hcond : (t == "condensed") = true
        · simp only [hcond, if_true]
          rw [lookupAll_eq _ (fun s x => ctorMacro sl s none (some x)) (fun _ _ => rfl)]
          generalize listComp (fun s x => ctorMacro sl s none (some x)) s (tokList rs) = r
          obtain ⟨s1, r1⟩ := r
          cases r1 with
          | error e => rfl
          | ok rids =>
            simp only
            rw [lookupAll_eq _ (fun s x => ctorMacro sl s none (some x)) (fun _ _ => rfl)]
            generalize listComp (fun s x => ctorMacro sl s none (some x)) s1 (tokList ps) = r
            obtain ⟨s2, r2⟩ := r
            cases r2 with
            | error e => rfl
            | ok pids =>
              simp only [ctorReaction, ofOut]
              cases (s2.w.mkRxn sl.rxn (some rids) (some pids) (some t) none).2.fst <;> rfl
        · simp only [hcond, Bool.false_eq_true, if_false]
          rw [lookupAll_eq _ (fun s x => ctorComplex sl s none [] (some x)) (fun _ _ => rfl)]
          generalize listComp (fun s x => ctorComplex sl s none [] (some x)) s (tokList rs) = r
          obtain ⟨s1, r1⟩ := r
          cases r1 with
          | error e => rfl
          | ok rids =>
            simp only
            rw [lookupAll_eq _ (fun s x => ctorComplex sl s none [] (some x)) (fun _ _ => rfl)]
            generalize listComp (fun s x => ctorComplex sl s none [] (some x)) s1 (tokList ps) = r
            obtain ⟨s2, r2⟩ := r
            cases r2 with
            | error e => rfl
            | ok pids =>
              simp only [ctorReaction, ofOut]
              cases (s2.w.mkRxn sl.rxn (some rids) (some pids) (some t) none).2.fst <;> rfl
      · simp only [hc, Bool.false_eq_true, if_false, Bool.not_false, if_true]

/-! ### `kernel-complex` -/

theorem readLineFull_kernel (s : RState) (sl : Slots) (name : String) (pat rest : List Tree) (hk : RdL.KForest pat)
    (hsz : treeSize 1000 pat < 1000)
    (hrest : rest = [] ∨ ∃ m v u, rest = [.grp [.tok m, .tok v, .tok u]]) :
    s.readLineFull sl (.tok "kernel-complex" :: .tok name :: .grp pat :: rest) =
      s.readLine sl (.tok "kernel-complex" :: .tok name :: .grp pat :: rest) ∨
    (s.readLineFull sl (.tok "kernel-complex" :: .tok name :: .grp pat :: rest)).2 =
      .error (.fault "str-in-sequence") := by
  rw [dispatch_kernel]
  obtain ⟨names, struct, hres, hlen, hne⟩ := RdL.resolveKernel_ok pat hk hsz
  have hfull : resolveLoops (treeSize 1000 pat + 2) pat = .ok (names, struct) := by
    rw [(resolveLoops_eq _ pat hk).1, hres]; rfl
  simp only [RState.readLine, lineKernel, item, asStr, asList, List.getElem?_cons_zero, List.getElem?_cons_succ,
    Except.bind, hres, hfull, attempt_eq]
  generalize s.domList sl (List.filter (fun x => x != "+") names) = D
  obtain ⟨s1, rd⟩ := D
  have tail : ∀ (s1 : RState) (seq : List (Option Nat)) (sst : List Char),
      (match ctorComplex sl s1 (some seq) sst (some name) with
        | (s1, .error e) => (s1, .error e)
        | (s2, .ok id) =>
          if (Tree.tok "kernel-complex" :: Tree.tok name :: Tree.grp pat :: rest).length > 3 then
            match (item rest 0).bind asList with
            | .error e => (s2, .error e)
            | .ok l3 =>
              if l3.length ≠ 3 then (s2, .error .assertion)
              else
                match asStrs l3 with
                | .ok [mode, value, unit] => (s2.setConc id (mode, value, unit), .ok (RObj.cplx id))
                | .ok _ => (s2, .error .assertion)
                | .error e => (s2, .error e)
          else (s2, .ok (RObj.cplx id))) =
      (match (s1.w.mkCplx sl.cplx (some seq) sst (some name) none).2.fst with
        | Out.ret id _ =>
          match rest with
          | [Tree.grp [Tree.tok mode, Tree.tok value, Tree.tok unit]] =>
            (({ s1 with w := (s1.w.mkCplx sl.cplx (some seq) sst (some name) none).fst } : RState).setConc id (mode, value, unit),
              Except.ok (RObj.cplx id))
          | [] => ({ s1 with w := (s1.w.mkCplx sl.cplx (some seq) sst (some name) none).fst }, Except.ok (RObj.cplx id))
          | _ => ({ s1 with w := (s1.w.mkCplx sl.cplx (some seq) sst (some name) none).fst }, Except.error RErr.assertion)
        | e => ({ s1 with w := (s1.w.mkCplx sl.cplx (some seq) sst (some name) none).fst }, Except.error (RErr.ofOut e))) := by
    intro s1 seq sst
    simp only [ctorComplex, ofOut]
    generalize s1.w.mkCplx sl.cplx (some seq) sst (some name) none = R
    obtain ⟨w', out, ids⟩ := R
    rcases hrest with rfl | ⟨m, v, u, rfl⟩ <;> cases out <;> rfl
  cases rd with
  | ok ids =>
    left
    simp only [item, Except.bind] at tail ⊢
    exact tail s1 _ _
  | error e =>
    cases e with
    | singleton =>
      simp only
      have hfb := fallback_eq sl names struct s1 [] [] (loopBudget s1 names) hlen rfl
        (steps_le_budget sl names struct s1).1
      simp only [List.nil_append, List.length_nil] at hfb
      rw [hfb]
      have hrel := expandS_rel sl names struct s1 hne
      generalize s1.expandKernel sl names struct = H at hrel ⊢
      generalize (expandS sl s1 names struct).1 = F at hrel ⊢
      obtain ⟨s2, h⟩ := H
      obtain ⟨s2', f⟩ := F
      obtain ⟨r1, r2⟩ := hrel
      simp only at r1 r2
      subst r1
      cases h with
      | error e1 =>
        cases f with
        | error e2 => subst r2; left; rfl
        | ok p => exact absurd r2 (by simp)
      | ok q =>
        obtain ⟨ids, st⟩ := q
        cases f with
        | error e2 => exact absurd r2 (by simp)
        | ok p =>
          obtain ⟨it, st'⟩ := p
          simp only at r2
          rcases r2 with ⟨a, b⟩ | a
          · left
            subst b
            simp only [lift, List.nil_append, a, item, Except.bind] at tail ⊢
            exact tail s2' _ _
          · right
            simp only [lift, List.nil_append, a]
    | _ => left; rfl

/-! ### all line shapes of the grammar -/

/-- the line shapes the PIL grammar produces (token trees after the parse actions), with the token-ness the
    transcription relies on -/
inductive FullLine : List Tree → Prop
  | dl (name len : String) (rest : List Tree) : FullLine (.tok "dl-domain" :: .tok name :: .tok len :: rest)
  | sl (name con : String) : FullLine [.tok "sl-domain", .tok name, .tok con]
  | slLen (name con n : String) : (n.toNat?).isSome → FullLine [.tok "sl-domain", .tok name, .tok con, .tok n]
  | comp (name : String) (doms rest : List Tree) : AllToks doms →
      FullLine (.tok "composite-domain" :: .tok name :: .grp doms :: rest)
  | strandComplex (name db : String) (strands : List Tree) : AllToks strands →
      FullLine [.tok "strand-complex", .tok name, .grp strands, .tok db]
  | kernel (name : String) (pat : List Tree) : RdL.KForest pat → treeSize 1000 pat < 1000 →
      FullLine [.tok "kernel-complex", .tok name, .grp pat]
  | kernelConc (name mode value unit : String) (pat : List Tree) : RdL.KForest pat → treeSize 1000 pat < 1000 →
      FullLine [.tok "kernel-complex", .tok name, .grp pat, .grp [.tok mode, .tok value, .tok unit]]
  | resting (name : String) (mem : List Tree) : AllToks mem → FullLine [.tok "resting-macrostate", .tok name, .grp mem]
  | reactionPlain (rs ps : List Tree) : AllToks rs → AllToks ps → FullLine [.tok "reaction", .grp [], .grp rs, .grp ps]
  | reactionInfo (ty ra un rs ps : List Tree) : AllToks ty → AllToks ra → AllToks un → AllToks rs → AllToks ps →
      FullLine [.tok "reaction", .grp [.grp ty, .grp ra, .grp un], .grp rs, .grp ps]

/-- what the world cannot represent: a name standing for a composite domain WITHOUT domains stays in the list as a
    string (see FINDING 1) -/
def StrInSequence (r : RState × Except RErr RObj) : Prop := r.2 = .error (.fault "str-in-sequence")

/-- **`read_pil_line`: the transcription and the hand-written model agree on every line of the grammar** — same
    state, same result — in every state (no invariant needed), except when a kernel name stands for a composite domain
    without domains -/
theorem readLineFull_eq (s : RState) (sl : Slots) (line : List Tree) (h : FullLine line) :
    s.readLineFull sl line = s.readLine sl line ∨ StrInSequence (s.readLineFull sl line) := by
  cases h with
  | dl name len rest => exact Or.inl (readLineFull_dl s sl name len rest)
  | sl name con => exact Or.inl (readLineFull_sl s sl name con)
  | slLen name con n hn => exact Or.inl (readLineFull_slLen s sl name con n hn)
  | comp name doms rest hd => exact Or.inl (readLineFull_comp s sl name doms rest hd)
  | strandComplex name db strands hd => exact Or.inl (readLineFull_sc s sl name db strands hd)
  | kernel name pat hk hsz => exact readLineFull_kernel s sl name pat [] hk hsz (Or.inl rfl)
  | kernelConc name mode value unit pat hk hsz =>
    exact readLineFull_kernel s sl name pat _ hk hsz (Or.inr ⟨mode, value, unit, rfl⟩)
  | resting name mem hd => exact Or.inl (readLineFull_resting s sl name mem hd)
  | reactionPlain rs ps hr hp => exact Or.inl (readLineFull_rxn_plain s sl rs ps hr hp)
  | reactionInfo ty ra un rs ps h1 h2 h3 h4 h5 => exact Or.inl (readLineFull_rxn_info s sl ty ra un rs ps h1 h2 h3 h4 h5)

theorem fullLine_head (line : List Tree) (h : FullLine line) : ∃ k rest, line = .tok k :: rest := by
  cases h <;> exact ⟨_, _, rfl⟩

/-! ### `read_pil` -/

/-- **`read_pil`: the transcription and the hand-written model agree on every document of grammar lines** -/
theorem readDocFull_eq (sl : Slots) (ignore : List String) (before : List Nat) (doc : List Tree)
    (hdoc : ∀ t ∈ doc, ∃ l, t = .grp l ∧ FullLine l) : ∀ (s : RState) (d : RDict),
    s.readDocFull sl ignore before doc d = s.readDoc sl ignore before doc d ∨
    (s.readDocFull sl ignore before doc d).2 = .error (.fault "str-in-sequence") := by
  induction doc with
  | nil => intro s d; exact Or.inl rfl
  | cons t rest ih =>
    intro s d
    obtain ⟨line, rfl, hl⟩ := hdoc t (by simp)
    have ih' := ih (fun t ht => hdoc t (by simp [ht]))
    obtain ⟨k, lrest, rfl⟩ := fullLine_head line hl
    unfold RState.readDocFull RState.readDoc
    simp only [asList, item, List.getElem?_cons_zero, List.head?_cons, Option.bind_some, tokStr, Option.getD_some]
    by_cases hig : ignore.contains k = true
    · have hne : ignore.isEmpty = false := by
        cases ignore with
        | nil => simp at hig
        | cons a b => rfl
      simp only [hne, Bool.false_eq_true, if_false, hig, if_true]
      exact ih' s d
    · have hig' : ignore.contains k = false := by simpa using hig
      simp only [hig', ite_self, Bool.false_eq_true, if_false]
      rcases readLineFull_eq s sl _ hl with heq | hstr
      · rw [heq]
        generalize s.readLine sl (Tree.tok k :: lrest) = R
        obtain ⟨s1, r⟩ := R
        cases r with
        | error e => exact Or.inl rfl
        | ok obj =>
          cases obj with
          | dom id =>
            simp only [ctorInvert, ofOut]
            generalize s1.w.invert id = I
            obtain ⟨w', out⟩ := I
            cases out with
            | ret cid created =>
              simp only
              cases h1 : List.lookup id s1.dseq with
              | none => simp only [Option.isSome_none, Bool.false_and, Bool.false_eq_true, if_false]; exact ih' _ _
              | some sq =>
                cases h2 : List.lookup cid s1.dseq with
                | some sq2 =>
                  simp only [Option.isSome_some, Option.isNone_some, Bool.and_false, Bool.false_eq_true, if_false]
                  exact ih' _ _
                | none =>
                  simp only [Option.isSome_some, Option.isNone_none, Bool.and_self, if_true, Option.getD_some]
                  cases Iupac.reverseWcComplement Iupac.Material.dna sq.toList with
                  | none => exact Or.inl rfl
                  | some rc => exact ih' _ _
            | _ => exact Or.inl rfl
          | rxn id c => cases c <;> exact ih' _ _
          | _ => exact ih' _ _
      · right
        unfold StrInSequence at hstr
        generalize s.readLineFull sl (Tree.tok k :: lrest) = R at hstr
        obtain ⟨s1, r⟩ := R
        simp only at hstr
        subst hstr
        rfl

/-! ### the shapes of Props/C16Reader -/

theorem toks_all {ts : List Tree} (h : C16.Toks ts) : AllToks ts := fun t ht => by
  obtain ⟨x, hx, _⟩ := h.2 t ht; exact ⟨x, hx⟩

/-- every `C16.Typed` line is a `FullLine`, given what `Typed` leaves open but the grammar guarantees: the optional
    fourth element of an `sl-domain` line is a number (`Word(nums)`), the rate and unit groups of a reaction hold
    tokens -/
theorem typed_fullLine (l : List Tree) (h : C16.Typed l)
    (hnum : ∀ name con len, l = [.tok "sl-domain", .tok name, .tok con, .tok len] → (len.toNat?).isSome)
    (hinfo : ∀ ty ra un rs ps, l = [.tok "reaction", .grp [.grp ty, .grp ra, .grp un], .grp rs, .grp ps] →
      AllToks ra ∧ AllToks un) : FullLine l := by
  cases h with
  | dl name len _ _ => exact FullLine.dl name len []
  | sl name con _ _ => exact FullLine.sl name con
  | slLen name con len _ _ => exact FullLine.slLen name con len (hnum name con len rfl)
  | comp name doms rest _ hd => exact FullLine.comp name doms rest (toks_all hd)
  | strandComplex name db strands _ hs => exact FullLine.strandComplex name db strands (fun t ht => by
      obtain ⟨x, hx, _⟩ := hs t ht; exact ⟨x, hx⟩)
  | kernel name pat _ hf _ hsz => exact FullLine.kernel name pat (C16.forest_k hf) hsz
  | kernelConc name mode value unit pat _ hf _ hsz => exact FullLine.kernelConc name mode value unit pat (C16.forest_k hf) hsz
  | resting name mem _ hm => exact FullLine.resting name mem (toks_all hm)
  | reactionPlain rs ps hr hp => exact FullLine.reactionPlain rs ps (toks_all hr) (toks_all hp)
  | reactionInfo ty ra un rs ps hty _ hr hp =>
    obtain ⟨h1, h2⟩ := hinfo ty ra un rs ps rfl
    refine FullLine.reactionInfo ty ra un rs ps ?_ h1 h2 (toks_all hr) (toks_all hp)
    rcases hty with rfl | ⟨t, rfl⟩
    · intro t ht; cases ht
    · intro t' ht; simp at ht; exact ⟨t, ht⟩

/-! ### closed examples -/

namespace Ex

def T (s : String) : Tree := .tok s
def Gp (l : List Tree) : Tree := .grp l

/-- a document with every statement kind; `x = a b` is a composite domain used in kernel strings (fallback loop:
    in the middle of a strand, opening a loop, and as the complement `x*` at the end) -/
def doc : List Tree := [
  Gp [T "dl-domain", T "a", T "long"],
  Gp [T "dl-domain", T "b", T "short"],
  Gp [T "sl-domain", T "c", T "ACGT"],
  Gp [T "composite-domain", T "x", Gp [T "a", T "b"], T "20"],
  Gp [T "strand-complex", T "X1", Gp [T "x"], T ". ."],
  Gp [T "kernel-complex", T "K", Gp [T "a", Gp [T "b"], T "+", T "x", T "c*"], Gp [T "i", T "1e-7", T "M"]],
  Gp [T "kernel-complex", T "K2", Gp [T "x", Gp [T "+"], T "c"]],
  Gp [T "kernel-complex", T "K3", Gp [T "c", T "x*"]],
  Gp [T "resting-macrostate", T "K", Gp [T "K", T "K2"]],
  Gp [T "reaction", Gp [Gp [T "bind21"], Gp [T "1e6", T "inf"], Gp [T "/M/s"]], Gp [T "K", T "K2"], Gp [T "K3"]],
  Gp [T "reaction", Gp [Gp [T "condensed"], Gp [T "2"], Gp [T "/s"]], Gp [T "K"], Gp [T "K"]],
  Gp [T "reaction", Gp [], Gp [T "K"], Gp [T "K3"]]]

/-- what a line returned, as text -/
def tag : Except RErr RObj → String
  | .error .singleton => "SingletonError"
  | .error .objectInit => "ObjectInitError"
  | .error .secondaryStructure => "SecondaryStructureError"
  | .error .notImplemented => "NotImplementedError"
  | .error .assertion => "AssertionError"
  | .error .pilFormat => "PilFormatError"
  | .error (.fault k) => k
  | .ok (.dom id) => "Domain " ++ toString id
  | .ok (.strand id) => "Strand " ++ toString id
  | .ok (.cplx id) => "Complex " ++ toString id
  | .ok (.macro id) => "Macrostate " ++ toString id
  | .ok (.rxn id _) => "Reaction " ++ toString id
  | .ok .other => "other"

/-- the live complexes: name, sequence, structure -/
def cplxs (s : RState) : List (String × List String × List Char) :=
  s.w.cplxs.flatMap (fun c => c.reg.objs.map (fun o => (o.name, o.canon.1, o.canon.2)))

def dicts (r : Except RErr RDict) : List (String × Nat) × List (String × Nat) × List (String × Nat) :=
  match r with
  | .ok d => (d.domains ++ d.strands, d.complexes ++ d.macrostates, (d.det ++ d.con).map (fun i => ("", i)))
  | .error _ => ([], [], [])

/-- both readers on the document: the composite domain is expanded in place (`x c*` → `a b c*` with copied structure
    characters, `x( + )` → `a( b( + ) )`, `x*` → `b* a*`) -/
example : cplxs (({} : RState).readDocFull {} [] [] doc {}).1 =
    [("X1", ["a", "b"], ['.', '.']),
     ("K", ["a", "b", "a*", "+", "a", "b", "c*"], ['(', '.', ')', '+', '.', '.', '.']),
     ("K2", ["a", "b", "+", "b*", "a*", "c"], ['(', '(', '+', ')', ')', '.']),
     ("K3", ["c", "b*", "a*"], ['.', '.', '.'])] := by decide

def docF := ({} : RState).readDocFull {} [] [] doc {}
def docH := ({} : RState).readDoc {} [] [] doc {}

/-- the two readers agree on the document (also a consequence of `readDocFull_eq`) -/
example : cplxs docF.1 = cplxs docH.1 ∧ dicts docF.2 = dicts docH.2 ∧ docF.1.w.held = docH.1.w.held ∧
    docF.1.w.nextId = docH.1.w.nextId ∧ docF.1.dseq = docH.1.dseq ∧ docF.1.conc = docH.1.conc ∧
    docF.1.rate = docH.1.rate ∧
    docF.1.rate = [(12, "1e6", some "/M/s"), (13, "2", some "/s")] ∧ docF.1.conc = [(8, "i", "1e-7", "M")] :=
  ⟨by decide, by decide, by decide, by decide, by decide, by decide, by decide, by decide, by decide⟩

/-- AGREEMENT worth recording (question 1: which exceptions escape on grammar-producible lines).
    `macrostate M1 = [K]` raises AssertionError (`MacrostateS.identifiers` asserts that the name is the name of a
    member; reproduced on the code); a missing complex raises SingletonError — the handlers `except KeyError` of
    `read_pil_line` never fire, `PilFormatError("Cannot find complex")` is unreachable. -/
example :
    let s := (({} : RState).readDocFull {} [] [] doc {}).1
    tag (s.readLineFull {} [T "resting-macrostate", T "M1", Gp [T "K"]]).2 = "AssertionError" ∧
    tag (s.readLine {} [T "resting-macrostate", T "M1", Gp [T "K"]]).2 = "AssertionError" ∧
    tag (s.readLineFull {} [T "resting-macrostate", T "Q", Gp [T "Q"]]).2 = "SingletonError" ∧
    tag (s.readLineFull {} [T "reaction", Gp [Gp [T "open"], Gp [T "1"], Gp [T "/s"]], Gp [T "Q"], Gp [T "K"]]).2 =
      "SingletonError" := by decide

/-! ### FINDINGS -/

/-- the domain `a` and an EMPTY strand `x` (`StrandS([], name = 'x')`: possible through the API, not through the
    grammar, whose composite domains have at least one domain) -/
def sEmpty : RState :=
  let s0 := (({} : RState).readLine {} [T "dl-domain", T "a", T "short"]).1
  { s0 with w := (s0.w.mkStrand 0 (some []) (some "x")).1 }

/-- FINDING 1 (a kernel name that stands for a composite domain WITHOUT domains).  The inner loop
    `for i, sd in enumerate(subseq)` does not run, `sequence[e]` stays the STRING `'x'`, and `Complex(sequence, …)`
    creates the complex `a x` with a string in the place of a domain (reproduced on the code).  Model/Reader.lean
    drops the name and creates the complex `a`.  The world of Model/World.lean cannot hold a string in a sequence:
    the transcription reports it as the fault `str-in-sequence`. -/
theorem finding_empty_composite :
    tag (sEmpty.readLineFull {} [T "kernel-complex", T "K", Gp [T "a", T "x"]]).2 = "str-in-sequence" ∧
    tag (sEmpty.readLine {} [T "kernel-complex", T "K", Gp [T "a", T "x"]]).2 = "Complex 2" ∧
    cplxs (sEmpty.readLine {} [T "kernel-complex", T "K", Gp [T "a", T "x"]]).1 = [("K", ["a"], ['.'])] := by decide

/-- FINDING 2 (lines the grammar does not produce; the two models classify them differently).
    * a line with fewer elements than its branch reads (`name = line[1]`, `line[2]`): IndexError, the hand-written model
      says "cannot interpret" (`other`);
    * a `kernel-complex` line with further elements behind the concentration: the code only looks at `line[3]`, the
      hand-written model reports AssertionError;
    * a fourth element of an `sl-domain` line that is not a number (`finding_sl_nonnumeric` below). -/
theorem finding_ungrammatical_lines :
    tag (({} : RState).readLineFull {} [T "dl-domain", T "a"]).2 = "IndexError" ∧
    tag (({} : RState).readLine {} [T "dl-domain", T "a"]).2 = "other" ∧
    tag (sEmpty.readLineFull {} [T "kernel-complex", T "K", Gp [T "a"], Gp [T "i", T "1", T "M"], T "zzz"]).2 =
      "Complex 2" ∧
    tag (sEmpty.readLine {} [T "kernel-complex", T "K", Gp [T "a"], Gp [T "i", T "1", T "M"], T "zzz"]).2 =
      "AssertionError" := by decide

/-- … `int(line[3])` raises ValueError where the hand-written model reports PilFormatError -/
theorem finding_sl_nonnumeric (s : RState) (sl : Slots) (name con n : String) (hn : n.toNat? = none) :
    s.readLineFull sl [.tok "sl-domain", .tok name, .tok con, .tok n] = (s, .error (.fault "ValueError")) ∧
    s.readLine sl [.tok "sl-domain", .tok name, .tok con, .tok n] = (s, .error .pilFormat) := by
  constructor
  · rw [dispatch_sl]
    simp only [lineSl, item, asStr, pyInt, hn, List.getElem?_cons_zero, List.getElem?_cons_succ, List.length_cons,
      List.length_nil]
    rfl
  · simp [RState.readLine, hn]

end Ex

end Dsd.C16F
