import DsdVerif.Props.C19Forms
import DsdVerif.Lemmas.PPSswRejectDoc

namespace Dsd.C19
open Dsd.PP Dsd.Gen Dsd.PP.Ssw Dsd.PP.Tabs

/-! C19, negative clauses at the text level, in general form: a statement with the WRONG ARITY (a reporter with one
or three arguments, a seesaw gate without output list, an inputfanout without its second number or without its
list) or with a NEGATIVE CONCENTRATION is rejected — with arbitrary blank/tab separators at every token boundary
(also on both sides of the minus sign), wherever the statement stands in the document: after `k0` blank lines and
any well-formed statements, and whatever follows it.

Formulation: the theorems are proved by evaluating the interpreter (`Ev … none`), not through `Yield`: they show
that EVERY statement alternative fails on these texts and that the document frame then fails, so they speak about
`parseDoc … = none` for the whole document.  (The `Yield` theorems of Props/C19Sound.lean remain the general
soundness statements: `reporter_arity`, `negative_concentration_rejected_general`.) -/

/-- the tokens `t0 :: toks` — in any layout — are no statement -/
structure BadKind (t0 : List Char) (toks : List (List Char)) : Prop where
  fail : ∃ b, StmtFail ssw_env t0 toks b ∧ b ≤ 3 * toks.length + 30
  head : ∃ c r, t0 = c :: r ∧ StartCh c
  notab0 : '\t' ∉ t0
  toksOK : ∀ t ∈ toks, TokOK t

theorem BadKind.bad {t0 : List Char} {toks : List (List Char)} (h : BadKind t0 toks) (S : Stream)
    (hS : S.map Prod.snd = toks) : BadStmt (t0 ++ txt S []) := by
  obtain ⟨b, hf, hb⟩ := h.fail
  obtain ⟨c, r, rfl, hc⟩ := h.head
  have hmem : ∀ x ∈ S, TokOK x.2 := by
    intro x hx
    apply h.toksOK
    rw [← hS]
    exact List.mem_map_of_mem hx
  have hlen := length_le_txt S [] (fun x hx => (hmem x hx).2)
  have hSl : S.length = toks.length := by rw [← hS]; simp
  refine ⟨⟨c, r ++ txt S [], rfl, hc⟩, ?_, b, ?_, fun R => ?_⟩
  · have := notab_txt S [] (fun x hx => (hmem x hx).1) (by simp)
    have h0 := h.notab0
    simp only [List.mem_append, not_or]
    exact ⟨h0, this⟩
  · simp only [List.length_append]
    simp only [List.length_nil] at hlen
    omega
  · rw [List.append_assoc, txt_rest]
    exact hf S R hS

theorem BadKind.badT {t0 : List Char} {toks : List (List Char)} (h : BadKind t0 toks) (ws : List (List Char))
    (hws : SepsOK (tmOf t0 toks) ws) : BadStmtT (renderW (tmOf t0 toks) ws) := by
  obtain ⟨ks, col', hk, hex⟩ := expand_template (tmOf t0 toks) ⟨h.notab0, toksOK_tmTail toks h.toksOK⟩ ws hws 0
  obtain ⟨S, hS, hr⟩ := render_tmTail toks ks hk
  refine ⟨t0 ++ txt S [], fun rest => ⟨col', ?_⟩, h.bad S hS⟩
  rw [hex rest]
  show (t0 ++ render (tmTail toks) ks) ++ _ = _
  rw [hr]

/-- **rejection, document level**: after `k0` blank lines and the well-formed statements `stmts` (each with its line
    end and blank lines), the malformed statement — its tokens separated by ANY blank/tab separators `ws` — makes the
    whole document fail, whatever text `R` follows -/
theorem BadKind.rejected {t0 : List Char} {toks : List (List Char)} (h : BadKind t0 toks) (k0 : Nat)
    (stmts : List Stmt) (hst : ∀ x ∈ stmts, StmtText x.1 x.2.1) (ws : List (List Char))
    (hlen : ws.length = toks.length) (hsep : ∀ w ∈ ws, IsSep w) (R : List Char) :
    parseDoc ssw_env ssw_grammar
      (String.ofList (List.replicate k0 '\n' ++ (stmtsText stmts ++ (renderW (tmOf t0 toks) ws ++ R)))) = none :=
  document_rejectedT k0 stmts hst _ (h.badT ws ((sepsOK_tmOf _ _ ws).mpr ⟨hlen, hsep⟩)) R

/-! ### wrong arity -/

/-- the token lists of the statements with a wrong number of arguments -/
inductive WrongArity : List Char → List (List Char) → Prop
  /-- `reporter [ n ]` -/
  | reporter1 (n : List Char) (hn : Digits n) :
      WrongArity ['r', 'e', 'p', 'o', 'r', 't', 'e', 'r'] [['['], n, [']']]
  /-- `reporter [ a , b , c ]` -/
  | reporter3 (a b c : List Char) (ha : Digits a) (hb : Digits b) (hc : TokOK c) :
      WrongArity ['r', 'e', 'p', 'o', 'r', 't', 'e', 'r'] (['['] :: ([a, [','], b] ++ [[','], c, [']']]))
  /-- `seesaw [ n , { i0 , i… } ]` -/
  | seesaw2 (n i0 : List Char) (is : List (List Char)) (hn : Digits n) (hi0 : Digits i0) (his : ∀ y ∈ is, Digits y) :
      WrongArity ['s', 'e', 'e', 's', 'a', 'w'] (['['] :: n :: [','] :: (braceToks i0 is ++ [[']']]))
  /-- `inputfanout [ a , { x0 , x… } ]` -/
  | fanoutNoNumber (a x0 : List Char) (xs : List (List Char)) (ha : Digits a) (h0 : TokOK x0)
      (hxs : ∀ y ∈ xs, TokOK y) :
      WrongArity ['i', 'n', 'p', 'u', 't', 'f', 'a', 'n', 'o', 'u', 't']
        (['['] :: a :: [','] :: (braceToks x0 xs ++ [[']']]))
  /-- `inputfanout [ a , b ]` -/
  | fanoutNoList (a b : List Char) (ha : Digits a) (hb : Digits b) :
      WrongArity ['i', 'n', 'p', 'u', 't', 'f', 'a', 'n', 'o', 'u', 't'] [['['], a, [','], b, [']']]

theorem badKind_of_wrongArity {t0 : List Char} {toks : List (List Char)} (h : WrongArity t0 toks) :
    BadKind t0 toks := by
  cases h with
  | reporter1 n hn =>
    exact ⟨⟨30, reporter1_fail n hn, by simp⟩, ⟨_, _, rfl, sc _ (by decide) (by decide) (by decide)⟩, by decide,
      ok_cons lok (ok_cons (tokOK_dig hn) (ok_cons lok ok_nil))⟩
  | reporter3 a b c ha hb hc =>
    exact ⟨⟨30, reporter3_fail a b c ha hb, by simp⟩, ⟨_, _, rfl, sc _ (by decide) (by decide) (by decide)⟩,
      by decide,
      ok_cons lok (ok_append (ok_cons (tokOK_dig ha) (ok_cons lok (ok_cons (tokOK_dig hb) ok_nil)))
        (ok_cons lok (ok_cons hc (ok_cons lok ok_nil))))⟩
  | seesaw2 n i0 is hn hi0 his =>
    refine ⟨⟨is.length + 50, seesaw_no_outputs_fail n i0 is hn hi0 his, ?_⟩,
      ⟨_, _, rfl, sc _ (by decide) (by decide) (by decide)⟩, by decide,
      ok_cons lok (ok_cons (tokOK_dig hn) (ok_cons lok
        (ok_append (tokOK_braces (fun _ h => tokOK_dig h) i0 is hi0 his) (ok_cons lok ok_nil))))⟩
    simp only [List.length_cons, List.length_append, length_braceToks, List.length_nil]; omega
  | fanoutNoNumber a x0 xs ha h0 hxs =>
    refine ⟨⟨40, fanout_no_number_fail a x0 xs ha, ?_⟩,
      ⟨_, _, rfl, sc _ (by decide) (by decide) (by decide)⟩, by decide,
      ok_cons lok (ok_cons (tokOK_dig ha) (ok_cons lok
        (ok_append (tokOK_braces (fun _ h => h) x0 xs h0 hxs) (ok_cons lok ok_nil))))⟩
    simp only [List.length_cons, List.length_append, length_braceToks, List.length_nil]; omega
  | fanoutNoList a b ha hb =>
    exact ⟨⟨40, fanout_no_list_fail a b ha hb, by simp⟩, ⟨_, _, rfl, sc _ (by decide) (by decide) (by decide)⟩,
      by decide,
      ok_cons lok (ok_cons (tokOK_dig ha) (ok_cons lok (ok_cons (tokOK_dig hb) (ok_cons lok ok_nil))))⟩

/-- **wrong arity is rejected, general form**: a reporter with one or three arguments, a seesaw gate without output
    list, an inputfanout without its second number or without its list — in ANY layout of blanks and tabs between
    the tokens, anywhere in a document -/
theorem wrong_arity_rejected {t0 : List Char} {toks : List (List Char)} (h : WrongArity t0 toks) (k0 : Nat)
    (stmts : List Stmt) (hst : ∀ x ∈ stmts, StmtText x.1 x.2.1) (ws : List (List Char))
    (hlen : ws.length = toks.length) (hsep : ∀ w ∈ ws, IsSep w) (R : List Char) :
    parseDoc ssw_env ssw_grammar
      (String.ofList (List.replicate k0 '\n' ++ (stmtsText stmts ++ (renderW (tmOf t0 toks) ws ++ R)))) = none :=
  (badKind_of_wrongArity h).rejected k0 stmts hst ws hlen hsep R

/-- the reporter with a single number, spelled out: `reporter` w1 `[` w2 n w3 `]` -/
theorem reporter_one_argument_rejected (n : List Char) (hn : Digits n) (w1 w2 w3 : List Char) (h1 : IsSep w1)
    (h2 : IsSep w2) (h3 : IsSep w3) (R : List Char) :
    parseDoc ssw_env ssw_grammar (String.ofList ("reporter".toList ++ w1 ++ ['['] ++ w2 ++ n ++ w3 ++ [']'] ++ R)) =
      none := by
  have := wrong_arity_rejected (WrongArity.reporter1 n hn) 0 [] (by simp) [w1, w2, w3] rfl
    (by intro w hw; simp at hw; rcases hw with rfl | rfl | rfl <;> assumption) R
  simpa [stmtsText, tmOf, tmTail, renderW, List.append_assoc] using this

/-! ### negative concentrations -/

theorem badKind_negconc {TX : List (List Char)} {tx : Tree} (hX : ConcArg TX tx) (v : List Char) (hv : TokOK v) :
    BadKind ['c', 'o', 'n', 'c'] (negTail TX v) where
  fail := ⟨60, negconc_stream_fail hX v, by
    have hl := length_concArg hX
    have : (negTail TX v).length = TX.length + 7 := by
      simp only [negTail, concToks, List.length_cons, List.length_append, List.length_nil]
    rw [this]; omega⟩
  head := ⟨_, _, rfl, sc _ (by decide) (by decide) (by decide)⟩
  notab0 := by decide
  toksOK := ok_cons lok (ok_append (ok_concArg hX) (ok_cons lok (ok_cons lok
    (ok_append (ok_cons hv (ok_cons lok (ok_cons lok ok_nil))) (ok_cons lok ok_nil)))))

/-- **negative concentrations are rejected, general form**: `conc [ X , - v * c ]` for every form of the first
    argument, with ANY blank/tab separators at every token boundary — in particular before and after the minus
    sign —, whatever `v`, anywhere in a document -/
theorem negative_concentration_rejected_layout {TX : List (List Char)} {tx : Tree} (hX : ConcArg TX tx)
    (v : List Char) (hv : TokOK v) (k0 : Nat) (stmts : List Stmt) (hst : ∀ x ∈ stmts, StmtText x.1 x.2.1)
    (ws : List (List Char)) (hlen : ws.length = (negTail TX v).length) (hsep : ∀ w ∈ ws, IsSep w) (R : List Char) :
    parseDoc ssw_env ssw_grammar (String.ofList (List.replicate k0 '\n' ++
      (stmtsText stmts ++ (renderW (tmOf ['c', 'o', 'n', 'c'] (negTail TX v)) ws ++ R)))) = none :=
  (badKind_negconc hX v hv).rejected k0 stmts hst ws hlen hsep R

/-- the wire form, spelled out: blanks/tabs `w1` before and `w2` after the minus sign -/
theorem negative_wire_concentration_rejected (a b v : List Char) (ha : Digits a) (hb : Digits b) (hv : Digits v)
    (w1 w2 : List Char) (h1 : IsSep w1) (h2 : IsSep w2) (R : List Char) :
    parseDoc ssw_env ssw_grammar
      (String.ofList ("conc[w[".toList ++ a ++ [','] ++ b ++ "],".toList ++ w1 ++ ['-'] ++ w2 ++ v ++ "*c]".toList ++ R)) =
      none := by
  have := negative_concentration_rejected_layout (ConcArg.wire a b ha (Or.inl hb)) v (tokOK_dig hv) 0 [] (by simp)
    [[], [], [], [], [], [], [], [], w1, w2, [], [], []] rfl
    (by
      intro w hw
      simp only [List.mem_cons, List.not_mem_nil, or_false] at hw
      rcases hw with rfl | rfl | rfl | rfl | rfl | rfl | rfl | rfl | rfl | rfl | rfl | rfl | rfl <;>
        first | assumption | (intro c hc; cases hc)) R
  simpa [stmtsText, tmOf, tmTail, negTail, wireToks, concToks, renderW, List.append_assoc] using this

end Dsd.C19
